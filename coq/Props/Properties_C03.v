(* C03 — halo exchange delivers owners' values; the reverse exchange is its adjoint.
   world = list of per-rank packages (receive side: (source, count) in buffer order; send side:
   (destination, local indices) in send-buffer order), as dumped from / constructed like ParComm. *)
From Coq Require Import List Arith Lia Bool Permutation.
From Raptor Require Import Base.Sums Dist.Comm Dist.CommProofs Dist.CommBuildProofs.
Import ListNotations.

(* (i) forward exchange, any payload type A (int, double, blocks, sparse rows): one check on the vector of
   global ids (fwd_ok, run on the implementation's dumped package on every run) implies that for EVERY
   global vector X slot j of rank p's receive buffer holds X at column-map entry j — the owner's value. *)
Theorem C03_forward_delivers_owner_values :
  forall (A : Type) (d : A) (w : world) (ids colmaps : list (list nat)) (big : nat) (X : list A),
  fwd_ok w ids colmaps big = true -> length X <= big ->
  forall p, p < length w ->
    forward d w (map (map (fun i => nth i X d)) ids) p = map (fun c => nth c X d) (nth p colmaps []).
Proof. exact @forward_delivers. Qed.

(* naturality: the exchange commutes with any map on payloads (block size, int/double, rows) *)
Theorem C03_forward_natural :
  forall (A A' : Type) (g : A -> A') (d : A) w xs p,
  forward (g d) w (map (map g) xs) p = map g (forward d w xs p).
Proof. exact @forward_natural. Qed.

(* (ii) reverse exchange with ANY reduction f (sum, max, select): the owner's entry is the fold of f, in
   send-buffer order, over exactly the contributions that the symbolic run routes to it, and nothing else *)
Theorem C03_reverse_folds_contributions :
  forall (A B : Type) (d : A) (f : B -> A -> B) (ys : list (list A)) w (init : list B) q,
  reverse f w ys init q
  = map (foldtok d f ys) (combine init (reverse_sym w (map (@length A) ys) (length init) q)).
Proof. exact @reverse_hom. Qed.

Section Sum.
Variable F : Type.
Variables (zero one : F) (add mul sub : F -> F -> F) (opp : F -> F).
Variable Fth : ring_theory zero one add mul sub opp (@eq F).

(* with addition over a commutative ring and a package accepted by rev_ok: entry i of owner q ends as its
   initial value plus the sum over ALL slots (p, j) whose column-map entry is the global id of that entry —
   the transpose of (i); independent of the arrival order recorded in the package *)
Theorem C03_reverse_sum_is_adjoint :
  forall (w : world) (ids colmaps : list (list nat)) (ys : list (list F)) (init : list F) q i,
  rev_ok w ids colmaps = true -> q < length w ->
  map (@length F) ys = map (@length nat) colmaps ->
  length init = length (nth q ids []) -> i < length init ->
  nth i (reverse add w ys init q) zero
  = add (nth i init zero)
        (sumf F zero add (map (val zero ys) (expected_wires colmaps (nth i (nth q ids []) 0)))).
Proof. intros. apply (reverse_sum_spec F zero one add mul sub opp Fth); assumption. Qed.
End Sum.

(* (iii) the CONSTRUCTION: for every partition (monotone first_cols starting at 0, any block sizes incl. empty
   ranks), every family of strictly increasing in-range column maps and EVERY arrival order sigma of the
   any-source probes, the package built like ParComm(partition, off_proc_column_map) passes the forward
   check; with (i) it therefore delivers the owners' values for every vector and payload type. *)
Theorem C03_construction_passes_forward_check :
  forall (fc : list nat) (colmaps : list (list nat))
         (sigma : nat -> list (nat * list nat) -> list (nat * list nat)),
  length fc = S (length colmaps) -> nondec fc -> nth 0 fc 0 = 0 ->
  (forall p, p < length colmaps -> increasing (nth p colmaps [])) ->
  (forall p c, p < length colmaps -> In c (nth p colmaps []) -> c < last fc 0) ->
  (forall q l, Permutation (sigma q l) l) ->
  fwd_ok (build_world fc colmaps sigma) (block_ids fc colmaps) colmaps (last fc 0) = true.
Proof. exact build_world_fwd_ok. Qed.

Lemma C03_construction_nonvacuous :
  let fc := [0; 3; 5; 9] in let colmaps := [[3; 8]; [0; 1; 5]; [2; 4]] in
  length fc = S (length colmaps) /\ nondec fc /\ nth 0 fc 0 = 0 /\
  (forall p, p < length colmaps -> increasing (nth p colmaps [])) /\
  (forall p c, p < length colmaps -> In c (nth p colmaps []) -> c < last fc 0).
Proof.
  simpl. repeat split; try lia.
  - intros p Hp. destruct p as [|[|[|p]]]; simpl; try lia; repeat split; lia.
  - intros p c Hp Hc. destruct p as [|[|[|p]]]; simpl in *; try lia; intuition lia.
Qed.

Print Assumptions C03_forward_delivers_owner_values.
Print Assumptions C03_forward_natural.
Print Assumptions C03_reverse_folds_contributions.
Print Assumptions C03_reverse_sum_is_adjoint.
Print Assumptions C03_construction_passes_forward_check.
