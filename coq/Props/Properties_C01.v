(* C01 - AMG solve tells the truth: converged means small true residual.
   Property-level theorems only; each is closed by a lemma of Amg/SolveProofs.v.

   The model (Amg/Solve.v) is Multilevel::solve / ParMultilevel::solve over extended values
   (xval = Fin q | NaNv; NaN absorbing, comparisons with NaN false, finite/0 = NaN), with
   - `cyc` ABSTRACT: the theorems hold for EVERY cycle function, also one that returns NaN or garbage,
   - the residual b - A x over the stored entries of A (sparse rows; A has a stored diagonal: `stored_diag`),
   - Vector::norm / ParVector::norm as written NOW (plain sum of squares; the two earlier versions are kept as
     modes NSkipNaN / NCutoff), carried as squares,
   - the branch `fabs(b_norm) > zero_tol` (relative residual) / else (absolute residual),
   - the stopping test as written NOW, `while (!(r_norm <= tol) && iter < max)`; tol = 1e-07 hard-coded in the
     sequential class, solve_tol in the distributed one: a parameter here (also negative values are covered:
     `converged` then is false, as in the code). *)
From Coq Require Import QArith Qcanon.
From Raptor Require Import Base.Sums Amg.Solve Amg.SolveProofs Extract.Inst Extract.Inst_cycle.

Section C01.
Variable F : Type.
Variables (zero one : F) (add mul sub : F -> F -> F) (opp : F -> F) (inv : F -> F).
Variable leb : F -> F -> bool.
Variable eqb0 : F -> bool.
Variable tiny : F -> bool.
Variable Fth : ring_theory zero one add mul sub opp (@eq F).
Hypothesis inv_ok : forall d, d <> zero -> mul d (inv d) = one.
Hypothesis eqb0_ok : forall d, eqb0 d = false -> d <> zero.
Hypothesis leb_total : forall a c, leb a c = false -> leb c a = true.
Hypothesis leb_trans : forall a c d, leb a c = true -> leb c d = true -> leb a d = true.
Hypothesis leb_mul_nonneg : forall a c d, leb a c = true -> leb zero d = true -> leb (mul a d) (mul c d) = true.

Notation xvec := (list (xval F)).
Notation solve := (solve F zero add mul sub inv leb eqb0 tiny).
Notation measure := (measure F zero add mul sub inv leb eqb0 tiny).
Notation xresid := (xresid F mul sub).
Notation xnorm2 := (xnorm2 F zero add mul tiny).
Notation sumsq := (sumsq F zero add mul).
Notation fin_vals := (fin_vals zero).
Notation converged := (converged F zero mul leb).

(* 1. fewer iterations than the limit => every entry of the returned vector is finite and the recomputed
      measure of the returned vector (the quantity the code compares: ||b-Ax||^2/||b||^2, or ||b-Ax||^2 when
      b ~ 0) is at most tol^2 -- for every cycle function, every norm version that does not skip NaN *)
Theorem C01_converged_is_true m ztol2 tol (cyc : xvec -> xvec -> xvec) A b x maxit :
  m <> NSkipNaN -> stored_diag F A ->
  let r := solve m false ztol2 tol cyc A b x maxit in
  (r_iter r < maxit)%nat ->
  (forall i, (i < length A)%nat -> is_fin (xat (r_x r) i) = true) /\
  (length (r_x r) = length A -> all_fin (r_x r) = true) /\
  all_fin (xresid A (r_x r) b) = true /\
  leb zero tol = true /\
  exists q, measure m ztol2 A b (r_x r) = Fin q /\ leb q (mul tol tol) = true.
Proof. apply solve_truth. Qed.

(* 2. the same with the plain sums of squares of the current norm:
      ||b - A x||^2 <= tol^2 ||b||^2  (||b||^2 > zero_tol^2),   ||b - A x||^2 <= tol^2  (otherwise) *)
Theorem C01_converged_squares ztol2 tol (cyc : xvec -> xvec -> xvec) A b x maxit :
  stored_diag F A -> leb zero ztol2 = true ->
  let r := solve NPlain false ztol2 tol cyc A b x maxit in
  (r_iter r < maxit)%nat ->
  let rr := sumsq (fin_vals (xresid A (r_x r) b)) in
  let bb := sumsq (fin_vals b) in
  all_fin (xresid A (r_x r) b) = true /\
  ((all_fin b = true /\ leb bb ztol2 = false /\ leb rr (mul (mul tol tol) bb) = true) \/
   (xgtb F leb (xnorm2 NPlain b) (Fin ztol2) = false /\ leb rr (mul tol tol) = true)).
Proof. intros; eapply solve_truth_squares; eassumption. Qed.

(* 3. the residual history: iter + 1 entries, entry k is the measure of the k-th iterate (a function of A, b and
      that iterate only); the returned vector is the last iterate; at most maxit iterations -- for every norm
      version, test version and cycle function *)
Theorem C01_history_is_true m old_test ztol2 tol (cyc : xvec -> xvec -> xvec) A b x maxit :
  let r := solve m old_test ztol2 tol cyc A b x maxit in
  (r_iter r <= maxit)%nat /\
  r_x r = iterate F cyc b (r_iter r) x /\
  r_res r = map (fun k => measure m ztol2 A b (iterate F cyc b k x)) (seq O (S (r_iter r))) /\
  ((r_iter r < maxit)%nat -> converged old_test tol (measure m ztol2 A b (r_x r)) = true).
Proof. apply solve_spec. Qed.

(* 4. the current norm of a finite vector IS the sum of squares; it is finite only for finite vectors *)
Theorem C01_norm_is_plain (v : xvec) :
  (all_fin v = true -> xnorm2 NPlain v = Fin (sumsq (fin_vals v))) /\
  (is_fin (xnorm2 NPlain v) = true -> all_fin v = true).
Proof. split; [apply xnorm2_plain|apply xnorm2_fin_all; discriminate]. Qed.

(* 5. ParVector::norm (per-rank squares summed by Allreduce) is the norm of the global vector for every partition
      into contiguous blocks, empty blocks included: the solve wrapper does not depend on the row partition *)
Theorem C01_norm_partition_independent (blocks : list (list F)) :
  sumsq (concat blocks) = fold_right add zero (map sumsq blocks).
Proof. intros; eapply sumsq_blocks; eassumption. Qed.

End C01.

(* ---------------------------------------------------------------------------------------------------- *)
(* Non-vacuity, and why the three fixes matter (executed at Qc).                                         *)
(* ---------------------------------------------------------------------------------------------------- *)
Local Open Scope Qc_scope.

Definition q1 (z : Z) : Qc := Q2Qc (inject_Z z).
Definition tol7 : Qc := Q2Qc (1 # 10000000).
Definition A1 : list (list (nat * Qc)) := [[(O, q1 2)]].              (* the 1 x 1 system 2 x = b *)
Definition cyc_exact (x b : list (xval Qc)) : list (xval Qc) :=          (* an exact "cycle": x = b / 2 *)
  map (fun v => match v with Fin q => Fin (q * / q1 2) | NaNv => NaNv end) b.
Definition cyc_nan (x b : list (xval Qc)) : list (xval Qc) := map (fun _ => NaNv) x.

Example C01_stored_diag_nonvacuous : stored_diag Qc A1.
Proof. intros i row H. destruct i as [|i]; simpl in H; [inversion H; exists (q1 2); left; reflexivity|destruct i; discriminate]. Qed.

(* the hypothesis `iter < maxit` is reachable: an exact cycle converges after one iteration *)
Example C01_converges_nonvacuous :
  let r := q_solve_now tol7 cyc_exact A1 [Fin (q1 4)] [Fin 0] 5 in
  r_iter r = 1%nat /\ all_fin (r_x r) = true.
Proof. vm_compute. split; reflexivity. Qed.
(* ... and a cycle that returns NaN never "converges" with the current code *)
Example C01_nan_never_converges :
  r_iter (q_solve_now tol7 cyc_nan A1 [Fin (q1 4)] [Fin 0] 5) = 5%nat.
Proof. vm_compute. reflexivity. Qed.

(* the code before the fixes: norm skipping NaN, test `r_norm > tol`: a NaN iterate is reported as converged *)
Lemma C01_old_code_refuted :
  exists cyc A b x maxit,
    stored_diag Qc A /\
    let r := q_solve NSkipNaN true ztol2_q tol7 cyc A b x maxit in
    (r_iter r < maxit)%nat /\ all_fin (r_x r) = false.
Proof.
  exists cyc_nan, A1, [Fin (q1 4)], [Fin 0], 5%nat. split; [apply C01_stored_diag_nonvacuous|].
  vm_compute. split; [lia|reflexivity].
Qed.
(* each of the two fixes alone is not enough *)
Lemma C01_old_norm_new_test_refuted :
  exists cyc A b x maxit,
    let r := q_solve NSkipNaN false ztol2_q tol7 cyc A b x maxit in
    (r_iter r < maxit)%nat /\ all_fin (r_x r) = false.
Proof. exists cyc_nan, A1, [Fin (q1 4)], [Fin 0], 5%nat. vm_compute. split; [lia|reflexivity]. Qed.
Lemma C01_new_norm_old_test_refuted :
  exists cyc A b x maxit,
    let r := q_solve NPlain true ztol2_q tol7 cyc A b x maxit in
    (r_iter r < maxit)%nat /\ all_fin (r_x r) = false.
Proof. exists cyc_nan, A1, [Fin (q1 4)], [Fin 0], 5%nat. vm_compute. split; [lia|reflexivity]. Qed.

(* the norm with the absolute 1e-16 cutoff: for a small right-hand side the solve reports convergence (measure 0)
   while ||b - A x||^2 > tol^2 ||b||^2  (b = 1e-14, residual 1e-17: relative residual 1e-3) *)
Definition small_b : Qc := Q2Qc (1 # 100000000000000).
Definition cyc_small (x b : list (xval Qc)) : list (xval Qc) :=
  [Fin ((small_b - Q2Qc (1 # 100000000000000000)) * / q1 2)].
Lemma C01_cutoff_norm_refuted :
  exists cyc A b x maxit,
    let r := q_solve NCutoff false ztol2_q tol7 cyc A b x maxit in
    (r_iter r < maxit)%nat /\ all_fin (r_x r) = true /\
    Qc_leb (q_sumsq (fin_vals 0 (q_xresid A (r_x r) b))) (tol7 * tol7 * q_sumsq (fin_vals 0 b)) = false.
Proof. exists cyc_small, A1, [Fin small_b], [Fin 0], 5%nat. vm_compute. split; [lia|split; reflexivity]. Qed.

Print Assumptions C01_converged_is_true.
Print Assumptions C01_converged_squares.
Print Assumptions C01_history_is_true.
Print Assumptions C01_norm_is_plain.
Print Assumptions C01_norm_partition_independent.
