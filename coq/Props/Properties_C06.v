(* C06 — Sparse matrix products are exact: C = A B, C = A^T B and the Galerkin product.
   Property-level theorems only; each is closed by lemmas of Sparse/SpgemmProofs.v and
   Dist/ParSpgemmProofs.v.

   den_X M i j is the sum of all stored values of M at (i,j): the operator M represents.
   dropm x = (if |x| <= zero_tol then 0 else x) is the accumulator test of matmult.cpp
   (smallm), dropd the test of remove_duplicates (small, |x| < zero_tol); both are abstract
   predicates here, so the theorems hold for every tolerance and every commutative ring. *)
From Raptor Require Import Base.Sums Sparse.Defs Sparse.ConvertProofs Sparse.Spgemm Sparse.SpgemmProofs.

Section C06.
Variable F : Type.
Variables (zero one : F) (add mul sub : F -> F -> F) (opp : F -> F).
Variable Fth : ring_theory zero one add mul sub opp (@eq F).
Variable smallm : F -> bool.

Notation sumF := (sumf F zero add).
Notation denCsr := (den_csr F zero add).
Notation denS := (den_smat F zero add).
Notation dropM := (dropm F zero smallm).
Notation mult := (mat_mult F zero add mul smallm).
Notation multT := (mat_mult_T F zero add mul smallm).
Notation prodAB := (mat_prod F zero add mul).
Notation prodATB := (mat_prod_T F zero add mul).

(* The array code (linked list next/head/length, sums, reset) emits, row by row and in this
   storage order, the touched columns (last first-touched first) whose accumulated sum is kept. *)
Theorem C06_accumulator_refines_row_spec (A B : csr F) (m : option (list nat)) :
  csr_wf B ->
  csr_rows (spgemm_helper F zero add mul smallm A B m) =
  map (row_spec F zero add mul smallm (renum_of m) (csr_rows B)) (csr_rows A).
Proof.
  intros HB. unfold spgemm_helper; cbn [csr_rows].
  apply (spgemm_rows_spec F zero one add mul sub opp Fth). apply csr_wf_brows_ok. exact HB.
Qed.

(* A->mult(B) for A, B each in COO / CSR / CSC: entry (i,j) of the result is the dropped exact
   sum; dimensions; the result is a well-formed CSR matrix (so products compose). *)
Theorem C06_mult (A B : smat F) :
  smat_wf F A -> smat_wf F B -> smat_nc F A = smat_nr F B ->
  (forall i j, denCsr (mult A B None) i j = dropM (prodAB A B i j)) /\
  csr_nr (mult A B None) = smat_nr F A /\ csr_nc (mult A B None) = smat_nc F B /\
  csr_wf (mult A B None).
Proof.
  intros HA HB _. split; [intros; apply (den_mat_mult F zero one add mul sub opp Fth); assumption|].
  split; [apply mat_mult_dims|]. split; [apply mat_mult_dims|].
  apply (mat_mult_wf F zero one add mul sub opp Fth); assumption.
Qed.

(* what is stored: in every row each column at most once, never a value failing the test,
   and (j,v) is stored iff column j was touched by some structural product, v is the exact sum
   and v passes the test — nothing else is dropped, nothing else is kept *)
Theorem C06_mult_stored (A B : csr F) i :
  csr_wf A -> csr_wf B ->
  NoDup (map fst (nth i (csr_rows (spgemm_helper F zero add mul smallm A B None)) [])) /\
  forall j v,
   (In (j, v) (nth i (csr_rows (spgemm_helper F zero add mul smallm A B None)) []) <->
    In j (map fst (contribs F mul (csr_rows B) (nth i (csr_rows A) []))) /\
    v = prod_entry F zero add mul A B i j /\ smallm v = false).
Proof.
  intros HA HB. split.
  - apply (spgemm_helper_row_nodup F zero one add mul sub opp Fth). exact HB.
  - intros j v. apply (spgemm_helper_stored F zero one add mul sub opp Fth); assumption.
Qed.

(* with the optional renumbering argument B_to_C: all columns renumbered to j are added *)
Theorem C06_mult_renumbered (A B : csr F) (m : list nat) i j :
  csr_wf A -> csr_wf B -> csr_nc A = csr_nr B ->
  denCsr (spgemm_helper F zero add mul smallm A B (Some m)) i j =
  sumF (map (fun c => if nth c m 0 =? j then dropM (prod_entry F zero add mul A B i c) else zero)
            (seq 0 (csr_nc B))).
Proof. intros HA HB _. apply (den_spgemm_helper_renum F zero one add mul sub opp Fth); assumption. Qed.

(* B->mult_T(A) = A^T B for A, B each in COO / CSR / CSC *)
Theorem C06_mult_T (A B : smat F) :
  smat_wf F A -> smat_wf F B -> smat_nr F A = smat_nr F B ->
  (forall i j, denCsr (multT B A None) i j = dropM (prodATB A B i j)) /\
  csr_nr (multT B A None) = smat_nc F A /\ csr_nc (multT B A None) = smat_nc F B /\
  csr_wf (multT B A None).
Proof.
  intros HA HB _. split; [intros; apply (den_mat_mult_T F zero one add mul sub opp Fth); assumption|].
  split; [apply mat_mult_T_dims|]. split; [apply mat_mult_T_dims|].
  apply (mat_mult_T_wf F zero one add mul sub opp Fth); assumption.
Qed.

(* the coarse operator AP = A->mult(P); Ac = AP->mult_T(P): the triple product up to the two drops *)
Theorem C06_galerkin (A P : smat F) i j :
  smat_wf F A -> smat_wf F P -> smat_nc F A = smat_nr F P -> smat_nr F A = smat_nr F P ->
  denCsr (galerkin F zero add mul smallm A P) i j =
  dropM (sumF (map (fun k => mul (denS P k i) (dropM (prodAB A P k j))) (seq 0 (smat_nr F P)))).
Proof. intros HA HP _ _. apply (den_galerkin F zero one add mul sub opp Fth); assumption. Qed.

(* ... and exactly the triple product when no intermediate or final sum is small but non-zero *)
Theorem C06_galerkin_exact (A P : smat F) i j :
  smat_wf F A -> smat_wf F P -> smat_nc F A = smat_nr F P -> smat_nr F A = smat_nr F P ->
  (forall k, smallm (prodAB A P k j) = true -> prodAB A P k j = zero) ->
  (smallm (triple F zero add mul A P i j) = true -> triple F zero add mul A P i j = zero) ->
  denCsr (galerkin F zero add mul smallm A P) i j =
  sumF (map (fun k => mul (denS P k i) (prodAB A P k j)) (seq 0 (smat_nr F P))).
Proof. intros HA HP _ _ H1 H2. apply (galerkin_exact F zero one add mul sub opp Fth); assumption. Qed.

(* integer data (any sub-semiring on which "small" implies zero): all three products are exact *)
Theorem C06_spgemm_exact_on_integers (isint : F -> Prop) (A B : smat F) :
  isint zero -> (forall x y, isint x -> isint y -> isint (add x y)) ->
  (forall x y, isint x -> isint y -> isint (mul x y)) ->
  (forall x, isint x -> smallm x = true -> x = zero) ->
  smat_wf F A -> smat_wf F B ->
  (forall i j, isint (denS A i j)) -> (forall i j, isint (denS B i j)) ->
  (forall i j, denCsr (mult A B None) i j = prodAB A B i j) /\
  (forall i j, denCsr (multT B A None) i j = prodATB A B i j) /\
  (forall i j, denCsr (galerkin F zero add mul smallm A B) i j = triple F zero add mul A B i j).
Proof.
  intros I0 Ia Im Is HA HB IA IB. split; [|split]; intros i j.
  - apply (spgemm_exact_on_integers F zero one add mul sub opp Fth smallm isint); assumption.
  - apply (spgemm_T_exact_on_integers F zero one add mul sub opp Fth smallm isint); assumption.
  - apply (galerkin_exact_on_integers F zero one add mul sub opp Fth smallm isint); assumption.
Qed.

End C06.

(* ---------- the hypotheses are satisfiable; the statements are not about empty things ---------- *)
From Coq Require Import ZArith.
Definition Zsmall (z : Z) : bool := Z.eqb z 0.
Definition exA : smat Z := MCsr (mkCsr 2 2 [[(0, 1%Z); (1, 1%Z)]; [(1, 2%Z)]]).
Definition exP : smat Z := MCoo (mkCoo 2 1 [(0, 0, 1%Z); (1, 0, (-1)%Z)]).

Example C06_mult_nonvacuous :
  smat_wf Z exA /\ smat_wf Z exP /\ smat_nc Z exA = smat_nr Z exP /\
  csr_rows (mat_mult Z 0%Z Z.add Z.mul Zsmall exA exP None) = [[]; [(0, (-2)%Z)]].
Proof.
  split; [|split; [|split]]; try reflexivity.
  - split; [reflexivity|]. intros r Hr p Hp. simpl in Hr.
    destruct Hr as [<-|[<-|[]]]; simpl in Hp; repeat (destruct Hp as [<-|Hp]; [simpl; lia|]); contradiction.
  - intros e He. simpl in He. destruct He as [<-|[<-|[]]]; unfold erow, ecol; simpl; lia.
Qed.

Example C06_galerkin_nonvacuous :
  csr_rows (galerkin Z 0%Z Z.add Z.mul Zsmall exA exP) = [[(0, 2%Z)]] /\
  triple Z 0%Z Z.add Z.mul exA exP 0 0 = 2%Z.
Proof. split; reflexivity. Qed.

Example C06_spgemm_exact_on_integers_nonvacuous :
  (fun _ : Z => True) 0%Z /\ (forall x, True -> Zsmall x = true -> x = 0%Z).
Proof. split; [exact I|]. intros x _ H. apply Z.eqb_eq. exact H. Qed.

Print Assumptions C06_accumulator_refines_row_spec.
Print Assumptions C06_mult.
Print Assumptions C06_mult_stored.
Print Assumptions C06_mult_renumbered.
Print Assumptions C06_mult_T.
Print Assumptions C06_galerkin.
Print Assumptions C06_galerkin_exact.
Print Assumptions C06_spgemm_exact_on_integers.
