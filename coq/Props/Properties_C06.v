(* C06 — Sparse matrix products are exact: C = A B, C = A^T B and the Galerkin product.
   Property-level theorems only; each is closed by lemmas of Sparse/SpgemmProofs.v and
   Dist/ParSpgemmProofs.v.

   den_X M i j is the sum of all stored values of M at (i,j): the operator M represents.
   dropm x = (if |x| <= zero_tol then 0 else x) is the accumulator test of matmult.cpp
   (smallm), dropd the test of remove_duplicates (small, |x| < zero_tol); both are abstract
   predicates here, so the theorems hold for every tolerance and every commutative ring. *)
From Raptor Require Import Base.Sums Sparse.Defs Sparse.ConvertProofs Sparse.Spgemm Sparse.SpgemmProofs.
From Coq Require Import Permutation.
From Raptor Require Import Dist.Comm Dist.ParSpgemmPkg.
From Raptor Require Import Dist.ParSpgemm Dist.ParSpgemmProofs.

Section C06.
Variable F : Type.
Variables (zero one : F) (add mul sub : F -> F -> F) (opp : F -> F).
Variable Fth : ring_theory zero one add mul sub opp (@eq F).
Variable smallm : F -> bool.

Notation sumF := (sumf F zero add).
Notation denCsr := (den_csr F zero add).
Notation denS := (den_smat F zero add).
Notation dropM := (dropm F zero smallm).
Notation mult := (mat_mult F zero add mul smallm).
Notation multT := (mat_mult_T F zero add mul smallm).
Notation prodAB := (mat_prod F zero add mul).
Notation prodATB := (mat_prod_T F zero add mul).

(* The array code (linked list next/head/length, sums, reset) emits, row by row and in this
   storage order, the touched columns (last first-touched first) whose accumulated sum is kept. *)
Theorem C06_accumulator_refines_row_spec (A B : csr F) (m : option (list nat)) :
  csr_wf B ->
  csr_rows (spgemm_helper F zero add mul smallm A B m) =
  map (row_spec F zero add mul smallm (renum_of m) (csr_rows B)) (csr_rows A).
Proof.
  intros HB. unfold spgemm_helper; cbn [csr_rows].
  apply (spgemm_rows_spec F zero one add mul sub opp Fth). apply csr_wf_brows_ok. exact HB.
Qed.

(* A->mult(B) for A, B each in COO / CSR / CSC: entry (i,j) of the result is the dropped exact
   sum; dimensions; the result is a well-formed CSR matrix (so products compose). *)
Theorem C06_mult (A B : smat F) :
  smat_wf F A -> smat_wf F B -> smat_nc F A = smat_nr F B ->
  (forall i j, denCsr (mult A B None) i j = dropM (prodAB A B i j)) /\
  csr_nr (mult A B None) = smat_nr F A /\ csr_nc (mult A B None) = smat_nc F B /\
  csr_wf (mult A B None).
Proof.
  intros HA HB _. split; [intros; apply (den_mat_mult F zero one add mul sub opp Fth); assumption|].
  split; [apply mat_mult_dims|]. split; [apply mat_mult_dims|].
  apply (mat_mult_wf F zero one add mul sub opp Fth); assumption.
Qed.

(* what is stored: in every row each column at most once, never a value failing the test,
   and (j,v) is stored iff column j was touched by some structural product, v is the exact sum
   and v passes the test — nothing else is dropped, nothing else is kept *)
Theorem C06_mult_stored (A B : csr F) i :
  csr_wf A -> csr_wf B ->
  NoDup (map fst (nth i (csr_rows (spgemm_helper F zero add mul smallm A B None)) [])) /\
  forall j v,
   (In (j, v) (nth i (csr_rows (spgemm_helper F zero add mul smallm A B None)) []) <->
    In j (map fst (contribs F mul (csr_rows B) (nth i (csr_rows A) []))) /\
    v = prod_entry F zero add mul A B i j /\ smallm v = false).
Proof.
  intros HA HB. split.
  - apply (spgemm_helper_row_nodup F zero one add mul sub opp Fth). exact HB.
  - intros j v. apply (spgemm_helper_stored F zero one add mul sub opp Fth); assumption.
Qed.

(* with the optional renumbering argument B_to_C: all columns renumbered to j are added *)
Theorem C06_mult_renumbered (A B : csr F) (m : list nat) i j :
  csr_wf A -> csr_wf B -> csr_nc A = csr_nr B ->
  denCsr (spgemm_helper F zero add mul smallm A B (Some m)) i j =
  sumF (map (fun c => if nth c m 0 =? j then dropM (prod_entry F zero add mul A B i c) else zero)
            (seq 0 (csr_nc B))).
Proof. intros HA HB _. apply (den_spgemm_helper_renum F zero one add mul sub opp Fth); assumption. Qed.

(* B->mult_T(A) = A^T B for A, B each in COO / CSR / CSC *)
Theorem C06_mult_T (A B : smat F) :
  smat_wf F A -> smat_wf F B -> smat_nr F A = smat_nr F B ->
  (forall i j, denCsr (multT B A None) i j = dropM (prodATB A B i j)) /\
  csr_nr (multT B A None) = smat_nc F A /\ csr_nc (multT B A None) = smat_nc F B /\
  csr_wf (multT B A None).
Proof.
  intros HA HB _. split; [intros; apply (den_mat_mult_T F zero one add mul sub opp Fth); assumption|].
  split; [apply mat_mult_T_dims|]. split; [apply mat_mult_T_dims|].
  apply (mat_mult_T_wf F zero one add mul sub opp Fth); assumption.
Qed.

(* the coarse operator AP = A->mult(P); Ac = AP->mult_T(P): the triple product up to the two drops *)
Theorem C06_galerkin (A P : smat F) i j :
  smat_wf F A -> smat_wf F P -> smat_nc F A = smat_nr F P -> smat_nr F A = smat_nr F P ->
  denCsr (galerkin F zero add mul smallm A P) i j =
  dropM (sumF (map (fun k => mul (denS P k i) (dropM (prodAB A P k j))) (seq 0 (smat_nr F P)))).
Proof. intros HA HP _ _. apply (den_galerkin F zero one add mul sub opp Fth); assumption. Qed.

(* ... and exactly the triple product when no intermediate or final sum is small but non-zero *)
Theorem C06_galerkin_exact (A P : smat F) i j :
  smat_wf F A -> smat_wf F P -> smat_nc F A = smat_nr F P -> smat_nr F A = smat_nr F P ->
  (forall k, smallm (prodAB A P k j) = true -> prodAB A P k j = zero) ->
  (smallm (triple F zero add mul A P i j) = true -> triple F zero add mul A P i j = zero) ->
  denCsr (galerkin F zero add mul smallm A P) i j =
  sumF (map (fun k => mul (denS P k i) (prodAB A P k j)) (seq 0 (smat_nr F P))).
Proof. intros HA HP _ _ H1 H2. apply (galerkin_exact F zero one add mul sub opp Fth); assumption. Qed.

(* integer data (any sub-semiring on which "small" implies zero): all three products are exact *)
Theorem C06_spgemm_exact_on_integers (isint : F -> Prop) (A B : smat F) :
  isint zero -> (forall x y, isint x -> isint y -> isint (add x y)) ->
  (forall x y, isint x -> isint y -> isint (mul x y)) ->
  (forall x, isint x -> smallm x = true -> x = zero) ->
  smat_wf F A -> smat_wf F B ->
  (forall i j, isint (denS A i j)) -> (forall i j, isint (denS B i j)) ->
  (forall i j, denCsr (mult A B None) i j = prodAB A B i j) /\
  (forall i j, denCsr (multT B A None) i j = prodATB A B i j) /\
  (forall i j, denCsr (galerkin F zero add mul smallm A B) i j = triple F zero add mul A B i j).
Proof.
  intros I0 Ia Im Is HA HB IA IB. split; [|split]; intros i j.
  - apply (spgemm_exact_on_integers F zero one add mul sub opp Fth smallm isint); assumption.
  - apply (spgemm_T_exact_on_integers F zero one add mul sub opp Fth smallm isint); assumption.
  - apply (galerkin_exact_on_integers F zero one add mul sub opp Fth smallm isint); assumption.
Qed.

(* ======================= distributed products =======================
   The gathered product is a function of the GLOBAL factors and of the partitions (lists of
   contiguous block sizes, empty blocks allowed): pa = rows of A, pk = inner dimension (columns
   of A = rows of B), pc = columns of B.  `fetch r k` is what the row exchange hands rank r for
   global row k of B; hypothesis C03_row_exchange is property C03 (row exchange delivers
   exactly the owner's rows), proved by the comm family. *)
Variable small : F -> bool.
Notation dropD := (drop F zero small).

(* ParCSRMatrix::mult / tap_mult: entry (i,j) of the gathered C is, for the rank r owning row i,
   the on-process partial sum (inner indices in r's block) and the off-process partial sum, each
   dropped by the accumulator, then added and dropped by remove_duplicates; C is nr(A) x nc(B)
   and well formed *)
Theorem C06_par_mult (fetch : nat -> nat -> list (nat * F)) (A B : csr F) (pa pk pc : list nat) :
  csr_wf A -> csr_wf B -> csr_nc A = csr_nr B -> psum pa = csr_nr A ->
  (forall r k, needs F A pa pk r k = true -> fetch r k = owner_row F B pk pc k) ->
  let C := par_mult F zero add mul smallm small fetch A B pa pk pc in
  (forall i j, i < csr_nr A ->
     denCsr C i j =
     dropD (add
       (dropM (sumF (map (fun k => if inblk pk (owner pa i) k then mul (denCsr A i k) (denCsr B k j) else zero)
                         (seq 0 (csr_nc A)))))
       (dropM (sumF (map (fun k => if negb (inblk pk (owner pa i) k) then mul (denCsr A i k) (denCsr B k j) else zero)
                         (seq 0 (csr_nc A))))))) /\
  csr_nr C = csr_nr A /\ csr_nc C = csr_nc B /\ csr_wf C.
Proof.
  intros HA HB Hc Hp H3 C. split; [|split; [reflexivity|split; [reflexivity|]]].
  - intros i j Hi. apply (den_par_mult F zero one add mul sub opp Fth); assumption.
  - apply (par_mult_wf F zero one add mul sub opp Fth); assumption.
Qed.

(* the hypothesis on `fetch` above is what the matrix row exchange delivers: the exchange is the forward exchange of
   the communication package with payload "row", natural in its payload, so for every package that passes the id
   check of C03 (fwd_ok) every requested row arrives as its owner holds it *)
Theorem C06_row_exchange_delivers_owner_rows (w : world) (ids colmaps : list (list nat)) (big : nat)
        (B : csr F) (pk pc : list nat) r k :
  fwd_ok w ids colmaps big = true -> length (csr_rows B) <= big -> r < length w ->
  In k (nth r colmaps []) ->
  fetch_pkg F w ids colmaps B pk pc r k = owner_row F B pk pc k.
Proof. exact (fetch_pkg_delivers F w ids colmaps big B pk pc r k). Qed.

(* ... composed: the distributed product computed through any such package *)
Theorem C06_par_mult_through_package (w : world) (ids colmaps : list (list nat)) (big : nat)
        (A B : csr F) (pa pk pc : list nat) :
  csr_wf A -> csr_wf B -> csr_nc A = csr_nr B -> psum pa = csr_nr A ->
  fwd_ok w ids colmaps big = true -> length (csr_rows B) <= big ->
  (forall r k, needs F A pa pk r k = true -> r < length w /\ In k (nth r colmaps [])) ->
  let C := par_mult F zero add mul smallm small (fetch_pkg F w ids colmaps B pk pc) A B pa pk pc in
  (forall i j, i < csr_nr A ->
     denCsr C i j =
     dropD (add
       (dropM (sumF (map (fun k => if inblk pk (owner pa i) k then mul (denCsr A i k) (denCsr B k j) else zero)
                         (seq 0 (csr_nc A)))))
       (dropM (sumF (map (fun k => if negb (inblk pk (owner pa i) k) then mul (denCsr A i k) (denCsr B k j) else zero)
                         (seq 0 (csr_nc A))))))) /\
  csr_nr C = csr_nr A /\ csr_nc C = csr_nc B /\ csr_wf C.
Proof.
  intros HA HB Hc Hp Hok Hbig Hneed.
  apply C06_par_mult; try assumption.
  intros r k Hn. destruct (Hneed r k Hn) as [Hr Hk].
  apply (fetch_pkg_delivers F w ids colmaps big B pk pc r k Hok Hbig Hr Hk).
Qed.


(* ... which is exactly A B when no partial sum is small but non-zero; always so for integer data *)
Theorem C06_par_mult_exact_on_integers (isint : F -> Prop) fetch (A B : csr F) (pa pk pc : list nat) i j :
  isint zero -> (forall x y, isint x -> isint y -> isint (add x y)) ->
  (forall x y, isint x -> isint y -> isint (mul x y)) ->
  (forall x, isint x -> smallm x = true -> x = zero) -> (forall x, isint x -> small x = true -> x = zero) ->
  csr_wf A -> csr_wf B -> csr_nc A = csr_nr B -> psum pa = csr_nr A ->
  (forall r k, needs F A pa pk r k = true -> fetch r k = owner_row F B pk pc k) ->
  (forall i k, isint (denCsr A i k)) -> (forall k j, isint (denCsr B k j)) -> i < csr_nr A ->
  denCsr (par_mult F zero add mul smallm small fetch A B pa pk pc) i j =
  sumF (map (fun k => mul (denCsr A i k) (denCsr B k j)) (seq 0 (csr_nc A))).
Proof.
  intros I0 Ia Im Is1 Is2 HA HB Hc Hp H3 IA IB Hi.
  apply (par_mult_exact_on_integers F zero one add mul sub opp Fth smallm small isint); assumption.
Qed.

(* ParCSRMatrix::mult_T / tap_mult_T (A as ParCSC, rows of A and B partitioned by pk, columns of A by pm):
   entry (i,j) of the gathered C = A^T B is the sum over the ranks s of the dropped partial products
   over the rows s owns, dropped once more by remove_duplicates.  `fetchT r i` is what the reverse row
   exchange hands rank r for its row i of C: by C03, the rows computed by the other ranks, in any order *)
Theorem C06_par_mult_T (fetchT : nat -> nat -> list (nat * F)) (A : csc F) (B : csr F) (pk pm pc : list nat) :
  csc_wf A -> csr_wf B -> csc_nr A = csr_nr B -> psum pm = csc_nc A -> length pm = length pk ->
  (forall r i, inblk pm r i = true ->
     Permutation (fetchT r i) (sentT F zero add mul smallm small A B pk pm pc r i)) ->
  let C := par_mult_T F zero add mul smallm small fetchT A B pk pm pc in
  (forall i j, i < csc_nc A ->
     denCsr C i j =
     dropD (sumF (map (fun s =>
        dropM (sumF (map (fun k => if inblk pk s k then mul (den_csc F zero add A k i) (denCsr B k j) else zero)
                         (seq 0 (csc_nr A)))))
        (seq 0 (length pk))))) /\
  csr_nr C = csc_nc A /\ csr_nc C = csr_nc B /\ csr_wf C.
Proof.
  intros HA HB Hc Hp Hl H3 C. split; [|split; [reflexivity|split; [reflexivity|]]].
  - intros i j Hi. apply (den_par_mult_T F zero one add mul sub opp Fth); assumption.
  - apply (par_mult_T_wf F zero one add mul sub opp Fth); assumption.
Qed.

(* the same for A^T B: the rows of the partial products travel back to their owners through the reverse exchange
   (payload "row", reduction "append"); for every package that passes the reverse check of C03 (rev_ok) the owner
   receives, up to order, exactly the rows `sentT` lists, which is the hypothesis of C06_par_mult_T.
   Hypotheses on the column maps: duplicate free, cover the non-empty rows a rank has to send, and no rank lists its
   own rows. *)
Theorem C06_reverse_row_exchange_delivers (w : world) (ids colmaps : list (list nat))
        (A : csc F) (B : csr F) (pk pm pc : list nat) r li i :
  let tmp := fun s => par_mult_T_tmp F zero add mul smallm small A B pk pm pc s in
  let tmps := map tmp (seq 0 (length pk)) in
  rev_ok w ids colmaps = true -> r < length w -> length colmaps = length pk ->
  li < length (nth r ids []) -> nth li (nth r ids []) 0 = i ->
  (forall s, NoDup (nth s colmaps [])) ->
  (forall s, s < length pk -> s <> r -> nth i (csr_rows (tmp s)) [] <> [] -> In i (nth s colmaps [])) ->
  ~ In i (nth r colmaps []) ->
  Permutation (fetchT_pkg F w colmaps tmps (length (nth r ids [])) r li)
              (sentT F zero add mul smallm small A B pk pm pc r i).
Proof.
  intros tmp tmps Hok Hr Hlen Hli Hi Hnd Hcov Hown.
  assert (Ht : length tmps = length pk) by (unfold tmps; rewrite map_length, seq_length; reflexivity).
  assert (Hnth : forall s, s < length pk -> nth s tmps (mkCsr 0 0 []) = tmp s).
  { intros s Hs. unfold tmps. rewrite (nth_indep _ (mkCsr 0 0 []) (tmp 0)) by (rewrite map_length, seq_length; exact Hs).
    rewrite map_nth, seq_nth by exact Hs. reflexivity. }
  eapply Permutation_trans.
  - apply (fetchT_pkg_perm F w ids colmaps tmps r li i Hok Hr); try assumption.
    + rewrite Ht. exact Hlen.
    + intros s Hs Hne Hrow. rewrite Ht in Hs. rewrite (Hnth s Hs) in Hrow. apply Hcov; assumption.
  - rewrite Ht. unfold sentT. fold tmp.
    match goal with |- Permutation ?a ?b => replace a with b; [apply Permutation_refl|] end.
    apply flat_map_ext_in'. intros s Hs. apply in_seq in Hs. rewrite Hnth by lia. reflexivity.
Qed.


(* the same addressed by global row: `ids` lists, per rank, the global ids of its local rows of C (the block of pm it
   owns), so slot li of rank r is global row pfirst pm r + li *)
Theorem C06_reverse_row_exchange_delivers_global (w : world) (ids colmaps : list (list nat))
        (A : csc F) (B : csr F) (pk pm pc : list nat) :
  let tmp := fun s => par_mult_T_tmp F zero add mul smallm small A B pk pm pc s in
  let tmps := map tmp (seq 0 (length pk)) in
  let fetchT := fun r i => fetchT_pkg F w colmaps tmps (length (nth r ids [])) r (i - pfirst pm r) in
  rev_ok w ids colmaps = true -> length w = length pm -> length colmaps = length pk ->
  (forall r, r < length pm -> nth r ids [] = seq (pfirst pm r) (psize pm r)) ->
  (forall s, NoDup (nth s colmaps [])) ->
  (forall r i s, inblk pm r i = true -> s < length pk -> s <> r ->
     nth i (csr_rows (tmp s)) [] <> [] -> In i (nth s colmaps [])) ->
  (forall r i, inblk pm r i = true -> ~ In i (nth r colmaps [])) ->
  forall r i, inblk pm r i = true ->
    Permutation (fetchT r i) (sentT F zero add mul smallm small A B pk pm pc r i).
Proof.
  intros tmp tmps fetchT Hok Hw Hcm Hids Hnd Hcov Hown r i Hin.
  assert (Hr : r < length pm).
  { destruct (Nat.lt_ge_cases r (length pm)) as [H|H]; [exact H|].
    unfold inblk, psize in Hin. rewrite (nth_overflow pm 0 H) in Hin.
    apply andb_prop in Hin. destruct Hin as [H1 H2]. apply Nat.leb_le in H1. apply Nat.ltb_lt in H2. lia. }
  assert (Hrange : pfirst pm r <= i < pfirst pm r + psize pm r).
  { unfold inblk in Hin. apply andb_prop in Hin. destruct Hin as [H1 H2].
    apply Nat.leb_le in H1. apply Nat.ltb_lt in H2. lia. }
  unfold fetchT.
  apply (C06_reverse_row_exchange_delivers w ids colmaps A B pk pm pc r (i - pfirst pm r) i); try assumption.
  - rewrite Hw. exact Hr.
  - rewrite (Hids r Hr), seq_length. lia.
  - rewrite (Hids r Hr), seq_nth by lia. lia.
  - intros s Hs Hne Hrow. apply (Hcov r i s); assumption.
  - apply Hown. exact Hin.
Qed.

(* ... composed: A^T B computed through any such package *)
Theorem C06_par_mult_T_through_package (w : world) (ids colmaps : list (list nat))
        (A : csc F) (B : csr F) (pk pm pc : list nat) :
  let tmp := fun s => par_mult_T_tmp F zero add mul smallm small A B pk pm pc s in
  let tmps := map tmp (seq 0 (length pk)) in
  let fetchT := fun r i => fetchT_pkg F w colmaps tmps (length (nth r ids [])) r (i - pfirst pm r) in
  csc_wf A -> csr_wf B -> csc_nr A = csr_nr B -> psum pm = csc_nc A -> length pm = length pk ->
  rev_ok w ids colmaps = true -> length w = length pm -> length colmaps = length pk ->
  (forall r, r < length pm -> nth r ids [] = seq (pfirst pm r) (psize pm r)) ->
  (forall s, NoDup (nth s colmaps [])) ->
  (forall r i s, inblk pm r i = true -> s < length pk -> s <> r ->
     nth i (csr_rows (tmp s)) [] <> [] -> In i (nth s colmaps [])) ->
  (forall r i, inblk pm r i = true -> ~ In i (nth r colmaps [])) ->
  let C := par_mult_T F zero add mul smallm small fetchT A B pk pm pc in
  (forall i j, i < csc_nc A ->
     denCsr C i j =
     dropD (sumF (map (fun s =>
        dropM (sumF (map (fun k => if inblk pk s k then mul (den_csc F zero add A k i) (denCsr B k j) else zero)
                         (seq 0 (csc_nr A)))))
        (seq 0 (length pk))))) /\
  csr_nr C = csc_nc A /\ csr_nc C = csr_nc B /\ csr_wf C.
Proof.
  intros tmp tmps fetchT HA HB Hc Hp Hl Hok Hw Hcm Hids Hnd Hcov Hown.
  apply C06_par_mult_T; try assumption.
  apply (C06_reverse_row_exchange_delivers_global w ids colmaps A B pk pm pc); assumption.
Qed.

Theorem C06_par_mult_T_exact_on_integers (isint : F -> Prop) fetchT (A : csc F) (B : csr F) (pk pm pc : list nat) i j :
  isint zero -> (forall x y, isint x -> isint y -> isint (add x y)) ->
  (forall x y, isint x -> isint y -> isint (mul x y)) ->
  (forall x, isint x -> smallm x = true -> x = zero) -> (forall x, isint x -> small x = true -> x = zero) ->
  csc_wf A -> csr_wf B -> csc_nr A = csr_nr B ->
  psum pm = csc_nc A -> psum pk = csc_nr A -> length pm = length pk ->
  (forall r i, inblk pm r i = true ->
     Permutation (fetchT r i) (sentT F zero add mul smallm small A B pk pm pc r i)) ->
  (forall k i, isint (den_csc F zero add A k i)) -> (forall k j, isint (denCsr B k j)) -> i < csc_nc A ->
  denCsr (par_mult_T F zero add mul smallm small fetchT A B pk pm pc) i j =
  sumF (map (fun k => mul (den_csc F zero add A k i) (denCsr B k j)) (seq 0 (csc_nr A))).
Proof.
  intros I0 Ia Im Is1 Is2 HA HB Hc Hpm Hpk Hl H3 IA IB Hi.
  apply (par_mult_T_exact_on_integers F zero one add mul sub opp Fth smallm small isint); assumption.
Qed.

(* the coarse operator as the AMG setup forms it (AP = A->mult(P); Ac = AP->mult_T(P)), with the exchanges
   that deliver the owners' rows: on integer data it is exactly the triple product P^T A P, for every
   partition pa of the fine rows and pc of the coarse columns *)
Theorem C06_par_galerkin_exact_on_integers (isint : F -> Prop) (A P : csr F) (pa pc : list nat) i j :
  isint zero -> (forall x y, isint x -> isint y -> isint (add x y)) ->
  (forall x y, isint x -> isint y -> isint (mul x y)) ->
  (forall x, isint x -> smallm x = true -> x = zero) -> (forall x, isint x -> small x = true -> x = zero) ->
  csr_wf A -> csr_wf P -> csr_nc A = csr_nr P -> csr_nr A = csr_nr P ->
  psum pa = csr_nr A -> psum pc = csr_nc P -> length pc = length pa ->
  (forall i k, isint (denCsr A i k)) -> (forall k j, isint (denCsr P k j)) -> i < csr_nc P ->
  denCsr (par_galerkin F zero add mul smallm small A P pa pc) i j =
  sumF (map (fun k => mul (denCsr P k i)
                          (sumF (map (fun l => mul (denCsr A k l) (denCsr P l j)) (seq 0 (csr_nc A)))))
            (seq 0 (csr_nr P))).
Proof.
  intros I0 Ia Im Is1 Is2 HA HP Hc Hn Hpa Hpc Hl IA IP Hi.
  apply (par_galerkin_exact_on_integers F zero one add mul sub opp Fth smallm small isint); assumption.
Qed.

(* ... and with both exchanges going through packages: the rows of P reach the ranks that need them through the forward
   row exchange of A's package (w1), the partial-product rows return to the owners of the coarse rows through the
   reverse row exchange of P's package (w2).  For every pair of packages accepted by the checks of C03 the coarse
   operator is exactly P^T A P on integer data *)
Theorem C06_par_galerkin_through_packages_exact_on_integers (isint : F -> Prop)
        (w1 : world) (ids1 cm1 : list (list nat)) (big : nat) (w2 : world) (ids2 cm2 : list (list nat))
        (A P : csr F) (pa pc : list nat) i j :
  isint zero -> (forall x y, isint x -> isint y -> isint (add x y)) ->
  (forall x y, isint x -> isint y -> isint (mul x y)) ->
  (forall x, isint x -> smallm x = true -> x = zero) -> (forall x, isint x -> small x = true -> x = zero) ->
  csr_wf A -> csr_wf P -> csr_nc A = csr_nr P -> csr_nr A = csr_nr P ->
  psum pa = csr_nr A -> psum pc = csr_nc P -> length pc = length pa ->
  (forall i k, isint (denCsr A i k)) -> (forall k j, isint (denCsr P k j)) -> i < csr_nc P ->
  fwd_ok w1 ids1 cm1 big = true -> length (csr_rows P) <= big ->
  (forall r k, needs F A pa pa r k = true -> r < length w1 /\ In k (nth r cm1 [])) ->
  let AP := par_mult F zero add mul smallm small (fetch_pkg F w1 ids1 cm1 P pa pc) A P pa pa pc in
  let tmp := fun s => par_mult_T_tmp F zero add mul smallm small (csr_to_csc P) AP pa pc pc s in
  let tmps := map tmp (seq 0 (length pa)) in
  let fetchT := fun r i => fetchT_pkg F w2 cm2 tmps (length (nth r ids2 [])) r (i - pfirst pc r) in
  rev_ok w2 ids2 cm2 = true -> length w2 = length pc -> length cm2 = length pa ->
  (forall r, r < length pc -> nth r ids2 [] = seq (pfirst pc r) (psize pc r)) ->
  (forall s, NoDup (nth s cm2 [])) ->
  (forall r i s, inblk pc r i = true -> s < length pa -> s <> r ->
     nth i (csr_rows (tmp s)) [] <> [] -> In i (nth s cm2 [])) ->
  (forall r i, inblk pc r i = true -> ~ In i (nth r cm2 [])) ->
  denCsr (par_mult_T F zero add mul smallm small fetchT (csr_to_csc P) AP pa pc pc) i j =
  sumF (map (fun k => mul (denCsr P k i)
                          (sumF (map (fun l => mul (denCsr A k l) (denCsr P l j)) (seq 0 (csr_nc A)))))
            (seq 0 (csr_nr P))).
Proof.
  intros I0 Ia Im Is1 Is2 HA HP Hc Hn Hpa Hpc Hl IA IP Hi Hok1 Hbig Hneed AP tmp tmps fetchT
         Hok2 Hw2 Hcm2 Hids2 Hnd Hcov Hown.
  apply (par_galerkin_fetch_exact_on_integers F zero one add mul sub opp Fth smallm small isint I0 Ia Im Is1 Is2
           (fetch_pkg F w1 ids1 cm1 P pa pc) fetchT A P pa pc i j); try assumption.
  - intros r k Hnk. destruct (Hneed r k Hnk) as [Hr Hk].
    apply (fetch_pkg_delivers F w1 ids1 cm1 big P pa pc r k Hok1 Hbig Hr Hk).
  - apply (C06_reverse_row_exchange_delivers_global w2 ids2 cm2 (csr_to_csc P) AP pa pc pc); assumption.
Qed.

End C06.

(* ---------- the hypotheses are satisfiable; the statements are not about empty things ---------- *)
From Coq Require Import ZArith.
Definition Zsmall (z : Z) : bool := Z.eqb z 0.
Definition exA : smat Z := MCsr (mkCsr 2 2 [[(0, 1%Z); (1, 1%Z)]; [(1, 2%Z)]]).
Definition exP : smat Z := MCoo (mkCoo 2 1 [(0, 0, 1%Z); (1, 0, (-1)%Z)]).

Example C06_mult_nonvacuous :
  smat_wf Z exA /\ smat_wf Z exP /\ smat_nc Z exA = smat_nr Z exP /\
  csr_rows (mat_mult Z 0%Z Z.add Z.mul Zsmall exA exP None) = [[]; [(0, (-2)%Z)]].
Proof.
  split; [|split; [|split]]; try reflexivity.
  - split; [reflexivity|]. intros r Hr p Hp. simpl in Hr.
    destruct Hr as [<-|[<-|[]]]; simpl in Hp; repeat (destruct Hp as [<-|Hp]; [simpl; lia|]); contradiction.
  - intros e He. simpl in He. destruct He as [<-|[<-|[]]]; unfold erow, ecol; simpl; lia.
Qed.

Example C06_galerkin_nonvacuous :
  csr_rows (galerkin Z 0%Z Z.add Z.mul Zsmall exA exP) = [[(0, 2%Z)]] /\
  triple Z 0%Z Z.add Z.mul exA exP 0 0 = 2%Z.
Proof. split; reflexivity. Qed.

Example C06_spgemm_exact_on_integers_nonvacuous :
  (fun _ : Z => True) 0%Z /\ (forall x, True -> Zsmall x = true -> x = 0%Z).
Proof. split; [exact I|]. intros x _ H. apply Z.eqb_eq. exact H. Qed.

(* distributed: 2 ranks, A = [[1,1],[0,2]] rows [1;1] cols [1;1], P = [[1],[-1]] rows [1;1], cols [1;0] *)
Definition exAc : csr Z := mkCsr 2 2 [[(0, 1%Z); (1, 1%Z)]; [(1, 2%Z)]].
Definition exPc : csr Z := mkCsr 2 1 [[(0, 1%Z)]; [(0, (-1)%Z)]].
Example C06_par_mult_nonvacuous :
  let fetch := fun (_ k : nat) => owner_row Z exPc [1; 1] [1; 0] k in
  (forall r k, needs Z exAc [1; 1] [1; 1] r k = true -> fetch r k = owner_row Z exPc [1; 1] [1; 0] k) /\
  psum [1; 1] = csr_nr exAc /\ csr_nc exAc = csr_nr exPc /\
  needs Z exAc [1; 1] [1; 1] 0 1 = true /\
  csr_rows (par_mult Z 0%Z Z.add Z.mul Zsmall Zsmall fetch exAc exPc [1; 1] [1; 1] [1; 0]) = [[]; [(0, (-2)%Z)]].
Proof. cbv zeta. split; [intros; reflexivity|]. repeat split. Qed.

Example C06_par_galerkin_nonvacuous :
  csr_rows (par_galerkin Z 0%Z Z.add Z.mul Zsmall Zsmall exAc exPc [1; 1] [1; 0]) = [[(0, 2%Z)]] /\
  (forall r i, Permutation (sentT Z 0%Z Z.add Z.mul Zsmall Zsmall (csr_to_csc exPc) exPc [1; 1] [1; 0] [1; 0] r i)
                           (sentT Z 0%Z Z.add Z.mul Zsmall Zsmall (csr_to_csc exPc) exPc [1; 1] [1; 0] [1; 0] r i)).
Proof. split; [reflexivity|intros; apply Permutation_refl]. Qed.

(* A^T B through a package, 2 ranks: A = P = [[1],[-1]] (rows [1;1], its single column owned by rank 0); rank 1's partial
   product row travels back to rank 0 through the reverse exchange; hypotheses hold, result P^T P = [[2]] *)
Definition exw2 : world := [mkPkg [] [(1, [0])]; mkPkg [(0, 1)] []].
Example C06_par_mult_T_through_package_nonvacuous :
  let A2 := csr_to_csc exPc in
  let tmp := fun s => par_mult_T_tmp Z 0%Z Z.add Z.mul Zsmall Zsmall A2 exPc [1; 1] [1; 0] [1; 0] s in
  let fT := fun r i => fetchT_pkg Z exw2 [[]; [0]] (map tmp (seq 0 2)) (length (nth r [[0]; []] [])) r
                                  (i - pfirst [1; 0] r) in
  rev_ok exw2 [[0]; []] [[]; [0]] = true /\
  (forall r, r < 2 -> nth r [[0]; []] [] = seq (pfirst [1; 0] r) (psize [1; 0] r)) /\
  csr_rows (tmp 1) = [[(0, 1%Z)]] /\
  csr_rows (par_mult_T Z 0%Z Z.add Z.mul Zsmall Zsmall fT A2 exPc [1; 1] [1; 0] [1; 0]) = [[(0, 2%Z)]].
Proof.
  cbv zeta. split; [reflexivity|split; [|split; reflexivity]].
  intros r Hr. destruct r as [|[|r]]; [reflexivity|reflexivity|lia].
Qed.

Print Assumptions C06_accumulator_refines_row_spec.
Print Assumptions C06_mult.
Print Assumptions C06_mult_stored.
Print Assumptions C06_mult_renumbered.
Print Assumptions C06_mult_T.
Print Assumptions C06_galerkin.
Print Assumptions C06_galerkin_exact.
Print Assumptions C06_spgemm_exact_on_integers.
Print Assumptions C06_par_mult.
Print Assumptions C06_par_mult_exact_on_integers.
Print Assumptions C06_par_mult_T.
Print Assumptions C06_par_mult_T_exact_on_integers.
Print Assumptions C06_par_galerkin_exact_on_integers.
Print Assumptions C06_row_exchange_delivers_owner_rows.
Print Assumptions C06_par_mult_through_package.
Print Assumptions C06_reverse_row_exchange_delivers_global.
Print Assumptions C06_par_mult_T_through_package.
Print Assumptions C06_par_galerkin_through_packages_exact_on_integers.
Print Assumptions C06_reverse_row_exchange_delivers.
