(* C18 — Row/column ownership and node maps are exact bijections.
   Property-level theorems only; each is closed by a lemma of Dist/LeafProofs.v.
   The arithmetic they talk about (Topology_get_node, Topology_get_local_proc, Topology_get_global_proc,
   Topology_ctor, Partition_block) is Dist/GenLeaf.v, regenerated from raptor/core/topology.hpp and
   raptor/core/partition.hpp by translator/leaf2coq.py before this file is checked.
   All statements are for every process count P >= 1, every PPN >= 1 and all sizes (no bound).
   `pblk P N M r` is rank r's Partition(N, M) in a P-process run; `block_partition P N M` all ranks together with
   the gathered first_cols; `owner P a fc c` is form_col_to_proc for column c with P units of fuel per loop
   (Some p = terminated within the fuel and in bounds with result p). *)
From Coq Require Import ZArith List Bool Lia.
From Raptor Require Import Dist.GenLeaf Dist.Leaf Dist.LeafProofs.
Import ListNotations.
Local Open Scope Z_scope.

(* ---- (a) machine layout ---- *)

(* num_nodes computed by the constructor is ceil(nprocs / PPN), without dividing by zero *)
Theorem C18_num_nodes nprocs PPN : 0 <= nprocs -> 1 <= PPN ->
  Topology_ctor_ok (Topology_ctor nprocs PPN) = true /\
  (topo_num_nodes nprocs PPN - 1) * PPN < nprocs <= topo_num_nodes nprocs PPN * PPN.
Proof. apply ctor_num_nodes_spec. Qed.

(* rank -> (node, on-node index) -> rank is the identity; node and index are in range; nothing divides by zero *)
Theorem C18_topology_roundtrip o nprocs PPN p : supported o -> 1 <= nprocs -> 1 <= PPN -> 0 <= p < nprocs ->
  let nn := topo_num_nodes nprocs PPN in
  0 <= Topology_get_node o nn PPN p < nn /\
  0 <= Topology_get_local_proc o nn PPN p < PPN /\
  Topology_get_global_proc o nn PPN (Topology_get_node o nn PPN p) (Topology_get_local_proc o nn PPN p) = p /\
  Topology_get_node_ok o nn PPN p = true /\ Topology_get_local_proc_ok o nn PPN p = true /\
  Topology_get_global_proc_ok o nn PPN (Topology_get_node o nn PPN p) (Topology_get_local_proc o nn PPN p) = true.
Proof. apply topology_forward. Qed.

(* converse on the image: (node, index) -> rank -> (node, index) is the identity *)
Theorem C18_topology_inverse o nprocs PPN nd lp : supported o -> 1 <= nprocs -> 1 <= PPN ->
  let nn := topo_num_nodes nprocs PPN in
  0 <= nd < nn -> 0 <= lp < PPN ->
  0 <= Topology_get_global_proc o nn PPN nd lp < nn * PPN /\
  Topology_get_node o nn PPN (Topology_get_global_proc o nn PPN nd lp) = nd /\
  Topology_get_local_proc o nn PPN (Topology_get_global_proc o nn PPN nd lp) = lp.
Proof. apply topology_backward. Qed.

(* hence distinct ranks never share (node, on-node index) *)
Theorem C18_topology_injective o nprocs PPN p q : supported o -> 1 <= nprocs -> 1 <= PPN ->
  0 <= p < nprocs -> 0 <= q < nprocs ->
  let nn := topo_num_nodes nprocs PPN in
  Topology_get_node o nn PPN p = Topology_get_node o nn PPN q ->
  Topology_get_local_proc o nn PPN p = Topology_get_local_proc o nn PPN q -> p = q.
Proof. apply topology_injective. Qed.

(* the rank a process gets inside local_comm = MPI_Comm_split(COMM_WORLD, color = get_node(rank), key = rank),
   i.e. the number of lower ranks on the same node, is get_local_proc(rank) - the node-aware packages rely on it *)
Theorem C18_comm_split_rank o nprocs PPN (p : nat) : supported o -> 1 <= PPN -> Z.of_nat p < nprocs ->
  Z.of_nat (split_rank o nprocs PPN p) = Topology_get_local_proc o (topo_num_nodes nprocs PPN) PPN (Z.of_nat p).
Proof. apply split_rank_is_local_proc. Qed.

Example C18_topology_nonvacuous :
  supported 2 /\ 1 <= 5 /\ 1 <= 2 /\ 0 <= 4 < 5 /\ topo_num_nodes 5 2 = 3 /\
  Topology_get_node 2 3 2 4 = 1 /\ Topology_get_local_proc 2 3 2 4 = 1 /\ Topology_get_global_proc 2 3 2 1 1 = 4.
Proof. unfold supported. repeat split; try lia; reflexivity. Qed.

(* ---- (b) block partition ---- *)

(* rows: contiguous ordered blocks, first(0)=0, first(r+1)=first(r)+size(r), the last block ends at N,
   the sizes sum to N, the ranks with rows are exactly r < min(P, N) *)
Theorem C18_block_rows P N M : (1 <= P)%nat -> 0 <= N ->
  rp_fr (pblk P N M 0) = 0 /\
  (forall r, (r < P)%nat ->
     rp_gnr (pblk P N M r) = N /\ rp_gnc (pblk P N M r) = M /\
     0 <= rp_lnr (pblk P N M r) /\
     rp_lr (pblk P N M r) = rp_fr (pblk P N M r) + rp_lnr (pblk P N M r) - 1 /\
     (0 < rp_lnr (pblk P N M r) <-> Z.of_nat r < Z.min (Z.of_nat P) N) /\
     ((S r < P)%nat -> rp_fr (pblk P N M (S r)) = rp_fr (pblk P N M r) + rp_lnr (pblk P N M r)) /\
     (S r = P -> rp_fr (pblk P N M r) + rp_lnr (pblk P N M r) = N)) /\
  zsum (map rp_lnr (dp_ranks (block_partition P N M))) = N.
Proof. apply block_rows. Qed.

(* columns (at least one row): the gathered first_cols starts at 0, ends at M, is monotone and chains the ranks'
   column blocks; the sizes sum to M; columns are owned by ranks with rows only, exactly by r < min(P, N, M);
   no constructor divides by zero *)
Theorem C18_block_cols P N M : (1 <= P)%nat -> 1 <= N -> 0 <= M ->
  let fcs := dp_first_cols (block_partition P N M) in
  length fcs = S P /\ nth 0 fcs 0 = 0 /\ nth P fcs 0 = M /\
  (forall r, (r < P)%nat ->
     nth r fcs 0 = rp_fc (pblk P N M r) /\
     nth (S r) fcs 0 = nth r fcs 0 + rp_lnc (pblk P N M r) /\
     0 <= rp_lnc (pblk P N M r) /\
     rp_lc (pblk P N M r) = rp_fc (pblk P N M r) + rp_lnc (pblk P N M r) - 1 /\
     (0 < rp_lnc (pblk P N M r) <-> Z.of_nat r < Z.min (Z.min (Z.of_nat P) N) M) /\
     (0 < rp_lnc (pblk P N M r) -> 0 < rp_lnr (pblk P N M r))) /\
  mono fcs /\
  zsum (map rp_lnc (dp_ranks (block_partition P N M))) = M /\
  dp_ok (block_partition P N M) = true.
Proof. apply block_cols. Qed.

(* zero rows: what the code does — nobody has rows, nobody owns a column, first_local_col = M everywhere,
   and no division by zero happens *)
Theorem C18_block_zero_rows P M r : (r < P)%nat -> 0 <= M ->
  rp_lnr (pblk P 0 M r) = 0 /\ rp_lnc (pblk P 0 M r) = 0 /\ rp_fc (pblk P 0 M r) = M /\ rp_ok (pblk P 0 M r) = true.
Proof. apply block_zero_rows. Qed.

(* ... so "the column sizes sum to the global size" and "every column has an owner" are false for a matrix
   with no rows and M > 0 columns (the lookup would read first_cols[-1]) *)
Theorem C18_zero_rows_cols_unowned_refuted :
  exists (P : nat) (M c : Z), 0 <= c < M /\
    zsum (map rp_lnc (dp_ranks (block_partition P 0 M))) <> M /\
    owner P (dp_assumed (block_partition P 0 M)) (dp_first_cols (block_partition P 0 M)) c = None.
Proof. apply zero_rows_cols_unowned. Qed.

Example C18_block_nonvacuous :
  (1 <= 5)%nat /\ 1 <= 3 /\ 0 <= 7 /\
  dp_first_cols (block_partition 5 3 7) = [0; 3; 5; 7; 7; 7] /\
  map rp_lnr (dp_ranks (block_partition 5 3 7)) = [1; 1; 1; 0; 0].
Proof. repeat split; try lia; reflexivity. Qed.

(* ---- (c) owner lookup ---- *)

(* for EVERY first_cols of length P+1 that is monotone, starts at 0 and ends at M, and every column c < M:
   both walks of form_col_to_proc terminate within P loop tests each, stay inside the vector, and return the
   unique p with first_cols[p] <= c < first_cols[p+1] (p is a non-empty rank; empty ranks - duplicate
   boundaries - are never returned) *)
Theorem C18_owner_lookup P fc M ranks c :
  (1 <= P)%nat -> length fc = S P -> mono fc -> nth 0 fc 0 = 0 -> nth P fc 0 = M -> 0 <= c < M ->
  exists p, (p < P)%nat /\ owner P (dp_assumed (create_assumed (Z.of_nat P) M ranks)) fc c = Some (Z.of_nat p) /\
            nth p fc 0 <= c < nth (S p) fc 0 /\
            (forall q, (q < P)%nat -> nth q fc 0 <= c < nth (S q) fc 0 -> q = p).
Proof. apply owner_lookup. Qed.

Example C18_owner_lookup_nonvacuous :
  length [0; 2; 2; 5] = 4%nat /\ mono [0; 2; 2; 5] /\
  owner 3 (dp_assumed (create_assumed 3 5 [])) [0; 2; 2; 5] 2 = Some 2 /\
  owner 3 (dp_assumed (create_assumed 3 5 [])) [0; 2; 2; 5] 1 = Some 0.
Proof.
  repeat split; try reflexivity. intros i Hi. cbn in Hi. destruct i as [|[|[|i]]]; cbn; lia.
Qed.

(* the start at 0 is needed: with first_cols[0] > c the first walk leaves the vector *)
Theorem C18_owner_lookup_without_zero_start_refuted :
  exists (P : nat) (fc : list Z) (M a c : Z), length fc = S P /\ mono fc /\ nth P fc 0 = M /\ 0 <= c < M /\
    M <= a * Z.of_nat P /\ owner P a fc c = None.
Proof. apply owner_needs_zero_start. Qed.

(* composed with (b): on the block partition the lookup returns the unique rank whose column block contains c,
   and that rank has rows *)
Theorem C18_block_owner P N M c : (1 <= P)%nat -> 1 <= N -> 0 <= c < M ->
  let d := block_partition P N M in
  exists p, (p < P)%nat /\ owner P (dp_assumed d) (dp_first_cols d) c = Some (Z.of_nat p) /\
            rp_fc (pblk P N M p) <= c < rp_fc (pblk P N M p) + rp_lnc (pblk P N M p) /\
            0 < rp_lnr (pblk P N M p) /\
            (forall q, (q < P)%nat -> rp_fc (pblk P N M q) <= c < rp_fc (pblk P N M q) + rp_lnc (pblk P N M q) -> q = p).
Proof. apply block_owner. Qed.

(* transposed block partition (any N >= 0, also fewer rows than processes): columns of the transpose are the
   row blocks and the lookup returns the unique rank whose row block contains c *)
Theorem C18_transpose_block_owner P N M c : (1 <= P)%nat -> 0 <= c < N ->
  let d := transpose_partition N (block_partition P N M) in
  exists p, (p < P)%nat /\ owner P (dp_assumed d) (dp_first_cols d) c = Some (Z.of_nat p) /\
            rp_fr (pblk P N M p) <= c < rp_fr (pblk P N M p) + rp_lnr (pblk P N M p) /\
            (forall q, (q < P)%nat -> rp_fr (pblk P N M q) <= c < rp_fr (pblk P N M q) + rp_lnr (pblk P N M q) -> q = p).
Proof. apply transpose_block_owner. Qed.

(* explicitly sized constructor: if the callers pass contiguous column blocks (possibly empty) starting at 0 and
   ending at M, the lookup returns the unique rank whose block contains c.  args = per rank (lnr, lnc, fr, fc) *)
Theorem C18_explicit_owner N M (args : list (Z * Z * Z * Z)) c :
  let P := length args in let d := explicit_partition N M args in
  let fcs := map (fun a => snd a) args ++ [M] in
  (1 <= P)%nat -> nth 0 fcs 0 = 0 ->
  (forall r, (r < P)%nat -> nth (S r) fcs 0 = nth r fcs 0 + nth r (map (fun a => snd (fst (fst a))) args) 0 /\
                            0 <= nth r (map (fun a => snd (fst (fst a))) args) 0) ->
  0 <= c < M ->
  exists p, (p < P)%nat /\ owner P (dp_assumed d) (dp_first_cols d) c = Some (Z.of_nat p) /\
            nth p fcs 0 <= c < nth p fcs 0 + nth p (map (fun a => snd (fst (fst a))) args) 0 /\
            (forall q, (q < P)%nat -> nth q fcs 0 <= c < nth q fcs 0 + nth q (map (fun a => snd (fst (fst a))) args) 0 -> q = p).
Proof. apply explicit_owner. Qed.

Example C18_explicit_owner_nonvacuous :
  let args := [(2, 2, 0, 0); (0, 0, 2, 2); (2, 2, 2, 2)] in
  dp_first_cols (explicit_partition 4 4 args) = [0; 2; 2; 4] /\
  form_col_to_proc 3 (explicit_partition 4 4 args) [0; 1; 2; 3] = [Some 0; Some 0; Some 2; Some 2].
Proof. split; reflexivity. Qed.

Print Assumptions C18_num_nodes.
Print Assumptions C18_topology_roundtrip.
Print Assumptions C18_topology_inverse.
Print Assumptions C18_topology_injective.
Print Assumptions C18_comm_split_rank.
Print Assumptions C18_block_rows.
Print Assumptions C18_block_cols.
Print Assumptions C18_block_zero_rows.
Print Assumptions C18_zero_rows_cols_unowned_refuted.
Print Assumptions C18_owner_lookup.
Print Assumptions C18_owner_lookup_without_zero_start_refuted.
Print Assumptions C18_block_owner.
Print Assumptions C18_transpose_block_owner.
Print Assumptions C18_explicit_owner.
