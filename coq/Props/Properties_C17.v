(* C17 — Krylov solvers report true residuals and agree across partitions.
   Property-level theorems only; each is closed by a lemma of Krylov/{KProofs,KCsr,KQc}.v.

   Model (Krylov/KDefs.v): CG of cg.cpp / par_cg.cpp, BiCGStab of bicgstab.cpp / par_bicgstab.cpp, PCG of par_cg.cpp,
   Vector / ParVector inner_product, norm(2), axpy, scale.  Norms are carried as squares (no sqrt): the loop test
   `norm_r > tol` is the comparison of the squares.  A division by zero (a non-finite value in the C++) makes the
   step function return None, the run then ends in `Broke`.  `run cont step fuel s` is the while-loop with
   iteration limit `fuel`; `iter_n step k s` is the k-th iterate of the loop body.
   The operator is an abstract linear map `mulA` with `residA x b = b - mulA x` (C17_csr_operator: the CSR kernels
   of Sparse/Defs.v used for extraction satisfy these hypotheses; the distributed SpMV is C02's subject). *)
From Coq Require Import QArith Qcanon Field.
From Raptor Require Import Base.Sums Sparse.Defs Krylov.KDefs Krylov.KProofs Krylov.KCsr Extract.Inst Extract.Inst_krylov Krylov.KQc.
Local Open Scope nat_scope.

Section C17.
Variable F : Type.
Variables (zero one : F) (add mul sub : F -> F -> F) (opp : F -> F) (div : F -> F -> F) (inv : F -> F).
Variable Fth : field_theory zero one add mul sub opp div inv (@eq F).
Variables (eqb ltb : F -> F -> bool).
Hypothesis eqb_spec : forall a c, eqb a c = true <-> a = c.

(* an ordered field *)
Variable le : F -> F -> Prop.
Hypothesis le_refl : forall a, le a a.
Hypothesis le_antisym : forall a c, le a c -> le c a -> a = c.
Hypothesis le_trans : forall a c d, le a c -> le c d -> le a d.
Hypothesis le_total : forall a c, le a c \/ le c a.
Hypothesis le_add : forall a c d, le a c -> le (add a d) (add c d).
Hypothesis le_mul : forall a c, le zero a -> le zero c -> le zero (mul a c).
Hypothesis ltb_spec : forall a c, ltb a c = true <-> flt F le a c.

Notation axpy := (axpy F add mul).
Notation vsub := (vsub F sub).
Notation inner := (inner F zero add mul).
Notation norm2sq := (norm2sq F zero add mul).
Notation zeros k := (repeat zero k).
Notation sops := (seq_ops F zero add mul).

(* the linear system *)
Variable n : nat.
Variable mulA : list F -> list F.
Variable residA : list F -> list F -> list F.
Variable b : list F.
Hypothesis Hb : length b = n.
Hypothesis mulA_len : forall x, length x = n -> length (mulA x) = n.
Hypothesis mulA_lin : forall x p a, length x = n -> length p = n -> mulA (axpy x p a) = axpy (mulA x) (mulA p) a.
Hypothesis residA_spec : forall x, length x = n -> residA x b = vsub b (mulA x).
Variable tol : F.

Notation cgstep := (cg_step F zero one mul opp div eqb ltb mulA residA sops b).
Notation cginit := (cg_init F residA sops b).
Notation cgrun := (cg_run F zero one mul opp div eqb ltb mulA residA sops b tol).
Notation cgcont x0 := (cg_cont F ltb (cg_thr F zero mul eqb residA sops b tol x0)).
Notation bistep := (bi_step F zero one mul opp div eqb mulA sops).
Notation biinit := (bi_init F residA sops b).
Notation birun := (bi_run F zero one mul opp div eqb ltb mulA residA sops b tol).
Notation bicont x0 := (bi_cont F ltb (bi_thr F zero mul eqb residA sops b tol x0)).
(* squared true residuals: <r,r> (CG) and Vector::norm(2)^2 (BiCGStab); equal by C17_norm_is_2norm *)
Notation true_res_sq := (true_res_sq F zero add mul sub mulA b).
Notation true_res_nsq := (true_res_nsq F zero add mul sub mulA b).

(* ---------- the loop ---------- *)
(* a bounded while-loop returns the K-th iterate of its body, K = the first index whose state fails the loop
   condition, or the limit *)
Theorem C17_loop_stops_at_first (St : Type) (cont : St -> bool) (step : St -> option St) (fuel : nat) (s s' : St) :
  run cont step fuel s = Done s' ->
  exists K, K <= fuel /\ iter_n step K s = Some s' /\
            (forall j, j < K -> exists sj, iter_n step j s = Some sj /\ cont sj = true) /\
            (K = fuel \/ cont s' = false).
Proof. apply run_done_spec. Qed.

(* ---------- CG ---------- *)
(* Whatever way the loop ends (normally or by a division by zero) the returned state is the K-th iterate, K <= max_iter,
   every earlier iterate failed the tolerance, a normal end means K = max_iter or the tolerance is met; entry j of the
   returned history is ||b - A x_j||^2 for every j <= K, its last entry belongs to the returned iterate, and it has
   K+1 entries. *)
Theorem C17_cg_reports_true_residuals_and_stops_first max_iter x0 s' : length x0 = n ->
  cgrun max_iter x0 = Done s' \/ cgrun max_iter x0 = Broke s' ->
  exists K, K <= max_iter /\ iter_n cgstep K (cginit x0) = Some s' /\
    (forall j, j < K -> exists sj, iter_n cgstep j (cginit x0) = Some sj /\ cgcont x0 sj = true) /\
    (cgrun max_iter x0 = Done s' -> K = max_iter \/ cgcont x0 s' = false) /\
    (cgrun max_iter x0 = Broke s' -> cgcont x0 s' = true /\ cgstep s' = None) /\
    (forall j, j <= K -> exists sj, iter_n cgstep j (cginit x0) = Some sj /\
        nth (cg_iter sj) (cg_hist s') zero = true_res_sq (cg_x sj)) /\
    last (cg_hist s') zero = true_res_sq (cg_x s') /\ length (cg_hist s') = S (cg_iter s').
Proof. intros. eapply cg_run_spec; eauto. Qed.

(* start at the exact solution (in particular b = 0, x0 = 0): immediate return, nothing divided *)
Theorem C17_cg_exact_start_returns_immediately max_iter x0 : length x0 = n -> mulA x0 = b ->
  cgrun max_iter x0 = Done (cginit x0) /\ cg_x (cginit x0) = x0 /\ cg_hist (cginit x0) = [zero] /\ cg_iter (cginit x0) = 0.
Proof. intros. eapply cg_exact_start; eauto. Qed.

(* SPD operator with solution xs *)
Variable xs : list F.
Hypothesis Hxs : length xs = n.
Hypothesis Hsol : mulA xs = b.
Hypothesis mulA_sym : forall u v, length u = n -> length v = n -> inner (mulA u) v = inner u (mulA v).
Hypothesis SPD : forall v, length v = n -> v <> zeros n -> flt F le zero (inner (mulA v) v).
Notation energy := (energy F zero add mul sub mulA xs).       (* ||xs - x||_A^2 *)
Notation cg_inv := (cg_inv F zero add mul sub n mulA b).       (* r = b - A x, rr = <r,r>, <r,p> = <r,r>, history *)

(* on SPD systems CG never divides by zero and never reports an indefinite matrix: the loop always ends normally,
   in a state satisfying the invariant *)
Theorem C17_cg_spd_never_breaks max_iter x0 : length x0 = n ->
  exists s', cgrun max_iter x0 = Done s' /\ cg_inv s' /\ cg_indef s' = false.
Proof. intros. eapply cg_run_total; eauto. Qed.

(* ||e_{k+1}||_A^2 = ||e_k||_A^2 - <r_k,r_k>^2 / <A p_k, p_k>  (rests on the invariant <r_k,p_k> = <r_k,r_k>) *)
Theorem C17_cg_energy_identity s s' : cg_inv s -> cgstep s = Some s' -> cg_indef s' = false ->
  inner (mulA (cg_p s)) (cg_p s) <> zero /\
  energy (cg_x s') = sub (energy (cg_x s)) (div (mul (cg_rr s) (cg_rr s)) (inner (mulA (cg_p s)) (cg_p s))).
Proof. intros. eapply cg_energy_identity; eauto. Qed.

Theorem C17_cg_energy_monotone x0 s s' : cg_inv s -> cgcont x0 s = true -> cgstep s = Some s' ->
  le (energy (cg_x s')) (energy (cg_x s)).
Proof. intros Hi Hc Hs. eapply cg_energy_monotone; eauto. eapply cg_thr_nonneg; eauto. Qed.

(* ---------- BiCGStab (seqform = true: bicgstab.cpp, false: par_bicgstab.cpp) ---------- *)
Theorem C17_bicgstab_reports_true_residuals_and_stops_first seqform max_iter x0 s' : length x0 = n ->
  let rstar := bi_r (biinit x0) in
  birun seqform max_iter x0 = Done s' \/ birun seqform max_iter x0 = Broke s' ->
  exists K, K <= max_iter /\ iter_n (bistep seqform rstar) K (biinit x0) = Some s' /\
    (forall j, j < K -> exists sj, iter_n (bistep seqform rstar) j (biinit x0) = Some sj /\ bicont x0 sj = true) /\
    (birun seqform max_iter x0 = Done s' -> K = max_iter \/ bicont x0 s' = false) /\
    (birun seqform max_iter x0 = Broke s' -> bicont x0 s' = true /\ bistep seqform rstar s' = None) /\
    (forall j, j <= K -> exists sj, iter_n (bistep seqform rstar) j (biinit x0) = Some sj /\
        nth (bi_iter sj) (bi_hist s') zero = true_res_nsq (bi_x sj)) /\
    last (bi_hist s') zero = true_res_nsq (bi_x s') /\ length (bi_hist s') = S (bi_iter s').
Proof. intros. eapply bi_run_spec; eauto. Qed.

Theorem C17_bicgstab_exact_start_returns_immediately seqform max_iter x0 : length x0 = n -> mulA x0 = b ->
  birun seqform max_iter x0 = Done (biinit x0) /\ bi_x (biinit x0) = x0 /\ bi_hist (biinit x0) = [zero] /\ bi_iter (biinit x0) = 0.
Proof. intros. eapply bi_exact_start; eauto. Qed.

(* when the half step converges exactly (s = r - alpha A p = 0) the iteration divides 0 by 0: non-finite output *)
Theorem C17_bicgstab_halfstep_breaks seqform rstar s alpha p Ap :
  bi_half F zero one mul opp div eqb mulA sops rstar s = Some (alpha, p, Ap, zeros n) ->
  bistep seqform rstar s = None.
Proof. intros. eapply bi_halfstep_breaks; eauto. Qed.

(* Vector::norm(2)^2 (sum of pow(val,2) over every entry) is <v,v> *)
Theorem C17_norm_is_2norm v : norm2sq v = inner v v.
Proof. eapply norm2sq_inner; eauto. Qed.

(* ---------- PCG (par_cg.cpp), preconditioner = any map prec with prec 0 = 0 ---------- *)
Variable prec : list F -> list F.
Variable ztol2 : F.
Hypothesis prec_len : forall r, length r = n -> length (prec r) = n.
Notation pcstep := (pcg_step F zero one mul opp div eqb ltb mulA residA sops b tol prec ztol2).
Notation pcinit := (pcg_init F residA sops b prec).
Notation pcrun := (pcg_run F zero one mul opp div eqb ltb mulA residA sops b tol prec ztol2).
Notation pcg_inv := (pcg_inv F zero add mul sub div ltb n mulA b tol prec ztol2).

(* pcg_inv s: r = b - A x; the last reported value is <r, M^-1 r> (entry 0) resp. <r, M^-1 r>/<b, M^-1 b> of the
   current iterate; `break` was taken iff that value passes the test next_inner < tol' *)
Theorem C17_pcg_reports_and_stops_first max_iter x0 s' : length x0 = n ->
  pcrun max_iter x0 = Done s' \/ pcrun max_iter x0 = Broke s' ->
  pcg_inv s' /\
  exists K, K <= max_iter /\ iter_n pcstep K (pcinit x0) = Some s' /\
    (forall j, j < K -> exists sj, iter_n pcstep j (pcinit x0) = Some sj /\ pcg_inv sj /\ pcg_cont F sj = true) /\
    (pcrun max_iter x0 = Done s' -> K = max_iter \/ pcg_cont F s' = false).
Proof. intros. eapply pcg_run_spec; eauto. Qed.

(* PCG has no initial convergence test: from the exact solution (e.g. b = 0, x0 = 0) every run with max_iter >= 1
   divides 0 by 0 in the first iteration *)
Theorem C17_pcg_exact_start_breaks max_iter x0 : prec (zeros n) = zeros n -> length x0 = n -> mulA x0 = b ->
  pcrun (S max_iter) x0 = Broke (pcinit x0).
Proof. intros. eapply pcg_exact_start_breaks; eauto. Qed.

(* ---------- distributed = sequential, for every partition (list of local sizes, zeros allowed) ---------- *)
Variable parts : list nat.
Hypothesis Hparts : psum parts = n.
Notation dops := (dist_ops F zero add mul parts).

Theorem C17_dist_kernels_are_those_of_the_assembled_vector u v a : length u = n -> length v = n ->
  dinner F zero add mul parts u v = inner u v /\
  dnorm2sq F zero add mul parts v = norm2sq v /\
  daxpy F add mul parts u v a = axpy u v a /\
  dscale F mul parts u a = vscale F mul u a.
Proof.
  intros Hu Hv. split; [eapply dI; eauto|]. split; [eapply dN; eauto|]. split; [eapply dA; eauto|eapply dS; eauto].
Qed.

Theorem C17_dist_cg_is_seq_cg max_iter x0 : length x0 = n ->
  cg_run F zero one mul opp div eqb ltb mulA residA dops b tol max_iter x0 = cgrun max_iter x0.
Proof. intros. eapply cg_run_dist; eauto. Qed.

Theorem C17_dist_bicgstab_is_seq_bicgstab seqform max_iter x0 : length x0 = n ->
  bi_run F zero one mul opp div eqb ltb mulA residA dops b tol seqform max_iter x0 = birun seqform max_iter x0.
Proof. intros. eapply bi_run_dist; eauto. Qed.

Theorem C17_dist_pcg_is_pcg_on_assembled_vectors max_iter x0 : length x0 = n ->
  pcg_run F zero one mul opp div eqb ltb mulA residA dops b tol prec ztol2 max_iter x0 = pcrun max_iter x0.
Proof. intros. eapply pcg_run_dist; eauto. Qed.

(* what the distributed CG pushes into res is norm_r / b_norm, b_norm = ||b||_2 of the assembled b (1.0 when b_norm < zero_tol):
   entry k of the reported history, squared, times ||b||^2 is the model's history entry <r_k, r_k> *)
Theorem C17_par_cg_reported_scaling (bb hist : list F) zt2 k :
  length bb = n -> ltb (norm2sq bb) zt2 = false -> norm2sq bb <> zero -> k < length hist ->
  mul (nth k (par_cg_reported F zero one add mul div ltb parts zt2 bb hist) zero) (norm2sq bb) = nth k hist zero.
Proof. intros. eapply par_cg_reported_true; eauto. Qed.

(* ---------- non-finite values (xval = Fin q | NaNv) ---------- *)
Theorem C17_norm_and_inner_product_nonfinite (u v : list (xval F)) ps :
  (length u = length v -> In NaNv u \/ In NaNv v -> xinner F zero add mul u v = NaNv) /\
  (In NaNv v -> xnorm2sq F zero add mul v = NaNv) /\
  (length u = psum ps -> length v = psum ps -> In NaNv u \/ In NaNv v -> xdinner F zero add mul ps u v = NaNv) /\
  (length v = psum ps -> In NaNv v -> xdnorm2sq F zero add mul ps v = NaNv) /\
  (forall t, xgt F ltb NaNv t = false).
Proof.
  refine (conj _ (conj _ (conj _ (conj _ _)))).
  - apply xinner_nan.
  - apply xnorm2sq_nan.
  - apply xdinner_nan.
  - apply xdnorm2sq_nan.
  - intros; reflexivity.
Qed.

Theorem C17_norm_and_inner_product_finite (u v : list F) ps :
  xinner F zero add mul (map Fin u) (map Fin v) = Fin (inner u v) /\
  xnorm2sq F zero add mul (map Fin v) = Fin (norm2sq v) /\
  xdnorm2sq F zero add mul ps (map Fin v) = Fin (dnorm2sq F zero add mul ps v).
Proof. refine (conj _ (conj _ _)); [apply xinner_fin|apply xnorm2sq_fin|apply xdnorm2sq_fin]. Qed.

(* ---------- the operator used for extraction ---------- *)
Theorem C17_csr_operator (A : csr F) x p a bb :
  length (csr_spmv F zero add mul A x) = length (csr_rows A) /\
  (length x = length p -> csr_spmv F zero add mul A (axpy x p a) = axpy (csr_spmv F zero add mul A x) (csr_spmv F zero add mul A p) a) /\
  (length bb = length (csr_rows A) -> csr_residual F zero mul sub A x bb = vsub bb (csr_spmv F zero add mul A x)).
Proof.
  split; [apply csr_spmv_length|]. split; [eapply csr_spmv_linear; eauto|eapply csr_residual_spec; eauto].
Qed.

End C17.

(* ---------- statements about the executed instance (Qc) ---------- *)
(* refuted: "BiCGStab returns finite values on every non-singular diagonally dominant system": 2 x = 1 from x0 = 0,
   sequential class and distributed (partition 0,1) *)
Theorem C17_bicgstab_halfstep_breakdown_refuted :
  exists (A : csr Qc) (b x0 : list Qc) (tol : Qc) (max_iter : nat),
    A = A1 /\
    is_broke (q_bi_run A q_seq_ops b tol true max_iter x0) = true /\
    is_broke (q_bi_run A (q_dist_ops [0; 1]) b tol false max_iter x0) = true.
Proof.
  exists A1, (qv [1%Z]), (qv [0%Z]), tol10, 10. split; [reflexivity|]. exact bicgstab_halfstep_example.
Qed.

(* refuted: "PCG started at the exact solution returns immediately without producing non-finite values" *)
Theorem C17_pcg_exact_start_refuted :
  exists (A : csr Qc) (M : list (list Qc)) (b x0 : list Qc) (tol : Qc) (max_iter : nat),
    q_csr_spmv A x0 = b /\ is_broke (q_pcg_run A M (q_dist_ops [1]) b tol max_iter x0) = true.
Proof.
  exists A1, [[Q2Qc 1%Q]], (qv [2%Z]), (qv [1%Z]), tol10, 5. split; [reflexivity|]. exact pcg_exact_start_example.
Qed.

(* the hypotheses of section C17 are jointly satisfiable: Qc, n = 1, A = [2] in CSR form *)
Example C17_hypotheses_nonvacuous :
  field_theory 0%Qc 1%Qc Qcplus Qcmult Qcminus Qcopp Qcdiv Qcinv eq /\
  (forall a c, Qc_eqb a c = true <-> a = c) /\ (forall a c, Qc_ltb a c = true <-> flt Qc Qcle a c) /\
  (forall a c, Qcle a c \/ Qcle c a) /\ (forall a c d, Qcle a c -> Qcle (a + d) (c + d))%Qc /\
  (forall a c, Qcle 0%Qc a -> Qcle 0%Qc c -> Qcle 0%Qc (a * c)%Qc) /\
  (forall x, length x = 1 -> length (q_csr_spmv A1 x) = 1) /\
  (forall x p a, length x = 1 -> length p = 1 ->
     q_csr_spmv A1 (axpy Qc Qcplus Qcmult x p a) = axpy Qc Qcplus Qcmult (q_csr_spmv A1 x) (q_csr_spmv A1 p) a) /\
  (forall x bb, length x = 1 -> length bb = 1 -> q_csr_residual A1 x bb = vsub Qc Qcminus bb (q_csr_spmv A1 x)) /\
  (forall u v, length u = 1 -> length v = 1 -> q_inner (q_csr_spmv A1 u) v = q_inner u (q_csr_spmv A1 v)) /\
  (forall v, length v = 1 -> v <> repeat 0%Qc 1 -> flt Qc Qcle 0%Qc (q_inner (q_csr_spmv A1 v) v)).
Proof.
  split; [exact Qcft|]. split; [exact Qc_eqb_spec|]. split; [exact Qc_ltb_spec|]. split; [exact Qcle_total|].
  split; [exact Qcle_add|]. split; [exact Qcle_mul|].
  split; [intros x _; apply (csr_spmv_length Qc 0%Qc Qcplus Qcmult A1)|].
  split; [intros x p a Hx Hp; apply (csr_spmv_linear Qc 0%Qc 1%Qc Qcplus Qcmult Qcminus Qcopp Qcdiv Qcinv Qcft); congruence|].
  split; [intros x bb Hx Hbb; apply (csr_residual_spec Qc 0%Qc 1%Qc Qcplus Qcmult Qcminus Qcopp Qcdiv Qcinv Qcft); exact Hbb|].
  split; [exact A1_sym|exact A1_spd].
Qed.

(* the conclusions are exercised by concrete runs of the extracted instance *)
Example C17_cg_run_nonvacuous :
  match q_cg_run A2 q_seq_ops (qv [1; 2]%Z) tol10 10 (qv [0; 0]%Z) with
  | Done s => veqb (cg_x s) [Q2Qc (4 # 3)%Q; Q2Qc (5 # 3)%Q] && Nat.eqb (cg_iter s) 2 &&
              veqb (cg_hist s) [Q2Qc 5%Q; Q2Qc (5 # 4)%Q; Q2Qc 0%Q]
  | Broke _ => false
  end = true.
Proof. exact cg_example. Qed.
Example C17_dist_cg_run_nonvacuous :
  match q_cg_run A2 (q_dist_ops [1; 0; 1]) (qv [1; 2]%Z) tol10 10 (qv [0; 0]%Z) with
  | Done s => veqb (cg_x s) [Q2Qc (4 # 3)%Q; Q2Qc (5 # 3)%Q] && Nat.eqb (cg_iter s) 2
  | Broke _ => false
  end = true.
Proof. exact cg_dist_example. Qed.
Example C17_bicgstab_run_nonvacuous :
  match q_bi_run A3 q_seq_ops (qv [1; 2]%Z) tol10 true 1 (qv [0; 0]%Z) with
  | Done s => Nat.eqb (bi_iter s) 1 && Nat.eqb (length (bi_hist s)) 2
  | Broke _ => false
  end = true.
Proof. exact bicgstab_example. Qed.
Example C17_pcg_run_nonvacuous :
  match q_pcg_run A1 [[Q2Qc 1%Q]] (q_dist_ops [1]) (qv [2]%Z) tol10 5 (qv [0]%Z) with
  | Done s => veqb (pc_x s) [Q2Qc 1%Q] && pc_stop s && Nat.eqb (pc_iter s) 1
  | Broke _ => false
  end = true.
Proof. exact pcg_example. Qed.

Print Assumptions C17_loop_stops_at_first.
Print Assumptions C17_cg_reports_true_residuals_and_stops_first.
Print Assumptions C17_cg_exact_start_returns_immediately.
Print Assumptions C17_cg_spd_never_breaks.
Print Assumptions C17_cg_energy_identity.
Print Assumptions C17_cg_energy_monotone.
Print Assumptions C17_bicgstab_reports_true_residuals_and_stops_first.
Print Assumptions C17_bicgstab_exact_start_returns_immediately.
Print Assumptions C17_bicgstab_halfstep_breaks.
Print Assumptions C17_norm_is_2norm.
Print Assumptions C17_pcg_reports_and_stops_first.
Print Assumptions C17_pcg_exact_start_breaks.
Print Assumptions C17_dist_kernels_are_those_of_the_assembled_vector.
Print Assumptions C17_dist_cg_is_seq_cg.
Print Assumptions C17_dist_bicgstab_is_seq_bicgstab.
Print Assumptions C17_dist_pcg_is_pcg_on_assembled_vectors.
Print Assumptions C17_par_cg_reported_scaling.
Print Assumptions C17_norm_and_inner_product_nonfinite.
Print Assumptions C17_norm_and_inner_product_finite.
Print Assumptions C17_csr_operator.
Print Assumptions C17_bicgstab_halfstep_breakdown_refuted.
Print Assumptions C17_pcg_exact_start_refuted.
