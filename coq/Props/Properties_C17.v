(* C17 — Krylov solvers report true residuals and agree across partitions.  (under construction) *)
From Raptor Require Import Base.Sums Krylov.KDefs Krylov.KProofs.

Section C17.
Variable St : Type.
Variable cont : St -> bool.
Variable step : St -> option St.

Theorem C17_loop_stops_at_first (fuel : nat) (s s' : St) :
  run cont step fuel s = Done s' ->
  exists K, K <= fuel /\ iter_n step K s = Some s' /\
            (forall j, j < K -> exists sj, iter_n step j s = Some sj /\ cont sj = true) /\
            (K = fuel \/ cont s' = false).
Proof. apply run_done_spec. Qed.
End C17.

Print Assumptions C17_loop_stops_at_first.
