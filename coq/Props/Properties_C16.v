(* C16 — The tentative prolongator reproduces the candidates; prolongation smoothing is (I - omega D^-1 A)^k T.
   Property-level theorems only; each is closed by lemmas from Amg/{Candidates,ParCandidates,Prolong}Proofs.v.

   Model: Amg/Candidates.v (fit_candidates of candidates.cpp and par_candidates.cpp, num_candidates = 1),
          Amg/Prolong.v (jacobi_prolongation of prolongation.cpp and par_prolongation.cpp, with the library's
          SpGEMM and subtract).
   F is any totally ordered field; sqrt is any function that is a non-negative square root ON THE VALUES THE CODE
   TAKES IT OF (good_sqrt: the squared norms of the restrictions of B) -- so the statements also hold for the executed
   instance Qc on data whose norms are rational, and for the reals. tol is any threshold with 0 <= tol < 1
   (the library passes 1e-10).
   `den M i j` is the sum of the stored values of M at (i,j): the operator M represents. *)
From Raptor Require Import Base.Sums Sparse.Defs Sparse.ConvertProofs
  Amg.Candidates Amg.CandidatesProofs Amg.ParCandidatesProofs Amg.Prolong Amg.ProlongProofs.
From Raptor Require Import Sparse.SpgemmProofs Dist.Comm Dist.ParSpgemm Dist.ParSpgemmPkg Amg.ParProlongPkg.
From Coq Require Import Field.

Section C16.
Variable F : Type.
Variables (zero one : F) (add mul sub : F -> F -> F) (opp : F -> F) (div : F -> F -> F) (inv : F -> F).
Variable Fth : field_theory zero one add mul sub opp div inv (@eq F).
Variable le : F -> F -> Prop.
Hypothesis le_refl : forall a, le a a.
Hypothesis le_antisym : forall a b, le a b -> le b a -> a = b.
Hypothesis le_trans : forall a b c, le a b -> le b c -> le a c.
Hypothesis le_total : forall a b, le a b \/ le b a.
Hypothesis le_add_r : forall a b c, le a b -> le (add a c) (add b c).
Hypothesis le_mul_nn : forall a b, le zero a -> le zero b -> le zero (mul a b).
Variable ltb : F -> F -> bool.
Hypothesis ltb_spec : forall a b, ltb a b = true <-> (le a b /\ a <> b).
Variable eqb : F -> F -> bool.
Hypothesis eqb_spec : forall a b, eqb a b = true <-> a = b.
Variable sqrt : F -> F.
Variable small : F -> bool.      (* |v| <  zero_tol : dropped by remove_duplicates *)
Variable small2 : F -> bool.     (* |v| <= zero_tol : not emitted by the SpGEMM *)
Hypothesis small_zero : small zero = true.
Hypothesis small2_zero : small2 zero = true.

Notation sumF := (sumf F zero add).
Notation den := (den_csr F zero add).
Notation fitc := (fit_candidates F zero one add mul div sqrt ltb).
Notation Tof na aggs B tol := (fst (fitc na aggs B tol)).
Notation Rof na aggs B tol := (snd (fitc na aggs B tol)).
Notation Bat := (bat F zero).
Notation gsq := (gsumsq F zero add mul).                 (* squared norm of B restricted to an aggregate *)
Notation pgsq := (pgsumsq F zero add mul).               (* the same with global aggregate ids / isolated vertices *)
Notation good := (good_sqrt F zero mul le sqrt).
Notation tolok := (tol_ok F zero one le).
Notation jacobi := (jacobi_prolongation F zero one add mul opp div ltb eqb small small2).
Notation par_jacobi := (par_jacobi_prolongation F zero one add mul opp div ltb eqb small small2).
Notation par_T := (par_fit_T F zero one add mul div sqrt).
Notation par_fit := (par_fit_candidates F zero one add mul div sqrt).
Notation dropS := (drop F zero small).
Notation drop2S := (drop2 F zero small2).
Notation S_of omega A := (scaled F zero add mul opp div ltb eqb omega A).   (* omega D^-1 A, D = absolute row sums *)

(* ---- tentative prolongator, sequential, all sizes and all aggregations ---- *)

(* shape: T is n x n_aggs, R has one entry per aggregate *)
Theorem C16_shapes na aggs B tol :
  csr_nr (Tof na aggs B tol) = length aggs /\ csr_nc (Tof na aggs B tol) = na /\
  length (csr_rows (Tof na aggs B tol)) = length aggs /\ length (Rof na aggs B tol) = na.
Proof.
  split; [reflexivity|split; [reflexivity|split]].
  - unfold fit_candidates, csc_to_csr, coo_to_csr; simpl. apply bucket_length.
  - apply fit_R_length.
Qed.

(* every entry in closed form: T(i,a) = B_i * scale_a on the rows of aggregate a, nothing elsewhere *)
Theorem C16_entries na aggs B tol i a :
  den (Tof na aggs B tol) i a =
  if (i <? length aggs) && (a <? na) && (nth i aggs 0 =? a)
  then mul (Bat B i) (col_scale F zero one mul div ltb sqrt tol (gsq aggs B a)) else zero.
Proof. eapply den_T_closed; eassumption. Qed.

(* columns are supported on their aggregates *)
Theorem C16_support na aggs B tol i a :
  den (Tof na aggs B tol) i a <> zero -> i < length aggs /\ nth i aggs 0 = a.
Proof.
  intros H. destruct (Nat.lt_ge_cases i (length aggs)) as [Hi|Hi].
  - split; [exact Hi|]. destruct (Nat.eq_dec (nth i aggs 0) a) as [E|E]; [exact E|].
    exfalso. apply H. eapply T_support; [eassumption|]. left. exact E.
  - exfalso. apply H. eapply T_support; [eassumption|]. right. exact Hi.
Qed.

(* T R = B on every vertex (also when a restriction vanishes: then B is zero there) *)
Theorem C16_T_R_eq_B na aggs B tol i :
  aggs_wf na aggs -> tolok tol -> (forall a, a < na -> good (gsq aggs B a)) -> i < length aggs ->
  sumF (map (fun a => mul (den (Tof na aggs B tol) i a) (nth a (Rof na aggs B tol) zero)) (seq 0 na)) = Bat B i.
Proof.
  intros. eapply T_R_eq_B; eassumption.
Qed.

(* orthonormal columns: <T_a,T_b> = 0 for a <> b, <T_a,T_a> = 1 when the restriction of B to aggregate a is non-zero,
   and 0 on the threshold branch *)
Theorem C16_orthonormal na aggs B tol a b :
  aggs_wf na aggs -> tolok tol -> (forall a, a < na -> good (gsq aggs B a)) -> a < na -> b < na ->
  sumF (map (fun i => mul (den (Tof na aggs B tol) i a) (den (Tof na aggs B tol) i b)) (seq 0 (length aggs)))
  = if a =? b then (if eqb (gsq aggs B a) zero then zero else one) else zero.
Proof.
  intros. eapply T_gram; eassumption.
Qed.

(* R holds the column norms; the threshold branch, precisely: restriction zero <-> R_a = 0 and column a of T zero *)
Theorem C16_R_norms na aggs B tol a :
  tolok tol -> good (gsq aggs B a) -> a < na ->
  let r := nth a (Rof na aggs B tol) zero in
  le zero r /\ mul r r = gsq aggs B a /\
  (gsq aggs B a = zero -> r = zero) /\ (gsq aggs B a <> zero -> r = sqrt (gsq aggs B a)).
Proof.
  intros. eapply R_norm; eassumption.
Qed.

Theorem C16_zero_branch na aggs B tol a :
  good (gsq aggs B a) -> gsq aggs B a = zero -> a < na ->
  nth a (Rof na aggs B tol) zero = zero /\ forall i, den (Tof na aggs B tol) i a = zero.
Proof.
  intros. eapply T_zero_branch; eassumption.
Qed.

(* ---- smoothing, sequential ---- *)

(* one step (the library default k = 1), drops included: P = drop(T - drop2(S T)), S = omega D^-1 A *)
Theorem C16_smooth_one_step (A T : csr F) omega i j :
  length (csr_rows A) <= length (csr_rows T) ->
  den (jacobi A T omega 1) i j =
  dropS (sub (den T i j)
             (drop2S (sumF (map (fun l => mul (S_of omega A i l) (den T l j)) (seq 0 (length (csr_rows T))))))).
Proof.
  intros H.
  erewrite den_jacobi_prolongation; try eassumption. reflexivity.
Qed.

(* k steps: the same step iterated (k = 2 is the k = 1 statement applied twice) *)
Theorem C16_smooth_k_steps (A T : csr F) omega k i j :
  length (csr_rows A) <= length (csr_rows T) ->
  den (jacobi A T omega k) i j =
  smooth_den F zero add mul sub small small2 (length (csr_rows T)) (S_of omega A) (den T) k i j.
Proof.
  intros. eapply den_jacobi_prolongation; eassumption.
Qed.

(* exact form: when no non-zero intermediate value falls below the drop tolerances, P = (I - omega D^-1 A)^k T *)
Theorem C16_smooth_exact (A T : csr F) omega k i j :
  length (csr_rows A) <= length (csr_rows T) ->
  no_underflow F zero add mul sub small small2 (length (csr_rows T)) (S_of omega A) (den T) k ->
  i < length (csr_rows T) ->
  den (jacobi A T omega k) i j =
  mat_apply_k F zero add mul (length (csr_rows T)) (I_minus F zero one sub (S_of omega A)) (den T) k i j.
Proof.
  intros H Hn Hi.
  erewrite den_jacobi_prolongation_exact; try eassumption.
  eapply smooth_exact_matrix; [eassumption|reflexivity|exact Hi].
Qed.

(* D is the absolute row sum over all stored entries of the row, the diagonal included; rows with D = 0 get 0 *)
Theorem C16_scaling_is_abs_row_sum (A : csr F) omega i l :
  S_of omega A i l =
  mul (den A i l)
      (let D := sumF (map (fun p => absF F zero opp ltb (snd p)) (nth i (csr_rows A) [])) in
       if eqb D zero then zero else div omega D).
Proof. reflexivity. Qed.

(* ---- distributed: functions of the global data and the partition ---- *)

(* gathered T: independent of the partition (any block sizes, empty blocks included); rows of isolated vertices empty *)
Theorem C16_par_T_entries sizes aggs B i c :
  fold_right Nat.add 0 sizes = length aggs -> paggs_wf aggs ->
  den (par_T sizes aggs B) i c =
  match nth i aggs None with
  | Some a => if a =? c then mul (Bat B i) (div one (sqrt (pgsq aggs B a))) else zero
  | None => zero
  end.
Proof. intros. eapply den_par_T; eassumption. Qed.

(* R on every rank: the norms of the aggregates whose root it owns, whoever holds the members *)
Theorem C16_par_R sizes aggs B r ro :
  fold_right Nat.add 0 sizes = length aggs -> nth_error (par_fit sizes aggs B) r = Some ro ->
  ro_R F ro = map (fun c => sqrt (pgsq aggs B c)) (ro_on F ro).
Proof.
  intros Hs Hr. eapply par_R; eassumption.
Qed.

(* gathered distributed T = sequential T, aggregate a being called roots[a] by the distributed code *)
Theorem C16_par_T_eq_seq sizes roots seq_aggs B tol i a :
  NoDup roots -> (forall c, In c roots -> c < length seq_aggs) -> aggs_wf (length roots) seq_aggs ->
  fold_right Nat.add 0 sizes = length seq_aggs -> tolok tol -> a < length roots ->
  good (gsq seq_aggs B a) -> gsq seq_aggs B a <> zero ->
  den (par_T sizes (relabel roots seq_aggs) B) i (nth a roots 0) = den (Tof (length roots) seq_aggs B tol) i a.
Proof.
  intros. eapply par_T_eq_seq; eassumption.
Qed.

(* smoothing on row blocks: gathered result = sequential result for every partition.
   _partial: the distributed SpGEMM is modelled as "every rank multiplies its rows with the global rows of P"
   (what the row exchange of ParCSRMatrix::mult delivers, properties C06/C03) and the column maps of
   ParCSRMatrix::subtract are not modelled (property C07); the correspondence run ties both to the library. *)
Theorem C16_par_smooth_eq_seq_partial sizes (A T : csr F) omega k :
  fold_right Nat.add 0 sizes = length (csr_rows A) -> length (csr_rows A) = length (csr_rows T) ->
  par_jacobi sizes A T omega k = jacobi A T omega k.
Proof. apply par_jacobi_eq. Qed.

(* one distributed smoothing step with the product computed THROUGH A COMMUNICATION PACKAGE (not handed the global
   rows of P): sA = scaled A is n x n with rows and columns partitioned by pa, P is n x nc with rows by pa and
   columns by pc; `par_mult` fetches the rows of P a rank needs through the forward row exchange of the package
   (`fetch_pkg`).  For EVERY package accepted by the id check of property C03 (`fwd_ok`) whose column maps cover
   what the ranks need, entry (i,j) of the gathered result is P_ij minus the product entry, up to the drops of the
   two accumulators (on-process / off-process partial sums) and of remove_duplicates ... *)
Theorem C16_par_smooth_step_through_package (w : world) (ids colmaps : list (list nat)) (big : nat)
        (sA P : csr F) (pa pc : list nat) i j :
  csr_wf sA -> csr_wf P -> csr_nc sA = csr_nr P -> csr_nr sA = csr_nr P -> psum pa = csr_nr sA ->
  fwd_ok w ids colmaps big = true -> length (csr_rows P) <= big ->
  (forall r k, needs F sA pa pa r k = true -> r < length w /\ In k (nth r colmaps [])) ->
  i < csr_nr sA ->
  den (par_smooth_step_pkg F zero add mul opp small2 small w ids colmaps sA P pa pc) i j =
  dropS (sub (den P i j)
     (dropS (add
       (dropm F zero small2 (sumF (map (fun k => if inblk pa (owner pa i) k then mul (den sA i k) (den P k j) else zero)
                         (seq 0 (csr_nc sA)))))
       (dropm F zero small2 (sumF (map (fun k => if negb (inblk pa (owner pa i) k) then mul (den sA i k) (den P k j) else zero)
                         (seq 0 (csr_nc sA)))))))).
Proof. exact (par_smooth_step_pkg_den F zero one add mul sub opp (F_R Fth) small2 small w ids colmaps big sA P pa pc i j). Qed.

(* ... and exactly one step of (I - sA) on data where no partial sum is small but non-zero (a class `exact` closed
   under +, *, - on which both drop tests only remove zeros; always so for integer data) *)
Theorem C16_par_smooth_step_through_package_exact (exact : F -> Prop) (w : world) (ids colmaps : list (list nat))
        (big : nat) (sA P : csr F) (pa pc : list nat) i j :
  exact zero -> (forall x y, exact x -> exact y -> exact (add x y)) ->
  (forall x y, exact x -> exact y -> exact (mul x y)) -> (forall x, exact x -> exact (opp x)) ->
  (forall x, exact x -> small2 x = true -> x = zero) -> (forall x, exact x -> small x = true -> x = zero) ->
  csr_wf sA -> csr_wf P -> csr_nc sA = csr_nr P -> csr_nr sA = csr_nr P -> psum pa = csr_nr sA ->
  fwd_ok w ids colmaps big = true -> length (csr_rows P) <= big ->
  (forall r k, needs F sA pa pa r k = true -> r < length w /\ In k (nth r colmaps [])) ->
  (forall i k, exact (den sA i k)) -> (forall k j, exact (den P k j)) -> i < csr_nr sA ->
  den (par_smooth_step_pkg F zero add mul opp small2 small w ids colmaps sA P pa pc) i j =
  sub (den P i j) (sumF (map (fun k => mul (den sA i k) (den P k j)) (seq 0 (csr_nc sA)))).
Proof. exact (par_smooth_step_pkg_exact F zero one add mul sub opp (F_R Fth) small2 small exact w ids colmaps big sA P pa pc i j). Qed.

(* ... and the whole loop of par_prolongation.cpp: k steps, every product fetched through the package (the set of rows
   a rank needs depends on sA only, so one package serves all steps): the gathered result is (I - sA)^k P, the value
   C16_smooth_exact gives for the sequential routine - for every partition pa / pc, every package accepted by the id
   check whose column maps cover the off-process columns of sA, and every k *)
Theorem C16_par_smooth_k_steps_through_package (exact : F -> Prop) (w : world) (ids colmaps : list (list nat))
        (big : nat) (sA P : csr F) (pa pc : list nat) k i j :
  exact zero -> (forall x y, exact x -> exact y -> exact (add x y)) ->
  (forall x y, exact x -> exact y -> exact (mul x y)) -> (forall x, exact x -> exact (opp x)) ->
  (forall x, exact x -> small2 x = true -> x = zero) -> (forall x, exact x -> small x = true -> x = zero) ->
  csr_wf sA -> csr_nc sA = csr_nr sA -> psum pa = csr_nr sA ->
  fwd_ok w ids colmaps big = true -> csr_nr sA <= big ->
  (forall r k, needs F sA pa pa r k = true -> r < length w /\ In k (nth r colmaps [])) ->
  (forall i k, exact (den sA i k)) ->
  csr_wf P -> csr_nr P = csr_nr sA -> (forall k j, exact (den P k j)) -> i < csr_nr sA ->
  den (par_smooth_iter_pkg F zero add mul opp small2 small w ids colmaps k sA P pa pc) i j =
  smooth_exact F zero add mul sub (csr_nr sA) (den sA) (den P) k i j.
Proof.
  intros I0 Ia Im Io Is1 Is2 HA Hsq Hp Hok Hbig Hneed IA HP Hn IP Hi.
  apply (par_smooth_iter_pkg_exact F zero one add mul sub opp (F_R Fth) small2 small exact I0 Ia Im Io Is1 Is2
           w ids colmaps big sA pa pc HA Hsq Hp Hok Hbig Hneed IA k P); [|exact Hi].
  split; [exact HP|split; [exact Hn|exact IP]].
Qed.

(* the package-level model above is not executed by the correspondence run; the row-block model `par_jacobi_iter`
   (every rank handed the global rows of P) is.  Under the hypotheses of both statements the two represent the
   same operator, so what the run ties to the library is also what the package theorem speaks about *)
Theorem C16_package_model_agrees_with_executed_model (exact : F -> Prop) (w : world) (ids colmaps : list (list nat))
        (big : nat) (sizes : list nat) (sA P : csr F) (pa pc : list nat) k i j :
  exact zero -> (forall x y, exact x -> exact y -> exact (add x y)) ->
  (forall x y, exact x -> exact y -> exact (mul x y)) -> (forall x, exact x -> exact (opp x)) ->
  (forall x, exact x -> small2 x = true -> x = zero) -> (forall x, exact x -> small x = true -> x = zero) ->
  csr_wf sA -> csr_nc sA = csr_nr sA -> psum pa = csr_nr sA ->
  fwd_ok w ids colmaps big = true -> csr_nr sA <= big ->
  (forall r k, needs F sA pa pa r k = true -> r < length w /\ In k (nth r colmaps [])) ->
  (forall i k, exact (den sA i k)) ->
  csr_wf P -> csr_nr P = csr_nr sA -> (forall k j, exact (den P k j)) -> i < csr_nr sA ->
  fold_right Nat.add 0 sizes = length (csr_rows P) ->
  den (par_smooth_iter_pkg F zero add mul opp small2 small w ids colmaps k sA P pa pc) i j =
  den (par_jacobi_iter F zero add mul opp small small2 sizes k sA P) i j.
Proof.
  intros I0 Ia Im Io Is1 Is2 HA Hsq Hp Hok Hbig Hneed IA HP Hn IP Hi Hs.
  rewrite (C16_par_smooth_k_steps_through_package exact w ids colmaps big sA P pa pc k i j) by assumption.
  assert (HlA : length (csr_rows sA) = csr_nr sA) by (destruct HA as [H _]; exact H).
  assert (HlP : length (csr_rows P) = csr_nr sA) by (destruct HP as [H _]; rewrite H; exact Hn).
  rewrite par_iter_eq by (try exact Hs; rewrite HlA, HlP; reflexivity).
  rewrite (den_jacobi_iter F zero one add mul sub opp div inv Fth small small2 small_zero small2_zero)
    by (rewrite HlA, HlP; apply le_n).
  rewrite HlP. symmetry. apply smooth_den_exact.
  apply (no_underflow_exact F zero one add mul sub opp (F_R Fth) small2 small exact); assumption.
Qed.

End C16.

Print Assumptions C16_shapes.
Print Assumptions C16_entries.
Print Assumptions C16_support.
Print Assumptions C16_T_R_eq_B.
Print Assumptions C16_orthonormal.
Print Assumptions C16_R_norms.
Print Assumptions C16_zero_branch.
Print Assumptions C16_smooth_one_step.
Print Assumptions C16_smooth_k_steps.
Print Assumptions C16_smooth_exact.
Print Assumptions C16_scaling_is_abs_row_sum.
Print Assumptions C16_par_T_entries.
Print Assumptions C16_par_R.
Print Assumptions C16_par_T_eq_seq.
Print Assumptions C16_par_smooth_eq_seq_partial.
Print Assumptions C16_par_smooth_step_through_package.
Print Assumptions C16_par_smooth_step_through_package_exact.
Print Assumptions C16_par_smooth_k_steps_through_package.
Print Assumptions C16_package_model_agrees_with_executed_model.

(* ---------- non-vacuity: every hypothesis above is satisfiable, at the executed instance Qc ---------- *)
From Coq Require Import QArith Qcanon.
From Raptor Require Import Extract.Inst Extract.Inst_sa Amg.SaQcFacts.
Local Open Scope Qc_scope.

(* two aggregates {0,2} and {1,3,4}; B restricted to them is (3,4) and (1,2,2): norms 5 and 3 *)
Definition ex_aggs : list nat := [0; 1; 0; 1; 1]%nat.
Definition ex_B : list Qc := [Q2Qc 3; Q2Qc 1; Q2Qc 4; Q2Qc 2; Q2Qc 2].
Definition ex_tol : Qc := Q2Qc (1 # 10000000000).

Lemma ex_aggs_wf : aggs_wf 2 ex_aggs.
Proof. intros a H. simpl in H. intuition lia. Qed.

Lemma ex_tol_ok : tol_ok Qc 0 1 Qcle ex_tol.
Proof.
  repeat split.
  - unfold Qcle, Qle; simpl; lia.
  - unfold Qcle, Qle; simpl; lia.
  - intros H. apply (f_equal this) in H. vm_compute in H. discriminate.
Qed.

Lemma ex_good_sqrt a : (a < 2)%nat ->
  good_sqrt Qc 0 Qcmult Qcle Qc_sqrt (gsumsq Qc 0 Qcplus Qcmult ex_aggs ex_B a).
Proof.
  intros Ha. destruct a as [|[|a]]; [| |lia]; split;
    try (apply Qc_is_canon; vm_compute; reflexivity); unfold Qcle, Qle; vm_compute; discriminate.
Qed.

Example C16_tentative_nonvacuous :
  aggs_wf 2 ex_aggs /\ tol_ok Qc 0 1 Qcle ex_tol /\
  (forall a, (a < 2)%nat -> good_sqrt Qc 0 Qcmult Qcle Qc_sqrt (gsumsq Qc 0 Qcplus Qcmult ex_aggs ex_B a)) /\
  snd (q_fit_candidates 2 ex_aggs ex_B ex_tol) = [Q2Qc 5; Q2Qc 3] /\
  q_den_csr (fst (q_fit_candidates 2 ex_aggs ex_B ex_tol)) 0 0 = Q2Qc (3 # 5).
Proof.
  split; [exact ex_aggs_wf|split; [exact ex_tol_ok|split; [exact ex_good_sqrt|split]]].
  - vm_compute. repeat f_equal; apply Qc_is_canon; reflexivity.
  - apply Qc_is_canon. vm_compute. reflexivity.
Qed.

(* the theorems instantiate at Qc with the executed sqrt *)
Example C16_T_R_eq_B_nonvacuous i : (i < 5)%nat ->
  sumf Qc 0 Qcplus (map (fun a => q_den_csr (fst (q_fit_candidates 2 ex_aggs ex_B ex_tol)) i a *
                                  nth a (snd (q_fit_candidates 2 ex_aggs ex_B ex_tol)) 0) (seq 0 2))
  = bat Qc 0 ex_B i.
Proof.
  intros Hi.
  apply (C16_T_R_eq_B Qc 0 1 Qcplus Qcmult Qcminus Qcopp Qcdiv Qcinv Qcft Qcle Qcle_refl Qcle_antisym Qcle_trans
           Qc_le_total Qc_le_add_r Qc_le_mul_nn Qc_ltb Qc_ltb_spec Qc_eqb Qc_eqb_spec Qc_sqrt 2%nat ex_aggs ex_B ex_tol i
           ex_aggs_wf ex_tol_ok ex_good_sqrt Hi).
Qed.

Example C16_orthonormal_nonvacuous a b : (a < 2)%nat -> (b < 2)%nat ->
  sumf Qc 0 Qcplus (map (fun i => q_den_csr (fst (q_fit_candidates 2 ex_aggs ex_B ex_tol)) i a *
                                  q_den_csr (fst (q_fit_candidates 2 ex_aggs ex_B ex_tol)) i b) (seq 0 5))
  = if (a =? b)%nat then (if Qc_eqb (gsumsq Qc 0 Qcplus Qcmult ex_aggs ex_B a) 0 then 0 else 1) else 0.
Proof.
  intros Ha Hb.
  apply (C16_orthonormal Qc 0 1 Qcplus Qcmult Qcminus Qcopp Qcdiv Qcinv Qcft Qcle Qc_le_add_r Qc_le_mul_nn
           Qc_ltb Qc_ltb_spec Qc_eqb Qc_eqb_spec Qc_sqrt 2%nat ex_aggs ex_B ex_tol a b
           ex_aggs_wf ex_tol_ok ex_good_sqrt Ha Hb).
Qed.

(* threshold branch: B vanishes on the only aggregate *)
Example C16_zero_branch_nonvacuous :
  good_sqrt Qc 0 Qcmult Qcle Qc_sqrt (gsumsq Qc 0 Qcplus Qcmult [0; 0]%nat [0; 0] 0) /\
  gsumsq Qc 0 Qcplus Qcmult [0; 0]%nat [0; 0] 0 = 0 /\
  snd (q_fit_candidates 1 [0; 0]%nat [0; 0] ex_tol) = [0].
Proof.
  split; [split|split].
  - unfold Qcle, Qle; vm_compute; discriminate.
  - apply Qc_is_canon; vm_compute; reflexivity.
  - apply Qc_is_canon; vm_compute; reflexivity.
  - vm_compute. repeat f_equal; apply Qc_is_canon; reflexivity.
Qed.

(* smoothing: the drop hypotheses hold for the library tolerances; "no underflow" is satisfiable
   (trivially so when the drops only remove exact zeros) *)
Definition is_zero (x : Qc) : bool := Qc_eqb x 0.
Lemma no_underflow_is_zero n sa k : forall t,
  no_underflow Qc 0 Qcplus Qcmult Qcminus is_zero is_zero n sa t k.
Proof.
  induction k as [|k IH]; intros t; simpl; [exact I|]. split; [|apply IH].
  intros i j. split; intros H; apply Qc_eqb_spec in H; exact H.
Qed.

Example C16_smooth_nonvacuous :
  Qc_small 0 = true /\ Qc_small_le 0 = true /\ is_zero 0 = true /\
  let A := mkCsr 2 2 [[(0%nat, Q2Qc 2); (1%nat, Q2Qc (-1))]; [(0%nat, Q2Qc (-1)); (1%nat, Q2Qc 2)]] in
  let T := mkCsr 2 1 [[(0%nat, Q2Qc 1)]; [(0%nat, Q2Qc 1)]] in
  (length (csr_rows A) <= length (csr_rows T))%nat /\
  no_underflow Qc 0 Qcplus Qcmult Qcminus is_zero is_zero 2 (scaled Qc 0 Qcplus Qcmult Qcopp Qcdiv Qc_ltb Qc_eqb 1 A)
               (den_csr Qc 0 Qcplus T) 2 /\
  q_den_csr (q_jacobi_prolongation A T 1 1) 0 0 = Q2Qc (2 # 3).
Proof.
  split; [reflexivity|split; [reflexivity|split; [reflexivity|]]]. cbv zeta.
  split; [simpl; lia|split; [apply no_underflow_is_zero|]].
  apply Qc_is_canon. vm_compute. reflexivity.
Qed.

(* distributed: 5 vertices on 3 ranks (the middle one empty), aggregates rooted at vertices 1 and 4 *)
Definition ex_roots : list nat := [1; 4]%nat.
Definition ex_seq_aggs : list nat := [0; 0; 1; 1; 1]%nat.
Definition ex_pB : list Qc := [Q2Qc 3; Q2Qc 4; Q2Qc 1; Q2Qc 2; Q2Qc 2].
Example C16_par_nonvacuous :
  NoDup ex_roots /\ (forall c, In c ex_roots -> (c < length ex_seq_aggs)%nat) /\
  aggs_wf (length ex_roots) ex_seq_aggs /\ fold_right Nat.add 0%nat [2; 0; 3]%nat = length ex_seq_aggs /\
  paggs_wf (relabel ex_roots ex_seq_aggs) /\
  (forall a, (a < 2)%nat -> good_sqrt Qc 0 Qcmult Qcle Qc_sqrt (gsumsq Qc 0 Qcplus Qcmult ex_seq_aggs ex_pB a) /\
                            gsumsq Qc 0 Qcplus Qcmult ex_seq_aggs ex_pB a <> 0) /\
  q_den_csr (q_par_fit_T [2; 0; 3]%nat (relabel ex_roots ex_seq_aggs) ex_pB) 2 4 = Q2Qc (1 # 3).
Proof.
  split; [repeat constructor; simpl; intuition lia|].
  split; [intros c H; simpl in *; intuition lia|].
  split; [intros a H; simpl in *; intuition lia|].
  split; [reflexivity|].
  split; [intros a H; simpl in H; intuition (try discriminate); match goal with E : Some _ = Some _ |- _ => inversion E; subst; simpl; lia end|].
  split.
  - intros a Ha. destruct a as [|[|a]]; [| |lia]; (split; [split|]);
      try (apply Qc_is_canon; vm_compute; reflexivity);
      try (unfold Qcle, Qle; vm_compute; discriminate);
      intros H; apply (f_equal this) in H; vm_compute in H; discriminate.
  - apply Qc_is_canon. vm_compute. reflexivity.
Qed.

(* distributed step through a package, 2 ranks: sA = [[1,1],[0,2]] (rows/cols [1;1]), P = [[1],[-1]] (cols [1;0]);
   rank 0 needs row 1 of P and receives it from rank 1; every hypothesis of the theorem holds and the step gives
   P - sA P = [[1],[1]] *)
Local Close Scope Qc_scope.
Definition exw : world := [mkPkg [(1, 1)] []; mkPkg [] [(0, [0])]]%nat.
Definition ex_sA : csr Z := mkCsr 2 2 [[(0, 1%Z); (1, 1%Z)]; [(1, 2%Z)]]%nat.
Definition ex_P : csr Z := mkCsr 2 1 [[(0, 1%Z)]; [(0, (-1)%Z)]]%nat.
Definition Zis0 (x : Z) : bool := Z.eqb x 0.
Example C16_par_smooth_step_through_package_nonvacuous :
  fwd_ok exw [[0]; [1]]%nat [[1]; []]%nat 2 = true /\
  (forall r k, needs Z ex_sA [1; 1]%nat [1; 1]%nat r k = true -> (r < length exw)%nat /\ In k (nth r [[1]; []]%nat [])) /\
  needs Z ex_sA [1; 1]%nat [1; 1]%nat 0 1 = true /\
  csr_rows (par_smooth_step_pkg Z 0%Z Z.add Z.mul Z.opp Zis0 Zis0 exw [[0]; [1]]%nat [[1]; []]%nat ex_sA ex_P
              [1; 1]%nat [1; 0]%nat) = [[(0%nat, 1%Z)]; [(0%nat, 1%Z)]] /\
  csr_rows (par_smooth_iter_pkg Z 0%Z Z.add Z.mul Z.opp Zis0 Zis0 exw [[0]; [1]]%nat [[1]; []]%nat 2 ex_sA ex_P
              [1; 1]%nat [1; 0]%nat) = [[(0%nat, (-1)%Z)]; [(0%nat, (-1)%Z)]].
Proof.
  split; [reflexivity|split; [|split; [reflexivity|split; reflexivity]]].
  intros r k H. destruct r as [|[|r]].
  - vm_compute in H. destruct k as [|[|k]]; try discriminate. split; [simpl; lia|left; reflexivity].
  - vm_compute in H. discriminate.
  - exfalso. unfold needs, off_cols, off_blk, blk, rows_where in H. cbn in H. discriminate.
Qed.
