(* C16 — placeholder while the proofs are being developed (replaced below). *)
From Raptor Require Import Base.Sums Sparse.Defs Amg.Candidates Amg.Prolong.

Section C16.
Variable F : Type.
Variables (zero one : F) (add mul sub : F -> F -> F) (opp : F -> F) (div : F -> F -> F).
Variable sqrt : F -> F.
Variable ltb : F -> F -> bool.

Theorem C16_fit_dims n_aggs aggs B tol :
  csr_nr (fst (fit_candidates F zero one add mul div sqrt ltb n_aggs aggs B tol)) = length aggs.
Proof. reflexivity. Qed.
End C16.
Print Assumptions C16_fit_dims.
