(* C09 - A multigrid cycle is a consistent, linear, history-free map.
   Property-level theorems only; each is closed by a lemma of Amg/CycleProofs.v.

   The model (Amg/Cycle.v) is Multilevel::cycle / ParMultilevel::cycle with the scratch state explicit:
   `h_cycle H ss x b` returns (x', b', ss') = everything the C++ leaves behind: the iterate, the right-hand
   side (the relaxation receives it by non-const reference) and the level vectors levels[l]->tmp,
   levels[l+1]->x, levels[l+1]->b.  A, P, the partition and the LU buffer are not outputs of any kernel of
   the model (they are read-only by construction; the harness checks this bitwise on the library).
   `chier_wf H n`: square levels with stored nonzero diagonal, conformal P, trans = 'T', and the LAPACK
   assumption for the coarsest matrix (nonsingular, dgetrs returns a solution).  The row partitions are
   arbitrary (any number of ranks, empty ranks allowed).
   Theorems 1-5 are also stated for ANY level interface that satisfies `level_ok` (any relaxation that is
   linear in (x, b), fixes solutions and does not read its scratch): C09_abstract_*. *)
From Coq Require Import QArith Qcanon.
From Raptor Require Import Base.Sums Amg.Cycle Amg.CycleProofs Extract.Inst Extract.Inst_cycle.

Section C09.
Variable F : Type.
Variables (zero one : F) (add mul sub : F -> F -> F) (opp : F -> F).
Variable Fth : ring_theory zero one add mul sub opp (@eq F).
Variable inv : F -> F.
Variable tiny : F -> bool.
Variable lapack_solve : list (list F) -> list F -> list F.
Hypothesis inv_ok : forall d, d <> zero -> mul d (inv d) = one.

Notation vec := (list F).
Notation lc := (lc F add mul).
Notation len := (len F).
Notation h_out := (h_out F zero one add mul sub inv tiny lapack_solve).
Notation h_rhs := (h_rhs F zero one add mul sub inv tiny lapack_solve).
Notation h_scr := (h_scr F zero one add mul sub inv tiny lapack_solve).
Notation scratch_ok := (scratch_ok F zero one add mul sub inv tiny).
Notation chier_wf := (chier_wf F zero add mul lapack_solve).
Notation h_solves := (h_solves F zero add mul sub).
Notation mulmat := (mulmat F zero add mul).

(* 1. history-freedom: the iterate returned by cycle() does not depend on what the level vectors contain *)
Theorem C09_history_free (H : chier F) n ss ss' x b :
  chier_wf H n -> scratch_ok H ss -> scratch_ok H ss' -> len n x -> len n b ->
  h_out H ss x b = h_out H ss' x b.
Proof. intros; eapply model_history_free; eassumption. Qed.

(* 2. the right-hand side is returned unchanged (and the scratch stays well-sized, so calls compose) *)
Theorem C09_rhs_unchanged (H : chier F) n ss x b :
  chier_wf H n -> scratch_ok H ss -> len n x -> len n b ->
  h_rhs H ss x b = b /\ scratch_ok H (h_scr H ss x b) /\ len n (h_out H ss x b).
Proof.
  intros Hw Hs Hx Hb. split; [|split].
  - apply (model_rhs_unchanged F zero one add mul sub opp Fth inv tiny lapack_solve inv_ok H n); assumption.
  - apply (model_scratch_ok F zero one add mul sub opp Fth inv tiny lapack_solve inv_ok H n); assumption.
  - apply (model_out_len F zero one add mul sub opp Fth inv tiny lapack_solve inv_ok H n); assumption.
Qed.

(* 3. linearity in (x, b), whatever the three scratch states are *)
Theorem C09_linear (H : chier F) n ss ss1 ss2 a c x1 x2 b1 b2 :
  chier_wf H n -> scratch_ok H ss -> scratch_ok H ss1 -> scratch_ok H ss2 ->
  len n x1 -> len n x2 -> len n b1 -> len n b2 ->
  h_out H ss (lc a x1 c x2) (lc a b1 c b2) = lc a (h_out H ss1 x1 b1) c (h_out H ss2 x2 b2).
Proof. intros; eapply model_linear; eassumption. Qed.

(* 4. consistency: the exact solution of the fine system is left unchanged *)
Theorem C09_consistent (H : chier F) n ss x b :
  chier_wf H n -> scratch_ok H ss -> len n x -> len n b -> h_solves H x b -> h_out H ss x b = x.
Proof. intros; eapply model_fixed_point; eassumption. Qed.

(* 5. histories: in any sequence of calls on one hierarchy (the scratch threaded from call to call) every
      call returns what it would return on a hierarchy in the reference state ss0 *)
Theorem C09_histories (H : chier F) n ss0 ss calls :
  chier_wf H n -> scratch_ok H ss0 -> scratch_ok H ss ->
  Forall (fun xb => len n (fst xb) /\ len n (snd xb)) calls ->
  run_history zero (c_coarse F zero lapack_solve (ch_trans H) (ch_coarse H))
              (mk_levels F zero one add mul sub inv tiny H (ch_levels H)) ss calls =
  map (fun xb => h_out H ss0 (fst xb) (snd xb)) calls.
Proof. intros; eapply model_histories; eassumption. Qed.

(* 6. a hierarchy of a single level is an exact solve for every nonsingular A, symmetric or not *)
Theorem C09_single_level_exact (H : chier F) n ss x b :
  chier_wf H n -> ch_levels H = [] -> len n b ->
  mulmat (ch_coarse H) (h_out H ss x b) = b /\
  (forall y, len n y -> mulmat (ch_coarse H) y = b -> h_out H ss x b = y).
Proof. intros; eapply model_single_level; eassumption. Qed.

(* 7. the dense buffer: filled row-major, read column-major by LAPACK, trans = 'T' => the system solved is A's *)
Theorem C09_coarse_layout n (M : list (list F)) :
  mat_dims F n n M -> getrs_mat F zero true n (coarse_buf F M) = M.
Proof. intros; eapply getrs_mat_T; eassumption. Qed.

(* 8. poisoned and freshly initialised level vectors are admissible scratch states (what the harness does) *)
Theorem C09_poison_admissible (H : chier F) p :
  scratch_ok H (poison_scratch F p (ch_levels H) (ch_coarse H)) /\
  scratch_ok H (fresh_scratch F zero (ch_levels H) (ch_coarse H)).
Proof. split; [apply poison_scratch_ok|apply fresh_scratch_ok]. Qed.

(* 9. the concrete kernels (hybrid Jacobi / SOR / SSOR for every partition, weight, number of sweeps;
      residual; restriction; prolongation) satisfy the abstract interface *)
Theorem C09_kernels_interface k omega sweeps n m A P parts :
  clevel_wf F zero n m A P ->
  level_ok F zero add mul
    (mkLevel n m (c_relax F zero one add mul sub inv tiny k A omega parts sweeps)
                 (c_resid F zero add mul sub A)
                 (c_restrict F zero add mul P m)
                 (c_prolong F zero add mul P)).
Proof. intros; eapply concrete_level_ok; eassumption. Qed.

(* 10-13. the same statements for ANY hierarchy of levels that satisfy the interface *)
Theorem C09_abstract_history_free csolve cres ls n ss ss' x b :
  hier_ok F zero add mul csolve cres ls n -> scr_ok F ls ss -> scr_ok F ls ss' -> len n x -> len n b ->
  cyc_x zero csolve ls ss x b = cyc_x zero csolve ls ss' x b.
Proof. intros; eapply cycle_history_free; eassumption. Qed.
Theorem C09_abstract_rhs_unchanged csolve cres ls n ss x b :
  hier_ok F zero add mul csolve cres ls n -> scr_ok F ls ss -> len n x -> len n b ->
  cyc_b zero csolve ls ss x b = b.
Proof. intros; eapply cycle_rhs_unchanged; eassumption. Qed.
Theorem C09_abstract_linear csolve cres ls n ss ss1 ss2 a c x1 x2 b1 b2 :
  hier_ok F zero add mul csolve cres ls n -> scr_ok F ls ss -> scr_ok F ls ss1 -> scr_ok F ls ss2 ->
  len n x1 -> len n x2 -> len n b1 -> len n b2 ->
  cyc_x zero csolve ls ss (lc a x1 c x2) (lc a b1 c b2) =
  lc a (cyc_x zero csolve ls ss1 x1 b1) c (cyc_x zero csolve ls ss2 x2 b2).
Proof. intros; eapply cycle_linear; eassumption. Qed.
Theorem C09_abstract_consistent csolve cres ls n ss x b :
  hier_ok F zero add mul csolve cres ls n -> scr_ok F ls ss -> len n x -> len n b ->
  h_resid F cres ls x b = zeros F zero n -> cyc_x zero csolve ls ss x b = x.
Proof. intros; eapply cycle_fixed_point; eassumption. Qed.

End C09.

(* ---------------------------------------------------------------------------------------------------- *)
(* Non-vacuity and the refutations kept as documentation (executed at Qc).                               *)
(* ---------------------------------------------------------------------------------------------------- *)
Local Open Scope Qc_scope.

Definition qv (l : list Z) : list Qc := map (fun z => Q2Qc (inject_Z z)) l.
Definition qm (l : list (list Z)) : list (list Qc) := map qv l.
Definition this_of (v : list Qc) : list Q := map this v.

(* a two-level hierarchy on two ranks: A0 = [[2,-1],[ -1,2]] non-symmetric variant, P = [[1],[1]], Ac = P^T A0 P *)
Definition exA0 := qm [[2; -1]; [-3; 4]]%Z.
Definition exP := qm [[1]; [1]]%Z.
Definition exAc := qm [[1]]%Z.
Definition exH (k : rkind) (fparts cparts : list nat) : chier Qc :=
  mkCH [mkCL exA0 exP fparts] exAc cparts k (Q2Qc (1 # 2)) 1 true.

Lemma Qc_inv_ok : forall d : Qc, d <> 0 -> d * / d = 1.
Proof. intros d Hd. apply Qcmult_inv_r. exact Hd. Qed.

(* the hypotheses of the theorems are satisfiable: exH is a well-formed hierarchy for an exact solver *)
Definition ex_solver (M : list (list Qc)) (b : list Qc) : list Qc := b.
Lemma ex_mulmat u0 : mulmat Qc 0 Qcplus Qcmult exAc [u0] = [u0].
Proof.
  cbv [mulmat dot sumf vzip map fold_right exAc qm qv]. f_equal.
  rewrite Qcplus_0_r. replace (Q2Qc (inject_Z 1)) with 1 by (apply Qc_is_canon; reflexivity). apply Qcmult_1_l.
Qed.
Example C09_chier_wf_nonvacuous :
  chier_wf Qc 0 Qcplus Qcmult ex_solver (exH RSOR [1; 1]%nat [1; 0]%nat) 2.
Proof.
  unfold chier_wf, exH. cbn [ch_levels ch_coarse ch_cparts ch_trans levels_wf next_n next_parts cl_A cl_P cl_parts length].
  split; [|split; [reflexivity|]].
  - split; [|split; [reflexivity|intros r [<-|[]]; reflexivity]].
    unfold clevel_wf, mat_dims. repeat split; try (intros r [<-|[<-|[]]]; reflexivity).
    intros i Hi. destruct i as [|[|i]]; [| |lia]; intro E; apply (f_equal this) in E; vm_compute in E; discriminate.
  - split.
    + intros u v Hu Hv E. destruct u as [|u0 [|? ?]]; try discriminate. destruct v as [|v0 [|? ?]]; try discriminate.
      change (length exAc) with 1%nat in *. rewrite !ex_mulmat in E. exact E.
    + intros b Hb. destruct b as [|b0 [|? ?]]; try discriminate. split; [reflexivity|]. apply ex_mulmat.
Qed.

(* D02b, the mult_T BEFORE the fix c46a987 (no zeroing on a rank without fine rows): on a layout where rank 1 owns the
   coarse unknown but no fine row the old content of the coarse b leaks into the result -- history-freedom was FALSE
   there.  (The current mult_T zeroes on every rank: C09_history_free has no hypothesis on the partition.) *)
Definition old_level (fparts cparts : list nat) : level Qc :=
  mkLevel 2 1 (q_c_relax RJacobi exA0 (Q2Qc (1 # 2)) fparts 1) (q_c_resid exA0)
              (c_restrict_old Qc 0 Qcplus Qcmult exP fparts cparts 1) (c_prolong Qc 0 Qcplus Qcmult exP).
Lemma C09_history_free_old_mult_T_refuted :
  exists ss ss' x b,
    scr_ok Qc [old_level [2; 0]%nat [0; 1]%nat] ss /\ scr_ok Qc [old_level [2; 0]%nat [0; 1]%nat] ss' /\
    this_of (cyc_x 0 (q_c_coarse true exAc) [old_level [2; 0]%nat [0; 1]%nat] ss x b) <>
    this_of (cyc_x 0 (q_c_coarse true exAc) [old_level [2; 0]%nat [0; 1]%nat] ss' x b).
Proof.
  exists (q_fresh_scratch [mkCL exA0 exP [2; 0]%nat] exAc),
         (q_poison_scratch (Q2Qc 1000) [mkCL exA0 exP [2; 0]%nat] exAc),
         (qv [0; 0]%Z), (qv [1; 2]%Z).
  split; [vm_compute; repeat split|]. split; [vm_compute; repeat split|].
  vm_compute. discriminate.
Qed.
(* ... while on a layout that satisfies the partition invariant the old and the new mult_T agree *)
Lemma C09_old_mult_T_same_on_hierarchies :
  forall (F : Type) (zero one : F) (add mul sub : F -> F -> F) (opp : F -> F),
    ring_theory zero one add mul sub opp (@eq F) ->
    forall P fparts cparts m r bo, guard_ok fparts cparts -> sumn cparts = m -> len F m bo ->
      c_restrict_old F zero add mul P fparts cparts m r bo = c_restrict F zero add mul P m r bo.
Proof. intros; eapply c_restrict_old_clean; eassumption. Qed.

(* the parameter order the sequential relax.hpp had before the fix, jacobi(A, b, x, tmp): the right-hand side is
   overwritten and the exact solution is not a fixed point *)
Lemma C09_old_relax_order_refuted :
  exists (H : chier Qc) x b,
    let ls := map swap_relax (mk_levels Qc 0 1 Qcplus Qcmult Qcminus Qcinv Qc_tiny H (ch_levels H)) in
    let ss := q_fresh_scratch (ch_levels H) (ch_coarse H) in
    this_of (q_c_resid exA0 x b) = this_of (qv [0; 0]%Z) /\
    this_of (cyc_b 0 (q_c_coarse true (ch_coarse H)) ls ss x b) <> this_of b /\
    this_of (cyc_x 0 (q_c_coarse true (ch_coarse H)) ls ss x b) <> this_of x.
Proof.
  exists (exH RJacobi [2]%nat [1]%nat), (qv [1; 2]%Z), (qv [0; 5]%Z).
  split; [vm_compute; reflexivity|].
  split; vm_compute; discriminate.
Qed.

(* trans = 'N' (the code before the fix) solves A^T x = b: not an exact solve for a non-symmetric A *)
Lemma C09_old_trans_refuted :
  exists (M : list (list Qc)) b,
    this_of (q_mulmat M (q_c_coarse true M [] b)) = this_of b /\
    this_of (q_mulmat M (q_c_coarse false M [] b)) <> this_of b.
Proof.
  exists (qm [[2; 1]; [0; 1]]%Z), (qv [3; 1]%Z). split; [vm_compute; reflexivity|vm_compute; discriminate].
Qed.

Print Assumptions C09_history_free.
Print Assumptions C09_rhs_unchanged.
Print Assumptions C09_linear.
Print Assumptions C09_consistent.
Print Assumptions C09_histories.
Print Assumptions C09_single_level_exact.
Print Assumptions C09_coarse_layout.
Print Assumptions C09_poison_admissible.
Print Assumptions C09_kernels_interface.
Print Assumptions C09_abstract_history_free.
Print Assumptions C09_abstract_rhs_unchanged.
Print Assumptions C09_abstract_linear.
Print Assumptions C09_abstract_consistent.
