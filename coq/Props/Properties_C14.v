(* C14 — Strength of connection follows its definition and is partition independent.
   Property-level theorems only; each is closed by lemmas of Amg/StrengthProofs.v.
   Model: Amg/Strength.v = raptor/strength.cpp (classical_strength, symmetric_strength, CSRMatrix::strength) and
   raptor/par_strength.cpp (the ParCSRMatrix twins), the latter as a function of the global matrix and the
   partition.  The ordered field is abstract; only transitivity, asymmetry and totality of < are used
   (C14_order_instance_Qc: they hold for the executed instance).  `big`/`nbig` are the sentinels +-RAND_MAX.

   The documented tests are stated once, in StrengthProofs.v:
     strong_classical theta keep i Ai j v   and   strong_symmetric theta rows i j v.
   Hypotheses: rows_nodup (no column stored twice in a row), rows_diag (every non-empty row stores its
   diagonal - the property's quantifier), list_sum part = length rows (the blocks cover the rows;
   empty blocks allowed). *)
From Coq Require Import QArith Qcanon ZArith.
From Raptor Require Import Base.Sums Sparse.Defs Amg.Strength Amg.StrengthProofs Amg.StrengthInst
     Extract.Inst Extract.Inst_interp.
Local Open Scope nat_scope.

Section C14.
Variable F : Type.
Variable zero : F.
Variable mul : F -> F -> F.
Variable ltb : F -> F -> bool.
Variables big nbig : F.
Hypothesis ltb_trans : forall a b c, ltb a b = true -> ltb b c = true -> ltb a c = true.
Hypothesis ltb_asym : forall a b, ltb a b = true -> ltb b a = false.
Hypothesis ltb_total : forall a b, ltb a b = false -> ltb b a = false -> a = b.

Notation classicalS := (classical_strength F zero mul ltb big nbig).
Notation symmetricS := (symmetric_strength F zero mul ltb big nbig).
Notation seqS := (strength_seq F zero mul ltb big nbig).
Notation parS := (strength_par F zero mul ltb big nbig).
Notation strongC := (strong_classical F zero mul ltb big nbig).
Notation strongS := (strong_symmetric F zero mul ltb big nbig).

(* classical measure, sequential routine: every stored entry of S is an entry of A with its value and no
   column is repeated; the stored diagonal of a row is kept; an off-diagonal is in S exactly when it
   passes the documented test `strong_classical` *)
Theorem C14_classical_seq (theta : F) (nv : nat) (vars : list nat) (rows : list (list (nat * F))) :
  rows_nodup F rows ->
  length (classicalS theta nv vars rows) = length rows /\
  forall i,
    let Ai := nth i rows [] in
    let Si := nth i (classicalS theta nv vars rows) [] in
    (forall p, In p Si -> In p Ai) /\ NoDup (map fst Si) /\
    (forall d, In (i, d) Ai -> In (i, d) Si) /\
    (forall j v, j <> i ->
       (In (j, v) Si <-> strongC theta (same_var nv (nth i vars 0) vars) i Ai j v)).
Proof.
  intros Hn. split; [apply classical_strength_length|].
  intros i Ai Si. unfold Si. rewrite classical_strength_nth. fold Ai.
  assert (Hni : NoDup (map fst Ai)) by (apply rows_nodup_nth; exact Hn).
  split; [intros p; apply classical_row_subset|].
  split; [apply classical_row_nodup; assumption|].
  split; [intros d; apply classical_row_diag; assumption|].
  intros j v Hj. rewrite <- (classical_row_test F zero mul ltb big nbig ltb_trans ltb_asym ltb_total theta nv vars i Ai j v Hni).
  tauto.
Qed.

(* symmetric measure, sequential routine: same clauses with the test `strong_symmetric` *)
Theorem C14_symmetric_seq (theta : F) (rows : list (list (nat * F))) :
  rows_nodup F rows ->
  length (symmetricS theta rows) = length rows /\
  forall i,
    let Ai := nth i rows [] in
    let Si := nth i (symmetricS theta rows) [] in
    (forall p, In p Si -> In p Ai) /\ NoDup (map fst Si) /\
    (forall d, In (i, d) Ai -> In (i, d) Si) /\
    (forall j v, j <> i -> (In (j, v) Si <-> strongS theta rows i j v)).
Proof.
  intros Hn. split; [apply symmetric_strength_length|].
  intros i Ai Si.
  assert (Hni : NoDup (map fst Ai)) by (apply rows_nodup_nth; exact Hn).
  split; [|split; [|split]].
  - intros p. unfold Si. rewrite symmetric_strength_nth, symmetric_row_kernel. apply (row_kernel_subset F zero mul).
  - unfold Si. rewrite symmetric_strength_nth, symmetric_row_kernel.
    apply (row_kernel_nodup F zero mul); [apply sym_test_perm_inv|exact Hni].
  - intros d. unfold Si. rewrite symmetric_strength_nth, symmetric_row_kernel.
    apply row_kernel_diag; [apply sym_test_perm_inv|exact Hni].
  - intros j v Hj. apply symmetric_strength_test; assumption.
Qed.

(* partition independence: for every partition into contiguous blocks (empty blocks allowed) the gathered
   result of ParCSRMatrix::strength has, row by row, the same entries as CSRMatrix::strength *)
Theorem C14_partition_independent (symmetric : bool) (theta : F) (nv : nat) (vars part : list nat)
        (rows : list (list (nat * F))) :
  rows_nodup F rows -> rows_diag F rows -> list_sum part = length rows ->
  Forall2 (@Permutation (nat * F)) (parS symmetric theta nv vars part rows) (seqS symmetric theta nv vars rows).
Proof.
  intros Hn Hd Hs. unfold strength_par, strength_seq. destruct symmetric.
  - apply par_symmetric_strength_eq; assumption.
  - apply par_classical_strength_eq; assumption.
Qed.

(* hence the distributed routine itself follows the definition, on every partition *)
Theorem C14_distributed_follows_definition (symmetric : bool) (theta : F) (nv : nat) (vars part : list nat)
        (rows : list (list (nat * F))) :
  rows_nodup F rows -> rows_diag F rows -> list_sum part = length rows ->
  length (parS symmetric theta nv vars part rows) = length rows /\
  forall i,
    let Ai := nth i rows [] in
    let Pi := nth i (parS symmetric theta nv vars part rows) [] in
    (forall p, In p Pi -> In p Ai) /\ NoDup (map fst Pi) /\
    (forall d, In (i, d) Ai -> In (i, d) Pi) /\
    (forall j v, j <> i ->
       (In (j, v) Pi <-> if symmetric then strongS theta rows i j v
                         else strongC theta (same_var nv (nth i vars 0) vars) i Ai j v)).
Proof.
  intros Hn Hd Hs.
  assert (HP := C14_partition_independent symmetric theta nv vars part rows Hn Hd Hs).
  split.
  { transitivity (length (seqS symmetric theta nv vars rows)); [apply (Forall2_length' _ _ _ HP)|]. unfold strength_seq. destruct symmetric;
      [apply symmetric_strength_length|apply classical_strength_length]. }
  intros i Ai Pi. assert (Hp := Forall2_nth_perm _ _ HP i). fold Pi in Hp.
  assert (Hp' := Permutation_sym Hp).
  unfold strength_seq in Hp, Hp'. destruct symmetric.
  - destruct (C14_symmetric_seq theta rows Hn) as [_ H]. destruct (H i) as [H1 [H2 [H3 H4]]]. fold Ai in H1, H2, H3, H4.
    split; [intros p Hin; apply H1; eapply Permutation_in; eassumption|].
    split; [eapply Permutation_NoDup; [apply Permutation_map; exact Hp'|exact H2]|].
    split; [intros d Hin; eapply Permutation_in; [exact Hp'|apply H3; exact Hin]|].
    intros j v Hj. rewrite <- (H4 j v Hj). split; intros Hin; eapply Permutation_in; eassumption.
  - destruct (C14_classical_seq theta nv vars rows Hn) as [_ H]. destruct (H i) as [H1 [H2 [H3 H4]]]. fold Ai in H1, H2, H3, H4.
    split; [intros p Hin; apply H1; eapply Permutation_in; eassumption|].
    split; [eapply Permutation_NoDup; [apply Permutation_map; exact Hp'|exact H2]|].
    split; [intros d Hin; eapply Permutation_in; [exact Hp'|apply H3; exact Hin]|].
    intros j v Hj. rewrite <- (H4 j v Hj). split; intros Hin; eapply Permutation_in; eassumption.
Qed.

(* the sentinels +-RAND_MAX are unobservable in the classical measure as long as every stored value lies
   strictly between them: any other pair of dominating sentinels gives the same matrix *)
Theorem C14_sentinel_unobservable (big' nbig' theta : F) (nv : nat) (vars : list nat) (rows : list (list (nat * F))) :
  (forall r p, In r rows -> In p r -> inside F ltb big nbig (snd p) /\ inside F ltb big' nbig' (snd p)) ->
  classical_strength F zero mul ltb big nbig theta nv vars rows =
  classical_strength F zero mul ltb big' nbig' theta nv vars rows.
Proof.
  intros H. unfold classical_strength. apply map_ext_in. intros [i r] Hin. cbn [fst snd].
  apply classical_row_sentinel_indep. intros p Hp. apply (H r p); [|exact Hp].
  eapply indexed_in_rows. exact Hin.
Qed.

End C14.

(* the executed instance (Qc, Qc_ltb) satisfies the order hypotheses *)
Theorem C14_order_instance_Qc :
  (forall a b c, Qc_ltb a b = true -> Qc_ltb b c = true -> Qc_ltb a c = true) /\
  (forall a b, Qc_ltb a b = true -> Qc_ltb b a = false) /\
  (forall a b, Qc_ltb a b = false -> Qc_ltb b a = false -> a = b).
Proof. split; [exact Qc_ltb_trans|split; [exact Qc_ltb_asym|exact Qc_ltb_total]]. Qed.

(* ---- non-vacuity: the hypotheses are satisfiable and the conclusions say something on a concrete matrix
        (integers, theta = 1/2 realised as  m*2/4) ---- *)
Definition ex_rows : list (list (nat * Z)) :=
  [ [(1, (-1)%Z); (0, 4%Z); (2, (-4)%Z)];   (* diag 4 > 0: min = -4, threshold -2: (2,-4) strong, (1,-1) weak *)
    [(2, 1%Z); (1, (-3)%Z); (0, 2%Z)];      (* diag -3 < 0: max = 2, threshold 1: (0,2) strong, (2,1) weak (strict) *)
    [(2, 5%Z)] ].                           (* diagonal only *)
Definition ex_mul (m t : Z) : Z := (m * t / 4)%Z.

Lemma C14_hypotheses_nonvacuous :
  rows_nodup Z ex_rows /\ rows_diag Z ex_rows /\ list_sum [1; 0; 2] = length ex_rows /\
  (forall r p, In r ex_rows -> In p r ->
     inside Z Z.ltb 2147483647%Z (-2147483647)%Z (snd p) /\ inside Z Z.ltb 1000%Z (-1000)%Z (snd p)).
Proof.
  split; [|split; [|split]].
  - intros r Hr. simpl in Hr. destruct Hr as [<-|[<-|[<-|[]]]]; simpl;
      repeat (constructor; [simpl; intuition discriminate|]); constructor.
  - intros i. destruct i as [|[|[|i]]]; simpl.
    + right. exists 4%Z. right. left. reflexivity.
    + right. exists (-3)%Z. right. left. reflexivity.
    + right. exists 5%Z. left. reflexivity.
    + left. destruct i; reflexivity.
  - reflexivity.
  - intros r p Hr Hp. simpl in Hr.
    destruct Hr as [<-|[<-|[<-|[]]]]; simpl in Hp;
      repeat (destruct Hp as [<-|Hp]; [unfold inside; simpl; repeat split; reflexivity|]); contradiction.
Qed.

Example C14_partition_independent_nonvacuous :
  strength_par Z 0%Z ex_mul Z.ltb 2147483647%Z (-2147483647)%Z false 2%Z 1 [] [1; 0; 2] ex_rows
    = [ [(0, 4%Z); (2, (-4)%Z)]; [(1, (-3)%Z); (0, 2%Z)]; [(2, 5%Z)] ] /\
  strength_seq Z 0%Z ex_mul Z.ltb 2147483647%Z (-2147483647)%Z false 2%Z 1 [] ex_rows
    = [ [(0, 4%Z); (2, (-4)%Z)]; [(1, (-3)%Z); (0, 2%Z)]; [(2, 5%Z)] ] /\
  (* symmetric: row 1 keeps (2,1) because it passes the test of row 2 (diagonal-only row: sentinel threshold);
     the gathered distributed row lists on-process entries first - equal as sets, not as lists *)
  strength_par Z 0%Z ex_mul Z.ltb 2147483647%Z (-2147483647)%Z true 2%Z 1 [] [1; 0; 2] ex_rows
    = [ [(0, 4%Z); (2, (-4)%Z)]; [(1, (-3)%Z); (2, 1%Z); (0, 2%Z)]; [(2, 5%Z)] ] /\
  strength_seq Z 0%Z ex_mul Z.ltb 2147483647%Z (-2147483647)%Z true 2%Z 1 [] ex_rows
    = [ [(0, 4%Z); (2, (-4)%Z)]; [(1, (-3)%Z); (0, 2%Z); (2, 1%Z)]; [(2, 5%Z)] ].
Proof. vm_compute. repeat split. Qed.

Example C14_strong_classical_nonvacuous :
  strong_classical Z 0%Z ex_mul Z.ltb 2147483647%Z (-2147483647)%Z 2%Z (fun _ => true) 0 (nth 0 ex_rows []) 2 (-4)%Z.
Proof.
  destruct C14_hypotheses_nonvacuous as [Hn _].
  apply (classical_row_test Z 0%Z ex_mul Z.ltb 2147483647%Z (-2147483647)%Z Z_ltb_trans Z_ltb_asym Z_ltb_total
           2%Z 1 [] 0 (nth 0 ex_rows []) 2 (-4)%Z).
  - apply Hn. left. reflexivity.
  - split; [vm_compute; right; left; reflexivity|discriminate].
Qed.

Print Assumptions C14_classical_seq.
Print Assumptions C14_symmetric_seq.
Print Assumptions C14_partition_independent.
Print Assumptions C14_distributed_follows_definition.
Print Assumptions C14_sentinel_unobservable.
Print Assumptions C14_order_instance_Qc.
