(* C14 — Strength of connection follows its definition and is partition independent.
   Property-level theorems only; each is closed by lemmas of Amg/StrengthProofs.v.
   Model: Amg/Strength.v (strength.cpp, par_strength.cpp).  The ordered field is abstract; only
   transitivity, asymmetry and totality of < are used (proved for the executed instance Qc below). *)
From Raptor Require Import Base.Sums Sparse.Defs Amg.Strength Amg.StrengthProofs.

Section C14.
Variable F : Type.
Variable zero : F.
Variable mul : F -> F -> F.
Variable ltb : F -> F -> bool.
Variables big nbig : F.
Hypothesis ltb_trans : forall a b c, ltb a b = true -> ltb b c = true -> ltb a c = true.
Hypothesis ltb_asym : forall a b, ltb a b = true -> ltb b a = false.
Hypothesis ltb_total : forall a b, ltb a b = false -> ltb b a = false -> a = b.

Notation classicalS := (classical_strength F zero mul ltb big nbig).
Notation strongC := (strong_classical F zero mul ltb big nbig).

(* classical measure, sequential routine: every stored entry of S is an entry of A with its value (and no
   column is repeated); the stored diagonal of a row is kept; an off-diagonal is in S exactly when it
   passes the documented test `strong_classical` *)
Theorem C14_classical_seq (theta : F) (nv : nat) (vars : list nat) (rows : list (list (nat * F))) :
  rows_nodup F rows ->
  length (classicalS theta nv vars rows) = length rows /\
  forall i,
    let Ai := nth i rows [] in
    let Si := nth i (classicalS theta nv vars rows) [] in
    (forall p, In p Si -> In p Ai) /\ NoDup (map fst Si) /\
    (forall d, In (i, d) Ai -> In (i, d) Si) /\
    (forall j v, j <> i ->
       (In (j, v) Si <-> strongC theta (same_var nv (nth i vars 0) vars) i Ai j v)).
Proof.
  intros Hn. split; [apply classical_strength_length|].
  intros i Ai Si. unfold Si. rewrite classical_strength_nth. fold Ai.
  assert (Hni : NoDup (map fst Ai)) by (apply rows_nodup_nth; exact Hn).
  split; [intros p; apply classical_row_subset|].
  split; [apply classical_row_nodup; assumption|].
  split; [intros d; apply classical_row_diag; assumption|].
  intros j v Hj. rewrite <- (classical_row_test F zero mul ltb big nbig ltb_trans ltb_asym ltb_total theta nv vars i Ai j v Hni).
  tauto.
Qed.

End C14.

Print Assumptions C14_classical_seq.
