(* C02 — mat-vec products equal the products with the represented (global) operator.
   Part 1: the sequential kernels of every storage format (COO, CSR, CSC), which the distributed
   products are assembled from.  Part 2 (distributed, composed with the halo exchange of C03) is in
   Dist/ParSpmvProofs.v and stated below once available.
   dot_row dn x n = sum_{c<n} dn c * x_c. *)
From Raptor Require Import Base.Sums Sparse.Defs Sparse.ConvertProofs Sparse.SpmvProofs Dist.Comm Dist.CommProofs Dist.ParMat Dist.ParSpmvProofs Dist.ParSpmvTProofs Sparse.Block Sparse.BlockProofs Dist.Tap Dist.TapProofs Dist.TapSpmvProofs Sparse.CooDedupProofs Dist.AssembleProofs Dist.ParBlock Dist.ParBlockProofs.

Section C02.
Variable F : Type.
Variables (zero one : F) (add mul sub : F -> F -> F) (opp : F -> F).
Variable Fth : ring_theory zero one add mul sub opp (@eq F).

Notation denCoo := (den_coo F zero add).
Notation denCsr := (den_csr F zero add).
Notation denCsc := (den_csc F zero add).
Notation xat := (xat F zero).
Notation dot := (dot_row F zero add mul).

(* b = A x, b += A x, b -= A x, r = b - A x, b = A^T x, b += A^T x, b -= A^T x  for the three formats *)
Theorem C02_coo_kernels (A : coo F) (x b : list F) : coo_wf A ->
  (forall i, xat (coo_spmv F zero add mul A x) i = dot (denCoo A i) x (coo_nc A)) /\
  (coo_nr A <= length b -> forall i, xat (coo_spmv_append F zero add mul A x b) i = add (xat b i) (dot (denCoo A i) x (coo_nc A))) /\
  (coo_nr A <= length b -> forall i, xat (coo_spmv_append_neg F zero mul sub A x b) i = sub (xat b i) (dot (denCoo A i) x (coo_nc A))) /\
  (coo_nr A <= length b -> forall i, i < coo_nr A -> xat (coo_residual F zero mul sub A x b) i = sub (xat b i) (dot (denCoo A i) x (coo_nc A))) /\
  (forall j, xat (coo_mult_T F zero add mul A x) j = dot (fun i => denCoo A i j) x (coo_nr A)) /\
  (coo_nc A <= length b -> forall j, xat (coo_spmv_append_T F zero add mul A x b) j = add (xat b j) (dot (fun i => denCoo A i j) x (coo_nr A))) /\
  (coo_nc A <= length b -> forall j, xat (coo_spmv_append_neg_T F zero mul sub A x b) j = sub (xat b j) (dot (fun i => denCoo A i j) x (coo_nr A))).
Proof.
  intros H. repeat split; intros.
  - apply (coo_spmv_spec _ _ _ _ _ _ _ Fth); assumption.
  - apply (coo_spmv_append_spec _ _ _ _ _ _ _ Fth); assumption.
  - apply (coo_spmv_append_neg_spec _ _ _ _ _ _ _ Fth); assumption.
  - apply (coo_residual_spec _ _ _ _ _ _ _ Fth); assumption.
  - apply (coo_mult_T_spec _ _ _ _ _ _ _ Fth); assumption.
  - apply (coo_spmv_append_T_spec _ _ _ _ _ _ _ Fth); assumption.
  - apply (coo_spmv_append_neg_T_spec _ _ _ _ _ _ _ Fth); assumption.
Qed.

Theorem C02_csr_kernels (A : csr F) (x b : list F) : csr_wf A ->
  (forall i, i < csr_nr A -> xat (csr_spmv F zero add mul A x) i = dot (denCsr A i) x (csr_nc A)) /\
  (forall i, i < csr_nr A -> xat (csr_spmv_append F zero add mul A x b) i = add (xat b i) (dot (denCsr A i) x (csr_nc A))) /\
  (csr_nr A <= length b -> forall i, xat (csr_spmv_append_neg F zero mul sub A x b) i = sub (xat b i) (dot (denCsr A i) x (csr_nc A))) /\
  (forall i, i < csr_nr A -> xat (csr_residual F zero mul sub A x b) i = sub (xat b i) (dot (denCsr A i) x (csr_nc A))) /\
  (forall j, xat (csr_mult_T F zero add mul A x) j = dot (fun i => denCsr A i j) x (csr_nr A)) /\
  (csr_nc A <= length b -> forall j, xat (csr_spmv_append_T F zero add mul A x b) j = add (xat b j) (dot (fun i => denCsr A i j) x (csr_nr A))) /\
  (csr_nc A <= length b -> forall j, xat (csr_spmv_append_neg_T F zero mul sub A x b) j = sub (xat b j) (dot (fun i => denCsr A i j) x (csr_nr A))).
Proof.
  intros H. repeat split; intros.
  - apply (csr_spmv_spec _ _ _ _ _ _ _ Fth); assumption.
  - apply (csr_spmv_append_spec _ _ _ _ _ _ _ Fth); assumption.
  - apply (csr_spmv_append_neg_spec _ _ _ _ _ _ _ Fth); assumption.
  - apply (csr_residual_spec _ _ _ _ _ _ _ Fth); assumption.
  - apply (csr_mult_T_spec _ _ _ _ _ _ _ Fth); assumption.
  - apply (csr_spmv_append_T_spec _ _ _ _ _ _ _ Fth); assumption.
  - apply (csr_spmv_append_neg_T_spec _ _ _ _ _ _ _ Fth); assumption.
Qed.

Theorem C02_csc_kernels (A : csc F) (x b : list F) : csc_wf A ->
  (forall i, xat (csc_spmv F zero add mul A x) i = dot (fun j => denCsc A i j) x (csc_nc A)) /\
  (csc_nr A <= length b -> forall i, xat (csc_spmv_append F zero add mul A x b) i = add (xat b i) (dot (fun j => denCsc A i j) x (csc_nc A))) /\
  (csc_nr A <= length b -> forall i, xat (csc_spmv_append_neg F zero mul sub A x b) i = sub (xat b i) (dot (fun j => denCsc A i j) x (csc_nc A))) /\
  (csc_nr A <= length b -> forall i, i < csc_nr A -> xat (csc_residual F zero mul sub A x b) i = sub (xat b i) (dot (fun j => denCsc A i j) x (csc_nc A))) /\
  (forall j, xat (csc_mult_T F zero add mul A x) j = dot (fun i => denCsc A i j) x (csc_nr A)) /\
  (csc_nc A <= length b -> forall j, xat (csc_spmv_append_T F zero add mul A x b) j = add (xat b j) (dot (fun i => denCsc A i j) x (csc_nr A))) /\
  (csc_nc A <= length b -> forall j, xat (csc_spmv_append_neg_T F zero mul sub A x b) j = sub (xat b j) (dot (fun i => denCsc A i j) x (csc_nr A))).
Proof.
  intros H. repeat split; intros.
  - apply (csc_spmv_spec _ _ _ _ _ _ _ Fth); assumption.
  - apply (csc_spmv_append_spec _ _ _ _ _ _ _ Fth); assumption.
  - apply (csc_spmv_append_neg_spec _ _ _ _ _ _ _ Fth); assumption.
  - apply (csc_residual_spec _ _ _ _ _ _ _ Fth); assumption.
  - apply (csc_mult_T_spec _ _ _ _ _ _ _ Fth); assumption.
  - apply (csc_spmv_append_T_spec _ _ _ _ _ _ _ Fth); assumption.
  - apply (csc_spmv_append_neg_T_spec _ _ _ _ _ _ _ Fth); assumption.
Qed.

(* Part 2 — distributed product.  rank_state = one rank's on_proc / off_proc blocks + column map;
   gden_row rs li = row li of the global operator that the two blocks represent.
   For every list of rank states (any process count, any contiguous partition incl. empty ranks), every
   package world accepted by the forward check of C03 (fwd_ok, evaluated on the implementation's dumped
   package on every run), every global vector X: row li of rank p's result of ParMatrix::mult is the row of
   the global operator times X.  *)
Theorem C02_distributed_mult_is_global_product :
  forall (w : world) (st : list (rank_state F)) (X : list F) (big N : nat) p li,
  fwd_ok w (map (fun rs => seq (rs_fc rs) (rs_nc rs)) st) (map (fun rs => rs_colmap rs) st) big = true ->
  length X <= big -> length w = length st -> p < length st ->
  rs_wf F N (nth p st (mkRS 0 0 0 0 (mkCsr 0 0 []) (mkCsr 0 0 []) [])) ->
  li < rs_nr (nth p st (mkRS 0 0 0 0 (mkCsr 0 0 []) (mkCsr 0 0 []) [])) ->
  xat (nth p (par_mult F zero add mul w st
               (map (fun rs => map (fun c => nth c X zero) (seq (rs_fc rs) (rs_nc rs))) st)) []) li
  = dot (gden_row F zero add (nth p st (mkRS 0 0 0 0 (mkCsr 0 0 []) (mkCsr 0 0 []) [])) li) X N.
Proof. intros. apply (par_mult_global F zero one add mul sub opp Fth w st X big N); assumption. Qed.

(* b + A x and b - A x on one rank, given a halo buffer holding the owners' values (C03) *)
Theorem C02_distributed_mult_append_and_residual :
  forall (rs : rank_state F) (X b0 : list F) N li,
  rs_wf F N rs -> li < rs_nr rs -> rs_nr rs <= length b0 ->
  xat (par_mult_append_local F zero add mul rs (map (fun c => nth c X zero) (seq (rs_fc rs) (rs_nc rs)))
                      (map (fun c => nth c X zero) (rs_colmap rs)) b0) li
    = add (xat b0 li) (dot (gden_row F zero add rs li) X N) /\
  xat (par_residual_local F zero mul sub rs (map (fun c => nth c X zero) (seq (rs_fc rs) (rs_nc rs)))
                      (map (fun c => nth c X zero) (rs_colmap rs)) b0) li
    = sub (xat b0 li) (dot (gden_row F zero add rs li) X N).
Proof.
  intros. split.
  - apply (par_mult_append_row F zero one add mul sub opp Fth); assumption.
  - apply (par_residual_row F zero one add mul sub opp Fth); assumption.
Qed.

(* A^T x: entry lc of rank q's result is the column fc_q + lc of the global operator applied to the
   distributed x (sum over ALL ranks' rows), for every package accepted by the reverse check of C03,
   whatever b.local held before (ranks without rows overwrite it with zeros). *)
Theorem C02_distributed_mult_T_is_global_transpose_product :
  forall (w : world) (st : list (rank_state F)) (xs bprev : list (list F)) (N q lc : nat),
  let dflt := mkRS 0 0 0 0 (mkCsr 0 0 []) (mkCsr 0 0 []) [] in
  rev_ok w (map (fun rs => seq (rs_fc rs) (rs_nc rs)) st) (map (fun rs => rs_colmap rs) st) = true ->
  length w = length st -> q < length st ->
  (forall p, p < length st -> rs_wf F N (nth p st dflt)) ->
  (forall p, p < length st -> length (nth p xs []) = rs_nr (nth p st dflt)) ->
  length (nth q bprev []) = rs_nc (nth q st dflt) ->
  lc < rs_nc (nth q st dflt) ->
  (forall p, p < length st -> p <> q ->
     ~ (rs_fc (nth p st dflt) <= rs_fc (nth q st dflt) + lc < rs_fc (nth p st dflt) + rs_nc (nth p st dflt))) ->
  xat (nth q (par_mult_T F zero add mul w st xs bprev) []) lc
  = sumf F zero add (map (fun p => colT F zero add mul (nth p st dflt) (nth p xs []) (rs_fc (nth q st dflt) + lc))
                         (seq 0 (length st))).
Proof. intros. apply (par_mult_T_global F zero one add mul sub opp Fth w st xs bprev N q lc); assumption. Qed.

(* The same products through the node-aware (TAP) packages: for every TAP package accepted by the id check of C04 the rows
   of tap_mult / tap_mult_append / tap residual are the rows of the global operator applied to the global vector; A^T x
   through the TAP reverse exchange is the global transpose product whenever the TAP package passes the symbolic reverse
   check (and some standard package of the same column maps passes the reverse check of C03). *)
Theorem C02_tap_products_are_global_products :
  forall (tw : tap_world) (st : list (rank_state F)) (X : list F) (big N p li : nat) (bs : list (list F)),
  let dflt := mkRS 0 0 0 0 (mkCsr 0 0 []) (mkCsr 0 0 []) [] in
  let xs := map (fun rs : rank_state F => map (fun c => nth c X zero) (seq (rs_fc rs) (rs_nc rs))) st in
  tap_fwd_ok tw (map (fun rs => seq (rs_fc rs) (rs_nc rs)) st) (map (fun rs => rs_colmap rs) st) big = true ->
  length X <= big -> length (t_ranks tw) = length st -> p < length st ->
  rs_wf F N (nth p st dflt) -> li < rs_nr (nth p st dflt) ->
  xat (nth p (tap_par_mult F zero add mul tw st xs) []) li = dot (gden_row F zero add (nth p st dflt) li) X N /\
  xat (nth p (tap_par_mult_append F zero add mul tw st xs bs) []) li
    = add (xat (nth p bs []) li) (dot (gden_row F zero add (nth p st dflt) li) X N) /\
  (rs_nr (nth p st dflt) <= length (nth p bs []) ->
   xat (nth p (tap_par_residual F zero mul sub tw st xs bs) []) li
    = sub (xat (nth p bs []) li) (dot (gden_row F zero add (nth p st dflt) li) X N)).
Proof.
  intros tw st X big N p li bs dflt xs Hok Hbig Hlen Hp Hwf Hli.
  split; [apply (tap_par_mult_global F zero one add mul sub opp Fth tw st X big N p li); assumption|].
  split; [apply (tap_par_mult_append_global F zero one add mul sub opp Fth tw st X big N p li); assumption|].
  intros Hb. apply (tap_par_residual_global F zero one add mul sub opp Fth tw st X big N p li); assumption.
Qed.

Theorem C02_tap_mult_T_is_global_transpose_product :
  forall (tw : tap_world) (w : world) (st : list (rank_state F)) (xs bprev : list (list F)) (N q lc : nat),
  let dflt := mkRS 0 0 0 0 (mkCsr 0 0 []) (mkCsr 0 0 []) [] in
  tap_rev_ok tw (map (fun rs => seq (rs_fc rs) (rs_nc rs)) st) (map (fun rs => rs_colmap rs) st) = true ->
  rev_ok w (map (fun rs => seq (rs_fc rs) (rs_nc rs)) st) (map (fun rs => rs_colmap rs) st) = true ->
  length (t_ranks tw) = length st -> length w = length st -> q < length st ->
  (forall p, p < length st -> rs_wf F N (nth p st dflt)) ->
  (forall p, p < length st -> length (nth p xs []) = rs_nr (nth p st dflt)) ->
  length (nth q bprev []) = rs_nc (nth q st dflt) ->
  lc < rs_nc (nth q st dflt) ->
  (forall p, p < length st -> p <> q ->
     ~ (rs_fc (nth p st dflt) <= rs_fc (nth q st dflt) + lc < rs_fc (nth p st dflt) + rs_nc (nth p st dflt))) ->
  xat (nth q (tap_par_mult_T F zero add mul tw st xs bprev) []) lc
  = sumf F zero add (map (fun p => colT F zero add mul (nth p st dflt) (nth p xs []) (rs_fc (nth q st dflt) + lc))
                         (seq 0 (length st))).
Proof. intros. apply (tap_par_mult_T_global F zero one add mul sub opp Fth tw w st xs bprev N q lc); assumption. Qed.

(* Block formats (BCOO; BSR / BSC through their block triple listing): the block kernels are the scalar kernels of the
   row-major expansion E of the blocks, E is well formed, and E represents at (I*br + r, J*bc + c) the sum of the
   (r, c) entries of the stored blocks at block position (I, J).  [bspmv cases of the correspondence check] *)
Theorem C02_block_kernels br bc (A : coo (list F)) (x b : list F) : coo_wf A ->
  let E := bcoo_expand zero br bc A in
  coo_wf E /\
  (forall I J r c, r < br -> c < bc ->
     denCoo E (I * br + r) (J * bc + c)
     = sumf F zero add (map (fun e => nth (r * bc + c) (eval e) zero) (filter (fun e => (erow e =? I) && (ecol e =? J)) (coo_ents A)))) /\
  (forall i, xat (coo_spmv F zero add mul E x) i = dot (denCoo E i) x (coo_nc E)) /\
  (coo_nr E <= length b -> forall i, xat (coo_spmv_append F zero add mul E x b) i = add (xat b i) (dot (denCoo E i) x (coo_nc E))) /\
  (coo_nr E <= length b -> forall i, xat (coo_spmv_append_neg F zero mul sub E x b) i = sub (xat b i) (dot (denCoo E i) x (coo_nc E))) /\
  (coo_nc E <= length b -> forall j, xat (coo_spmv_append_T F zero add mul E x b) j = add (xat b j) (dot (fun i => denCoo E i j) x (coo_nr E))) /\
  (coo_nc E <= length b -> forall j, xat (coo_spmv_append_neg_T F zero mul sub E x b) j = sub (xat b j) (dot (fun i => denCoo E i j) x (coo_nr E))).
Proof.
  intros H E. split; [apply bcoo_expand_wf; exact H|]. split.
  - intros. apply (bcoo_expand_den F zero one add mul sub opp Fth); assumption.
  - exact (block_spmv_kernels F zero one add mul sub opp Fth br bc A x b H).
Qed.

(* what a rank holds after assembly (ParCOOMatrix::add_global_value for its rows, finalize, to_ParCSR) is its rows of the
   matrix described by the triples the user added (duplicates summed; values below zero_tol are not inserted): the
   `rank_state`s the distributed theorems above quantify over include every assembled matrix *)
Theorem C02_assembly_represents_triples (small : F -> bool) (trip : list (ent F)) fr nr fc nc li j : li < nr ->
  gden_row F zero add (assemble F add small trip fr nr fc nc) li j
  = den_ents F zero add (filter (fun e => negb (small (eval e))) trip) (fr + li) j.
Proof. exact (gden_assemble F zero one add mul sub opp Fth small trip fr nr fc nc li j). Qed.

(* distributed block formats (ParBSR): the package is built and checked on BLOCK ids; expanded to b_cols scalars per
   block id it passes the scalar check, so the products of the expanded rank states (what the block kernels compute,
   C02_block_kernels) are the rows of the global operator, which in terms of the stored blocks is `bgden_row`:
   entry (I*br + r, J*bc + c) = sum of the (r, c) entries of the blocks a rank stores at block position (I, J) *)
Theorem C02_block_package_check_lifts bc (w : world) (ids colmaps : list (list nat)) (big big' : nat) :
  fwd_ok w ids colmaps big = true -> sizes_ok w = true -> in_range w (map (@length nat) ids) = true ->
  fwd_ok (expand_world bc w) (map (expand_ids bc) ids) (map (expand_ids bc) colmaps) big' = true.
Proof. exact (fwd_ok_expand bc w ids colmaps big big'). Qed.

Theorem C02_distributed_block_product br bc (w : world) (st : list (rank_state (list F))) (X : list F)
        (big big' N : nat) p :
  let dfltB := mkRS 0 0 0 0 (mkCsr 0 0 []) (mkCsr 0 0 []) [] : rank_state (list F) in
  fwd_ok w (map (fun rs => seq (rs_fc rs) (rs_nc rs)) st) (map (fun rs => rs_colmap rs) st) big = true ->
  sizes_ok w = true -> in_range w (map (fun rs => rs_nc rs) st) = true ->
  length X <= big' -> length w = length st -> p < length st ->
  rs_wf (list F) N (nth p st dfltB) ->
  let st' := map (expand_state F zero br bc) st in
  let b := nth p (par_mult F zero add mul (expand_world bc w) st'
                   (map (fun rs => map (fun c => nth c X zero) (seq (rs_fc rs) (rs_nc rs))) st')) [] in
  (forall li, li < rs_nr (nth p st dfltB) * br ->
     xat b li = dot (gden_row F zero add (expand_state F zero br bc (nth p st dfltB)) li) X (N * bc)) /\
  (forall I J r c, r < br -> c < bc ->
     gden_row F zero add (expand_state F zero br bc (nth p st dfltB)) (I * br + r) (J * bc + c)
     = bgden_row F zero add (nth p st dfltB) bc I J r c).
Proof.
  intros dfltB Hok Hsz Hrg Hbig Hlen Hp Hwf st' b. split.
  - intros li Hli. exact (par_bmult_global F zero one add mul sub opp Fth br bc w st X big big' N p li Hok Hsz Hrg Hbig Hlen Hp Hwf Hli).
  - intros I J r c Hr Hc. destruct Hwf as [Hon [_ [_ [Hoff _]]]].
    exact (gden_expand_state F zero one add mul sub opp Fth br bc (nth p st dfltB) I J r c Hon Hoff Hr Hc).
Qed.

End C02.

Print Assumptions C02_coo_kernels.
Print Assumptions C02_csr_kernels.
Print Assumptions C02_csc_kernels.
Print Assumptions C02_distributed_mult_is_global_product.
Print Assumptions C02_distributed_mult_append_and_residual.
Print Assumptions C02_distributed_mult_T_is_global_transpose_product.
Print Assumptions C02_block_kernels.
Print Assumptions C02_tap_products_are_global_products.
Print Assumptions C02_tap_mult_T_is_global_transpose_product.
Print Assumptions C02_assembly_represents_triples.
Print Assumptions C02_block_package_check_lifts.
Print Assumptions C02_distributed_block_product.
