(* Generic list lemmas for the repart family (C20): insertion sort (uniqueness of the sorted permutation),
   first-occurrence filters, index lookup, block structure of flat_map, bucket permutations, runs. *)
From Coq Require Import Sorting.Sorted.
From Raptor Require Import Base.Sums Sparse.Defs Sparse.ConvertProofs Repart.Repartition.

(* ---------- insertion sort ---------- *)
Section Sort.
Context {X : Type}.
Variable le : X -> X -> bool.
Notation R := (fun a b => le a b = true).

Lemma insert_by_perm x l : Permutation (insert_by le x l) (x :: l).
Proof.
  induction l as [|y l IH]; simpl; [reflexivity|].
  destruct (le x y); [reflexivity|].
  rewrite IH. apply perm_swap.
Qed.

Lemma isort_by_perm l : Permutation (isort_by le l) l.
Proof.
  induction l as [|x l IH]; simpl; [reflexivity|].
  rewrite insert_by_perm. constructor. exact IH.
Qed.

Hypothesis le_total : forall a b, le a b = true \/ le b a = true.
Hypothesis le_trans : forall a b c, le a b = true -> le b c = true -> le a c = true.

Lemma insert_by_sorted x l : StronglySorted R l -> StronglySorted R (insert_by le x l).
Proof.
  induction 1 as [|y l Hs IH Hf]; simpl.
  - constructor; constructor.
  - destruct (le x y) eqn:E.
    + constructor; [constructor; assumption|].
      constructor; [exact E|].
      rewrite Forall_forall in *. intros z Hz. eapply le_trans; [exact E|apply Hf; exact Hz].
    + constructor; [exact IH|].
      rewrite Forall_forall in *. intros z Hz.
      apply (Permutation_in _ (insert_by_perm x l)) in Hz. destruct Hz as [<-|Hz].
      * destruct (le_total x y) as [H|H]; [congruence|exact H].
      * apply Hf; exact Hz.
Qed.

Lemma isort_by_sorted l : StronglySorted R (isort_by le l).
Proof. induction l; simpl; [constructor|apply insert_by_sorted; assumption]. Qed.

(* two sorted permutations of each other coincide when le is antisymmetric on the elements *)
Lemma sorted_perm_unique l1 : forall l2,
  StronglySorted R l1 -> StronglySorted R l2 -> Permutation l1 l2 ->
  (forall a b, In a l1 -> In b l1 -> le a b = true -> le b a = true -> a = b) ->
  l1 = l2.
Proof.
  induction l1 as [|a l1 IH]; intros l2 S1 S2 P Hanti.
  - apply Permutation_nil in P. subst; reflexivity.
  - destruct l2 as [|b l2]; [apply Permutation_sym, Permutation_nil in P; discriminate|].
    inversion S1 as [|? ? S1' F1]; subst. inversion S2 as [|? ? S2' F2]; subst.
    rewrite Forall_forall in F1, F2.
    assert (a = b) as ->.
    { assert (Ha : In a (b :: l2)) by (eapply Permutation_in; [exact P|left; reflexivity]).
      assert (Hb : In b (a :: l1)) by (eapply Permutation_in; [apply Permutation_sym; exact P|left; reflexivity]).
      destruct Ha as [->|Ha]; [reflexivity|]. destruct Hb as [->|Hb]; [reflexivity|].
      apply Hanti; [left; reflexivity|right; exact Hb|apply F1; exact Hb|apply F2; exact Ha]. }
    f_equal. apply Permutation_cons_inv in P.
    apply IH; try assumption.
    intros x y Hx Hy. apply Hanti; right; assumption.
Qed.

Lemma isort_by_unique l1 l2 :
  Permutation l1 l2 ->
  (forall a b, In a l1 -> In b l1 -> le a b = true -> le b a = true -> a = b) ->
  isort_by le l1 = isort_by le l2.
Proof.
  intros P Hanti. apply sorted_perm_unique; try apply isort_by_sorted.
  - rewrite !isort_by_perm. exact P.
  - intros a b Ha Hb. apply Hanti; eapply Permutation_in; try apply isort_by_perm; assumption.
Qed.

Lemma isort_by_of_sorted l l' :
  StronglySorted R l' -> Permutation l l' ->
  (forall a b, In a l -> In b l -> le a b = true -> le b a = true -> a = b) ->
  isort_by le l = l'.
Proof.
  intros S P Hanti. apply sorted_perm_unique; try apply isort_by_sorted; try assumption.
  - rewrite isort_by_perm. exact P.
  - intros a b Ha Hb. apply Hanti; eapply Permutation_in; try apply isort_by_perm; assumption.
Qed.
End Sort.

(* ---------- membership, lookup ---------- *)
Lemma memb_In x l : memb x l = true <-> In x l.
Proof.
  unfold memb. rewrite existsb_exists. split.
  - intros [y [Hy E]]. apply Nat.eqb_eq in E. subst. exact Hy.
  - intros H. exists x. split; [exact H|apply Nat.eqb_refl].
Qed.

Lemma index_of_some x l k : index_of x l = Some k -> k < length l /\ nth k l 0 = x.
Proof.
  revert k; induction l as [|y l IH]; simpl; intros k H; [discriminate|].
  destruct (y =? x) eqn:E.
  - inversion H; subst. apply Nat.eqb_eq in E. split; [lia|exact E].
  - destruct (index_of x l) as [k'|]; [|discriminate]. inversion H; subst.
    destruct (IH k' eq_refl) as [H1 H2]. split; [lia|exact H2].
Qed.

Lemma index_of_in x l : In x l -> exists k, index_of x l = Some k.
Proof.
  induction l as [|y l IH]; simpl; intros H; [contradiction|].
  destruct (y =? x) eqn:E; [eexists; reflexivity|].
  destruct H as [H|H]; [subst; rewrite Nat.eqb_refl in E; discriminate|].
  destruct (IH H) as [k Hk]. rewrite Hk. eexists; reflexivity.
Qed.

Lemma index_dflt_in x l : In x l -> index_dflt x l < length l /\ nth (index_dflt x l) l 0 = x.
Proof.
  intros H. unfold index_dflt. destruct (index_of_in x l H) as [k Hk]. rewrite Hk.
  apply index_of_some. exact Hk.
Qed.

(* ---------- first-occurrence filters ---------- *)
Lemma dedup_In x l : In x (dedup l) <-> In x l.
Proof.
  induction l as [|y l IH]; simpl; [tauto|].
  rewrite filter_In, IH. destruct (Nat.eq_dec x y) as [->|Hne].
  - rewrite Nat.eqb_refl. simpl. tauto.
  - apply Nat.eqb_neq in Hne. rewrite Hne. simpl. split; [intros [H|[H _]]; auto|intros [H|H]; auto].
Qed.

Lemma dedup_key_In_sub {V} (x : nat * V) l : In x (dedup_key l) -> In x l.
Proof.
  induction l as [|y l IH]; simpl; [tauto|].
  intros [H|H]; [left; exact H|]. apply filter_In in H. right. apply IH. apply H.
Qed.

(* when equal keys carry equal values, the filter keeps the set *)
Lemma dedup_key_In {V} (x : nat * V) l :
  (forall a b, In a l -> In b l -> fst a = fst b -> a = b) ->
  (In x (dedup_key l) <-> In x l).
Proof.
  intros Hf. split; [apply dedup_key_In_sub|].
  induction l as [|y l IH]; simpl; [tauto|].
  intros [H|H]; [left; exact H|].
  destruct (Nat.eq_dec (fst x) (fst y)) as [E|Hne].
  - left. symmetry. apply Hf; [right; exact H|left; reflexivity|exact E].
  - right. apply filter_In. split.
    + apply IH; [|exact H]. intros a b Ha Hb. apply Hf; right; assumption.
    + apply Nat.eqb_neq in Hne. rewrite Hne. reflexivity.
Qed.

Lemma dedup_key_NoDup {V} (l : list (nat * V)) : NoDup (map fst (dedup_key l)).
Proof.
  induction l as [|y l IH]; simpl; [constructor|].
  constructor.
  - rewrite in_map_iff. intros [z [Hz Hin]]. apply filter_In in Hin. destruct Hin as [_ Hb].
    rewrite Hz, Nat.eqb_refl in Hb. discriminate.
  - clear -IH. induction (dedup_key l) as [|z l' IH']; simpl; [constructor|].
    inversion IH; subst. destruct (negb (fst z =? fst y)); simpl; [|apply IH'; assumption].
    constructor; [|apply IH'; assumption].
    intros Hc. apply H1. rewrite in_map_iff in *. destruct Hc as [w [Hw Hin]]. apply filter_In in Hin.
    exists w. split; [exact Hw|apply Hin].
Qed.

Lemma NoDup_map_fst_inj {V} (l : list (nat * V)) a b :
  NoDup (map fst l) -> In a l -> In b l -> fst a = fst b -> a = b.
Proof.
  induction l as [|y l IH]; simpl; intros Hn Ha Hb E; [contradiction|].
  inversion Hn; subst.
  destruct Ha as [->|Ha], Hb as [->|Hb]; try reflexivity.
  - exfalso. apply H1. rewrite E. apply in_map. exact Hb.
  - exfalso. apply H1. rewrite <- E. apply in_map. exact Ha.
  - apply IH; assumption.
Qed.

(* ---------- flat_map / seq structure ---------- *)
Lemma flat_map_length' {A B} (f : A -> list B) l :
  length (flat_map f l) = list_sum (map (fun a => length (f a)) l).
Proof. induction l; simpl; [reflexivity|rewrite app_length, IHl; reflexivity]. Qed.

Lemma flat_map_nth_seq {A B} (g : A -> list B) (l : list A) d :
  flat_map (fun q => g (nth q l d)) (seq 0 (length l)) = flat_map g l.
Proof.
  induction l as [|a l IH]; simpl; [reflexivity|].
  f_equal. rewrite <- seq_shift, flat_map_concat_map, map_map, <- flat_map_concat_map. exact IH.
Qed.

Lemma filter_flat_map {A B} (p : B -> bool) (f : A -> list B) l :
  filter p (flat_map f l) = flat_map (fun a => filter p (f a)) l.
Proof. induction l; simpl; [reflexivity|rewrite filter_app, IHl; reflexivity]. Qed.

Lemma map_flat_map' {A B C} (g : B -> C) (f : A -> list B) l :
  map g (flat_map f l) = flat_map (fun a => map g (f a)) l.
Proof. induction l; simpl; [reflexivity|rewrite map_app, IHl; reflexivity]. Qed.

Lemma flat_map_map {A B C} (f : B -> list C) (g : A -> B) l :
  flat_map f (map g l) = flat_map (fun a => f (g a)) l.
Proof. induction l; simpl; [reflexivity|rewrite IHl; reflexivity]. Qed.

Lemma map_add_seq s k : map (fun i => s + i) (seq 0 k) = seq s k.
Proof.
  revert s; induction k as [|k IH]; intros s; simpl; [reflexivity|].
  rewrite Nat.add_0_r. f_equal. rewrite <- seq_shift, map_map.
  rewrite <- (IH (S s)). apply map_ext. intros; lia.
Qed.

Lemma map_nth_seq {A} (l : list A) d : map (fun i => nth i l d) (seq 0 (length l)) = l.
Proof.
  induction l as [|a l IH]; simpl; [reflexivity|].
  f_equal. rewrite <- seq_shift, map_map. exact IH.
Qed.

Lemma map_fst_filter {A B} (p : A -> bool) (l : list (A * B)) :
  map fst (filter (fun r => p (fst r)) l) = filter p (map fst l).
Proof. induction l as [|a l IH]; simpl; [reflexivity|]. destruct (p (fst a)); simpl; rewrite IH; reflexivity. Qed.

(* position of an element of block p inside the concatenation of the blocks *)
Lemma nth_flat_map_seq {A} (f : nat -> list A) P p k d :
  p < P -> k < length (f p) ->
  length (flat_map f (seq 0 p)) + k < length (flat_map f (seq 0 P)) /\
  nth (length (flat_map f (seq 0 p)) + k) (flat_map f (seq 0 P)) d = nth k (f p) d.
Proof.
  intros Hp Hk.
  replace P with (p + S (P - S p)) by lia.
  rewrite seq_app, flat_map_app. simpl. rewrite !app_length. split; [lia|].
  rewrite app_nth2_plus, app_nth1 by exact Hk. reflexivity.
Qed.

(* every position of the concatenation lies in some block *)
Lemma flat_map_seq_locate {A} (f : nat -> list A) P i :
  i < length (flat_map f (seq 0 P)) ->
  exists p k, p < P /\ k < length (f p) /\ i = length (flat_map f (seq 0 p)) + k.
Proof.
  induction P as [|P IH]; intros Hi; [simpl in Hi; lia|].
  rewrite seq_S, flat_map_app, app_length in Hi. simpl in Hi. rewrite app_nil_r in Hi.
  destruct (Nat.lt_ge_cases i (length (flat_map f (seq 0 P)))) as [Hlt|Hge].
  - destruct (IH Hlt) as [p [k [Hp [Hk E]]]]. exists p, k. repeat split; [lia|exact Hk|exact E].
  - exists P, (i - length (flat_map f (seq 0 P))). repeat split; lia.
Qed.

Lemma Forall2_flat_map {A B C} (R : B -> C -> Prop) (f : A -> list B) (g : A -> list C) l :
  (forall a, In a l -> Forall2 R (f a) (g a)) -> Forall2 R (flat_map f l) (flat_map g l).
Proof.
  induction l as [|a l IH]; simpl; intros H; [constructor|].
  apply Forall2_app; [apply H; left; reflexivity|apply IH; intros; apply H; right; assumption].
Qed.

Lemma Forall2_map_same {A B C} (R : B -> C -> Prop) (f : A -> B) (g : A -> C) l :
  (forall a, In a l -> R (f a) (g a)) -> Forall2 R (map f l) (map g l).
Proof.
  induction l as [|a l IH]; simpl; intros H; constructor; [apply H; left; reflexivity|].
  apply IH; intros; apply H; right; assumption.
Qed.

Lemma Forall2_nth {A B} (R : A -> B -> Prop) l1 l2 i d1 d2 :
  Forall2 R l1 l2 -> i < length l1 -> R (nth i l1 d1) (nth i l2 d2).
Proof.
  intros H; revert i; induction H; simpl; intros i Hi; [lia|].
  destruct i; [assumption|apply IHForall2; lia].
Qed.

Lemma Forall2_length' {A B} (R : A -> B -> Prop) l1 l2 : Forall2 R l1 l2 -> length l1 = length l2.
Proof. induction 1; simpl; congruence. Qed.

(* rows bucketed by a key below P: concatenating the buckets permutes the list *)
Lemma bucket_perm {A} (key : A -> nat) (l : list A) P :
  Permutation (flat_map (fun p => filter (fun a => key a =? p) l) (seq 0 P)) (filter (fun a => key a <? P) l).
Proof.
  induction P as [|P IH].
  - simpl. induction l; simpl; [constructor|exact IHl].
  - rewrite seq_S, flat_map_app. simpl. rewrite app_nil_r. rewrite IH. clear IH.
    induction l as [|a l IHl]; simpl; [constructor|].
    destruct (Nat.ltb_spec (key a) P), (Nat.eqb_spec (key a) P), (Nat.ltb_spec (key a) (S P)); try lia; simpl.
    + constructor. exact IHl.
    + rewrite <- IHl. symmetry. apply Permutation_middle.
    + exact IHl.
Qed.

Lemma filter_all {A} (p : A -> bool) l : (forall a, In a l -> p a = true) -> filter p l = l.
Proof.
  induction l as [|a l IH]; simpl; intros H; [reflexivity|].
  rewrite (H a) by (left; reflexivity). f_equal. apply IH. intros; apply H; right; assumption.
Qed.

(* strictly increasing lists stay so under filter *)
Lemma sorted_lt_filter (p : nat -> bool) l : StronglySorted lt l -> StronglySorted lt (filter p l).
Proof.
  induction 1 as [|a l Hs IH Hf]; simpl; [constructor|].
  destruct (p a); [|exact IH]. constructor; [exact IH|].
  rewrite Forall_forall in *. intros x Hx. apply filter_In in Hx. apply Hf. apply Hx.
Qed.

Lemma sorted_lt_seq s k : StronglySorted lt (seq s k).
Proof.
  revert s; induction k as [|k IH]; intros s; simpl; constructor; [apply IH|].
  rewrite Forall_forall. intros x Hx. apply in_seq in Hx. lia.
Qed.

(* ---------- find ---------- *)
Lemma find_map_fst {V W} (G : nat * V -> nat * W) (r : nat) l :
  (forall s, fst (G s) = fst s) ->
  find (fun s => fst s =? r) (map G l) = option_map G (find (fun s => fst s =? r) l).
Proof.
  intros HG. induction l as [|s l IH]; simpl; [reflexivity|].
  rewrite HG. destruct (fst s =? r); [reflexivity|exact IH].
Qed.

Lemma find_flat_map_single {V} (h : nat -> list (nat * V)) (r : nat) (x : nat * V) tau :
  (forall r' s, In s (h r') -> fst s = r') -> In r tau -> h r = [x] ->
  find (fun s => fst s =? r) (flat_map h tau) = Some x.
Proof.
  intros Hh Hin Hr. induction tau as [|r' tau IH]; simpl; [contradiction|].
  destruct (Nat.eq_dec r' r) as [->|Hne].
  - rewrite Hr. simpl. rewrite (Hh r x) by (rewrite Hr; left; reflexivity). rewrite Nat.eqb_refl. reflexivity.
  - destruct Hin as [E|Hin]; [contradiction|].
    assert (G : forall (l rest : list (nat * V)), (forall s, In s l -> fst s = r') ->
              find (fun s => fst s =? r) (l ++ rest) = find (fun s => fst s =? r) rest).
    { induction l as [|s l IHl]; simpl; intros rest H; [reflexivity|].
      rewrite (H s) by (left; reflexivity). apply Nat.eqb_neq in Hne. rewrite Hne.
      apply IHl. intros; apply H; right; assumption. }
    rewrite G by (apply Hh). apply IH. exact Hin.
Qed.

Lemma filter_unique {V} (l : list (nat * V)) m :
  NoDup (map fst l) -> In m l -> filter (fun m' => fst m' =? fst m) l = [m].
Proof.
  induction l as [|y l IH]; simpl; intros Hn Hin; [contradiction|].
  inversion Hn; subst. destruct Hin as [->|Hin].
  - rewrite Nat.eqb_refl. f_equal.
    apply filter_none. intros z Hz. apply Nat.eqb_neq. intros E. apply H1. rewrite <- E. apply in_map. exact Hz.
  - destruct (fst y =? fst m) eqn:E.
    + apply Nat.eqb_eq in E. exfalso. apply H1. rewrite E. apply in_map. exact Hin.
    + apply IH; assumption.
Qed.

(* ---------- runs ---------- *)
Lemma runs_flat {Y} (h : nat -> nat -> Y) l :
  flat_map (fun m => map (fun g => h g (fst m)) (snd m)) (runs l) = map (fun x => h (fst x) (snd x)) l.
Proof.
  induction l as [|[g pt] l IH]; simpl; [reflexivity|].
  destruct (runs l) as [|[pt' gs] rest] eqn:E; simpl in *.
  - rewrite <- IH. reflexivity.
  - destruct (pt =? pt') eqn:E2; simpl.
    + apply Nat.eqb_eq in E2. subst. rewrite <- IH. reflexivity.
    + rewrite <- IH. reflexivity.
Qed.

Lemma runs_parts l pt : In pt (map fst (runs l)) -> In pt (map snd l).
Proof.
  revert pt; induction l as [|[g p] l IH]; simpl; intros pt H; [contradiction|].
  destruct (runs l) as [|[pt' gs] rest] eqn:E; simpl in *.
  - destruct H as [H|[]]. left; exact H.
  - destruct (p =? pt') eqn:E2; simpl in H.
    + apply Nat.eqb_eq in E2. subst. destruct H as [H|H]; [left; exact H|right; apply IH; right; exact H].
    + destruct H as [H|H]; [left; exact H|right; apply IH; exact H].
Qed.

Lemma runs_head g p l : exists gs rest, runs ((g, p) :: l) = (p, gs) :: rest.
Proof.
  simpl. destruct (runs l) as [|[pt' gs] rest]; [eexists; eexists; reflexivity|].
  destruct (p =? pt'); eexists; eexists; reflexivity.
Qed.

Lemma runs_nodup l :
  StronglySorted (fun a b : nat * nat => snd a <= snd b) l -> NoDup (map fst (runs l)).
Proof.
  induction 1 as [|[g p] l Hs IH Hf]; simpl; [constructor|].
  destruct (runs l) as [|[pt' gs] rest] eqn:E; simpl.
  - constructor; [intros []|constructor].
  - destruct (p =? pt') eqn:E2; simpl.
    + apply Nat.eqb_eq in E2. subst. exact IH.
    + constructor; [|exact IH]. apply Nat.eqb_neq in E2.
      intros Hin. change (In p (map fst ((pt', gs) :: rest))) in Hin. rewrite <- E in Hin.
      destruct l as [|[g' p'] l']; [simpl in E; discriminate|].
      destruct (runs_head g' p' l') as [gs' [rest' Eh]]. rewrite Eh in E. inversion E; subst.
      inversion Hs as [|? ? Hs' Hf']; subst.
      rewrite Forall_forall in Hf, Hf'.
      apply runs_parts in Hin. rewrite in_map_iff in Hin. destruct Hin as [[g2 p2] [E3 Hin]]. simpl in E3. subst p2.
      assert (H1 : p <= pt') by (apply (Hf (g', pt')); left; reflexivity).
      destruct Hin as [Hin|Hin].
      * inversion Hin; subst. lia.
      * assert (H2 : pt' <= p) by (apply (Hf' (g2, p)); exact Hin). simpl in *. lia.
Qed.

Lemma runs_In l m g : In m (runs l) -> In g (snd m) -> In (g, fst m) l.
Proof.
  revert m; induction l as [|[g0 p] l IH]; simpl; intros m Hm Hg; [contradiction|].
  destruct (runs l) as [|[pt' gs] rest] eqn:E; simpl in *.
  - destruct Hm as [<-|[]]. simpl in *. destruct Hg as [<-|[]]. left; reflexivity.
  - destruct (p =? pt') eqn:E2; simpl in Hm.
    + apply Nat.eqb_eq in E2. subst. destruct Hm as [<-|Hm]; simpl in *.
      * destruct Hg as [<-|Hg]; [left; reflexivity|right]. apply (IH (pt', gs)); [left; reflexivity|exact Hg].
      * right. apply IH; [right; exact Hm|exact Hg].
    + destruct Hm as [<-|Hm]; simpl in *.
      * destruct Hg as [<-|[]]. left; reflexivity.
      * right. apply IH; assumption.
Qed.
