(* Executable model of raptor/util/linalg/repartition.cpp: repartition_matrix + make_contiguous,
   including the third ParComm constructor (raptor/core/comm_pkg.hpp, init_par_comm + global_to_local)
   that make_contiguous uses to renumber the off-process columns.

   A distributed square matrix is a list of per-rank views (index = rank):
     rv_first   first_local_row = first_local_col
     rv_on      on_proc rows,  entries (local column, value)          local column c  <-> global rv_first + c
     rv_off     off_proc rows, entries (index into rv_colmap, value)  index k         <-> global nth k rv_colmap
   MPI is not modelled: a message is a value computed from the sender's view; the order in which the
   any-source receives complete is a parameter (sched for the row messages of repartition_matrix, tau for
   the index requests of init_par_comm): for rank p, `nth p sched []` lists the source ranks in arrival order.
   The target map is global: tm[g] = partition[g - first] on the rank that owns old row g.             *)
From Raptor Require Import Base.Sums Sparse.Defs.

(* ---------- small list programs used by the model ---------- *)
Definition memb (x : nat) (l : list nat) : bool := existsb (Nat.eqb x) l.

(* std::map::find : position of the first occurrence *)
Fixpoint index_of (x : nat) (l : list nat) : option nat :=
  match l with
  | [] => None
  | y :: l' => if y =? x then Some 0 else match index_of x l' with Some k => Some (S k) | None => None end
  end.
(* std::map::operator[] : a missing key reads as 0 *)
Definition index_dflt (x : nat) (l : list nat) : nat :=
  match index_of x l with Some k => k | None => 0 end.

(* first occurrences, in order (the col_bool / std::map "seen" filters) *)
Fixpoint dedup (l : list nat) : list nat :=
  match l with
  | [] => []
  | x :: l' => x :: filter (fun y => negb (y =? x)) (dedup l')
  end.
Fixpoint dedup_key {V} (l : list (nat * V)) : list (nat * V) :=
  match l with
  | [] => []
  | x :: l' => x :: filter (fun y => negb (fst y =? fst x)) (dedup_key l')
  end.

(* consecutive runs of equal owner in a list of (old id, owner): the recv side of init_par_comm *)
Fixpoint runs (l : list (nat * nat)) : list (nat * list nat) :=
  match l with
  | [] => []
  | (g, pt) :: l' =>
      match runs l' with
      | (pt', gs) :: rest => if pt =? pt' then (pt, g :: gs) :: rest else (pt, [g]) :: (pt', gs) :: rest
      | [] => [(pt, [g])]
      end
  end.

Section RepartModel.
Variable T : Type.
Notation row := (list (nat * T)).

Record rview := mkRV { rv_first : nat; rv_on : list row; rv_off : list row; rv_colmap : list nat }.
Definition rv_n (v : rview) : nat := length (rv_on v).
Definition dv : rview := mkRV 0 [] [] [].

(* a local row in global column numbering: on_proc entries first, then off_proc entries
   (the order in which repartition_matrix packs a row) *)
Definition grow_of (first : nat) (colmap : list nat) (on off : row) : row :=
  map (fun e => (first + fst e, snd e)) on ++ map (fun e => (nth (fst e) colmap 0, snd e)) off.
Definition grow (v : rview) (i : nat) : row :=
  grow_of (rv_first v) (rv_colmap v) (nth i (rv_on v) []) (nth i (rv_off v) []).
Definition grows (v : rview) : list row := map (grow v) (seq 0 (rv_n v)).
(* the global matrix: row g of the list = global row g *)
Definition gmat (rs : list rview) : list row := flat_map grows rs.

(* well-formedness the C++ needs for its array accesses *)
Definition rv_wf (n : nat) (v : rview) : Prop :=
  length (rv_off v) = length (rv_on v) /\
  (forall r, In r (rv_on v) -> forall e, In e r -> fst e < rv_n v) /\
  (forall r, In r (rv_off v) -> forall e, In e r -> fst e < length (rv_colmap v)) /\
  (forall g, In g (rv_colmap v) -> g < n).
Fixpoint firsts_ok (s : nat) (rs : list rview) : Prop :=
  match rs with
  | [] => True
  | v :: rs' => rv_first v = s /\ firsts_ok (s + rv_n v) rs'
  end.
Definition pm_wf (rs : list rview) : Prop :=
  firsts_ok 0 rs /\ Forall (rv_wf (length (gmat rs))) rs.

Section Run.
Variable rs : list rview.
Variable tm : list nat.               (* target map, global *)
Variable sched : list (list nat).
Definition tmv (g : nat) : nat := nth g tm 0.
Definition np : nat := length rs.

(* ---- sender q, destination p ---- *)
(* send_indices[send_ptr[proc_idx] ..): the local rows going to p, in increasing local order *)
Definition lidx_to (v : rview) (p : nat) : list nat :=
  filter (fun i => tmv (rv_first v + i) =? p) (seq 0 (rv_n v)).
(* packed rows: (global_row, [(global_col, val)]) *)
Definition rows_to (v : rview) (p : nat) : list (nat * row) :=
  map (fun i => (rv_first v + i, grow v i)) (lidx_to v p).
(* packed (global_col, part) pairs: columns of the sent rows whose new owner is not p, each once,
   on-process columns first (send_cols), then off-process columns (off_send_cols);
   off_parts = A->comm->communicate(partition) = the owner's entry of the target map *)
Definition msg_cols (v : rview) (p : nat) : list (nat * nat) :=
  let li := lidx_to v p in
  let onc := dedup (filter (fun c => negb (tmv (rv_first v + c) =? p))
                           (flat_map (fun i => map fst (nth i (rv_on v) [])) li)) in
  let offc := dedup (filter (fun k => negb (tmv (nth k (rv_colmap v) 0) =? p))
                            (flat_map (fun i => map fst (nth i (rv_off v) [])) li)) in
  map (fun c => (rv_first v + c, tmv (rv_first v + c))) onc ++
  map (fun k => (nth k (rv_colmap v) 0, tmv (nth k (rv_colmap v) 0))) offc.

(* ---- receiver p ---- *)
Definition recv_rows (p : nat) : list (nat * row) :=
  flat_map (fun q => rows_to (nth q rs dv) p) (nth p sched []).
Definition recv_cols (p : nat) : list (nat * nat) :=
  dedup_key (flat_map (fun q => msg_cols (nth q rs dv) p) (nth p sched [])).
Definition le_row (a b : nat * row) : bool := fst a <=? fst b.
Definition le_pc (a b : nat * nat) : bool := (snd a <? snd b) || ((snd a =? snd b) && (fst a <=? fst b)).
Definition rows_sorted (p : nat) : list (nat * row) := isort_by le_row (recv_rows p).     (* row_order *)
Definition offs_sorted (p : nat) : list (nat * nat) := isort_by le_pc (recv_cols p).      (* off_col_order *)

(* what every rank holds after the receive loop and the two sorts: (sorted rows, sorted off-process columns) *)
Definition stage1 : list (list (nat * row) * list (nat * nat)) :=
  map (fun p => (rows_sorted p, offs_sorted p)) (seq 0 np).
End Run.

(* ---- the rest of repartition_matrix and make_contiguous, as a function of stage 1 ---- *)
Section Build.
Variable st : list (list (nat * row) * list (nat * nat)).
Variable tau : list (list nat).
Definition RS (p : nat) : list (nat * row) := fst (nth p st ([], [])).
Definition OS (p : nat) : list (nat * nat) := snd (nth p st ([], [])).

Definition nlr (p : nat) : list nat := map fst (RS p).    (* on_proc_column_map = new_local_rows (old ids) *)
Definition offc (p : nat) : list nat := map fst (OS p).   (* off_proc_column_map, old ids *)
Definition split_on (own : list nat) (ents : row) : row :=
  map (fun e => (index_dflt (fst e) own, snd e)) (filter (fun e => memb (fst e) own) ents).
Definition split_off (own offs : list nat) (ents : row) : row :=
  map (fun e => (index_dflt (fst e) offs, snd e)) (filter (fun e => negb (memb (fst e) own)) ents).
Definition on0 (p : nat) : list row := map (fun r => split_on (nlr p) (snd r)) (RS p).
Definition off0 (p : nat) : list row := map (fun r => split_off (nlr p) (offc p) (snd r)) (RS p).
(* Allgather of num_rows + prefix sum *)
Definition nfirst (p : nat) : nat := length (flat_map nlr (seq 0 p)).

(* ---- make_contiguous: ParComm(topology, off_proc_column_map, off_proc_part_map, local_row_map) ---- *)
Definition requests (r : nat) : list (nat * list nat) := runs (OS r).
Definition pk_recv (r : nat) : list (nat * nat) := map (fun m => (fst m, length (snd m))) (requests r).
Definition inbox (p : nat) : list (nat * list nat) :=
  flat_map (fun r => map (fun m => (r, snd m)) (filter (fun m => fst m =? p) (requests r))) (nth p tau []).
Definition pk_send (p : nat) : list (nat * list nat) :=
  map (fun m => (fst m, map (fun g => index_dflt g (nlr p)) (snd m))) (inbox p).

(* CommPkg::communicate through this package: rank r's receive buffer for per-rank value lists vals *)
Definition exchange {X} (dX : X) (vals : list (list X)) (r : nat) : list X :=
  flat_map (fun m => match find (fun s => fst s =? r) (pk_send (fst m)) with
                     | Some s => map (fun i => nth i (nth (fst m) vals []) dX) (snd s)
                     | None => []
                     end) (pk_recv r).

Definition new_lrm (p : nat) : list nat := map (fun i => nfirst p + i) (seq 0 (length (nlr p))).
Definition new_colmap (r : nat) : list nat := exchange 0 (map new_lrm (seq 0 (length st))) r.

Definition new_view (p : nat) : rview :=
  mkRV (nfirst p)
       (map (fun ir => move_diag_line (fst ir) (sort_line (snd ir))) (indexed (on0 p)))
       (map (@sort_line T) (off0 p))
       (new_colmap p).

Record rout := mkRO { ro_view : rview; ro_nlr : list nat; ro_recv : list (nat * nat); ro_send : list (nat * list nat) }.
Definition build : list rout :=
  map (fun p => mkRO (new_view p) (nlr p) (pk_recv p) (pk_send p)) (seq 0 (length st)).
End Build.

Definition repartition (rs : list rview) (tm : list nat) (sched tau : list (list nat)) : list rout :=
  build (stage1 rs tm sched) tau.

End RepartModel.

Arguments mkRV {T}. Arguments rv_first {T}. Arguments rv_on {T}. Arguments rv_off {T}. Arguments rv_colmap {T}.
Arguments rv_n {T}. Arguments dv {T}. Arguments grow_of {T}. Arguments grow {T}. Arguments grows {T}. Arguments gmat {T}.
Arguments rv_wf {T}. Arguments firsts_ok {T}. Arguments pm_wf {T}.
Arguments ro_view {T}. Arguments ro_nlr {T}. Arguments ro_recv {T}. Arguments ro_send {T}. Arguments repartition {T}.
Arguments stage1 {T}. Arguments build {T}. Arguments new_view {T}. Arguments exchange {T} st tau {X}.

(* ---------- the operator a list of views represents, and products ---------- *)
Section Operator.
Variable F : Type.
Variables (zero : F) (add mul : F -> F -> F).
Notation sumF := (sumf F zero add).

Definition gden (rs : list (rview F)) (i j : nat) : F := den_line F zero add (nth i (gmat rs) []) j.
(* dense product with the represented operator *)
Definition gmv (rs : list (rview F)) (x : list F) (i : nat) : F :=
  sumF (map (fun j => mul (gden rs i j) (nth j x zero)) (seq 0 (length (gmat rs)))).

(* ParCSRMatrix::mult on the repartitioned matrix: local product plus off-process product with the
   buffer delivered by the matrix's own package *)
Definition par_mult (rs : list (rview F)) (tm : list nat) (sched tau : list (list nat)) (xs : list (list F)) : list (list F) :=
  map (fun p =>
         let v := new_view (stage1 rs tm sched) tau p in
         let halo := exchange (stage1 rs tm sched) tau zero xs p in
         map (fun i => add (row_dot F zero add mul (nth i (rv_on v) []) (nth p xs []))
                           (row_dot F zero add mul (nth i (rv_off v) []) halo))
             (seq 0 (rv_n v)))
      (seq 0 (length rs)).
End Operator.
