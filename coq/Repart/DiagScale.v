(* Executable model of raptor/util/linalg/par_diag_scale.cpp on the per-rank views of Repartition.v:
   row_scale, diagonally_scale, diagonally_unscale.  `inv x` is 1.0 / x, `sqrt`, `abs` are abstract.
   The halo scales are A->comm->communicate(row_scales): the owner's value for every off-process column. *)
From Raptor Require Import Base.Sums Sparse.Defs Repart.Repartition.

Section ScaleModel.
Variable F : Type.
Variables (zero : F) (mul : F -> F -> F) (inv sqrt abs : F -> F).
Notation row := (list (nat * F)).
Notation view := (rview F).

(* idx2[idx1[i]], vals[idx1[i]] on the flat arrays of a CSR matrix given as a list of rows: the first
   stored entry at or after the start of row i (for an empty row that is the next row's first entry);
   None = the read is past the end of the arrays (undefined behaviour in the C++; never generated) *)
Definition first_at (rows : list row) (i : nat) : option (nat * F) := hd_error (concat (skipn i rows)).

(* A->on_proc->move_diag() *)
Definition moved (v : view) : list row :=
  map (fun ir => move_diag_line (fst ir) (snd ir)) (indexed (rv_on v)).

(* ---- row_scale ---- *)
Definition rs_scale (on' : list row) (i : nat) : F :=
  match first_at on' i with
  | Some (c, a) => if c =? i then inv a else zero
  | None => zero
  end.
Definition scale_row (s : F) (r : row) : row := map (fun e => (fst e, mul (snd e) s)) r.
Definition row_scale_scales (v : view) : list F := map (rs_scale (moved v)) (seq 0 (rv_n v)).
Definition row_scale_view (v : view) (b : list F) : view * list F :=
  let on' := moved v in
  let sc := row_scale_scales v in
  (mkRV (rv_first v)
        (map (fun i => scale_row (nth i sc zero) (nth i on' [])) (seq 0 (rv_n v)))
        (map (fun i => scale_row (nth i sc zero) (nth i (rv_off v) [])) (seq 0 (rv_n v)))
        (rv_colmap v),
   map (fun i => mul (nth i b zero) (nth i sc zero)) (seq 0 (rv_n v))).
Definition row_scale (rs : list view) (bs : list (list F)) : list (view * list F) :=
  map (fun q => row_scale_view (nth q rs dv) (nth q bs [])) (seq 0 (length rs)).

(* ---- diagonally_scale ---- *)
(* row_scales.resize(n, 0): existing entries are kept *)
Definition resize0 (n : nat) (prev : list F) : list F := firstn n (prev ++ repeat zero n).
Definition ds_scales (v : view) (prev : list F) : list F :=
  if rv_n v =? 0 then prev else
  let on' := moved v in
  let p0 := resize0 (rv_n v) prev in
  map (fun i => match first_at on' i with
                | Some (c, a) => if c =? i then inv (sqrt (abs a)) else nth i p0 zero
                | None => nth i p0 zero
                end) (seq 0 (rv_n v)).
Definition ds_view (v : view) (sl halo b : list F) : view * list F :=
  let on' := moved v in
  (mkRV (rv_first v)
        (map (fun i => map (fun e => (fst e, mul (snd e) (mul (nth i sl zero) (nth (fst e) sl zero)))) (nth i on' []))
             (seq 0 (rv_n v)))
        (map (fun i => map (fun e => (fst e, mul (snd e) (mul (nth i sl zero) (nth (fst e) halo zero)))) (nth i (rv_off v) []))
             (seq 0 (rv_n v)))
        (rv_colmap v),
   map (fun i => mul (nth i b zero) (nth i sl zero)) (seq 0 (rv_n v))).
Definition all_scales (rs : list view) (prevs : list (list F)) : list (list F) :=
  map (fun q => ds_scales (nth q rs dv) (nth q prevs [])) (seq 0 (length rs)).
Definition diagonally_scale (rs : list view) (prevs bs : list (list F)) : list (view * list F) :=
  let S := all_scales rs prevs in
  let d := concat S in
  map (fun q => let v := nth q rs dv in
                ds_view v (nth q S []) (map (fun g => nth g d zero) (rv_colmap v)) (nth q bs []))
      (seq 0 (length rs)).

(* ---- diagonally_unscale ---- *)
Definition diagonally_unscale (sol scales : list F) : list F :=
  map (fun i => mul (nth i sol zero) (nth i scales zero)) (seq 0 (length sol)).

End ScaleModel.
