(* Proofs about the repartition model (Repartition.v): the rows a rank holds after the exchange, the
   off-process column table, independence of the arrival orders, the permutation reported through
   new_local_rows, the operator identity, validity of the new communication package. *)
From Coq Require Import Sorting.Sorted.
From Raptor Require Import Base.Sums Sparse.Defs Sparse.ConvertProofs Repart.Repartition Repart.RUtil.

Section Rows.
Variable T : Type.
Notation row := (list (nat * T)).
Notation view := (rview T).

Definition rows_of (v : view) : list (nat * row) := map (fun i => (rv_first v + i, grow v i)) (seq 0 (rv_n v)).
Definition allrows (rs : list view) : list (nat * row) := flat_map rows_of rs.

Lemma allrows_fst s (rs : list view) : firsts_ok s rs -> map fst (allrows rs) = seq s (length (gmat rs)).
Proof.
  revert s; induction rs as [|v rs IH]; intros s H; simpl; [reflexivity|].
  destruct H as [Hf Hr]. unfold allrows in *. simpl. rewrite map_app, app_length, seq_app.
  f_equal.
  - unfold rows_of, grows. rewrite map_map, map_length, seq_length. simpl. rewrite Hf. apply map_add_seq.
  - unfold grows at 1. rewrite map_length, seq_length. apply IH. exact Hr.
Qed.

Lemma allrows_snd (rs : list view) : map snd (allrows rs) = gmat rs.
Proof.
  unfold allrows, gmat. induction rs as [|v rs IH]; simpl; [reflexivity|].
  rewrite map_app, IH. f_equal. unfold rows_of, grows. rewrite map_map. reflexivity.
Qed.

Lemma combine_fst_snd {A B} (l : list (A * B)) : combine (map fst l) (map snd l) = l.
Proof. induction l as [|[a b] l IH]; simpl; [reflexivity|rewrite IH; reflexivity]. Qed.

Lemma allrows_in (rs : list view) g r :
  firsts_ok 0 rs -> (In (g, r) (allrows rs) <-> g < length (gmat rs) /\ r = nth g (gmat rs) []).
Proof.
  intros Hf. rewrite <- (combine_fst_snd (allrows rs)) at 1.
  rewrite (allrows_fst 0 rs Hf), allrows_snd.
  set (G := gmat rs). clearbody G. clear.
  split.
  - intros H. 
    assert (K : forall s (G : list row), In (g, r) (combine (seq s (length G)) G) -> s <= g < s + length G /\ r = nth (g - s) G []).
    { clear. intros s G; revert s; induction G as [|x G IH]; simpl; intros s H; [contradiction|].
      destruct H as [H|H].
      - inversion H; subst. split; [lia|]. replace (g - g) with 0 by lia. reflexivity.
      - apply IH in H. destruct H as [H1 H2]. split; [lia|]. replace (g - s) with (S (g - S s)) by lia. exact H2. }
    apply K in H. rewrite Nat.sub_0_r in H. split; [lia|apply H].
  - intros [Hg ->].
    assert (K : forall s (G : list row) k, k < length G -> In (s + k, nth k G []) (combine (seq s (length G)) G)).
    { clear. intros s G; revert s; induction G as [|x G IH]; simpl; intros s k Hk; [lia|].
      destruct k; [left; f_equal; lia|]. right. replace (s + S k) with (S s + k) by lia. apply IH. lia. }
    apply (K 0 G g Hg).
Qed.

Lemma allrows_in_view (rs : list view) g r :
  In (g, r) (allrows rs) <-> exists v i, In v rs /\ i < rv_n v /\ g = rv_first v + i /\ r = grow v i.
Proof.
  unfold allrows. rewrite in_flat_map. split.
  - intros [v [Hv H]]. unfold rows_of in H. rewrite in_map_iff in H. destruct H as [i [E Hi]].
    apply in_seq in Hi. inversion E; subst. exists v, i. repeat split; [exact Hv|lia].
  - intros [v [i [Hv [Hi [-> ->]]]]]. exists v. split; [exact Hv|]. unfold rows_of. rewrite in_map_iff.
    exists i. split; [reflexivity|apply in_seq; lia].
Qed.

(* columns of a well-formed distributed matrix are below the global size *)
Lemma firsts_ok_bound s (rs : list view) v :
  firsts_ok s rs -> In v rs -> s <= rv_first v /\ rv_first v + rv_n v <= s + length (gmat rs).
Proof.
  revert s; induction rs as [|w rs IH]; simpl; intros s H Hin; [contradiction|].
  destruct H as [Hf Hr]. rewrite app_length. unfold grows at 1. rewrite map_length, seq_length.
  destruct Hin as [->|Hin]; [lia|]. destruct (IH _ Hr Hin). lia.
Qed.

Lemma wf_cols (rs : list view) g e :
  pm_wf rs -> g < length (gmat rs) -> In e (nth g (gmat rs) []) -> fst e < length (gmat rs).
Proof.
  intros [Hf Hw] Hg He.
  assert (Hin : In (g, nth g (gmat rs) []) (allrows rs)) by (apply allrows_in; [exact Hf|split; [exact Hg|reflexivity]]).
  apply allrows_in_view in Hin. destruct Hin as [v [i [Hv [Hi [_ E]]]]]. rewrite E in He.
  rewrite Forall_forall in Hw. destruct (Hw v Hv) as [W1 [W2 [W3 W4]]].
  destruct (firsts_ok_bound 0 rs v Hf Hv) as [_ B].
  unfold grow, grow_of in He. rewrite in_app_iff, !in_map_iff in He.
  destruct He as [[e0 [<- He0]]|[e0 [<- He0]]]; simpl.
  - assert (fst e0 < rv_n v) by (apply (W2 (nth i (rv_on v) [])); [apply nth_In; exact Hi|exact He0]). lia.
  - apply W4. apply nth_In. apply (W3 (nth i (rv_off v) [])); [apply nth_In; rewrite W1; exact Hi|exact He0].
Qed.

(* ---------- the received rows ---------- *)
Variable rs : list view.
Variable tm : list nat.
Notation n := (length (gmat rs)).
Notation P := (length rs).
Notation tmv := (tmv tm).
Hypothesis Hwf : pm_wf rs.
Hypothesis Htm : forall g, g < n -> tmv g < P.

Definition fp (p : nat) (r : nat * row) : bool := tmv (fst r) =? p.
Definition canon_rows (p : nat) : list (nat * row) := filter (fp p) (allrows rs).

Lemma rows_to_filter (v : view) p : rows_to T tm v p = filter (fp p) (rows_of v).
Proof. unfold rows_to, lidx_to, rows_of. rewrite filter_map_comm. reflexivity. Qed.

Lemma recv_rows_perm sched p :
  Permutation (nth p sched []) (seq 0 P) -> Permutation (recv_rows T rs tm sched p) (canon_rows p).
Proof.
  intros Hs. unfold recv_rows, canon_rows, allrows. rewrite filter_flat_map.
  rewrite (Permutation_flat_map _ Hs). rewrite (flat_map_nth_seq (fun v => rows_to T tm v p) rs dv).
  apply Permutation_refl'. apply flat_map_ext. intros v. apply rows_to_filter.
Qed.

Lemma canon_rows_fst p : map fst (canon_rows p) = filter (fun g => tmv g =? p) (seq 0 n).
Proof.
  unfold canon_rows, fp. rewrite (map_fst_filter (fun g => tmv g =? p)), (allrows_fst 0 rs (proj1 Hwf)). reflexivity.
Qed.

Lemma le_row_total (a b : nat * row) : le_row T a b = true \/ le_row T b a = true.
Proof. unfold le_row. destruct (Nat.leb_spec (fst a) (fst b)); [left; reflexivity|right; apply Nat.leb_le; lia]. Qed.
Lemma le_row_trans (a b c : nat * row) : le_row T a b = true -> le_row T b c = true -> le_row T a c = true.
Proof. unfold le_row. rewrite !Nat.leb_le. lia. Qed.

Lemma sorted_by_fst (l : list (nat * row)) :
  StronglySorted lt (map fst l) -> StronglySorted (fun a b => le_row T a b = true) l.
Proof.
  induction l as [|a l IH]; simpl; intros H; [constructor|].
  inversion H; subst. constructor; [apply IH; assumption|].
  rewrite Forall_forall in *. intros x Hx. unfold le_row. apply Nat.leb_le.
  assert (fst a < fst x) by (apply H3; apply in_map; exact Hx). lia.
Qed.

Lemma sorted_lt_NoDup l : StronglySorted lt l -> NoDup l.
Proof.
  induction 1 as [|a l Hs IH Hf]; constructor; [|exact IH].
  intros Hin. rewrite Forall_forall in Hf. specialize (Hf a Hin). lia.
Qed.

Lemma canon_rows_sorted p : StronglySorted lt (map fst (canon_rows p)).
Proof. rewrite canon_rows_fst. apply sorted_lt_filter, sorted_lt_seq. Qed.

(* after row_order: the rows whose target is p, by increasing old id, whatever the arrival order *)
Theorem rows_sorted_spec sched p :
  Permutation (nth p sched []) (seq 0 P) -> rows_sorted T rs tm sched p = canon_rows p.
Proof.
  intros Hs. unfold rows_sorted.
  apply isort_by_of_sorted.
  - apply le_row_total.
  - apply le_row_trans.
  - apply sorted_by_fst, canon_rows_sorted.
  - apply recv_rows_perm; exact Hs.
  - intros a b Ha Hb H1 H2. unfold le_row in *. apply Nat.leb_le in H1, H2.
    assert (Hn : NoDup (map fst (recv_rows T rs tm sched p))).
    { eapply Permutation_NoDup; [apply Permutation_map, Permutation_sym, recv_rows_perm; exact Hs|].
      apply sorted_lt_NoDup, canon_rows_sorted. }
    apply (NoDup_map_fst_inj _ a b Hn Ha Hb). lia.
Qed.

Lemma canon_rows_in p g r :
  In (g, r) (canon_rows p) <-> g < n /\ tmv g = p /\ r = nth g (gmat rs) [].
Proof.
  unfold canon_rows. rewrite filter_In, (allrows_in rs g r (proj1 Hwf)). unfold fp. simpl.
  rewrite Nat.eqb_eq. tauto.
Qed.


(* ---------- the off-process column table ---------- *)
Definition cols_set (p : nat) (x : nat * nat) : Prop :=
  exists g, g < n /\ tmv g = p /\ In (fst x) (map fst (nth g (gmat rs) [])) /\ snd x = tmv (fst x) /\ snd x <> p.

Lemma grow_cols (v : view) i gc :
  In gc (map fst (grow v i)) <->
  (exists c, In c (map fst (nth i (rv_on v) [])) /\ gc = rv_first v + c) \/
  (exists k, In k (map fst (nth i (rv_off v) [])) /\ gc = nth k (rv_colmap v) 0).
Proof.
  unfold grow, grow_of. rewrite map_app, in_app_iff, !map_map. simpl. split.
  - intros [H|H]; apply in_map_iff in H; destruct H as [e [E He]]; [left|right];
      exists (fst e); (split; [apply in_map; exact He|auto]).
  - intros [[c [Hc ->]]|[k [Hk ->]]]; apply in_map_iff in Hc || apply in_map_iff in Hk.
    + destruct Hc as [e [<- He]]. left. apply in_map_iff. exists e. auto.
    + destruct Hk as [e [<- He]]. right. apply in_map_iff. exists e. auto.
Qed.

Lemma msg_cols_in (v : view) p gc pt :
  In (gc, pt) (msg_cols T tm v p) <->
  exists i, i < rv_n v /\ tmv (rv_first v + i) = p /\ In gc (map fst (grow v i)) /\ pt = tmv gc /\ pt <> p.
Proof.
  unfold msg_cols. rewrite in_app_iff, !in_map_iff. split.
  - intros [[c [E Hc]]|[k [E Hk]]].
    + inversion E; subst. apply (proj1 (dedup_In _ _)) in Hc. apply filter_In in Hc. destruct Hc as [Hc Hb].
      apply in_flat_map in Hc. destruct Hc as [i [Hi Hc]]. unfold lidx_to in Hi. apply filter_In in Hi.
      destruct Hi as [Hi Ht]. apply in_seq in Hi. apply Nat.eqb_eq in Ht.
      exists i. repeat split; [lia|exact Ht| |].
      * apply grow_cols. left. exists c. auto.
      * apply Bool.negb_true_iff, Nat.eqb_neq in Hb. exact Hb.
    + inversion E; subst. apply (proj1 (dedup_In _ _)) in Hk. apply filter_In in Hk. destruct Hk as [Hk Hb].
      apply in_flat_map in Hk. destruct Hk as [i [Hi Hk]]. unfold lidx_to in Hi. apply filter_In in Hi.
      destruct Hi as [Hi Ht]. apply in_seq in Hi. apply Nat.eqb_eq in Ht.
      exists i. repeat split; [lia|exact Ht| |].
      * apply grow_cols. right. exists k. auto.
      * apply Bool.negb_true_iff, Nat.eqb_neq in Hb. exact Hb.
  - intros [i [Hi [Ht [Hg [-> Hne]]]]]. apply grow_cols in Hg.
    assert (Hli : In i (lidx_to T tm v p)).
    { unfold lidx_to. apply filter_In. split; [apply in_seq; lia|apply Nat.eqb_eq; exact Ht]. }
    destruct Hg as [[c [Hc ->]]|[k [Hk ->]]]; [left; exists c|right; exists k]; (split; [reflexivity|]);
      apply dedup_In, filter_In; (split; [apply in_flat_map; exists i; split; assumption|]);
      apply Bool.negb_true_iff, Nat.eqb_neq; exact Hne.
Qed.

Lemma nth_In_rs q : q < P -> In (nth q rs dv) rs.
Proof. intros; apply nth_In; assumption. Qed.

Lemma in_rs_nth (v : view) : In v rs -> exists q, q < P /\ nth q rs dv = v.
Proof. intros H. destruct (In_nth _ _ dv H) as [q [Hq E]]. exists q. auto. Qed.

Lemma all_msg_cols_in sched p x :
  Permutation (nth p sched []) (seq 0 P) ->
  (In x (flat_map (fun q => msg_cols T tm (nth q rs dv) p) (nth p sched [])) <-> cols_set p x).
Proof.
  intros Hs. destruct x as [gc pt]. rewrite in_flat_map. unfold cols_set. simpl. split.
  - intros [q [Hq Hin]]. apply (Permutation_in _ Hs), in_seq in Hq. apply msg_cols_in in Hin.
    destruct Hin as [i [Hi [Ht [Hg [-> Hne]]]]].
    assert (Hr : In (rv_first (nth q rs dv) + i, grow (nth q rs dv) i) (allrows rs)).
    { apply allrows_in_view. exists (nth q rs dv), i. repeat split; [apply nth_In_rs; lia|exact Hi]. }
    apply (allrows_in rs _ _ (proj1 Hwf)) in Hr. destruct Hr as [Hlt E].
    exists (rv_first (nth q rs dv) + i). rewrite <- E. auto.
  - intros [g [Hg [Ht [Hc [-> Hne]]]]].
    assert (Hr : In (g, nth g (gmat rs) []) (allrows rs)) by (apply allrows_in; [apply Hwf|auto]).
    apply allrows_in_view in Hr. destruct Hr as [v [i [Hv [Hi [-> E]]]]].
    destruct (in_rs_nth v Hv) as [q [Hq <-]].
    exists q. split; [apply (Permutation_in _ (Permutation_sym Hs)), in_seq; lia|].
    apply msg_cols_in. exists i. rewrite <- E. auto.
Qed.

Lemma recv_cols_in sched p x :
  Permutation (nth p sched []) (seq 0 P) -> (In x (recv_cols T rs tm sched p) <-> cols_set p x).
Proof.
  intros Hs. unfold recv_cols. rewrite dedup_key_In; [apply all_msg_cols_in; exact Hs|].
  intros a b Ha Hb E. apply (all_msg_cols_in sched p _ Hs) in Ha, Hb.
  destruct Ha as [_ [_ [_ [_ [Ha _]]]]], Hb as [_ [_ [_ [_ [Hb _]]]]].
  destruct a, b; simpl in *; subst; reflexivity.
Qed.

Lemma le_pc_total a b : le_pc a b = true \/ le_pc b a = true.
Proof.
  unfold le_pc. destruct a as [a1 a2], b as [b1 b2]; simpl.
  destruct (Nat.ltb_spec a2 b2), (Nat.ltb_spec b2 a2), (Nat.eqb_spec a2 b2), (Nat.eqb_spec b2 a2),
           (Nat.leb_spec a1 b1), (Nat.leb_spec b1 a1); simpl; auto; lia.
Qed.
Lemma le_pc_trans a b c : le_pc a b = true -> le_pc b c = true -> le_pc a c = true.
Proof.
  unfold le_pc. destruct a as [a1 a2], b as [b1 b2], c as [c1 c2]; simpl.
  destruct (Nat.ltb_spec a2 b2), (Nat.ltb_spec b2 c2), (Nat.ltb_spec a2 c2), (Nat.eqb_spec a2 b2), (Nat.eqb_spec b2 c2),
           (Nat.eqb_spec a2 c2), (Nat.leb_spec a1 b1), (Nat.leb_spec b1 c1), (Nat.leb_spec a1 c1); simpl; auto; try lia.
Qed.
Lemma le_pc_antisym a b : le_pc a b = true -> le_pc b a = true -> a = b.
Proof.
  unfold le_pc. destruct a as [a1 a2], b as [b1 b2]; simpl.
  destruct (Nat.ltb_spec a2 b2), (Nat.ltb_spec b2 a2), (Nat.eqb_spec a2 b2), (Nat.eqb_spec b2 a2),
           (Nat.leb_spec a1 b1), (Nat.leb_spec b1 a1); simpl; intros; try discriminate; try lia; f_equal; lia.
Qed.

Lemma offs_sorted_in sched p x :
  Permutation (nth p sched []) (seq 0 P) -> (In x (offs_sorted T rs tm sched p) <-> cols_set p x).
Proof.
  intros Hs. unfold offs_sorted. rewrite <- (recv_cols_in sched p x Hs).
  split; apply Permutation_in; [|apply Permutation_sym]; apply isort_by_perm.
Qed.

Lemma offs_sorted_nodup sched p : NoDup (map fst (offs_sorted T rs tm sched p)).
Proof.
  unfold offs_sorted. eapply Permutation_NoDup; [apply Permutation_map, Permutation_sym, isort_by_perm|].
  apply dedup_key_NoDup.
Qed.

Lemma offs_sorted_sorted sched p :
  StronglySorted (fun a b : nat * nat => snd a <= snd b) (offs_sorted T rs tm sched p).
Proof.
  unfold offs_sorted.
  assert (H := isort_by_sorted le_pc le_pc_total le_pc_trans (recv_cols T rs tm sched p)).
  induction H as [|a l Hs IH Hf]; constructor; [exact IH|].
  rewrite Forall_forall in *. intros x Hx. specialize (Hf x Hx). unfold le_pc in Hf.
  destruct (Nat.ltb_spec (snd a) (snd x)); [lia|]. destruct (Nat.eqb_spec (snd a) (snd x)); [lia|discriminate].
Qed.

(* the sorted column table does not depend on the arrival order *)
Theorem offs_sorted_indep sched sched' p :
  Permutation (nth p sched []) (seq 0 P) -> Permutation (nth p sched' []) (seq 0 P) ->
  offs_sorted T rs tm sched p = offs_sorted T rs tm sched' p.
Proof.
  intros Hs Hs'. unfold offs_sorted. apply isort_by_unique.
  - apply le_pc_total.
  - apply le_pc_trans.
  - apply NoDup_Permutation.
    + eapply NoDup_map_inv. apply dedup_key_NoDup.
    + eapply NoDup_map_inv. apply dedup_key_NoDup.
    + intros x. rewrite (recv_cols_in sched p x Hs), (recv_cols_in sched' p x Hs'). reflexivity.
  - intros a b _ _. apply le_pc_antisym.
Qed.

Theorem stage1_indep sched sched' :
  (forall p, p < P -> Permutation (nth p sched []) (seq 0 P)) ->
  (forall p, p < P -> Permutation (nth p sched' []) (seq 0 P)) ->
  stage1 rs tm sched = stage1 rs tm sched'.
Proof.
  intros Hs Hs'. unfold stage1. apply map_ext_in. intros p Hp. apply in_seq in Hp.
  rewrite !rows_sorted_spec by (try apply Hs; try apply Hs'; unfold np in *; lia).
  f_equal. apply offs_sorted_indep; [apply Hs|apply Hs']; unfold np in *; lia.
Qed.


(* ---------- the result, for any admissible arrival orders ---------- *)
Variables sched tau : list (list nat).
Hypothesis Hsched : forall p, p < P -> Permutation (nth p sched []) (seq 0 P).
Hypothesis Htau : forall p, p < P -> Permutation (nth p tau []) (seq 0 P).
Notation st := (stage1 rs tm sched).
Notation nlr := (nlr T st).
Notation nfirst := (nfirst T st).

Lemma flat_map_ext_in {A B} (f g : A -> list B) l :
  (forall a, In a l -> f a = g a) -> flat_map f l = flat_map g l.
Proof.
  induction l as [|a l IH]; simpl; intros H; [reflexivity|].
  rewrite (H a) by (left; reflexivity). f_equal. apply IH. intros; apply H; right; assumption.
Qed.

Lemma nth_map_in {A B} (f : A -> B) l k d d' : k < length l -> nth k (map f l) d' = f (nth k l d).
Proof. intros H. rewrite (nth_indep _ d' (f d)) by (rewrite map_length; exact H). apply map_nth. Qed.

Lemma st_len : length st = P.
Proof. unfold stage1. rewrite map_length, seq_length. reflexivity. Qed.

Lemma st_nth p : p < P -> nth p st ([], []) = (canon_rows p, offs_sorted T rs tm sched p).
Proof.
  intros Hp. unfold stage1, np. rewrite nth_map_seq by exact Hp. rewrite rows_sorted_spec by (apply Hsched; exact Hp).
  reflexivity.
Qed.
Lemma RS_spec p : p < P -> RS T st p = canon_rows p.
Proof. intros Hp. unfold RS. rewrite st_nth by exact Hp. reflexivity. Qed.
Lemma OS_spec p : p < P -> OS T st p = offs_sorted T rs tm sched p.
Proof. intros Hp. unfold OS. rewrite st_nth by exact Hp. reflexivity. Qed.

Lemma nlr_spec p : p < P -> nlr p = filter (fun g => tmv g =? p) (seq 0 n).
Proof. intros Hp. unfold Repartition.nlr. rewrite RS_spec by exact Hp. apply canon_rows_fst. Qed.

Lemma nlr_in p g : p < P -> (In g (nlr p) <-> g < n /\ tmv g = p).
Proof.
  intros Hp. rewrite nlr_spec by exact Hp. rewrite filter_In, in_seq, Nat.eqb_eq. split; intros [H1 H2]; split; auto; lia.
Qed.

Definition inv : list nat := flat_map nlr (seq 0 P).

Lemma inv_perm : Permutation inv (seq 0 n).
Proof.
  unfold inv. rewrite (flat_map_ext_in nlr (fun p => filter (fun g => tmv g =? p) (seq 0 n))).
  - rewrite bucket_perm. apply Permutation_refl'. apply filter_all.
    intros g Hg. apply in_seq in Hg. apply Nat.ltb_lt. apply Htm. lia.
  - intros p Hp. apply in_seq in Hp. apply nlr_spec. lia.
Qed.
Lemma inv_len : length inv = n.
Proof. rewrite (Permutation_length inv_perm). apply seq_length. Qed.
Lemma inv_nodup : NoDup inv.
Proof. eapply Permutation_NoDup; [apply Permutation_sym, inv_perm|apply seq_NoDup]. Qed.

(* c' is the new number of old id g *)
Definition Rn (g c' : nat) : Prop := c' < n /\ nth c' inv 0 = g.

Lemma Rn_eqb g c' j' : Rn g c' -> j' < n -> (c' =? j') = (g =? nth j' inv 0).
Proof.
  intros [Hc <-] Hj. destruct (Nat.eqb_spec c' j') as [->|Hne].
  - symmetry. apply Nat.eqb_refl.
  - symmetry. apply Nat.eqb_neq. intros E. apply Hne.
    apply (proj1 (NoDup_nth inv 0) inv_nodup); rewrite ?inv_len; assumption.
Qed.

Lemma Rn_block p k : p < P -> k < length (nlr p) -> Rn (nth k (nlr p) 0) (nfirst p + k).
Proof.
  intros Hp Hk. unfold Rn, Repartition.nfirst, inv.
  destruct (nth_flat_map_seq nlr P p k 0 Hp Hk) as [H1 H2].
  fold inv in H1. rewrite inv_len in H1. split; assumption.
Qed.

Lemma Rn_on p g : p < P -> In g (nlr p) -> Rn g (nfirst p + index_dflt g (nlr p)).
Proof.
  intros Hp Hg. destruct (index_dflt_in g (nlr p) Hg) as [H1 H2].
  rewrite <- H2 at 1. apply Rn_block; assumption.
Qed.

(* ---- the package built by make_contiguous delivers, for every off-process column, the owner's value ---- *)
Lemma OS_in r x : r < P -> (In x (OS T st r) <-> cols_set r x).
Proof. intros Hr. rewrite OS_spec by exact Hr. apply offs_sorted_in. apply Hsched; exact Hr. Qed.

Lemma cols_set_facts r x : cols_set r x -> fst x < n /\ snd x = tmv (fst x) /\ snd x < P /\ snd x <> r.
Proof.
  intros [g [Hg [Ht [Hc [E Hne]]]]]. apply in_map_iff in Hc. destruct Hc as [e [Ee He]].
  assert (fst x < n) by (rewrite <- Ee; eapply wf_cols; eauto).
  repeat split; [assumption|exact E|rewrite E; apply Htm; assumption|exact Hne].
Qed.

Theorem exchange_spec {X} (dX : X) (vals : list (list X)) r :
  r < P ->
  exchange st tau dX vals r =
  map (fun x => nth (index_dflt (fst x) (nlr (snd x))) (nth (snd x) vals []) dX) (OS T st r).
Proof.
  intros Hr. unfold exchange, pk_recv. rewrite flat_map_map. simpl.
  rewrite <- (runs_flat (fun g pt => nth (index_dflt g (nlr pt)) (nth pt vals []) dX) (OS T st r)).
  apply flat_map_ext_in. intros m Hm. unfold requests in Hm.
  assert (Hpt : fst m < P).
  { assert (H : In (fst m) (map snd (OS T st r))) by (apply runs_parts, in_map; exact Hm).
    apply in_map_iff in H. destruct H as [x [E Hx]]. apply (OS_in r x Hr) in Hx.
    rewrite <- E. apply (cols_set_facts r x Hx). }
  unfold pk_send.
  rewrite (find_map_fst (fun m0 => (fst m0, map (fun g => index_dflt g (nlr (fst m))) (snd m0))) r) by reflexivity.
  unfold inbox.
  rewrite (find_flat_map_single
             (fun r0 => map (fun m0 => (r0, snd m0)) (filter (fun m0 => fst m0 =? fst m) (requests T st r0)))
             r (r, snd m)).
  - simpl. rewrite map_map. reflexivity.
  - intros r' s Hs. apply in_map_iff in Hs. destruct Hs as [m0 [<- _]]. reflexivity.
  - apply (Permutation_in _ (Permutation_sym (Htau (fst m) Hpt))). apply in_seq. lia.
  - unfold requests. rewrite filter_unique; [reflexivity| |exact Hm].
    apply runs_nodup. rewrite OS_spec by exact Hr. apply offs_sorted_sorted.
Qed.

Lemma new_colmap_spec r :
  r < P -> new_colmap T st tau r = map (fun x => nfirst (snd x) + index_dflt (fst x) (nlr (snd x))) (OS T st r).
Proof.
  intros Hr. unfold new_colmap. rewrite exchange_spec by exact Hr.
  apply map_ext_in. intros x Hx. apply (OS_in r x Hr) in Hx. destruct (cols_set_facts r x Hx) as [H1 [H2 [H3 H4]]].
  rewrite st_len, nth_map_seq by exact H3. unfold new_lrm.
  assert (Hin : In (fst x) (nlr (snd x))) by (apply nlr_in; auto).
  destruct (index_dflt_in _ _ Hin) as [Hk _].
  rewrite nth_map_seq by exact Hk. reflexivity.
Qed.

Lemma Rn_off r g :
  r < P -> g < n -> tmv g <> r -> (exists g0, g0 < n /\ tmv g0 = r /\ In g (map fst (nth g0 (gmat rs) []))) ->
  Rn g (nth (index_dflt g (offc T st r)) (new_colmap T st tau r) 0).
Proof.
  intros Hr Hg Hne [g0 [Hg0 [Ht0 Hc]]].
  assert (Hin : In (g, tmv g) (OS T st r)).
  { apply OS_in; [exact Hr|]. exists g0. simpl. auto. }
  assert (Hin' : In g (offc T st r)) by (unfold offc; apply in_map_iff; exists (g, tmv g); auto).
  destruct (index_dflt_in _ _ Hin') as [Hk Ek]. unfold offc in Hk, Ek. rewrite map_length in Hk.
  rewrite new_colmap_spec by exact Hr.
  set (k := index_dflt g (offc T st r)) in *.
  rewrite (nth_map_in _ _ k (0, 0) 0) by exact Hk.
  assert (Hx : In (nth k (OS T st r) (0, 0)) (OS T st r)) by (apply nth_In; exact Hk).
  rewrite (nth_map_in _ _ k (0, 0) 0) in Ek by exact Hk.
  apply (OS_in r _ Hr) in Hx. destruct (cols_set_facts r _ Hx) as [H1 [H2 [H3 H4]]].
  rewrite Ek in *. rewrite H2. apply Rn_on; [rewrite <- H2; exact H3|].
  apply nlr_in; [rewrite <- H2; exact H3|]. auto.
Qed.


(* ---- every new row is the old row with its columns renumbered (up to the order of the entries) ---- *)
Lemma extract_first_perm {X} (q : X -> bool) l d rest :
  extract_first q l = Some (d, rest) -> Permutation (d :: rest) l.
Proof.
  revert d rest; induction l as [|x l IH]; simpl; intros d rest H; [discriminate|].
  destruct (q x).
  - inversion H; subst. reflexivity.
  - destruct (extract_first q l) as [[y r]|]; [|discriminate]. inversion H; subst.
    rewrite perm_swap. constructor. apply IH. reflexivity.
Qed.
Lemma move_diag_line_perm i (r : row) : Permutation (move_diag_line i r) r.
Proof.
  unfold move_diag_line. destruct (extract_first _ r) as [[d rest]|] eqn:E; [|reflexivity].
  eapply extract_first_perm. exact E.
Qed.
Lemma sort_line_perm (r : row) : Permutation (sort_line r) r.
Proof. apply isort_by_perm. Qed.
Lemma filter_partition_perm {A} (q : A -> bool) l : Permutation (filter q l ++ filter (fun a => negb (q a)) l) l.
Proof.
  induction l as [|a l IH]; simpl; [constructor|].
  destruct (q a); simpl; [constructor; exact IH|].
  rewrite <- Permutation_middle. constructor. exact IH.
Qed.
Lemma nth_map_indexed {A B} (G : nat * A -> B) (l : list A) i d d' :
  i < length l -> nth i (map G (indexed l)) d' = G (i, nth i l d).
Proof.
  intros Hi. unfold indexed. rewrite (indexed_from_seq 0 l d), map_map.
  rewrite nth_map_seq by exact Hi. rewrite Nat.sub_0_r. reflexivity.
Qed.

Definition ren (p g : nat) : nat :=
  if memb g (nlr p) then nfirst p + index_dflt g (nlr p)
  else nth (index_dflt g (offc T st p)) (new_colmap T st tau p) 0.

Lemma new_view_n p : rv_n (new_view st tau p) = length (RS T st p).
Proof. unfold rv_n, new_view. simpl. rewrite map_length. unfold indexed. rewrite indexed_from_length. unfold on0. apply map_length. Qed.

Lemma new_row_perm p i :
  i < length (RS T st p) ->
  Permutation (grow (new_view st tau p) i)
              (map (fun e => (ren p (fst e), snd e)) (snd (nth i (RS T st p) (0, [])))).
Proof.
  intros Hi. unfold grow, new_view. simpl.
  rewrite (nth_map_indexed _ (on0 T st p) i []) by (unfold on0; rewrite map_length; exact Hi). simpl.
  rewrite (nth_map_in _ (off0 T st p) i [] []) by (unfold off0; rewrite map_length; exact Hi).
  unfold on0, off0. rewrite !(nth_map_in _ (RS T st p) i (0, []) []) by exact Hi.
  set (ents := snd (nth i (RS T st p) (0, []))).
  unfold grow_of. rewrite move_diag_line_perm, !sort_line_perm.
  unfold split_on, split_off. rewrite !map_map. simpl.
  rewrite <- (filter_partition_perm (fun e => memb (fst e) (nlr p)) ents) at 3. rewrite map_app.
  apply Permutation_refl'. f_equal; apply map_ext_in; intros e He; apply filter_In in He; destruct He as [_ Hb];
    unfold ren; [rewrite Hb|apply Bool.negb_true_iff in Hb; rewrite Hb]; reflexivity.
Qed.

Lemma ren_Rn p g0 g :
  p < P -> g0 < n -> tmv g0 = p -> In g (map fst (nth g0 (gmat rs) [])) -> Rn g (ren p g).
Proof.
  intros Hp Hg0 Ht Hc.
  assert (Hg : g < n). { apply in_map_iff in Hc. destruct Hc as [e [<- He]]. eapply wf_cols; eauto. }
  unfold ren. destruct (memb g (nlr p)) eqn:E.
  - apply Rn_on; [exact Hp|apply memb_In; exact E].
  - apply Rn_off; [exact Hp|exact Hg| |exists g0; auto].
    intros Hc'. assert (Hin : In g (nlr p)) by (apply nlr_in; auto).
    apply memb_In in Hin. congruence.
Qed.

(* ---- the result is again a well-formed distributed matrix ---- *)
Notation views := (map (@ro_view T) (repartition rs tm sched tau)).

Lemma out_nth p : p < P ->
  nth p (repartition rs tm sched tau) (mkRO T dv [] [] []) =
  mkRO T (new_view st tau p) (nlr p) (pk_recv T st p) (pk_send T st tau p).
Proof.
  intros Hp. unfold repartition, build. rewrite st_len.
  rewrite (nth_map_in _ (seq 0 P) p 0) by (rewrite seq_length; exact Hp). rewrite seq_nth by exact Hp. reflexivity.
Qed.

Lemma views_eq : views = map (new_view st tau) (seq 0 P).
Proof. unfold repartition, build. rewrite map_map, st_len. reflexivity. Qed.

Lemma gmat_views_len : length (gmat views) = n.
Proof.
  rewrite <- inv_len. rewrite views_eq. unfold gmat at 1. rewrite flat_map_map, flat_map_length'.
  unfold inv. rewrite flat_map_length'. f_equal. apply map_ext. intros p.
  unfold grows. rewrite map_length, seq_length, new_view_n. unfold Repartition.nlr. rewrite map_length. reflexivity.
Qed.

Lemma RS_row p i : p < P -> i < length (RS T st p) ->
  exists g, g < n /\ tmv g = p /\ nth i (RS T st p) (0, []) = (g, nth g (gmat rs) []).
Proof.
  intros Hp Hi. assert (Hin : In (nth i (RS T st p) (0, [])) (RS T st p)) by (apply nth_In; exact Hi).
  destruct (nth i (RS T st p) (0, [])) as [g ents]. rewrite (RS_spec p Hp) in Hin.
  apply canon_rows_in in Hin. destruct Hin as [Hg [Ht ->]]. exists g. auto.
Qed.

Lemma on_bound p i e : p < P -> i < length (RS T st p) ->
  In e (nth i (rv_on (new_view st tau p)) []) -> fst e < length (nlr p).
Proof.
  intros Hp Hi He. unfold new_view in He. simpl in He.
  rewrite (nth_map_indexed _ (on0 T st p) i []) in He by (unfold on0; rewrite map_length; exact Hi). simpl in He.
  apply (Permutation_in _ (move_diag_line_perm i _)), (Permutation_in _ (sort_line_perm _)) in He.
  unfold on0 in He. rewrite (nth_map_in _ (RS T st p) i (0, []) []) in He by exact Hi.
  unfold split_on in He. apply in_map_iff in He. destruct He as [e0 [<- He0]]. apply filter_In in He0.
  destruct He0 as [_ Hb]. simpl. apply index_dflt_in. apply memb_In. exact Hb.
Qed.

Lemma new_colmap_len p : p < P -> length (new_colmap T st tau p) = length (offc T st p).
Proof. intros Hp. rewrite new_colmap_spec by exact Hp. unfold offc. rewrite !map_length. reflexivity. Qed.

Lemma off_bound p i e : p < P -> i < length (RS T st p) ->
  In e (nth i (rv_off (new_view st tau p)) []) -> fst e < length (new_colmap T st tau p).
Proof.
  intros Hp Hi He. unfold new_view in He. simpl in He.
  rewrite (nth_map_in _ (off0 T st p) i [] []) in He by (unfold off0; rewrite map_length; exact Hi).
  apply (Permutation_in _ (sort_line_perm _)) in He.
  unfold off0 in He. rewrite (nth_map_in _ (RS T st p) i (0, []) []) in He by exact Hi.
  destruct (RS_row p i Hp Hi) as [g0 [Hg0 [Ht0 E]]]. rewrite E in He. simpl in He.
  unfold split_off in He. apply in_map_iff in He. destruct He as [e0 [<- He0]]. apply filter_In in He0.
  destruct He0 as [He0 Hb]. simpl. rewrite new_colmap_len by exact Hp. apply index_dflt_in.
  assert (Hg : fst e0 < n) by (eapply wf_cols; eauto).
  assert (Hne : tmv (fst e0) <> p).
  { intros Hc. apply Bool.negb_true_iff in Hb. assert (Hin : In (fst e0) (nlr p)) by (apply nlr_in; auto).
    apply memb_In in Hin. congruence. }
  unfold offc. apply in_map_iff. exists (fst e0, tmv (fst e0)). split; [reflexivity|].
  apply OS_in; [exact Hp|]. exists g0. simpl. repeat split; auto. apply in_map. exact He0.
Qed.

Lemma colmap_bound p g : p < P -> In g (new_colmap T st tau p) -> g < n.
Proof.
  intros Hp Hg. rewrite new_colmap_spec in Hg by exact Hp. apply in_map_iff in Hg. destruct Hg as [x [<- Hx]].
  apply (OS_in p x Hp) in Hx. destruct (cols_set_facts p x Hx) as [H1 [H2 [H3 H4]]].
  apply Rn_on; [exact H3|apply nlr_in; auto].
Qed.

Lemma firsts_ok_seq (f : nat -> view) m a s :
  (forall k, k < m -> rv_first (f (a + k)) = s + length (flat_map (fun q => grows (f q)) (seq a k))) ->
  firsts_ok s (map f (seq a m)).
Proof.
  revert a s; induction m as [|m IH]; intros a s H; simpl; [exact I|]. split.
  - rewrite <- (Nat.add_0_r a) at 1. rewrite (H 0) by lia. simpl. lia.
  - apply IH. intros k Hk. replace (S a + k) with (a + S k) by lia. rewrite (H (S k)) by lia.
    simpl. rewrite app_length. unfold grows at 1. rewrite map_length, seq_length. lia.
Qed.

Theorem out_wf : pm_wf views.
Proof.
  split.
  - rewrite views_eq. apply firsts_ok_seq. intros k Hk. simpl.
    unfold Repartition.nfirst. rewrite !flat_map_length'. f_equal. apply map_ext. intros q.
    unfold grows. rewrite map_length, seq_length, new_view_n. unfold Repartition.nlr. rewrite map_length. reflexivity.
  - rewrite gmat_views_len, views_eq. apply Forall_forall. intros v Hv. apply in_map_iff in Hv.
    destruct Hv as [p [<- Hp]]. apply in_seq in Hp. destruct Hp as [_ Hp]. simpl in Hp.
    assert (Hn : rv_n (new_view st tau p) = length (nlr p)) by (rewrite new_view_n; unfold Repartition.nlr; rewrite map_length; reflexivity).
    unfold rv_wf. repeat split.
    + unfold new_view. simpl. rewrite !map_length. unfold indexed. rewrite indexed_from_length.
      unfold on0, off0. rewrite !map_length. reflexivity.
    + intros r Hr e He. destruct (In_nth _ _ [] Hr) as [i [Hi <-]]. rewrite Hn.
      apply (on_bound p i e Hp); [|exact He]. fold (rv_n (new_view st tau p)) in Hi. rewrite new_view_n in Hi. exact Hi.
    + intros r Hr e He. destruct (In_nth _ _ [] Hr) as [i [Hi <-]].
      apply (off_bound p i e Hp); [|exact He].
      unfold new_view in Hi. simpl in Hi. unfold off0 in Hi. rewrite !map_length in Hi. exact Hi.
    + intros g Hg. apply (colmap_bound p g Hp Hg).
Qed.


End Rows.

(* ================= the represented operator ================= *)
Section Oper.
Variable F : Type.
Variables (zero one : F) (add mul sub : F -> F -> F) (opp : F -> F).
Variable Fth : ring_theory zero one add mul sub opp (@eq F).
Add Ring FringRepart : Fth.
Notation sumF := (sumf F zero add).
Notation denL := (den_line F zero add).
Notation view := (rview F).

Variable rs : list view.
Variable tm : list nat.
Variables sched tau : list (list nat).
Notation n := (length (gmat rs)).
Notation P := (length rs).
Hypothesis Hwf : pm_wf rs.
Hypothesis Htm : forall g, g < n -> tmv tm g < P.
Hypothesis Hsched : forall p, p < P -> Permutation (nth p sched []) (seq 0 P).
Hypothesis Htau : forall p, p < P -> Permutation (nth p tau []) (seq 0 P).
Notation st := (stage1 rs tm sched).
Notation out := (repartition rs tm sched tau).

Definition invl : list nat := flat_map ro_nlr out.

Lemma invl_eq : invl = inv F rs tm sched.
Proof.
  unfold invl, repartition, build, inv. rewrite flat_map_map. simpl. rewrite st_len. reflexivity.
Qed.

Lemma gmat_out : gmat (map ro_view out) = flat_map (fun p => grows (new_view st tau p)) (seq 0 P).
Proof.
  unfold gmat, repartition, build. rewrite map_map, flat_map_map. simpl. rewrite st_len. reflexivity.
Qed.

Lemma den_line_renumber (ents : list (nat * F)) (f : nat -> nat) j' gj :
  (forall e, In e ents -> (f (fst e) =? j') = (fst e =? gj)) ->
  denL (map (fun e => (f (fst e), snd e)) ents) j' = denL ents gj.
Proof.
  intros H. unfold den_line. rewrite filter_map_comm, map_map. simpl.
  rewrite (filter_ext_in _ (fun p => fst p =? gj)) by exact H. reflexivity.
Qed.

Lemma map_via_nth {A B} (f : A -> B) (l : list A) d :
  map f l = map (fun i => f (nth i l d)) (seq 0 (length l)).
Proof. rewrite <- (map_nth_seq l d) at 1. rewrite map_map. reflexivity. Qed.

Definition rowrel (newrow : list (nat * F)) (g : nat) : Prop :=
  forall j', j' < n -> denL newrow j' = denL (nth g (gmat rs) []) (nth j' invl 0).

Lemma rows_related : Forall2 rowrel (gmat (map ro_view out)) invl.
Proof.
  rewrite gmat_out. unfold rowrel. rewrite invl_eq. unfold inv.
  apply Forall2_flat_map. intros p Hp. apply in_seq in Hp. destruct Hp as [_ Hp]. simpl in Hp.
  unfold grows. rewrite new_view_n. unfold Repartition.nlr. rewrite (map_via_nth fst (RS F st p) (0, [])).
  apply Forall2_map_same. intros i Hi. apply in_seq in Hi. destruct Hi as [_ Hi]. simpl in Hi.
  intros j' Hj'.
  rewrite (den_line_perm F zero one add mul sub opp Fth _ _ j' (new_row_perm F rs tm sched tau p i Hi)).
  assert (Hin : In (nth i (RS F st p) (0, [])) (RS F st p)) by (apply nth_In; exact Hi).
  destruct (nth i (RS F st p) (0, [])) as [g ents] eqn:E. simpl.
  rewrite (RS_spec F rs tm Hwf sched Hsched p Hp) in Hin.
  apply (canon_rows_in F rs tm Hwf) in Hin. destruct Hin as [Hg [Ht ->]].
  apply den_line_renumber. intros e He.
  apply (Rn_eqb F rs tm Hwf Htm sched Hsched); [|exact Hj'].
  eapply (ren_Rn F rs tm Hwf Htm sched tau Hsched Htau p g); [exact Hp|exact Hg|exact Ht|].
  apply in_map. exact He.
Qed.

Theorem invl_perm : Permutation invl (seq 0 n).
Proof. rewrite invl_eq. apply inv_perm; assumption. Qed.

Theorem out_rows : length (gmat (map ro_view out)) = n.
Proof. rewrite (Forall2_length' _ _ _ rows_related), invl_eq. apply inv_len; assumption. Qed.

Notation gdenF := (gden F zero add).

Theorem repart_operator i' j' :
  i' < n -> j' < n -> gdenF (map ro_view out) i' j' = gdenF rs (nth i' invl 0) (nth j' invl 0).
Proof.
  intros Hi Hj. unfold gden.
  apply (Forall2_nth rowrel _ _ i' [] 0 rows_related); [rewrite out_rows; exact Hi|exact Hj].
Qed.

(* pi: old id -> new id, read off new_local_rows *)
Definition pi (g : nat) : nat := index_dflt g invl.

Lemma pi_spec g : g < n -> pi g < n /\ nth (pi g) invl 0 = g.
Proof.
  intros Hg. assert (Hin : In g invl) by (apply (Permutation_in _ (Permutation_sym invl_perm)), in_seq; lia).
  destruct (index_dflt_in g invl Hin) as [H1 H2]. unfold pi. split; [|exact H2].
  rewrite (Permutation_length invl_perm), seq_length in H1. exact H1.
Qed.

Lemma pi_inv k : k < n -> pi (nth k invl 0) = k.
Proof.
  intros Hk.
  assert (Hl : length invl = n) by (rewrite (Permutation_length invl_perm); apply seq_length).
  assert (Hg : nth k invl 0 < n).
  { assert (H : In (nth k invl 0) invl) by (apply nth_In; lia). apply (Permutation_in _ invl_perm), in_seq in H. lia. }
  destruct (pi_spec _ Hg) as [H1 H2].
  apply (proj1 (NoDup_nth invl 0)); try lia.
  eapply Permutation_NoDup; [apply Permutation_sym, invl_perm|apply seq_NoDup].
Qed.

Theorem repart_operator_pi i j :
  i < n -> j < n -> gdenF (map ro_view out) (pi i) (pi j) = gdenF rs i j.
Proof.
  intros Hi Hj. destruct (pi_spec i Hi) as [A1 A2], (pi_spec j Hj) as [B1 B2].
  rewrite repart_operator by assumption. rewrite A2, B2. reflexivity.
Qed.

Theorem pi_bijection :
  (forall g, g < n -> pi g < n) /\ (forall g, g < n -> nth (pi g) invl 0 = g) /\
  (forall k, k < n -> nth k invl 0 < n /\ pi (nth k invl 0) = k).
Proof.
  split; [intros; apply pi_spec; assumption|]. split; [intros; apply pi_spec; assumption|].
  intros k Hk. split; [|apply pi_inv; exact Hk].
  assert (Hl : length invl = n) by (rewrite (Permutation_length invl_perm); apply seq_length).
  assert (H : In (nth k invl 0) invl) by (apply nth_In; lia). apply (Permutation_in _ invl_perm), in_seq in H. lia.
Qed.

(* A' (pi x) = pi (A x):  (pi x)[k] = x[invl[k]] *)
Notation gmvF := (gmv F zero add mul).
Definition permute (x : list F) : list F := map (fun k => nth (nth k invl 0) x zero) (seq 0 n).

Theorem repart_product x i' :
  i' < n -> gmvF (map ro_view out) (permute x) i' = gmvF rs x (nth i' invl 0).
Proof.
  intros Hi. unfold gmv. rewrite out_rows.
  assert (Hl : length invl = n) by (rewrite (Permutation_length invl_perm); apply seq_length).
  rewrite (sumf_map_ext F zero add _ (fun j' => mul (gdenF rs (nth i' invl 0) (nth j' invl 0)) (nth (nth j' invl 0) x zero))).
  - rewrite <- Hl at 1. rewrite <- (map_map (fun j' => nth j' invl 0) (fun g => mul (gdenF rs (nth i' invl 0) g) (nth g x zero))).
    rewrite map_nth_seq. apply (sumf_perm F zero one add mul sub opp Fth). apply Permutation_map. exact invl_perm.
  - intros j' Hj. apply in_seq in Hj. destruct Hj as [_ Hj]. simpl in Hj.
    rewrite repart_operator by assumption. f_equal.
    unfold permute. rewrite nth_map_seq by exact Hj. reflexivity.
Qed.

(* the new blocks are the counts of the target map; rows inside a rank keep the order of their old ids *)
Theorem repart_blocks p :
  p < P ->
  ro_nlr (nth p out (mkRO F (dv) [] [] [])) = filter (fun g => tmv tm g =? p) (seq 0 n) /\
  rv_first (ro_view (nth p out (mkRO F (dv) [] [] []))) = length (filter (fun g => tmv tm g <? p) (seq 0 n)) /\
  rv_n (ro_view (nth p out (mkRO F (dv) [] [] []))) = length (filter (fun g => tmv tm g =? p) (seq 0 n)).
Proof.
  intros Hp. unfold repartition, build. rewrite st_len.
  rewrite (nth_map_in _ (seq 0 P) p 0) by (rewrite seq_length; exact Hp). rewrite seq_nth by exact Hp. simpl.
  rewrite new_view_n. split; [apply nlr_spec; assumption|]. split.
  - unfold nfirst. rewrite (flat_map_ext_in (Repartition.nlr F st) (fun q => filter (fun g => tmv tm g =? q) (seq 0 n))).
    + apply Permutation_length. apply bucket_perm.
    + intros q Hq. apply in_seq in Hq. apply nlr_spec; try assumption. lia.
  - rewrite <- (nlr_spec F rs tm Hwf sched Hsched p Hp). unfold Repartition.nlr. rewrite map_length. reflexivity.
Qed.

Lemma concat_as_flat_map' {A} (l : list (list A)) : concat l = flat_map (fun p => nth p l []) (seq 0 (length l)).
Proof.
  rewrite (flat_map_nth_seq (fun x => x) l []). rewrite flat_map_concat_map, map_id. reflexivity.
Qed.

Lemma pkg_valid_core (xs : list (list F)) r :
  r < P -> length xs = P -> (forall p, p < P -> length (nth p xs []) = length (nlr F st p)) ->
  exchange st tau zero xs r = map (fun c' => nth c' (concat xs) zero) (new_colmap F st tau r).
Proof.
  intros Hr Hl Hb.
  rewrite (exchange_spec F rs tm Hwf Htm sched tau Hsched Htau zero xs r Hr).
  rewrite (new_colmap_spec F rs tm Hwf Htm sched tau Hsched Htau r Hr), map_map.
  apply map_ext_in. intros x Hx.
  apply (OS_in F rs tm Hwf sched Hsched r x Hr) in Hx.
  destruct (cols_set_facts F rs tm Hwf Htm r x Hx) as [H1 [H2 [H3 H4]]].
  assert (Hin : In (fst x) (nlr F st (snd x))) by (apply nlr_in; auto).
  destruct (index_dflt_in _ _ Hin) as [Hk _].
  rewrite concat_as_flat_map', Hl.
  assert (E : nfirst F st (snd x) = length (flat_map (fun p => nth p xs []) (seq 0 (snd x)))).
  { unfold nfirst. rewrite !flat_map_length'. f_equal. apply map_ext_in. intros q Hq. apply in_seq in Hq.
    symmetry. apply Hb. lia. }
  rewrite E.
  rewrite <- (Hb _ H3) in Hk.
  destruct (nth_flat_map_seq (fun p => nth p xs []) P (snd x) _ zero H3 Hk) as [_ H]. rewrite H. reflexivity.
Qed.

(* ---- ParCSRMatrix::mult with the new matrix and its own package = the represented operator applied to x ---- *)
Lemma row_dot_sum (r : list (nat * F)) (x : list F) :
  row_dot F zero add mul r x = sumF (map (fun e => mul (snd e) (nth (fst e) x zero)) r).
Proof.
  unfold row_dot, xat.
  assert (G : forall acc, fold_left (fun a p => add a (mul (snd p) (nth (fst p) x zero))) r acc
                          = add acc (sumF (map (fun e => mul (snd e) (nth (fst e) x zero)) r))).
  { induction r as [|e r IH]; intros acc; simpl; [ring|]. rewrite IH. ring. }
  rewrite G. ring.
Qed.

Lemma row_sum_den (r : list (nat * F)) (X : list F) m :
  (forall e, In e r -> fst e < m) ->
  sumF (map (fun e => mul (snd e) (nth (fst e) X zero)) r) = sumF (map (fun j => mul (denL r j) (nth j X zero)) (seq 0 m)).
Proof.
  induction r as [|e r IH]; intros H.
  - simpl. rewrite (sumf_map_ext F zero add _ (fun _ => zero)).
    + rewrite (sumf_map_zero F zero one add mul sub opp Fth). reflexivity.
    + intros j _. unfold den_line. simpl. ring.
  - simpl. rewrite IH by (intros; apply H; right; assumption).
    rewrite (sumf_map_ext F zero add (fun j => mul (denL (e :: r) j) (nth j X zero))
               (fun j => add (mul (if fst e =? j then snd e else zero) (nth j X zero)) (mul (denL r j) (nth j X zero)))).
    + rewrite (sumf_map_add F zero one add mul sub opp Fth). f_equal.
      rewrite (sumf_single F zero one add mul sub opp Fth m (fst e)).
      * rewrite Nat.eqb_refl. reflexivity.
      * apply H. left. reflexivity.
      * intros j _ Hne. destruct (Nat.eqb_spec (fst e) j); [congruence|ring].
    + intros j _. unfold den_line. simpl. destruct (fst e =? j); simpl; ring.
Qed.

Notation viewsF := (map (@ro_view F) out).

Lemma gmat_out_nth p i : p < P -> i < rv_n (new_view st tau p) ->
  nth (rv_first (new_view st tau p) + i) (gmat viewsF) [] = grow (new_view st tau p) i.
Proof.
  intros Hp Hi. rewrite gmat_out.
  assert (E : rv_first (new_view st tau p) = length (flat_map (fun q => grows (new_view st tau q)) (seq 0 p))).
  { simpl. unfold Repartition.nfirst. rewrite !flat_map_length'. f_equal. apply map_ext. intros q.
    unfold grows. rewrite map_length, seq_length, new_view_n. unfold Repartition.nlr. rewrite map_length. reflexivity. }
  rewrite E.
  destruct (nth_flat_map_seq (fun q => grows (new_view st tau q)) P p i [] Hp) as [_ H].
  - unfold grows. rewrite map_length, seq_length. exact Hi.
  - rewrite H. unfold grows. rewrite nth_map_seq by exact Hi. reflexivity.
Qed.

Theorem par_mult_correct (xs : list (list F)) p i :
  length xs = P -> (forall q, q < P -> length (nth q xs []) = rv_n (new_view st tau q)) ->
  p < P -> i < rv_n (new_view st tau p) ->
  nth i (nth p (par_mult F zero add mul rs tm sched tau xs) []) zero =
  gmvF viewsF (concat xs) (rv_first (new_view st tau p) + i).
Proof.
  intros Hl Hb Hp Hi.
  assert (Hwf' : pm_wf viewsF) by (apply (out_wf F rs tm Hwf Htm sched tau Hsched Htau)).
  assert (Hlen : length (gmat viewsF) = n) by (apply (gmat_views_len F rs tm Hwf Htm sched tau Hsched)).
  assert (Hb' : forall q, q < P -> length (nth q xs []) = length (nlr F st q)).
  { intros q Hq. rewrite Hb by exact Hq. rewrite new_view_n. unfold Repartition.nlr. rewrite map_length. reflexivity. }
  unfold par_mult. rewrite nth_map_seq by exact Hp. cbv zeta. rewrite nth_map_seq by exact Hi.
  unfold gmv, gden. rewrite gmat_out_nth by assumption. rewrite Hlen.
  rewrite <- (row_sum_den (grow (new_view st tau p) i) (concat xs) n).
  2:{ intros e He. rewrite <- Hlen. apply (wf_cols F viewsF (rv_first (new_view st tau p) + i) e Hwf').
      - rewrite Hlen. rewrite new_view_n in Hi.
        assert (Hi' : i < length (nlr F st p)) by (unfold Repartition.nlr; rewrite map_length; exact Hi).
        apply (Rn_block F rs tm Hwf Htm sched Hsched p i Hp Hi').
      - rewrite gmat_out_nth by assumption. exact He. }
  rewrite !row_dot_sum.
  rewrite (pkg_valid_core xs p Hp Hl Hb').
  unfold grow, grow_of. rewrite map_app, (sumf_app F zero one add mul sub opp Fth), !map_map. simpl.
  assert (Hi2 : i < length (RS F st p)) by (rewrite <- (new_view_n F rs tm sched tau); exact Hi).
  f_equal; apply (sumf_map_ext F zero add); intros e He.
  - f_equal.
    assert (Hc : fst e < length (nth p xs [])).
    { rewrite Hb' by exact Hp. apply (on_bound F rs tm sched tau p i e Hp Hi2 He). }
    rewrite concat_as_flat_map', Hl.
    assert (E : Repartition.nfirst F st p = length (flat_map (fun q => nth q xs []) (seq 0 p))).
    { unfold Repartition.nfirst. rewrite !flat_map_length'. f_equal. apply map_ext_in. intros q Hq. apply in_seq in Hq.
      symmetry. apply Hb'. lia. }
    rewrite E. destruct (nth_flat_map_seq (fun q => nth q xs []) P p (fst e) zero Hp Hc) as [_ H]. rewrite H. reflexivity.
  - f_equal.
    assert (Hc : fst e < length (new_colmap F st tau p)).
    { apply (off_bound F rs tm Hwf Htm sched tau Hsched Htau p i e Hp Hi2 He). }
    rewrite (nth_map_in _ _ (fst e) 0 zero) by exact Hc. reflexivity.
Qed.

End Oper.

(* ================= the package of the new matrix; independence of the second arrival order ================= *)
Section Pkg.
Variable T : Type.
Variable rs : list (rview T).
Variable tm : list nat.
Variables sched tau : list (list nat).
Notation n := (length (gmat rs)).
Notation P := (length rs).
Hypothesis Hwf : pm_wf rs.
Hypothesis Htm : forall g, g < n -> tmv tm g < P.
Hypothesis Hsched : forall p, p < P -> Permutation (nth p sched []) (seq 0 P).
Hypothesis Htau : forall p, p < P -> Permutation (nth p tau []) (seq 0 P).
Notation st := (stage1 rs tm sched).

Lemma concat_as_flat_map {A} (l : list (list A)) : concat l = flat_map (fun p => nth p l []) (seq 0 (length l)).
Proof.
  rewrite (flat_map_nth_seq (fun x => x) l []). rewrite flat_map_concat_map, map_id. reflexivity.
Qed.

(* CommPkg::communicate with the package built by make_contiguous returns, for every off-process column of
   the new matrix, the entry of the global vector at that column's (new) global index *)
Theorem pkg_valid {X} (dX : X) (vals : list (list X)) r :
  r < P -> length vals = P -> (forall p, p < P -> length (nth p vals []) = length (nlr T st p)) ->
  exchange st tau dX vals r = map (fun c' => nth c' (concat vals) dX) (new_colmap T st tau r).
Proof.
  intros Hr Hl Hb.
  rewrite (exchange_spec T rs tm Hwf Htm sched tau Hsched Htau dX vals r Hr).
  rewrite (new_colmap_spec T rs tm Hwf Htm sched tau Hsched Htau r Hr), map_map.
  apply map_ext_in. intros x Hx.
  apply (OS_in T rs tm Hwf sched Hsched r x Hr) in Hx.
  destruct (cols_set_facts T rs tm Hwf Htm r x Hx) as [H1 [H2 [H3 H4]]].
  assert (Hin : In (fst x) (nlr T st (snd x))) by (apply nlr_in; auto).
  destruct (index_dflt_in _ _ Hin) as [Hk _].
  rewrite concat_as_flat_map, Hl.
  assert (E : nfirst T st (snd x) = length (flat_map (fun p => nth p vals []) (seq 0 (snd x)))).
  { unfold nfirst. rewrite !flat_map_length'. f_equal. apply map_ext_in. intros q Hq. apply in_seq in Hq.
    symmetry. apply Hb. lia. }
  rewrite E.
  rewrite <- (Hb _ H3) in Hk.
  destruct (nth_flat_map_seq (fun p => nth p vals []) P (snd x) _ dX H3 Hk) as [_ H]. rewrite H. reflexivity.
Qed.

Theorem tau_indep tau' p :
  (forall p, p < P -> Permutation (nth p tau' []) (seq 0 P)) -> p < P ->
  new_view st tau p = new_view st tau' p /\ Permutation (pk_send T st tau p) (pk_send T st tau' p).
Proof.
  intros Htau' Hp. split.
  - unfold new_view. f_equal.
    rewrite (new_colmap_spec T rs tm Hwf Htm sched tau Hsched Htau p Hp).
    rewrite (new_colmap_spec T rs tm Hwf Htm sched tau' Hsched Htau' p Hp). reflexivity.
  - unfold pk_send, inbox. apply Permutation_map, Permutation_flat_map.
    rewrite (Htau p Hp), (Htau' p Hp). reflexivity.
Qed.

Theorem repartition_tau_indep tau' :
  (forall p, p < P -> Permutation (nth p tau' []) (seq 0 P)) ->
  Forall2 (fun a b => ro_view a = ro_view b /\ ro_nlr a = ro_nlr b /\ ro_recv a = ro_recv b /\
                      Permutation (ro_send a) (ro_send b))
          (repartition rs tm sched tau) (repartition rs tm sched tau').
Proof.
  intros Htau'. unfold repartition, build. apply Forall2_map_same. intros p Hp. apply in_seq in Hp.
  rewrite st_len in Hp. simpl.
  destruct (tau_indep tau' p Htau') as [H1 H2]; [lia|]. auto.
Qed.

End Pkg.
