(* Proofs about the scaling model (DiagScale.v): D A D / D b, D' A / D' b entrywise on the represented operator,
   what the scales are, unscaling. *)
From Coq Require Import Field.
From Raptor Require Import Base.Sums Sparse.Defs Sparse.ConvertProofs Repart.Repartition Repart.RUtil
     Repart.RepartitionProofs Repart.DiagScale.

Section Blocks.
Variable T : Type.
Notation view := (rview T).
Variable rs : list view.
Notation P := (length rs).
Notation v_ q := (nth q rs dv).

(* offset of rank q's block in any per-rank list whose block lengths are the local sizes *)
Definition off (q : nat) : nat := list_sum (map (fun q' => rv_n (v_ q')) (seq 0 q)).

Lemma off_flat {A} (f : nat -> list A) q :
  (forall q', q' < q -> length (f q') = rv_n (v_ q')) -> length (flat_map f (seq 0 q)) = off q.
Proof.
  intros H. rewrite flat_map_length'. unfold off. f_equal. apply map_ext_in. intros q' Hq. apply in_seq in Hq.
  apply H. lia.
Qed.

Lemma gmat_seq : gmat rs = flat_map (fun q => grows (v_ q)) (seq 0 P).
Proof. unfold gmat. rewrite (flat_map_nth_seq (@grows T) rs dv). reflexivity. Qed.

Lemma grows_len (v : view) : length (grows v) = rv_n v.
Proof. unfold grows. rewrite map_length, seq_length. reflexivity. Qed.

Lemma gmat_len : length (gmat rs) = off P.
Proof. rewrite gmat_seq. apply off_flat. intros; apply grows_len. Qed.

(* block access for any per-rank family with the right block lengths *)
Lemma block_nth {A} (f : nat -> list A) q k d :
  (forall q', q' < P -> length (f q') = rv_n (v_ q')) -> q < P -> k < rv_n (v_ q) ->
  off q + k < off P /\ nth (off q + k) (flat_map f (seq 0 P)) d = nth k (f q) d.
Proof.
  intros H Hq Hk.
  rewrite <- (off_flat f q) by (intros; apply H; lia).
  rewrite <- (off_flat f P) by (intros; apply H; lia).
  apply nth_flat_map_seq; [exact Hq|rewrite H by exact Hq; exact Hk].
Qed.

Lemma locate i : i < length (gmat rs) -> exists q k, q < P /\ k < rv_n (v_ q) /\ i = off q + k.
Proof.
  rewrite gmat_seq. intros Hi. destruct (flat_map_seq_locate _ _ _ Hi) as [q [k [Hq [Hk E]]]].
  rewrite grows_len in Hk. rewrite off_flat in E by (intros; apply grows_len).
  exists q, k. auto.
Qed.

Lemma firsts_off s (l : list view) q :
  firsts_ok s l -> q < length l ->
  rv_first (nth q l dv) = s + list_sum (map (fun q' => rv_n (nth q' l dv)) (seq 0 q)).
Proof.
  revert s q; induction l as [|v l IH]; simpl; intros s q H Hq; [lia|].
  destruct H as [Hf Hr]. destruct q as [|q]; [simpl; lia|].
  change (nth (S q) (v :: l) dv) with (nth q l dv). rewrite (IH _ q Hr) by lia.
  cbn [seq map]. rewrite <- seq_shift, map_map. simpl. lia.
Qed.

Lemma first_off q : firsts_ok 0 rs -> q < P -> rv_first (v_ q) = off q.
Proof. intros H Hq. rewrite (firsts_off 0 rs q H Hq). reflexivity. Qed.

Lemma gmat_nth q k : q < P -> k < rv_n (v_ q) -> nth (off q + k) (gmat rs) [] = grow (v_ q) k.
Proof.
  intros Hq Hk. rewrite gmat_seq.
  destruct (block_nth (fun q => grows (v_ q)) q k [] (fun q' _ => grows_len (v_ q')) Hq Hk) as [_ H].
  rewrite H. unfold grows. rewrite nth_map_seq by exact Hk. reflexivity.
Qed.
End Blocks.

Declare Scope c20F_scope.
Delimit Scope c20F_scope with Fs.

Section ScaleProofs.
Variable F : Type.
Variables (zero one : F) (add mul sub : F -> F -> F) (opp : F -> F) (div : F -> F -> F) (inv : F -> F).
Variable Ffield : field_theory zero one add mul sub opp div inv (@eq F).
Let Fth : ring_theory zero one add mul sub opp (@eq F) := F_R Ffield.
Add Field FfieldScale : Ffield.
Variables (sqrt abs : F -> F).

Notation "x + y" := (add x y) : c20F_scope. Notation "x * y" := (mul x y) : c20F_scope.
Notation sumF := (sumf F zero add).
Notation denL := (den_line F zero add).
Notation gdenF := (gden F zero add).
Notation gmvF := (gmv F zero add mul).
Notation view := (rview F).
Notation row := (list (nat * F)).

Variable rs : list view.
Notation P := (length rs).
Notation n := (length (gmat rs)).
Notation v_ q := (nth q rs dv).
Notation off := (off F rs).
Hypothesis Hwf : pm_wf rs.

Lemma moved_len (v : view) : length (moved F v) = rv_n v.
Proof. unfold moved. rewrite map_length. unfold indexed. apply indexed_from_length. Qed.

Lemma moved_nth (v : view) k : k < rv_n v -> nth k (moved F v) [] = move_diag_line k (nth k (rv_on v) []).
Proof. intros Hk. unfold moved. rewrite (nth_map_indexed _ (rv_on v) k []) by exact Hk. reflexivity. Qed.

Lemma moved_perm (v : view) k : Permutation (nth k (moved F v) []) (nth k (rv_on v) []).
Proof.
  destruct (Nat.lt_ge_cases k (rv_n v)) as [Hk|Hk].
  - rewrite moved_nth by exact Hk. apply move_diag_line_perm.
  - rewrite !nth_overflow; [reflexivity|exact Hk|rewrite moved_len; exact Hk].
Qed.

(* den of a row whose values are multiplied by a weight that is constant on the entries hitting column j *)
Lemma den_line_weighted (l : row) (gcol : nat -> nat) (w : nat -> F) j wj :
  (forall e, In e l -> gcol (fst e) = j -> w (fst e) = wj) ->
  denL (map (fun e => (gcol (fst e), mul (snd e) (w (fst e)))) l) j = mul (denL (map (fun e => (gcol (fst e), snd e)) l) j) wj.
Proof.
  intros H. unfold den_line. rewrite !filter_map_comm, !map_map. simpl.
  rewrite <- (sumf_map_mul_r F zero one add mul sub opp Fth).
  apply (sumf_map_ext F zero add). intros e He. apply filter_In in He. destruct He as [He Hb].
  apply Nat.eqb_eq in Hb. rewrite (H e He Hb). reflexivity.
Qed.

Lemma den_line_map_perm (l l' : row) (g : nat * F -> nat * F) j :
  Permutation l l' -> denL (map g l) j = denL (map g l') j.
Proof. intros Hp. apply (den_line_perm F zero one add mul sub opp Fth). apply Permutation_map. exact Hp. Qed.

(* a generic scaled view: on entries (c, v) -> v * (s * wl c), off entries (k, v) -> v * (s * wh k) *)
Lemma grow_scaled_den (v : view) (on' : list row) k (s : F) (wl wh : nat -> F) (d : list F) j :
  firsts_ok 0 rs -> In v rs -> k < rv_n v ->
  Permutation (nth k on' []) (nth k (rv_on v) []) ->
  rv_wf n v ->
  (forall c, c < rv_n v -> wl c = nth (rv_first v + c) d zero) ->
  (forall k', k' < length (rv_colmap v) -> wh k' = nth (nth k' (rv_colmap v) 0) d zero) ->
  denL (grow_of (rv_first v) (rv_colmap v)
          (map (fun e => (fst e, mul (snd e) (mul s (wl (fst e))))) (nth k on' []))
          (map (fun e => (fst e, mul (snd e) (mul s (wh (fst e))))) (nth k (rv_off v) []))) j
  = mul (denL (grow v k) j) (mul s (nth j d zero)).
Proof.
  intros Hf Hv Hk Hperm [W1 [W2 [W3 W4]]] Hl Hh.
  unfold grow, grow_of. rewrite !(den_line_app F zero one add mul sub opp Fth), !map_map. simpl.
  rewrite (den_line_weighted (nth k on' []) (fun c => rv_first v + c) (fun c => mul s (wl c)) j (mul s (nth j d zero))).
  - rewrite (den_line_weighted (nth k (rv_off v) []) (fun k' => nth k' (rv_colmap v) 0) (fun k' => mul s (wh k')) j (mul s (nth j d zero))).
    + rewrite (den_line_map_perm _ _ (fun e => (rv_first v + fst e, snd e)) j Hperm). ring.
    + intros e He E. rewrite Hh, E; [reflexivity|].
      apply (W3 (nth k (rv_off v) [])); [apply nth_In; rewrite W1; exact Hk|exact He].
  - intros e He E. rewrite Hl, E; [reflexivity|].
    apply (W2 (nth k (rv_on v) [])); [apply nth_In; exact Hk|].
    eapply Permutation_in; [exact Hperm|exact He].
Qed.

(* ---------------- diagonally_scale ---------------- *)
Variables prevs bs : list (list F).
Hypothesis Hprev : forall q, q < P -> rv_n (v_ q) = 0 -> nth q prevs [] = [].
Notation S := (all_scales F zero inv sqrt abs rs prevs).
Definition dvec : list F := concat S.
Notation outD := (diagonally_scale F zero mul inv sqrt abs rs prevs bs).

Lemma S_nth q : q < P -> nth q S [] = ds_scales F zero inv sqrt abs (v_ q) (nth q prevs []).
Proof. intros Hq. unfold all_scales. rewrite nth_map_seq by exact Hq. reflexivity. Qed.

Lemma S_len q : q < P -> length (nth q S []) = rv_n (v_ q).
Proof.
  intros Hq. rewrite S_nth by exact Hq. unfold ds_scales. destruct (rv_n (v_ q) =? 0) eqn:E.
  - apply Nat.eqb_eq in E. rewrite (Hprev q Hq E), E. reflexivity.
  - rewrite map_length, seq_length. reflexivity.
Qed.

Lemma dvec_flat : dvec = flat_map (fun q => nth q S []) (seq 0 P).
Proof.
  unfold dvec. rewrite concat_as_flat_map. unfold all_scales at 2. rewrite map_length, seq_length. reflexivity.
Qed.

Lemma dvec_nth q k : q < P -> k < rv_n (v_ q) -> nth (off q + k) dvec zero = nth k (nth q S []) zero.
Proof.
  intros Hq Hk. rewrite dvec_flat.
  apply (block_nth F rs (fun q => nth q S []) q k zero); [intros; apply S_len; assumption|exact Hq|exact Hk].
Qed.

Definition viewD (q : nat) : view :=
  fst (ds_view F zero mul (v_ q) (nth q S []) (map (fun g => nth g dvec zero) (rv_colmap (v_ q))) (nth q bs [])).

Lemma outD_views : map fst outD = map viewD (seq 0 P).
Proof. unfold diagonally_scale. rewrite map_map. reflexivity. Qed.

Lemma viewD_n q : rv_n (viewD q) = rv_n (v_ q).
Proof. unfold viewD, ds_view, rv_n. simpl. rewrite map_length, seq_length. reflexivity. Qed.

Lemma gmatD : gmat (map fst outD) = flat_map (fun q => grows (viewD q)) (seq 0 P).
Proof. rewrite outD_views. unfold gmat. rewrite flat_map_map. reflexivity. Qed.

Lemma wf_view q : q < P -> rv_wf n (v_ q).
Proof. intros Hq. destruct Hwf as [_ H]. rewrite Forall_forall in H. apply H. apply nth_In. exact Hq. Qed.

(* A' = D A D entrywise, for on- and off-process entries alike *)
Theorem dscale_operator i j :
  i < n -> gdenF (map fst outD) i j = (gdenF rs i j * (nth i dvec zero * nth j dvec zero))%Fs.
Proof.
  intros Hi. destruct (locate F rs i Hi) as [q [k [Hq [Hk ->]]]].
  unfold gden. rewrite gmatD.
  destruct (block_nth F rs (fun q => grows (viewD q)) q k []) as [_ H];
    [intros; rewrite grows_len; apply viewD_n|exact Hq|exact Hk|]. rewrite H. clear H.
  rewrite (gmat_nth F rs q k Hq Hk). rewrite dvec_nth by assumption.
  unfold grows. rewrite nth_map_seq by (rewrite viewD_n; exact Hk).
  unfold grow, viewD, ds_view. simpl. rewrite !nth_map_seq by exact Hk.
  apply (grow_scaled_den (v_ q) (moved F (v_ q)) k (nth k (nth q S []) zero)
           (fun c => nth c (nth q S []) zero)
           (fun k' => nth k' (map (fun g => nth g dvec zero) (rv_colmap (v_ q))) zero) dvec j).
  - apply Hwf.
  - apply nth_In; exact Hq.
  - exact Hk.
  - apply moved_perm.
  - apply wf_view; exact Hq.
  - intros c Hc. rewrite (first_off F rs q (proj1 Hwf) Hq). symmetry. apply dvec_nth; assumption.
  - intros k' Hk'. rewrite (nth_map_in _ _ k' 0 zero) by exact Hk'. reflexivity.
Qed.

(* b' = D b *)
Theorem dscale_rhs q k :
  q < P -> k < rv_n (v_ q) ->
  nth k (snd (nth q outD (dv, []))) zero = (nth k (nth q bs []) zero * nth (off q + k) dvec zero)%Fs.
Proof.
  intros Hq Hk. unfold diagonally_scale.
  rewrite (nth_map_in _ (seq 0 P) q 0) by (rewrite seq_length; exact Hq). rewrite seq_nth by exact Hq. simpl.
  rewrite nth_map_seq by exact Hk. rewrite dvec_nth by assumption. reflexivity.
Qed.

(* ---- what the scales are ---- *)
Definition diag_stored (v : view) (k : nat) (a : F) : Prop :=
  filter (fun e => fst e =? k) (nth k (rv_on v) []) = [(k, a)].

Lemma extract_first_filter {X} (p : X -> bool) l d fl :
  filter p l = d :: fl -> exists rest, extract_first p l = Some (d, rest).
Proof.
  revert d fl; induction l as [|x l IH]; simpl; intros d fl H; [discriminate|].
  destruct (p x) eqn:E.
  - inversion H; subst. eexists; reflexivity.
  - destruct (IH d fl H) as [rest Hr]. rewrite Hr. eexists; reflexivity.
Qed.

Lemma first_at_nonempty (rows : list row) k e r :
  nth k rows [] = e :: r -> first_at F rows k = Some e.
Proof.
  unfold first_at. revert k; induction rows as [|x rows IH]; intros k H.
  - destruct k; discriminate.
  - destruct k; simpl in *.
    + rewrite H. reflexivity.
    + apply IH. exact H.
Qed.

Lemma first_at_diag (v : view) k a :
  k < rv_n v -> diag_stored v k a -> first_at F (moved F v) k = Some (k, a).
Proof.
  intros Hk Hd. unfold diag_stored in Hd.
  destruct (extract_first_filter _ _ _ _ Hd) as [rest Hr].
  eapply first_at_nonempty. rewrite moved_nth by exact Hk. unfold move_diag_line. rewrite Hr. reflexivity.
Qed.

Lemma extract_first_none {X} (p : X -> bool) l : filter p l = [] -> extract_first p l = None.
Proof.
  induction l as [|x l IH]; simpl; intros H; [reflexivity|].
  destruct (p x); [discriminate|]. rewrite IH by exact H. reflexivity.
Qed.

Lemma first_at_nodiag (v : view) k :
  k < rv_n v -> nth k (rv_on v) [] <> [] -> filter (fun e => fst e =? k) (nth k (rv_on v) []) = [] ->
  exists c a, first_at F (moved F v) k = Some (c, a) /\ c <> k.
Proof.
  intros Hk Hne Hf.
  destruct (nth k (rv_on v) []) as [|[c a] r] eqn:E; [congruence|].
  exists c, a. split.
  - eapply first_at_nonempty. rewrite moved_nth by exact Hk. unfold move_diag_line. rewrite E.
    rewrite extract_first_none by exact Hf. reflexivity.
  - simpl in Hf. destruct (Nat.eqb_spec c k); [discriminate|assumption].
Qed.

Theorem dscale_scale_diag q k a :
  q < P -> k < rv_n (v_ q) -> diag_stored (v_ q) k a ->
  nth (off q + k) dvec zero = inv (sqrt (abs a)).
Proof.
  intros Hq Hk Hd. rewrite dvec_nth by assumption. rewrite S_nth by exact Hq.
  unfold ds_scales. destruct (rv_n (v_ q) =? 0) eqn:E; [apply Nat.eqb_eq in E; lia|].
  rewrite nth_map_seq by exact Hk. rewrite (first_at_diag _ _ _ Hk Hd), Nat.eqb_refl. reflexivity.
Qed.

(* the code's behaviour when the first stored on-process entry of a row is not its diagonal: the scale is the
   (zero-initialised) previous content, so with a fresh row_scales vector row and column are wiped out *)
Theorem dscale_scale_nodiag q k :
  q < P -> k < rv_n (v_ q) -> nth q prevs [] = [] ->
  nth k (rv_on (v_ q)) [] <> [] -> filter (fun e => fst e =? k) (nth k (rv_on (v_ q)) []) = [] ->
  nth (off q + k) dvec zero = zero.
Proof.
  intros Hq Hk Hp Hne Hf. rewrite dvec_nth by assumption. rewrite S_nth by exact Hq.
  unfold ds_scales. destruct (rv_n (v_ q) =? 0) eqn:E; [apply Nat.eqb_eq in E; lia|].
  rewrite nth_map_seq by exact Hk.
  destruct (first_at_nodiag _ _ Hk Hne Hf) as [c [a [H1 H2]]]. rewrite H1.
  apply Nat.eqb_neq in H2. rewrite H2. rewrite Hp. unfold resize0. simpl.
  rewrite <- (repeat_length zero (rv_n (v_ q))) at 1. rewrite firstn_all. apply nth_repeat.
Qed.

(* the diagonal entry of the represented operator, when it is stored once and the halo columns are foreign *)
Definition halo_foreign (v : view) : Prop :=
  forall g, In g (rv_colmap v) -> ~ (rv_first v <= g < rv_first v + rv_n v).

Lemma gden_diag q k a :
  q < P -> k < rv_n (v_ q) -> diag_stored (v_ q) k a -> halo_foreign (v_ q) ->
  gdenF rs (off q + k) (off q + k) = a.
Proof.
  intros Hq Hk Hd Hh. unfold gden. rewrite (gmat_nth F rs q k Hq Hk).
  destruct (wf_view q Hq) as [W1 [W2 [W3 W4]]].
  unfold grow, grow_of. rewrite (den_line_app F zero one add mul sub opp Fth).
  rewrite (first_off F rs q (proj1 Hwf) Hq).
  unfold den_line at 1. rewrite filter_map_comm, map_map. simpl.
  rewrite (filter_ext _ (fun e => fst e =? k)) by (intros e; destruct (Nat.eqb_spec (off q + fst e) (off q + k)), (Nat.eqb_spec (fst e) k); try reflexivity; lia).
  unfold diag_stored in Hd. rewrite Hd. simpl.
  unfold den_line. rewrite filter_map_comm, filter_none; [simpl; ring|].
  intros e He. simpl. apply Nat.eqb_neq. intros E.
  assert (Hin : In (nth (fst e) (rv_colmap (v_ q)) 0) (rv_colmap (v_ q))).
  { apply nth_In. apply (W3 (nth k (rv_off (v_ q)) [])); [apply nth_In; rewrite W1; exact Hk|exact He]. }
  apply (Hh _ Hin). rewrite E, (first_off F rs q (proj1 Hwf) Hq). lia.
Qed.


Lemma outD_rows : length (gmat (map fst outD)) = n.
Proof.
  rewrite gmatD, (gmat_len F rs). apply off_flat. intros. rewrite grows_len. apply viewD_n.
Qed.

(* the scale of a row with a stored non-zero diagonal is invertible *)
Lemma scale_nonzero a :
  (abs a = a \/ abs a = opp a) -> mul (sqrt (abs a)) (sqrt (abs a)) = abs a ->
  a <> zero -> inv (sqrt (abs a)) <> zero.
Proof.
  intros abs_cases sqrt_abs Ha.
  assert (Hab : abs a <> zero).
  { destruct abs_cases as [E|E]; rewrite E; [exact Ha|].
    intros H. apply Ha. transitivity (opp (opp a)); [ring|rewrite H; ring]. }
  assert (Hs : sqrt (abs a) <> zero).
  { intros H. apply Hab. rewrite <- sqrt_abs, H. ring. }
  intros H. apply (F_1_neq_0 Ffield).
  transitivity (mul (inv (sqrt (abs a))) (sqrt (abs a))); [symmetry; apply (Finv_l Ffield); exact Hs|].
  rewrite H. ring.
Qed.

(* the scaled diagonal has modulus one:  (d a d)^2 = 1 *)
Lemma scaled_diag_unit a :
  (abs a = a \/ abs a = opp a) -> mul (sqrt (abs a)) (sqrt (abs a)) = abs a ->
  a <> zero ->
  let d := inv (sqrt (abs a)) in
  (mul (mul a (mul d d)) (mul a (mul d d))) = one.
Proof.
  intros abs_cases sqrt_abs Ha d.
  assert (Hab : abs a <> zero).
  { destruct abs_cases as [E|E]; rewrite E; [exact Ha|].
    intros H. apply Ha. transitivity (opp (opp a)); [ring|rewrite H; ring]. }
  assert (Hs : sqrt (abs a) <> zero).
  { intros H. apply Hab. rewrite <- sqrt_abs, H. ring. }
  assert (Hd : mul (mul d d) (abs a) = one).
  { unfold d. rewrite <- sqrt_abs at 3. field. exact Hs. }
  assert (Hsq : mul a a = mul (abs a) (abs a)) by (destruct abs_cases as [E|E]; rewrite E; ring).
  transitivity (mul (mul (mul d d) (mul d d)) (mul a a)); [ring|]. rewrite Hsq.
  transitivity (mul (mul (mul d d) (abs a)) (mul (mul d d) (abs a))); [ring|]. rewrite Hd. ring.
Qed.

(* diagonally_unscale on rank q *)
Lemma unscale_nth q k (ys : list (list F)) :
  k < length (nth q ys []) ->
  nth k (diagonally_unscale F zero mul (nth q ys []) (nth q S [])) zero = mul (nth k (nth q ys []) zero) (nth k (nth q S []) zero).
Proof. intros Hk. unfold diagonally_unscale. rewrite nth_map_seq by exact Hk. reflexivity. Qed.

(* if y solves the scaled system, the unscaled vector solves the original one (rows with invertible scale) *)
Theorem dscale_unscale (y x b b' : list F) i :
  (forall j, j < n -> nth j x zero = mul (nth j y zero) (nth j dvec zero)) ->
  nth i b' zero = mul (nth i b zero) (nth i dvec zero) ->
  i < n -> nth i dvec zero <> zero ->
  gmvF (map fst outD) y i = nth i b' zero -> gmvF rs x i = nth i b zero.
Proof.
  intros Hx Hb Hi Hd Hsol. unfold gmv in *. rewrite outD_rows in Hsol.
  set (G := sumF (map (fun j => mul (gdenF rs i j) (nth j x zero)) (seq 0 n))).
  assert (E : sumF (map (fun j => mul (gdenF (map fst outD) i j) (nth j y zero)) (seq 0 n)) = mul (nth i dvec zero) G).
  { unfold G. rewrite <- (sumf_map_mul_l F zero one add mul sub opp Fth).
    apply (sumf_map_ext F zero add). intros j Hj. apply in_seq in Hj.
    rewrite dscale_operator by exact Hi. rewrite Hx by lia. ring. }
  rewrite E, Hb in Hsol.
  transitivity (mul (inv (nth i dvec zero)) (mul (nth i dvec zero) G)); [field; exact Hd|].
  rewrite Hsol. field. exact Hd.
Qed.

(* ---------------- row_scale ---------------- *)
Notation outR := (row_scale F zero mul inv rs bs).
Definition rvec : list F := flat_map (fun q => row_scale_scales F zero inv (v_ q)) (seq 0 P).
Definition viewR (q : nat) : view := fst (row_scale_view F zero mul inv (v_ q) (nth q bs [])).

Lemma rss_len q : length (row_scale_scales F zero inv (v_ q)) = rv_n (v_ q).
Proof. unfold row_scale_scales. rewrite map_length, seq_length. reflexivity. Qed.

Lemma rvec_nth q k : q < P -> k < rv_n (v_ q) ->
  nth (off q + k) rvec zero = nth k (row_scale_scales F zero inv (v_ q)) zero.
Proof.
  intros Hq Hk. apply (block_nth F rs (fun q => row_scale_scales F zero inv (v_ q)) q k zero);
    [intros; apply rss_len|exact Hq|exact Hk].
Qed.

Lemma viewR_n q : rv_n (viewR q) = rv_n (v_ q).
Proof. unfold viewR, row_scale_view, rv_n. simpl. rewrite map_length, seq_length. reflexivity. Qed.

Lemma gmatR : gmat (map fst outR) = flat_map (fun q => grows (viewR q)) (seq 0 P).
Proof. unfold row_scale. rewrite map_map. unfold gmat. rewrite flat_map_map. reflexivity. Qed.

Lemma grow_rowscaled_den (v : view) (on' : list row) k (s : F) j :
  Permutation (nth k on' []) (nth k (rv_on v) []) ->
  denL (grow_of (rv_first v) (rv_colmap v) (scale_row F mul s (nth k on' [])) (scale_row F mul s (nth k (rv_off v) []))) j
  = mul (denL (grow v k) j) s.
Proof.
  intros Hperm. unfold grow, grow_of, scale_row.
  rewrite !(den_line_app F zero one add mul sub opp Fth), !map_map. simpl.
  rewrite (den_line_weighted (nth k on' []) (fun c => rv_first v + c) (fun _ => s) j s) by reflexivity.
  rewrite (den_line_weighted (nth k (rv_off v) []) (fun k' => nth k' (rv_colmap v) 0) (fun _ => s) j s) by reflexivity.
  rewrite (den_line_map_perm _ _ (fun e => (rv_first v + fst e, snd e)) j Hperm). ring.
Qed.

(* A' = D' A entrywise, for on- and off-process entries alike *)
Theorem rscale_operator i j :
  i < n -> gdenF (map fst outR) i j = mul (gdenF rs i j) (nth i rvec zero).
Proof.
  intros Hi. destruct (locate F rs i Hi) as [q [k [Hq [Hk ->]]]].
  unfold gden. rewrite gmatR.
  destruct (block_nth F rs (fun q => grows (viewR q)) q k []) as [_ H];
    [intros; rewrite grows_len; apply viewR_n|exact Hq|exact Hk|]. rewrite H. clear H.
  rewrite (gmat_nth F rs q k Hq Hk). rewrite rvec_nth by assumption.
  unfold grows. rewrite nth_map_seq by (rewrite viewR_n; exact Hk).
  unfold grow, viewR, row_scale_view. simpl. rewrite !nth_map_seq by exact Hk.
  apply grow_rowscaled_den. apply moved_perm.
Qed.

Theorem rscale_rhs q k :
  q < P -> k < rv_n (v_ q) ->
  nth k (snd (nth q outR (dv, []))) zero = mul (nth k (nth q bs []) zero) (nth (off q + k) rvec zero).
Proof.
  intros Hq Hk. unfold row_scale.
  rewrite (nth_map_in _ (seq 0 P) q 0) by (rewrite seq_length; exact Hq). rewrite seq_nth by exact Hq. simpl.
  rewrite nth_map_seq by exact Hk. rewrite rvec_nth by assumption. reflexivity.
Qed.

Theorem rscale_scale_diag q k a :
  q < P -> k < rv_n (v_ q) -> diag_stored (v_ q) k a -> nth (off q + k) rvec zero = inv a.
Proof.
  intros Hq Hk Hd. rewrite rvec_nth by assumption. unfold row_scale_scales, rs_scale.
  rewrite nth_map_seq by exact Hk. rewrite (first_at_diag _ _ _ Hk Hd), Nat.eqb_refl. reflexivity.
Qed.

Theorem rscale_scale_nodiag q k :
  q < P -> k < rv_n (v_ q) ->
  nth k (rv_on (v_ q)) [] <> [] -> filter (fun e => fst e =? k) (nth k (rv_on (v_ q)) []) = [] ->
  nth (off q + k) rvec zero = zero.
Proof.
  intros Hq Hk Hne Hf. rewrite rvec_nth by assumption. unfold row_scale_scales, rs_scale.
  rewrite nth_map_seq by exact Hk.
  destruct (first_at_nodiag _ _ Hk Hne Hf) as [c [a [H1 H2]]]. rewrite H1.
  apply Nat.eqb_neq in H2. rewrite H2. reflexivity.
Qed.


(* ---- global (concatenated) forms ---- *)
Lemma concat_block (ls : list (list F)) q k :
  length ls = P -> (forall q, q < P -> length (nth q ls []) = rv_n (v_ q)) -> q < P -> k < rv_n (v_ q) ->
  nth (off q + k) (concat ls) zero = nth k (nth q ls []) zero.
Proof.
  intros Hl Hb Hq Hk. rewrite concat_as_flat_map, Hl.
  apply (block_nth F rs (fun q => nth q ls []) q k zero); assumption.
Qed.

Definition unscaled (ys : list (list F)) : list F :=
  concat (map (fun q => diagonally_unscale F zero mul (nth q ys []) (nth q S [])) (seq 0 P)).

Lemma unscaled_global (ys : list (list F)) j :
  length ys = P -> (forall q, q < P -> length (nth q ys []) = rv_n (v_ q)) -> j < n ->
  nth j (unscaled ys) zero = mul (nth j (concat ys) zero) (nth j dvec zero).
Proof.
  intros Hl Hb Hj. destruct (locate F rs j Hj) as [q [k [Hq [Hk ->]]]].
  rewrite (concat_block ys q k Hl Hb Hq Hk), dvec_nth by assumption.
  unfold unscaled. rewrite concat_block; try assumption.
  - rewrite nth_map_seq by exact Hq. apply unscale_nth. rewrite Hb by exact Hq. exact Hk.
  - rewrite map_length, seq_length. reflexivity.
  - intros q' Hq'. rewrite nth_map_seq by exact Hq'. unfold diagonally_unscale. rewrite map_length, seq_length.
    apply Hb. exact Hq'.
Qed.

Lemma outD_len : length outD = P.
Proof. unfold diagonally_scale. rewrite map_length, seq_length. reflexivity. Qed.

Lemma dscale_rhs_global i :
  length bs = P -> (forall q, q < P -> length (nth q bs []) = rv_n (v_ q)) -> i < n ->
  nth i (concat (map snd outD)) zero = mul (nth i (concat bs) zero) (nth i dvec zero).
Proof.
  intros Hl Hb Hi. destruct (locate F rs i Hi) as [q [k [Hq [Hk ->]]]].
  rewrite (concat_block bs q k Hl Hb Hq Hk).
  rewrite concat_block; try assumption.
  - rewrite (nth_map_in _ outD q (dv, []) []) by (rewrite outD_len; exact Hq). apply dscale_rhs; assumption.
  - rewrite map_length. apply outD_len.
  - intros q' Hq'. rewrite (nth_map_in _ outD q' (dv, []) []) by (rewrite outD_len; exact Hq').
    unfold diagonally_scale. rewrite (nth_map_in _ (seq 0 P) q' 0) by (rewrite seq_length; exact Hq').
    rewrite seq_nth by exact Hq'. simpl. rewrite map_length, seq_length. reflexivity.
Qed.

Theorem dscale_unscale_model (ys : list (list F)) i :
  length ys = P -> (forall q, q < P -> length (nth q ys []) = rv_n (v_ q)) ->
  length bs = P -> (forall q, q < P -> length (nth q bs []) = rv_n (v_ q)) ->
  i < n -> nth i dvec zero <> zero ->
  gmvF (map fst outD) (concat ys) i = nth i (concat (map snd outD)) zero ->
  gmvF rs (unscaled ys) i = nth i (concat bs) zero.
Proof.
  intros Hl Hb Hl' Hb' Hi Hd Hsol.
  apply (dscale_unscale (concat ys) (unscaled ys) (concat bs) (concat (map snd outD)) i); try assumption.
  - intros j Hj. apply unscaled_global; assumption.
  - apply dscale_rhs_global; assumption.
Qed.

Lemma outR_len : length outR = P.
Proof. unfold row_scale. rewrite map_length, seq_length. reflexivity. Qed.

Lemma rscale_rhs_global i :
  length bs = P -> (forall q, q < P -> length (nth q bs []) = rv_n (v_ q)) -> i < n ->
  nth i (concat (map snd outR)) zero = mul (nth i (concat bs) zero) (nth i rvec zero).
Proof.
  intros Hl Hb Hi. destruct (locate F rs i Hi) as [q [k [Hq [Hk ->]]]].
  rewrite (concat_block bs q k Hl Hb Hq Hk).
  rewrite concat_block; try assumption.
  - rewrite (nth_map_in _ outR q (dv, []) []) by (rewrite outR_len; exact Hq). apply rscale_rhs; assumption.
  - rewrite map_length. apply outR_len.
  - intros q' Hq'. rewrite (nth_map_in _ outR q' (dv, []) []) by (rewrite outR_len; exact Hq').
    unfold row_scale. rewrite (nth_map_in _ (seq 0 P) q' 0) by (rewrite seq_length; exact Hq').
    rewrite seq_nth by exact Hq'. simpl. rewrite map_length, seq_length. reflexivity.
Qed.

(* the scales in terms of the represented operator *)
Theorem dscale_scale_value q k a :
  q < P -> k < rv_n (v_ q) -> diag_stored (v_ q) k a -> halo_foreign (v_ q) ->
  nth (off q + k) dvec zero = inv (sqrt (abs (gdenF rs (off q + k) (off q + k)))).
Proof. intros Hq Hk Hd Hh. rewrite (gden_diag q k a) by assumption. apply dscale_scale_diag; assumption. Qed.

Theorem rscale_scale_value q k a :
  q < P -> k < rv_n (v_ q) -> diag_stored (v_ q) k a -> halo_foreign (v_ q) ->
  nth (off q + k) rvec zero = inv (gdenF rs (off q + k) (off q + k)).
Proof. intros Hq Hk Hd Hh. rewrite (gden_diag q k a) by assumption. apply rscale_scale_diag; assumption. Qed.

End ScaleProofs.
