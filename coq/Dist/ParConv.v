(* Distributed conversions, transpose and sums (core/par_matrix.cpp: default_copy_helper / to_ParCSR / to_ParCSC /
   to_ParCOO, ParCSRMatrix::transpose, ParMatrix::finalize + condense_off_proc; util/linalg/par_add.cpp) as pure
   functions over the list of rank states. *)
From Coq Require Import List Arith Lia Bool.
Import ListNotations.
From Raptor Require Import Base.Sums Sparse.Defs Dist.Comm Dist.ParMat.

Section ParConv.
Variable F : Type.
Variables (zero : F) (add : F -> F -> F) (opp : F -> F).
Variable small : F -> bool.

(* the global operator of one rank from the denotations of its two blocks (any storage format) *)
Definition gden_of (don doff : nat -> nat -> F) (fc nc : nat) (cm : list nat) (li j : nat) : F :=
  add (if (fc <=? j) && (j <? fc + nc) then don li (j - fc) else zero)
      (sumf F zero add (map (fun kc => if snd kc =? j then doff li (fst kc) else zero) (indexed cm))).

(* ParCOO / ParCSC rank states: the same maps, blocks in the other formats *)
Record rank_coo := mkRC { rc_fr : nat; rc_nr : nat; rc_fc : nat; rc_nc : nat;
                          rc_on : coo F; rc_off : coo F; rc_colmap : list nat }.
Record rank_csc := mkRK { rk_fr : nat; rk_nr : nat; rk_fc : nat; rk_nc : nat;
                          rk_on : csc F; rk_off : csc F; rk_colmap : list nat }.
Definition gden_coo (r : rank_coo) :=
  gden_of (den_coo F zero add (rc_on r)) (den_coo F zero add (rc_off r)) (rc_fc r) (rc_nc r) (rc_colmap r).
Definition gden_csc (r : rank_csc) :=
  gden_of (den_csc F zero add (rk_on r)) (den_csc F zero add (rk_off r)) (rk_fc r) (rk_nc r) (rk_colmap r).

(* default_copy_helper copies the maps; the two blocks are converted separately *)
Definition par_csr_to_coo (r : rank_state F) : rank_coo :=
  mkRC (rs_fr r) (rs_nr r) (rs_fc r) (rs_nc r) (csr_to_coo (rs_on r)) (csr_to_coo (rs_off r)) (rs_colmap r).
Definition par_csr_to_csc (r : rank_state F) : rank_csc :=
  mkRK (rs_fr r) (rs_nr r) (rs_fc r) (rs_nc r) (csr_to_csc (rs_on r)) (csr_to_csc (rs_off r)) (rs_colmap r).
Definition par_csr_to_csr (r : rank_state F) : rank_state F :=
  mkRS (rs_fr r) (rs_nr r) (rs_fc r) (rs_nc r) (csr_to_csr (rs_on r)) (csr_to_csr (rs_off r)) (rs_colmap r).
Definition par_coo_to_csr (r : rank_coo) : rank_state F :=
  mkRS (rc_fr r) (rc_nr r) (rc_fc r) (rc_nc r) (coo_to_csr (rc_on r)) (coo_to_csr (rc_off r)) (rc_colmap r).
Definition par_coo_to_csc (r : rank_coo) : rank_csc :=
  mkRK (rc_fr r) (rc_nr r) (rc_fc r) (rc_nc r) (coo_to_csc (rc_on r)) (coo_to_csc (rc_off r)) (rc_colmap r).
Definition par_coo_to_coo (r : rank_coo) : rank_coo :=
  mkRC (rc_fr r) (rc_nr r) (rc_fc r) (rc_nc r) (coo_to_coo (rc_on r)) (coo_to_coo (rc_off r)) (rc_colmap r).
Definition par_csc_to_csr (r : rank_csc) : rank_state F :=
  mkRS (rk_fr r) (rk_nr r) (rk_fc r) (rk_nc r) (csc_to_csr (rk_on r)) (csc_to_csr (rk_off r)) (rk_colmap r).
Definition par_csc_to_coo (r : rank_csc) : rank_coo :=
  mkRC (rk_fr r) (rk_nr r) (rk_fc r) (rk_nc r) (csc_to_coo (rk_on r)) (csc_to_coo (rk_off r)) (rk_colmap r).
Definition par_csc_to_csc (r : rank_csc) : rank_csc :=
  mkRK (rk_fr r) (rk_nr r) (rk_fc r) (rk_nc r) (csc_to_csc (rk_on r)) (csc_to_csc (rk_off r)) (rk_colmap r).

(* ---- ParMatrix::finalize on a freshly built pair of blocks: `offg` carries GLOBAL column ids.
   sort + remove_duplicates on both blocks, then condense_off_proc: the column map is the sorted set of the
   columns that remain and the block is renumbered through it ---- *)
Definition renum_line (cm : list nat) (r : list (nat * F)) : list (nat * F) :=
  map (fun p => (index_of (fst p) cm, snd p)) r.
Definition finalize (fr nr fc nc : nat) (on offg : csr F) : rank_state F :=
  let on' := csr_remove_duplicates F add small on in
  let off' := csr_remove_duplicates F add small offg in
  let cm := sort_uniq (flat_map (map fst) (csr_rows off')) in
  mkRS fr nr fc nc on' (mkCsr nr (length cm) (map (renum_line cm) (csr_rows off'))) cm.

(* ---- ParCSRMatrix::transpose ----
   rank p packs, for every column-map slot, the column of off_proc (CSC) with global row ids; the segment of
   slots owned by q travels to q (the reverse direction of the vector package), where the received columns are
   appended to the rows send_data->indices names, in message order: the reverse exchange of Dist/Comm.v with
   payload "list of (global row, value)" and reduction "append". *)
Definition glob_line (fr : nat) (c : list (nat * F)) : list (nat * F) := map (fun p => (fr + fst p, snd p)) c.
Definition off_cols_global (rs : rank_state F) : list (list (nat * F)) :=
  map (glob_line (rs_fr rs)) (csc_cols (csr_to_csc (rs_off rs))).
Definition transpose_off (w : world) (st : list (rank_state F)) (q : nat) : list (list (nat * F)) :=
  reverse (fun (b a : list (nat * F)) => b ++ a) w (map off_cols_global st)
          (repeat [] (rs_nc (nth q st (mkRS 0 0 0 0 (mkCsr 0 0 []) (mkCsr 0 0 []) [])))) q.
Definition par_transpose (w : world) (st : list (rank_state F)) (q : nat) : rank_state F :=
  let rs := nth q st (mkRS 0 0 0 0 (mkCsr 0 0 []) (mkCsr 0 0 []) []) in
  finalize (rs_fc rs) (rs_nc rs) (rs_fr rs) (rs_nr rs)
           (csr_transpose (rs_on rs)) (mkCsr (rs_nc rs) 0 (transpose_off w st q)).

(* ---- ParCSRMatrix::add / subtract (rank-local): merge the two sorted column maps, renumber both off-process
   blocks into the merged map, concatenate the rows, sort + remove_duplicates (+ move_diag on the on-process
   block), then keep only the merged columns that are still used ---- *)
Fixpoint merge_u (a : list nat) : list nat -> list nat :=
  fix aux (b : list nat) : list nat :=
    match a, b with
    | [], _ => b
    | _, [] => a
    | x :: a', y :: b' =>
        if x =? y then x :: merge_u a' b' else if x <? y then x :: merge_u a' b else y :: aux b'
    end.
Definition to_merged (cm m : list nat) (r : list (nat * F)) : list (nat * F) :=
  map (fun p => (index_of (nth (fst p) cm 0) m, snd p)) r.
Definition memb (x : nat) (l : list nat) : bool := existsb (Nat.eqb x) l.
Definition par_add_local (neg : bool) (A B : rank_state F) : rank_state F :=
  let m := merge_u (rs_colmap A) (rs_colmap B) in
  let sgn := fun r : list (nat * F) => if neg then neg_line F opp r else r in
  let on := csr_move_diag (csr_remove_duplicates F add small
              (mkCsr (rs_nr A) (rs_nc A) (zip_rows F (csr_rows (rs_on A)) (map sgn (csr_rows (rs_on B)))))) in
  let off := csr_remove_duplicates F add small
              (mkCsr (rs_nr A) (length m)
                 (zip_rows F (map (to_merged (rs_colmap A) m) (csr_rows (rs_off A)))
                             (map (fun r => sgn (to_merged (rs_colmap B) m r)) (csr_rows (rs_off B))))) in
  let used := flat_map (map fst) (csr_rows off) in
  let keep := filter (fun kc => memb (fst kc) used) (indexed m) in
  mkRS (rs_fr A) (rs_nr A) (rs_fc A) (rs_nc A) on
       (mkCsr (rs_nr A) (length keep) (map (renum_line (map fst keep)) (csr_rows off)))
       (map snd keep).

End ParConv.

Arguments gden_of {F}. Arguments renum_line {F}. Arguments glob_line {F}. Arguments off_cols_global {F}.
Arguments to_merged {F}.
Arguments rc_fr {F}. Arguments rc_nr {F}. Arguments rc_fc {F}. Arguments rc_nc {F}.
Arguments rc_on {F}. Arguments rc_off {F}. Arguments rc_colmap {F}. Arguments mkRC {F}.
Arguments rk_fr {F}. Arguments rk_nr {F}. Arguments rk_fc {F}. Arguments rk_nc {F}.
Arguments rk_on {F}. Arguments rk_off {F}. Arguments rk_colmap {F}. Arguments mkRK {F}.
