(* C02 (distributed): one rank's product rows equal the rows of the global operator applied to the global
   vector, given that the halo buffer holds the owners' values (which C03 proves from fwd_ok). *)
From Coq Require Import List Arith Lia Bool.
Import ListNotations.
From Raptor Require Import Base.Sums Sparse.Defs Sparse.ConvertProofs Sparse.SpmvProofs Dist.Comm Dist.CommProofs Dist.ParMat.

Section ParSpmvProofs.
Variable F : Type.
Variables (zero one : F) (add mul sub : F -> F -> F) (opp : F -> F).
Variable Fth : ring_theory zero one add mul sub opp (@eq F).
Add Ring FringP : Fth.

Notation sumF := (sumf F zero add).
Notation xat := (xat F zero).
Notation dot := (dot_row F zero add mul).
Notation denCsr := (den_csr F zero add).

Lemma seq_plus s n : seq s n = map (fun c => s + c) (seq 0 n).
Proof.
  revert s. induction n as [|n IH]; intros s; simpl; [reflexivity|].
  rewrite Nat.add_0_r. f_equal. rewrite IH. rewrite (IH 1), map_map. apply map_ext. intros c. lia.
Qed.

Lemma sumF_zero {A} (g : A -> F) l : (forall a, In a l -> g a = zero) -> sumF (map g l) = zero.
Proof.
  intros H. rewrite (sumf_map_ext F zero add g (fun _ => zero) l H).
  apply (sumf_map_zero F zero one add mul sub opp Fth).
Qed.

(* a sum over [0,N) of a function supported on the window [s, s+n) *)
Lemma sum_window (g : nat -> F) s n N :
  s + n <= N -> (forall j, j < N -> ~ (s <= j < s + n) -> g j = zero) ->
  sumF (map g (seq 0 N)) = sumF (map (fun c => g (s + c)) (seq 0 n)).
Proof.
  intros Hle Hz.
  replace N with (s + (n + (N - s - n))) by lia.
  rewrite seq_app, seq_app, !map_app, !(sumf_app F zero one add mul sub opp Fth).
  rewrite sumF_zero by (intros j Hj; apply in_seq in Hj; apply Hz; lia).
  rewrite (sumF_zero g (seq (0 + s + n) _)) by (intros j Hj; apply in_seq in Hj; apply Hz; lia).
  simpl. rewrite (seq_plus s n), map_map. ring.
Qed.

Lemma xat_map_at (X : list F) (l : list nat) k :
  k < length l -> xat (map (fun c => nth c X zero) l) k = nth (nth k l 0) X zero.
Proof.
  intros Hk. unfold Defs.xat.
  rewrite nth_indep with (d' := (fun c => nth c X zero) 0) by (rewrite map_length; exact Hk).
  apply (map_nth (fun c => nth c X zero)).
Qed.

(* on-process block: local columns are the window [fc, fc+nc) of the global vector *)
Lemma dot_on_block (dn : nat -> F) (X : list F) fc nc N :
  fc + nc <= N ->
  dot dn (map (fun c => nth c X zero) (seq fc nc)) nc
  = dot (fun j => if (fc <=? j) && (j <? fc + nc) then dn (j - fc) else zero) X N.
Proof.
  intros Hle. unfold dot_row. symmetry.
  rewrite (sum_window _ fc nc N Hle).
  - apply (sumf_map_ext F zero add). intros c Hc. apply in_seq in Hc.
    replace (fc <=? fc + c) with true by (symmetry; apply Nat.leb_le; lia).
    replace (fc + c <? fc + nc) with true by (symmetry; apply Nat.ltb_lt; lia).
    simpl. replace (fc + c - fc) with c by lia.
    rewrite xat_map_at by (rewrite seq_length; lia). rewrite seq_nth by lia. reflexivity.
  - intros j Hj Hout.
    destruct (fc <=? j) eqn:E1; destruct (j <? fc + nc) eqn:E2; simpl; try ring.
    apply Nat.leb_le in E1. apply Nat.ltb_lt in E2. lia.
Qed.

(* off-process block: slot k of the halo buffer is the global entry colmap[k] *)
Lemma dot_off_block (dk : nat -> F) (X : list F) (cm : list nat) N :
  (forall c, In c cm -> c < N) ->
  dot dk (map (fun c => nth c X zero) cm) (length cm)
  = dot (fun j => sumF (map (fun kc => if snd kc =? j then dk (fst kc) else zero) (indexed cm))) X N.
Proof.
  intros Hin. unfold dot_row.
  transitivity (sumF (map (fun k => sumF (map (fun j => mul (if nth k cm 0 =? j then dk k else zero) (xat X j)) (seq 0 N)))
                          (seq 0 (length cm)))).
  - apply (sumf_map_ext F zero add). intros k Hk. apply in_seq in Hk.
    rewrite xat_map_at by lia.
    rewrite (sumf_single F zero one add mul sub opp Fth N (nth k cm 0)).
    + rewrite Nat.eqb_refl. reflexivity.
    + apply Hin. apply nth_In. lia.
    + intros j _ Hne. replace (nth k cm 0 =? j) with false by (symmetry; apply Nat.eqb_neq; auto). ring.
  - rewrite (sumf_swap F zero one add mul sub opp Fth).
    apply (sumf_map_ext F zero add). intros j _.
    rewrite <- (sumf_map_mul_r F zero one add mul sub opp Fth).
    unfold indexed. rewrite (indexed_from_seq 0 cm 0), map_map.
    apply (sumf_map_ext F zero add). intros k _. simpl. rewrite Nat.sub_0_r. reflexivity.
Qed.

Lemma dot_add f g X N : dot (fun j => add (f j) (g j)) X N = add (dot f X N) (dot g X N).
Proof.
  unfold dot_row. rewrite <- (sumf_map_add F zero one add mul sub opp Fth).
  apply (sumf_map_ext F zero add). intros; ring.
Qed.
Lemma dot_zero X N : dot (fun _ => zero) X N = zero.
Proof. unfold dot_row. apply sumF_zero. intros; ring. Qed.

Theorem par_mult_row (rs : rank_state F) (X : list F) N li :
  rs_wf F N rs -> li < rs_nr rs ->
  xat (par_mult_local F zero add mul rs (map (fun c => nth c X zero) (seq (rs_fc rs) (rs_nc rs)))
                      (map (fun c => nth c X zero) (rs_colmap rs))) li
  = dot (gden_row F zero add rs li) X N.
Proof.
  intros [Hon [Hnr [Hnc [Hoff [Hnr' [Hnc' [Hle Hcm]]]]]]] Hli.
  unfold par_mult_local, gden_row. rewrite dot_add.
  replace (rs_nr rs =? 0) with false by (symmetry; apply Nat.eqb_neq; lia).
  assert (Eon : xat (csr_spmv F zero add mul (rs_on rs) (map (fun c => nth c X zero) (seq (rs_fc rs) (rs_nc rs)))) li
                = dot (fun j => if (rs_fc rs <=? j) && (j <? rs_fc rs + rs_nc rs)
                                then denCsr (rs_on rs) li (j - rs_fc rs) else zero) X N).
  { rewrite (csr_spmv_spec F zero one add mul sub opp Fth) by (try exact Hon; lia).
    rewrite Hnc. apply dot_on_block. exact Hle. }
  destruct (length (rs_colmap rs) =? 0) eqn:Ecm.
  - rewrite Eon. apply Nat.eqb_eq in Ecm. destruct (rs_colmap rs); [|discriminate]. simpl.
    rewrite dot_zero. ring.
  - rewrite (csr_spmv_append_spec F zero one add mul sub opp Fth) by (try exact Hoff; lia).
    rewrite Eon. f_equal. rewrite Hnc'. apply dot_off_block. exact Hcm.
Qed.

(* b + A x and b - A x (ParMatrix::mult_append, ParMatrix::residual) *)
Theorem par_mult_append_row (rs : rank_state F) (X b0 : list F) N li :
  rs_wf F N rs -> li < rs_nr rs ->
  xat (par_mult_append_local F zero add mul rs (map (fun c => nth c X zero) (seq (rs_fc rs) (rs_nc rs)))
                      (map (fun c => nth c X zero) (rs_colmap rs)) b0) li
  = add (xat b0 li) (dot (gden_row F zero add rs li) X N).
Proof.
  intros [Hon [Hnr [Hnc [Hoff [Hnr' [Hnc' [Hle Hcm]]]]]]] Hli.
  unfold par_mult_append_local, gden_row. rewrite dot_add.
  replace (rs_nr rs =? 0) with false by (symmetry; apply Nat.eqb_neq; lia).
  assert (Eon : xat (csr_spmv_append F zero add mul (rs_on rs) (map (fun c => nth c X zero) (seq (rs_fc rs) (rs_nc rs))) b0) li
                = add (xat b0 li) (dot (fun j => if (rs_fc rs <=? j) && (j <? rs_fc rs + rs_nc rs)
                                then denCsr (rs_on rs) li (j - rs_fc rs) else zero) X N)).
  { rewrite (csr_spmv_append_spec F zero one add mul sub opp Fth) by (try exact Hon; lia).
    rewrite Hnc. f_equal. apply dot_on_block. exact Hle. }
  destruct (length (rs_colmap rs) =? 0) eqn:Ecm.
  - rewrite Eon. apply Nat.eqb_eq in Ecm. destruct (rs_colmap rs); [|discriminate]. simpl.
    rewrite dot_zero. ring.
  - rewrite (csr_spmv_append_spec F zero one add mul sub opp Fth) by (try exact Hoff; lia).
    rewrite Eon. rewrite Hnc', (dot_off_block _ X (rs_colmap rs) N Hcm). ring.
Qed.

Theorem par_residual_row (rs : rank_state F) (X b0 : list F) N li :
  rs_wf F N rs -> li < rs_nr rs -> rs_nr rs <= length b0 ->
  xat (par_residual_local F zero mul sub rs (map (fun c => nth c X zero) (seq (rs_fc rs) (rs_nc rs)))
                      (map (fun c => nth c X zero) (rs_colmap rs)) b0) li
  = sub (xat b0 li) (dot (gden_row F zero add rs li) X N).
Proof.
  intros [Hon [Hnr [Hnc [Hoff [Hnr' [Hnc' [Hle Hcm]]]]]]] Hli Hb0.
  unfold par_residual_local, gden_row. rewrite dot_add.
  replace (rs_nr rs =? 0) with false by (symmetry; apply Nat.eqb_neq; lia). cbn [orb].
  set (r := if rs_nc rs =? 0 then b0 else csr_residual F zero mul sub (rs_on rs) (map (fun c => nth c X zero) (seq (rs_fc rs) (rs_nc rs))) b0).
  assert (Eon : xat r li = sub (xat b0 li) (dot (fun j => if (rs_fc rs <=? j) && (j <? rs_fc rs + rs_nc rs)
                                then denCsr (rs_on rs) li (j - rs_fc rs) else zero) X N)).
  { unfold r. destruct (rs_nc rs =? 0) eqn:E0.
    - apply Nat.eqb_eq in E0.
      rewrite <- (dot_on_block (fun c => denCsr (rs_on rs) li c) X (rs_fc rs) (rs_nc rs) N Hle).
      rewrite E0. unfold dot_row. simpl. ring.
    - rewrite (csr_residual_spec F zero one add mul sub opp Fth) by (try exact Hon; lia).
      rewrite Hnc. f_equal. apply dot_on_block. exact Hle. }
  assert (Hrlen : csr_nr (rs_off rs) <= length r).
  { unfold r. destruct (rs_nc rs =? 0); [lia|]. unfold csr_residual. rewrite map_length. unfold indexed.
    rewrite indexed_from_length. destruct Hon as [Hl _]. lia. }
  destruct (length (rs_colmap rs) =? 0) eqn:Ecm.
  - rewrite Eon. apply Nat.eqb_eq in Ecm. destruct (rs_colmap rs); [|discriminate]. simpl.
    rewrite dot_zero. ring.
  - rewrite (csr_spmv_append_neg_spec F zero one add mul sub opp Fth) by (try exact Hoff; exact Hrlen).
    rewrite Eon. rewrite Hnc', (dot_off_block _ X (rs_colmap rs) N Hcm). ring.
Qed.

(* composed with C03: for a package world accepted by fwd_ok, the distributed product of every rank
   equals the rows of the global operator applied to the global vector *)
Theorem par_mult_global (w : world) (st : list (rank_state F)) (X : list F) (big N : nat) p li :
  fwd_ok w (map (fun rs => seq (rs_fc rs) (rs_nc rs)) st) (map (fun rs => rs_colmap rs) st) big = true ->
  length X <= big -> length w = length st -> p < length st ->
  rs_wf F N (nth p st (mkRS 0 0 0 0 (mkCsr 0 0 []) (mkCsr 0 0 []) [])) ->
  li < rs_nr (nth p st (mkRS 0 0 0 0 (mkCsr 0 0 []) (mkCsr 0 0 []) [])) ->
  xat (nth p (par_mult F zero add mul w st
               (map (fun rs => map (fun c => nth c X zero) (seq (rs_fc rs) (rs_nc rs))) st)) []) li
  = dot (gden_row F zero add (nth p st (mkRS 0 0 0 0 (mkCsr 0 0 []) (mkCsr 0 0 []) [])) li) X N.
Proof.
  intros Hok Hbig Hlen Hp Hwf Hli.
  set (dflt := mkRS 0 0 0 0 (mkCsr 0 0 []) (mkCsr 0 0 []) []) in *.
  unfold par_mult. rewrite nth_map_seq by exact Hp.
  assert (Exs : map (fun rs : rank_state F => map (fun c => nth c X zero) (seq (rs_fc rs) (rs_nc rs))) st
                = map (map (fun c => nth c X zero)) (map (fun rs => seq (rs_fc rs) (rs_nc rs)) st))
    by (rewrite map_map; reflexivity).
  rewrite Exs at 2.
  rewrite (forward_delivers zero w _ _ big X Hok Hbig p) by (rewrite Hlen; exact Hp).
  change (@nil nat) with (rs_colmap dflt). rewrite (map_nth (fun rs : rank_state F => rs_colmap rs)).
  change (@nil F) with (map (fun c => nth c X zero) (seq (rs_fc dflt) (rs_nc dflt))).
  rewrite (map_nth (fun rs : rank_state F => map (fun c => nth c X zero) (seq (rs_fc rs) (rs_nc rs)))).
  apply par_mult_row; assumption.
Qed.

End ParSpmvProofs.
