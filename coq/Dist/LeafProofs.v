(* C18 — proofs about the leaf model.  GenLeaf.v is regenerated from the C++ headers on every run; the proofs
   below deliberately work by symbolic execution (unfold, split every `if`, replace truncating division by its
   defining equation, close by nia), not by syntactic matching, so that a behaviour-preserving rewrite of the
   C++ still checks while a behaviour-changing one does not. *)
From Coq Require Import ZArith List Bool Lia FinFun.
From Raptor Require Import Dist.GenLeaf Dist.Leaf.
Import ListNotations.
Local Open Scope Z_scope.

(* ---------- tactics ---------- *)
Ltac b2p := repeat match goal with
  | H : (_ && _) = true |- _ => apply andb_true_iff in H; destruct H
  | H : (_ || _) = false |- _ => apply orb_false_iff in H; destruct H
  | H : (_ && _) = false |- _ => apply andb_false_iff in H; destruct H
  | H : (_ || _) = true |- _ => apply orb_true_iff in H; destruct H
  | H : negb _ = true |- _ => apply negb_true_iff in H
  | H : negb _ = false |- _ => apply negb_false_iff in H
  | H : (_ =? _) = true |- _ => apply Z.eqb_eq in H
  | H : (_ =? _) = false |- _ => apply Z.eqb_neq in H
  | H : (_ <? _) = true |- _ => apply Z.ltb_lt in H
  | H : (_ <? _) = false |- _ => apply Z.ltb_ge in H
  | H : (_ <=? _) = true |- _ => apply Z.leb_le in H
  | H : (_ <=? _) = false |- _ => apply Z.leb_gt in H
  | H : true = false |- _ => discriminate H
  | H : false = true |- _ => discriminate H
  end.

Ltac split_ifs := repeat (cbv beta iota zeta;
  match goal with
  | |- context [if ?c then _ else _] => let E := fresh "E" in destruct c eqn:E
  end); cbv beta iota zeta.

(* truncating division of non-negative by positive: name quotient and remainder, keep only the defining facts *)
Lemma quot_rem_pos a b : 0 <= a -> 0 < b ->
  exists q r, Z.quot a b = q /\ Z.rem a b = r /\ a = b * q + r /\ 0 <= r < b /\ 0 <= q.
Proof.
  intros Ha Hb. exists (Z.quot a b), (Z.rem a b). repeat split; try reflexivity.
  - apply Z.quot_rem'.
  - apply Z.rem_bound_pos; lia.
  - apply Z.rem_bound_pos; lia.
  - apply Z.quot_pos; lia.
Qed.

Ltac qr a b :=
  let q := fresh "q" in let r := fresh "r" in let Hq := fresh "Hq" in let Hr := fresh "Hr" in
  let E := fresh "E" in let B := fresh "B" in let Q := fresh "Q" in
  destruct (quot_rem_pos a b) as (q & r & Hq & Hr & E & B & Q); [lia | lia | ];
  rewrite ?Hq, ?Hr in *; clear Hq Hr.

Lemma div_mod_pos a b : 0 <= a -> 0 < b ->
  exists q r, a / b = q /\ a mod b = r /\ a = b * q + r /\ 0 <= r < b /\ 0 <= q.
Proof.
  intros Ha Hb. exists (a / b), (a mod b). repeat split; try reflexivity.
  - apply Z.div_mod; lia.
  - apply Z.mod_pos_bound; lia.
  - apply Z.mod_pos_bound; lia.
  - apply Z.div_pos; lia.
Qed.

Ltac dm a b :=
  let q := fresh "q" in let r := fresh "r" in let Hq := fresh "Hq" in let Hr := fresh "Hr" in
  let E := fresh "E" in let B := fresh "B" in let Q := fresh "Q" in
  destruct (div_mod_pos a b) as (q & r & Hq & Hr & E & B & Q); [lia | lia | ];
  rewrite ?Hq, ?Hr in *; clear Hq Hr.

(* ================= Topology ================= *)

Lemma ctor_num_nodes_spec nprocs PPN : 0 <= nprocs -> 1 <= PPN ->
  Topology_ctor_ok (Topology_ctor nprocs PPN) = true /\
  (topo_num_nodes nprocs PPN - 1) * PPN < nprocs <= topo_num_nodes nprocs PPN * PPN.
Proof.
  intros Hn Hp. unfold topo_num_nodes, Topology_ctor.
  qr nprocs PPN. split_ifs; cbn [Topology_ctor_ok Topology_ctor_num_nodes]; b2p; (split; [try reflexivity; lia | nia]).
Qed.

Lemma num_nodes_pos nprocs PPN : 1 <= nprocs -> 1 <= PPN -> 1 <= topo_num_nodes nprocs PPN.
Proof. intros. destruct (ctor_num_nodes_spec nprocs PPN) as [_ H1]; nia. Qed.

Definition supported (o : Z) := o = 0 \/ o = 1 \/ o = 2.

(* rank -> (node, on-node index) -> rank, for any node count nn with nprocs <= nn * PPN *)
Lemma topo_forward o nn PPN nprocs p :
  supported o -> 1 <= PPN -> 1 <= nn -> nprocs <= nn * PPN -> 0 <= p < nprocs ->
  0 <= Topology_get_node o nn PPN p < nn /\
  0 <= Topology_get_local_proc o nn PPN p < PPN /\
  Topology_get_global_proc o nn PPN (Topology_get_node o nn PPN p) (Topology_get_local_proc o nn PPN p) = p /\
  Topology_get_node_ok o nn PPN p = true /\ Topology_get_local_proc_ok o nn PPN p = true /\
  Topology_get_global_proc_ok o nn PPN (Topology_get_node o nn PPN p) (Topology_get_local_proc o nn PPN p) = true.
Proof.
  intros Ho HP Hn Hle Hp.
  unfold Topology_get_global_proc, Topology_get_global_proc_ok, Topology_get_node_ok, Topology_get_local_proc_ok,
         Topology_get_node, Topology_get_local_proc.
  destruct Ho as [-> | [-> | ->]]; split_ifs; b2p; try lia;
    qr p nn; qr p PPN; qr q 2; b2p;
    repeat split; try reflexivity; try lia; try nia.
Qed.

(* (node, on-node index) -> rank -> (node, on-node index) *)
Lemma topo_backward o nn PPN nd lp :
  supported o -> 1 <= PPN -> 1 <= nn -> 0 <= nd < nn -> 0 <= lp < PPN ->
  let g := Topology_get_global_proc o nn PPN nd lp in
  0 <= g < nn * PPN /\ Topology_get_node o nn PPN g = nd /\ Topology_get_local_proc o nn PPN g = lp.
Proof.
  intros Ho HP Hn Hnd Hlp g. subst g.
  unfold Topology_get_global_proc.
  qr lp 2.
  destruct Ho as [-> | [-> | ->]]; split_ifs; b2p; try lia.
  - (* ordering 0 *)
    unfold Topology_get_node, Topology_get_local_proc.
    assert (G : 0 <= lp * nn + nd) by nia. qr (lp * nn + nd) nn.
    assert (q0 = lp) by nia. split_ifs; b2p; try lia. repeat split; nia.
  - (* ordering 1 *)
    unfold Topology_get_node, Topology_get_local_proc.
    assert (G : 0 <= lp + nd * PPN) by nia. qr (lp + nd * PPN) PPN.
    assert (q0 = nd) by nia. split_ifs; b2p; try lia. repeat split; nia.
  - (* ordering 2, even on-node index *)
    unfold Topology_get_node, Topology_get_local_proc.
    assert (G : 0 <= lp * nn + nd) by nia. qr (lp * nn + nd) nn.
    assert (q0 = lp) by nia. subst q0. qr lp 2.
    split_ifs; b2p; try lia; repeat split; nia.
  - (* ordering 2, odd on-node index *)
    unfold Topology_get_node, Topology_get_local_proc.
    assert (G : 0 <= lp * nn + nn - nd - 1) by nia. qr (lp * nn + nn - nd - 1) nn.
    assert (q0 = lp) by nia. subst q0. qr lp 2.
    split_ifs; b2p; try lia; repeat split; nia.
Qed.

Ltac q2d a b := rewrite ?(Z.quot_div_nonneg a b), ?(Z.rem_mod_nonneg a b) in * by lia.

(* ================= block partition: closed forms ================= *)
Definition blk_first (N P r : Z) : Z := (N / P) * r + Z.min r (N mod P).
Definition blk_size (N P r : Z) : Z := N / P + (if r <? N mod P then 1 else 0).

Lemma blk_first_0 N P : 0 <= N -> 0 < P -> blk_first N P 0 = 0.
Proof. intros. unfold blk_first. dm N P. lia. Qed.

Lemma blk_first_succ N P r : 0 <= N -> 0 < P -> 0 <= r ->
  blk_first N P (r + 1) = blk_first N P r + blk_size N P r.
Proof. intros. unfold blk_first, blk_size. dm N P. split_ifs; b2p; nia. Qed.

Lemma blk_first_P N P : 0 <= N -> 0 < P -> blk_first N P P = N.
Proof. intros. unfold blk_first. dm N P. nia. Qed.

Lemma blk_size_nonneg N P r : 0 <= N -> 0 < P -> 0 <= blk_size N P r.
Proof. intros. unfold blk_size. dm N P. split_ifs; lia. Qed.

Lemma blk_size_pos_iff N P r : 0 <= N -> 0 < P -> 0 <= r < P ->
  (0 < blk_size N P r <-> r < Z.min P N).
Proof. intros. unfold blk_size. dm N P. split_ifs; b2p; split; intros; nia. Qed.

Lemma blk_first_mono N P r : 0 <= N -> 0 < P -> 0 <= r -> blk_first N P r <= blk_first N P (r + 1).
Proof. intros. rewrite blk_first_succ by lia. pose proof (blk_size_nonneg N P r). lia. Qed.

(* the generated constructor computes exactly these closed forms *)
Lemma block_rows_spec r P N M : 0 <= r < P -> 0 <= N ->
  let pb := Partition_block r P N M in
  rp_gnr pb = N /\ rp_gnc pb = M /\
  rp_fr pb = blk_first N P r /\ rp_lnr pb = blk_size N P r /\ rp_lr pb = rp_fr pb + rp_lnr pb - 1.
Proof.
  intros Hr HN pb. subst pb. unfold Partition_block, blk_first, blk_size.
  split_ifs; cbn [rp_gnr rp_gnc rp_fr rp_lnr rp_lr]; b2p;
    rewrite ?Z.gtb_ltb in *; b2p; q2d N P; dm N P; repeat split; try nia.
Qed.

(* columns: ranks with rows split M over min(P,N) parts; ranks without rows get (M, 0); never a zero divisor *)
Lemma block_cols_spec r P N M : 0 <= r < P -> 0 <= N -> 0 <= M ->
  let pb := Partition_block r P N M in
  rp_ok pb = true /\ rp_lc pb = rp_fc pb + rp_lnc pb - 1 /\
  (r < Z.min P N -> rp_fc pb = blk_first M (Z.min P N) r /\ rp_lnc pb = blk_size M (Z.min P N) r) /\
  (Z.min P N <= r -> rp_fc pb = M /\ rp_lnc pb = 0).
Proof.
  intros Hr HN HM pb. subst pb. unfold Partition_block, blk_first, blk_size.
  split_ifs; cbn [rp_ok rp_lc rp_fc rp_lnc]; b2p;
    rewrite ?Z.gtb_ltb in *; b2p; q2d N P; dm N P;
    (repeat split; try reflexivity; try lia; try intros Hmin;
     try (exfalso; nia);
     try (rewrite ?Z.min_l in * by lia; rewrite ?Z.min_r in * by lia);
     try (q2d M N; dm M N); try (q2d M P; dm M P); split_ifs; b2p; try nia).
Qed.

(* ================= owner lookup (form_col_to_proc) ================= *)
Lemma zth_nat l i : zth l (Z.of_nat i) = nth_error l i.
Proof.
  unfold zth. destruct (Z.of_nat i <? 0) eqn:E.
  - apply Z.ltb_lt in E. lia.
  - rewrite Nat2Z.id. reflexivity.
Qed.

Lemma zth_neg l i : i < 0 -> zth l i = None.
Proof. intros. unfold zth. destruct (i <? 0) eqn:E; [reflexivity | apply Z.ltb_ge in E; lia]. Qed.

Lemma walk_down_spec fc c : forall a fuel, (a < fuel)%nat -> (a < length fc)%nat -> nth 0 fc 0 <= c ->
  exists p, (p <= a)%nat /\ walk_down fuel fc c (Z.of_nat a) = Some (Z.of_nat p) /\
            nth p fc 0 <= c /\ (p = a \/ c < nth (S p) fc 0).
Proof.
  induction a as [|a IH]; intros fuel Hf Hl H0; (destruct fuel as [|f]; [lia|]);
    cbn [walk_down]; rewrite zth_nat, (nth_error_nth' fc 0) by lia.
  - destruct (c <? nth 0 fc 0) eqn:E; b2p; [lia|].
    exists 0%nat. repeat split; auto; lia.
  - destruct (c <? nth (S a) fc 0) eqn:E; b2p.
    + replace (Z.of_nat (S a) - 1) with (Z.of_nat a) by lia.
      destruct (IH f) as (p & Hp & Hw & Hc & Hn); try lia.
      exists p. split; [lia|]. split; [exact Hw|]. split; [exact Hc|].
      right. destruct Hn as [-> | Hn]; [exact E | exact Hn].
    + exists (S a). repeat split; auto; lia.
Qed.

Lemma walk_up_spec P fc c : length fc = S P ->
  forall n a fuel, (a + n + 1 = P)%nat -> (n < fuel)%nat -> nth a fc 0 <= c ->
  exists p, (a <= p)%nat /\ (p < P)%nat /\ walk_up fuel (Z.of_nat P) fc c (Z.of_nat a) = Some (Z.of_nat p) /\
            nth p fc 0 <= c /\ (S p = P \/ c < nth (S p) fc 0).
Proof.
  intros Hlen. induction n as [|n IH]; intros a fuel Ha Hf Hc; (destruct fuel as [|f]; [lia|]); cbn [walk_up].
  - destruct (Z.of_nat a <? Z.of_nat P - 1) eqn:E; b2p; [lia|].
    exists a. repeat split; auto; lia.
  - destruct (Z.of_nat a <? Z.of_nat P - 1) eqn:E; b2p; [|lia].
    replace (Z.of_nat a + 1) with (Z.of_nat (S a)) by lia.
    rewrite zth_nat, (nth_error_nth' fc 0) by lia.
    rewrite Z.geb_leb. destruct (nth (S a) fc 0 <=? c) eqn:E2; b2p.
    + destruct (IH (S a) f) as (p & Hp & HpP & Hw & Hpc & Hn); try lia.
      exists p. repeat split; auto; lia.
    + exists a. repeat split; auto; lia.
Qed.

(* what form_col_to_proc returns: for ANY first_cols (monotone or not) of length P+1 with first_cols[0] <= c < first_cols[P]
   and an assumed width a with c < a*P, fuel P suffices and the result p satisfies first_cols[p] <= c < first_cols[p+1] *)
Lemma owner_spec P fc a c : length fc = S P -> 0 <= c -> nth 0 fc 0 <= c -> c < nth P fc 0 ->
  0 < a -> c < a * Z.of_nat P ->
  exists p, (p < P)%nat /\ owner P a fc c = Some (Z.of_nat p) /\ nth p fc 0 <= c < nth (S p) fc 0.
Proof.
  intros Hlen Hc H0 HP Ha Hcap. unfold owner.
  destruct (a =? 0) eqn:E; b2p; [lia|].
  qr c a. assert (Hq : q < Z.of_nat P) by nia.
  rewrite <- (Z2Nat.id q) by lia.
  destruct (walk_down_spec fc c (Z.to_nat q) P) as (p1 & Hp1 & Hw1 & Hc1 & _); try lia.
  rewrite Hw1.
  destruct (walk_up_spec P fc c Hlen (P - 1 - p1)%nat p1 P) as (p & Hp & HpP & Hw & Hpc & Hn); try lia.
  exists p. split; [exact HpP|]. split; [exact Hw|]. split; [exact Hpc|].
  destruct Hn as [<- | Hn]; [exact HP | exact Hn].
Qed.

Definition mono (fc : list Z) := forall i, (S i < length fc)%nat -> nth i fc 0 <= nth (S i) fc 0.

Lemma mono_le fc : mono fc -> forall j i, (i <= j)%nat -> (j < length fc)%nat -> nth i fc 0 <= nth j fc 0.
Proof.
  intros Hm. induction j as [|j IH]; intros i Hij Hj.
  - replace i with 0%nat by lia. lia.
  - destruct (Nat.eq_dec i (S j)) as [-> | Hne]; [lia|].
    specialize (IH i ltac:(lia) ltac:(lia)). specialize (Hm j Hj). lia.
Qed.

Lemma owner_unique fc c p q : mono fc -> (S p < length fc)%nat -> (S q < length fc)%nat ->
  nth p fc 0 <= c < nth (S p) fc 0 -> nth q fc 0 <= c < nth (S q) fc 0 -> p = q.
Proof.
  intros Hm Hp Hq Hcp Hcq.
  destruct (Nat.lt_trichotomy p q) as [Hlt | [Heq | Hgt]]; [exfalso | exact Heq | exfalso].
  - pose proof (mono_le fc Hm q (S p) ltac:(lia) ltac:(lia)). lia.
  - pose proof (mono_le fc Hm p (S q) ltac:(lia) ltac:(lia)). lia.
Qed.

(* create_assumed_partition: assumed_num_cols = ceil(M / P) *)
Lemma assumed_spec P M ranks : 0 < P -> 0 <= M ->
  let a := dp_assumed (create_assumed P M ranks) in M <= a * P /\ (0 < M -> 0 < a).
Proof.
  intros HP HM a. subst a. unfold create_assumed. cbn [dp_assumed]. qr M P.
  split_ifs; b2p; split; intros; nia.
Qed.

(* ================= the distributed block partition ================= *)
Definition zsum (l : list Z) : Z := fold_right Z.add 0 l.

Lemma zsum_telescope (f : nat -> Z) n : zsum (map (fun r => f (S r) - f r) (seq 0 n)) = f n - f 0%nat.
Proof.
  induction n as [|n IH]; [cbn; lia|].
  rewrite seq_S, map_app. unfold zsum in *. rewrite fold_right_app. cbn [map fold_right Nat.add].
  revert IH. generalize (map (fun r => f (S r) - f r) (seq 0 n)). intros l.
  assert (G : forall k, fold_right Z.add k l = fold_right Z.add 0 l + k).
  { induction l as [|x l IHl]; intros k; cbn; [lia | rewrite IHl; lia]. }
  intros IH. rewrite G. lia.
Qed.

Definition pblk (P : nat) (N M : Z) (r : nat) : rank_part := Partition_block (Z.of_nat r) (Z.of_nat P) N M.

Lemma block_ranks P N M : dp_ranks (block_partition P N M) = map (pblk P N M) (seq 0 P).
Proof. unfold block_partition, create_assumed, ranks_upto. cbn [dp_ranks]. rewrite map_map. reflexivity. Qed.

Lemma block_ranks_nth P N M r : (r < P)%nat -> nth_error (dp_ranks (block_partition P N M)) r = Some (pblk P N M r).
Proof.
  intros Hr. rewrite block_ranks, nth_error_map, (nth_error_nth' (seq 0 P) 0%nat) by (rewrite seq_length; lia).
  rewrite seq_nth by lia. reflexivity.
Qed.

Lemma block_first_cols P N M : dp_first_cols (block_partition P N M) = map (fun r => rp_fc (pblk P N M r)) (seq 0 P) ++ [M].
Proof. unfold block_partition, create_assumed, ranks_upto. cbn [dp_first_cols]. rewrite !map_map. reflexivity. Qed.

Lemma block_first_cols_length P N M : length (dp_first_cols (block_partition P N M)) = S P.
Proof. rewrite block_first_cols, app_length, map_length, seq_length. cbn. lia. Qed.

Lemma block_first_cols_nth P N M r : (r < P)%nat -> nth r (dp_first_cols (block_partition P N M)) 0 = rp_fc (pblk P N M r).
Proof.
  intros Hr. rewrite block_first_cols, app_nth1 by (rewrite map_length, seq_length; lia).
  rewrite (nth_indep _ 0 (rp_fc (pblk P N M 0))) by (rewrite map_length, seq_length; lia).
  rewrite (map_nth (fun r => rp_fc (pblk P N M r))). rewrite seq_nth by lia. reflexivity.
Qed.

Lemma block_first_cols_last P N M : nth P (dp_first_cols (block_partition P N M)) 0 = M.
Proof.
  rewrite block_first_cols, app_nth2 by (rewrite map_length, seq_length; lia).
  rewrite map_length, seq_length, Nat.sub_diag. reflexivity.
Qed.

(* rows: first(0) = 0, first(r+1) = first(r) + size(r), the last block ends at N, ranks with rows are r < min(P,N) *)
Lemma block_rows P N M : (1 <= P)%nat -> 0 <= N ->
  rp_fr (pblk P N M 0) = 0 /\
  (forall r, (r < P)%nat ->
     rp_gnr (pblk P N M r) = N /\ rp_gnc (pblk P N M r) = M /\
     0 <= rp_lnr (pblk P N M r) /\
     rp_lr (pblk P N M r) = rp_fr (pblk P N M r) + rp_lnr (pblk P N M r) - 1 /\
     (0 < rp_lnr (pblk P N M r) <-> Z.of_nat r < Z.min (Z.of_nat P) N) /\
     ((S r < P)%nat -> rp_fr (pblk P N M (S r)) = rp_fr (pblk P N M r) + rp_lnr (pblk P N M r)) /\
     (S r = P -> rp_fr (pblk P N M r) + rp_lnr (pblk P N M r) = N)) /\
  zsum (map rp_lnr (dp_ranks (block_partition P N M))) = N.
Proof.
  intros HP HN.
  assert (S : forall r, (r < P)%nat -> rp_gnr (pblk P N M r) = N /\ rp_gnc (pblk P N M r) = M /\
             rp_fr (pblk P N M r) = blk_first N (Z.of_nat P) (Z.of_nat r) /\
             rp_lnr (pblk P N M r) = blk_size N (Z.of_nat P) (Z.of_nat r) /\
             rp_lr (pblk P N M r) = rp_fr (pblk P N M r) + rp_lnr (pblk P N M r) - 1).
  { intros r Hr. apply block_rows_spec; lia. }
  split; [|split].
  - destruct (S 0%nat ltac:(lia)) as (_ & _ & -> & _). apply blk_first_0; lia.
  - intros r Hr. destruct (S r Hr) as (G1 & G2 & Hf & Hs & Hl).
    split; [exact G1|]. split; [exact G2|]. rewrite Hf, Hs in *.
    split; [apply blk_size_nonneg; lia|]. split; [exact Hl|].
    split; [apply blk_size_pos_iff; lia|]. split.
    + intros HS. destruct (S (Datatypes.S r) HS) as (_ & _ & -> & _).
      rewrite Nat2Z.inj_succ, <- Z.add_1_r. apply blk_first_succ; lia.
    + intros HS. rewrite <- blk_first_succ by lia.
      replace (Z.of_nat r + 1) with (Z.of_nat P) by lia. apply blk_first_P; lia.
  - rewrite block_ranks, map_map.
    rewrite (map_ext_in _ (fun r => blk_first N (Z.of_nat P) (Z.of_nat (Datatypes.S r)) - blk_first N (Z.of_nat P) (Z.of_nat r))).
    + rewrite (zsum_telescope (fun r => blk_first N (Z.of_nat P) (Z.of_nat r))).
      rewrite blk_first_P, blk_first_0 by lia. lia.
    + intros r Hin. apply in_seq in Hin. destruct (S r ltac:(lia)) as (_ & _ & _ & -> & _).
      rewrite Nat2Z.inj_succ, <- Z.add_1_r, blk_first_succ by lia. lia.
Qed.

(* columns (N >= 1): first_cols[0] = 0, first_cols[r+1] = first_cols[r] + local_num_cols(r), first_cols[P] = M;
   only ranks with rows own columns, and exactly r < min(min(P,N), M) own some *)
Lemma block_cols P N M : (1 <= P)%nat -> 1 <= N -> 0 <= M ->
  let fcs := dp_first_cols (block_partition P N M) in
  length fcs = S P /\ nth 0 fcs 0 = 0 /\ nth P fcs 0 = M /\
  (forall r, (r < P)%nat ->
     nth r fcs 0 = rp_fc (pblk P N M r) /\
     nth (S r) fcs 0 = nth r fcs 0 + rp_lnc (pblk P N M r) /\
     0 <= rp_lnc (pblk P N M r) /\
     rp_lc (pblk P N M r) = rp_fc (pblk P N M r) + rp_lnc (pblk P N M r) - 1 /\
     (0 < rp_lnc (pblk P N M r) <-> Z.of_nat r < Z.min (Z.min (Z.of_nat P) N) M) /\
     (0 < rp_lnc (pblk P N M r) -> 0 < rp_lnr (pblk P N M r))) /\
  mono fcs /\
  zsum (map rp_lnc (dp_ranks (block_partition P N M))) = M /\
  dp_ok (block_partition P N M) = true.
Proof.
  intros HP HN HM fcs. subst fcs.
  set (K := Z.min (Z.of_nat P) N). assert (HK : 1 <= K <= Z.of_nat P) by lia.
  assert (S : forall r, (r < P)%nat ->
     rp_ok (pblk P N M r) = true /\ rp_lc (pblk P N M r) = rp_fc (pblk P N M r) + rp_lnc (pblk P N M r) - 1 /\
     (Z.of_nat r < K -> rp_fc (pblk P N M r) = blk_first M K (Z.of_nat r) /\ rp_lnc (pblk P N M r) = blk_size M K (Z.of_nat r)) /\
     (K <= Z.of_nat r -> rp_fc (pblk P N M r) = M /\ rp_lnc (pblk P N M r) = 0)).
  { intros r Hr. apply block_cols_spec; lia. }
  assert (Hnth : forall r, (r <= P)%nat -> nth r (dp_first_cols (block_partition P N M)) 0 =
                  if Z.of_nat r <? K then blk_first M K (Z.of_nat r) else M).
  { intros r Hr. destruct (Nat.eq_dec r P) as [-> | Hne].
    - rewrite block_first_cols_last. destruct (Z.of_nat P <? K) eqn:E; b2p; [lia | reflexivity].
    - rewrite block_first_cols_nth by lia. destruct (S r ltac:(lia)) as (_ & _ & S1 & S2).
      destruct (Z.of_nat r <? K) eqn:E; b2p; [apply S1; lia | apply S2; lia]. }
  assert (Hchain : forall r, (r < P)%nat ->
     nth (Datatypes.S r) (dp_first_cols (block_partition P N M)) 0 =
     nth r (dp_first_cols (block_partition P N M)) 0 + rp_lnc (pblk P N M r) /\ 0 <= rp_lnc (pblk P N M r)).
  { intros r Hr. rewrite !Hnth by lia. destruct (S r Hr) as (_ & _ & S1 & S2).
    rewrite Nat2Z.inj_succ, <- Z.add_1_r.
    destruct (Z.of_nat r <? K) eqn:E; b2p.
    - destruct (S1 E) as (_ & ->). split; [|apply blk_size_nonneg; lia].
      destruct (Z.of_nat r + 1 <? K) eqn:E2; b2p.
      + apply blk_first_succ; lia.
      + rewrite <- blk_first_succ by lia. replace (Z.of_nat r + 1) with K by lia. symmetry. apply blk_first_P; lia.
    - destruct (S2 E) as (_ & ->). destruct (Z.of_nat r + 1 <? K) eqn:E2; b2p; lia. }
  split; [apply block_first_cols_length|].
  split; [rewrite Hnth by lia; destruct (Z.of_nat 0 <? K) eqn:E; b2p; [apply blk_first_0; lia | lia]|].
  split; [apply block_first_cols_last|].
  split; [|split; [|split]].
  - intros r Hr. destruct (Hchain r Hr) as (C1 & C2). destruct (S r Hr) as (_ & Hlc & S1 & S2).
    split; [apply block_first_cols_nth; exact Hr|]. split; [exact C1|]. split; [exact C2|]. split; [exact Hlc|].
    destruct (block_rows P N M ltac:(lia) ltac:(lia)) as (_ & R & _). destruct (R r Hr) as (_ & _ & _ & _ & Rpos & _).
    destruct (Z_lt_le_dec (Z.of_nat r) K) as [Hlt | Hge].
    + destruct (S1 Hlt) as (_ & ->). pose proof (blk_size_pos_iff M K (Z.of_nat r) ltac:(lia) ltac:(lia) ltac:(lia)) as I.
      split; [rewrite I; lia | intros _; apply Rpos; exact Hlt].
    + destruct (S2 Hge) as (_ & ->). split; [lia | lia].
  - intros i Hi. rewrite block_first_cols_length in Hi. destruct (Hchain i ltac:(lia)). lia.
  - rewrite block_ranks, map_map.
    rewrite (map_ext_in _ (fun r => nth (Datatypes.S r) (dp_first_cols (block_partition P N M)) 0 - nth r (dp_first_cols (block_partition P N M)) 0)).
    + rewrite (zsum_telescope (fun r => nth r (dp_first_cols (block_partition P N M)) 0)).
      rewrite block_first_cols_last, Hnth by lia. destruct (Z.of_nat 0 <? K) eqn:E; b2p; [rewrite blk_first_0 by lia; lia | lia].
    + intros r Hin. apply in_seq in Hin. destruct (Hchain r ltac:(lia)) as (-> & _). lia.
  - unfold block_partition, create_assumed. cbn [dp_ok]. apply andb_true_iff. split.
    + apply negb_true_iff, Z.eqb_neq. lia.
    + apply forallb_forall. intros x Hin. unfold ranks_upto in Hin. rewrite map_map in Hin.
      apply in_map_iff in Hin. destruct Hin as (r & <- & Hin). apply in_seq in Hin.
      destruct (S r ltac:(lia)) as (Hok & _). exact Hok.
Qed.

(* owner lookup on the block partition: the unique rank whose column block contains c *)
Lemma block_owner P N M c : (1 <= P)%nat -> 1 <= N -> 0 <= c < M ->
  let d := block_partition P N M in
  exists p, (p < P)%nat /\ owner P (dp_assumed d) (dp_first_cols d) c = Some (Z.of_nat p) /\
            rp_fc (pblk P N M p) <= c < rp_fc (pblk P N M p) + rp_lnc (pblk P N M p) /\
            0 < rp_lnr (pblk P N M p) /\
            (forall q, (q < P)%nat -> rp_fc (pblk P N M q) <= c < rp_fc (pblk P N M q) + rp_lnc (pblk P N M q) -> q = p).
Proof.
  intros HP HN Hc d. subst d.
  destruct (block_cols P N M HP HN ltac:(lia)) as (Hlen & H0 & HPM & Hr & Hmono & _ & _).
  pose proof (assumed_spec (Z.of_nat P) M (map (fun r => Partition_block r (Z.of_nat P) N M) (ranks_upto P)) ltac:(lia) ltac:(lia)) as (A1 & A2).
  fold (block_partition P N M) in A1, A2.
  destruct (owner_spec P (dp_first_cols (block_partition P N M)) (dp_assumed (block_partition P N M)) c)
    as (p & HpP & Hown & Hint); try lia.
  exists p. split; [exact HpP|]. split; [exact Hown|].
  destruct (Hr p HpP) as (E1 & E2 & Hnn & _ & _ & Hrows).
  rewrite E2, E1 in Hint. split; [exact Hint|]. split; [apply Hrows; lia|].
  intros q Hq Hqi. destruct (Hr q Hq) as (F1 & F2 & _).
  apply (owner_unique (dp_first_cols (block_partition P N M)) c q p Hmono); lia.
Qed.

(* zero rows: no rank has rows, so no rank owns a column and first_cols is constantly M; the lookup of any column
   would start by reading first_cols[-1] (undefined behaviour in C++, None here) *)
Lemma block_zero_rows P M r : (r < P)%nat -> 0 <= M ->
  rp_lnr (pblk P 0 M r) = 0 /\ rp_lnc (pblk P 0 M r) = 0 /\ rp_fc (pblk P 0 M r) = M /\ rp_ok (pblk P 0 M r) = true.
Proof.
  intros Hr HM. unfold pblk.
  destruct (block_rows_spec (Z.of_nat r) (Z.of_nat P) 0 M ltac:(lia) ltac:(lia)) as (_ & _ & _ & Hs & _).
  destruct (block_cols_spec (Z.of_nat r) (Z.of_nat P) 0 M ltac:(lia) ltac:(lia) HM) as (Hok & _ & _ & Hc).
  destruct (Hc ltac:(lia)) as (Hfc & Hlnc). rewrite Hs, Hfc, Hlnc, Hok.
  unfold blk_size. rewrite Z.div_0_l, Z.mod_0_l by lia.
  destruct (Z.of_nat r <? 0) eqn:E; b2p; [lia|]. auto.
Qed.

(* ================= explicitly sized partitions and transposes ================= *)
Lemma nth_map_seq_app (f : nat -> Z) P x r : (r < P)%nat -> nth r (map f (seq 0 P) ++ [x]) 0 = f r.
Proof.
  intros Hr. rewrite app_nth1 by (rewrite map_length, seq_length; lia).
  rewrite (nth_indep _ 0 (f 0%nat)) by (rewrite map_length, seq_length; lia).
  rewrite (map_nth f). rewrite seq_nth by lia. reflexivity.
Qed.

Lemma nth_map_seq_app_last (f : nat -> Z) P x : nth P (map f (seq 0 P) ++ [x]) 0 = x.
Proof. rewrite app_nth2 by (rewrite map_length, seq_length; lia). rewrite map_length, seq_length, Nat.sub_diag. reflexivity. Qed.

(* general statement for any gathered first_cols that chains the ranks' column blocks:
   first_cols[0] = 0, first_cols[r+1] = first_cols[r] + size(r), size(r) >= 0, first_cols[P] = M *)
Lemma chain_owner P (fcs : list Z) (size : nat -> Z) M a c :
  (1 <= P)%nat -> length fcs = S P -> nth 0 fcs 0 = 0 -> nth P fcs 0 = M ->
  (forall r, (r < P)%nat -> nth (S r) fcs 0 = nth r fcs 0 + size r /\ 0 <= size r) ->
  M <= a * Z.of_nat P -> 0 <= c < M ->
  exists p, (p < P)%nat /\ owner P a fcs c = Some (Z.of_nat p) /\
            nth p fcs 0 <= c < nth p fcs 0 + size p /\
            (forall q, (q < P)%nat -> nth q fcs 0 <= c < nth q fcs 0 + size q -> q = p).
Proof.
  intros HP Hlen H0 HM Hch Ha Hc.
  assert (Hmono : mono fcs). { intros i Hi. rewrite Hlen in Hi. destruct (Hch i ltac:(lia)). lia. }
  destruct (owner_spec P fcs a c) as (p & HpP & Hown & Hint); try lia; try nia.
  exists p. split; [exact HpP|]. split; [exact Hown|].
  destruct (Hch p HpP) as (E & _). split; [lia|].
  intros q Hq Hqi. destruct (Hch q Hq) as (F & _).
  apply (owner_unique fcs c q p Hmono); lia.
Qed.

(* transpose of the block partition: columns of the transposed partition are the row blocks *)
Lemma transpose_block_first_cols P N M :
  dp_first_cols (transpose_partition N (block_partition P N M)) = map (fun r => rp_fr (pblk P N M r)) (seq 0 P) ++ [N].
Proof.
  unfold transpose_partition, create_assumed. cbn [dp_first_cols]. rewrite block_ranks, !map_map. reflexivity.
Qed.

Lemma transpose_block_ranks P N M :
  dp_ranks (transpose_partition N (block_partition P N M)) = map (fun r => transpose_rank (pblk P N M r)) (seq 0 P).
Proof. unfold transpose_partition, create_assumed. cbn [dp_ranks]. rewrite block_ranks, map_map. reflexivity. Qed.

Lemma transpose_block_owner P N M c : (1 <= P)%nat -> 0 <= c < N ->
  let d := transpose_partition N (block_partition P N M) in
  exists p, (p < P)%nat /\ owner P (dp_assumed d) (dp_first_cols d) c = Some (Z.of_nat p) /\
            rp_fr (pblk P N M p) <= c < rp_fr (pblk P N M p) + rp_lnr (pblk P N M p) /\
            (forall q, (q < P)%nat -> rp_fr (pblk P N M q) <= c < rp_fr (pblk P N M q) + rp_lnr (pblk P N M q) -> q = p).
Proof.
  intros HP Hc d. subst d.
  destruct (block_rows P N M HP ltac:(lia)) as (R0 & R & _).
  set (fcs := dp_first_cols (transpose_partition N (block_partition P N M))).
  assert (Hn : forall r, (r < P)%nat -> nth r fcs 0 = rp_fr (pblk P N M r)).
  { intros r Hr. unfold fcs. rewrite transpose_block_first_cols. apply (nth_map_seq_app (fun r => rp_fr (pblk P N M r))). exact Hr. }
  assert (HnP : nth P fcs 0 = N).
  { unfold fcs. rewrite transpose_block_first_cols. apply nth_map_seq_app_last. }
  assert (Hlen : length fcs = S P).
  { unfold fcs. rewrite transpose_block_first_cols, app_length, map_length, seq_length. cbn. lia. }
  assert (HA : N <= dp_assumed (transpose_partition N (block_partition P N M)) * Z.of_nat P).
  { unfold transpose_partition. rewrite block_ranks, map_length, seq_length. apply assumed_spec; lia. }
  destruct (chain_owner P fcs (fun r => rp_lnr (pblk P N M r)) N
              (dp_assumed (transpose_partition N (block_partition P N M))) c) as (p & HpP & Hown & Hint & Huniq); try lia.
  - rewrite Hn by lia. exact R0.
  - intros r Hr. destruct (R r Hr) as (_ & _ & Hnn & _ & _ & Hs & Hl). split; [|exact Hnn].
    rewrite (Hn r Hr). destruct (Nat.eq_dec (S r) P) as [E | E].
    + rewrite E, HnP. symmetry. apply Hl. exact E.
    + rewrite Hn by lia. apply Hs. lia.
  - exists p. split; [exact HpP|]. split; [exact Hown|]. rewrite (Hn p HpP) in Hint. split; [exact Hint|].
    intros q Hq Hqi. apply Huniq; [exact Hq|]. rewrite (Hn q Hq). exact Hqi.
Qed.

(* explicitly sized constructor: when the callers pass contiguous column blocks, the lookup is exact *)
Lemma explicit_first_cols N M args :
  dp_first_cols (explicit_partition N M args) = map (fun a => snd a) args ++ [M] /\
  map rp_lnc (dp_ranks (explicit_partition N M args)) = map (fun a => snd (fst (fst a))) args /\
  map rp_lnr (dp_ranks (explicit_partition N M args)) = map (fun a => fst (fst (fst a))) args /\
  map rp_fr (dp_ranks (explicit_partition N M args)) = map (fun a => snd (fst a)) args.
Proof.
  unfold explicit_partition, create_assumed. cbn [dp_first_cols dp_ranks]. rewrite !map_map.
  repeat split; [f_equal|..]; apply map_ext; intros [[[lnr lnc] fr] fc]; reflexivity.
Qed.

Lemma explicit_owner N M (args : list (Z * Z * Z * Z)) c :
  let P := length args in let d := explicit_partition N M args in
  let fcs := map (fun a => snd a) args ++ [M] in
  (1 <= P)%nat -> nth 0 fcs 0 = 0 ->
  (forall r, (r < P)%nat -> nth (S r) fcs 0 = nth r fcs 0 + nth r (map (fun a => snd (fst (fst a))) args) 0 /\
                            0 <= nth r (map (fun a => snd (fst (fst a))) args) 0) ->
  0 <= c < M ->
  exists p, (p < P)%nat /\ owner P (dp_assumed d) (dp_first_cols d) c = Some (Z.of_nat p) /\
            nth p fcs 0 <= c < nth p fcs 0 + nth p (map (fun a => snd (fst (fst a))) args) 0 /\
            (forall q, (q < P)%nat -> nth q fcs 0 <= c < nth q fcs 0 + nth q (map (fun a => snd (fst (fst a))) args) 0 -> q = p).
Proof.
  intros P d fcs HP H0 Hch Hc. subst d.
  destruct (explicit_first_cols N M args) as (-> & _). fold fcs.
  apply (chain_owner P fcs (fun r => nth r (map (fun a => snd (fst (fst a))) args) 0) M); auto.
  - unfold fcs. rewrite app_length, map_length. cbn. lia.
  - unfold fcs. rewrite app_nth2 by (rewrite map_length; lia). rewrite map_length. fold P. rewrite Nat.sub_diag. reflexivity.
  - unfold explicit_partition. apply assumed_spec; lia.
Qed.

(* refutations on the faithful model *)
Lemma zero_rows_cols_unowned :
  exists (P : nat) (M c : Z), 0 <= c < M /\
    zsum (map rp_lnc (dp_ranks (block_partition P 0 M))) <> M /\
    owner P (dp_assumed (block_partition P 0 M)) (dp_first_cols (block_partition P 0 M)) c = None.
Proof. exists 2%nat, 3, 1. vm_compute. repeat split; congruence. Qed.

Lemma owner_needs_zero_start :
  exists (P : nat) (fc : list Z) (M a c : Z), length fc = S P /\ mono fc /\ nth P fc 0 = M /\ 0 <= c < M /\
    M <= a * Z.of_nat P /\ owner P a fc c = None.
Proof.
  exists 2%nat, [2; 2; 5], 5, 3, 1. repeat split; try reflexivity; try lia.
  intros i Hi. cbn in Hi. destruct i as [|[|i]]; cbn; lia.
Qed.

(* ================= property-level packaging ================= *)
Lemma owner_lookup P fc M ranks c :
  (1 <= P)%nat -> length fc = S P -> mono fc -> nth 0 fc 0 = 0 -> nth P fc 0 = M -> 0 <= c < M ->
  exists p, (p < P)%nat /\ owner P (dp_assumed (create_assumed (Z.of_nat P) M ranks)) fc c = Some (Z.of_nat p) /\
            nth p fc 0 <= c < nth (S p) fc 0 /\
            (forall q, (q < P)%nat -> nth q fc 0 <= c < nth (S q) fc 0 -> q = p).
Proof.
  intros HP Hlen Hm H0 HM Hc.
  pose proof (assumed_spec (Z.of_nat P) M ranks ltac:(lia) ltac:(lia)) as (A1 & A2).
  destruct (owner_spec P fc (dp_assumed (create_assumed (Z.of_nat P) M ranks)) c) as (p & HpP & Hown & Hint); try lia.
  exists p. split; [exact HpP|]. split; [exact Hown|]. split; [exact Hint|].
  intros q Hq Hqi. apply (owner_unique fc c q p Hm); lia.
Qed.

Lemma topology_forward o nprocs PPN p : supported o -> 1 <= nprocs -> 1 <= PPN -> 0 <= p < nprocs ->
  let nn := topo_num_nodes nprocs PPN in
  0 <= Topology_get_node o nn PPN p < nn /\
  0 <= Topology_get_local_proc o nn PPN p < PPN /\
  Topology_get_global_proc o nn PPN (Topology_get_node o nn PPN p) (Topology_get_local_proc o nn PPN p) = p /\
  Topology_get_node_ok o nn PPN p = true /\ Topology_get_local_proc_ok o nn PPN p = true /\
  Topology_get_global_proc_ok o nn PPN (Topology_get_node o nn PPN p) (Topology_get_local_proc o nn PPN p) = true.
Proof.
  intros Ho Hn HP Hp nn. subst nn.
  destruct (ctor_num_nodes_spec nprocs PPN ltac:(lia) HP) as (_ & H1).
  apply (topo_forward o _ PPN nprocs p); auto; try lia; try (apply num_nodes_pos; lia).
Qed.

Lemma topology_backward o nprocs PPN nd lp : supported o -> 1 <= nprocs -> 1 <= PPN ->
  let nn := topo_num_nodes nprocs PPN in
  0 <= nd < nn -> 0 <= lp < PPN ->
  0 <= Topology_get_global_proc o nn PPN nd lp < nn * PPN /\
  Topology_get_node o nn PPN (Topology_get_global_proc o nn PPN nd lp) = nd /\
  Topology_get_local_proc o nn PPN (Topology_get_global_proc o nn PPN nd lp) = lp.
Proof.
  intros Ho Hn HP nn Hnd Hlp. apply topo_backward; auto; try (apply num_nodes_pos; lia).
Qed.

Lemma topology_injective o nprocs PPN p q : supported o -> 1 <= nprocs -> 1 <= PPN ->
  0 <= p < nprocs -> 0 <= q < nprocs ->
  let nn := topo_num_nodes nprocs PPN in
  Topology_get_node o nn PPN p = Topology_get_node o nn PPN q ->
  Topology_get_local_proc o nn PPN p = Topology_get_local_proc o nn PPN q -> p = q.
Proof.
  intros Ho Hn HP Hp Hq nn E1 E2.
  destruct (topology_forward o nprocs PPN p Ho Hn HP Hp) as (_ & _ & Gp & _).
  destruct (topology_forward o nprocs PPN q Ho Hn HP Hq) as (_ & _ & Gq & _).
  fold nn in Gp, Gq. rewrite <- Gp, <- Gq, E1, E2. reflexivity.
Qed.

(* ================= Comm_split(color = node, key = rank): on-node rank = get_local_proc ================= *)

(* among ranks of one node, the on-node index grows with the rank *)
Lemma topo_local_monotone o nn PPN nprocs p q :
  supported o -> 1 <= PPN -> 1 <= nn -> nprocs <= nn * PPN -> 0 <= q < p -> p < nprocs ->
  Topology_get_node o nn PPN q = Topology_get_node o nn PPN p ->
  Topology_get_local_proc o nn PPN q < Topology_get_local_proc o nn PPN p.
Proof.
  intros Ho HP Hn Hle Hq Hp.
  unfold Topology_get_node, Topology_get_local_proc.
  destruct Ho as [-> | [-> | ->]]; split_ifs; b2p; try lia;
    qr p nn; qr p PPN; qr q nn; qr q PPN; try (qr q0 2); try (qr q2 2); b2p; intros; try nia;
    match goal with |- ?a < ?b => assert (a <= b) by nia; lia end.
Qed.

(* every smaller on-node index of p's node is taken by a lower rank *)
Lemma topo_lower_exists o nn PPN nprocs p l :
  supported o -> 1 <= PPN -> 1 <= nn -> nprocs <= nn * PPN -> 0 <= p < nprocs ->
  0 <= l < Topology_get_local_proc o nn PPN p ->
  0 <= Topology_get_global_proc o nn PPN (Topology_get_node o nn PPN p) l < p.
Proof.
  intros Ho HP Hn Hle Hp.
  unfold Topology_get_node, Topology_get_local_proc, Topology_get_global_proc.
  destruct Ho as [-> | [-> | ->]]; split_ifs; b2p; try lia;
    qr p nn; qr p PPN; try (qr q 2); try (qr l 2); b2p; intros; try nia.
Qed.

(* counting through a bijection onto 0..n-1 *)
Lemma ranks_upto_NoDup n : NoDup (ranks_upto n).
Proof.
  unfold ranks_upto. apply FinFun.Injective_map_NoDup; [|apply seq_NoDup].
  intros a b H. apply Nat2Z.inj. exact H.
Qed.

Lemma ranks_upto_In n x : In x (ranks_upto n) <-> 0 <= x < Z.of_nat n.
Proof.
  unfold ranks_upto. rewrite in_map_iff. split.
  - intros (i & <- & Hi). apply in_seq in Hi. lia.
  - intros Hx. exists (Z.to_nat x). split; [lia|]. apply in_seq. lia.
Qed.

Lemma ranks_upto_length n : length (ranks_upto n) = n.
Proof. unfold ranks_upto. rewrite map_length, seq_length. reflexivity. Qed.

Lemma count_by_bijection (L : list Z) (f : Z -> Z) (n : nat) :
  NoDup L ->
  (forall x y, In x L -> In y L -> f x = f y -> x = y) ->
  (forall x, In x L -> 0 <= f x < Z.of_nat n) ->
  (forall l, 0 <= l < Z.of_nat n -> exists x, In x L /\ f x = l) ->
  length L = n.
Proof.
  intros Hnd Hinj Hran Hsur.
  assert (NDm : NoDup (map f L)).
  { clear Hran Hsur. induction L as [|x L IH]; cbn; [constructor|].
    inversion Hnd as [|? ? Hx HL]; subst. constructor.
    - intros Hin. apply in_map_iff in Hin. destruct Hin as (y & Hy & HyL).
      assert (y = x) by (apply Hinj; [right; exact HyL | left; reflexivity | exact Hy]). subst. contradiction.
    - apply IH; [exact HL|]. intros a b Ha Hb. apply Hinj; right; assumption. }
  assert (L1 : (length (map f L) <= length (ranks_upto n))%nat).
  { apply NoDup_incl_length; [exact NDm|]. intros y Hy. apply in_map_iff in Hy. destruct Hy as (x & <- & Hx).
    apply ranks_upto_In. apply Hran. exact Hx. }
  assert (L2 : (length (ranks_upto n) <= length (map f L))%nat).
  { apply NoDup_incl_length; [apply ranks_upto_NoDup|]. intros y Hy. apply ranks_upto_In in Hy.
    destruct (Hsur y Hy) as (x & Hx & <-). apply in_map. exact Hx. }
  rewrite map_length, ranks_upto_length in *. lia.
Qed.

(* the rank of p inside local_comm (number of lower ranks on its node) is get_local_proc p *)
Lemma split_rank_is_local_proc o nprocs PPN (p : nat) :
  supported o -> 1 <= PPN -> Z.of_nat p < nprocs ->
  Z.of_nat (split_rank o nprocs PPN p) = Topology_get_local_proc o (topo_num_nodes nprocs PPN) PPN (Z.of_nat p).
Proof.
  intros Ho HP Hp. unfold split_rank, node_of.
  set (nn := topo_num_nodes nprocs PPN).
  destruct (ctor_num_nodes_spec nprocs PPN ltac:(lia) HP) as (_ & Hnn). fold nn in Hnn.
  assert (Hn1 : 1 <= nn) by (apply num_nodes_pos; lia).
  destruct (topo_forward o nn PPN nprocs (Z.of_nat p) Ho HP Hn1 ltac:(lia) ltac:(lia)) as (Fnd & Flp & _).
  set (lp := Topology_get_local_proc o nn PPN (Z.of_nat p)) in *.
  rewrite <- (Z2Nat.id lp) by lia. f_equal.
  apply (count_by_bijection _ (Topology_get_local_proc o nn PPN)).
  - apply NoDup_filter, ranks_upto_NoDup.
  - intros x y Hx Hy E. apply filter_In in Hx, Hy. destruct Hx as (Hx & Ex), Hy as (Hy & Ey).
    apply ranks_upto_In in Hx, Hy. b2p.
    apply (topology_injective o nprocs PPN x y Ho ltac:(lia) HP ltac:(lia) ltac:(lia)); fold nn; congruence.
  - intros x Hx. apply filter_In in Hx. destruct Hx as (Hx & Ex). apply ranks_upto_In in Hx. b2p.
    destruct (topo_forward o nn PPN nprocs x Ho HP Hn1 ltac:(lia) ltac:(lia)) as (_ & Fx & _).
    pose proof (topo_local_monotone o nn PPN nprocs (Z.of_nat p) x Ho HP Hn1 ltac:(lia) ltac:(lia) ltac:(lia) Ex).
    fold lp in H. lia.
  - intros l Hl. rewrite Z2Nat.id in Hl by lia.
    pose proof (topo_lower_exists o nn PPN nprocs (Z.of_nat p) l Ho HP Hn1 ltac:(lia) ltac:(lia) Hl) as Hg.
    destruct (topo_backward o nn PPN (Topology_get_node o nn PPN (Z.of_nat p)) l Ho HP Hn1 Fnd ltac:(lia)) as (_ & Bn & Bl).
    exists (Topology_get_global_proc o nn PPN (Topology_get_node o nn PPN (Z.of_nat p)) l).
    split; [|exact Bl]. apply filter_In. split; [apply ranks_upto_In; lia|]. apply Z.eqb_eq. exact Bn.
Qed.
