(* C03 / C05: the package CONSTRUCTION (ParComm(partition, off_proc_column_map): owner lookup, run-length
   grouping, request exchange with any-source probes) yields, for every partition, every sorted column map
   and EVERY arrival order of the requests, a package that passes the forward check. *)
From Coq Require Import List Arith Lia Bool Permutation Sorted.
Import ListNotations.
From Raptor Require Import Base.Sums Dist.Comm Dist.CommProofs.

(* nondecreasing list *)
Fixpoint nondec (l : list nat) : Prop :=
  match l with
  | a :: ((b :: _) as tl) => a <= b /\ nondec tl
  | _ => True
  end.
Fixpoint increasing (l : list nat) : Prop :=
  match l with
  | a :: ((b :: _) as tl) => a < b /\ increasing tl
  | _ => True
  end.

Lemma nondec_tl a l : nondec (a :: l) -> nondec l.
Proof. destruct l; simpl; tauto. Qed.
Lemma increasing_tl a l : increasing (a :: l) -> increasing l.
Proof. destruct l; simpl; tauto. Qed.

Lemma nondec_nth l : nondec l -> forall i j, i <= j -> j < length l -> nth i l 0 <= nth j l 0.
Proof.
  induction l as [|a l IH]; intros H i j Hij Hj; simpl in Hj; [lia|].
  destruct j as [|j]; [replace i with 0 by lia; lia|].
  destruct i as [|i].
  - simpl. destruct l as [|b l]; [simpl in Hj; lia|]. destruct H as [Hab H].
    specialize (IH H 0 j (Nat.le_0_l j) ltac:(simpl in *; lia)). simpl in IH. simpl. lia.
  - simpl. apply IH; [apply (nondec_tl _ _ H)|lia|lia].
Qed.

(* ---- owner lookup ---- *)
Lemma owner_from_ge fc r c : r <= owner_from fc r c.
Proof.
  revert r. induction fc as [|lo fc IH]; intros r; simpl; [lia|].
  destruct fc as [|hi tl]; [lia|]. destruct ((lo <=? c) && (c <? hi)); [lia|].
  specialize (IH (S r)). lia.
Qed.

Lemma owner_from_cons lo hi tl r c :
  owner_from (lo :: hi :: tl) r c = if (lo <=? c) && (c <? hi) then r else owner_from (hi :: tl) (S r) c.
Proof. reflexivity. Qed.

Lemma owner_from_spec fc : forall r c, nondec fc -> 2 <= length fc -> nth 0 fc 0 <= c -> c < last fc 0 ->
  let o := owner_from fc r c in
  o - r + 1 < length fc /\ nth (o - r) fc 0 <= c /\ c < nth (o - r + 1) fc 0.
Proof.
  induction fc as [|lo fc IH]; intros r c Hs Hl Hlo Hhi; simpl in Hl; [lia|].
  destruct fc as [|hi tl]; [simpl in Hl; lia|].
  rewrite owner_from_cons. destruct ((lo <=? c) && (c <? hi)) eqn:E.
  - apply andb_prop in E. destruct E as [E1 E2]. apply Nat.leb_le in E1. apply Nat.ltb_lt in E2.
    cbv zeta. replace (r - r) with 0 by lia. simpl. repeat split; lia.
  - assert (Hc : hi <= c).
    { simpl in Hlo. destruct (lo <=? c) eqn:E1; [|apply Nat.leb_gt in E1; lia].
      destruct (c <? hi) eqn:E2; [discriminate|]. apply Nat.ltb_ge in E2. exact E2. }
    destruct tl as [|x tl'].
    + simpl in Hhi. lia.
    + specialize (IH (S r) c (nondec_tl _ _ Hs) ltac:(simpl; lia) Hc ltac:(exact Hhi)).
      pose proof (owner_from_ge (hi :: x :: tl') (S r) c) as Hge.
      cbv zeta in IH |- *.
      set (o := owner_from (hi :: x :: tl') (S r) c) in *.
      destruct IH as [I1 [I2 I3]].
      replace (o - r) with (S (o - S r)) by lia.
      replace (S (o - S r) + 1) with (S (o - S r + 1)) by lia.
      cbn [nth length] in *. repeat split; try lia; assumption.
Qed.

Lemma owner_from_mono fc : forall r c c', nondec fc -> nth 0 fc 0 <= c -> c <= c' ->
  owner_from fc r c <= owner_from fc r c'.
Proof.
  induction fc as [|lo fc IH]; intros r c c' Hs Hlo Hcc; simpl; [lia|].
  destruct fc as [|hi tl]; [lia|].
  destruct ((lo <=? c) && (c <? hi)) eqn:E.
  - destruct ((lo <=? c') && (c' <? hi)); [lia|].
    pose proof (owner_from_ge (hi :: tl) (S r) c'). lia.
  - assert (Hc : hi <= c).
    { simpl in Hlo. destruct (lo <=? c) eqn:E1; [|apply Nat.leb_gt in E1; lia].
      destruct (c <? hi) eqn:E2; [discriminate|]. apply Nat.ltb_ge in E2. exact E2. }
    replace ((lo <=? c') && (c' <? hi)) with false.
    + apply IH; [apply (nondec_tl _ _ Hs)|simpl; exact Hc|exact Hcc].
    + symmetry. apply andb_false_iff. right. apply Nat.ltb_ge. lia.
Qed.

Section Build.
Variable fc : list nat.                 (* first_cols, length P+1 *)
Variable colmaps : list (list nat).
Variable sigma : nat -> list (nat * list nat) -> list (nat * list nat).
Let P := length colmaps.
Let N := last fc 0.

Hypothesis Hfc_len : length fc = S P.
Hypothesis Hfc_sorted : nondec fc.
Hypothesis Hfc_zero : nth 0 fc 0 = 0.
Hypothesis Hcols_inc : forall p, p < P -> increasing (nth p colmaps []).
Hypothesis Hcols_rng : forall p c, p < P -> In c (nth p colmaps []) -> c < N.
Hypothesis Hsigma : forall q l, Permutation (sigma q l) l.

Lemma P_pos_of_col p c : p < P -> In c (nth p colmaps []) -> 2 <= length fc.
Proof. intros Hp _. rewrite Hfc_len. lia. Qed.

Lemma owner_ok c : 1 <= P -> c < N ->
  owner fc c < P /\ nth (owner fc c) fc 0 <= c /\ c < nth (S (owner fc c)) fc 0.
Proof.
  intros HP Hc. unfold owner.
  pose proof (owner_from_spec fc 0 c Hfc_sorted ltac:(rewrite Hfc_len; lia) ltac:(rewrite Hfc_zero; lia) Hc) as H.
  simpl in H. rewrite Nat.sub_0_r in H. destruct H as [H1 [H2 H3]].
  rewrite Hfc_len in H1. replace (owner_from fc 0 c + 1) with (S (owner_from fc 0 c)) in * by lia.
  repeat split; try lia; assumption.
Qed.

(* ---- run-length grouping ---- *)
Definition grp := group_by_owner fc.

Lemma grp_concat cols : flat_map snd (grp cols) = cols.
Proof.
  unfold grp. induction cols as [|c cols IH]; simpl; [reflexivity|].
  destruct (group_by_owner fc cols) as [|[o cs] rest] eqn:E; simpl in *.
  - destruct cols; [reflexivity|]. simpl in E.
    destruct (group_by_owner fc cols) as [|[? ?] ?]; [discriminate|].
    destruct (_ =? _); discriminate.
  - destruct (o =? owner fc c); simpl; rewrite <- IH; reflexivity.
Qed.

Lemma grp_owner cols : forall g c, In g (grp cols) -> In c (snd g) -> fst g = owner fc c.
Proof.
  unfold grp. induction cols as [|c0 cols IH]; simpl; intros g c Hg Hc; [contradiction|].
  destruct (group_by_owner fc cols) as [|[o cs] rest] eqn:E.
  - destruct Hg as [<-|[]]. simpl in *. destruct Hc as [<-|[]]. reflexivity.
  - destruct (o =? owner fc c0) eqn:Eo.
    + apply Nat.eqb_eq in Eo. destruct Hg as [<-|Hg].
      * simpl in *. destruct Hc as [<-|Hc]; [exact Eo|]. apply (IH (o, cs) c); [left; reflexivity|exact Hc].
      * apply (IH g c); [right; exact Hg|exact Hc].
    + destruct Hg as [<-|Hg].
      * simpl in *. destruct Hc as [<-|[]]. reflexivity.
      * apply (IH g c); [exact Hg|exact Hc].
Qed.

Lemma grp_nonempty cols g : In g (grp cols) -> snd g <> [].
Proof.
  unfold grp. revert g. induction cols as [|c0 cols IH]; simpl; intros g Hg; [contradiction|].
  destruct (group_by_owner fc cols) as [|[o cs] rest] eqn:E.
  - destruct Hg as [<-|[]]. simpl. discriminate.
  - destruct (o =? owner fc c0).
    + destruct Hg as [<-|Hg]; [simpl; discriminate|]. apply IH. right. exact Hg.
    + destruct Hg as [<-|Hg]; [simpl; discriminate|]. apply IH. exact Hg.
Qed.

(* keys strictly increasing: each owner occurs in one group *)
Lemma grp_keys_sorted cols : increasing cols -> (forall c, In c cols -> c < N) -> 1 <= P ->
  increasing (map fst (grp cols)) /\
  (forall c0 rest, cols = c0 :: rest -> exists cs tl, grp cols = (owner fc c0, cs) :: tl).
Proof.
  unfold grp. induction cols as [|c0 cols IH]; intros Hinc Hrng HP; simpl.
  - split; [exact I|intros; discriminate].
  - assert (IH' := IH (increasing_tl _ _ Hinc) (fun c Hc => Hrng c (or_intror Hc)) HP).
    destruct IH' as [IHs IHh].
    destruct (group_by_owner fc cols) as [|[o cs] rest] eqn:E.
    + split; [simpl; exact I|]. intros c1 r1 H1. inversion H1; subst. eauto.
    + destruct (o =? owner fc c0) eqn:Eo.
      * apply Nat.eqb_eq in Eo. split.
        -- simpl in *. exact IHs.
        -- intros c1 r1 H1. inversion H1; subst. eauto.
      * split.
        -- apply Nat.eqb_neq in Eo. cbn [map fst]. cbn [map fst] in IHs.
           destruct cols as [|c1 cols']; [simpl in E; discriminate|].
           destruct (IHh c1 cols' eq_refl) as [cs' [tl' Hh]]. assert (Eo1 : o = owner fc c1) by (inversion Hh; reflexivity). subst o.
           assert (Hle : owner fc c0 <= owner fc c1).
           { unfold owner. apply owner_from_mono; [exact Hfc_sorted|rewrite Hfc_zero; lia|].
             simpl in Hinc. lia. }
           inversion Hh; subst.
           change (owner fc c0 < owner fc c1 /\ increasing (owner fc c1 :: map fst tl')).
           split; [lia|exact IHs].
        -- intros c1 r1 H1. inversion H1; subst. eauto.
Qed.

Lemma increasing_fst_unique (l : list (nat * list nat)) : increasing (map fst l) ->
  forall g1 g2, In g1 l -> In g2 l -> fst g1 = fst g2 -> g1 = g2.
Proof.
  assert (Hlt : forall l : list (nat * list nat), increasing (map fst l) ->
            forall a rest, l = a :: rest -> forall g, In g rest -> fst a < fst g).
  { clear. induction l as [|x l IH]; intros Hinc a rest E g Hg; [discriminate|].
    inversion E; subst. destruct rest as [|y rest]; [contradiction|].
    simpl in Hinc. destruct Hinc as [Hxy Hinc].
    destruct Hg as [<-|Hg]; [exact Hxy|].
    specialize (IH Hinc y rest eq_refl g Hg). lia. }
  induction l as [|x l IH]; intros Hinc g1 g2 H1 H2 E; [contradiction|].
  destruct H1 as [<-|H1]; destruct H2 as [<-|H2]; try reflexivity.
  - pose proof (Hlt (x :: l) Hinc x l eq_refl g2 H2). lia.
  - pose proof (Hlt (x :: l) Hinc x l eq_refl g1 H1). lia.
  - apply IH; try assumption. destruct l as [|y l]; [exact I|]. simpl in Hinc. apply Hinc.
Qed.

(* ---- requests and the send side ---- *)
Lemma in_combine_seq {X} (l : list X) (dx : X) s p x :
  In (p, x) (combine (seq s (length l)) l) <-> s <= p < s + length l /\ x = nth (p - s) l dx.
Proof.
  revert s. induction l as [|a l IH]; intros s; simpl.
  - split; [contradiction|lia].
  - rewrite IH. split.
    + intros [H|[H1 H2]].
      * inversion H; subst. replace (p - p) with 0 by lia. split; [lia|reflexivity].
      * split; [lia|]. replace (p - s) with (S (p - S s)) by lia. exact H2.
    + intros [H1 H2]. destruct (Nat.eq_dec s p) as [->|Hne].
      * left. replace (p - p) with 0 in H2 by lia. subst. reflexivity.
      * right. split; [lia|]. replace (p - s) with (S (p - S s)) in H2 by lia. exact H2.
Qed.

Lemma in_requests q r :
  In r (requests_to fc colmaps q) <->
  fst r < P /\ In (q, snd r) (grp (nth (fst r) colmaps [])).
Proof.
  unfold requests_to, grp. rewrite in_flat_map. split.
  - intros [[p cm] [Hpc Hr]]. simpl in Hr. apply in_flat_map in Hr. destruct Hr as [g [Hg Hr]].
    destruct (fst g =? q) eqn:E; [|contradiction]. apply Nat.eqb_eq in E. destruct Hr as [<-|[]]. simpl.
    apply (in_combine_seq colmaps [] 0 p cm) in Hpc. destruct Hpc as [Hp Hcm]. rewrite Nat.sub_0_r in Hcm. subst cm.
    split; [unfold P; lia|]. destruct g as [o cs]. simpl in *. subst o. exact Hg.
  - intros [Hp Hg]. exists (fst r, nth (fst r) colmaps []). split.
    + apply (in_combine_seq colmaps [] 0). rewrite Nat.sub_0_r. split; [unfold P in Hp; lia|reflexivity].
    + simpl. apply in_flat_map. exists (q, snd r). split; [exact Hg|]. simpl. rewrite Nat.eqb_refl.
      left. destruct r; reflexivity.
Qed.

Lemma find_send_unique (h : list nat -> list nat) (l : list (nat * list nat)) p cs :
  In (p, cs) l -> (forall r, In r l -> fst r = p -> r = (p, cs)) ->
  find_send p (map (fun r => (fst r, h (snd r))) l) = h cs.
Proof.
  induction l as [|x l IH]; intros Hin Huniq; [contradiction|]. simpl.
  destruct (fst x =? p) eqn:E.
  - apply Nat.eqb_eq in E. rewrite (Huniq x (or_introl eq_refl) E). reflexivity.
  - apply IH.
    + destruct Hin as [->|Hin]; [simpl in E; rewrite Nat.eqb_refl in E; discriminate|exact Hin].
    + intros r Hr. apply Huniq. right. exact Hr.
Qed.

Lemma pk_build q : q < P -> pk (build_world fc colmaps sigma) q = build_pkg fc colmaps sigma q.
Proof. intros Hq. unfold pk, build_world. apply nth_map_seq. exact Hq. Qed.

Definition block_ids : list (list nat) :=
  map (fun q => seq (nth q fc 0) (nth (S q) fc 0 - nth q fc 0)) (seq 0 P).

Lemma fit_exact {A} (d : A) (l : list A) : fit d (length l) l = l.
Proof. unfold fit. rewrite firstn_app, firstn_all, Nat.sub_diag. simpl. apply app_nil_r. Qed.

(* what owner o packs for requester p is exactly p's run of columns owned by o *)
Lemma msg_built p o cs : p < P -> In (o, cs) (grp (nth p colmaps [])) ->
  msg_fwd N (build_world fc colmaps sigma) block_ids o p = cs.
Proof.
  intros Hp Hg.
  assert (HP : 1 <= P) by lia.
  pose proof (grp_keys_sorted (nth p colmaps []) (Hcols_inc p Hp) (fun c Hc => Hcols_rng p c Hp Hc) HP) as [Hkeys _].
  assert (Hne := grp_nonempty _ _ Hg). simpl in Hne.
  destruct cs as [|c0 cs']; [contradiction|].
  assert (Hc0 : In c0 (nth p colmaps [])).
  { rewrite <- (grp_concat (nth p colmaps [])). apply in_flat_map. exists (o, c0 :: cs'). split; [exact Hg|left; reflexivity]. }
  assert (Ho : o = owner fc c0) by (apply (grp_owner _ (o, c0 :: cs') c0 Hg); left; reflexivity).
  destruct (owner_ok c0 HP (Hcols_rng p c0 Hp Hc0)) as [HoP _]. rewrite <- Ho in HoP.
  unfold msg_fwd. rewrite pk_build by exact HoP. cbn [send_msgs build_pkg].
  rewrite (find_send_unique (map (fun c => c - nth o fc 0)) _ p (c0 :: cs')).
  - (* the indices point back at the requested columns *)
    unfold pack. rewrite map_map. unfold block_ids. rewrite nth_map_seq by exact HoP.
    rewrite <- (map_id (c0 :: cs')) at 2. apply map_ext_in. intros c Hc.
    assert (Hcin : In c (nth p colmaps [])).
    { rewrite <- (grp_concat (nth p colmaps [])). apply in_flat_map. exists (o, c0 :: cs'). split; [exact Hg|exact Hc]. }
    assert (Hoc : o = owner fc c) by (apply (grp_owner _ (o, c0 :: cs') c Hg Hc)).
    destruct (owner_ok c HP (Hcols_rng p c Hp Hcin)) as [_ [Hlo Hhi]]. rewrite <- Hoc in Hlo, Hhi.
    rewrite seq_nth by lia. lia.
  - apply (Permutation_in _ (Permutation_sym (Hsigma o _))). apply in_requests. simpl. split; assumption.
  - intros r Hr Hfst. apply (Permutation_in _ (Hsigma o _)) in Hr. apply in_requests in Hr.
    destruct Hr as [_ Hr]. rewrite Hfst in Hr.
    pose proof (increasing_fst_unique _ Hkeys (o, snd r) (o, c0 :: cs') Hr Hg eq_refl) as E.
    inversion E. destruct r as [r1 r2]. simpl in *. subst. reflexivity.
Qed.

(* the constructed package delivers, on the vector of global ids, every rank's column map:
   it passes the forward check, for every arrival order sigma *)
Theorem build_world_forward p : p < P ->
  forward N (build_world fc colmaps sigma) block_ids p = nth p colmaps [].
Proof.
  intros Hp. unfold forward. rewrite pk_build by exact Hp. cbn [recv_msgs build_pkg].
  rewrite flat_map_concat_map, map_map, <- flat_map_concat_map.
  rewrite <- (grp_concat (nth p colmaps [])) at 2. fold grp.
  cbn [fst snd].
  assert (G : forall l, (forall g, In g l -> In g (grp (nth p colmaps []))) ->
     flat_map (fun g => fit N (length (snd g)) (msg_fwd N (build_world fc colmaps sigma) block_ids (fst g) p)) l
     = flat_map snd l).
  { induction l as [|g l IH]; intros Hl; [reflexivity|]. cbn [flat_map].
    rewrite IH by (intros; apply Hl; right; assumption). f_equal.
    destruct g as [o cs]. cbn [fst snd]. rewrite (msg_built p o cs Hp (Hl (o, cs) (or_introl eq_refl))).
    apply fit_exact. }
  apply G. auto.
Qed.

Theorem build_world_fwd_ok : fwd_ok (build_world fc colmaps sigma) block_ids colmaps N = true.
Proof.
  unfold fwd_ok. apply forallb_forall. intros p Hp. apply in_seq in Hp.
  unfold build_world in Hp. rewrite map_length, seq_length in Hp.
  rewrite build_world_forward by (unfold P; lia).
  unfold nat_list_eqb. rewrite Nat.eqb_refl. simpl.
  clear. induction (nth p colmaps []) as [|a l IH]; simpl; [reflexivity|]. rewrite Nat.eqb_refl. exact IH.
Qed.

End Build.
