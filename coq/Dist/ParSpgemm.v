(* Executable model of raptor's distributed sparse matrix-matrix products
   (raptor/util/linalg/par_matmult.cpp: ParCSRMatrix::mult / tap_mult / mult_helper and
   mult_T / tap_mult_T / mult_T_partial / mult_T_combine; raptor/core/comm_mat.cpp row exchange).

   MPI is not modelled.  The product is a pure function of the GLOBAL factors and of the
   partitions (lists of contiguous block sizes, empty blocks allowed).

   Modelling device: every local block is written with GLOBAL row and column ids (rows a rank
   does not own are empty), so the local renumbering tables of the code (on_proc_column_map,
   off_proc_column_map, part_to_col, global_to_C, B_to_C, map_to_C, col_orig_to_new) do not
   appear; the correspondence drivers print the implementation's blocks through those tables,
   so a wrong table shows up as a wrong global column.  What is kept from the code: which of
   the four (mult) resp. 2 + 2P (mult_T) partial products are formed from which blocks, that
   each partial product goes through the sequential accumulator with its drop (Spgemm.v),
   that received rows are split by the receiver's column range, and that partial products
   are combined by add_append (concatenate rows, sort, remove_duplicates with its own drop)
   resp. add(.., false) (sort only) for the rows sent back by mult_T.

   The row exchange itself is a Section variable (fetch / fetchT): property C03 states that
   it delivers exactly the owner's rows; the C06 theorems take that as a hypothesis. *)
From Raptor Require Import Base.Sums Sparse.Defs Sparse.Spgemm.

(* ---------- contiguous partitions: list of block sizes ---------- *)
Definition psum (p : list nat) : nat := fold_right Nat.add 0 p.
Definition pfirst (p : list nat) (r : nat) : nat := psum (firstn r p).      (* first index of block r *)
Definition psize (p : list nat) (r : nat) : nat := nth r p 0.
Definition inblk (p : list nat) (r c : nat) : bool :=
  (pfirst p r <=? c) && (c <? pfirst p r + psize p r).
Fixpoint owner_from (p : list nat) (r c : nat) : nat :=
  match p with
  | [] => r
  | s :: p' => if c <? s then r else owner_from p' (S r) (c - s)
  end.
Definition owner (p : list nat) (c : nat) : nat := owner_from p 0 c.

(* sorted list of the distinct members (what std::sort + the prev_col loop / std::set produce) *)
Fixpoint uniq_adj (l : list nat) : list nat :=
  match l with
  | [] => []
  | a :: l' => match l' with
               | [] => [a]
               | b :: _ => if a =? b then uniq_adj l' else a :: uniq_adj l'
               end
  end.
Definition sort_unique (l : list nat) : list nat := uniq_adj (isort_by Nat.leb l).

Section ParSpgemm.
Variable F : Type.
Variables (zero : F) (add mul : F -> F -> F).
Variable smallm : F -> bool.   (* spgemm accumulator: value not kept (fabs <= zero_tol) *)
Variable small : F -> bool.    (* remove_duplicates: value not kept (fabs < zero_tol) *)

Notation spg := (spgemm_helper F zero add mul smallm).
Notation spgT := (spgemm_T_helper F zero add mul smallm).
Notation cadd := (csr_add F add small).

Definition rows_where (n : nat) (f : nat -> bool) (g : nat -> list (nat * F)) : list (list (nat * F)) :=
  map (fun i => if f i then g i else []) (seq 0 n).
Definition keep (f : nat -> bool) (row : list (nat * F)) : list (nat * F) :=
  filter (fun q => f (fst q)) row.

(* the part of a global CSR matrix with rows selected by fr and columns selected by fc *)
Definition blk (M : csr F) (fr fc : nat -> bool) : csr F :=
  mkCsr (csr_nr M) (csr_nc M)
        (rows_where (csr_nr M) fr (fun i => keep fc (nth i (csr_rows M) []))).
Definition blk_csc (M : csc F) (fr fc : nat -> bool) : csc F :=   (* fr on row ids, fc on column ids *)
  mkCsc (csc_nr M) (csc_nc M)
        (rows_where (csc_nc M) fc (fun j => keep fr (nth j (csc_cols M) []))).
Definition notb (f : nat -> bool) (c : nat) : bool := negb (f c).

(* rank r's on_proc / off_proc of M (rows partitioned by pr, columns by pc) *)
Definition on_blk (M : csr F) (pr pc : list nat) (r : nat) := blk M (inblk pr r) (inblk pc r).
Definition off_blk (M : csr F) (pr pc : list nat) (r : nat) := blk M (inblk pr r) (notb (inblk pc r)).
(* off_proc_column_map as a set: the global columns stored in off_proc *)
Definition off_cols (M : csr F) (pr pc : list nat) (r : nat) : list nat :=
  flat_map (map fst) (csr_rows (off_blk M pr pc r)).
Definition needs (M : csr F) (pr pc : list nat) (r k : nat) : bool :=
  existsb (Nat.eqb k) (off_cols M pr pc r).

(* a row of B as its owner packs it in init_par_mat_comm: on_proc entries, then off_proc entries *)
Definition owner_row (B : csr F) (pk pc : list nat) (k : nat) : list (nat * F) :=
  let s := owner pk k in
  let row := nth k (csr_rows B) [] in
  keep (inblk pc s) row ++ keep (notb (inblk pc s)) row.

(* ================= C = A * B  (ParCSRMatrix::mult, tap_mult, mult_helper) =================
   A: rows partitioned by pa, columns by pk;  B: rows by pk, columns by pc. *)
Section Mult.
Variable fetch : nat -> nat -> list (nat * F).   (* C03: what rank r receives for global row k of B *)
Variables (A B : csr F) (pa pk pc : list nat).

(* recv_mat split by the receiver's column range *)
Definition recv_blk (r : nat) (fc : nat -> bool) : csr F :=
  mkCsr (csr_nr B) (csr_nc B) (rows_where (csr_nr B) (needs A pa pk r) (fun k => keep fc (fetch r k))).

Definition par_mult_on (r : nat) : csr F :=
  cadd (spg (on_blk A pa pk r) (on_blk B pk pc r) None)                   (* C_on_on  *)
       (spg (off_blk A pa pk r) (recv_blk r (inblk pc r)) None) true.      (* C_off_on *)
Definition par_mult_off (r : nat) : csr F :=
  cadd (spg (on_blk A pa pk r) (off_blk B pk pc r) None)                  (* C_on_off  *)
       (spg (off_blk A pa pk r) (recv_blk r (notb (inblk pc r))) None) true.  (* C_off_off *)

(* C->off_proc_column_map : received off-range columns and B's own off-process columns, sorted, distinct *)
Definition par_mult_offmap (r : nat) : list nat :=
  sort_unique (flat_map (map fst) (csr_rows (recv_blk r (notb (inblk pc r)))) ++ sort_unique (off_cols B pk pc r)).

(* the gathered product: row i is produced by the rank owning i *)
Definition par_mult : csr F :=
  mkCsr (csr_nr A) (csr_nc B)
        (map (fun i => let r := owner pa i in
                       nth i (csr_rows (par_mult_on r)) [] ++ nth i (csr_rows (par_mult_off r)) [])
             (seq 0 (csr_nr A))).
End Mult.

(* ================= C = A^T * B  (mult_T, tap_mult_T, mult_T_partial, mult_T_combine) =================
   A (as ParCSC): rows partitioned by pk, columns by pm;  B: rows by pk, columns by pc.
   C: rows by pm, columns by pc. *)
Section MultT.
Variable fetchT : nat -> nat -> list (nat * F).   (* C03 (reverse): what rank r receives for its row i of C *)
Variables (A : csc F) (B : csr F) (pk pm pc : list nat).

(* rank s holds the rows k of A in its block of pk: on_proc = columns in its block of pm, off_proc = the others *)
Definition AT_on (s : nat) : csc F := blk_csc A (inblk pk s) (inblk pm s).
Definition AT_off (s : nat) : csc F := blk_csc A (inblk pk s) (notb (inblk pm s)).

(* mult_T_partial on rank s: (A_off)^T B_on and (A_off)^T B_off with global columns, added without remove_duplicates *)
Definition par_mult_T_tmp (s : nat) : csr F :=
  cadd (spgT (AT_off s) (on_blk B pk pc s) None) (spgT (AT_off s) (off_blk B pk pc s) None) false.

Definition recvT_blk (r : nat) (fc : nat -> bool) : csr F :=
  mkCsr (csc_nc A) (csr_nc B) (rows_where (csc_nc A) (inblk pm r) (fun i => keep fc (fetchT r i))).

Definition par_mult_T_on (r : nat) : csr F :=
  cadd (spgT (AT_on r) (on_blk B pk pc r) None) (recvT_blk r (inblk pc r)) true.
Definition par_mult_T_off (r : nat) : csr F :=
  cadd (spgT (AT_on r) (off_blk B pk pc r) None) (recvT_blk r (notb (inblk pc r))) true.

(* condensed C->off_proc_column_map: the off-range columns that are stored *)
Definition par_mult_T_offmap (r : nat) : list nat :=
  sort_unique (flat_map (map fst) (csr_rows (par_mult_T_off r))).

Definition par_mult_T : csr F :=
  mkCsr (csc_nc A) (csr_nc B)
        (map (fun i => let r := owner pm i in
                       nth i (csr_rows (par_mult_T_on r)) [] ++ nth i (csr_rows (par_mult_T_off r)) [])
             (seq 0 (csc_nc A))).

(* what the reverse row exchange delivers when it works (senders in rank order) *)
Definition sentT (r i : nat) : list (nat * F) :=
  flat_map (fun s => if s =? r then [] else nth i (csr_rows (par_mult_T_tmp s)) []) (seq 0 (length pk)).
End MultT.

(* the instances that are executed: the exchange delivers the owners' rows *)
Definition par_mult_std (A B : csr F) (pa pk pc : list nat) :=
  par_mult (fun _ k => owner_row B pk pc k) A B pa pk pc.
Definition par_mult_T_std (A : csc F) (B : csr F) (pk pm pc : list nat) :=
  par_mult_T (fun r i => sentT A B pk pm pc r i) A B pk pm pc.

(* the coarse operator as the AMG setup forms it:  AP = A->mult(P);  Ac = AP->mult_T(P)
   A: n x n partitioned by pa (rows and columns), P: n x nc with rows by pa and columns by pc *)
Definition par_galerkin (A P : csr F) (pa pc : list nat) : csr F :=
  par_mult_T_std (csr_to_csc P) (par_mult_std A P pa pa pc) pa pc pc.

End ParSpgemm.
