(* C05 - a small-step network machine for the message-passing protocols of the library.

   P ranks run the SAME program (SPMD), a list of items:
     Barrier            a collective on the world communicator: no rank leaves barrier number j before
                        every rank has reached it
     Phase tag dests    every rank r first posts one non-blocking send to each element of `dests r`
                        (duplicates allowed; in any order: the move carries the order), then performs exactly
                          expected r = #{(s, occurrence of r in dests s) | s < P}
                        wildcard receives (MPI_ANY_SOURCE) restricted to the phase's tag, then moves on.
   This is the shape of raptor's package constructions: an Allreduce/Barrier tells each rank how many
   messages to expect, then `Isend*; (Probe/Recv (ANY_SOURCE, tag))^n`.

   Network: a list (used as a multiset) of in-flight messages (src, dst, tag, item); `item` is the GHOST
   index of the program item that sent the message, invisible to the receiver.  A wildcard receive of rank r
   in a phase with tag t may take ANY in-flight message with dst = r and tag = t (an over-approximation of
   MPI, whose non-overtaking rule only orders the messages of one (src,dst) pair).

   The semantics is executable: `exec_step P prog st a` performs action `a` (or returns None when `a` is
   not enabled); `step` is "some action is enabled and leads there", so every interleaving / every delay of
   every rank is an execution.  No proofs in this file (it is extracted). *)
From Coq Require Import List Arith Bool Permutation.
Import ListNotations.

Inductive item : Type :=
| Barrier
| Phase (tag : nat) (dests : nat -> list nat).

Definition program := list item.

Record msg : Type := mkMsg { m_src : nat; m_dst : nat; m_tag : nat; m_item : nat }.

(* what a rank-local observer (the PMPI shim) sees *)
Inductive event : Type :=
| EvSend (dst tag : nat)
| EvRecvAny (src tag : nat)
| EvBarrier.

(* per-rank state: program counter, "sends of the current phase posted", number of receives done in the
   current phase, ghost log of (item the rank was executing, message received), observed events (newest first) *)
Record rstate : Type := mkR {
  pc : nat; sent : bool; nrecv : nat; rlog : list (nat * msg); revs : list event }.

Record state : Type := mkS { ranks : list rstate; net : list msg }.

Definition r_init : rstate := mkR 0 false 0 [] [].
Definition init (P : nat) : state := mkS (repeat r_init P) [].

(* ---- counting ---- *)
Fixpoint sumn (n : nat) (g : nat -> nat) : nat :=
  match n with 0 => 0 | S n' => sumn n' g + g n' end.

Definition cnt (r : nat) (l : list nat) : nat := count_occ Nat.eq_dec l r.

(* number of messages addressed to r in a phase with destination lists d *)
Definition expected (P : nat) (d : nat -> list nat) (r : nat) : nat :=
  sumn P (fun s => cnt r (d s)).

(* the sources of those messages, with multiplicity *)
Definition senders (P : nat) (d : nat -> list nat) (r : nat) : list nat :=
  flat_map (fun s => repeat s (cnt r (d s))) (seq 0 P).

Definition countb {A : Type} (p : A -> bool) (l : list A) : nat := length (filter p l).

(* ---- list surgery ---- *)
Fixpoint upd {A : Type} (l : list A) (k : nat) (x : A) : list A :=
  match l, k with
  | [], _ => []
  | _ :: l', 0 => x :: l'
  | y :: l', S k' => y :: upd l' k' x
  end.

Fixpoint remove_nth {A : Type} (k : nat) (l : list A) : list A :=
  match l, k with
  | [], _ => []
  | _ :: l', 0 => l'
  | y :: l', S k' => y :: remove_nth k' l'
  end.

Fixpoint remove_one (x : nat) (l : list nat) : option (list nat) :=
  match l with
  | [] => None
  | y :: l' => if x =? y then Some l'
               else match remove_one x l' with Some l'' => Some (y :: l'') | None => None end
  end.

(* multiset equality of two lists of ranks *)
Fixpoint perm_b (l1 l2 : list nat) : bool :=
  match l1 with
  | [] => match l2 with [] => true | _ => false end
  | x :: l1' => match remove_one x l2 with Some l2' => perm_b l1' l2' | None => false end
  end.

(* ---- moves ---- *)
Inductive action : Type :=
| ASend (r : nat) (ds : list nat)   (* rank r posts all sends of its current phase, in the order ds *)
| ARecv (r k : nat)        (* rank r's wildcard receive takes the k-th in-flight message *)
| AAdv (r : nat)           (* rank r has all its messages and moves to the next item *)
| ABar (r : nat).          (* rank r leaves the barrier *)

Definition send_events (t : nat) (ds : list nat) : list event := map (fun dst => EvSend dst t) ds.
Definition send_msgs (r t j : nat) (ds : list nat) : list msg := map (fun dst => mkMsg r dst t j) ds.

Definition exec_step (P : nat) (prog : program) (st : state) (a : action) : option state :=
  match a with
  | ASend r ds =>
      match nth_error (ranks st) r with
      | Some rs =>
          match nth_error prog (pc rs) with
          | Some (Phase t d) =>
              if sent rs || negb (perm_b ds (d r)) then None else
              Some (mkS (upd (ranks st) r
                           (mkR (pc rs) true (nrecv rs) (rlog rs) (rev (send_events t ds) ++ revs rs)))
                        (net st ++ send_msgs r t (pc rs) ds))
          | _ => None
          end
      | None => None
      end
  | ARecv r k =>
      match nth_error (ranks st) r with
      | Some rs =>
          match nth_error prog (pc rs) with
          | Some (Phase t d) =>
              if sent rs && (nrecv rs <? expected P d r) then
                match nth_error (net st) k with
                | Some m =>
                    if (m_dst m =? r) && (m_tag m =? t) then
                      Some (mkS (upd (ranks st) r
                                   (mkR (pc rs) true (S (nrecv rs)) ((pc rs, m) :: rlog rs)
                                        (EvRecvAny (m_src m) t :: revs rs)))
                                (remove_nth k (net st)))
                    else None
                | None => None
                end
              else None
          | _ => None
          end
      | None => None
      end
  | AAdv r =>
      match nth_error (ranks st) r with
      | Some rs =>
          match nth_error prog (pc rs) with
          | Some (Phase t d) =>
              if sent rs && (nrecv rs =? expected P d r) then
                Some (mkS (upd (ranks st) r (mkR (S (pc rs)) false 0 (rlog rs) (revs rs))) (net st))
              else None
          | _ => None
          end
      | None => None
      end
  | ABar r =>
      match nth_error (ranks st) r with
      | Some rs =>
          match nth_error prog (pc rs) with
          | Some Barrier =>
              if forallb (fun q => pc rs <=? pc q) (ranks st) then
                Some (mkS (upd (ranks st) r (mkR (S (pc rs)) false 0 (rlog rs) (EvBarrier :: revs rs))) (net st))
              else None
          | _ => None
          end
      | None => None
      end
  end.

Definition step (P : nat) (prog : program) (st st' : state) : Prop :=
  exists a, exec_step P prog st a = Some st'.

Inductive reachable (P : nat) (prog : program) : state -> Prop :=
| reach_init : reachable P prog (init P)
| reach_step : forall st st', reachable P prog st -> step P prog st st' -> reachable P prog st'.

(* n-step executions *)
Inductive steps (P : nat) (prog : program) : nat -> state -> state -> Prop :=
| steps_O : forall st, steps P prog 0 st st
| steps_S : forall n st st' st'', step P prog st st' -> steps P prog n st' st'' -> steps P prog (S n) st st''.

(* running a schedule (a list of actions) *)
Fixpoint run (P : nat) (prog : program) (st : state) (acts : list action) : option state :=
  match acts with
  | [] => Some st
  | a :: acts' => match exec_step P prog st a with Some st' => run P prog st' acts' | None => None end
  end.

Definition finished (prog : program) (st : state) : Prop :=
  forall r rs, nth_error (ranks st) r = Some rs -> pc rs = length prog.

Definition finishedb (prog : program) (st : state) : bool :=
  forallb (fun rs => length prog <=? pc rs) (ranks st).

(* ---- the static discipline ---- *)
(* between any two Phase items with the same tag there is a Barrier item *)
Fixpoint phases_ok_aux (seen : list nat) (prog : program) : bool :=
  match prog with
  | [] => true
  | Barrier :: p => phases_ok_aux [] p
  | Phase t _ :: p => negb (existsb (Nat.eqb t) seen) && phases_ok_aux (t :: seen) p
  end.

Definition phases_ok (prog : program) : bool := phases_ok_aux [] prog.

Definition phases_sep (prog : program) : Prop :=
  forall i j t d d', i < j ->
    nth_error prog i = Some (Phase t d) -> nth_error prog j = Some (Phase t d') ->
    exists k, i < k /\ k < j /\ nth_error prog k = Some Barrier.

(* destinations stay inside the world (needed only for "the network is empty at the end") *)
Definition dests_in_range (P : nat) (prog : program) : Prop :=
  forall j t d s x, nth_error prog j = Some (Phase t d) -> s < P -> In x (d s) -> x < P.

Definition dests_in_rangeb (P : nat) (prog : program) : bool :=
  forallb (fun it => match it with
                     | Barrier => true
                     | Phase _ d => forallb (fun s => forallb (fun x => x <? P) (d s)) (seq 0 P)
                     end) prog.

(* ---- termination measure: remaining sends + receives + advances + barriers ---- *)
Definition item_cost (P r : nat) (it : item) : nat :=
  match it with
  | Barrier => 1
  | Phase _ d => 1 + expected P d r + 1
  end.

Fixpoint items_cost (P r : nat) (p : program) : nat :=
  match p with [] => 0 | it :: p' => item_cost P r it + items_cost P r p' end.

Definition rank_work (P : nat) (prog : program) (r : nat) (rs : rstate) : nat :=
  match nth_error prog (pc rs) with
  | Some Barrier => 1
  | Some (Phase _ d) => (if sent rs then 0 else 1) + (expected P d r - nrecv rs) + 1
  | None => 0
  end + items_cost P r (skipn (S (pc rs)) prog).

Fixpoint ranks_work (P : nat) (prog : program) (r0 : nat) (l : list rstate) : nat :=
  match l with [] => 0 | rs :: l' => rank_work P prog r0 rs + ranks_work P prog (S r0) l' end.

Definition work (P : nat) (prog : program) (st : state) : nat := ranks_work P prog 0 (ranks st).

(* the bound for a whole run: every rank's cost of the whole program *)
Definition total_work (P : nat) (prog : program) : nat := sumn P (fun r => items_cost P r prog).

(* ---- trace conformance (rank-local view) ---- *)
(* n sends with tag t: returns their destinations and the rest *)
Fixpoint take_sends (n t : nat) (evs : list event) : option (list nat * list event) :=
  match n with
  | 0 => Some ([], evs)
  | S n' =>
      match evs with
      | EvSend dst t' :: e =>
          if t' =? t then
            match take_sends n' t e with Some (ds, e') => Some (dst :: ds, e') | None => None end
          else None
      | _ => None
      end
  end.

(* n wildcard receives with tag t: returns the sources they matched and the rest *)
Fixpoint take_recvs (n t : nat) (evs : list event) : option (list nat * list event) :=
  match n with
  | 0 => Some ([], evs)
  | S n' =>
      match evs with
      | EvRecvAny src t' :: e =>
          if t' =? t then
            match take_recvs n' t e with Some (ss, e') => Some (src :: ss, e') | None => None end
          else None
      | _ => None
      end
  end.

(* `trace_ok P prog r evs`: the observed event log of rank r is a possible complete run of the program:
   same sequence of items; per phase first the sends, to exactly `dests r` as a multiset, all with the
   phase's tag; then exactly `expected r` wildcard receives with the phase's tag, whose matched sources are
   exactly (as a multiset) the ranks that address r in this phase - a message taken from another phase
   shows up here as a wrong source *)
Fixpoint trace_ok (P : nat) (prog : program) (r : nat) (evs : list event) : bool :=
  match prog with
  | [] => match evs with [] => true | _ => false end
  | Barrier :: p => match evs with EvBarrier :: e => trace_ok P p r e | _ => false end
  | Phase t d :: p =>
      match take_sends (length (d r)) t evs with
      | Some (ds, e1) =>
          if perm_b ds (d r) then
            match take_recvs (expected P d r) t e1 with
            | Some (ss, e2) => if perm_b ss (senders P d r) then trace_ok P p r e2 else false
            | None => false
            end
          else false
      | None => false
      end
  end.

(* what `trace_ok` means (NetProofs.trace_ok_iff): the log is the concatenation, item by item, of
   [EvBarrier] for a barrier and, for a phase, sends with the phase's tag to a permutation of `dests r`
   followed by wildcard receives with the phase's tag whose sources are a permutation of `senders` *)
Inductive trace_spec (P r : nat) : program -> list event -> Prop :=
| TS_nil : trace_spec P r [] []
| TS_bar : forall p e, trace_spec P r p e -> trace_spec P r (Barrier :: p) (EvBarrier :: e)
| TS_phase : forall t d p ds ss e,
    Permutation ds (d r) -> Permutation ss (senders P d r) -> trace_spec P r p e ->
    trace_spec P r (Phase t d :: p)
               (send_events t ds ++ map (fun s => EvRecvAny s t) ss ++ e).

(* ---- examples (T3) ---- *)
(* three ranks; phase A: 0 -> 2; phase B: 1 -> 2; both with tag 7 *)
Definition dA (s : nat) : list nat := match s with 0 => [2] | _ => [] end.
Definition dB (s : nat) : list nat := match s with 1 => [2] | _ => [] end.
Definition prog_good : program := [Phase 7 dA; Barrier; Phase 7 dB].
Definition prog_bad : program := [Phase 7 dA; Phase 7 dB].

(* rank 0 is delayed; rank 1 runs through phase A (nothing to do) and posts its phase-B send; rank 2, still in
   phase A, takes it *)
Definition bad_schedule : list action := [ASend 1 []; AAdv 1; ASend 1 [2]; ASend 2 []; ARecv 2 0].
