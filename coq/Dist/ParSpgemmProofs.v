(* C06 (distributed part): the gathered distributed products equal the products of the gathered
   factors, up to the drops applied to the partial products before they are added. *)
From Raptor Require Import Base.Sums Sparse.Defs Sparse.ConvertProofs Sparse.Spgemm Sparse.SpgemmProofs Dist.ParSpgemm.

(* ---------- contiguous partitions ---------- *)
Lemma psum_app p q : psum (p ++ q) = psum p + psum q.
Proof. unfold psum. induction p; simpl; lia. Qed.

Lemma pfirst_S p r : pfirst p (S r) = pfirst p r + psize p r.
Proof.
  unfold pfirst, psize. revert r. induction p as [|a p IH]; intros r.
  - destruct r; reflexivity.
  - destruct r as [|r]; simpl; [lia|]. specialize (IH r). unfold psum in *. simpl in *. lia.
Qed.

Lemma pfirst_mono p r r' : r <= r' -> pfirst p r <= pfirst p r'.
Proof. induction 1; [lia|]. rewrite pfirst_S. lia. Qed.

Lemma pfirst_all p r : length p <= r -> pfirst p r = psum p.
Proof. intros H. unfold pfirst. rewrite firstn_all2 by exact H. reflexivity. Qed.

Lemma inblk_spec p r c : inblk p r c = true <-> pfirst p r <= c < pfirst p r + psize p r.
Proof.
  unfold inblk. rewrite andb_true_iff, Nat.leb_le, Nat.ltb_lt. tauto.
Qed.

(* two different blocks are disjoint *)
Lemma inblk_disjoint p r r' c : inblk p r c = true -> inblk p r' c = true -> r = r'.
Proof.
  rewrite !inblk_spec. intros H1 H2.
  destruct (Nat.lt_trichotomy r r') as [L|[E|L]]; [|exact E|].
  - pose proof (pfirst_mono p (S r) r' L) as M. rewrite pfirst_S in M. lia.
  - pose proof (pfirst_mono p (S r') r L) as M. rewrite pfirst_S in M. lia.
Qed.

Lemma owner_from_spec p : forall r0 c, c < psum p ->
  r0 <= owner_from p r0 c < r0 + length p /\
  pfirst p (owner_from p r0 c - r0) <= c < pfirst p (owner_from p r0 c - r0) + psize p (owner_from p r0 c - r0).
Proof.
  induction p as [|a p IH]; intros r0 c Hc; [simpl in Hc; lia|].
  simpl in Hc. cbn [owner_from]. destruct (c <? a) eqn:E.
  - apply Nat.ltb_lt in E. replace (r0 - r0) with 0 by lia. unfold pfirst, psize; simpl. lia.
  - apply Nat.ltb_ge in E. destruct (IH (S r0) (c - a)) as [H1 H2]; [lia|].
    split; [simpl; lia|].
    replace (owner_from p (S r0) (c - a) - r0) with (S (owner_from p (S r0) (c - a) - S r0)) by lia.
    unfold pfirst, psize in *. cbn [firstn psum fold_right nth]. unfold psum in *. lia.
Qed.

Lemma owner_inblk p c : c < psum p -> owner p c < length p /\ inblk p (owner p c) c = true.
Proof.
  intros H. destruct (owner_from_spec p 0 c H) as [H1 H2]. unfold owner.
  rewrite Nat.sub_0_r in H2. split; [lia|]. apply inblk_spec. exact H2.
Qed.

Lemma inblk_lt_psum p r c : inblk p r c = true -> c < psum p.
Proof.
  rewrite inblk_spec. intros H.
  destruct (Nat.lt_ge_cases r (length p)) as [L|G].
  - pose proof (pfirst_mono p (S r) (length p) L) as M. rewrite pfirst_S, (pfirst_all p (length p)) in M by lia. lia.
  - unfold psize in H. rewrite nth_overflow in H by exact G. lia.
Qed.

(* ---------- lines: keep, sort, remove_duplicates ---------- *)
Section ParProofs.
Variable F : Type.
Variables (zero one : F) (add mul sub : F -> F -> F) (opp : F -> F).
Variable Fth : ring_theory zero one add mul sub opp (@eq F).
Add Ring Fring4 : Fth.
Variable smallm : F -> bool.
Variable small : F -> bool.

Notation sumF := (sumf F zero add).
Notation denL := (den_line F zero add).
Notation denCsr := (den_csr F zero add).
Notation denCsc := (den_csc F zero add).
Notation dropM := (dropm F zero smallm).
Notation dropD := (drop F zero small).
Notation "0" := zero.
Infix "+" := add.
Infix "*" := mul.
Notation spg := (spgemm_helper F zero add mul smallm).
Notation spgT := (spgemm_T_helper F zero add mul smallm).
Notation cadd := (csr_add F add small).
Notation keepF := (keep F).

Lemma dropD_zero : dropD 0 = 0.
Proof. unfold drop. destruct (small 0); reflexivity. Qed.
Lemma dropM_zero : dropM 0 = 0.
Proof. unfold dropm. destruct (smallm 0); reflexivity. Qed.

Lemma den_line_keep f row j : denL (keepF f row) j = if f j then denL row j else 0.
Proof.
  unfold keep, den_line. rewrite filter_filter. destruct (f j) eqn:E.
  - f_equal. f_equal. apply filter_ext_in'. intros q _. destruct (fst q =? j) eqn:Q.
    + apply Nat.eqb_eq in Q. rewrite Q, E. reflexivity.
    + apply andb_false_r.
  - rewrite filter_none; [reflexivity|]. intros q _. destruct (fst q =? j) eqn:Q.
    + apply Nat.eqb_eq in Q. rewrite Q, E. reflexivity.
    + apply andb_false_r.
Qed.

Lemma den_line_keep_split f row j :
  denL (keepF f row ++ keepF (notb f) row) j = denL row j.
Proof.
  rewrite (den_line_app F zero one add mul sub opp Fth), !den_line_keep. unfold notb.
  destruct (f j); simpl; ring.
Qed.

Lemma keep_in f row q : In q (keepF f row) -> In q row.
Proof. unfold keep. intros H. apply filter_In in H. tauto. Qed.

(* insertion sort: permutation, strongly sorted *)
Lemma insert_by_perm {X} (le : X -> X -> bool) x l : Permutation (insert_by le x l) (x :: l).
Proof.
  induction l as [|y l IH]; simpl; [apply Permutation_refl|].
  destruct (le x y); [apply Permutation_refl|].
  eapply Permutation_trans; [apply perm_skip; exact IH|apply perm_swap].
Qed.
Lemma isort_by_perm {X} (le : X -> X -> bool) l : Permutation (isort_by le l) l.
Proof.
  induction l as [|x l IH]; simpl; [constructor|].
  eapply Permutation_trans; [apply insert_by_perm|apply perm_skip; exact IH].
Qed.
Lemma sort_line_perm (r : list (nat * F)) : Permutation (sort_line r) r.
Proof. apply isort_by_perm. Qed.

Fixpoint srt (l : list (nat * F)) : Prop :=
  match l with
  | [] => True
  | p :: l' => (forall q, In q l' -> fst p <= fst q) /\ srt l'
  end.

Lemma insert_srt x l : srt l -> srt (insert_by (@le_fst F) x l).
Proof.
  induction l as [|y l IH]; intros H; simpl; [split; [intros q []|exact I]|].
  destruct H as [Hy Hl]. unfold le_fst at 1. destruct (fst x <=? fst y) eqn:E.
  - apply Nat.leb_le in E. split; [|split; assumption].
    intros q [<-|Hq]; [exact E|]. specialize (Hy q Hq). lia.
  - apply Nat.leb_gt in E. split; [|apply IH; exact Hl].
    intros q Hq. apply (Permutation_in _ (insert_by_perm _ x l)) in Hq.
    destruct Hq as [<-|Hq]; [lia|apply Hy; exact Hq].
Qed.
Lemma sort_line_srt (r : list (nat * F)) : srt (sort_line r).
Proof. induction r as [|x r IH]; simpl; [exact I|]. apply insert_srt. exact IH. Qed.

Lemma den_emit c acc j : denL (emit F small c acc) j = if c =? j then dropD acc else 0.
Proof.
  unfold emit, drop. destruct (small acc).
  - destruct (c =? j); reflexivity.
  - unfold den_line; simpl. destruct (c =? j); simpl; [ring|reflexivity].
Qed.

Lemma den_line_cons' p (r : list (nat * F)) k : denL (p :: r) k = (if fst p =? k then snd p else 0) + denL r k.
Proof. unfold den_line. cbn [filter]. destruct (fst p =? k); simpl; [reflexivity|ring]. Qed.

Lemma den_line_above c (l : list (nat * F)) : (forall q, In q l -> c < fst q) -> denL l c = 0.
Proof.
  intros H. unfold den_line. rewrite filter_none; [reflexivity|].
  intros q Hq. apply Nat.eqb_neq. specialize (H q Hq). lia.
Qed.

Lemma dedup_acc_den l : forall c acc j,
  srt l -> (forall q, In q l -> c <= fst q) ->
  denL (dedup_acc F add small c acc l) j =
  if j =? c then dropD (acc + denL l c) else dropD (denL l j).
Proof.
  induction l as [|p l IH]; intros c acc j Hs Hc.
  - cbn [dedup_acc]. rewrite den_emit. rewrite (Nat.eqb_sym c j). destruct (j =? c).
    + f_equal. unfold den_line; simpl. ring.
    + unfold den_line; simpl. symmetry. apply dropD_zero.
  - destruct Hs as [Hp Hs]. cbn [dedup_acc]. destruct (fst p =? c) eqn:E.
    + apply Nat.eqb_eq in E.
      rewrite IH by (try exact Hs; intros q Hq; rewrite <- E; apply Hp; exact Hq).
      destruct (j =? c) eqn:J.
      * f_equal. rewrite den_line_cons'. rewrite E, Nat.eqb_refl. ring.
      * f_equal. rewrite den_line_cons'. apply Nat.eqb_neq in J.
        replace (fst p =? j) with false by (symmetry; apply Nat.eqb_neq; lia). ring.
    + apply Nat.eqb_neq in E. assert (Hlt : c < fst p) by (specialize (Hc p (or_introl eq_refl)); lia).
      rewrite (den_line_app F zero one add mul sub opp Fth), den_emit, IH by (try exact Hs; exact Hp).
      rewrite (Nat.eqb_sym c j). destruct (j =? c) eqn:J.
      * apply Nat.eqb_eq in J. subst j.
        replace (c =? fst p) with false by (symmetry; apply Nat.eqb_neq; lia).
        rewrite (den_line_above c l) by (intros q Hq; specialize (Hp q Hq); lia).
        rewrite dropD_zero. rewrite den_line_cons'.
        replace (fst p =? c) with false by (symmetry; apply Nat.eqb_neq; lia).
        rewrite (den_line_above c l) by (intros q Hq; specialize (Hp q Hq); lia).
        replace (acc + (0 + 0)) with acc by ring. ring.
      * rewrite den_line_cons'. rewrite (Nat.eqb_sym (fst p) j). destruct (j =? fst p) eqn:J2.
        -- apply Nat.eqb_eq in J2. subst j. ring.
        -- replace (0 + denL l j) with (denL l j) by ring. ring.
Qed.

Lemma dedup_line_den (l : list (nat * F)) j : srt l -> denL (dedup_line F add small l) j = dropD (denL l j).
Proof.
  destruct l as [|p l]; intros Hs.
  - cbn [dedup_line]. unfold den_line; simpl. symmetry. apply dropD_zero.
  - destruct Hs as [Hp Hs]. cbn [dedup_line]. rewrite dedup_acc_den by assumption.
    rewrite den_line_cons'. rewrite (Nat.eqb_sym (fst p) j). destruct (j =? fst p) eqn:J.
    + apply Nat.eqb_eq in J. subst j. reflexivity.
    + f_equal. ring.
Qed.

(* remove_duplicates after sort: the dropped sum of everything stored at that column *)
Theorem den_dedup_sort (r : list (nat * F)) j :
  denL (dedup_line F add small (sort_line r)) j = dropD (denL r j).
Proof.
  rewrite dedup_line_den by apply sort_line_srt. f_equal.
  apply (den_line_perm F zero one add mul sub opp Fth). apply sort_line_perm.
Qed.

Lemma dedup_acc_cols l : forall c acc q,
  In q (dedup_acc F add small c acc l) -> fst q = c \/ exists q', In q' l /\ fst q' = fst q.
Proof.
  induction l as [|p l IH]; intros c acc q Hq; cbn [dedup_acc] in Hq.
  - unfold emit in Hq. destruct (small acc); [contradiction|]. destruct Hq as [<-|[]]. left; reflexivity.
  - destruct (fst p =? c) eqn:E.
    + apply IH in Hq. destruct Hq as [H|[q' [H1 H2]]]; [left; exact H|right; exists q'; split; [right; exact H1|exact H2]].
    + apply in_app_or in Hq. destruct Hq as [Hq|Hq].
      * unfold emit in Hq. destruct (small acc); [contradiction|]. destruct Hq as [<-|[]]. left; reflexivity.
      * apply IH in Hq. destruct Hq as [H|[q' [H1 H2]]].
        -- right. exists p. split; [left; reflexivity|symmetry; exact H].
        -- right. exists q'. split; [right; exact H1|exact H2].
Qed.

Lemma dedup_sort_cols (r : list (nat * F)) q :
  In q (dedup_line F add small (sort_line r)) -> exists q', In q' r /\ fst q' = fst q.
Proof.
  intros Hq. destruct (sort_line r) as [|p l] eqn:E; [contradiction|]. cbn [dedup_line] in Hq.
  assert (Hin : forall x, In x (p :: l) -> In x r).
  { intros x Hx. rewrite <- E in Hx. apply (Permutation_in _ (sort_line_perm r)). exact Hx. }
  apply dedup_acc_cols in Hq. destruct Hq as [H|[q' [H1 H2]]].
  - exists p. split; [apply Hin; left; reflexivity|symmetry; exact H].
  - exists q'. split; [apply Hin; right; exact H1|exact H2].
Qed.

(* ---------- add_append / add at the CSR level ---------- *)
Lemma nth_zip_rows (ra rb : list (list (nat * F))) : forall i,
  length rb <= length ra -> nth i (zip_rows F ra rb) [] = nth i ra [] ++ nth i rb [].
Proof.
  revert rb. induction ra as [|a ra IH]; intros rb i H.
  - destruct rb; [|simpl in H; lia]. destruct i; reflexivity.
  - destruct rb as [|b rb].
    + cbn [zip_rows]. destruct i as [|i]; simpl; [rewrite app_nil_r; reflexivity|].
      rewrite IH by (simpl; lia). destruct i; reflexivity.
    + cbn [zip_rows]. destruct i as [|i]; [reflexivity|]. simpl. apply IH. simpl in H. lia.
Qed.

Lemma zip_rows_length (ra rb : list (list (nat * F))) : length (zip_rows F ra rb) = length ra.
Proof. revert rb; induction ra as [|a ra IH]; intros [|b rb]; simpl; try reflexivity; rewrite IH; reflexivity. Qed.

Theorem den_csr_add_dedup (A B : csr F) i j :
  length (csr_rows B) <= length (csr_rows A) ->
  denCsr (cadd A B true) i j = dropD (denCsr A i j + denCsr B i j).
Proof.
  intros H. unfold csr_add, csr_remove_duplicates, den_csr. cbn [csr_rows].
  change (@nil (nat * F)) with (dedup_line F add small (sort_line (@nil (nat * F)))) at 1.
  rewrite (map_nth (fun r => dedup_line F add small (sort_line r))).
  rewrite den_dedup_sort, nth_zip_rows by exact H.
  rewrite (den_line_app F zero one add mul sub opp Fth). reflexivity.
Qed.

Theorem den_csr_add_sort (A B : csr F) i j :
  length (csr_rows B) <= length (csr_rows A) ->
  denCsr (cadd A B false) i j = denCsr A i j + denCsr B i j.
Proof.
  intros H. unfold csr_add, csr_sort, den_csr. cbn [csr_rows].
  change (@nil (nat * F)) with (sort_line (@nil (nat * F))) at 1.
  rewrite (map_nth (@sort_line F)).
  rewrite (den_line_perm F zero one add mul sub opp Fth _ _ j (sort_line_perm _)).
  rewrite nth_zip_rows by exact H.
  apply (den_line_app F zero one add mul sub opp Fth).
Qed.

Lemma csr_add_wf (A B : csr F) b :
  csr_wf A -> length (csr_rows B) <= length (csr_rows A) ->
  (forall r, In r (csr_rows B) -> forall p, In p r -> fst p < csr_nc A) ->
  csr_wf (cadd A B b).
Proof.
  intros [HlA HcA] Hl HcB.
  assert (Z : forall i q, In q (nth i (zip_rows F (csr_rows A) (csr_rows B)) []) -> fst q < csr_nc A).
  { intros i q Hq. rewrite nth_zip_rows in Hq by exact Hl. apply in_app_or in Hq. destruct Hq as [Hq|Hq].
    - destruct (nth_in_or_default i (csr_rows A) []) as [Hin|E]; [apply (HcA _ Hin _ Hq)|rewrite E in Hq; contradiction].
    - destruct (nth_in_or_default i (csr_rows B) []) as [Hin|E]; [apply (HcB _ Hin _ Hq)|rewrite E in Hq; contradiction]. }
  unfold csr_add. destruct b.
  - unfold csr_remove_duplicates. split; cbn [csr_rows csr_nr csr_nc].
    + rewrite map_length, zip_rows_length. exact HlA.
    + intros r Hr p Hp. apply in_map_iff in Hr. destruct Hr as [r0 [<- Hr0]].
      apply dedup_sort_cols in Hp. destruct Hp as [q' [Hq' <-]].
      destruct (In_nth _ _ [] Hr0) as [i [_ Hi]]. apply (Z i). rewrite Hi. exact Hq'.
  - unfold csr_sort. split; cbn [csr_rows csr_nr csr_nc].
    + rewrite map_length, zip_rows_length. exact HlA.
    + intros r Hr p Hp. apply in_map_iff in Hr. destruct Hr as [r0 [<- Hr0]].
      apply (Permutation_in _ (sort_line_perm r0)) in Hp.
      destruct (In_nth _ _ [] Hr0) as [i [_ Hi]]. apply (Z i). rewrite Hi. exact Hp.
Qed.


(* ---------- blocks of a distributed matrix ---------- *)
Lemma nth_rows_where n f (g : nat -> list (nat * F)) i :
  nth i (rows_where F n f g) [] = if (i <? n) && f i then g i else [].
Proof.
  unfold rows_where. destruct (i <? n) eqn:E.
  - apply Nat.ltb_lt in E. rewrite (nth_map_seq (fun i => if f i then g i else [])) by exact E. reflexivity.
  - apply Nat.ltb_ge in E. rewrite nth_overflow_map_seq by exact E. reflexivity.
Qed.

Lemma rows_where_length n f (g : nat -> list (nat * F)) : length (rows_where F n f g) = n.
Proof. unfold rows_where. rewrite map_length, seq_length. reflexivity. Qed.

Lemma rows_where_in n f (g : nat -> list (nat * F)) r q :
  In r (rows_where F n f g) -> In q r -> exists i, i < n /\ f i = true /\ In q (g i).
Proof.
  unfold rows_where. intros Hr Hq. apply in_map_iff in Hr. destruct Hr as [i [<- Hi]].
  apply in_seq in Hi. destruct (f i) eqn:E; [|contradiction]. exists i. repeat split; [lia|exact E|exact Hq].
Qed.

Lemma den_csr_overflow (M : csr F) i j : csr_wf M -> csr_nr M <= i -> denCsr M i j = 0.
Proof. intros [Hl _] H. unfold den_csr. rewrite nth_overflow by lia. reflexivity. Qed.

Lemma den_blk (M : csr F) fr fc i j : csr_wf M ->
  denCsr (blk F M fr fc) i j = if fr i && fc j then denCsr M i j else 0.
Proof.
  intros HM. unfold den_csr at 1. unfold blk; cbn [csr_rows]. rewrite nth_rows_where.
  destruct (i <? csr_nr M) eqn:E.
  - cbn [andb]. destruct (fr i); cbn [andb]; [apply den_line_keep|reflexivity].
  - apply Nat.ltb_ge in E. rewrite (den_csr_overflow M i j HM E). cbn [andb].
    destruct (fr i && fc j); reflexivity.
Qed.

Lemma blk_wf (M : csr F) fr fc : csr_wf M -> csr_wf (blk F M fr fc).
Proof.
  intros [Hl Hc]. split; cbn [blk csr_rows csr_nr csr_nc]; [apply rows_where_length|].
  intros r Hr q Hq. destruct (rows_where_in _ _ _ _ _ Hr Hq) as [i [_ [_ Hi]]].
  apply keep_in in Hi. destruct (nth_in_or_default i (csr_rows M) []) as [Hin|E].
  - apply (Hc _ Hin _ Hi).
  - rewrite E in Hi. contradiction.
Qed.

Lemma den_csc_overflow (M : csc F) i j : csc_wf M -> csc_nc M <= j -> denCsc M i j = 0.
Proof. intros [Hl _] H. unfold den_csc. rewrite nth_overflow by lia. reflexivity. Qed.

Lemma den_blk_csc (M : csc F) fr fc i j : csc_wf M ->
  denCsc (blk_csc F M fr fc) i j = if fr i && fc j then denCsc M i j else 0.
Proof.
  intros HM. unfold den_csc at 1. unfold blk_csc; cbn [csc_cols]. rewrite nth_rows_where.
  destruct (j <? csc_nc M) eqn:E.
  - cbn [andb]. destruct (fc j).
    + rewrite den_line_keep. rewrite andb_true_r. reflexivity.
    + rewrite andb_false_r. reflexivity.
  - apply Nat.ltb_ge in E. rewrite (den_csc_overflow M i j HM E). cbn [andb].
    destruct (fr i && fc j); reflexivity.
Qed.

Lemma blk_csc_wf (M : csc F) fr fc : csc_wf M -> csc_wf (blk_csc F M fr fc).
Proof.
  intros [Hl Hc]. split; cbn [blk_csc csc_cols csc_nr csc_nc]; [apply rows_where_length|].
  intros r Hr q Hq. destruct (rows_where_in _ _ _ _ _ Hr Hq) as [i [_ [_ Hi]]].
  apply keep_in in Hi. destruct (nth_in_or_default i (csc_cols M) []) as [Hin|E].
  - apply (Hc _ Hin _ Hi).
  - rewrite E in Hi. contradiction.
Qed.

Lemma sumf_if_const (c : bool) (x : nat -> F) l :
  sumF (map (fun k => if c then x k else 0) l) = if c then sumF (map x l) else 0.
Proof. destruct c; [reflexivity|apply (sumf_map_zero F zero one add mul sub opp Fth)]. Qed.

Lemma spg_rows_length (X Y : csr F) : csr_wf X -> csr_wf Y -> length (csr_rows (spg X Y None)) = csr_nr X.
Proof. intros HX HY. apply (spgemm_helper_wf F zero one add mul sub opp Fth smallm X Y HX HY). Qed.

Lemma dropD_00 : dropD (dropM 0 + dropM 0) = 0.
Proof. rewrite dropM_zero. replace (0 + 0) with 0 by ring. apply dropD_zero. Qed.

(* ================= C = A * B ================= *)
Section MultProof.
Variable fetch : nat -> nat -> list (nat * F).
Variables (A B : csr F) (pa pk pc : list nat).
Hypothesis HA : csr_wf A.
Hypothesis HB : csr_wf B.
Hypothesis Hconf : csr_nc A = csr_nr B.
(* C03: the row exchange hands every rank, for every global row of B it needs (= every off-process column of
   its rows of A), exactly that row as its owner stores it *)
Hypothesis C03_row_exchange :
  forall r k, needs F A pa pk r k = true -> fetch r k = owner_row F B pk pc k.

Definition S_in (r i j : nat) : F :=
  sumF (map (fun k => if inblk pk r k then denCsr A i k * denCsr B k j else 0) (seq 0 (csr_nc A))).
Definition S_out (r i j : nat) : F :=
  sumF (map (fun k => if negb (inblk pk r k) then denCsr A i k * denCsr B k j else 0) (seq 0 (csr_nc A))).

Lemma owner_row_den k j : denL (owner_row F B pk pc k) j = denCsr B k j.
Proof. unfold owner_row. cbv zeta. apply den_line_keep_split. Qed.

Lemma recv_blk_wf r fc : csr_wf (recv_blk F fetch A B pa pk r fc).
Proof.
  split; cbn [recv_blk csr_rows csr_nr csr_nc]; [apply rows_where_length|].
  intros row Hr q Hq. destruct (rows_where_in _ _ _ _ _ Hr Hq) as [k [_ [Hn Hk]]].
  apply keep_in in Hk. rewrite (C03_row_exchange r k Hn) in Hk. unfold owner_row in Hk. cbv zeta in Hk.
  apply in_app_or in Hk. destruct Hk as [Hk|Hk]; apply keep_in in Hk;
  (destruct (nth_in_or_default k (csr_rows B) []) as [Hin|E]; [apply (proj2 HB _ Hin _ Hk)|rewrite E in Hk; contradiction]).
Qed.

Lemma den_recv_blk r fc k j : k < csr_nr B ->
  denCsr (recv_blk F fetch A B pa pk r fc) k j =
  if needs F A pa pk r k then (if fc j then denCsr B k j else 0) else 0.
Proof.
  intros Hk. unfold den_csr at 1. cbn [recv_blk csr_rows]. rewrite nth_rows_where.
  replace (k <? csr_nr B) with true by (symmetry; apply Nat.ltb_lt; exact Hk). cbn [andb].
  destruct (needs F A pa pk r k) eqn:E; [|reflexivity].
  rewrite den_line_keep, (C03_row_exchange r k E), owner_row_den. reflexivity.
Qed.

Lemma off_blk_not_needed r i k :
  needs F A pa pk r k = false -> denCsr (off_blk F A pa pk r) i k = 0.
Proof.
  intros Hn. unfold den_csr. apply (den_line_not_in F zero add).
  unfold needs in Hn. apply existsb_eqb_nIn in Hn. intros Hin. apply Hn.
  unfold off_cols. apply in_flat_map.
  destruct (nth_in_or_default i (csr_rows (off_blk F A pa pk r)) []) as [H|E].
  - eexists; split; [exact H|exact Hin].
  - rewrite E in Hin. contradiction.
Qed.

(* one of the two halves (on_proc: fc = the rank's column block; off_proc: its complement) *)
Lemma den_par_mult_half r fc i j :
  denCsr (cadd (spg (on_blk F A pa pk r) (blk F B (inblk pk r) fc) None)
               (spg (off_blk F A pa pk r) (recv_blk F fetch A B pa pk r fc) None) true) i j =
  if inblk pa r i && fc j then dropD (dropM (S_in r i j) + dropM (S_out r i j)) else 0.
Proof.
  assert (W1 : csr_wf (on_blk F A pa pk r)) by (apply blk_wf; exact HA).
  assert (W2 : csr_wf (blk F B (inblk pk r) fc)) by (apply blk_wf; exact HB).
  assert (W3 : csr_wf (off_blk F A pa pk r)) by (apply blk_wf; exact HA).
  pose proof (recv_blk_wf r fc) as W4.
  rewrite den_csr_add_dedup by (rewrite !spg_rows_length by assumption; apply Nat.le_refl).
  rewrite !(den_spgemm_helper F zero one add mul sub opp Fth smallm) by assumption.
  assert (E1 : prod_entry F zero add mul (on_blk F A pa pk r) (blk F B (inblk pk r) fc) i j =
               if inblk pa r i && fc j then S_in r i j else 0).
  { unfold prod_entry, S_in. cbn [on_blk blk csr_nc]. rewrite <- sumf_if_const.
    apply (sumf_map_ext F zero add). intros k _. unfold on_blk. rewrite !den_blk by assumption.
    destruct (inblk pa r i); destruct (inblk pk r k); destruct (fc j); cbn [andb]; ring. }
  assert (E2 : prod_entry F zero add mul (off_blk F A pa pk r) (recv_blk F fetch A B pa pk r fc) i j =
               if inblk pa r i && fc j then S_out r i j else 0).
  { unfold prod_entry, S_out. cbn [off_blk blk csr_nc]. rewrite <- sumf_if_const.
    apply (sumf_map_ext F zero add). intros k Hk. apply in_seq in Hk.
    rewrite den_recv_blk by lia.
    destruct (needs F A pa pk r k) eqn:En.
    - unfold off_blk. rewrite den_blk by assumption. unfold notb.
      destruct (inblk pa r i); destruct (inblk pk r k); destruct (fc j); cbn [andb negb]; ring.
    - pose proof (off_blk_not_needed r i k En) as Z. rewrite Z.
      unfold off_blk in Z. rewrite den_blk in Z by assumption. unfold notb in Z.
      destruct (inblk pa r i); destruct (inblk pk r k); destruct (fc j); cbn [andb negb] in *; try ring.
      rewrite Z. ring. }
  rewrite E1, E2. destruct (inblk pa r i && fc j); [reflexivity|apply dropD_00].
Qed.

Lemma den_par_mult_row r i j :
  denL (nth i (csr_rows (par_mult_on F zero add mul smallm small fetch A B pa pk pc r)) [] ++
        nth i (csr_rows (par_mult_off F zero add mul smallm small fetch A B pa pk pc r)) []) j =
  if inblk pa r i then dropD (dropM (S_in r i j) + dropM (S_out r i j)) else 0.
Proof.
  rewrite (den_line_app F zero one add mul sub opp Fth).
  change (denL (nth i (csr_rows ?M) []) j) with (denCsr M i j).
  unfold par_mult_on, par_mult_off, on_blk at 2, off_blk at 2.
  rewrite !den_par_mult_half. unfold notb.
  destruct (inblk pa r i); destruct (inblk pc r j); cbn [andb negb]; ring.
Qed.

(* the gathered product, entry by entry *)
Theorem den_par_mult i j :
  psum pa = csr_nr A -> i < csr_nr A ->
  denCsr (par_mult F zero add mul smallm small fetch A B pa pk pc) i j =
  dropD (dropM (S_in (owner pa i) i j) + dropM (S_out (owner pa i) i j)).
Proof.
  intros Hp Hi. unfold den_csr at 1. unfold par_mult; cbn [csr_rows].
  rewrite (nth_map_seq (fun i => nth i (csr_rows (par_mult_on F zero add mul smallm small fetch A B pa pk pc (owner pa i))) [] ++
                                  nth i (csr_rows (par_mult_off F zero add mul smallm small fetch A B pa pk pc (owner pa i))) []))
    by exact Hi.
  rewrite den_par_mult_row.
  replace (inblk pa (owner pa i) i) with true; [reflexivity|].
  symmetry. apply owner_inblk. lia.
Qed.

Lemma S_in_out r i j : S_in r i j + S_out r i j = prod_entry F zero add mul A B i j.
Proof.
  unfold S_in, S_out, prod_entry. rewrite <- (sumf_map_add F zero one add mul sub opp Fth).
  apply (sumf_map_ext F zero add). intros k _. destruct (inblk pk r k); cbn [negb]; ring.
Qed.

Lemma par_mult_wf : csr_wf (par_mult F zero add mul smallm small fetch A B pa pk pc).
Proof.
  split; cbn [par_mult csr_rows csr_nr csr_nc]; [rewrite map_length, seq_length; reflexivity|].
  intros row Hr q Hq. apply in_map_iff in Hr. destruct Hr as [i [<- _]]. cbv zeta in Hq.
  set (r := owner pa i) in *.
  assert (W1 : csr_wf (on_blk F A pa pk r)) by (apply blk_wf; exact HA).
  assert (W3 : csr_wf (off_blk F A pa pk r)) by (apply blk_wf; exact HA).
  assert (G : forall fc, csr_wf (cadd (spg (on_blk F A pa pk r) (blk F B (inblk pk r) fc) None)
               (spg (off_blk F A pa pk r) (recv_blk F fetch A B pa pk r fc) None) true)).
  { intros fc.
    assert (W2 : csr_wf (blk F B (inblk pk r) fc)) by (apply blk_wf; exact HB).
    pose proof (recv_blk_wf r fc) as W4.
    apply csr_add_wf.
    - apply (spgemm_helper_wf F zero one add mul sub opp Fth); assumption.
    - rewrite !spg_rows_length by assumption. apply Nat.le_refl.
    - intros row Hrow p Hp.
      apply (proj2 (spgemm_helper_wf F zero one add mul sub opp Fth smallm _ _ W3 W4) row Hrow p Hp). }
  apply in_app_or in Hq. destruct Hq as [Hq|Hq].
  - destruct (nth_in_or_default i (csr_rows (par_mult_on F zero add mul smallm small fetch A B pa pk pc r)) []) as [Hin|E].
    + apply (proj2 (G (inblk pc r)) _ Hin _ Hq).
    + rewrite E in Hq. contradiction.
  - destruct (nth_in_or_default i (csr_rows (par_mult_off F zero add mul smallm small fetch A B pa pk pc r)) []) as [Hin|E].
    + apply (proj2 (G (notb (inblk pc r))) _ Hin _ Hq).
    + rewrite E in Hq. contradiction.
Qed.

End MultProof.


(* ================= C = A^T * B ================= *)
Lemma sumf_split_at (f : nat -> F) n r : r < n ->
  sumF (map f (seq 0 n)) = f r + sumF (map (fun s => if s =? r then 0 else f s) (seq 0 n)).
Proof.
  intros Hr.
  rewrite (sumf_map_ext F zero add f (fun s => (if s =? r then f s else 0) + (if s =? r then 0 else f s)))
    by (intros s _; destruct (s =? r); ring).
  rewrite (sumf_map_add F zero one add mul sub opp Fth). f_equal.
  rewrite (sumf_single F zero one add mul sub opp Fth n r) by
    (try exact Hr; intros s _ Hne; replace (s =? r) with false by (symmetry; apply Nat.eqb_neq; exact Hne); reflexivity).
  rewrite Nat.eqb_refl. reflexivity.
Qed.

(* every index below the total lies in exactly one block *)
Lemma sumf_over_blocks (p : list nat) (x : F) k : k < psum p ->
  sumF (map (fun s => if inblk p s k then x else 0) (seq 0 (length p))) = x.
Proof.
  intros Hk. destruct (owner_inblk p k Hk) as [Ho Hin].
  rewrite (sumf_single F zero one add mul sub opp Fth (length p) (owner p k)).
  - rewrite Hin. reflexivity.
  - exact Ho.
  - intros s _ Hne. destruct (inblk p s k) eqn:E; [|reflexivity].
    exfalso. apply Hne. apply (inblk_disjoint p s (owner p k) k); assumption.
Qed.

Lemma spgT_rows_length (X : csc F) (Y : csr F) : csc_wf X -> csr_wf Y -> length (csr_rows (spgT X Y None)) = csc_nc X.
Proof. intros HX HY. apply (spgemm_T_helper_wf F zero one add mul sub opp Fth smallm X Y HX HY). Qed.

Section MultTProof.
Variable fetchT : nat -> nat -> list (nat * F).
Variables (A : csc F) (B : csr F) (pk pm pc : list nat).
Hypothesis HA : csc_wf A.
Hypothesis HB : csr_wf B.
Hypothesis Hconf : csc_nr A = csr_nr B.
(* C03 (reverse row exchange): rank r receives, for each of its rows i of C, the rows that the other ranks
   computed for i, in some order (arrival order / the final sort of the topology-aware exchange) *)
Hypothesis C03_row_exchange_T :
  forall r i, inblk pm r i = true ->
    Permutation (fetchT r i) (sentT F zero add mul smallm small A B pk pm pc r i).

(* the partial product formed on rank s: the rows k of the factors that s owns *)
Definition T_part (s i j : nat) : F :=
  sumF (map (fun k => if inblk pk s k then denCsc A k i * denCsr B k j else 0) (seq 0 (csc_nr A))).

Lemma den_spgT_blk s fm fc i j :
  denCsr (spgT (blk_csc F A (inblk pk s) fm) (blk F B (inblk pk s) fc) None) i j =
  if fm i && fc j then dropM (T_part s i j) else 0.
Proof.
  assert (W1 : csc_wf (blk_csc F A (inblk pk s) fm)) by (apply blk_csc_wf; exact HA).
  assert (W2 : csr_wf (blk F B (inblk pk s) fc)) by (apply blk_wf; exact HB).
  rewrite (den_spgemm_T_helper F zero one add mul sub opp Fth smallm) by assumption.
  assert (E : prod_T_entry F zero add mul (blk_csc F A (inblk pk s) fm) (blk F B (inblk pk s) fc) i j =
              if fm i && fc j then T_part s i j else 0).
  { unfold prod_T_entry, T_part. cbn [blk_csc csc_nr]. rewrite <- sumf_if_const.
    apply (sumf_map_ext F zero add). intros k _. rewrite den_blk_csc, den_blk by assumption.
    destruct (inblk pk s k); destruct (fm i); destruct (fc j); cbn [andb]; ring. }
  rewrite E. destruct (fm i && fc j); [reflexivity|apply dropM_zero].
Qed.

Lemma tmp_wf s : csr_wf (par_mult_T_tmp F zero add mul smallm small A B pk pm pc s).
Proof.
  assert (W1 : csc_wf (AT_off F A pk pm s)) by (apply blk_csc_wf; exact HA).
  assert (W2 : csr_wf (on_blk F B pk pc s)) by (apply blk_wf; exact HB).
  assert (W3 : csr_wf (off_blk F B pk pc s)) by (apply blk_wf; exact HB).
  unfold par_mult_T_tmp. apply csr_add_wf.
  - apply (spgemm_T_helper_wf F zero one add mul sub opp Fth); assumption.
  - rewrite !spgT_rows_length by assumption. apply Nat.le_refl.
  - intros row Hrow p Hp.
    apply (proj2 (spgemm_T_helper_wf F zero one add mul sub opp Fth smallm _ _ W1 W3) row Hrow p Hp).
Qed.

Lemma den_tmp s i j :
  denCsr (par_mult_T_tmp F zero add mul smallm small A B pk pm pc s) i j =
  if negb (inblk pm s i) then dropM (T_part s i j) else 0.
Proof.
  assert (W1 : csc_wf (AT_off F A pk pm s)) by (apply blk_csc_wf; exact HA).
  assert (W2 : csr_wf (on_blk F B pk pc s)) by (apply blk_wf; exact HB).
  assert (W3 : csr_wf (off_blk F B pk pc s)) by (apply blk_wf; exact HB).
  unfold par_mult_T_tmp.
  rewrite den_csr_add_sort by (rewrite !spgT_rows_length by assumption; apply Nat.le_refl).
  unfold AT_off, on_blk, off_blk. rewrite !den_spgT_blk. unfold notb.
  destruct (inblk pm s i); destruct (inblk pc s j); cbn [andb negb]; ring.
Qed.

Definition others (r i j : nat) : F :=
  sumF (map (fun s => if s =? r then 0 else dropM (T_part s i j)) (seq 0 (length pk))).

Lemma den_sentT r i j : inblk pm r i = true ->
  denL (sentT F zero add mul smallm small A B pk pm pc r i) j = others r i j.
Proof.
  intros Hin. unfold sentT, others.
  rewrite (den_line_flat_map F zero one add mul sub opp Fth).
  apply (sumf_map_ext F zero add). intros s _. destruct (s =? r) eqn:E; [reflexivity|].
  change (denL (nth i (csr_rows ?M) []) j) with (denCsr M i j). rewrite den_tmp.
  destruct (inblk pm s i) eqn:Es; [|reflexivity].
  exfalso. apply Nat.eqb_neq in E. apply E. apply (inblk_disjoint pm s r i); assumption.
Qed.

Lemma recvT_blk_wf r fc : csr_wf (recvT_blk F fetchT A B pm r fc).
Proof.
  split; cbn [recvT_blk csr_rows csr_nr csr_nc]; [apply rows_where_length|].
  intros row Hr q Hq. destruct (rows_where_in _ _ _ _ _ Hr Hq) as [i [_ [Hin Hk]]].
  apply keep_in in Hk. apply (Permutation_in _ (C03_row_exchange_T r i Hin)) in Hk.
  unfold sentT in Hk. apply in_flat_map in Hk. destruct Hk as [s [_ Hk]].
  destruct (s =? r); [contradiction|].
  destruct (nth_in_or_default i (csr_rows (par_mult_T_tmp F zero add mul smallm small A B pk pm pc s)) []) as [H|E].
  - apply (proj2 (tmp_wf s) _ H _ Hk).
  - rewrite E in Hk. contradiction.
Qed.

Lemma den_recvT_blk r fc i j : i < csc_nc A ->
  denCsr (recvT_blk F fetchT A B pm r fc) i j =
  if inblk pm r i && fc j then others r i j else 0.
Proof.
  intros Hi. unfold den_csr at 1. cbn [recvT_blk csr_rows]. rewrite nth_rows_where.
  replace (i <? csc_nc A) with true by (symmetry; apply Nat.ltb_lt; exact Hi). cbn [andb].
  destruct (inblk pm r i) eqn:E; [|reflexivity]. cbn [andb].
  rewrite den_line_keep. destruct (fc j); [|reflexivity].
  rewrite (den_line_perm F zero one add mul sub opp Fth _ _ j (C03_row_exchange_T r i E)).
  apply den_sentT. exact E.
Qed.

Lemma den_par_mult_T_half r fc i j : i < csc_nc A ->
  denCsr (cadd (spgT (AT_on F A pk pm r) (blk F B (inblk pk r) fc) None) (recvT_blk F fetchT A B pm r fc) true) i j =
  if inblk pm r i && fc j then dropD (dropM (T_part r i j) + others r i j) else 0.
Proof.
  intros Hi.
  assert (W1 : csc_wf (AT_on F A pk pm r)) by (apply blk_csc_wf; exact HA).
  assert (W2 : csr_wf (blk F B (inblk pk r) fc)) by (apply blk_wf; exact HB).
  rewrite den_csr_add_dedup.
  - unfold AT_on. rewrite den_spgT_blk, den_recvT_blk by exact Hi.
    destruct (inblk pm r i && fc j); [reflexivity|]. replace (0 + 0) with 0 by ring. apply dropD_zero.
  - rewrite spgT_rows_length by assumption. cbn [recvT_blk csr_rows AT_on blk_csc csc_nc].
    rewrite rows_where_length. apply Nat.le_refl.
Qed.

Theorem den_par_mult_T i j :
  psum pm = csc_nc A -> length pm = length pk -> i < csc_nc A ->
  denCsr (par_mult_T F zero add mul smallm small fetchT A B pk pm pc) i j =
  dropD (sumF (map (fun s => dropM (T_part s i j)) (seq 0 (length pk)))).
Proof.
  intros Hp Hlen Hi. unfold den_csr at 1. unfold par_mult_T; cbn [csr_rows].
  rewrite (nth_map_seq (fun i => nth i (csr_rows (par_mult_T_on F zero add mul smallm small fetchT A B pk pm pc (owner pm i))) [] ++
                                  nth i (csr_rows (par_mult_T_off F zero add mul smallm small fetchT A B pk pm pc (owner pm i))) []))
    by exact Hi.
  destruct (owner_inblk pm i) as [Ho Hin]; [lia|]. set (r := owner pm i) in *.
  rewrite (den_line_app F zero one add mul sub opp Fth).
  change (denL (nth i (csr_rows ?M) []) j) with (denCsr M i j).
  unfold par_mult_T_on, par_mult_T_off, on_blk, off_blk.
  rewrite !den_par_mult_T_half by exact Hi. rewrite Hin. unfold notb.
  rewrite (sumf_split_at (fun s => dropM (T_part s i j)) (length pk) r) by lia.
  fold (others r i j).
  destruct (inblk pc r j); cbn [andb negb]; ring.
Qed.

(* the partial products add up to the full inner sum *)
Lemma T_part_total i j :
  psum pk = csc_nr A ->
  sumF (map (fun s => T_part s i j) (seq 0 (length pk))) = prod_T_entry F zero add mul A B i j.
Proof.
  intros Hp. unfold T_part, prod_T_entry.
  rewrite (sumf_swap F zero one add mul sub opp Fth
             (fun s k => if inblk pk s k then denCsc A k i * denCsr B k j else 0)).
  apply (sumf_map_ext F zero add). intros k Hk. apply in_seq in Hk.
  apply sumf_over_blocks. lia.
Qed.

Lemma par_mult_T_wf : csr_wf (par_mult_T F zero add mul smallm small fetchT A B pk pm pc).
Proof.
  split; cbn [par_mult_T csr_rows csr_nr csr_nc]; [rewrite map_length, seq_length; reflexivity|].
  intros row Hr q Hq. apply in_map_iff in Hr. destruct Hr as [i [<- _]]. cbv zeta in Hq.
  set (r := owner pm i) in *.
  assert (W1 : csc_wf (AT_on F A pk pm r)) by (apply blk_csc_wf; exact HA).
  assert (G : forall fc, csr_wf (cadd (spgT (AT_on F A pk pm r) (blk F B (inblk pk r) fc) None) (recvT_blk F fetchT A B pm r fc) true)).
  { intros fc.
    assert (W2 : csr_wf (blk F B (inblk pk r) fc)) by (apply blk_wf; exact HB).
    pose proof (recvT_blk_wf r fc) as W4.
    apply csr_add_wf.
    - apply (spgemm_T_helper_wf F zero one add mul sub opp Fth); assumption.
    - rewrite spgT_rows_length by assumption. cbn [recvT_blk csr_rows AT_on blk_csc csc_nc].
      rewrite rows_where_length. apply Nat.le_refl.
    - intros row Hrow p Hp. apply (proj2 W4 row Hrow p Hp). }
  apply in_app_or in Hq. destruct Hq as [Hq|Hq].
  - destruct (nth_in_or_default i (csr_rows (par_mult_T_on F zero add mul smallm small fetchT A B pk pm pc r)) []) as [Hin|E].
    + apply (proj2 (G (inblk pc r)) _ Hin _ Hq).
    + rewrite E in Hq. contradiction.
  - destruct (nth_in_or_default i (csr_rows (par_mult_T_off F zero add mul smallm small fetchT A B pk pm pc r)) []) as [Hin|E].
    + apply (proj2 (G (notb (inblk pc r))) _ Hin _ Hq).
    + rewrite E in Hq. contradiction.
Qed.

End MultTProof.


(* ================= the executed instances (exchange delivers the owners' rows) ================= *)
Theorem den_par_mult_std (A B : csr F) (pa pk pc : list nat) i j :
  csr_wf A -> csr_wf B -> csr_nc A = csr_nr B -> psum pa = csr_nr A -> i < csr_nr A ->
  denCsr (par_mult_std F zero add mul smallm small A B pa pk pc) i j =
  dropD (dropM (S_in A B pk (owner pa i) i j) + dropM (S_out A B pk (owner pa i) i j)).
Proof. intros HA HB Hc Hp Hi. unfold par_mult_std. apply den_par_mult; try assumption. reflexivity. Qed.

Lemma par_mult_std_wf (A B : csr F) (pa pk pc : list nat) :
  csr_wf A -> csr_wf B -> csr_wf (par_mult_std F zero add mul smallm small A B pa pk pc).
Proof. intros HA HB. unfold par_mult_std. apply par_mult_wf; try assumption. reflexivity. Qed.

Theorem den_par_mult_T_std (A : csc F) (B : csr F) (pk pm pc : list nat) i j :
  csc_wf A -> csr_wf B -> csc_nr A = csr_nr B -> psum pm = csc_nc A -> length pm = length pk -> i < csc_nc A ->
  denCsr (par_mult_T_std F zero add mul smallm small A B pk pm pc) i j =
  dropD (sumF (map (fun s => dropM (T_part A B pk s i j)) (seq 0 (length pk)))).
Proof.
  intros HA HB Hc Hp Hl Hi. unfold par_mult_T_std. apply den_par_mult_T; try assumption.
  intros r i' _. apply Permutation_refl.
Qed.

(* ================= exactness on "integer" data ================= *)
Section Exact.
Variable isint : F -> Prop.
Hypothesis isint_0 : isint 0.
Hypothesis isint_add : forall x y, isint x -> isint y -> isint (x + y).
Hypothesis isint_mul : forall x y, isint x -> isint y -> isint (x * y).
Hypothesis isint_smallm : forall x, isint x -> smallm x = true -> x = 0.
Hypothesis isint_small : forall x, isint x -> small x = true -> x = 0.

Lemma isint_sum {X} (f : X -> F) l : (forall x, isint (f x)) -> isint (sumF (map f l)).
Proof. intros H. induction l as [|x l IH]; simpl; [exact isint_0|apply isint_add; [apply H|exact IH]]. Qed.
Lemma dropM_int x : isint x -> dropM x = x.
Proof. intros H. unfold dropm. destruct (smallm x) eqn:E; [symmetry; apply isint_smallm; assumption|reflexivity]. Qed.
Lemma dropD_int x : isint x -> dropD x = x.
Proof. intros H. unfold drop. destruct (small x) eqn:E; [symmetry; apply isint_small; assumption|reflexivity]. Qed.

Theorem par_mult_exact_on_integers fetch (A B : csr F) (pa pk pc : list nat) i j :
  csr_wf A -> csr_wf B -> csr_nc A = csr_nr B ->
  (forall r k, needs F A pa pk r k = true -> fetch r k = owner_row F B pk pc k) ->
  psum pa = csr_nr A -> i < csr_nr A ->
  (forall i k, isint (denCsr A i k)) -> (forall k j, isint (denCsr B k j)) ->
  denCsr (par_mult F zero add mul smallm small fetch A B pa pk pc) i j = prod_entry F zero add mul A B i j.
Proof.
  intros HA HB Hc H3 Hp Hi IA IB. rewrite den_par_mult by assumption.
  assert (I1 : isint (S_in A B pk (owner pa i) i j)).
  { apply isint_sum. intros k. destruct (inblk pk (owner pa i) k); [apply isint_mul; [apply IA|apply IB]|exact isint_0]. }
  assert (I2 : isint (S_out A B pk (owner pa i) i j)).
  { apply isint_sum. intros k. destruct (negb (inblk pk (owner pa i) k)); [apply isint_mul; [apply IA|apply IB]|exact isint_0]. }
  rewrite !dropM_int, dropD_int by (try apply isint_add; assumption).
  apply S_in_out.
Qed.

Theorem par_mult_T_exact_on_integers fetchT (A : csc F) (B : csr F) (pk pm pc : list nat) i j :
  csc_wf A -> csr_wf B -> csc_nr A = csr_nr B ->
  (forall r i, inblk pm r i = true -> Permutation (fetchT r i) (sentT F zero add mul smallm small A B pk pm pc r i)) ->
  psum pm = csc_nc A -> psum pk = csc_nr A -> length pm = length pk -> i < csc_nc A ->
  (forall k i, isint (denCsc A k i)) -> (forall k j, isint (denCsr B k j)) ->
  denCsr (par_mult_T F zero add mul smallm small fetchT A B pk pm pc) i j = prod_T_entry F zero add mul A B i j.
Proof.
  intros HA HB Hc H3 Hpm Hpk Hl Hi IA IB. rewrite den_par_mult_T by assumption.
  assert (I1 : forall s, isint (T_part A B pk s i j)).
  { intros s. apply isint_sum. intros k. destruct (inblk pk s k); [apply isint_mul; [apply IA|apply IB]|exact isint_0]. }
  rewrite (sumf_map_ext F zero add _ (fun s => T_part A B pk s i j)) by (intros s _; apply dropM_int, I1).
  rewrite dropD_int by (apply isint_sum; exact I1).
  apply T_part_total; assumption.
Qed.

(* Galerkin product as the AMG setup forms it *)
Theorem par_galerkin_exact_on_integers (A P : csr F) (pa pc : list nat) i j :
  csr_wf A -> csr_wf P -> csr_nc A = csr_nr P -> csr_nr A = csr_nr P ->
  psum pa = csr_nr A -> psum pc = csr_nc P -> length pc = length pa -> i < csr_nc P ->
  (forall i k, isint (denCsr A i k)) -> (forall k j, isint (denCsr P k j)) ->
  denCsr (par_galerkin F zero add mul smallm small A P pa pc) i j =
  sumF (map (fun k => denCsr P k i * prod_entry F zero add mul A P k j) (seq 0 (csr_nr P))).
Proof.
  intros HA HP Hc Hn Hpa Hpc Hl Hi IA IP. unfold par_galerkin.
  set (AP := par_mult_std F zero add mul smallm small A P pa pa pc).
  assert (WAP : csr_wf AP) by (apply par_mult_std_wf; assumption).
  assert (WPc : csc_wf (csr_to_csc P)) by (apply csr_to_csc_wf; exact HP).
  assert (EAP : forall k j', k < csr_nr A -> denCsr AP k j' = prod_entry F zero add mul A P k j').
  { intros k j' Hk. unfold AP, par_mult_std. apply par_mult_exact_on_integers; try assumption. reflexivity. }
  assert (IAP : forall k j', isint (denCsr AP k j')).
  { intros k j'. destruct (Nat.lt_ge_cases k (csr_nr A)) as [Hk|Hk].
    - rewrite EAP by exact Hk. apply isint_sum. intros l. apply isint_mul; [apply IA|apply IP].
    - rewrite (den_csr_overflow AP k j' WAP) by exact Hk. exact isint_0. }
  unfold par_mult_T_std.
  rewrite par_mult_T_exact_on_integers; try assumption.
  - unfold prod_T_entry. change (csc_nr (csr_to_csc P)) with (csr_nr P).
    apply (sumf_map_ext F zero add). intros k Hk. apply in_seq in Hk.
    rewrite (den_csr_to_csc F zero add P k i HP). rewrite EAP by lia. reflexivity.
  - change (csc_nr (csr_to_csc P)) with (csr_nr P). symmetry. exact Hn.
  - intros r i' _. apply Permutation_refl.
  - change (csc_nr (csr_to_csc P)) with (csr_nr P). lia.
  - intros k i'. rewrite (den_csr_to_csc F zero add P k i' HP). apply IP.
Qed.

(* the same with the two exchanges abstract: any `fetch` that delivers the owners' rows of P to the ranks that need
   them, any `fetchT` that hands the owners, up to order, the partial-product rows computed elsewhere *)
Theorem par_galerkin_fetch_exact_on_integers fetch fetchT (A P : csr F) (pa pc : list nat) i j :
  csr_wf A -> csr_wf P -> csr_nc A = csr_nr P -> csr_nr A = csr_nr P ->
  psum pa = csr_nr A -> psum pc = csr_nc P -> length pc = length pa -> i < csr_nc P ->
  (forall i k, isint (denCsr A i k)) -> (forall k j, isint (denCsr P k j)) ->
  (forall r k, needs F A pa pa r k = true -> fetch r k = owner_row F P pa pc k) ->
  let AP := par_mult F zero add mul smallm small fetch A P pa pa pc in
  (forall r i, inblk pc r i = true ->
     Permutation (fetchT r i) (sentT F zero add mul smallm small (csr_to_csc P) AP pa pc pc r i)) ->
  denCsr (par_mult_T F zero add mul smallm small fetchT (csr_to_csc P) AP pa pc pc) i j =
  sumF (map (fun k => denCsr P k i * prod_entry F zero add mul A P k j) (seq 0 (csr_nr P))).
Proof.
  intros HA HP Hc Hn Hpa Hpc Hl Hi IA IP Hf AP HfT.
  assert (WAP : csr_wf AP) by (apply par_mult_wf; assumption).
  assert (WPc : csc_wf (csr_to_csc P)) by (apply csr_to_csc_wf; exact HP).
  assert (EAP : forall k j', k < csr_nr A -> denCsr AP k j' = prod_entry F zero add mul A P k j').
  { intros k j' Hk. unfold AP. apply par_mult_exact_on_integers; assumption. }
  assert (IAP : forall k j', isint (denCsr AP k j')).
  { intros k j'. destruct (Nat.lt_ge_cases k (csr_nr A)) as [Hk|Hk].
    - rewrite EAP by exact Hk. apply isint_sum. intros l. apply isint_mul; [apply IA|apply IP].
    - rewrite (den_csr_overflow AP k j' WAP) by exact Hk. exact isint_0. }
  rewrite par_mult_T_exact_on_integers; try assumption.
  - unfold prod_T_entry. change (csc_nr (csr_to_csc P)) with (csr_nr P).
    apply (sumf_map_ext F zero add). intros k Hk. apply in_seq in Hk.
    rewrite (den_csr_to_csc F zero add P k i HP). rewrite EAP by lia. reflexivity.
  - change (csc_nr (csr_to_csc P)) with (csr_nr P). symmetry. exact Hn.
  - change (csc_nr (csr_to_csc P)) with (csr_nr P). lia.
  - intros k i'. rewrite (den_csr_to_csc F zero add P k i' HP). apply IP.
Qed.

End Exact.

End ParProofs.
