(* C02 (distributed block formats): a package that passes the id check of C03 on BLOCK ids delivers, expanded to
   b_cols scalars per block id, exactly the scalar halo of the expanded matrix; the distributed products of a ParBSR
   matrix are therefore the rows of the global operator its expansion represents, for every list of block rank states. *)
From Coq Require Import List Arith Lia Bool.
Import ListNotations.
From Raptor Require Import Base.Sums Sparse.Defs Sparse.ConvertProofs Sparse.SortProofs Sparse.SpmvProofs Sparse.Block Sparse.BlockProofs
     Dist.Comm Dist.CommProofs Dist.ParMat Dist.ParSpmvProofs Dist.ParBlock.

Section Expand.
Context {A : Type}.
Variable bc : nat.

Lemma flat_map_ext_in_local {X Y} (f g : X -> list Y) l : (forall x, In x l -> f x = g x) -> flat_map f l = flat_map g l.
Proof.
  induction l as [|x l IH]; intros H; simpl; [reflexivity|].
  rewrite (H x) by (left; reflexivity). f_equal. apply IH. intros y Hy. apply H. right. exact Hy.
Qed.

Definition all_len (n : nat) (l : list (list A)) : Prop := forall b, In b l -> length b = n.

Lemma concat_length_blocks (l : list (list A)) : all_len bc l -> length (concat l) = length l * bc.
Proof.
  induction l as [|b l IH]; intros H; simpl; [reflexivity|].
  rewrite app_length, (H b) by (left; reflexivity). rewrite IH by (intros x Hx; apply H; right; exact Hx). lia.
Qed.

Lemma nth_concat_blocks (d : A) (dblk : list A) (l : list (list A)) i t :
  all_len bc l -> i < length l -> t < bc -> nth (i * bc + t) (concat l) d = nth t (nth i l dblk) d.
Proof.
  revert i. induction l as [|b l IH]; intros i H Hi Ht; [simpl in Hi; lia|].
  assert (Hb : length b = bc) by (apply H; left; reflexivity).
  destruct i as [|i]; simpl.
  - rewrite app_nth1 by lia. reflexivity.
  - rewrite app_nth2 by lia. rewrite Hb. replace (bc + i * bc + t - bc) with (i * bc + t) by lia.
    apply IH; [intros x Hx; apply H; right; exact Hx|simpl in Hi; lia|exact Ht].
Qed.

Lemma map_nth_seq' (l : list A) (d : A) : map (fun j => nth j l d) (seq 0 (length l)) = l.
Proof.
  induction l as [|a l IH]; simpl; [reflexivity|]. f_equal. rewrite <- seq_shift, map_map. exact IH.
Qed.

Lemma seq_shift_map s n : seq s n = map (fun c => s + c) (seq 0 n).
Proof.
  revert s; induction n as [|n IH]; intros s; simpl; [reflexivity|].
  rewrite Nat.add_0_r. f_equal. rewrite (IH (S s)), (IH 1), map_map. apply map_ext. intros c. lia.
Qed.

Lemma pack_expand (d : A) (dblk : list A) (blocks : list (list A)) (idxs : list nat) :
  all_len bc blocks -> (forall i, In i idxs -> i < length blocks) ->
  pack d (concat blocks) (expand_ids bc idxs) = concat (pack dblk blocks idxs).
Proof.
  intros Hlen Hin. unfold pack, expand_ids. induction idxs as [|i idxs IH]; [reflexivity|].
  simpl. rewrite map_app. rewrite IH by (intros x Hx; apply Hin; right; exact Hx). f_equal.
  assert (Hi : i < length blocks) by (apply Hin; left; reflexivity).
  assert (Hb : length (nth i blocks dblk) = bc) by (apply Hlen, nth_In, Hi).
  unfold blk_ids. rewrite <- (map_nth_seq' (nth i blocks dblk) d). rewrite Hb.
  rewrite (seq_shift_map (i * bc) bc), map_map. apply map_ext_in. intros t Ht. apply in_seq in Ht.
  apply nth_concat_blocks; [exact Hlen|exact Hi|lia].
Qed.

Lemma pack_all_len (dblk : list A) (blocks : list (list A)) idxs :
  all_len bc blocks -> length dblk = bc -> all_len bc (pack dblk blocks idxs).
Proof.
  intros H Hd b Hb. unfold pack in Hb. apply in_map_iff in Hb. destruct Hb as [i [<- _]].
  destruct (Nat.lt_ge_cases i (length blocks)) as [Hlt|Hge]; [apply H, nth_In, Hlt|rewrite nth_overflow by exact Hge; exact Hd].
Qed.

Lemma find_send_expand p ms :
  find_send p (map (fun m : nat * list nat => (fst m, expand_ids bc (snd m))) ms) = expand_ids bc (find_send p ms).
Proof. induction ms as [|m ms IH]; simpl; [reflexivity|]. destruct (fst m =? p); [reflexivity|exact IH]. Qed.

Lemma pk_expand w q : pk (expand_world bc w) q = expand_pkg bc (pk w q).
Proof.
  unfold pk, expand_world. change nopkg with (expand_pkg bc nopkg). apply map_nth.
Qed.

Lemma fit_exact {X} (d : X) n (l : list X) : length l = n -> fit d n l = l.
Proof. intros H. unfold fit. rewrite firstn_app, H, Nat.sub_diag. simpl. rewrite app_nil_r, <- H. apply firstn_all. Qed.

Lemma concat_flat_map {X} (f : X -> list (list A)) l : concat (flat_map f l) = flat_map (fun x => concat (f x)) l.
Proof. induction l as [|x l IH]; simpl; [reflexivity|]. rewrite concat_app, IH. reflexivity. Qed.

(* the expanded package moves, per block id, the bc scalars of that block *)
Theorem forward_expand (d : A) (dblk : list A) (w : world) (xs : list (list (list A))) p :
  sizes_ok w = true -> in_range w (map (@length (list A)) xs) = true ->
  (forall q, all_len bc (nth q xs [])) -> length dblk = bc -> p < length w ->
  forward d (expand_world bc w) (map (@concat A) xs) p = concat (forward dblk w xs p).
Proof.
  intros Hsz Hrg Hlen Hd Hp. unfold forward. rewrite pk_expand. cbn [expand_pkg recv_msgs].
  rewrite concat_flat_map, flat_map_concat_map, map_map, <- flat_map_concat_map.
  assert (G : forall m, In m (recv_msgs (pk w p)) ->
     fit d (snd m * bc) (msg_fwd d (expand_world bc w) (map (@concat A) xs) (fst m) p)
     = concat (fit dblk (snd m) (msg_fwd dblk w xs (fst m) p))).
  { intros m Hm. unfold msg_fwd. rewrite pk_expand. cbn [expand_pkg send_msgs]. rewrite find_send_expand.
    change (@nil A) with (concat (@nil (list A))). rewrite (map_nth (@concat A)).
    set (idxs := find_send p (send_msgs (pk w (fst m)))).
    assert (Hcnt : length idxs = snd m).
    { unfold sizes_ok in Hsz. rewrite forallb_forall in Hsz. specialize (Hsz p). rewrite in_seq in Hsz.
      specialize (Hsz ltac:(lia)). rewrite forallb_forall in Hsz. specialize (Hsz m Hm). apply Nat.eqb_eq in Hsz. exact Hsz. }
    assert (Hidx : forall i, In i idxs -> i < length (nth (fst m) xs [])).
    { intros i Hi. destruct (Nat.lt_ge_cases (fst m) (length w)) as [Hq|Hq].
      - unfold in_range in Hrg. rewrite forallb_forall in Hrg. specialize (Hrg (fst m)). rewrite in_seq in Hrg.
        specialize (Hrg ltac:(lia)). rewrite forallb_forall in Hrg.
        (* the message with destination p *)
        assert (Hex : exists ms, In ms (send_msgs (pk w (fst m))) /\ In i (snd ms)).
        { unfold idxs in Hi. clear - Hi. induction (send_msgs (pk w (fst m))) as [|x l IH]; simpl in Hi; [destruct Hi|].
          destruct (fst x =? p); [exists x; split; [left; reflexivity|exact Hi]|].
          destruct (IH Hi) as [ms [H1 H2]]. exists ms. split; [right; exact H1|exact H2]. }
        destruct Hex as [ms [Hms Hin]]. specialize (Hrg ms Hms). rewrite forallb_forall in Hrg.
        specialize (Hrg i Hin). apply Nat.ltb_lt in Hrg.
        change 0 with (@length (list A) []) in Hrg. rewrite (map_nth (@length (list A))) in Hrg. exact Hrg.
      - unfold idxs, pk in Hi. rewrite nth_overflow in Hi by exact Hq. destruct Hi. }
    rewrite (pack_expand d dblk) by (apply Hlen || exact Hidx).
    rewrite fit_exact.
    - rewrite fit_exact; [reflexivity|]. unfold pack. rewrite map_length. exact Hcnt.
    - rewrite concat_length_blocks by (apply pack_all_len; [apply Hlen|exact Hd]).
      unfold pack. rewrite map_length, Hcnt. reflexivity. }
  apply flat_map_ext_in_local. exact G.
Qed.
End Expand.

Section Lift.
Variable bc : nat.

Lemma expand_ids_concat l : expand_ids bc l = concat (map (blk_ids bc) l).
Proof. unfold expand_ids. apply flat_map_concat_map. Qed.
Lemma expand_ids_length l : length (expand_ids bc l) = length l * bc.
Proof.
  unfold expand_ids. induction l as [|g l IH]; simpl; [reflexivity|].
  rewrite app_length, IH. unfold blk_ids. rewrite seq_length. lia.
Qed.
Lemma expand_seq a n : expand_ids bc (seq a n) = seq (a * bc) (n * bc).
Proof.
  revert a. induction n as [|n IH]; intros a; [reflexivity|].
  cbn [seq expand_ids flat_map]. fold (expand_ids bc (seq (S a) n)). rewrite IH.
  unfold blk_ids. replace (S n * bc) with (bc + n * bc) by lia. rewrite seq_app. f_equal. f_equal. lia.
Qed.
Lemma nat_list_eqb_refl l : nat_list_eqb l l = true.
Proof.
  unfold nat_list_eqb. rewrite Nat.eqb_refl. simpl. induction l as [|x l IH]; simpl; [reflexivity|].
  rewrite Nat.eqb_refl. exact IH.
Qed.

(* one check on block ids is enough for the scalar exchange of the expanded package *)
Theorem fwd_ok_expand (w : world) (ids colmaps : list (list nat)) (big big' : nat) :
  fwd_ok w ids colmaps big = true -> sizes_ok w = true -> in_range w (map (@length nat) ids) = true ->
  fwd_ok (expand_world bc w) (map (expand_ids bc) ids) (map (expand_ids bc) colmaps) big' = true.
Proof.
  intros Hok Hsz Hrg. unfold fwd_ok in *. rewrite forallb_forall in *. intros p Hp.
  unfold expand_world in Hp. rewrite map_length in Hp. specialize (Hok p Hp). apply in_seq in Hp.
  apply nat_list_eqb_eq in Hok.
  change (@nil nat) with (expand_ids bc []) at 1. rewrite (map_nth (expand_ids bc)).
  replace (map (expand_ids bc) ids) with (map (@concat nat) (map (map (blk_ids bc)) ids))
    by (rewrite map_map; apply map_ext; intros l; symmetry; apply expand_ids_concat).
  rewrite (forward_expand bc big' (blk_ids bc big) w (map (map (blk_ids bc)) ids) p Hsz).
  - rewrite (forward_natural (blk_ids bc) big w ids p). rewrite Hok, <- expand_ids_concat.
    apply nat_list_eqb_refl.
  - replace (map (@length (list nat)) (map (map (blk_ids bc)) ids)) with (map (@length nat) ids); [exact Hrg|].
    rewrite map_map. apply map_ext. intros l. rewrite map_length. reflexivity.
  - intros q b Hb.
    assert (E : nth q (map (map (blk_ids bc)) ids) [] = map (blk_ids bc) (nth q ids []))
      by (apply (map_nth (map (blk_ids bc)) ids [] q)).
    rewrite E in Hb. apply in_map_iff in Hb. destruct Hb as [g [<- _]].
    unfold blk_ids. apply seq_length.
  - unfold blk_ids. apply seq_length.
  - lia.
Qed.
End Lift.

Section ParBlockProofs.
Variable F : Type.
Variables (zero one : F) (add mul sub : F -> F -> F) (opp : F -> F).
Variable Fth : ring_theory zero one add mul sub opp (@eq F).
Notation xat := (xat F zero).
Notation dot := (dot_row F zero add mul).
Notation dfltB := (mkRS 0 0 0 0 (mkCsr 0 0 []) (mkCsr 0 0 []) [] : rank_state (list F)).
Notation dfltS := (mkRS 0 0 0 0 (mkCsr 0 0 []) (mkCsr 0 0 []) [] : rank_state F).

Lemma expand_state_wf br bc N (rs : rank_state (list F)) :
  rs_wf (list F) N rs -> rs_wf F (N * bc) (expand_state F zero br bc rs).
Proof.
  intros [Hon [Hnr [Hnc [Hoff [Hnro [Hnco [Hfc Hcm]]]]]]]. unfold expand_state, rs_wf.
  cbn [rs_on rs_off rs_nr rs_nc rs_fc rs_colmap].
  repeat split.
  - apply coo_to_csr_wf. unfold bsr_expand. apply bcoo_expand_wf. apply csr_to_coo_wf. exact Hon.
  - apply coo_to_csr_wf. unfold bsr_expand. apply bcoo_expand_wf. apply csr_to_coo_wf. exact Hon.
  - cbn. rewrite Hnr. reflexivity.
  - cbn. rewrite Hnc. reflexivity.
  - apply coo_to_csr_wf. unfold bsr_expand. apply bcoo_expand_wf. apply csr_to_coo_wf. exact Hoff.
  - apply coo_to_csr_wf. unfold bsr_expand. apply bcoo_expand_wf. apply csr_to_coo_wf. exact Hoff.
  - cbn. rewrite Hnro. reflexivity.
  - cbn. rewrite Hnco, expand_ids_length. reflexivity.
  - nia.
  - intros c Hc. unfold expand_ids in Hc. apply in_flat_map in Hc. destruct Hc as [g [Hg Hc]].
    unfold blk_ids in Hc. apply in_seq in Hc. specialize (Hcm g Hg). nia.
Qed.

(* distributed block product b = A x: the scalar model on the expanded states and the expanded package *)
Theorem par_bmult_global br bc (w : world) (st : list (rank_state (list F))) (X : list F) (big big' N : nat) p li :
  fwd_ok w (map (fun rs => seq (rs_fc rs) (rs_nc rs)) st) (map (fun rs => rs_colmap rs) st) big = true ->
  sizes_ok w = true -> in_range w (map (fun rs => rs_nc rs) st) = true ->
  length X <= big' -> length w = length st -> p < length st ->
  rs_wf (list F) N (nth p st dfltB) -> li < rs_nr (nth p st dfltB) * br ->
  let st' := map (expand_state F zero br bc) st in
  xat (nth p (par_mult F zero add mul (expand_world bc w) st'
               (map (fun rs => map (fun c => nth c X zero) (seq (rs_fc rs) (rs_nc rs))) st')) []) li
  = dot (gden_row F zero add (expand_state F zero br bc (nth p st dfltB)) li) X (N * bc).
Proof.
  intros Hok Hsz Hrg Hbig Hlen Hp Hwf Hli st'.
  assert (Hnth : nth p st' dfltS = expand_state F zero br bc (nth p st dfltB)).
  { unfold st'. apply (nth_map_default (expand_state F zero br bc) st p dfltB dfltS). reflexivity. }
  rewrite <- Hnth.
  apply (par_mult_global F zero one add mul sub opp Fth (expand_world bc w) st' X big' (N * bc) p li).
  - unfold st'. rewrite !map_map. cbn [expand_state rs_fc rs_nc rs_colmap].
    replace (map (fun x : rank_state (list F) => seq (rs_fc x * bc) (rs_nc x * bc)) st)
      with (map (expand_ids bc) (map (fun rs : rank_state (list F) => seq (rs_fc rs) (rs_nc rs)) st))
      by (rewrite map_map; apply map_ext; intros rs; apply expand_seq).
    replace (map (fun x : rank_state (list F) => expand_ids bc (rs_colmap x)) st)
      with (map (expand_ids bc) (map (fun rs : rank_state (list F) => rs_colmap rs) st))
      by (rewrite map_map; reflexivity).
    apply (fwd_ok_expand bc w _ _ big big' Hok Hsz).
    rewrite map_map. replace (map (fun x : rank_state (list F) => length (seq (rs_fc x) (rs_nc x))) st)
      with (map (fun rs : rank_state (list F) => rs_nc rs) st) by (apply map_ext; intros rs; rewrite seq_length; reflexivity).
    exact Hrg.
  - exact Hbig.
  - unfold expand_world, st'. rewrite !map_length. exact Hlen.
  - unfold st'. rewrite map_length. exact Hp.
  - rewrite Hnth. apply expand_state_wf. exact Hwf.
  - rewrite Hnth. cbn [expand_state rs_nr]. exact Hli.
Qed.

(* ---------- what the expanded state represents, in terms of the stored blocks ---------- *)
Notation sumF := (sumf F zero add).
Definition bentry (B : csr (list F)) (bc I K r c : nat) : F :=
  sumF (map (fun e => nth (r * bc + c) (eval e) zero)
            (filter (fun e => (erow e =? I) && (ecol e =? K)) (coo_ents (csr_to_coo B)))).
Definition bgden_row (rs : rank_state (list F)) (bc I J r c : nat) : F :=
  add (if (rs_fc rs <=? J) && (J <? rs_fc rs + rs_nc rs) then bentry (rs_on rs) bc I (J - rs_fc rs) r c else zero)
      (sumF (map (fun kg => if snd kg =? J then bentry (rs_off rs) bc I (fst kg) r c else zero) (indexed (rs_colmap rs)))).

Lemma indexed_from_app {X} s (l1 l2 : list X) :
  indexed_from s (l1 ++ l2) = indexed_from s l1 ++ indexed_from (s + length l1) l2.
Proof.
  revert s. induction l1 as [|x l1 IH]; intros s; simpl; [rewrite Nat.add_0_r; reflexivity|].
  f_equal. rewrite IH. f_equal. f_equal. lia.
Qed.
Lemma indexed_from_seqblk s a n : indexed_from s (seq a n) = map (fun t => (s + t, a + t)) (seq 0 n).
Proof.
  revert s a. induction n as [|n IH]; intros s a; [reflexivity|]. simpl. rewrite !Nat.add_0_r. f_equal.
  rewrite IH, <- seq_shift, map_map. apply map_ext. intros t. f_equal; lia.
Qed.
Lemma indexed_from_expand bc s (cm : list nat) :
  indexed_from (s * bc) (expand_ids bc cm)
  = flat_map (fun kg => map (fun t => (fst kg * bc + t, snd kg * bc + t)) (seq 0 bc)) (indexed_from s cm).
Proof.
  revert s. induction cm as [|g cm IH]; intros s; [reflexivity|].
  cbn [expand_ids flat_map indexed_from fst snd]. fold (expand_ids bc cm).
  rewrite indexed_from_app. unfold blk_ids at 1. rewrite indexed_from_seqblk. f_equal.
  unfold blk_ids. rewrite seq_length. replace (s * bc + bc) with (S s * bc) by lia. apply IH.
Qed.

Theorem gden_expand_state br bc (rs : rank_state (list F)) I J r c :
  csr_wf (rs_on rs) -> csr_wf (rs_off rs) -> r < br -> c < bc ->
  gden_row F zero add (expand_state F zero br bc rs) (I * br + r) (J * bc + c) = bgden_row rs bc I J r c.
Proof.
  intros Hon Hoff Hr Hc. unfold gden_row, bgden_row, expand_state. cbn [rs_fc rs_nc rs_on rs_off rs_colmap].
  f_equal.
  - replace ((rs_fc rs * bc <=? J * bc + c) && (J * bc + c <? rs_fc rs * bc + rs_nc rs * bc))
      with ((rs_fc rs <=? J) && (J <? rs_fc rs + rs_nc rs)).
    2:{ destruct (rs_fc rs <=? J) eqn:E1; destruct (J <? rs_fc rs + rs_nc rs) eqn:E2;
        destruct (rs_fc rs * bc <=? J * bc + c) eqn:E3; destruct (J * bc + c <? rs_fc rs * bc + rs_nc rs * bc) eqn:E4;
        try reflexivity; exfalso;
        repeat match goal with
        | H : (_ <=? _) = true |- _ => apply Nat.leb_le in H
        | H : (_ <=? _) = false |- _ => apply Nat.leb_gt in H
        | H : (_ <? _) = true |- _ => apply Nat.ltb_lt in H
        | H : (_ <? _) = false |- _ => apply Nat.ltb_ge in H
        end; nia. }
    destruct ((rs_fc rs <=? J) && (J <? rs_fc rs + rs_nc rs)) eqn:E; [|reflexivity].
    apply andb_prop in E. destruct E as [E1 _]. apply Nat.leb_le in E1.
    rewrite den_coo_to_csr by (unfold bsr_expand; apply bcoo_expand_wf, csr_to_coo_wf, Hon).
    replace (J * bc + c - rs_fc rs * bc) with ((J - rs_fc rs) * bc + c) by nia.
    unfold bsr_expand. apply (bcoo_expand_den F zero one add mul sub opp Fth); assumption.
  - unfold indexed. change 0 with (0 * bc) at 1. rewrite indexed_from_expand.
    rewrite map_flat_map, (sumf_flat_map F zero one add mul sub opp Fth).
    apply (sumf_map_ext F zero add). intros [k g] _. cbn [fst snd]. rewrite map_map. cbn [fst snd].
    destruct (g =? J) eqn:E.
    + apply Nat.eqb_eq in E. subst g.
      rewrite (sumf_single F zero one add mul sub opp Fth bc c _ Hc).
      * rewrite Nat.eqb_refl. rewrite den_coo_to_csr by (unfold bsr_expand; apply bcoo_expand_wf, csr_to_coo_wf, Hoff).
        unfold bsr_expand. apply (bcoo_expand_den F zero one add mul sub opp Fth); assumption.
      * intros t Ht Hne. replace (J * bc + t =? J * bc + c) with false by (symmetry; apply Nat.eqb_neq; lia). reflexivity.
    + apply Nat.eqb_neq in E. rewrite (sumf_map_ext F zero add _ (fun _ => zero)).
      * apply (sumf_map_zero F zero one add mul sub opp Fth).
      * intros t Ht. apply in_seq in Ht. replace (g * bc + t =? J * bc + c) with false; [reflexivity|].
        symmetry. apply Nat.eqb_neq. nia.
Qed.

End ParBlockProofs.
