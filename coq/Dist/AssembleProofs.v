(* Assembly of a distributed matrix (ParCOOMatrix::add_global_value on the owner of the row, finalize, to_ParCSR):
   every rank's rows of the represented global operator are the rows of the triple list the user added, entries
   below zero_tol dropped at insertion. *)
From Coq Require Import List Arith Lia Bool Permutation.
Import ListNotations.
From Raptor Require Import Base.Sums Sparse.Defs Sparse.ConvertProofs Sparse.SortProofs Sparse.CooDedupProofs
     Dist.Comm Dist.ParMat Dist.ParConv Dist.ParConvProofs.

Section Assemble.
Variable F : Type.
Variables (zero one : F) (add mul sub : F -> F -> F) (opp : F -> F).
Variable Fth : ring_theory zero one add mul sub opp (@eq F).
Add Ring FringAS : Fth.
Variable small : F -> bool.

Notation sumF := (sumf F zero add).
Notation denL := (den_line F zero add).
Notation denCoo := (den_coo F zero add).
Notation denCsr := (den_csr F zero add).
Notation gdenR := (gden_row F zero add).
Notation den_ents := (den_ents F zero add).

Lemma den_ents_map_filter (g : ent F -> ent F) (p : ent F -> bool) l i j :
  (forall e, eval (g e) = eval e) ->
  den_ents (map g (filter p l)) i j = sumF (map eval (filter (fun e => p e && at_pos F i j (g e)) l)).
Proof.
  intros Hg. unfold CooDedupProofs.den_ents. induction l as [|e l IH]; [reflexivity|]. simpl.
  destruct (p e); simpl; [|exact IH].
  destruct (at_pos F i j (g e)); simpl; [rewrite Hg, IH; reflexivity|exact IH].
Qed.

Lemma den_line_of_ents (l : list (ent F)) li j :
  denL (map (fun e => (ecol e, eval e)) (filter (fun e => erow e =? li) l)) j = den_ents l li j.
Proof.
  unfold den_line, CooDedupProofs.den_ents. rewrite filter_map_comm, map_map, filter_filter. reflexivity.
Qed.

Theorem gden_assemble (trip : list (ent F)) fr nr fc nc li j : li < nr ->
  gdenR (assemble F add small trip fr nr fc nc) li j
  = den_ents (filter (fun e => negb (small (eval e))) trip) (fr + li) j.
Proof.
  intros Hli. rewrite gden_row_slots. unfold assemble.
  set (mine := filter (fun e => (fr <=? erow e) && (erow e <? fr + nr) && negb (small (eval e))) trip).
  set (ison := fun e : ent F => (fc <=? ecol e) && (ecol e <? fc + nc)).
  set (gon := fun e : ent F => (erow e - fr, ecol e - fc, eval e)).
  set (goff := fun e : ent F => (erow e - fr, ecol e, eval e)).
  set (on_c := coo_remove_duplicates F add (mkCoo nr nc (map gon (filter ison mine)))).
  set (off_c := coo_remove_duplicates F add (mkCoo nr 0 (map goff (filter (fun e => negb (ison e)) mine)))).
  set (cm := sort_uniq (map ecol (coo_ents off_c))).
  set (ren := fun e : ent F => (erow e, index_of (ecol e) cm, eval e)).
  change (add (if (fc <=? j) && (j <? fc + nc) then denCsr (coo_to_csr on_c) li (j - fc) else zero)
              (slot_sum F zero add cm (nth li (csr_rows (coo_to_csr (mkCoo nr (length cm) (map ren (coo_ents off_c))))) []) j)
          = den_ents (filter (fun e => negb (small (eval e))) trip) (fr + li) j).
  (* membership facts *)
  assert (Hmine : forall e, In e mine -> fr <= erow e < fr + nr /\ small (eval e) = false /\ In e trip).
  { intros e He. apply filter_In in He. destruct He as [Ht Hc].
    apply andb_prop in Hc. destruct Hc as [Hc Hs]. apply andb_prop in Hc. destruct Hc as [H1 H2].
    apply Nat.leb_le in H1. apply Nat.ltb_lt in H2. apply negb_true_iff in Hs. auto. }
  assert (Hwf_on : coo_wf on_c).
  { apply coo_remove_duplicates_wf. intros e He. cbn [coo_ents coo_nr coo_nc] in *.
    apply in_map_iff in He. destruct He as [e0 [<- He0]]. apply filter_In in He0. destruct He0 as [Hm Hi].
    destruct (Hmine e0 Hm) as [Hr _]. unfold ison in Hi. apply andb_prop in Hi. destruct Hi as [H1 H2].
    apply Nat.leb_le in H1. apply Nat.ltb_lt in H2. unfold gon, erow, ecol; simpl. unfold erow, ecol in *. lia. }
  assert (Hoff_rows : forall e, In e (coo_ents off_c) -> erow e < nr).
  { intros e He. apply coo_remove_duplicates_pos in He. destruct He as [e' [He' [E1 _]]]. cbn [coo_ents] in He'.
    apply in_map_iff in He'. destruct He' as [e0 [<- He0]]. apply filter_In in He0. destruct He0 as [Hm _].
    destruct (Hmine e0 Hm) as [Hr _]. rewrite <- E1. unfold goff, erow; simpl. unfold erow in Hr. lia. }
  assert (Hcm : forall e, In e (coo_ents off_c) -> In (ecol e) cm).
  { intros e He. unfold cm. apply (proj2 (sort_uniq_in F zero small (ecol e) (map ecol (coo_ents off_c)))). apply in_map. exact He. }
  assert (Hwf_off : coo_wf (mkCoo nr (length cm) (map ren (coo_ents off_c)))).
  { intros e He. cbn [coo_ents coo_nr coo_nc] in *. apply in_map_iff in He. destruct He as [e0 [<- He0]].
    unfold ren, erow, ecol; simpl. split; [apply (Hoff_rows e0 He0)|apply index_of_lt, (Hcm e0 He0)]. }
  (* the on-process part *)
  assert (Hon : forall c, denCsr (coo_to_csr on_c) li c
                = sumF (map eval (filter (fun e => ison e && at_pos F li c (gon e)) mine))).
  { intros c. rewrite den_coo_to_csr by exact Hwf_on. unfold on_c.
    rewrite (den_coo_remove_duplicates F zero one add mul sub opp Fth).
    change (denCoo (mkCoo nr nc (map gon (filter ison mine))) li c) with (den_ents (map gon (filter ison mine)) li c).
    apply den_ents_map_filter. reflexivity. }
  (* the off-process part *)
  assert (Hoff : slot_sum F zero add cm (nth li (csr_rows (coo_to_csr (mkCoo nr (length cm) (map ren (coo_ents off_c))))) []) j
                 = sumF (map eval (filter (fun e => negb (ison e) && at_pos F li j (goff e)) mine))).
  { unfold coo_to_csr. cbn [csr_rows coo_nr coo_ents]. rewrite bucket_nth by exact Hli.
    rewrite (slot_sum_glob F zero one add mul sub opp Fth).
    2:{ intros p Hp. apply in_map_iff in Hp. destruct Hp as [e [<- He]]. apply filter_In in He. destruct He as [He _].
        apply in_map_iff in He. destruct He as [e0 [<- He0]]. unfold ren, ecol; simpl. apply index_of_lt, (Hcm e0 He0). }
    replace (globalise F cm (map (fun e : ent F => (ecol e, eval e)) (filter (fun e : ent F => erow e =? li) (map ren (coo_ents off_c)))))
      with (map (fun e : ent F => (ecol e, eval e)) (filter (fun e : ent F => erow e =? li) (coo_ents off_c))).
    2:{ unfold globalise. rewrite filter_map_comm, !map_map. 
        replace (filter (fun a : ent F => erow (ren a) =? li) (coo_ents off_c)) with (filter (fun e : ent F => erow e =? li) (coo_ents off_c))
          by (apply filter_ext; intros e; reflexivity).
        apply map_ext_in. intros e He. apply filter_In in He. destruct He as [He _].
        unfold ren, ecol, eval; simpl. rewrite index_of_nth by (apply (Hcm e He)). reflexivity. }
    rewrite den_line_of_ents. unfold off_c.
    change (den_ents (coo_ents (coo_remove_duplicates F add (mkCoo nr 0 (map goff (filter (fun e => negb (ison e)) mine))))) li j)
      with (denCoo (coo_remove_duplicates F add (mkCoo nr 0 (map goff (filter (fun e => negb (ison e)) mine)))) li j).
    rewrite (den_coo_remove_duplicates F zero one add mul sub opp Fth).
    change (denCoo (mkCoo nr 0 (map goff (filter (fun e => negb (ison e)) mine))) li j)
      with (den_ents (map goff (filter (fun e => negb (ison e)) mine)) li j).
    apply den_ents_map_filter. reflexivity. }
  rewrite Hoff, Hon. clear Hoff Hon.
  (* both parts as sums over the triple list *)
  unfold CooDedupProofs.den_ents. rewrite filter_filter.
  assert (Hsum : forall p : ent F -> bool, sumF (map eval (filter p mine))
     = sumF (map eval (filter (fun e => negb (small (eval e)) && ((fr <=? erow e) && (erow e <? fr + nr) && p e)) trip))).
  { intros p. unfold mine. rewrite filter_filter. f_equal. f_equal. apply filter_ext. intros e.
    destruct (fr <=? erow e), (erow e <? fr + nr), (small (eval e)), (p e); reflexivity. }
  rewrite !Hsum.
  destruct ((fc <=? j) && (j <? fc + nc)) eqn:Erange.
  - apply andb_prop in Erange. destruct Erange as [E1 E2]. apply Nat.leb_le in E1. apply Nat.ltb_lt in E2.
    rewrite (filter_ext_in' (fun e => negb (small (eval e)) && ((fr <=? erow e) && (erow e <? fr + nr) && (negb (ison e) && at_pos F li j (goff e))))
                            (fun _ => false) trip).
    2:{ intros e _. unfold ison, at_pos, goff, erow, ecol; simpl.
        destruct (negb (small (eval e))); simpl; [|reflexivity].
        destruct (fr <=? fst (fst e)) eqn:A1; simpl; [|reflexivity]. destruct (fst (fst e) <? fr + nr) eqn:A2; simpl; [|reflexivity].
        destruct (snd (fst e) =? j) eqn:A3; [|rewrite andb_false_r, andb_false_r; reflexivity].
        apply Nat.eqb_eq in A3. rewrite A3.
        replace (fc <=? j) with true by (symmetry; apply Nat.leb_le; lia).
        replace (j <? fc + nc) with true by (symmetry; apply Nat.ltb_lt; lia). reflexivity. }
    replace (filter (fun _ : ent F => false) trip) with (@nil (ent F)) by (clear; induction trip; simpl; auto).
    simpl.
    rewrite (filter_ext_in' (fun e => negb (small (eval e)) && ((fr <=? erow e) && (erow e <? fr + nr) && (ison e && at_pos F li (j - fc) (gon e))))
                            (fun e => negb (small (eval e)) && at_pos F (fr + li) j e) trip); [ring|].
    intros e _. unfold ison, at_pos, gon, erow, ecol; simpl.
    destruct (negb (small (eval e))); simpl; [|reflexivity].
    destruct (fst (fst e) =? fr + li) eqn:A1.
    + apply Nat.eqb_eq in A1. rewrite A1.
      replace (fr <=? fr + li) with true by (symmetry; apply Nat.leb_le; lia).
      replace (fr + li <? fr + nr) with true by (symmetry; apply Nat.ltb_lt; lia).
      replace (fr + li - fr =? li) with true by (symmetry; apply Nat.eqb_eq; lia). simpl.
      destruct (snd (fst e) =? j) eqn:A2.
      * apply Nat.eqb_eq in A2. rewrite A2.
        replace (fc <=? j) with true by (symmetry; apply Nat.leb_le; lia).
        replace (j <? fc + nc) with true by (symmetry; apply Nat.ltb_lt; lia).
        rewrite Nat.eqb_refl. reflexivity.
      * apply Nat.eqb_neq in A2. destruct (fc <=? snd (fst e)) eqn:A3; simpl; [|reflexivity].
        apply Nat.leb_le in A3. destruct (snd (fst e) <? fc + nc); simpl; [|reflexivity].
        apply Nat.eqb_neq. lia.
    + apply Nat.eqb_neq in A1. destruct (fr <=? fst (fst e)) eqn:A3; simpl; [|reflexivity].
      apply Nat.leb_le in A3. destruct (fst (fst e) <? fr + nr); simpl; [|reflexivity].
      replace (fst (fst e) - fr =? li) with false by (symmetry; apply Nat.eqb_neq; lia).
      rewrite andb_false_r. reflexivity.
  - rewrite (filter_ext_in' (fun e => negb (small (eval e)) && ((fr <=? erow e) && (erow e <? fr + nr) && (negb (ison e) && at_pos F li j (goff e))))
                            (fun e => negb (small (eval e)) && at_pos F (fr + li) j e) trip); [ring|].
    intros e _. unfold ison, at_pos, goff, erow, ecol; simpl.
    destruct (negb (small (eval e))); simpl; [|reflexivity].
    destruct (fst (fst e) =? fr + li) eqn:A1.
    + apply Nat.eqb_eq in A1. rewrite A1.
      replace (fr <=? fr + li) with true by (symmetry; apply Nat.leb_le; lia).
      replace (fr + li <? fr + nr) with true by (symmetry; apply Nat.ltb_lt; lia).
      replace (fr + li - fr =? li) with true by (symmetry; apply Nat.eqb_eq; lia). simpl.
      destruct (snd (fst e) =? j) eqn:A2; [|rewrite andb_false_r; reflexivity].
      apply Nat.eqb_eq in A2. rewrite A2. rewrite Erange. reflexivity.
    + apply Nat.eqb_neq in A1. destruct (fr <=? fst (fst e)) eqn:A3; simpl; [|reflexivity].
      apply Nat.leb_le in A3. destruct (fst (fst e) <? fr + nr); simpl; [|reflexivity].
      replace (fst (fst e) - fr =? li) with false by (symmetry; apply Nat.eqb_neq; lia).
      rewrite andb_false_r. reflexivity.
Qed.

End Assemble.
