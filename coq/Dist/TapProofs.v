(* C04: a node-aware package that passes the id check exchanges every payload exactly like the standard one. *)
From Coq Require Import List Arith Lia Bool.
Import ListNotations.
From Raptor Require Import Base.Sums Dist.Comm Dist.CommProofs Dist.Tap.

Section TapNat.
Context {A A' : Type}.
Variable g : A -> A'.
Variable d : A.

Lemma upd_at_map (l : list A) i v : map g (upd_at l i v) = upd_at (map g l) i (g v).
Proof. revert i; induction l as [|a l IH]; intros [|i]; simpl; try reflexivity. rewrite IH. reflexivity. Qed.

Lemma scatter_map buf0 pos vals : map g (scatter buf0 pos vals) = scatter (map g buf0) pos (map g vals).
Proof.
  unfold scatter. revert buf0 vals. induction pos as [|i pos IH]; intros buf0 vals; simpl; [reflexivity|].
  destruct vals as [|v vals]; simpl; [reflexivity|]. rewrite IH, upd_at_map. reflexivity.
Qed.

Lemma all_ranks_forward_map tw (w : world) xs :
  all_ranks tw (fun q => forward (g d) w (map (map g) xs) q) = map (map g) (all_ranks tw (fun q => forward d w xs q)).
Proof.
  unfold all_ranks. rewrite map_map. apply map_ext. intros q. apply forward_natural.
Qed.

Theorem tap_forward_natural tw xs p :
  tap_forward (g d) tw (map (map g) xs) p = map g (tap_forward d tw xs p).
Proof.
  unfold tap_forward. rewrite !scatter_map, map_repeat.
  rewrite (forward_natural g d (map tL (t_ranks tw))).
  destruct (three_step tw).
  - rewrite all_ranks_forward_map, all_ranks_forward_map, forward_natural. reflexivity.
  - rewrite all_ranks_forward_map, forward_natural. reflexivity.
Qed.
End TapNat.

(* every vector / block / row payload: the node-aware exchange delivers X at the column-map entries *)
Theorem tap_forward_delivers {A} (d : A) (tw : tap_world) (ids colmaps : list (list nat)) (big : nat) (X : list A) :
  tap_fwd_ok tw ids colmaps big = true -> length X <= big ->
  forall p, p < length (t_ranks tw) ->
    tap_forward d tw (map (map (fun i => nth i X d)) ids) p = map (fun c => nth c X d) (nth p colmaps []).
Proof.
  intros Hok Hbig p Hp. unfold tap_fwd_ok in Hok. rewrite forallb_forall in Hok.
  specialize (Hok p). rewrite in_seq in Hok. specialize (Hok (conj (Nat.le_0_l p) Hp)).
  apply nat_list_eqb_eq in Hok. rewrite <- Hok.
  rewrite <- (tap_forward_natural (fun i => nth i X d) big).
  replace (nth big X d) with d by (symmetry; apply nth_overflow; exact Hbig). reflexivity.
Qed.

(* equivalence with the standard package on the same column maps *)
Theorem tap_equals_standard {A} (d : A) (tw : tap_world) (w : world) (ids colmaps : list (list nat)) (big : nat) (X : list A) :
  tap_fwd_ok tw ids colmaps big = true -> fwd_ok w ids colmaps big = true -> length X <= big ->
  length w = length (t_ranks tw) ->
  forall p, p < length w ->
    tap_forward d tw (map (map (fun i => nth i X d)) ids) p = forward d w (map (map (fun i => nth i X d)) ids) p.
Proof.
  intros Ht Hs Hbig Hl p Hp.
  rewrite (tap_forward_delivers d tw ids colmaps big X Ht Hbig p) by (rewrite <- Hl; exact Hp).
  rewrite (forward_delivers d w ids colmaps big X Hs Hbig p Hp). reflexivity.
Qed.

(* ---------- reverse exchange of the node-aware package: homomorphic image of the symbolic run ---------- *)
Section TapReverse.
Variable F : Type.
Variables (zero one : F) (add mul sub : F -> F -> F) (opp : F -> F).
Variable Fth : ring_theory zero one add mul sub opp (@eq F).
Add Ring FringT : Fth.
Notation sumF := (sumf F zero add).
Variable ys : list (list F).
Notation tok := (nat * nat)%type.
Definition hv (l : list tok) : F := sumF (map (val zero ys) l).

Lemma hv_app l1 l2 : hv (l1 ++ l2) = add (hv l1) (hv l2).
Proof. unfold hv. rewrite map_app. apply (sumf_app F zero one add mul sub opp Fth). Qed.
Lemma hv_nil : hv [] = zero.
Proof. reflexivity. Qed.

Lemma pack_pos_h (vals : list (list tok)) pos : map hv (pack_pos [] vals pos) = pack_pos zero (map hv vals) pos.
Proof. unfold pack_pos. rewrite map_map. apply map_ext. intros i. rewrite <- hv_nil. symmetry. apply map_nth. Qed.

Lemma seg_h (w : world) (packed : list (list (list tok))) p q :
  map hv (seg w packed p q) = seg w (map (map hv) packed) p q.
Proof.
  unfold seg. destruct (find_recv q 0 (recv_msgs (pk w p))) as [[off cnt]|]; [|reflexivity].
  rewrite <- firstn_map, <- skipn_map. f_equal. f_equal.
  change (@nil F) with (map hv []). rewrite map_nth. reflexivity.
Qed.

Lemma rev_buf_h (w : world) (packed : list (list (list tok))) q :
  map hv (rev_buf [] w packed q) = rev_buf zero w (map (map hv) packed) q.
Proof.
  unfold rev_buf. induction (send_msgs (pk w q)) as [|m ms IH]; simpl; [reflexivity|].
  rewrite map_app, IH. f_equal. rewrite (fit_map hv []). rewrite seg_h. reflexivity.
Qed.

Lemma dup_fold_h (buf : list (list tok)) ks : forall acc,
  hv (fold_left (fun t k => t ++ nth k buf []) ks acc)
  = fold_left (fun t k => add t (nth k (map hv buf) zero)) ks (hv acc).
Proof.
  induction ks as [|k ks IH]; intros acc; simpl; [reflexivity|].
  rewrite IH, hv_app. f_equal. f_equal. rewrite <- hv_nil. symmetry. apply map_nth.
Qed.

Lemma dup_combine_h dup (buf : list (list tok)) :
  map hv (dup_combine [] (@app tok) [] dup buf) = dup_combine zero add zero dup (map hv buf).
Proof. unfold dup_combine. rewrite map_map. apply map_ext. intros ks. apply dup_fold_h. Qed.

Lemma all_ranks_map {X Y} (g : X -> Y) tw (f : nat -> X) : map g (all_ranks tw f) = all_ranks tw (fun p => g (f p)).
Proof. unfold all_ranks. rewrite map_map. reflexivity. Qed.

Definition zipadd (init : list F) (rs : list (list tok)) : list F :=
  map (fun bw => add (fst bw) (hv (snd bw))) (combine init rs).

Lemma step_zipadd (init : list F) rs i (l : list tok) :
  length rs = length init ->
  zipadd init (upd_with (fun b => b ++ l) i rs) = upd_with (fun b => add b (hv l)) i (zipadd init rs).
Proof.
  unfold zipadd. revert rs i. induction init as [|b0 init IH]; intros [|r rs] i Hl; simpl in *; try discriminate.
  - destruct i; reflexivity.
  - destruct i as [|i]; simpl.
    + f_equal. rewrite hv_app. ring.
    + f_equal. apply IH. lia.
Qed.

Lemma apply_msg_zipadd (init : list F) rs idxs (ls : list (list tok)) :
  length rs = length init ->
  zipadd init (apply_msg (@app tok) rs idxs ls) = apply_msg add (zipadd init rs) idxs (map hv ls)
  /\ length (apply_msg (@app tok) rs idxs ls) = length init.
Proof.
  unfold apply_msg. revert rs ls. induction idxs as [|i idxs IH]; intros rs ls Hl.
  - simpl. split; [reflexivity|exact Hl].
  - destruct ls as [|l ls]; simpl; [split; [reflexivity|exact Hl]|].
    specialize (IH (upd_with (fun b => b ++ l) i rs) ls).
    rewrite upd_with_length in IH. specialize (IH Hl). destruct IH as [IH1 IH2].
    split; [|exact IH2]. rewrite IH1, step_zipadd by exact Hl. reflexivity.
Qed.

Lemma apply_msg_add_init (res0 res1 : list F) idxs vals : res0 = res1 ->
  apply_msg add res0 idxs vals = apply_msg add res1 idxs vals.
Proof. intros ->. reflexivity. Qed.

(* the concrete reverse exchange (sum) is the image of the symbolic one *)
Theorem tap_reverse_hom (tw : tap_world) (syms : list (list (list tok))) (init : list F) q :
  tap_reverse zero add zero add tw (map (map hv) syms) init q
  = zipadd init (tap_reverse [] (@app tok) [] (@app tok) tw syms (repeat [] (length init)) q).
Proof.
  unfold tap_reverse.
  set (rk := t_ranks tw). set (dfl := mkTap nopkg [] nopkg nopkg nopkg [] 0 [] []).
  (* stage buffers are images of the symbolic ones *)
  assert (EpL : all_ranks tw (fun p => pack_pos zero (nth p (map (map hv) syms) []) (tL_pos (nth p rk dfl)))
                = map (map hv) (all_ranks tw (fun p => pack_pos [] (nth p syms []) (tL_pos (nth p rk dfl))))).
  { rewrite all_ranks_map. unfold all_ranks. apply map_ext. intros p. rewrite pack_pos_h.
    f_equal. change (@nil F) with (map hv []). rewrite map_nth. reflexivity. }
  assert (EpR : all_ranks tw (fun p => pack_pos zero (nth p (map (map hv) syms) []) (tR_pos (nth p rk dfl)))
                = map (map hv) (all_ranks tw (fun p => pack_pos [] (nth p syms []) (tR_pos (nth p rk dfl))))).
  { rewrite all_ranks_map. unfold all_ranks. apply map_ext. intros p. rewrite pack_pos_h.
    f_equal. change (@nil F) with (map hv []). rewrite map_nth. reflexivity. }
  rewrite EpL, EpR.
  set (sL := all_ranks tw (fun p => pack_pos [] (nth p syms []) (tL_pos (nth p rk dfl)))).
  set (sR := all_ranks tw (fun p => pack_pos [] (nth p syms []) (tR_pos (nth p rk dfl)))).
  assert (ER : all_ranks tw (fun p => rev_buf zero (map tR rk) (map (map hv) sR) p)
               = map (map hv) (all_ranks tw (fun p => rev_buf [] (map tR rk) sR p))).
  { rewrite all_ranks_map. unfold all_ranks. apply map_ext. intros p. symmetry. apply rev_buf_h. }
  rewrite ER. set (sRs := all_ranks tw (fun p => rev_buf [] (map tR rk) sR p)).
  assert (EG : all_ranks tw (fun p => dup_combine zero add zero (tG_dup (nth p rk dfl)) (nth p (map (map hv) sRs) []))
               = map (map hv) (all_ranks tw (fun p => dup_combine [] (@app tok) [] (tG_dup (nth p rk dfl)) (nth p sRs [])))).
  { rewrite all_ranks_map. unfold all_ranks. apply map_ext. intros p. rewrite dup_combine_h.
    f_equal. change (@nil F) with (map hv []). rewrite map_nth. reflexivity. }
  rewrite EG. set (sGp := all_ranks tw (fun p => dup_combine [] (@app tok) [] (tG_dup (nth p rk dfl)) (nth p sRs []))).
  assert (EGs : all_ranks tw (fun p => rev_buf zero (map tG rk) (map (map hv) sGp) p)
               = map (map hv) (all_ranks tw (fun p => rev_buf [] (map tG rk) sGp p))).
  { rewrite all_ranks_map. unfold all_ranks. apply map_ext. intros p. symmetry. apply rev_buf_h. }
  rewrite EGs. set (sGs := all_ranks tw (fun p => rev_buf [] (map tG rk) sGp p)).
  rewrite <- (rev_buf_h (map tL rk) sL q).
  assert (Hinit : zipadd init (repeat [] (length init)) = init).
  { unfold zipadd. clear -Fth. induction init as [|b init IH]; simpl; [reflexivity|]. rewrite IH. f_equal. unfold hv; simpl. ring. }
  destruct (apply_msg_zipadd init (repeat [] (length init)) (flat_map snd (send_msgs (tL (nth q rk dfl))))
              (rev_buf [] (map tL rk) sL q) (repeat_length _ _)) as [H1 H1l].
  rewrite Hinit in H1.
  destruct (three_step tw).
  - assert (ES : all_ranks tw (fun p => dup_combine zero add zero (tS_dup (nth p rk dfl)) (nth p (map (map hv) sGs) []))
               = map (map hv) (all_ranks tw (fun p => dup_combine [] (@app tok) [] (tS_dup (nth p rk dfl)) (nth p sGs [])))).
    { rewrite all_ranks_map. unfold all_ranks. apply map_ext. intros p. rewrite dup_combine_h.
      f_equal. change (@nil F) with (map hv []). rewrite map_nth. reflexivity. }
    rewrite ES. rewrite <- rev_buf_h.
    destruct (apply_msg_zipadd init _ (flat_map snd (send_msgs (tS (nth q rk dfl))))
                (rev_buf [] (map tS rk) (all_ranks tw (fun p => dup_combine [] (@app tok) [] (tS_dup (nth p rk dfl)) (nth p sGs []))) q) H1l) as [H2 _].
    rewrite H2, H1. reflexivity.
  - change (@nil F) with (map hv []). rewrite map_nth.
    destruct (apply_msg_zipadd init _ (flat_map snd (send_msgs (tG (nth q rk dfl)))) (nth q sGs []) H1l) as [H2 _].
    rewrite H2, H1. reflexivity.
Qed.

End TapReverse.

Section TapReverseSpec.
Variable F : Type.
Variables (zero one : F) (add mul sub : F -> F -> F) (opp : F -> F).
Variable Fth : ring_theory zero one add mul sub opp (@eq F).
Add Ring FringT2 : Fth.
Notation sumF := (sumf F zero add).

Lemma nth_map_dflt {X Y} (f : X -> Y) l i dx dy : f dx = dy -> nth i (map f l) dy = f (nth i l dx).
Proof. intros <-. apply map_nth. Qed.

Lemma sym_ys_seq (lens : list nat) :
  sym_ys lens = map (fun p => map (fun j => (p, j)) (seq 0 (nth p lens 0))) (seq 0 (length lens)).
Proof.
  apply nth_ext with (d := []) (d' := []).
  - unfold sym_ys. rewrite !map_length, combine_length, !seq_length. lia.
  - intros p Hp. rewrite nth_sym_ys.
    unfold sym_ys in Hp. rewrite map_length, combine_length, seq_length in Hp.
    rewrite nth_map_seq by lia. reflexivity.
Qed.

Lemma syms_image (ys : list (list F)) :
  map (map (hv F zero add ys)) (map (map (fun t : nat * nat => [t])) (sym_ys (map (@length F) ys))) = ys.
Proof.
  rewrite sym_ys_seq, !map_map, map_length.
  transitivity (map (fun p => nth p ys []) (seq 0 (length ys))); [|apply map_nth_seq].
  apply map_ext_in. intros p Hp. apply in_seq in Hp.
  rewrite !map_map.
  replace (nth p (map (@length F) ys) 0) with (length (nth p ys []))
    by (change 0 with (length (@nil F)); symmetry; apply (map_nth (@length F))).
  transitivity (map (fun j => nth j (nth p ys []) zero) (seq 0 (length (nth p ys [])))); [|apply map_nth_seq].
  apply map_ext. intros j. unfold hv, val. simpl. ring.
Qed.

(* with addition, a node-aware package accepted by tap_rev_ok adds into entry i of owner q exactly the
   contributions of the slots whose column-map entry is the id of that entry: the same value the standard
   reverse exchange produces (C03_reverse_sum_is_adjoint) *)
Theorem tap_reverse_sum_spec (tw : tap_world) (ids colmaps : list (list nat)) (ys : list (list F)) (init : list F) q i :
  tap_rev_ok tw ids colmaps = true -> q < length (t_ranks tw) ->
  map (@length F) ys = map (@length nat) colmaps ->
  length init = length (nth q ids []) -> i < length init ->
  nth i (tap_reverse zero add zero add tw ys init q) zero
  = add (nth i init zero)
        (sumF (map (val zero ys) (expected_wires colmaps (nth i (nth q ids []) 0)))).
Proof.
  intros Hok Hq Hlen Hinit Hi.
  rewrite <- (syms_image ys) at 1.
  rewrite (tap_reverse_hom F zero one add mul sub opp Fth ys).
  unfold tap_rev_ok in Hok. rewrite forallb_forall in Hok. specialize (Hok q).
  rewrite in_seq in Hok. specialize (Hok (conj (Nat.le_0_l q) Hq)).
  apply andb_prop in Hok. destruct Hok as [Hl Hw]. apply Nat.eqb_eq in Hl.
  unfold tap_reverse_sym in Hl, Hw. rewrite <- Hlen, <- Hinit in Hl, Hw.
  set (r := tap_reverse [] (@app (nat * nat)) [] (@app (nat * nat)) tw
              (map (map (fun t => [t])) (sym_ys (map (@length F) ys))) (repeat [] (length init)) q) in *.
  unfold zipadd.
  rewrite (nth_map_dflt (fun bw : F * list (nat * nat) => add (fst bw) (hv F zero add ys (snd bw))) _ i (zero, []) zero)
    by (unfold hv; simpl; ring).
  rewrite combine_nth by lia. cbn [fst snd]. f_equal.
  unfold hv. apply (sumf_perm F zero one add mul sub opp Fth). apply Permutation_map.
  rewrite forallb_forall in Hw. specialize (Hw (i, nth i r [])). cbn [fst snd] in Hw. apply same_pairs_perm. apply Hw.
  assert (E : (i, nth i r []) = nth i (combine (seq 0 (length r)) r) (0, [])).
  { rewrite combine_nth by apply seq_length. rewrite seq_nth by lia. reflexivity. }
  rewrite E. apply nth_In. rewrite combine_length, seq_length. lia.
Qed.

(* hence equal to the standard reverse exchange on the same column maps *)
Theorem tap_reverse_equals_standard (tw : tap_world) (w : world) (ids colmaps : list (list nat)) (ys : list (list F)) (init : list F) q i :
  tap_rev_ok tw ids colmaps = true -> rev_ok w ids colmaps = true ->
  q < length (t_ranks tw) -> length w = length (t_ranks tw) ->
  map (@length F) ys = map (@length nat) colmaps ->
  length init = length (nth q ids []) -> i < length init ->
  nth i (tap_reverse zero add zero add tw ys init q) zero = nth i (reverse add w ys init q) zero.
Proof.
  intros Ht Hs Hq Hl Hlen Hinit Hi.
  rewrite (tap_reverse_sum_spec tw ids colmaps ys init q i Ht Hq Hlen Hinit Hi).
  rewrite (reverse_sum_spec F zero one add mul sub opp Fth w ids colmaps ys init q i Hs ltac:(rewrite Hl; exact Hq) Hlen Hinit Hi).
  reflexivity.
Qed.
End TapReverseSpec.
