(* C04: a node-aware package that passes the id check exchanges every payload exactly like the standard one. *)
From Coq Require Import List Arith Lia Bool.
Import ListNotations.
From Raptor Require Import Base.Sums Dist.Comm Dist.CommProofs Dist.Tap.

Section TapNat.
Context {A A' : Type}.
Variable g : A -> A'.
Variable d : A.

Lemma upd_at_map (l : list A) i v : map g (upd_at l i v) = upd_at (map g l) i (g v).
Proof. revert i; induction l as [|a l IH]; intros [|i]; simpl; try reflexivity. rewrite IH. reflexivity. Qed.

Lemma scatter_map buf0 pos vals : map g (scatter buf0 pos vals) = scatter (map g buf0) pos (map g vals).
Proof.
  unfold scatter. revert buf0 vals. induction pos as [|i pos IH]; intros buf0 vals; simpl; [reflexivity|].
  destruct vals as [|v vals]; simpl; [reflexivity|]. rewrite IH, upd_at_map. reflexivity.
Qed.

Lemma all_ranks_forward_map tw (w : world) xs :
  all_ranks tw (fun q => forward (g d) w (map (map g) xs) q) = map (map g) (all_ranks tw (fun q => forward d w xs q)).
Proof.
  unfold all_ranks. rewrite map_map. apply map_ext. intros q. apply forward_natural.
Qed.

Theorem tap_forward_natural tw xs p :
  tap_forward (g d) tw (map (map g) xs) p = map g (tap_forward d tw xs p).
Proof.
  unfold tap_forward. rewrite !scatter_map, map_repeat.
  rewrite (forward_natural g d (map tL (t_ranks tw))).
  destruct (three_step tw).
  - rewrite all_ranks_forward_map, all_ranks_forward_map, forward_natural. reflexivity.
  - rewrite all_ranks_forward_map, forward_natural. reflexivity.
Qed.
End TapNat.

(* every vector / block / row payload: the node-aware exchange delivers X at the column-map entries *)
Theorem tap_forward_delivers {A} (d : A) (tw : tap_world) (ids colmaps : list (list nat)) (big : nat) (X : list A) :
  tap_fwd_ok tw ids colmaps big = true -> length X <= big ->
  forall p, p < length (t_ranks tw) ->
    tap_forward d tw (map (map (fun i => nth i X d)) ids) p = map (fun c => nth c X d) (nth p colmaps []).
Proof.
  intros Hok Hbig p Hp. unfold tap_fwd_ok in Hok. rewrite forallb_forall in Hok.
  specialize (Hok p). rewrite in_seq in Hok. specialize (Hok (conj (Nat.le_0_l p) Hp)).
  apply nat_list_eqb_eq in Hok. rewrite <- Hok.
  rewrite <- (tap_forward_natural (fun i => nth i X d) big).
  replace (nth big X d) with d by (symmetry; apply nth_overflow; exact Hbig). reflexivity.
Qed.

(* equivalence with the standard package on the same column maps *)
Theorem tap_equals_standard {A} (d : A) (tw : tap_world) (w : world) (ids colmaps : list (list nat)) (big : nat) (X : list A) :
  tap_fwd_ok tw ids colmaps big = true -> fwd_ok w ids colmaps big = true -> length X <= big ->
  length w = length (t_ranks tw) ->
  forall p, p < length w ->
    tap_forward d tw (map (map (fun i => nth i X d)) ids) p = forward d w (map (map (fun i => nth i X d)) ids) p.
Proof.
  intros Ht Hs Hbig Hl p Hp.
  rewrite (tap_forward_delivers d tw ids colmaps big X Ht Hbig p) by (rewrite <- Hl; exact Hp).
  rewrite (forward_delivers d w ids colmaps big X Hs Hbig p Hp). reflexivity.
Qed.
