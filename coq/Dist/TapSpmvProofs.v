(* C02 with the node-aware packages: the distributed products computed through the TAP exchange (tap_mult, tap_mult_T,
   tap residual) equal the same global products - the TAP forward exchange delivers the owners' values (C04), and the TAP
   reverse exchange equals the standard one entry by entry (C04). *)
From Coq Require Import List Arith Lia Bool Permutation.
Import ListNotations.
From Raptor Require Import Base.Sums Sparse.Defs Sparse.ConvertProofs Sparse.SpmvProofs
     Dist.Comm Dist.CommProofs Dist.ParMat Dist.ParSpmvProofs Dist.ParSpmvTProofs Dist.Tap Dist.TapProofs.

Section TapSpmv.
Variable F : Type.
Variables (zero one : F) (add mul sub : F -> F -> F) (opp : F -> F).
Variable Fth : ring_theory zero one add mul sub opp (@eq F).

Notation sumF := (sumf F zero add).
Notation xat := (xat F zero).
Notation dot := (dot_row F zero add mul).
Notation dflt := (mkRS 0 0 0 0 (mkCsr 0 0 []) (mkCsr 0 0 []) []).

(* ParMatrix::tap_mult / tap_mult_append / tap residual / tap_mult_T: the local kernels with the node-aware exchange *)
Definition tap_par_mult (tw : tap_world) (st : list (rank_state F)) (xs : list (list F)) : list (list F) :=
  map (fun p => par_mult_local F zero add mul (nth p st dflt) (nth p xs []) (tap_forward zero tw xs p)) (seq 0 (length st)).
Definition tap_par_mult_append (tw : tap_world) (st : list (rank_state F)) (xs bs : list (list F)) : list (list F) :=
  map (fun p => par_mult_append_local F zero add mul (nth p st dflt) (nth p xs []) (tap_forward zero tw xs p) (nth p bs []))
      (seq 0 (length st)).
Definition tap_par_residual (tw : tap_world) (st : list (rank_state F)) (xs bs : list (list F)) : list (list F) :=
  map (fun p => par_residual_local F zero mul sub (nth p st dflt) (nth p xs []) (tap_forward zero tw xs p) (nth p bs []))
      (seq 0 (length st)).
Definition tap_par_mult_T (tw : tap_world) (st : list (rank_state F)) (xs bprev : list (list F)) : list (list F) :=
  let halos := map (fun p => par_mult_T_halo F zero add mul (nth p st dflt) (nth p xs [])) (seq 0 (length st)) in
  map (fun q => tap_reverse zero add zero add tw halos
                  (par_mult_T_local F zero add mul (nth q st dflt) (nth q xs []) (nth q bprev [])) q)
      (seq 0 (length st)).

Section Fwd.
Variables (tw : tap_world) (st : list (rank_state F)) (X : list F) (big N p li : nat).
Hypothesis Hok : tap_fwd_ok tw (map (fun rs => seq (rs_fc rs) (rs_nc rs)) st) (map (fun rs => rs_colmap rs) st) big = true.
Hypothesis Hbig : length X <= big.
Hypothesis Hlen : length (t_ranks tw) = length st.
Hypothesis Hp : p < length st.
Hypothesis Hwf : rs_wf F N (nth p st dflt).
Hypothesis Hli : li < rs_nr (nth p st dflt).
Notation xs := (map (fun rs : rank_state F => map (fun c => nth c X zero) (seq (rs_fc rs) (rs_nc rs))) st).

Lemma tap_buffer :
  tap_forward zero tw xs p = map (fun c => nth c X zero) (rs_colmap (nth p st dflt)).
Proof.
  assert (Exs : xs = map (map (fun c => nth c X zero)) (map (fun rs => seq (rs_fc rs) (rs_nc rs)) st))
    by (rewrite map_map; reflexivity).
  rewrite Exs. rewrite (tap_forward_delivers zero tw _ _ big X Hok Hbig p) by (rewrite Hlen; exact Hp).
  change (@nil nat) with (rs_colmap (F:=F) dflt). rewrite (map_nth (fun rs : rank_state F => rs_colmap rs)). reflexivity.
Qed.

Lemma xs_nth : nth p xs [] = map (fun c => nth c X zero) (seq (rs_fc (nth p st dflt)) (rs_nc (nth p st dflt))).
Proof.
  change (@nil F) with (map (fun c => nth c X zero) (seq (rs_fc (F:=F) dflt) (rs_nc (F:=F) dflt))).
  rewrite (map_nth (fun rs : rank_state F => map (fun c => nth c X zero) (seq (rs_fc rs) (rs_nc rs)))). reflexivity.
Qed.

Theorem tap_par_mult_global :
  xat (nth p (tap_par_mult tw st xs) []) li = dot (gden_row F zero add (nth p st dflt) li) X N.
Proof.
  unfold tap_par_mult. rewrite nth_map_seq by exact Hp. rewrite tap_buffer, xs_nth.
  apply (par_mult_row F zero one add mul sub opp Fth); assumption.
Qed.

Theorem tap_par_mult_append_global (bs : list (list F)) :
  xat (nth p (tap_par_mult_append tw st xs bs) []) li
  = add (xat (nth p bs []) li) (dot (gden_row F zero add (nth p st dflt) li) X N).
Proof.
  unfold tap_par_mult_append. rewrite nth_map_seq by exact Hp. rewrite tap_buffer, xs_nth.
  apply (par_mult_append_row F zero one add mul sub opp Fth); assumption.
Qed.

Theorem tap_par_residual_global (bs : list (list F)) : rs_nr (nth p st dflt) <= length (nth p bs []) ->
  xat (nth p (tap_par_residual tw st xs bs) []) li
  = sub (xat (nth p bs []) li) (dot (gden_row F zero add (nth p st dflt) li) X N).
Proof.
  intros Hb. unfold tap_par_residual. rewrite nth_map_seq by exact Hp. rewrite tap_buffer, xs_nth.
  apply (par_residual_row F zero one add mul sub opp Fth); assumption.
Qed.
End Fwd.

(* A^T x through the node-aware reverse exchange = A^T x through the standard one = the global transpose product *)
Theorem tap_par_mult_T_global (tw : tap_world) (w : world) (st : list (rank_state F)) (xs bprev : list (list F)) (N q lc : nat) :
  let colmaps := map (fun rs => rs_colmap rs) st in
  let ids := map (fun rs => seq (rs_fc rs) (rs_nc rs)) st in
  tap_rev_ok tw ids colmaps = true -> rev_ok w ids colmaps = true ->
  length (t_ranks tw) = length st -> length w = length st -> q < length st ->
  (forall p, p < length st -> rs_wf F N (nth p st dflt)) ->
  (forall p, p < length st -> length (nth p xs []) = rs_nr (nth p st dflt)) ->
  length (nth q bprev []) = rs_nc (nth q st dflt) ->
  lc < rs_nc (nth q st dflt) ->
  (forall p, p < length st -> p <> q ->
     ~ (rs_fc (nth p st dflt) <= rs_fc (nth q st dflt) + lc < rs_fc (nth p st dflt) + rs_nc (nth p st dflt))) ->
  xat (nth q (tap_par_mult_T tw st xs bprev) []) lc
  = sumF (map (fun p => colT F zero add mul (nth p st dflt) (nth p xs []) (rs_fc (nth q st dflt) + lc)) (seq 0 (length st))).
Proof.
  intros colmaps ids Htok Hok Htlen Hlen Hq Hwf Hxs Hbp Hlc Hdisj.
  rewrite <- (par_mult_T_global F zero one add mul sub opp Fth w st xs bprev N q lc Hok Hlen Hq Hwf Hxs Hbp Hlc Hdisj).
  unfold tap_par_mult_T, par_mult_T. rewrite !nth_map_seq by exact Hq.
  set (halos := map (fun p => par_mult_T_halo F zero add mul (nth p st dflt) (nth p xs [])) (seq 0 (length st))).
  set (init := par_mult_T_local F zero add mul (nth q st dflt) (nth q xs []) (nth q bprev [])).
  assert (Hinit_len : length init = rs_nc (nth q st dflt)).
  { unfold init, par_mult_T_local. destruct (Hwf q Hq) as [_ [_ [Hnc _]]].
    destruct (rs_nr (nth q st dflt) =? 0); [rewrite map_length; exact Hbp|rewrite (csr_mult_T_length F zero add mul); exact Hnc]. }
  assert (Hidq : nth q ids [] = seq (rs_fc (nth q st dflt)) (rs_nc (nth q st dflt))).
  { unfold ids. change (@nil nat) with (seq (rs_fc (F:=F) dflt) (rs_nc (F:=F) dflt)).
    rewrite (map_nth (fun rs : rank_state F => seq (rs_fc rs) (rs_nc rs))). reflexivity. }
  assert (Hhal_len : map (@length F) halos = map (@length nat) colmaps).
  { unfold halos, colmaps. rewrite !map_map.
    rewrite <- (map_nth_seq st dflt) at 2. rewrite map_map. apply map_ext_in. intros p Hp. apply in_seq in Hp.
    unfold par_mult_T_halo. rewrite (csr_mult_T_length F zero add mul).
    destruct (Hwf p ltac:(lia)) as [_ [_ [_ [_ [_ [Hc _]]]]]]. exact Hc. }
  unfold Defs.xat.
  apply (tap_reverse_equals_standard F zero one add mul sub opp Fth tw w ids colmaps halos init q lc Htok Hok).
  - rewrite Htlen; exact Hq.
  - rewrite Hlen, Htlen; reflexivity.
  - exact Hhal_len.
  - rewrite Hidq, seq_length; exact Hinit_len.
  - rewrite Hinit_len; exact Hlc.
Qed.

End TapSpmv.
