(* C03: the forward exchange is natural in the payload; the transpose exchange folds the caller's
   reduction over exactly the contributions routed to each entry. *)
From Coq Require Import List Arith Lia Bool Permutation.
Import ListNotations.
From Raptor Require Import Base.Sums Dist.Comm.

(* ---------- forward: naturality ---------- *)
Section Naturality.
Context {A A' : Type}.
Variable g : A -> A'.
Variable d : A.

Lemma pack_map x idxs : map g (pack d x idxs) = pack (g d) (map g x) idxs.
Proof. unfold pack. rewrite map_map. apply map_ext. intros i. symmetry. apply map_nth. Qed.

Lemma nth_map_nil {X Y} (h : X -> Y) (xs : list (list X)) q : nth q (map (map h) xs) [] = map h (nth q xs []).
Proof. change (@nil Y) with (map h []). apply map_nth. Qed.

Lemma map_repeat {X Y} (h : X -> Y) x n : map h (repeat x n) = repeat (h x) n.
Proof. induction n; simpl; congruence. Qed.

Lemma fit_map n l : map g (fit d n l) = fit (g d) n (map g l).
Proof. unfold fit. rewrite <- firstn_map, map_app, map_repeat. reflexivity. Qed.

Lemma msg_fwd_map w xs q p : map g (msg_fwd d w xs q p) = msg_fwd (g d) w (map (map g) xs) q p.
Proof. unfold msg_fwd. rewrite pack_map, nth_map_nil. reflexivity. Qed.

Theorem forward_natural w xs p :
  forward (g d) w (map (map g) xs) p = map g (forward d w xs p).
Proof.
  unfold forward. induction (recv_msgs (pk w p)) as [|m ms IH]; simpl; [reflexivity|].
  rewrite map_app, IH, fit_map, msg_fwd_map. reflexivity.
Qed.
End Naturality.

Lemma nat_list_eqb_eq a b : nat_list_eqb a b = true -> a = b.
Proof.
  unfold nat_list_eqb. revert b. induction a as [|x a IH]; intros [|y b]; simpl; intros H;
    try reflexivity; try discriminate.
  apply andb_prop in H. destruct H as [Hl H]. apply andb_prop in H. destruct H as [Hxy H].
  simpl in Hxy. apply Nat.eqb_eq in Hxy. subst y. f_equal. apply IH.
  apply andb_true_intro. split; [exact Hl|exact H].
Qed.

(* Correctness of the forward exchange for EVERY vector and payload type from one check on ids:
   X = the global vector (indexed by global id); each rank holds X at its ids. *)
Theorem forward_delivers {A} (d : A) (w : world) (ids colmaps : list (list nat)) (big : nat) (X : list A) :
  fwd_ok w ids colmaps big = true -> length X <= big ->
  forall p, p < length w ->
    forward d w (map (map (fun i => nth i X d)) ids) p = map (fun c => nth c X d) (nth p colmaps []).
Proof.
  intros Hok Hbig p Hp. unfold fwd_ok in Hok. rewrite forallb_forall in Hok.
  specialize (Hok p). rewrite in_seq in Hok. specialize (Hok (conj (Nat.le_0_l p) Hp)).
  apply nat_list_eqb_eq in Hok. rewrite <- Hok.
  rewrite <- (forward_natural (fun i => nth i X d) big).
  replace (nth big X d) with d by (symmetry; apply nth_overflow; exact Hbig). reflexivity.
Qed.

(* ---------- transpose exchange: homomorphism from the symbolic run ---------- *)
Section ReverseHom.
Context {A B : Type}.
Variable d : A.
Variable f : B -> A -> B.
Variable ys : list (list A).
Definition val (t : nat * nat) : A := nth (snd t) (nth (fst t) ys []) d.
Definition foldtok (bw : B * list (nat * nat)) : B := fold_left f (map val (snd bw)) (fst bw).

Lemma upd_with_length {X} (h : X -> X) i (l : list X) : length (upd_with h i l) = length l.
Proof. revert i; induction l as [|a l IH]; intros [|i]; simpl; try reflexivity. rewrite IH. reflexivity. Qed.

Lemma step_hom (init : list B) (rs : list (list (nat * nat))) i tok :
  length rs = length init ->
  map foldtok (combine init (upd_with (fun l => snoc l tok) i rs))
  = upd_with (fun b => f b (val tok)) i (map foldtok (combine init rs)).
Proof.
  revert rs i. induction init as [|b0 init IH]; intros [|r rs] i Hl; simpl in *; try discriminate.
  - destruct i; reflexivity.
  - destruct i as [|i]; simpl.
    + f_equal. unfold foldtok, snoc; simpl. rewrite map_app, fold_left_app. reflexivity.
    + f_equal. apply IH. lia.
Qed.

Lemma apply_msg_hom (init : list B) rs idxs toks :
  length rs = length init ->
  map foldtok (combine init (apply_msg snoc rs idxs toks))
  = apply_msg f (map foldtok (combine init rs)) idxs (map val toks)
  /\ length (apply_msg snoc rs idxs toks) = length init.
Proof.
  unfold apply_msg. revert rs toks. induction idxs as [|i idxs IH]; intros rs toks Hl.
  - simpl. split; [reflexivity|exact Hl].
  - destruct toks as [|t toks]; simpl; [split; [reflexivity|exact Hl]|].
    specialize (IH (upd_with (fun l => snoc l t) i rs) toks).
    rewrite upd_with_length in IH. specialize (IH Hl). destruct IH as [IH1 IH2].
    split; [|exact IH2]. rewrite IH1. rewrite step_hom by exact Hl. reflexivity.
Qed.

Lemma map_nth_seq {X} (l : list X) (dx : X) : map (fun j => nth j l dx) (seq 0 (length l)) = l.
Proof.
  induction l as [|a l IH]; simpl; [reflexivity|]. f_equal.
  rewrite <- seq_shift, map_map. exact IH.
Qed.

Lemma nth_sym_ys (lens : list nat) p :
  nth p (sym_ys lens) [] = map (fun j => (p, j)) (seq 0 (nth p lens 0)).
Proof.
  unfold sym_ys.
  assert (G : forall s l, nth p (map (fun pl => map (fun j => (fst pl, j)) (seq 0 (snd pl))) (combine (seq s (length l)) l)) []
                = if p <? length l then map (fun j => (s + p, j)) (seq 0 (nth p l 0)) else []).
  { intros s l. revert s p. induction l as [|a l IH]; intros s p; simpl.
    - destruct p; reflexivity.
    - destruct p as [|p]; simpl; [rewrite Nat.add_0_r; reflexivity|].
      rewrite IH. change (S p <? S (length l)) with (p <? length l).
      destruct (p <? length l); [|reflexivity]. replace (S s + p) with (s + S p) by lia. reflexivity. }
  rewrite G. destruct (p <? length lens) eqn:E; [reflexivity|].
  apply Nat.ltb_ge in E. rewrite (nth_overflow lens 0 E). reflexivity.
Qed.

Lemma seg_hom w p q : seg w ys p q = map val (seg w (sym_ys (map (@length A) ys)) p q).
Proof.
  unfold seg. destruct (find_recv q 0 (recv_msgs (pk w p))) as [[off cnt]|]; [|reflexivity].
  rewrite <- firstn_map, <- skipn_map. f_equal. f_equal.
  rewrite nth_sym_ys. rewrite map_map. unfold val; simpl.
  change 0 with (length (@nil A)). rewrite map_nth. simpl.
  symmetry. apply map_nth_seq.
Qed.

Theorem reverse_hom w (init : list B) q :
  reverse f w ys init q
  = map foldtok (combine init (reverse_sym w (map (@length A) ys) (length init) q)).
Proof.
  unfold reverse_sym, reverse.
  set (msgs := send_msgs (pk w q)).
  assert (G : forall (res : list B) rs, length rs = length init -> res = map foldtok (combine init rs) ->
     fold_left (fun res m => apply_msg f res (snd m) (seg w ys (fst m) q)) msgs res
     = map foldtok (combine init (fold_left (fun res m => apply_msg snoc res (snd m)
           (seg w (sym_ys (map (@length A) ys)) (fst m) q)) msgs rs))).
  { induction msgs as [|m msgs IH]; intros res rs Hl Hres; simpl; [exact Hres|].
    destruct (apply_msg_hom init rs (snd m) (seg w (sym_ys (map (@length A) ys)) (fst m) q) Hl) as [H1 H2].
    apply IH; [exact H2|]. rewrite H1, <- Hres, <- seg_hom. reflexivity. }
  apply G; [apply repeat_length|].
  clear. induction init as [|b init IH]; simpl; [reflexivity|]. f_equal. exact IH.
Qed.
End ReverseHom.

(* ---------- pair lists: boolean checks reflect ---------- *)
Lemma pair_eqb_eq a b : pair_eqb a b = true <-> a = b.
Proof.
  unfold pair_eqb. destruct a as [a1 a2], b as [b1 b2]; simpl. rewrite andb_true_iff, !Nat.eqb_eq.
  split; [intros [-> ->]; reflexivity|intros H; inversion H; auto].
Qed.
Lemma mem_pair_in a l : mem_pair a l = true <-> In a l.
Proof.
  unfold mem_pair. rewrite existsb_exists. split.
  - intros [x [Hx He]]. apply pair_eqb_eq in He. subst. exact Hx.
  - intros H. exists a. split; [exact H|apply pair_eqb_eq; reflexivity].
Qed.
Lemma nodup_pairs_NoDup l : nodup_pairs l = true -> NoDup l.
Proof.
  induction l as [|a l IH]; simpl; intros H; [constructor|].
  apply andb_prop in H. destruct H as [H1 H2]. constructor; [|apply IH; exact H2].
  intros Hin. apply mem_pair_in in Hin. rewrite Hin in H1. discriminate.
Qed.
Lemma same_pairs_perm a b : same_pairs a b = true -> Permutation a b.
Proof.
  unfold same_pairs. intros H. repeat (apply andb_prop in H; destruct H as [H ?]).
  apply NoDup_Permutation; [apply nodup_pairs_NoDup; assumption|apply nodup_pairs_NoDup; assumption|].
  intros x. unfold subset_pairs in *. rewrite forallb_forall in *. split; intros Hx.
  - apply mem_pair_in. auto.
  - apply mem_pair_in. auto.
Qed.

(* ---------- sums: the transpose exchange with addition ---------- *)
Section ReverseSum.
Variable F : Type.
Variables (zero one : F) (add mul sub : F -> F -> F) (opp : F -> F).
Variable Fth : ring_theory zero one add mul sub opp (@eq F).
Add Ring FringC : Fth.
Notation sumF := (sumf F zero add).

Lemma fold_add_sum' (l : list F) b : fold_left add l b = add b (sumF l).
Proof. revert b; induction l as [|a l IH]; intros b; simpl; [ring|]. rewrite IH. ring. Qed.

(* entry i of the owner's result = its initial value + the sum of all contributions routed to it;
   under rev_ok these are exactly the slots whose column-map entry is the id of that entry *)
Theorem reverse_sum_spec (w : world) (ids colmaps : list (list nat)) (ys : list (list F)) (init : list F) q i :
  rev_ok w ids colmaps = true -> q < length w ->
  map (@length F) ys = map (@length nat) colmaps ->
  length init = length (nth q ids []) -> i < length init ->
  nth i (reverse add w ys init q) zero
  = add (nth i init zero)
        (sumF (map (val zero ys) (expected_wires colmaps (nth i (nth q ids []) 0)))).
Proof.
  intros Hok Hq Hlen Hinit Hi.
  rewrite (reverse_hom zero add ys w init q).
  unfold rev_ok in Hok. rewrite forallb_forall in Hok. specialize (Hok q).
  rewrite in_seq in Hok. specialize (Hok (conj (Nat.le_0_l q) Hq)).
  apply andb_prop in Hok. destruct Hok as [Hl Hw]. apply Nat.eqb_eq in Hl.
  rewrite Hlen. rewrite Hinit.
  set (r := reverse_sym w (map (@length nat) colmaps) (length (nth q ids [])) q) in *.
  assert (Hlr : length r = length init) by lia.
  rewrite nth_indep with (d' := foldtok zero add ys (zero, [])) by (rewrite map_length, combine_length; lia).
  rewrite map_nth. rewrite combine_nth by lia.
  unfold foldtok; simpl. rewrite fold_add_sum'. f_equal.
  apply (sumf_perm F zero one add mul sub opp Fth). apply Permutation_map.
  rewrite forallb_forall in Hw.
  specialize (Hw (i, nth i r [])). simpl in Hw. apply same_pairs_perm. apply Hw.
  assert (E : (i, nth i r []) = nth i (combine (seq 0 (length r)) r) (0, [])).
  { rewrite combine_nth by apply seq_length. rewrite seq_nth by lia. reflexivity. }
  rewrite E. apply nth_In. rewrite combine_length, seq_length. lia.
Qed.

End ReverseSum.
