(* Distributed block matrices (ParBSRMatrix): a rank holds its block rows as two BSR blocks, a column map of block
   columns and the package built on block ids; the products exchange b_cols scalars per block column
   (communicate(x, block_size)).  Model: the scalar rank state / package obtained by expanding every block row-major
   (Sparse/Block.v) and every block id g into the scalar ids g*b .. g*b + b - 1. *)
From Coq Require Import List Arith Lia Bool.
Import ListNotations.
From Raptor Require Import Base.Sums Sparse.Defs Sparse.Block Dist.Comm Dist.ParMat.

Definition blk_ids (bc : nat) (g : nat) : list nat := seq (g * bc) bc.
Definition expand_ids (bc : nat) (l : list nat) : list nat := flat_map (blk_ids bc) l.
Definition expand_pkg (bc : nat) (p : pkg) : pkg :=
  mkPkg (map (fun m => (fst m, snd m * bc)) (recv_msgs p))
        (map (fun m => (fst m, expand_ids bc (snd m))) (send_msgs p)).
Definition expand_world (bc : nat) (w : world) : world := map (expand_pkg bc) w.

Section ParBlock.
Variable F : Type.
Variable zero : F.
Definition expand_state (br bc : nat) (rs : rank_state (list F)) : rank_state F :=
  mkRS (rs_fr rs * br) (rs_nr rs * br) (rs_fc rs * bc) (rs_nc rs * bc)
       (coo_to_csr (bsr_expand zero br bc (rs_on rs))) (coo_to_csr (bsr_expand zero br bc (rs_off rs)))
       (expand_ids bc (rs_colmap rs)).
End ParBlock.
