(* Node-aware (topology-aware) communication package, core/comm_pkg.hpp TAPComm + core/tap_comm.cpp:
   four standard packages per rank, composed.  Local (on-node) packages are dumped with global rank ids. *)
From Coq Require Import List Arith Lia Bool.
Import ListNotations.
From Raptor Require Import Dist.Comm.

Record tap_rank := mkTap {
  tL : pkg; tL_pos : list nat;     (* local_L_par_comm and the final buffer positions of its receive slots *)
  tS : pkg;                        (* local_S_par_comm (3-step only) *)
  tG : pkg;                        (* global_par_comm *)
  tR : pkg; tR_pos : list nat;     (* local_R_par_comm and the final buffer positions of its receive slots *)
  t_size : nat;                    (* recv_size = number of off-process columns *)
  tS_dup : list (list nat);        (* DuplicateData of local_S's receive side: per slot, positions of the next stage's buffer *)
  tG_dup : list (list nat)         (* DuplicateData of global's receive side *)
}.
Record tap_world := mkTapW { three_step : bool; t_ranks : list tap_rank }.

Section Payload.
Variable A : Type.
Variable d : A.

Fixpoint upd_at (l : list A) (i : nat) (v : A) : list A :=
  match l, i with
  | [], _ => []
  | _ :: l', O => v :: l'
  | x :: l', S i' => x :: upd_at l' i' v
  end.
(* recvbuf[pos[i]] = buf[i] *)
Definition scatter (buf0 : list A) (pos : list nat) (vals : list A) : list A :=
  fold_left (fun b pv => upd_at b (fst pv) (snd pv)) (combine pos vals) buf0.

Definition all_ranks {X} (tw : tap_world) (f : nat -> X) : list X := map f (seq 0 (length (t_ranks tw))).

(* TAPComm::initialize + complete *)
Definition tap_forward (tw : tap_world) (xs : list (list A)) (p : nat) : list A :=
  let rk := t_ranks tw in
  let wL := map tL rk in let wS := map tS rk in let wG := map tG rk in let wR := map tR rk in
  let me := nth p rk (mkTap nopkg [] nopkg nopkg nopkg [] 0 [] []) in
  let bL := forward d wL xs p in
  let src := if three_step tw then all_ranks tw (fun q => forward d wS xs q) else xs in
  let bG := all_ranks tw (fun q => forward d wG src q) in
  let bR := forward d wR bG p in
  scatter (scatter (repeat d (t_size me)) (tR_pos me) bR) (tL_pos me) bL.
End Payload.

Arguments upd_at {A}. Arguments scatter {A}. Arguments tap_forward {A}.

(* the check: exchanging the global ids through the four packages reproduces every column map *)
Definition tap_fwd_ok (tw : tap_world) (ids colmaps : list (list nat)) (big : nat) : bool :=
  forallb (fun p => nat_list_eqb (tap_forward big tw ids p) (nth p colmaps [])) (seq 0 (length (t_ranks tw))).

(* ---------- transpose (reverse) exchange of the node-aware package: TAPComm::initialize_T + complete_T ---------- *)
Section Reverse.
Variable A : Type.
Variable d : A.
Variable f0 : A -> A -> A.     (* init_result_func: combines duplicates before they leave a node *)
Variable v0 : A.               (* init_result_func_val *)

(* the sender-side buffer after a transposed ParComm exchange: q receives, per send message, the segment that
   the destination p holds for q (contiguous layout, ContigData / packed NonContigData / DuplicateData::send) *)
Definition rev_buf (w : world) (packed : list (list A)) (q : nat) : list A :=
  flat_map (fun m => fit d (length (snd m)) (seg w packed (fst m) q)) (send_msgs (pk w q)).
(* NonContigData::send on a receive side: pack values at the recorded positions *)
Definition pack_pos (vals : list A) (pos : list nat) : list A := map (fun i => nth i vals d) pos.
(* DuplicateData::send: every slot carries the combination of all duplicates routed through it *)
Definition dup_combine (dup : list (list nat)) (buf : list A) : list A :=
  map (fun ks => fold_left (fun t k => f0 t (nth k buf d)) ks v0) dup.

Variable B : Type.
Variable f : B -> A -> B.      (* result_func *)

Definition tap_reverse (tw : tap_world) (vals : list (list A)) (init : list B) (q : nat) : list B :=
  let rk := t_ranks tw in
  let dflt := mkTap nopkg [] nopkg nopkg nopkg [] 0 [] [] in
  let wL := map tL rk in let wS := map tS rk in let wG := map tG rk in let wR := map tR rk in
  let packL := all_ranks tw (fun p => pack_pos (nth p vals []) (tL_pos (nth p rk dflt))) in
  let packR := all_ranks tw (fun p => pack_pos (nth p vals []) (tR_pos (nth p rk dflt))) in
  let Lsend := rev_buf wL packL q in
  let Rsend := all_ranks tw (fun p => rev_buf wR packR p) in
  let Gpack := all_ranks tw (fun p => dup_combine (tG_dup (nth p rk dflt)) (nth p Rsend [])) in
  let Gsend := all_ranks tw (fun p => rev_buf wG Gpack p) in
  let me := nth q rk dflt in
  let r1 := apply_msg f init (flat_map snd (send_msgs (tL me))) Lsend in
  if three_step tw then
    let Spack := all_ranks tw (fun p => dup_combine (tS_dup (nth p rk dflt)) (nth p Gsend [])) in
    let Ssend := rev_buf wS Spack q in
    apply_msg f r1 (flat_map snd (send_msgs (tS me))) Ssend
  else
    apply_msg f r1 (flat_map snd (send_msgs (tG me))) (nth q Gsend []).
End Reverse.
Arguments rev_buf {A}. Arguments pack_pos {A}. Arguments dup_combine {A}. Arguments tap_reverse {A} d f0 v0 {B} f.

(* symbolic transpose run of the node-aware package: slot j of rank p carries the token list [(p, j)];
   duplicates are combined by concatenation, contributions appended in application order *)
Definition tap_reverse_sym (tw : tap_world) (buflens : list nat) (n : nat) (q : nat) : list (list (nat * nat)) :=
  tap_reverse (@nil (nat * nat)) (@app (nat * nat)) [] (@app (nat * nat)) tw
              (map (map (fun t => [t])) (sym_ys buflens)) (repeat [] n) q.
Definition tap_rev_ok (tw : tap_world) (ids colmaps : list (list nat)) : bool :=
  forallb (fun q =>
    let r := tap_reverse_sym tw (map (@length nat) colmaps) (length (nth q ids [])) q in
    (length r =? length (nth q ids [])) &&
    forallb (fun iw => same_pairs (snd iw) (expected_wires colmaps (nth (fst iw) (nth q ids []) 0)))
            (combine (seq 0 (length r)) r)) (seq 0 (length (t_ranks tw))).
