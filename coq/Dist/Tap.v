(* Node-aware (topology-aware) communication package, core/comm_pkg.hpp TAPComm + core/tap_comm.cpp:
   four standard packages per rank, composed.  Local (on-node) packages are dumped with global rank ids. *)
From Coq Require Import List Arith Lia Bool.
Import ListNotations.
From Raptor Require Import Dist.Comm.

Record tap_rank := mkTap {
  tL : pkg; tL_pos : list nat;     (* local_L_par_comm and the final buffer positions of its receive slots *)
  tS : pkg;                        (* local_S_par_comm (3-step only) *)
  tG : pkg;                        (* global_par_comm *)
  tR : pkg; tR_pos : list nat;     (* local_R_par_comm and the final buffer positions of its receive slots *)
  t_size : nat                     (* recv_size = number of off-process columns *)
}.
Record tap_world := mkTapW { three_step : bool; t_ranks : list tap_rank }.

Section Payload.
Variable A : Type.
Variable d : A.

Fixpoint upd_at (l : list A) (i : nat) (v : A) : list A :=
  match l, i with
  | [], _ => []
  | _ :: l', O => v :: l'
  | x :: l', S i' => x :: upd_at l' i' v
  end.
(* recvbuf[pos[i]] = buf[i] *)
Definition scatter (buf0 : list A) (pos : list nat) (vals : list A) : list A :=
  fold_left (fun b pv => upd_at b (fst pv) (snd pv)) (combine pos vals) buf0.

Definition all_ranks {X} (tw : tap_world) (f : nat -> X) : list X := map f (seq 0 (length (t_ranks tw))).

(* TAPComm::initialize + complete *)
Definition tap_forward (tw : tap_world) (xs : list (list A)) (p : nat) : list A :=
  let rk := t_ranks tw in
  let wL := map tL rk in let wS := map tS rk in let wG := map tG rk in let wR := map tR rk in
  let me := nth p rk (mkTap nopkg [] nopkg nopkg nopkg [] 0) in
  let bL := forward d wL xs p in
  let src := if three_step tw then all_ranks tw (fun q => forward d wS xs q) else xs in
  let bG := all_ranks tw (fun q => forward d wG src q) in
  let bR := forward d wR bG p in
  scatter (scatter (repeat d (t_size me)) (tR_pos me) bR) (tL_pos me) bL.
End Payload.

Arguments upd_at {A}. Arguments scatter {A}. Arguments tap_forward {A}.

(* the check: exchanging the global ids through the four packages reproduces every column map *)
Definition tap_fwd_ok (tw : tap_world) (ids colmaps : list (list nat)) (big : nat) : bool :=
  forallb (fun p => nat_list_eqb (tap_forward big tw ids p) (nth p colmaps [])) (seq 0 (length (t_ranks tw))).
