(* Distributed matrices (core/par_matrix.{hpp,cpp}) and products (util/linalg/par_spmv.cpp) as pure
   functions over the list of rank states.  Assembly = ParCOOMatrix::add_global_value + finalize +
   to_ParCSR; exchange = Dist/Comm.v. *)
From Coq Require Import List Arith Lia Bool.
Import ListNotations.
From Raptor Require Import Base.Sums Sparse.Defs Dist.Comm.

Section ParMat.
Variable F : Type.
Variables (zero one : F) (add mul sub : F -> F -> F) (opp : F -> F).
Variable small : F -> bool.

Record rank_state := mkRS {
  rs_fr : nat; rs_nr : nat;          (* first local row, local rows *)
  rs_fc : nat; rs_nc : nat;          (* first local column, local columns *)
  rs_on : csr F;                     (* on_proc : nr x nc, local column ids *)
  rs_off : csr F;                    (* off_proc : nr x |colmap|, compressed column ids *)
  rs_colmap : list nat               (* off_proc_column_map : sorted global ids *)
}.

(* sorted duplicate-free list of the keys occurring in l (condense_off_proc) *)
Fixpoint insert_uniq (x : nat) (l : list nat) : list nat :=
  match l with
  | [] => [x]
  | y :: l' => if x <? y then x :: l else if x =? y then l else y :: insert_uniq x l'
  end.
Definition sort_uniq (l : list nat) : list nat := fold_right insert_uniq [] l.
Fixpoint index_of (x : nat) (l : list nat) : nat :=
  match l with [] => 0 | y :: l' => if x =? y then 0 else S (index_of x l') end.

(* ParCOOMatrix assembly of the rows [fr, fr+nr) from a global triple list, then finalize(), then to_ParCSR().
   add_value drops |v| <= zero_tol at insertion (modelled with `small`); finalize sorts and merges duplicates
   (COO remove_duplicates: no drop); the column map is the sorted set of off-process columns that remain. *)
Definition assemble (trip : list (ent F)) (fr nr fc nc : nat) : rank_state :=
  let mine := filter (fun e => (fr <=? erow e) && (erow e <? fr + nr) && negb (small (eval e))) trip in
  let ison := fun e : ent F => (fc <=? ecol e) && (ecol e <? fc + nc) in
  let on_t := map (fun e => (erow e - fr, ecol e - fc, eval e)) (filter ison mine) in
  let off_t := map (fun e => (erow e - fr, ecol e, eval e)) (filter (fun e => negb (ison e)) mine) in
  let on_c := coo_remove_duplicates F add (mkCoo nr nc on_t) in
  let off_c := coo_remove_duplicates F add (mkCoo nr 0 off_t) in
  let cm := sort_uniq (map ecol (coo_ents off_c)) in
  let off_r := mkCoo nr (length cm) (map (fun e => (erow e, index_of (ecol e) cm, eval e)) (coo_ents off_c)) in
  mkRS fr nr fc nc (coo_to_csr on_c) (coo_to_csr off_r) cm.

Definition assemble_all (trip : list (ent F)) (frows fcols : list nat) : list rank_state :=
  map (fun p => assemble trip (nth p frows 0) (nth (S p) frows 0 - nth p frows 0)
                         (nth p fcols 0) (nth (S p) fcols 0 - nth p fcols 0))
      (seq 0 (length frows - 1)).

(* ParMatrix::mult for one rank, given its local x and the received halo buffer *)
Definition par_mult_local (rs : rank_state) (x buf : list F) : list F :=
  let b := if rs_nr rs =? 0 then [] else csr_spmv F zero add mul (rs_on rs) x in
  if length (rs_colmap rs) =? 0 then b else csr_spmv_append F zero add mul (rs_off rs) buf b.
Definition par_mult_append_local (rs : rank_state) (x buf b0 : list F) : list F :=
  let b := if rs_nr rs =? 0 then b0 else csr_spmv_append F zero add mul (rs_on rs) x b0 in
  if length (rs_colmap rs) =? 0 then b else csr_spmv_append F zero add mul (rs_off rs) buf b.
Definition par_residual_local (rs : rank_state) (x buf b0 : list F) : list F :=
  let r := if (rs_nr rs =? 0) || (rs_nc rs =? 0) then b0 else csr_residual F zero mul sub (rs_on rs) x b0 in
  if length (rs_colmap rs) =? 0 then r else csr_spmv_append_neg F zero mul sub (rs_off rs) buf r.

(* mult_T: the halo contribution off_proc^T x (one value per column-map slot) and the local part;
   b_prev is the previous content of b.local: on a rank without rows it is overwritten with zeros
   (set_const_value(0.0)), otherwise on_proc->mult_T zeroes the n_cols outputs itself *)
Definition par_mult_T_halo (rs : rank_state) (x : list F) : list F := csr_mult_T F zero add mul (rs_off rs) x.
Definition par_mult_T_local (rs : rank_state) (x b_prev : list F) : list F :=
  if rs_nr rs =? 0 then map (fun _ => zero) b_prev else csr_mult_T F zero add mul (rs_on rs) x.

(* the represented global operator, row li of rank rs *)
Definition gden_row (rs : rank_state) (li : nat) (j : nat) : F :=
  add (if (rs_fc rs <=? j) && (j <? rs_fc rs + rs_nc rs) then den_csr F zero add (rs_on rs) li (j - rs_fc rs) else zero)
      (sumf F zero add (map (fun kc => if snd kc =? j then den_csr F zero add (rs_off rs) li (fst kc) else zero)
                            (indexed (rs_colmap rs)))).

Definition rs_wf (N : nat) (rs : rank_state) : Prop :=
  csr_wf (rs_on rs) /\ csr_nr (rs_on rs) = rs_nr rs /\ csr_nc (rs_on rs) = rs_nc rs /\
  csr_wf (rs_off rs) /\ csr_nr (rs_off rs) = rs_nr rs /\ csr_nc (rs_off rs) = length (rs_colmap rs) /\
  rs_fc rs + rs_nc rs <= N /\ (forall c, In c (rs_colmap rs) -> c < N).

End ParMat.

Arguments rs_fr {F}. Arguments rs_nr {F}. Arguments rs_fc {F}. Arguments rs_nc {F}.
Arguments rs_on {F}. Arguments rs_off {F}. Arguments rs_colmap {F}. Arguments mkRS {F}.

(* whole-world products with the exchange of Dist/Comm.v.
   xs = per-rank local vectors; the package world is built from the column maps. *)
Section World.
Variable F : Type.
Variables (zero one : F) (add mul sub : F -> F -> F) (opp : F -> F).

Definition par_mult (w : world) (st : list (rank_state F)) (xs : list (list F)) : list (list F) :=
  map (fun p => par_mult_local F zero add mul (nth p st (mkRS 0 0 0 0 (mkCsr 0 0 []) (mkCsr 0 0 []) []))
                               (nth p xs []) (forward zero w xs p))
      (seq 0 (length st)).
Definition par_mult_append (w : world) (st : list (rank_state F)) (xs bs : list (list F)) : list (list F) :=
  map (fun p => par_mult_append_local F zero add mul (nth p st (mkRS 0 0 0 0 (mkCsr 0 0 []) (mkCsr 0 0 []) []))
                               (nth p xs []) (forward zero w xs p) (nth p bs []))
      (seq 0 (length st)).
Definition par_residual (w : world) (st : list (rank_state F)) (xs bs : list (list F)) : list (list F) :=
  map (fun p => par_residual_local F zero mul sub (nth p st (mkRS 0 0 0 0 (mkCsr 0 0 []) (mkCsr 0 0 []) []))
                               (nth p xs []) (forward zero w xs p) (nth p bs []))
      (seq 0 (length st)).
(* A^T x : local part, then the reverse exchange adds every rank's halo contribution into the owners *)
Definition par_mult_T (w : world) (st : list (rank_state F)) (xs bprev : list (list F)) : list (list F) :=
  let dflt := mkRS 0 0 0 0 (mkCsr 0 0 []) (mkCsr 0 0 []) [] in
  let halos := map (fun p => par_mult_T_halo F zero add mul (nth p st dflt) (nth p xs [])) (seq 0 (length st)) in
  map (fun q => reverse add w halos (par_mult_T_local F zero add mul (nth q st dflt) (nth q xs []) (nth q bprev [])) q)
      (seq 0 (length st)).
End World.
