(* C05 - proofs about the network machine of Dist/Net.v: phase separation, deadlock freedom, termination. *)
From Coq Require Import List Arith Bool Lia Permutation.
From Raptor Require Import Dist.Net.
Import ListNotations.

(* ================= generic list / counting lemmas ================= *)

Lemma length_upd {A} (l : list A) k x : length (upd l k x) = length l.
Proof. revert k; induction l as [|y l IH]; intros [|k]; simpl; auto. Qed.

Lemma nth_error_upd {A} (l : list A) k x y q :
  nth_error l k = Some y ->
  nth_error (upd l k x) q = if q =? k then Some x else nth_error l q.
Proof.
  revert k q; induction l as [|z l IH]; intros [|k] [|q] H; simpl in *; try discriminate; auto.
Qed.

Lemma nth_error_upd_same {A} (l : list A) k x y :
  nth_error l k = Some y -> nth_error (upd l k x) k = Some x.
Proof. intros H. rewrite (nth_error_upd _ _ _ _ _ H), Nat.eqb_refl. reflexivity. Qed.

Lemma nth_error_upd_other {A} (l : list A) k x y q :
  nth_error l k = Some y -> q <> k -> nth_error (upd l k x) q = nth_error l q.
Proof.
  intros H N. rewrite (nth_error_upd _ _ _ _ _ H).
  destruct (q =? k) eqn:E; [apply Nat.eqb_eq in E; contradiction | reflexivity].
Qed.

Lemma In_remove_nth {A} k (l : list A) x : In x (remove_nth k l) -> In x l.
Proof.
  revert k; induction l as [|y l IH]; intros [|k] H; simpl in *; auto.
  destruct H as [H|H]; auto. right; eapply IH; eauto.
Qed.

Lemma countb_nil {A} (p : A -> bool) : countb p [] = 0.
Proof. reflexivity. Qed.

Lemma countb_cons {A} (p : A -> bool) x l :
  countb p (x :: l) = (if p x then 1 else 0) + countb p l.
Proof. unfold countb; simpl. destruct (p x); reflexivity. Qed.

Lemma countb_app {A} (p : A -> bool) l1 l2 : countb p (l1 ++ l2) = countb p l1 + countb p l2.
Proof. unfold countb. rewrite filter_app, app_length. reflexivity. Qed.

Lemma countb_remove_nth {A} (p : A -> bool) k l m :
  nth_error l k = Some m ->
  countb p l = countb p (remove_nth k l) + (if p m then 1 else 0).
Proof.
  revert k; induction l as [|y l IH]; intros [|k] H; simpl in *; try discriminate.
  - inversion H; subst. rewrite countb_cons. lia.
  - rewrite !countb_cons, (IH _ H). lia.
Qed.

Lemma countb_ext_in {A} (p q : A -> bool) l :
  (forall x, In x l -> p x = q x) -> countb p l = countb q l.
Proof.
  induction l as [|y l IH]; intros H; [reflexivity|].
  rewrite !countb_cons, IH, (H y) by (intros; try apply H; simpl; auto). reflexivity.
Qed.

Lemma countb_le {A} (p q : A -> bool) l :
  (forall x, In x l -> p x = true -> q x = true) -> countb p l <= countb q l.
Proof.
  induction l as [|y l IH]; intros H; [apply Nat.le_refl|].
  rewrite !countb_cons.
  assert (IH' : countb p l <= countb q l) by (apply IH; intros; apply H; simpl; auto).
  destruct (p y) eqn:E; [rewrite (H y (or_introl eq_refl) E)|destruct (q y)]; lia.
Qed.

Lemma countb_zero {A} (p : A -> bool) l :
  (forall x, In x l -> p x = false) -> countb p l = 0.
Proof.
  induction l as [|y l IH]; intros H; [reflexivity|].
  rewrite countb_cons, IH, (H y) by (intros; try apply H; simpl; auto). reflexivity.
Qed.

Lemma countb_pos_in {A} (p : A -> bool) l x : In x l -> p x = true -> 1 <= countb p l.
Proof.
  induction l as [|y l IH]; intros HI Hp; [destruct HI|].
  rewrite countb_cons. destruct HI as [->|HI]; [rewrite Hp; lia|].
  specialize (IH HI Hp). lia.
Qed.

Lemma countb_pos_ex {A} (p : A -> bool) l :
  0 < countb p l -> exists k m, nth_error l k = Some m /\ p m = true.
Proof.
  induction l as [|y l IH]; intros H; [inversion H|].
  rewrite countb_cons in H. destruct (p y) eqn:E.
  - exists 0, y; split; [reflexivity|exact E].
  - destruct (IH H) as (k & m & Hk & Hm). exists (S k), m; split; assumption.
Qed.

(* sums *)
Lemma sumn_ext n g h : (forall s, s < n -> g s = h s) -> sumn n g = sumn n h.
Proof.
  induction n as [|n IH]; intros H; simpl; [reflexivity|].
  rewrite IH, (H n) by (intros; try apply H; lia). reflexivity.
Qed.

Lemma sumn_le n g h : (forall s, s < n -> g s <= h s) -> sumn n g <= sumn n h.
Proof.
  induction n as [|n IH]; intros H; simpl; [lia|].
  assert (sumn n g <= sumn n h) by (apply IH; intros; apply H; lia).
  specialize (H n). lia.
Qed.

Lemma sumn_zero n g : (forall s, s < n -> g s = 0) -> sumn n g = 0.
Proof.
  induction n as [|n IH]; intros H; simpl; [reflexivity|].
  rewrite IH, (H n) by (intros; try apply H; lia). reflexivity.
Qed.

Lemma sumn_le_eq n g h :
  (forall s, s < n -> g s <= h s) -> sumn n g = sumn n h -> forall s, s < n -> g s = h s.
Proof.
  induction n as [|n IH]; intros Hle Heq s Hs; [lia|].
  simpl in Heq.
  assert (H1 : sumn n g <= sumn n h) by (apply sumn_le; intros; apply Hle; lia).
  assert (H2 : g n <= h n) by (apply Hle; lia).
  destruct (Nat.eq_dec s n) as [->|N]; [lia|].
  apply IH; [intros; apply Hle; lia | lia | lia].
Qed.

(* changing one term *)
Lemma sumn_change_one n g h s0 :
  (forall s, s <> s0 -> g s = h s) -> s0 < n -> sumn n h + g s0 = sumn n g + h s0.
Proof.
  induction n as [|n IH]; intros H Hs; [lia|]. simpl.
  destruct (Nat.eq_dec s0 n) as [->|N].
  - rewrite (sumn_ext n g h) by (intros; apply H; lia). lia.
  - rewrite <- (H n) by auto. specialize (IH H). lia.
Qed.

Lemma sumn_single n s0 (c : nat -> nat) :
  sumn n (fun s => if s =? s0 then c s else 0) = if s0 <? n then c s0 else 0.
Proof.
  induction n as [|n IH]; simpl; [reflexivity|]. rewrite IH.
  destruct (Nat.eqb_spec n s0) as [E1|E1];
    destruct (Nat.ltb_spec s0 n) as [E2|E2]; destruct (Nat.ltb_spec s0 (S n)) as [E3|E3];
    subst; lia.
Qed.

Lemma cnt_nil r : cnt r [] = 0.
Proof. reflexivity. Qed.

Lemma cnt_In r l : In r l <-> 0 < cnt r l.
Proof. unfold cnt. apply count_occ_In. Qed.

(* multiset equality test *)
Lemma remove_one_In x l : In x l -> exists l', remove_one x l = Some l' /\ Permutation l (x :: l').
Proof.
  induction l as [|y l IH]; intros H; [destruct H|]. simpl.
  destruct (Nat.eqb_spec x y) as [E|E].
  - subst. exists l. split; [reflexivity|apply Permutation_refl].
  - destruct H as [H|H]; [congruence|]. destruct (IH H) as (l' & Hr & Hp).
    rewrite Hr. exists (y :: l'). split; [reflexivity|].
    eapply perm_trans; [apply perm_skip; exact Hp|apply perm_swap].
Qed.

Lemma perm_b_complete l1 : forall l2, Permutation l1 l2 -> perm_b l1 l2 = true.
Proof.
  induction l1 as [|x l1 IH]; intros l2 H.
  - apply Permutation_nil in H. subst. reflexivity.
  - simpl. assert (Hin : In x l2) by (eapply Permutation_in; [exact H|left; reflexivity]).
    destruct (remove_one_In x l2 Hin) as (l2' & Hr & Hp). rewrite Hr.
    apply IH. eapply Permutation_cons_inv. eapply perm_trans; [exact H|exact Hp].
Qed.

Lemma remove_one_Some x l l' : remove_one x l = Some l' -> Permutation l (x :: l').
Proof.
  revert l'. induction l as [|y l IH]; intros l' H; simpl in H; [discriminate|].
  destruct (Nat.eqb_spec x y) as [E|E].
  - inversion H; subst. apply Permutation_refl.
  - destruct (remove_one x l) as [l''|]; [|discriminate]. inversion H; subst.
    eapply perm_trans; [apply perm_skip; apply IH; reflexivity|apply perm_swap].
Qed.

Lemma perm_b_sound l1 : forall l2, perm_b l1 l2 = true -> Permutation l1 l2.
Proof.
  induction l1 as [|x l1 IH]; intros l2 H; simpl in H.
  - destruct l2; [constructor|discriminate].
  - destruct (remove_one x l2) as [l2'|] eqn:E; [|discriminate].
    apply Permutation_sym. eapply perm_trans; [apply remove_one_Some; exact E|].
    apply perm_skip. apply Permutation_sym. apply IH. exact H.
Qed.

(* ================= the static discipline ================= *)

Lemma phases_ok_aux_spec prog : forall seen, phases_ok_aux seen prog = true ->
  (forall j t d, nth_error prog j = Some (Phase t d) -> In t seen ->
     exists k, k < j /\ nth_error prog k = Some Barrier) /\
  (forall i j t d d', i < j ->
     nth_error prog i = Some (Phase t d) -> nth_error prog j = Some (Phase t d') ->
     exists k, i < k /\ k < j /\ nth_error prog k = Some Barrier).
Proof.
  induction prog as [|it p IH]; intros seen H.
  - split; intros; destruct j; discriminate.
  - destruct it as [|t0 d0]; simpl in H.
    + destruct (IH _ H) as [IH1 IH2]. split.
      * intros [|j] t d Hj Hin; simpl in Hj; [discriminate|].
        exists 0; split; [lia|reflexivity].
      * intros [|i] [|j] t d d' Hij Hi Hj; simpl in Hi, Hj; try discriminate; try lia.
        destruct (IH2 i j t d d') as (k & K1 & K2 & K3); [lia|assumption|assumption|].
        exists (S k); repeat split; try lia; exact K3.
    + apply andb_true_iff in H. destruct H as [Hn H].
      destruct (IH _ H) as [IH1 IH2]. split.
      * intros [|j] t d Hj Hin; simpl in Hj.
        { inversion Hj; subst. exfalso.
          apply negb_true_iff in Hn.
          assert (E : existsb (Nat.eqb t) seen = true).
          { apply existsb_exists. exists t; split; [exact Hin|apply Nat.eqb_refl]. }
          congruence. }
        destruct (IH1 j t d Hj) as (k & K1 & K2); [right; exact Hin|].
        exists (S k); split; [lia|exact K2].
      * intros [|i] [|j] t d d' Hij Hi Hj; simpl in Hi, Hj; try lia.
        { inversion Hi; subst.
          destruct (IH1 j t d' Hj) as (k & K1 & K2); [left; reflexivity|].
          exists (S k); repeat split; try lia; exact K2. }
        destruct (IH2 i j t d d') as (k & K1 & K2 & K3); [lia|assumption|assumption|].
        exists (S k); repeat split; try lia; exact K3.
Qed.

Lemma phases_ok_sep prog : phases_ok prog = true -> phases_sep prog.
Proof. intros H. exact (proj2 (phases_ok_aux_spec prog [] H)). Qed.

(* ================= the step relation, by cases ================= *)

Definition rank_at (st : state) (r : nat) (rs : rstate) : Prop := nth_error (ranks st) r = Some rs.

Inductive step_spec (P : nat) (prog : program) (st : state) : state -> Prop :=
| SS_send r rs t d ds :
    rank_at st r rs -> nth_error prog (pc rs) = Some (Phase t d) -> sent rs = false ->
    Permutation ds (d r) ->
    step_spec P prog st
      (mkS (upd (ranks st) r (mkR (pc rs) true (nrecv rs) (rlog rs) (rev (send_events t ds) ++ revs rs)))
           (net st ++ send_msgs r t (pc rs) ds))
| SS_recv r k rs t d m :
    rank_at st r rs -> nth_error prog (pc rs) = Some (Phase t d) -> sent rs = true ->
    nrecv rs < expected P d r -> nth_error (net st) k = Some m -> m_dst m = r -> m_tag m = t ->
    step_spec P prog st
      (mkS (upd (ranks st) r (mkR (pc rs) true (S (nrecv rs)) ((pc rs, m) :: rlog rs)
                                  (EvRecvAny (m_src m) t :: revs rs)))
           (remove_nth k (net st)))
| SS_adv r rs t d :
    rank_at st r rs -> nth_error prog (pc rs) = Some (Phase t d) -> sent rs = true ->
    nrecv rs = expected P d r ->
    step_spec P prog st (mkS (upd (ranks st) r (mkR (S (pc rs)) false 0 (rlog rs) (revs rs))) (net st))
| SS_bar r rs :
    rank_at st r rs -> nth_error prog (pc rs) = Some Barrier ->
    (forall q rq, rank_at st q rq -> pc rs <= pc rq) ->
    step_spec P prog st
      (mkS (upd (ranks st) r (mkR (S (pc rs)) false 0 (rlog rs) (EvBarrier :: revs rs))) (net st)).

Lemma forallb_nth {A} (p : A -> bool) l :
  forallb p l = true <-> (forall k x, nth_error l k = Some x -> p x = true).
Proof.
  rewrite forallb_forall. split.
  - intros H k x Hk. apply H. eapply nth_error_In; eauto.
  - intros H x Hx. destruct (In_nth_error _ _ Hx) as [k Hk]. eauto.
Qed.

Lemma step_to_spec P prog st st' : step P prog st st' -> step_spec P prog st st'.
Proof.
  intros [a H]. destruct a as [r ds|r k|r|r]; simpl in H;
    destruct (nth_error (ranks st) r) as [rs|] eqn:Hr; try discriminate;
    destruct (nth_error prog (pc rs)) as [[|t d]|] eqn:Hi; try discriminate.
  - destruct (sent rs) eqn:Hs; [discriminate|]. simpl in H.
    destruct (perm_b ds (d r)) eqn:Hp; [|discriminate]. simpl in H.
    inversion H; subst. apply (SS_send P prog st r rs t d ds); try assumption. apply perm_b_sound; exact Hp.
  - destruct (sent rs) eqn:Hs; simpl in H; [|discriminate].
    destruct (Nat.ltb_spec (nrecv rs) (expected P d r)) as [Hn|Hn]; [|discriminate].
    destruct (nth_error (net st) k) as [m|] eqn:Hk; [|discriminate].
    destruct (Nat.eqb_spec (m_dst m) r) as [Hd|Hd]; simpl in H; [|discriminate].
    destruct (Nat.eqb_spec (m_tag m) t) as [Ht|Ht]; [|discriminate].
    inversion H; subst. eapply SS_recv; eauto.
  - destruct (sent rs) eqn:Hs; simpl in H; [|discriminate].
    destruct (Nat.eqb_spec (nrecv rs) (expected P d r)) as [Hn|Hn]; [|discriminate].
    inversion H; subst. eapply SS_adv; eauto.
  - destruct (forallb (fun q => pc rs <=? pc q) (ranks st)) eqn:Hf; [|discriminate].
    inversion H; subst. apply SS_bar; try assumption.
    intros q rq Hq. rewrite forallb_nth in Hf. apply Nat.leb_le. eapply Hf; exact Hq.
Qed.

Lemma spec_to_step P prog st st' : step_spec P prog st st' -> step P prog st st'.
Proof.
  intros H. destruct H as [r rs t d ds Hr Hi Hs Hp | r k rs t d m Hr Hi Hs Hn Hk Hd Ht | r rs t d Hr Hi Hs Hn | r rs Hr Hi Hall];
    unfold rank_at in Hr.
  - exists (ASend r ds). simpl. rewrite Hr, Hi, Hs, (perm_b_complete _ _ Hp). reflexivity.
  - exists (ARecv r k). simpl. rewrite Hr, Hi, Hs, Hk. simpl.
    apply Nat.ltb_lt in Hn. rewrite Hn. rewrite Hd, Ht, !Nat.eqb_refl. simpl. subst. reflexivity.
  - exists (AAdv r). simpl. rewrite Hr, Hi, Hs. simpl. apply Nat.eqb_eq in Hn. rewrite Hn. reflexivity.
  - exists (ABar r). simpl. rewrite Hr, Hi.
    assert (Hf : forallb (fun q => pc rs <=? pc q) (ranks st) = true).
    { apply forallb_nth. intros q rq Hq. apply Nat.leb_le. eapply Hall; exact Hq. }
    rewrite Hf. reflexivity.
Qed.

(* ================= the invariant ================= *)

(* rank state rs has posted the sends of item j *)
Definition doneb (rs : rstate) (j : nat) : bool := (j <? pc rs) || ((pc rs =? j) && sent rs).

Definition done_at (st : state) (s j : nat) : bool :=
  match nth_error (ranks st) s with Some rs => doneb rs j | None => false end.

Definition dests_at (prog : program) (j : nat) : nat -> list nat :=
  match nth_error prog j with Some (Phase _ d) => d | _ => fun _ => [] end.

(* messages in flight to r sent by item j (from sources selected by f) *)
Definition inflight (st : state) (f : nat -> bool) (r j : nat) : nat :=
  countb (fun m => f (m_src m) && (m_dst m =? r) && (m_item m =? j)) (net st).

(* messages sent by item j (from sources selected by f) that the rank has received *)
Definition logged (rs : rstate) (f : nat -> bool) (j : nat) : nat :=
  countb (fun e : nat * msg => f (m_src (snd e)) && (m_item (snd e) =? j)) (rlog rs).

Definition sterm (prog : program) (f : nat -> bool) (r j s : nat) (dn : bool) : nat :=
  if f s && dn then cnt r (dests_at prog j s) else 0.

(* messages to r already posted by item j *)
Definition sentcount (P : nat) (prog : program) (st : state) (f : nat -> bool) (r j : nat) : nat :=
  sumn P (fun s => sterm prog f r j s (done_at st s j)).

Definition ftrue : nat -> bool := fun _ => true.
Arguments ftrue _ : simpl never.

Record Inv (P : nat) (prog : program) (st : state) : Prop := {
  inv_len : length (ranks st) = P;
  inv_pc : forall r rs, rank_at st r rs -> pc rs <= length prog;
  (* nobody has left barrier k unless everybody has reached it *)
  inv_bar : forall q r rq rr k, rank_at st q rq -> rank_at st r rr ->
      nth_error prog k = Some Barrier -> k < pc rq -> k <= pc rr;
  inv_msg : forall m, In m (net st) ->
      exists rs d, rank_at st (m_src m) rs /\ nth_error prog (m_item m) = Some (Phase (m_tag m) d) /\
                   m_item m <= pc rs /\ In (m_dst m) (d (m_src m));
  (* conservation of messages, per destination, sending item and set of sources *)
  inv_cons : forall f r rs j, rank_at st r rs ->
      inflight st f r j + logged rs f j = sentcount P prog st f r j;
  inv_log : forall r rs j m, rank_at st r rs -> In (j, m) (rlog rs) ->
      m_item m = j /\ m_dst m = r /\ j <= pc rs /\ exists d, nth_error prog j = Some (Phase (m_tag m) d);
  inv_past : forall r rs j, rank_at st r rs -> j < pc rs ->
      logged rs ftrue j = expected P (dests_at prog j) r;
  inv_cur : forall r rs, rank_at st r rs ->
      logged rs ftrue (pc rs) = nrecv rs /\ nrecv rs <= expected P (dests_at prog (pc rs)) r
}.

Lemma rank_at_lt P prog st r rs : Inv P prog st -> rank_at st r rs -> r < P.
Proof.
  intros I H. rewrite <- (inv_len _ _ _ I). apply nth_error_Some. unfold rank_at in H. congruence.
Qed.

Lemma sentcount_le P prog st f r j : sentcount P prog st f r j <= expected P (dests_at prog j) r.
Proof.
  unfold sentcount, expected. apply sumn_le. intros s _. unfold sterm.
  destruct (f s && done_at st s j); lia.
Qed.

Lemma dests_at_phase prog j t d : nth_error prog j = Some (Phase t d) -> dests_at prog j = d.
Proof. unfold dests_at. intros ->. reflexivity. Qed.

Lemma dests_at_barrier prog j : nth_error prog j = Some Barrier -> dests_at prog j = fun _ => [].
Proof. unfold dests_at. intros ->. reflexivity. Qed.

Lemma expected_nil P r : expected P (fun _ => []) r = 0.
Proof. unfold expected. apply sumn_zero. intros; apply cnt_nil. Qed.

(* ---- T1 core: what a waiting wildcard receive can match ---- *)
Lemma safety P prog st : phases_sep prog -> Inv P prog st ->
  forall r rs t d m, rank_at st r rs -> nth_error prog (pc rs) = Some (Phase t d) ->
    In m (net st) -> m_dst m = r -> m_tag m = t -> m_item m = pc rs.
Proof.
  intros Hsep I r rs t d m Hr Hi Hm Hd Ht.
  destruct (inv_msg _ _ _ I m Hm) as (rsrc & d' & Hsrc & Hit & Hle & Hin).
  destruct (lt_eq_lt_dec (m_item m) (pc rs)) as [[Hlt|Heq]|Hgt]; [exfalso | exact Heq | exfalso].
  - (* an older phase: all its messages to r were consumed, because r counted exactly *)
    pose proof (inv_past _ _ _ I r rs (m_item m) Hr Hlt) as Hp.
    pose proof (inv_cons _ _ _ I ftrue r rs (m_item m) Hr) as Hc.
    pose proof (sentcount_le P prog st ftrue r (m_item m)) as Hs.
    assert (Hf : 1 <= inflight st ftrue r (m_item m)).
    { unfold inflight. eapply countb_pos_in; [exact Hm|].
      unfold ftrue. rewrite Hd, !Nat.eqb_refl. reflexivity. }
    lia.
  - (* a later phase: its sender has left a barrier that r has not reached *)
    rewrite Ht in Hit.
    destruct (Hsep (pc rs) (m_item m) t d d' Hgt Hi Hit) as (k & K1 & K2 & K3).
    pose proof (inv_bar _ _ _ I (m_src m) r rsrc rs k Hsrc Hr K3) as Hb. lia.
Qed.

(* ---- effect of updating one rank ---- *)
Lemma rank_at_upd st r0 rs0 rs' net' q rq :
  rank_at st r0 rs0 -> rank_at (mkS (upd (ranks st) r0 rs') net') q rq ->
  (q = r0 /\ rq = rs') \/ (q <> r0 /\ rank_at st q rq).
Proof.
  unfold rank_at; simpl. intros H0 H. rewrite (nth_error_upd _ _ _ _ _ H0) in H.
  destruct (Nat.eqb_spec q r0) as [E|E]; [left|right]; split; auto. congruence.
Qed.

Lemma rank_at_upd_same st r0 rs0 rs' net' :
  rank_at st r0 rs0 -> rank_at (mkS (upd (ranks st) r0 rs') net') r0 rs'.
Proof. unfold rank_at; simpl. apply nth_error_upd_same. Qed.

Lemma done_at_upd st r0 rs0 rs' net' s j :
  rank_at st r0 rs0 ->
  done_at (mkS (upd (ranks st) r0 rs') net') s j = if s =? r0 then doneb rs' j else done_at st s j.
Proof.
  unfold rank_at, done_at; simpl. intros H0. rewrite (nth_error_upd _ _ _ _ _ H0).
  destruct (s =? r0); reflexivity.
Qed.

Lemma sentcount_upd P prog st r0 rs0 rs' net' f r j :
  rank_at st r0 rs0 -> r0 < P ->
  sentcount P prog (mkS (upd (ranks st) r0 rs') net') f r j + sterm prog f r j r0 (doneb rs0 j)
  = sentcount P prog st f r j + sterm prog f r j r0 (doneb rs' j).
Proof.
  intros H0 Hlt. unfold sentcount.
  pose proof (sumn_change_one P
     (fun s => sterm prog f r j s (done_at st s j))
     (fun s => sterm prog f r j s (done_at (mkS (upd (ranks st) r0 rs') net') s j)) r0) as H.
  cbv beta in H.
  rewrite (done_at_upd _ _ _ _ _ _ _ H0), Nat.eqb_refl in H.
  assert (E : done_at st r0 j = doneb rs0 j) by (unfold done_at; rewrite H0; reflexivity).
  rewrite E in H. apply H; [|exact Hlt].
  intros s Hs. rewrite (done_at_upd _ _ _ _ _ _ _ H0).
  destruct (Nat.eqb_spec s r0); [contradiction|reflexivity].
Qed.

Lemma sentcount_upd_same P prog st r0 rs0 rs' net' f r j :
  rank_at st r0 rs0 -> r0 < P ->
  sterm prog f r j r0 (doneb rs0 j) = sterm prog f r j r0 (doneb rs' j) ->
  sentcount P prog (mkS (upd (ranks st) r0 rs') net') f r j = sentcount P prog st f r j.
Proof.
  intros H0 Hlt E. pose proof (sentcount_upd P prog st r0 rs0 rs' net' f r j H0 Hlt). lia.
Qed.

Lemma countb_send_msgs (f : nat -> bool) r j r0 t j0 ds :
  countb (fun m => f (m_src m) && (m_dst m =? r) && (m_item m =? j)) (send_msgs r0 t j0 ds)
  = if f r0 && (j0 =? j) then cnt r ds else 0.
Proof.
  unfold send_msgs. induction ds as [|x ds IH]; simpl.
  - destruct (f r0 && (j0 =? j)); reflexivity.
  - rewrite countb_cons, IH; simpl. unfold cnt; simpl.
    destruct (f r0); simpl; [|reflexivity].
    destruct (j0 =? j); simpl.
    + destruct (Nat.eq_dec x r) as [E|E]; destruct (Nat.eqb_spec x r); try contradiction; simpl; lia.
    + rewrite andb_false_r. reflexivity.
Qed.

(* ---- the invariant holds initially ---- *)
Lemma rank_at_init P r rs : rank_at (init P) r rs -> rs = r_init.
Proof.
  unfold rank_at, init; simpl. intros H. apply nth_error_In in H.
  eapply repeat_spec; eauto.
Qed.

Lemma Inv_init P prog : Inv P prog (init P).
Proof.
  constructor.
  - simpl. apply repeat_length.
  - intros r rs H. rewrite (rank_at_init _ _ _ H). simpl. lia.
  - intros q r rq rr k Hq _ _ Hk. rewrite (rank_at_init _ _ _ Hq) in Hk. simpl in Hk. lia.
  - intros m [].
  - intros f r rs j H. rewrite (rank_at_init _ _ _ H).
    unfold inflight, logged, sentcount; simpl. rewrite !countb_nil. symmetry.
    apply sumn_zero. intros s _. unfold sterm.
    replace (done_at (init P) s j) with false; [rewrite andb_false_r; reflexivity|].
    unfold done_at. destruct (nth_error (ranks (init P)) s) as [rs'|] eqn:E; [|reflexivity].
    rewrite (rank_at_init P s rs' E). unfold doneb; simpl. rewrite andb_false_r. reflexivity.
  - intros r rs j m H. rewrite (rank_at_init _ _ _ H). intros [].
  - intros r rs j H. rewrite (rank_at_init _ _ _ H). simpl. lia.
  - intros r rs H. rewrite (rank_at_init _ _ _ H). simpl. split; [reflexivity|lia].
Qed.

(* ---- preservation: the four "shape" fields, for any update of one rank ---- *)
Lemma rank_at_upd_old st r0 rs0 rs' net' r rr :
  rank_at st r0 rs0 -> pc rs0 <= pc rs' ->
  rank_at (mkS (upd (ranks st) r0 rs') net') r rr ->
  exists rr0, rank_at st r rr0 /\ pc rr0 <= pc rr.
Proof.
  intros H0 Hle H. destruct (rank_at_upd _ _ _ _ _ _ _ H0 H) as [[-> ->]|[N Hr]].
  - exists rs0; split; assumption.
  - exists rr; split; [assumption|lia].
Qed.

Lemma basic_upd P prog st r0 rs0 rs' net' :
  Inv P prog st -> rank_at st r0 rs0 -> pc rs0 <= pc rs' -> pc rs' <= length prog ->
  (forall k, nth_error prog k = Some Barrier -> pc rs0 <= k -> k < pc rs' ->
     forall q rq, rank_at st q rq -> k <= pc rq) ->
  (forall m, In m net' -> In m (net st) \/
     (m_src m = r0 /\ exists d, nth_error prog (m_item m) = Some (Phase (m_tag m) d) /\
                                m_item m <= pc rs' /\ In (m_dst m) (d r0))) ->
  let st' := mkS (upd (ranks st) r0 rs') net' in
  length (ranks st') = P /\
  (forall r rs, rank_at st' r rs -> pc rs <= length prog) /\
  (forall q r rq rr k, rank_at st' q rq -> rank_at st' r rr ->
      nth_error prog k = Some Barrier -> k < pc rq -> k <= pc rr) /\
  (forall m, In m (net st') ->
      exists rs d, rank_at st' (m_src m) rs /\ nth_error prog (m_item m) = Some (Phase (m_tag m) d) /\
                   m_item m <= pc rs /\ In (m_dst m) (d (m_src m))).
Proof.
  intros I H0 Hle Hlen Hbar Hnet st'. repeat split.
  - simpl. rewrite length_upd. apply (inv_len _ _ _ I).
  - intros r rs H. destruct (rank_at_upd _ _ _ _ _ _ _ H0 H) as [[-> ->]|[N Hr]]; [exact Hlen|].
    eapply (inv_pc _ _ _ I); eauto.
  - intros q r rq rr k Hq Hr Hk Hlt.
    destruct (rank_at_upd_old _ _ _ _ _ _ _ H0 Hle Hr) as (rr0 & Hr0 & Hrr).
    enough (k <= pc rr0) by lia.
    destruct (rank_at_upd _ _ _ _ _ _ _ H0 Hq) as [[-> ->]|[N Hq0]].
    + destruct (Nat.lt_ge_cases k (pc rs0)) as [L|L].
      * eapply (inv_bar _ _ _ I r0 r rs0 rr0 k); eauto.
      * eapply Hbar; eauto.
    + eapply (inv_bar _ _ _ I q r rq rr0 k); eauto.
  - intros m Hm. simpl in Hm. destruct (Hnet m Hm) as [Hold|(Hs & d & Hi & Hp & Hd)].
    + destruct (inv_msg _ _ _ I m Hold) as (rs & d & Hr & Hi & Hp & Hd).
      destruct (Nat.eq_dec (m_src m) r0) as [E|E].
      * exists rs', d. rewrite E in *. split; [eapply rank_at_upd_same; eauto|].
        unfold rank_at in Hr, H0. assert (rs = rs0) by congruence. subst rs.
        repeat split; auto; lia.
      * exists rs, d. repeat split; auto.
        unfold rank_at, st'; simpl. rewrite (nth_error_upd_other _ _ _ _ _ H0 E). exact Hr.
    + exists rs', d. rewrite Hs. repeat split; auto. eapply rank_at_upd_same; eauto.
Qed.

(* ---- preservation: the three log fields ---- *)
Definition log_fields (P : nat) (prog : program) (st : state) : Prop :=
  (forall r rs j m, rank_at st r rs -> In (j, m) (rlog rs) ->
      m_item m = j /\ m_dst m = r /\ j <= pc rs /\ exists d, nth_error prog j = Some (Phase (m_tag m) d)) /\
  (forall r rs j, rank_at st r rs -> j < pc rs ->
      logged rs ftrue j = expected P (dests_at prog j) r) /\
  (forall r rs, rank_at st r rs ->
      logged rs ftrue (pc rs) = nrecv rs /\ nrecv rs <= expected P (dests_at prog (pc rs)) r).

Lemma logs_upd_same P prog st r0 rs0 rs' net' :
  Inv P prog st -> rank_at st r0 rs0 ->
  pc rs' = pc rs0 -> nrecv rs' = nrecv rs0 -> rlog rs' = rlog rs0 ->
  log_fields P prog (mkS (upd (ranks st) r0 rs') net').
Proof.
  intros I H0 Epc Enr Elog. split; [|split].
  - intros r rs j m H H1. destruct (rank_at_upd _ _ _ _ _ _ _ H0 H) as [[-> ->]|[N Hr]].
    + rewrite Elog in H1. rewrite Epc. apply (inv_log _ _ _ I r0 rs0 j m H0 H1).
    + apply (inv_log _ _ _ I r rs j m Hr H1).
  - intros r rs j H Hj. destruct (rank_at_upd _ _ _ _ _ _ _ H0 H) as [[-> ->]|[N Hr]].
    + unfold logged. rewrite Elog. rewrite Epc in Hj. apply (inv_past _ _ _ I r0 rs0 j H0 Hj).
    + apply (inv_past _ _ _ I r rs j Hr Hj).
  - intros r rs H. destruct (rank_at_upd _ _ _ _ _ _ _ H0 H) as [[-> ->]|[N Hr]].
    + unfold logged. rewrite Elog, Epc, Enr. apply (inv_cur _ _ _ I r0 rs0 H0).
    + apply (inv_cur _ _ _ I r rs Hr).
Qed.

Lemma logs_upd_next P prog st r0 rs0 rs' net' :
  Inv P prog st -> rank_at st r0 rs0 ->
  pc rs' = S (pc rs0) -> nrecv rs' = 0 -> rlog rs' = rlog rs0 ->
  nrecv rs0 = expected P (dests_at prog (pc rs0)) r0 ->
  log_fields P prog (mkS (upd (ranks st) r0 rs') net').
Proof.
  intros I H0 Epc Enr Elog Hfull. split; [|split].
  - intros r rs j m H H1. destruct (rank_at_upd _ _ _ _ _ _ _ H0 H) as [[-> ->]|[N Hr]].
    + rewrite Elog in H1. rewrite Epc.
      destruct (inv_log _ _ _ I r0 rs0 j m H0 H1) as (A & B & C & D). repeat split; auto.
    + apply (inv_log _ _ _ I r rs j m Hr H1).
  - intros r rs j H Hj. destruct (rank_at_upd _ _ _ _ _ _ _ H0 H) as [[-> ->]|[N Hr]].
    + unfold logged. rewrite Elog. rewrite Epc in Hj.
      destruct (Nat.eq_dec j (pc rs0)) as [->|Nj].
      * destruct (inv_cur _ _ _ I r0 rs0 H0) as [A _]. unfold logged in A. rewrite A. exact Hfull.
      * apply (inv_past _ _ _ I r0 rs0 j H0). lia.
    + apply (inv_past _ _ _ I r rs j Hr Hj).
  - intros r rs H. destruct (rank_at_upd _ _ _ _ _ _ _ H0 H) as [[-> ->]|[N Hr]].
    + rewrite Enr. split; [|lia]. unfold logged. rewrite Elog, Epc.
      apply countb_zero. intros [j m] Hin. simpl.
      destruct (inv_log _ _ _ I r0 rs0 j m H0 Hin) as (A & _ & C & _).
      destruct (Nat.eqb_spec (m_item m) (S (pc rs0))) as [E|E]; [lia|]. try rewrite andb_false_r; reflexivity.
    + apply (inv_cur _ _ _ I r rs Hr).
Qed.

(* ---- preservation ---- *)
Lemma Inv_step P prog st st' :
  phases_sep prog -> Inv P prog st -> step_spec P prog st st' -> Inv P prog st'.
Proof.
  intros Hsep I Hst.
  destruct Hst as [r0 rs0 t d ds H0 Hi Hs Hperm | r0 k rs0 t d m H0 Hi Hs Hn Hk Hd Ht
                  | r0 rs0 t d H0 Hi Hs Hn | r0 rs0 H0 Hi Hall].
  - (* send *)
    set (rs' := mkR (pc rs0) true (nrecv rs0) (rlog rs0) (rev (send_events t ds) ++ revs rs0)).
    pose proof (rank_at_lt _ _ _ _ _ I H0) as Hlt.
    destruct (basic_upd P prog st r0 rs0 rs' (net st ++ send_msgs r0 t (pc rs0) ds) I H0)
      as (B1 & B2 & B3 & B4).
    { simpl; lia. }
    { simpl. eapply (inv_pc _ _ _ I); eauto. }
    { simpl. intros; lia. }
    { intros m Hm. apply in_app_or in Hm. destruct Hm as [Hm|Hm]; [left; exact Hm|right].
      unfold send_msgs in Hm. apply in_map_iff in Hm. destruct Hm as (x & <- & Hx). simpl.
      split; [reflexivity|]. exists d. repeat split; auto. eapply Permutation_in; eauto. }
    destruct (logs_upd_same P prog st r0 rs0 rs' (net st ++ send_msgs r0 t (pc rs0) ds) I H0)
      as (L1 & L2 & L3); try reflexivity.
    constructor; try assumption.
    intros f r rs j Hr.
    assert (Hlog : exists rs1, rank_at st r rs1 /\ logged rs f j = logged rs1 f j).
    { destruct (rank_at_upd _ _ _ _ _ _ _ H0 Hr) as [[-> ->]|[N Hr1]];
        [exists rs0|exists rs]; split; auto. }
    destruct Hlog as (rs1 & Hr1 & ->).
    pose proof (inv_cons _ _ _ I f r rs1 j Hr1) as Hc.
    pose proof (sentcount_upd P prog st r0 rs0 rs' (net st ++ send_msgs r0 t (pc rs0) ds) f r j H0 Hlt)
      as Hsc.
    assert (Hcnt : cnt r ds = cnt r (d r0)).
    { unfold cnt. apply (Permutation_count_occ Nat.eq_dec). exact Hperm. }
    unfold inflight in *; simpl. rewrite countb_app, countb_send_msgs, Hcnt.
    unfold sterm, doneb in Hsc; simpl in Hsc. rewrite Hs in Hsc.
    rewrite andb_false_r, andb_true_r, orb_false_r in Hsc.
    destruct (f r0); simpl in *; [|lia].
    destruct (Nat.eqb_spec (pc rs0) j) as [E|E].
    + subst j. rewrite (dests_at_phase _ _ _ _ Hi) in Hsc.
      destruct (Nat.ltb_spec (pc rs0) (pc rs0)); [lia|]. simpl in Hsc. lia.
    + rewrite orb_false_r in Hsc. destruct (j <? pc rs0); lia.
  - (* receive *)
    pose proof (safety P prog st Hsep I r0 rs0 t d m H0 Hi (nth_error_In _ _ Hk) Hd Ht) as Hitem.
    set (rs' := mkR (pc rs0) true (S (nrecv rs0)) ((pc rs0, m) :: rlog rs0) (EvRecvAny (m_src m) t :: revs rs0)).
    pose proof (rank_at_lt _ _ _ _ _ I H0) as Hlt.
    destruct (basic_upd P prog st r0 rs0 rs' (remove_nth k (net st)) I H0)
      as (B1 & B2 & B3 & B4).
    { simpl; lia. }
    { simpl. eapply (inv_pc _ _ _ I); eauto. }
    { simpl. intros; lia. }
    { intros m' Hm. left. eapply In_remove_nth; eauto. }
    constructor; try assumption.
    + (* conservation *)
      intros f r rs j Hr.
      rewrite (sentcount_upd_same P prog st r0 rs0 rs' _ f r j H0 Hlt)
        by (unfold doneb; simpl; rewrite Hs; reflexivity).
      unfold inflight; simpl.
      pose proof (countb_remove_nth (fun m0 => f (m_src m0) && (m_dst m0 =? r) && (m_item m0 =? j))
                    k (net st) m Hk) as Hrm. cbv beta in Hrm.
      destruct (rank_at_upd _ _ _ _ _ _ _ H0 Hr) as [[-> ->]|[N Hr1]].
      * pose proof (inv_cons _ _ _ I f r0 rs0 j H0) as Hc. unfold inflight in Hc.
        unfold logged in *; simpl. rewrite countb_cons; simpl.
        rewrite Hd, Nat.eqb_refl, andb_true_r in Hrm. lia.
      * pose proof (inv_cons _ _ _ I f r rs j Hr1) as Hc. unfold inflight in Hc.
        destruct (Nat.eqb_spec (m_dst m) r) as [E|E]; [congruence|].
        rewrite andb_false_r in Hrm. simpl in Hrm. lia.
    + (* log *)
      intros r rs j m' Hr Hin. destruct (rank_at_upd _ _ _ _ _ _ _ H0 Hr) as [[-> ->]|[N Hr1]].
      * simpl in Hin. destruct Hin as [E|Hin].
        { inversion E; subst j m'. simpl. repeat split; auto. exists d. rewrite Ht. exact Hi. }
        apply (inv_log _ _ _ I r0 rs0 j m' H0 Hin).
      * apply (inv_log _ _ _ I r rs j m' Hr1 Hin).
    + (* past *)
      intros r rs j Hr Hj. destruct (rank_at_upd _ _ _ _ _ _ _ H0 Hr) as [[-> ->]|[N Hr1]].
      * simpl in Hj. unfold logged; simpl. rewrite countb_cons; simpl.
        destruct (Nat.eqb_spec (m_item m) j) as [E|E]; [lia|]. simpl.
        apply (inv_past _ _ _ I r0 rs0 j H0 Hj).
      * apply (inv_past _ _ _ I r rs j Hr1 Hj).
    + (* current *)
      intros r rs Hr. destruct (rank_at_upd _ _ _ _ _ _ _ H0 Hr) as [[-> ->]|[N Hr1]].
      * simpl. unfold logged; simpl. rewrite countb_cons; simpl.
        rewrite Hitem, Nat.eqb_refl. simpl.
        destruct (inv_cur _ _ _ I r0 rs0 H0) as [A _]. unfold logged, ftrue in A. simpl in A. rewrite A.
        split; [reflexivity|]. rewrite (dests_at_phase _ _ _ _ Hi). lia.
      * apply (inv_cur _ _ _ I r rs Hr1).
  - (* advance *)
    set (rs' := mkR (S (pc rs0)) false 0 (rlog rs0) (revs rs0)).
    pose proof (rank_at_lt _ _ _ _ _ I H0) as Hlt.
    assert (Hpc : pc rs0 < length prog) by (apply nth_error_Some; congruence).
    destruct (basic_upd P prog st r0 rs0 rs' (net st) I H0) as (B1 & B2 & B3 & B4).
    { simpl; lia. }
    { simpl; lia. }
    { simpl. intros k0 Hk0 G1 G2. assert (k0 = pc rs0) by lia. subst k0. congruence. }
    { intros m' Hm. left. exact Hm. }
    destruct (logs_upd_next P prog st r0 rs0 rs' (net st) I H0) as (L1 & L2 & L3); try reflexivity.
    { rewrite (dests_at_phase _ _ _ _ Hi). exact Hn. }
    constructor; try assumption.
    intros f r rs j Hr.
    rewrite (sentcount_upd_same P prog st r0 rs0 rs' _ f r j H0 Hlt).
    + assert (Hlog : exists rs1, rank_at st r rs1 /\ logged rs f j = logged rs1 f j).
      { destruct (rank_at_upd _ _ _ _ _ _ _ H0 Hr) as [[-> ->]|[N Hr1]];
          [exists rs0|exists rs]; split; auto. }
      destruct Hlog as (rs1 & Hr1 & ->). apply (inv_cons _ _ _ I f r rs1 j Hr1).
    + unfold doneb; simpl. rewrite Hs, andb_true_r, andb_false_r, orb_false_r.
      replace (j <? S (pc rs0)) with ((j <? pc rs0) || (pc rs0 =? j)); [reflexivity|].
      destruct (Nat.ltb_spec j (pc rs0)); destruct (Nat.eqb_spec (pc rs0) j);
        destruct (Nat.ltb_spec j (S (pc rs0))); simpl; try reflexivity; lia.
  - (* barrier *)
    set (rs' := mkR (S (pc rs0)) false 0 (rlog rs0) (EvBarrier :: revs rs0)).
    pose proof (rank_at_lt _ _ _ _ _ I H0) as Hlt.
    assert (Hpc : pc rs0 < length prog) by (apply nth_error_Some; congruence).
    destruct (basic_upd P prog st r0 rs0 rs' (net st) I H0) as (B1 & B2 & B3 & B4).
    { simpl; lia. }
    { simpl; lia. }
    { simpl. intros k0 Hk0 G1 G2 q rq Hq. assert (k0 = pc rs0) by lia. subst k0. eapply Hall; eauto. }
    { intros m' Hm. left. exact Hm. }
    pose proof (inv_cur _ _ _ I r0 rs0 H0) as [_ Hz].
    rewrite (dests_at_barrier _ _ Hi), expected_nil in Hz.
    destruct (logs_upd_next P prog st r0 rs0 rs' (net st) I H0) as (L1 & L2 & L3); try reflexivity.
    { rewrite (dests_at_barrier _ _ Hi), expected_nil. lia. }
    constructor; try assumption.
    intros f r rs j Hr.
    rewrite (sentcount_upd_same P prog st r0 rs0 rs' _ f r j H0 Hlt).
    + assert (Hlog : exists rs1, rank_at st r rs1 /\ logged rs f j = logged rs1 f j).
      { destruct (rank_at_upd _ _ _ _ _ _ _ H0 Hr) as [[-> ->]|[N Hr1]];
          [exists rs0|exists rs]; split; auto. }
      destruct Hlog as (rs1 & Hr1 & ->). apply (inv_cons _ _ _ I f r rs1 j Hr1).
    + unfold sterm. destruct (Nat.eq_dec j (pc rs0)) as [->|Nj].
      * rewrite (dests_at_barrier _ _ Hi). unfold cnt; simpl.
        destruct (f r0 && doneb rs0 (pc rs0)); destruct (f r0 && doneb rs' (pc rs0)); reflexivity.
      * replace (doneb rs' j) with (doneb rs0 j); [reflexivity|].
        unfold doneb; simpl. rewrite andb_false_r, orb_false_r.
        destruct (Nat.ltb_spec j (pc rs0)); destruct (Nat.eqb_spec (pc rs0) j);
          destruct (Nat.ltb_spec j (S (pc rs0))); simpl; try reflexivity; lia.
Qed.

Lemma reachable_Inv P prog st : phases_sep prog -> reachable P prog st -> Inv P prog st.
Proof.
  intros Hsep H. induction H as [|st st' _ IH Hst]; [apply Inv_init|].
  eapply Inv_step; eauto. apply step_to_spec; exact Hst.
Qed.

(* ================= T1: phase separation ================= *)

(* what a pending wildcard receive can match: only messages of the receiver's own current item *)
Theorem recv_matches_own_phase P prog st :
  phases_ok prog = true -> reachable P prog st ->
  forall r rs t d m, nth_error (ranks st) r = Some rs -> nth_error prog (pc rs) = Some (Phase t d) ->
    In m (net st) -> m_dst m = r -> m_tag m = t -> m_item m = pc rs.
Proof.
  intros Hok Hre.
  exact (safety P prog st (phases_ok_sep _ Hok) (reachable_Inv P prog st (phases_ok_sep _ Hok) Hre)).
Qed.

(* every message a rank received while executing item j was sent by item j, to this rank, with j's tag *)
Theorem received_in_own_phase P prog st :
  phases_ok prog = true -> reachable P prog st ->
  forall r rs j m, nth_error (ranks st) r = Some rs -> In (j, m) (rlog rs) ->
    m_item m = j /\ m_dst m = r /\ j <= pc rs /\ exists d, nth_error prog j = Some (Phase (m_tag m) d).
Proof.
  intros Hok Hre r rs j m Hr Hin.
  pose proof (reachable_Inv P prog st (phases_ok_sep _ Hok) Hre) as I.
  exact (inv_log _ _ _ I r rs j m Hr Hin).
Qed.

Lemma count_occ_log (l : list (nat * msg)) j s0 :
  (forall e, In e l -> m_item (snd e) = fst e) ->
  count_occ Nat.eq_dec (map (fun e => m_src (snd e)) (filter (fun e => fst e =? j) l)) s0
  = countb (fun e => (m_src (snd e) =? s0) && (m_item (snd e) =? j)) l.
Proof.
  induction l as [|e l IH]; intros H; [reflexivity|].
  rewrite countb_cons. simpl filter.
  assert (E : m_item (snd e) = fst e) by (apply H; left; reflexivity).
  assert (IH' := IH (fun e' He' => H e' (or_intror He'))).
  rewrite E. destruct (fst e =? j); simpl.
  - rewrite IH'. destruct (Nat.eq_dec (m_src (snd e)) s0) as [Q|Q];
      destruct (Nat.eqb_spec (m_src (snd e)) s0); try contradiction; simpl; lia.
  - rewrite IH', andb_false_r. reflexivity.
Qed.

Lemma count_occ_senders P d r s0 :
  count_occ Nat.eq_dec (senders P d r) s0 = if s0 <? P then cnt r (d s0) else 0.
Proof.
  unfold senders. induction P as [|n IH]; [reflexivity|].
  rewrite seq_S, flat_map_app, count_occ_app, IH. simpl. rewrite app_nil_r.
  destruct (Nat.eq_dec s0 n) as [->|N].
  - rewrite count_occ_repeat_eq by reflexivity.
    destruct (Nat.ltb_spec n n); [lia|]. destruct (Nat.ltb_spec n (S n)); lia.
  - rewrite count_occ_repeat_neq by exact N.
    destruct (Nat.ltb_spec s0 n); destruct (Nat.ltb_spec s0 (S n)); lia.
Qed.

(* a rank that has counted `expected` messages in phase j has received exactly the messages addressed
   to it in phase j: the sources it saw are the senders, with multiplicity *)
Theorem phase_receives_exactly P prog st :
  phases_ok prog = true -> reachable P prog st ->
  forall r rs j t d, nth_error (ranks st) r = Some rs -> nth_error prog j = Some (Phase t d) ->
    (j < pc rs \/ (j = pc rs /\ nrecv rs = expected P d r)) ->
    Permutation (map (fun e => m_src (snd e)) (filter (fun e => fst e =? j) (rlog rs)))
                (senders P d r)
    /\ (forall m, In m (net st) -> m_dst m = r -> m_item m <> j).
Proof.
  intros Hok Hre r rs j t d Hr Hj Hfin.
  pose proof (reachable_Inv P prog st (phases_ok_sep _ Hok) Hre) as I.
  pose proof (dests_at_phase _ _ _ _ Hj) as Hd.
  assert (Hfull : logged rs ftrue j = expected P d r).
  { destruct Hfin as [Hlt|[-> Hn]].
    - rewrite (inv_past _ _ _ I r rs j Hr Hlt), Hd. reflexivity.
    - destruct (inv_cur _ _ _ I r rs Hr) as [A _]. rewrite A. exact Hn. }
  pose proof (inv_cons _ _ _ I ftrue r rs j Hr) as Hc.
  pose proof (sentcount_le P prog st ftrue r j) as Hle. rewrite Hd in Hle.
  assert (Hz : inflight st ftrue r j = 0) by lia.
  assert (Hsc : sentcount P prog st ftrue r j = expected P d r) by lia.
  assert (Hterm : forall s, s < P -> sterm prog ftrue r j s (done_at st s j) = cnt r (d s)).
  { apply sumn_le_eq; [|exact Hsc].
    intros s _. unfold sterm. rewrite Hd. destruct (ftrue s && done_at st s j); lia. }
  split.
  - apply (Permutation_count_occ Nat.eq_dec). intros s0.
    rewrite count_occ_senders, count_occ_log.
    2:{ intros [j' m'] Hin. simpl. apply (inv_log _ _ _ I r rs j' m' Hr Hin). }
    pose proof (inv_cons _ _ _ I (fun s => s =? s0) r rs j Hr) as Hc0.
    assert (Hz0 : inflight st (fun s => s =? s0) r j = 0).
    { enough (inflight st (fun s => s =? s0) r j <= inflight st ftrue r j) by lia.
      unfold inflight. apply countb_le. intros m _ Hm.
      apply andb_true_iff in Hm. destruct Hm as [Hm1 Hm2].
      apply andb_true_iff in Hm1. destruct Hm1 as [_ Hm1]. unfold ftrue. rewrite Hm1, Hm2. reflexivity. }
    unfold logged in Hc0. rewrite Hz0 in Hc0. simpl in Hc0. rewrite Hc0.
    unfold sentcount.
    rewrite (sumn_ext P _ (fun s => if s =? s0 then sterm prog ftrue r j s (done_at st s j) else 0)).
    2:{ intros s _. unfold sterm, ftrue. destruct (s =? s0); reflexivity. }
    rewrite (sumn_single P s0 (fun s => sterm prog ftrue r j s (done_at st s j))).
    destruct (Nat.ltb_spec s0 P) as [L|L]; [apply Hterm; exact L|reflexivity].
  - intros m Hm Hdst Hit. unfold inflight in Hz.
    pose proof (countb_pos_in (fun m0 => ftrue (m_src m0) && (m_dst m0 =? r) && (m_item m0 =? j))
                  (net st) m Hm) as Hp.
    cbv beta in Hp. rewrite Hdst, Hit, !Nat.eqb_refl in Hp. specialize (Hp eq_refl). lia.
Qed.

(* ================= T2: no stuck state ================= *)

Lemma min_rank (l : list rstate) : l <> [] ->
  exists r rs, nth_error l r = Some rs /\ forall q rq, nth_error l q = Some rq -> pc rs <= pc rq.
Proof.
  induction l as [|x l IH]; intros Hne; [contradiction|].
  destruct l as [|y l'].
  - exists 0, x. split; [reflexivity|]. intros [|q] rq Hq; simpl in Hq.
    + inversion Hq; subst; lia.
    + destruct q; discriminate.
  - destruct IH as (r & rs & Hr & Hmin); [discriminate|].
    destruct (Nat.le_gt_cases (pc x) (pc rs)) as [L|L].
    + exists 0, x. split; [reflexivity|]. intros [|q] rq Hq; simpl in Hq.
      * inversion Hq; subst; lia.
      * specialize (Hmin q rq Hq). lia.
    + exists (S r), rs. split; [exact Hr|]. intros [|q] rq Hq; simpl in Hq.
      * inversion Hq; subst; lia.
      * exact (Hmin q rq Hq).
Qed.

Lemma forallb_false_nth {A} (p : A -> bool) l :
  forallb p l = false -> exists k x, nth_error l k = Some x /\ p x = false.
Proof.
  induction l as [|y l IH]; simpl; intros H; [discriminate|].
  destruct (p y) eqn:E.
  - destruct (IH H) as (k & x & Hk & Hx). exists (S k), x. split; assumption.
  - exists 0, y. split; [reflexivity|exact E].
Qed.

Theorem progress P prog st :
  phases_ok prog = true -> reachable P prog st ->
  (exists r rs, nth_error (ranks st) r = Some rs /\ pc rs < length prog) ->
  exists st', step P prog st st'.
Proof.
  intros Hok Hre (r1 & rs1 & Hr1 & Hlt1).
  pose proof (reachable_Inv P prog st (phases_ok_sep _ Hok) Hre) as I.
  destruct (min_rank (ranks st)) as (r & rs & Hr & Hmin).
  { intros E. rewrite E in Hr1. destruct r1; discriminate. }
  assert (Hlt : pc rs < length prog) by (specialize (Hmin r1 rs1 Hr1); lia).
  destruct (nth_error prog (pc rs)) as [it|] eqn:Hi.
  2:{ apply nth_error_None in Hi. lia. }
  destruct it as [|t d].
  - (* barrier: everybody has arrived *)
    eexists. apply spec_to_step. eapply SS_bar; eauto.
  - destruct (sent rs) eqn:Hs.
    2:{ eexists. apply spec_to_step. eapply (SS_send P prog st r rs t d (d r)); eauto. }
    destruct (Nat.eq_dec (nrecv rs) (expected P d r)) as [Hn|Hn].
    { eexists. apply spec_to_step. eapply SS_adv; eauto. }
    destruct (inv_cur _ _ _ I r rs Hr) as [Hlog Hle]. rewrite (dests_at_phase _ _ _ _ Hi) in Hle.
    destruct (forallb (fun x => doneb x (pc rs)) (ranks st)) eqn:Hall.
    + (* everybody has posted the sends of this phase: a message for r is in flight *)
      pose proof (inv_cons _ _ _ I ftrue r rs (pc rs) Hr) as Hc.
      assert (Hsc : sentcount P prog st ftrue r (pc rs) = expected P d r).
      { unfold sentcount, expected. apply sumn_ext. intros s Hs'.
        unfold sterm. rewrite (dests_at_phase _ _ _ _ Hi).
        replace (done_at st s (pc rs)) with true; [reflexivity|].
        unfold done_at. destruct (nth_error (ranks st) s) as [x|] eqn:Hx.
        - symmetry. rewrite forallb_nth in Hall. eapply Hall; eauto.
        - apply nth_error_None in Hx. rewrite (inv_len _ _ _ I) in Hx. lia. }
      assert (Hpos : 0 < inflight st ftrue r (pc rs)) by lia.
      destruct (countb_pos_ex _ _ Hpos) as (k & m & Hk & Hm).
      apply andb_true_iff in Hm. destruct Hm as [Hm Hm2].
      apply andb_true_iff in Hm. destruct Hm as [_ Hm1].
      apply Nat.eqb_eq in Hm1. apply Nat.eqb_eq in Hm2.
      destruct (inv_msg _ _ _ I m (nth_error_In _ _ Hk)) as (rsx & d' & _ & Hit & _ & _).
      rewrite Hm2, Hi in Hit. inversion Hit; subst t.
      eexists. apply spec_to_step. eapply SS_recv; eauto. lia.
    + (* somebody at the same item has not posted its sends yet: it can *)
      destruct (forallb_false_nth _ _ Hall) as (s & x & Hx & Hd).
      pose proof (Hmin s x Hx) as Hge.
      unfold doneb in Hd. apply orb_false_iff in Hd. destruct Hd as [Hd1 Hd2].
      apply Nat.ltb_ge in Hd1. assert (Hpc : pc x = pc rs) by lia.
      rewrite Hpc, Nat.eqb_refl in Hd2. simpl in Hd2.
      eexists. apply spec_to_step. eapply (SS_send P prog st s x t d (d s)); eauto.
      rewrite Hpc. exact Hi.
Qed.

(* ================= T2b: termination ================= *)

Lemma skipn_nil {A} k : skipn k (@nil A) = [].
Proof. destruct k; reflexivity. Qed.

Lemma items_cost_skipn P r prog : forall k,
  items_cost P r (skipn k prog)
  = match nth_error prog k with Some it => item_cost P r it | None => 0 end
    + items_cost P r (skipn (S k) prog).
Proof.
  induction prog as [|it p IH]; intros k.
  - rewrite !skipn_nil. destruct k; reflexivity.
  - destruct k as [|k]; [reflexivity|]. simpl nth_error. rewrite <- IH. reflexivity.
Qed.

Lemma rank_work_fresh P prog r k lg ev :
  rank_work P prog r (mkR k false 0 lg ev) = items_cost P r (skipn k prog).
Proof.
  unfold rank_work. cbn [pc sent nrecv]. rewrite (items_cost_skipn P r prog k).
  destruct (nth_error prog k) as [[|t d]|]; unfold item_cost; lia.
Qed.

Lemma ranks_work_upd P prog l : forall r r0 rs rs',
  nth_error l r = Some rs ->
  rank_work P prog (r0 + r) rs = S (rank_work P prog (r0 + r) rs') ->
  ranks_work P prog r0 l = S (ranks_work P prog r0 (upd l r rs')).
Proof.
  induction l as [|x l IH]; intros [|r] r0 rs rs' Hr Hw; simpl in Hr; try discriminate.
  - inversion Hr; subst x. rewrite Nat.add_0_r in Hw. simpl. lia.
  - simpl. rewrite (IH r (S r0) rs rs' Hr); [lia|].
    replace (S r0 + r) with (r0 + S r) by lia. exact Hw.
Qed.

(* every step does exactly one unit of the remaining work *)
Lemma work_step P prog st st' : step P prog st st' -> work P prog st = S (work P prog st').
Proof.
  intros Hst. apply step_to_spec in Hst. unfold work.
  destruct Hst as [r0 rs0 t d ds H0 Hi Hs Hperm | r0 k rs0 t d m H0 Hi Hs Hn Hk Hd Ht
                  | r0 rs0 t d H0 Hi Hs Hn | r0 rs0 H0 Hi Hall];
    cbn [ranks]; apply (ranks_work_upd P prog (ranks st) r0 0 rs0 _ H0); cbn [Nat.add].
  - unfold rank_work. cbn [pc sent nrecv]. rewrite Hi, Hs. lia.
  - unfold rank_work. cbn [pc sent nrecv]. rewrite Hi, Hs. lia.
  - rewrite rank_work_fresh. unfold rank_work. rewrite Hi, Hs, Hn. lia.
  - rewrite rank_work_fresh. unfold rank_work. rewrite Hi. lia.
Qed.

Lemma work_steps P prog n st st' : steps P prog n st st' -> work P prog st = n + work P prog st'.
Proof.
  intros H. induction H as [st|n st st1 st2 H1 _ IH]; [reflexivity|].
  rewrite (work_step _ _ _ _ H1), IH. lia.
Qed.

Lemma sumn_shift n g : sumn (S n) g = g 0 + sumn n (fun i => g (S i)).
Proof.
  induction n as [|n IH]; [simpl; lia|].
  change (sumn (S (S n)) g) with (sumn (S n) g + g (S n)). rewrite IH. simpl. lia.
Qed.

Lemma ranks_work_init P prog n : forall r0,
  ranks_work P prog r0 (repeat r_init n) = sumn n (fun i => items_cost P (r0 + i) prog).
Proof.
  induction n as [|n IH]; intros r0; [reflexivity|].
  rewrite sumn_shift. cbn [repeat ranks_work]. rewrite IH.
  unfold r_init. rewrite rank_work_fresh. cbn [skipn]. rewrite Nat.add_0_r.
  f_equal. apply sumn_ext. intros i _. f_equal. lia.
Qed.

Lemma work_init P prog : work P prog (init P) = total_work P prog.
Proof. unfold work, total_work, init. cbn [ranks]. rewrite ranks_work_init. reflexivity. Qed.

(* the number of steps of ANY execution from the initial state is bounded by the total work *)
Theorem steps_bounded P prog n st :
  steps P prog n (init P) st -> n + work P prog st = total_work P prog.
Proof. intros H. rewrite <- work_init. symmetry. apply work_steps. exact H. Qed.

Lemma steps_reachable P prog n st st' :
  reachable P prog st -> steps P prog n st st' -> reachable P prog st'.
Proof.
  intros Hre H. induction H as [st|n st st1 st2 H1 _ IH]; [exact Hre|].
  apply IH. eapply reach_step; eauto.
Qed.

Lemma ranks_work_zero P prog l : forall r0,
  (forall rs, In rs l -> pc rs = length prog) -> ranks_work P prog r0 l = 0.
Proof.
  induction l as [|x l IH]; intros r0 H; [reflexivity|].
  cbn [ranks_work]. rewrite IH by (intros; apply H; right; assumption).
  unfold rank_work. rewrite (H x (or_introl eq_refl)).
  replace (nth_error prog (length prog)) with (@None item)
    by (symmetry; apply nth_error_None; lia).
  rewrite skipn_all2 by lia. reflexivity.
Qed.

Lemma finished_work P prog st : finished prog st -> work P prog st = 0.
Proof.
  intros H. unfold work. apply ranks_work_zero. intros rs Hin.
  destruct (In_nth_error _ _ Hin) as [r Hr]. eapply H; eauto.
Qed.

(* all ranks finished => nothing is left in the network (destinations inside the world) *)
Theorem finished_net_empty P prog st :
  phases_ok prog = true -> dests_in_range P prog -> reachable P prog st ->
  finished prog st -> net st = [].
Proof.
  intros Hok Hrange Hre Hfin.
  pose proof (reachable_Inv P prog st (phases_ok_sep _ Hok) Hre) as I.
  destruct (net st) as [|m l] eqn:En; [reflexivity|exfalso].
  assert (Hm : In m (net st)) by (rewrite En; left; reflexivity).
  destruct (inv_msg _ _ _ I m Hm) as (rsrc & d & Hsrc & Hit & _ & Hin).
  pose proof (rank_at_lt _ _ _ _ _ I Hsrc) as Hs.
  pose proof (Hrange _ _ _ _ _ Hit Hs Hin) as Hd.
  destruct (nth_error (ranks st) (m_dst m)) as [rdst|] eqn:Hdst.
  2:{ apply nth_error_None in Hdst. rewrite (inv_len _ _ _ I) in Hdst. lia. }
  assert (Hj : m_item m < length prog) by (apply nth_error_Some; congruence).
  pose proof (Hfin _ _ Hdst) as Hpc.
  destruct (phase_receives_exactly P prog st Hok Hre (m_dst m) rdst (m_item m) (m_tag m) d Hdst Hit)
    as [_ Hno]; [left; lia|].
  exact (Hno m Hm eq_refl eq_refl).
Qed.

(* a state without successor is a final state: every rank finished, network empty *)
Theorem stuck_is_final P prog st :
  phases_ok prog = true -> reachable P prog st ->
  (forall st', ~ step P prog st st') ->
  finished prog st /\ (dests_in_range P prog -> net st = []).
Proof.
  intros Hok Hre Hstuck.
  pose proof (reachable_Inv P prog st (phases_ok_sep _ Hok) Hre) as I.
  assert (Hfin : finished prog st).
  { intros r rs Hr. pose proof (inv_pc _ _ _ I r rs Hr) as Hle.
    destruct (Nat.eq_dec (pc rs) (length prog)) as [E|E]; [exact E|exfalso].
    destruct (progress P prog st Hok Hre) as [st' Hst'].
    - exists r, rs. split; [exact Hr|lia].
    - exact (Hstuck st' Hst'). }
  split; [exact Hfin|]. intros Hrange. eapply finished_net_empty; eauto.
Qed.

(* every maximal execution has exactly total_work steps and ends in a final state *)
Theorem maximal_execution P prog n st :
  phases_ok prog = true -> steps P prog n (init P) st ->
  n <= total_work P prog /\
  ((forall st', ~ step P prog st st') ->
     n = total_work P prog /\ finished prog st /\ (dests_in_range P prog -> net st = [])).
Proof.
  intros Hok Hsteps. pose proof (steps_bounded P prog n st Hsteps) as Hb.
  split; [lia|]. intros Hstuck.
  assert (Hre : reachable P prog st) by (eapply steps_reachable; [apply reach_init|exact Hsteps]).
  destruct (stuck_is_final P prog st Hok Hre Hstuck) as [Hfin Hnet].
  pose proof (finished_work P prog st Hfin) as Hw.
  repeat split; [lia|exact Hfin|exact Hnet].
Qed.

(* every reachable state can be driven to a final state (and, by the bound above, every way of
   continuing gets there) *)
Theorem can_finish P prog : phases_ok prog = true ->
  forall st, reachable P prog st ->
  exists n st', steps P prog n st st' /\ finished prog st'.
Proof.
  intros Hok st. remember (work P prog st) as w eqn:Hw. revert st Hw.
  induction w as [|w IH]; intros st Hw Hre;
    pose proof (reachable_Inv P prog st (phases_ok_sep _ Hok) Hre) as I;
    destruct (forallb (fun rs => length prog <=? pc rs) (ranks st)) eqn:Hall.
  - exists 0, st. split; [constructor|]. intros r rs Hr.
    rewrite forallb_nth in Hall. specialize (Hall r rs Hr). apply Nat.leb_le in Hall.
    pose proof (inv_pc _ _ _ I r rs Hr). lia.
  - destruct (forallb_false_nth _ _ Hall) as (r & rs & Hr & Hlt). apply Nat.leb_gt in Hlt.
    destruct (progress P prog st Hok Hre) as [st' Hst']; [exists r, rs; split; assumption|].
    rewrite (work_step _ _ _ _ Hst') in Hw. discriminate.
  - exists 0, st. split; [constructor|]. intros r rs Hr.
    rewrite forallb_nth in Hall. specialize (Hall r rs Hr). apply Nat.leb_le in Hall.
    pose proof (inv_pc _ _ _ I r rs Hr). lia.
  - destruct (forallb_false_nth _ _ Hall) as (r & rs & Hr & Hlt). apply Nat.leb_gt in Hlt.
    destruct (progress P prog st Hok Hre) as [st' Hst']; [exists r, rs; split; assumption|].
    rewrite (work_step _ _ _ _ Hst') in Hw. inversion Hw as [Hw'].
    destruct (IH st' Hw') as (n & st'' & Hn & Hf); [eapply reach_step; eauto|].
    exists (S n), st''. split; [econstructor; eauto|exact Hf].
Qed.

(* ================= T3: the discipline is satisfiable and needed ================= *)

Lemma run_reachable P prog acts : forall st st',
  reachable P prog st -> run P prog st acts = Some st' -> reachable P prog st'.
Proof.
  induction acts as [|a acts IH]; intros st st' Hre H; simpl in H.
  - inversion H; subst. exact Hre.
  - destruct (exec_step P prog st a) as [st1|] eqn:E; [|discriminate].
    eapply IH; [|exact H]. eapply reach_step; [exact Hre|]. exists a. exact E.
Qed.

Theorem good_program_ok : phases_ok prog_good = true.
Proof. reflexivity. Qed.

Theorem bad_program_not_ok : phases_ok prog_bad = false.
Proof. reflexivity. Qed.

(* without the barrier: rank 2, executing item 0, consumes the message that rank 1 sent in item 1 *)
Theorem bad_program_confuses_phases :
  exists st, reachable 3 prog_bad st /\
    exists rs m, nth_error (ranks st) 2 = Some rs /\ pc rs = 0 /\ In (0, m) (rlog rs) /\ m_item m = 1.
Proof.
  destruct (run 3 prog_bad (init 3) bad_schedule) as [st|] eqn:E; [|vm_compute in E; discriminate].
  exists st. split; [eapply run_reachable; [apply reach_init|exact E]|].
  vm_compute in E. inversion E; subst st.
  exists (mkR 0 true 1 [(0, mkMsg 1 2 7 1)] [EvRecvAny 1 7]), (mkMsg 1 2 7 1).
  repeat split. left; reflexivity.
Qed.

(* with the barrier the same schedule is not an execution (and, by T1, no schedule confuses phases) *)
Theorem good_program_blocks_schedule : run 3 prog_good (init 3) bad_schedule = None.
Proof. vm_compute. reflexivity. Qed.

(* ================= trace conformance: every run is accepted by trace_ok ================= *)

Lemma take_sends_events t ds rest :
  take_sends (length ds) t (send_events t ds ++ rest) = Some (ds, rest).
Proof.
  unfold send_events. induction ds as [|x ds IH]; [reflexivity|].
  cbn [length map app take_sends]. rewrite Nat.eqb_refl, IH. reflexivity.
Qed.

Lemma take_recvs_events t ss rest :
  take_recvs (length ss) t (map (fun s => EvRecvAny s t) ss ++ rest) = Some (ss, rest).
Proof.
  induction ss as [|x ss IH]; [reflexivity|].
  cbn [length map app take_recvs]. rewrite Nat.eqb_refl, IH. reflexivity.
Qed.

Lemma take_sends_app n t : forall e1 ds e1' e2,
  take_sends n t e1 = Some (ds, e1') -> take_sends n t (e1 ++ e2) = Some (ds, e1' ++ e2).
Proof.
  induction n as [|n IH]; intros e1 ds e1' e2 H; simpl in *.
  - inversion H; subst. reflexivity.
  - destruct e1 as [|[dst t'|src t'|] e]; try discriminate. simpl.
    destruct (t' =? t); [|discriminate].
    destruct (take_sends n t e) as [[ds0 e0]|] eqn:E; [|discriminate].
    inversion H; subst. rewrite (IH _ _ _ e2 E). reflexivity.
Qed.

Lemma take_recvs_app n t : forall e1 ss e1' e2,
  take_recvs n t e1 = Some (ss, e1') -> take_recvs n t (e1 ++ e2) = Some (ss, e1' ++ e2).
Proof.
  induction n as [|n IH]; intros e1 ss e1' e2 H; simpl in *.
  - inversion H; subst. reflexivity.
  - destruct e1 as [|[dst t'|src t'|] e]; try discriminate. simpl.
    destruct (t' =? t); [|discriminate].
    destruct (take_recvs n t e) as [[ss0 e0]|] eqn:E; [|discriminate].
    inversion H; subst. rewrite (IH _ _ _ e2 E). reflexivity.
Qed.

Lemma length_senders P d r : length (senders P d r) = expected P d r.
Proof.
  unfold senders, expected. induction P as [|n IH]; [reflexivity|].
  rewrite seq_S, flat_map_app, app_length, IH. simpl. rewrite app_nil_r, repeat_length. reflexivity.
Qed.

Lemma firstn_S_nth {A} (l : list A) : forall k x,
  nth_error l k = Some x -> firstn (S k) l = firstn k l ++ [x].
Proof.
  induction l as [|y l IH]; intros [|k] x H; simpl in H; try discriminate.
  - inversion H; subst. reflexivity.
  - change (firstn (S (S k)) (y :: l)) with (y :: firstn (S k) l). rewrite (IH k x H). reflexivity.
Qed.

Lemma trace_ok_app P r p2 e2 : forall p1 e1,
  trace_ok P p1 r e1 = true -> trace_ok P (p1 ++ p2) r (e1 ++ e2) = trace_ok P p2 r e2.
Proof.
  induction p1 as [|it p1 IH]; intros e1 H.
  - simpl in H. destruct e1; [reflexivity|discriminate].
  - destruct it as [|t d]; simpl in H |- *.
    + destruct e1 as [|[dst t'|src t'|] e]; try discriminate. simpl. apply IH. exact H.
    + destruct (take_sends (length (d r)) t e1) as [[ds e1a]|] eqn:E1; [|discriminate].
      rewrite (take_sends_app _ _ _ _ _ e2 E1).
      destruct (perm_b ds (d r)); [|discriminate].
      destruct (take_recvs (expected P d r) t e1a) as [[ss e1b]|] eqn:E2; [|discriminate].
      rewrite (take_recvs_app _ _ _ _ _ e2 E2).
      destruct (perm_b ss (senders P d r)); [|discriminate].
      apply IH. exact H.
Qed.

Lemma trace_ok_one_phase P r t d ds ss :
  Permutation ds (d r) -> Permutation ss (senders P d r) ->
  trace_ok P [Phase t d] r (send_events t ds ++ map (fun s => EvRecvAny s t) ss) = true.
Proof.
  intros Hd Hp. simpl. rewrite <- (Permutation_length Hd), take_sends_events.
  rewrite (perm_b_complete _ _ Hd).
  assert (Hl : expected P d r = length ss).
  { rewrite <- length_senders. symmetry. apply Permutation_length. exact Hp. }
  rewrite Hl. rewrite <- (app_nil_r (map (fun s => EvRecvAny s t) ss)).
  rewrite take_recvs_events. rewrite (perm_b_complete _ _ Hp). reflexivity.
Qed.

(* sources matched by the receives of the current phase, oldest first *)
Definition cur_srcs (rs : rstate) : list nat :=
  rev (map (fun e : nat * msg => m_src (snd e)) (filter (fun e => fst e =? pc rs) (rlog rs))).

(* the events of the item a rank is executing *)
Definition cur_shape (prog : program) (r : nat) (rs : rstate) (cur : list event) : Prop :=
  match nth_error prog (pc rs) with
  | Some (Phase t d) =>
      if sent rs then
        exists ds, Permutation ds (d r) /\
                   cur = send_events t ds ++ map (fun s => EvRecvAny s t) (cur_srcs rs)
      else cur = []
  | _ => cur = []
  end.

Definition trace_inv (P : nat) (prog : program) (st : state) : Prop :=
  forall r rs, rank_at st r rs ->
    (exists pre cur, rev (revs rs) = pre ++ cur /\
                     trace_ok P (firstn (pc rs) prog) r pre = true /\ cur_shape prog r rs cur) /\
    (sent rs = false -> filter (fun e : nat * msg => fst e =? pc rs) (rlog rs) = []).

Lemma filter_none {A} (p : A -> bool) l : (forall x, In x l -> p x = false) -> filter p l = [].
Proof.
  induction l as [|y l IH]; intros H; [reflexivity|]. simpl.
  rewrite (H y (or_introl eq_refl)). apply IH. intros; apply H; right; assumption.
Qed.

Lemma cur_shape_fresh prog r k lg ev : cur_shape prog r (mkR k false 0 lg ev) [].
Proof. unfold cur_shape. cbn [pc sent]. destruct (nth_error prog k) as [[|t d]|]; reflexivity. Qed.

Lemma trace_inv_reachable P prog st :
  phases_ok prog = true -> reachable P prog st -> trace_inv P prog st.
Proof.
  intros Hok Hre. induction Hre as [|st st' Hre IH Hst].
  - intros r rs Hr. rewrite (rank_at_init _ _ _ Hr). split; [|reflexivity].
    exists [], []. split; [reflexivity|]. split; [reflexivity|]. apply cur_shape_fresh.
  - pose proof (reachable_Inv P prog st (phases_ok_sep _ Hok) Hre) as I.
    apply step_to_spec in Hst.
    destruct Hst as [r0 rs0 t d ds H0 Hi Hs Hperm | r0 k rs0 t d m H0 Hi Hs Hn Hk Hd Ht
                    | r0 rs0 t d H0 Hi Hs Hn | r0 rs0 H0 Hi Hall];
      intros r rs Hr; destruct (rank_at_upd _ _ _ _ _ _ _ H0 Hr) as [[-> ->]|[N Hr1]];
      try (exact (IH r rs Hr1)); destruct (IH r0 rs0 H0) as [(pre & cur & Hev & Hpre & Hcur) Hfil];
      unfold cur_shape in Hcur; rewrite Hi in Hcur; try rewrite Hs in Hcur.
    + (* send *)
      split; [|discriminate]. exists pre, (send_events t ds). split; [|split; [exact Hpre|]].
      * cbn [revs]. rewrite rev_app_distr, rev_involutive, Hev, Hcur, app_nil_r. reflexivity.
      * unfold cur_shape, cur_srcs. cbn [pc sent rlog]. rewrite Hi, (Hfil Hs).
        exists ds. split; [exact Hperm|]. simpl. rewrite app_nil_r. reflexivity.
    + (* receive *)
      destruct Hcur as (ds & Hperm & Hcur).
      split; [|discriminate]. exists pre, (cur ++ [EvRecvAny (m_src m) t]). split; [|split; [exact Hpre|]].
      * cbn [revs rev]. rewrite Hev, app_assoc. reflexivity.
      * unfold cur_shape, cur_srcs. cbn [pc sent rlog]. rewrite Hi.
        exists ds. split; [exact Hperm|]. cbn [filter fst]. rewrite Nat.eqb_refl. cbn [map rev snd].
        rewrite map_app, Hcur, <- !app_assoc. reflexivity.
    + (* advance *)
      destruct Hcur as (ds & Hperm & Hcur).
      assert (Hnone : filter (fun e : nat * msg => fst e =? S (pc rs0)) (rlog rs0) = []).
      { apply filter_none. intros [j m'] Hin. simpl.
        destruct (inv_log _ _ _ I r0 rs0 j m' H0 Hin) as (_ & _ & C & _).
        destruct (Nat.eqb_spec j (S (pc rs0))); [lia|reflexivity]. }
      split; [|intros _; exact Hnone].
      exists (pre ++ cur), []. split; [|split; [|apply cur_shape_fresh]].
      * cbn [revs]. rewrite Hev, app_nil_r. reflexivity.
      * cbn [pc]. rewrite (firstn_S_nth _ _ _ Hi).
        rewrite (trace_ok_app P r0 [Phase t d] cur _ _ Hpre).
        rewrite Hcur. apply trace_ok_one_phase; [exact Hperm|].
        destruct (phase_receives_exactly P prog st Hok Hre r0 rs0 (pc rs0) t d H0 Hi) as [Hp _];
          [right; split; [reflexivity|exact Hn]|].
        unfold cur_srcs. eapply perm_trans; [apply Permutation_sym; apply Permutation_rev|exact Hp].
    + (* barrier *)
      assert (Hnone : filter (fun e : nat * msg => fst e =? S (pc rs0)) (rlog rs0) = []).
      { apply filter_none. intros [j m'] Hin. simpl.
        destruct (inv_log _ _ _ I r0 rs0 j m' H0 Hin) as (_ & _ & C & _).
        destruct (Nat.eqb_spec j (S (pc rs0))); [lia|reflexivity]. }
      split; [|intros _; exact Hnone].
      exists (pre ++ [EvBarrier]), []. split; [|split; [|apply cur_shape_fresh]].
      * cbn [revs rev]. rewrite Hev, Hcur, !app_nil_r. reflexivity.
      * cbn [pc]. rewrite (firstn_S_nth _ _ _ Hi).
        rewrite (trace_ok_app P r0 [Barrier] [EvBarrier] _ _ Hpre). reflexivity.
Qed.

(* the event log of a rank that has finished is accepted by the checker: a log rejected by trace_ok is
   not the log of any run of the protocol *)
Theorem finished_trace_ok P prog st :
  phases_ok prog = true -> reachable P prog st ->
  forall r rs, nth_error (ranks st) r = Some rs -> pc rs = length prog ->
    trace_ok P prog r (rev (revs rs)) = true.
Proof.
  intros Hok Hre r rs Hr Hpc.
  destruct (trace_inv_reachable P prog st Hok Hre r rs Hr) as [(pre & cur & Hev & Hpre & Hcur) _].
  unfold cur_shape in Hcur. rewrite Hpc in Hcur.
  replace (nth_error prog (length prog)) with (@None item) in Hcur
    by (symmetry; apply nth_error_None; lia).
  rewrite Hev, Hcur, app_nil_r. rewrite Hpc, firstn_all in Hpre. exact Hpre.
Qed.

(* ================= the meaning of trace_ok ================= *)

Lemma take_sends_spec n t : forall e ds e',
  take_sends n t e = Some (ds, e') -> e = send_events t ds ++ e' /\ length ds = n.
Proof.
  induction n as [|n IH]; intros e ds e' H; simpl in H.
  - inversion H; subst. split; reflexivity.
  - destruct e as [|[dst t'|src t'|] e0]; try discriminate.
    destruct (Nat.eqb_spec t' t) as [E|E]; [|discriminate].
    destruct (take_sends n t e0) as [[ds0 e1]|] eqn:E0; [|discriminate].
    inversion H; subst. destruct (IH _ _ _ E0) as [A B]. subst e0. split; [reflexivity|simpl; lia].
Qed.

Lemma take_recvs_spec n t : forall e ss e',
  take_recvs n t e = Some (ss, e') -> e = map (fun s => EvRecvAny s t) ss ++ e' /\ length ss = n.
Proof.
  induction n as [|n IH]; intros e ss e' H; simpl in H.
  - inversion H; subst. split; reflexivity.
  - destruct e as [|[dst t'|src t'|] e0]; try discriminate.
    destruct (Nat.eqb_spec t' t) as [E|E]; [|discriminate].
    destruct (take_recvs n t e0) as [[ss0 e1]|] eqn:E0; [|discriminate].
    inversion H; subst. destruct (IH _ _ _ E0) as [A B]. subst e0. split; [reflexivity|simpl; lia].
Qed.

Theorem trace_ok_iff P r prog : forall evs,
  trace_ok P prog r evs = true <-> trace_spec P r prog evs.
Proof.
  induction prog as [|it p IH]; intros evs; split; intros H.
  - simpl in H. destruct evs; [constructor|discriminate].
  - inversion H; subst. reflexivity.
  - destruct it as [|t d]; simpl in H.
    + destruct evs as [|[dst t'|src t'|] e]; try discriminate. constructor. apply IH. exact H.
    + destruct (take_sends (length (d r)) t evs) as [[ds e1]|] eqn:E1; [|discriminate].
      destruct (perm_b ds (d r)) eqn:Pd; [|discriminate].
      destruct (take_recvs (expected P d r) t e1) as [[ss e2]|] eqn:E2; [|discriminate].
      destruct (perm_b ss (senders P d r)) eqn:Ps; [|discriminate].
      destruct (take_sends_spec _ _ _ _ _ E1) as [-> _].
      destruct (take_recvs_spec _ _ _ _ _ E2) as [-> _].
      constructor; [apply perm_b_sound; exact Pd|apply perm_b_sound; exact Ps|apply IH; exact H].
  - inversion H as [|p' e Hp|t d p' ds ss e Hd Hs Hp]; subst; simpl.
    + apply IH. exact Hp.
    + rewrite <- (Permutation_length Hd), take_sends_events, (perm_b_complete _ _ Hd).
      rewrite <- length_senders, <- (Permutation_length Hs), take_recvs_events, (perm_b_complete _ _ Hs).
      apply IH. exact Hp.
Qed.

(* ================= soundness of trace_ok: every accepted log is the log of a run ================= *)

Lemma skipn_nth {A} (l : list A) : forall k x, nth_error l k = Some x -> skipn k l = x :: skipn (S k) l.
Proof.
  induction l as [|y l IH]; intros [|k] x H; simpl in H; try discriminate.
  - inversion H; subst. reflexivity.
  - change (skipn (S k) (y :: l)) with (skipn k l). rewrite (IH k x H). reflexivity.
Qed.

Lemma take_recvs_more t : forall l n rest ss e2,
  take_recvs n t (map (fun s => EvRecvAny s t) l ++ rest) = Some (ss, e2) -> length l < n ->
  exists s rest' ss', rest = EvRecvAny s t :: rest' /\ ss = l ++ s :: ss'.
Proof.
  induction l as [|x l IH]; intros n rest ss e2 H Hl.
  - destruct n as [|n]; [simpl in Hl; lia|]. cbn [map app take_recvs] in H.
    destruct rest as [|[dst t'|src t'|] e]; try discriminate.
    destruct (Nat.eqb_spec t' t) as [E|E]; [|discriminate].
    destruct (take_recvs n t e) as [[ss0 e0]|]; [|discriminate].
    inversion H; subst. exists src, e, ss0. split; reflexivity.
  - destruct n as [|n]; [simpl in Hl; lia|]. cbn [map app take_recvs] in H.
    rewrite Nat.eqb_refl in H.
    destruct (take_recvs n t (map (fun s => EvRecvAny s t) l ++ rest)) as [[ss0 e0]|] eqn:E; [|discriminate].
    inversion H; subst.
    destruct (IH n rest ss0 e2 E) as (s & rest' & ss' & A & B); [simpl in Hl; lia|].
    exists s, rest', ss'. split; [exact A|]. rewrite B. reflexivity.
Qed.

Section Guided.
Variables (P : nat) (prog : program) (r0 : nat) (evs : list event).
Hypothesis Hok : phases_ok prog = true.
Hypothesis Hevs : trace_ok P prog r0 evs = true.

(* rank r0 has so far produced a prefix of evs *)
Definition guided (st : state) : Prop :=
  exists rs rest, rank_at st r0 rs /\ evs = rev (revs rs) ++ rest.

Lemma guided_other st r1 rs1 rs' net' :
  rank_at st r1 rs1 -> r1 <> r0 -> guided st -> guided (mkS (upd (ranks st) r1 rs') net').
Proof.
  intros H1 N (rs & rest & Hr & He). exists rs, rest. split; [|exact He].
  unfold rank_at; simpl. rewrite (nth_error_upd_other _ _ _ _ _ H1); [exact Hr|auto].
Qed.

Lemma guided_self st rs0 rs' net' rest e rest' :
  rank_at st r0 rs0 -> evs = rev (revs rs0) ++ rest ->
  rev (revs rs') = rev (revs rs0) ++ e -> rest = e ++ rest' ->
  guided (mkS (upd (ranks st) r0 rs') net').
Proof.
  intros H0 He Hr Hrest. exists rs', rest'. split; [eapply rank_at_upd_same; eauto|].
  rewrite Hr, He, Hrest, app_assoc. reflexivity.
Qed.

(* what is left of evs, read against the rest of the program *)
Lemma rest_shape st rs rest :
  reachable P prog st -> rank_at st r0 rs -> evs = rev (revs rs) ++ rest ->
  exists cur, cur_shape prog r0 rs cur /\ trace_ok P (skipn (pc rs) prog) r0 (cur ++ rest) = true.
Proof.
  intros Hre Hr He.
  destruct (trace_inv_reachable P prog st Hok Hre r0 rs Hr) as [(pre & cur & Hev & Hpre & Hcur) _].
  exists cur. split; [exact Hcur|].
  rewrite <- (trace_ok_app P r0 (skipn (pc rs) prog) (cur ++ rest) _ _ Hpre).
  rewrite firstn_skipn, app_assoc, <- Hev, <- He. exact Hevs.
Qed.

(* posting sends *)
Lemma guided_send st s x t d :
  reachable P prog st -> guided st -> rank_at st s x ->
  nth_error prog (pc x) = Some (Phase t d) -> sent x = false ->
  exists st', step P prog st st' /\ guided st'.
Proof.
  intros Hre Hg Hx Hi Hs. destruct (Nat.eq_dec s r0) as [->|N].
  - destruct Hg as (rs & rest & Hr & He).
    assert (rs = x) by (unfold rank_at in *; congruence). subst rs.
    destruct (rest_shape st x rest Hre Hr He) as (cur & Hcur & Htr).
    unfold cur_shape in Hcur. rewrite Hi, Hs in Hcur. subst cur.
    rewrite (skipn_nth _ _ _ Hi) in Htr. cbn [app trace_ok] in Htr.
    destruct (take_sends (length (d r0)) t rest) as [[ds e1]|] eqn:E1; [|discriminate].
    destruct (perm_b ds (d r0)) eqn:Pd; [|discriminate].
    destruct (take_sends_spec _ _ _ _ _ E1) as [Hrest _].
    eexists. split.
    + apply spec_to_step. eapply (SS_send P prog st r0 x t d ds); eauto. apply perm_b_sound; exact Pd.
    + eapply (guided_self st x _ _ rest (send_events t ds) e1 Hr He); [|exact Hrest].
      cbn [revs]. rewrite rev_app_distr, rev_involutive. reflexivity.
  - eexists. split.
    + apply spec_to_step. eapply (SS_send P prog st s x t d (d s)); eauto.
    + eapply guided_other; eauto.
Qed.

Lemma length_cur_srcs st rs :
  Inv P prog st -> rank_at st r0 rs -> length (cur_srcs rs) = nrecv rs.
Proof.
  intros I Hr. unfold cur_srcs. rewrite rev_length, map_length.
  destruct (inv_cur _ _ _ I r0 rs Hr) as [A _]. rewrite <- A. unfold logged.
  change (length (filter (fun e : nat * msg => fst e =? pc rs) (rlog rs)))
    with (countb (fun e : nat * msg => fst e =? pc rs) (rlog rs)).
  apply countb_ext_in. intros [j m] Hin. simpl.
  destruct (inv_log _ _ _ I r0 rs j m Hr Hin) as (B & _). rewrite B. reflexivity.
Qed.

Lemma guided_progress st :
  reachable P prog st -> guided st ->
  (exists r rs, rank_at st r rs /\ pc rs < length prog) ->
  exists st', step P prog st st' /\ guided st'.
Proof.
  intros Hre Hg (r1 & rs1 & Hr1 & Hlt1).
  pose proof (reachable_Inv P prog st (phases_ok_sep _ Hok) Hre) as I.
  destruct (min_rank (ranks st)) as (r & rs & Hr & Hmin).
  { intros E. unfold rank_at in Hr1. rewrite E in Hr1. destruct r1; discriminate. }
  assert (Hlt : pc rs < length prog) by (specialize (Hmin r1 rs1 Hr1); lia).
  destruct (nth_error prog (pc rs)) as [it|] eqn:Hi.
  2:{ apply nth_error_None in Hi. lia. }
  destruct it as [|t d].
  - (* barrier *)
    eexists. split; [apply spec_to_step; eapply SS_bar; eauto|].
    destruct (Nat.eq_dec r r0) as [->|N]; [|eapply guided_other; eauto].
    destruct Hg as (rs' & rest & Hr' & He).
    assert (rs' = rs) by (unfold rank_at in *; congruence). subst rs'.
    destruct (rest_shape st rs rest Hre Hr' He) as (cur & Hcur & Htr).
    unfold cur_shape in Hcur. rewrite Hi in Hcur. subst cur.
    rewrite (skipn_nth _ _ _ Hi) in Htr. cbn [app trace_ok] in Htr.
    destruct rest as [|[dst t'|src t'|] e]; try discriminate.
    eapply (guided_self st rs _ _ (EvBarrier :: e) [EvBarrier] e Hr' He); reflexivity.
  - destruct (sent rs) eqn:Hs.
    2:{ eapply guided_send; eauto. }
    destruct (Nat.eq_dec (nrecv rs) (expected P d r)) as [Hn|Hn].
    { eexists. split; [apply spec_to_step; eapply SS_adv; eauto|].
      destruct (Nat.eq_dec r r0) as [->|N]; [|eapply guided_other; eauto].
      destruct Hg as (rs' & rest & Hr' & He).
      assert (rs' = rs) by (unfold rank_at in *; congruence). subst rs'.
      eapply (guided_self st rs _ _ rest [] rest Hr' He); [cbn [revs]; rewrite app_nil_r|]; reflexivity. }
    destruct (inv_cur _ _ _ I r rs Hr) as [Hlog Hle]. rewrite (dests_at_phase _ _ _ _ Hi) in Hle.
    destruct (forallb (fun x => doneb x (pc rs)) (ranks st)) eqn:Hall.
    + (* everybody has posted the sends of this phase *)
      assert (Hdone : forall s, s < P -> done_at st s (pc rs) = true).
      { intros s Hs'. unfold done_at. destruct (nth_error (ranks st) s) as [x|] eqn:Hx.
        - rewrite forallb_nth in Hall. eapply Hall; eauto.
        - apply nth_error_None in Hx. rewrite (inv_len _ _ _ I) in Hx. lia. }
      destruct (Nat.eq_dec r r0) as [->|N].
      * (* r0 must take the source that evs dictates *)
        destruct Hg as (rs' & rest & Hr' & He).
        assert (rs' = rs) by (unfold rank_at in *; congruence). subst rs'.
        destruct (rest_shape st rs rest Hre Hr' He) as (cur & Hcur & Htr).
        unfold cur_shape in Hcur. rewrite Hi, Hs in Hcur. destruct Hcur as (ds0 & Hp0 & ->).
        rewrite (skipn_nth _ _ _ Hi) in Htr. cbn [trace_ok] in Htr.
        rewrite <- !app_assoc, <- (Permutation_length Hp0), take_sends_events in Htr.
        rewrite (perm_b_complete _ _ Hp0) in Htr.
        destruct (take_recvs (expected P d r0) t (map (fun s => EvRecvAny s t) (cur_srcs rs) ++ rest))
          as [[ss e2]|] eqn:E2; [|discriminate].
        destruct (perm_b ss (senders P d r0)) eqn:Ps; [|discriminate].
        pose proof (length_cur_srcs st rs I Hr') as Hlen.
        destruct (take_recvs_more t _ _ _ _ _ E2) as (s & rest' & ss' & Hrest & Hss); [lia|].
        apply perm_b_sound in Ps.
        pose proof (proj1 (Permutation_count_occ Nat.eq_dec _ _) Ps s) as Hcs.
        rewrite count_occ_senders, Hss, count_occ_app in Hcs. simpl in Hcs.
        destruct (Nat.eq_dec s s) as [_|Q]; [|contradiction].
        destruct (Nat.ltb_spec s P) as [HsP|HsP]; [|lia].
        pose proof (inv_cons _ _ _ I (fun x => x =? s) r0 rs (pc rs) Hr') as Hc.
        assert (Hsc : sentcount P prog st (fun x => x =? s) r0 (pc rs) = cnt r0 (d s)).
        { unfold sentcount.
          rewrite (sumn_ext P _ (fun x => if x =? s then cnt r0 (d x) else 0)).
          - rewrite sumn_single. destruct (Nat.ltb_spec s P); [reflexivity|lia].
          - intros x Hx. unfold sterm. rewrite (Hdone x Hx), andb_true_r, (dests_at_phase _ _ _ _ Hi).
            reflexivity. }
        assert (Hlg : logged rs (fun x => x =? s) (pc rs) = count_occ Nat.eq_dec (cur_srcs rs) s).
        { unfold cur_srcs. rewrite count_occ_rev, count_occ_log; [reflexivity|].
          intros [j m] Hin. simpl. apply (inv_log _ _ _ I r0 rs j m Hr' Hin). }
        assert (Hpos : 0 < inflight st (fun x => x =? s) r0 (pc rs)) by lia.
        destruct (countb_pos_ex _ _ Hpos) as (k & m & Hk & Hm).
        apply andb_true_iff in Hm. destruct Hm as [Hm Hm2].
        apply andb_true_iff in Hm. destruct Hm as [Hm0 Hm1].
        apply Nat.eqb_eq in Hm0. apply Nat.eqb_eq in Hm1. apply Nat.eqb_eq in Hm2.
        destruct (inv_msg _ _ _ I m (nth_error_In _ _ Hk)) as (rsx & d' & _ & Hit & _ & _).
        rewrite Hm2, Hi in Hit. inversion Hit as [[Ht Hd']].
        eexists. split.
        { apply spec_to_step. eapply (SS_recv P prog st r0 k rs t d m); eauto. lia. }
        eapply (guided_self st rs _ _ rest [EvRecvAny s t] rest' Hr' He); [|exact Hrest].
        cbn [revs rev]. rewrite Hm0. reflexivity.
      * (* another rank: any matching message will do *)
        pose proof (inv_cons _ _ _ I ftrue r rs (pc rs) Hr) as Hc.
        assert (Hsc : sentcount P prog st ftrue r (pc rs) = expected P d r).
        { unfold sentcount, expected. apply sumn_ext. intros s Hs'.
          unfold sterm. rewrite (dests_at_phase _ _ _ _ Hi), (Hdone s Hs'). reflexivity. }
        assert (Hpos : 0 < inflight st ftrue r (pc rs)) by lia.
        destruct (countb_pos_ex _ _ Hpos) as (k & m & Hk & Hm).
        apply andb_true_iff in Hm. destruct Hm as [Hm Hm2].
        apply andb_true_iff in Hm. destruct Hm as [_ Hm1].
        apply Nat.eqb_eq in Hm1. apply Nat.eqb_eq in Hm2.
        destruct (inv_msg _ _ _ I m (nth_error_In _ _ Hk)) as (rsx & d' & _ & Hit & _ & _).
        rewrite Hm2, Hi in Hit. inversion Hit as [[Ht Hd']].
        eexists. split.
        { apply spec_to_step. eapply (SS_recv P prog st r k rs t d m); eauto. lia. }
        eapply guided_other; eauto.
    + (* somebody at the same item has not posted its sends yet *)
      destruct (forallb_false_nth _ _ Hall) as (s & x & Hx & Hd).
      pose proof (Hmin s x Hx) as Hge.
      unfold doneb in Hd. apply orb_false_iff in Hd. destruct Hd as [Hd1 Hd2].
      apply Nat.ltb_ge in Hd1. assert (Hpc : pc x = pc rs) by lia.
      rewrite Hpc, Nat.eqb_refl in Hd2. simpl in Hd2.
      eapply (guided_send st s x t d); eauto. rewrite Hpc. exact Hi.
Qed.

Lemma guided_finish : forall w st, work P prog st = w -> reachable P prog st -> guided st ->
  exists st', reachable P prog st' /\ finished prog st' /\ guided st'.
Proof.
  induction w as [|w IH]; intros st Hw Hre Hg;
    pose proof (reachable_Inv P prog st (phases_ok_sep _ Hok) Hre) as I;
    destruct (forallb (fun rs => length prog <=? pc rs) (ranks st)) eqn:Hall.
  - exists st. split; [exact Hre|]. split; [|exact Hg]. intros r rs Hr.
    rewrite forallb_nth in Hall. specialize (Hall r rs Hr). apply Nat.leb_le in Hall.
    pose proof (inv_pc _ _ _ I r rs Hr). lia.
  - destruct (forallb_false_nth _ _ Hall) as (r & rs & Hr & Hlt). apply Nat.leb_gt in Hlt.
    destruct (guided_progress st Hre Hg) as (st' & Hst' & _); [exists r, rs; split; assumption|].
    rewrite (work_step _ _ _ _ Hst') in Hw. discriminate.
  - exists st. split; [exact Hre|]. split; [|exact Hg]. intros r rs Hr.
    rewrite forallb_nth in Hall. specialize (Hall r rs Hr). apply Nat.leb_le in Hall.
    pose proof (inv_pc _ _ _ I r rs Hr). lia.
  - destruct (forallb_false_nth _ _ Hall) as (r & rs & Hr & Hlt). apply Nat.leb_gt in Hlt.
    destruct (guided_progress st Hre Hg) as (st' & Hst' & Hg'); [exists r, rs; split; assumption|].
    rewrite (work_step _ _ _ _ Hst') in Hw. inversion Hw as [Hw'].
    apply (IH st' Hw'); [eapply reach_step; eauto|exact Hg'].
Qed.

Lemma trace_ok_sound_section : r0 < P ->
  exists st rs, reachable P prog st /\ finished prog st /\
                nth_error (ranks st) r0 = Some rs /\ rev (revs rs) = evs.
Proof.
  intros Hr0.
  destruct (guided_finish (work P prog (init P)) (init P) eq_refl (reach_init P prog))
    as (st & Hre & Hfin & (rs & rest & Hr & He)).
  { exists r_init, evs. split; [|reflexivity].
    unfold rank_at, init; simpl. apply nth_error_repeat. exact Hr0. }
  exists st, rs. repeat split; try assumption.
  pose proof (finished_trace_ok P prog st Hok Hre r0 rs Hr (Hfin r0 rs Hr)) as Htr.
  pose proof (trace_ok_app P r0 [] rest prog (rev (revs rs)) Htr) as Happ.
  rewrite app_nil_r, <- He, Hevs in Happ. simpl in Happ.
  destruct rest; [|discriminate]. rewrite app_nil_r in He. symmetry. exact He.
Qed.

End Guided.

(* trace_ok is exact: an accepted log of rank r is the log of r in some complete run *)
Theorem trace_ok_sound P prog r evs :
  phases_ok prog = true -> r < P -> trace_ok P prog r evs = true ->
  exists st rs, reachable P prog st /\ finished prog st /\
                nth_error (ranks st) r = Some rs /\ rev (revs rs) = evs.
Proof. intros Hok Hr He. exact (trace_ok_sound_section P prog r evs Hok He Hr). Qed.
