(* C02 (distributed, transpose product): the reverse exchange adds every rank's halo contribution
   off_proc^T x into the owners, so the result is the global A^T x — for every list of rank states whose
   package passes the reverse check of C03. *)
From Coq Require Import List Arith Lia Bool Permutation.
Import ListNotations.
From Raptor Require Import Base.Sums Sparse.Defs Sparse.ConvertProofs Sparse.SpmvProofs
     Dist.Comm Dist.CommProofs Dist.ParMat Dist.ParSpmvProofs.

Section ParSpmvT.
Variable F : Type.
Variables (zero one : F) (add mul sub : F -> F -> F) (opp : F -> F).
Variable Fth : ring_theory zero one add mul sub opp (@eq F).
Add Ring FringPT : Fth.

Notation sumF := (sumf F zero add).
Notation xat := (xat F zero).
Notation dot := (dot_row F zero add mul).
Notation denCsr := (den_csr F zero add).
Notation dflt := (mkRS 0 0 0 0 (mkCsr 0 0 []) (mkCsr 0 0 []) []).

(* column j of the global operator restricted to the rows of one rank, times that rank's x *)
Definition colT (rs : rank_state F) (x : list F) (j : nat) : F :=
  dot (fun i => gden_row F zero add rs i j) x (rs_nr rs).

Lemma run_kernel_length (k : list F -> list F -> ent F -> list F) es x b :
  (forall b e, length (k b x e) = length b) -> length (run_kernel F k es x b) = length b.
Proof.
  intros Hk. unfold run_kernel. revert b. induction es as [|e es IH]; intros b; simpl; [reflexivity|].
  rewrite IH. apply Hk.
Qed.

Lemma csr_mult_T_length (A : csr F) x : length (csr_mult_T F zero add mul A x) = csr_nc A.
Proof.
  unfold csr_mult_T, csr_spmv_append_T, coo_spmv_append_T. rewrite run_kernel_length.
  - apply (zeros_length F zero).
  - intros b e. unfold k_append_T. apply (upd_length F).
Qed.

Lemma sumF_if_single (g : nat -> F) n q : q < n ->
  sumF (map (fun p => if p =? q then g p else zero) (seq 0 n)) = g q.
Proof.
  intros Hq. rewrite (sumf_single F zero one add mul sub opp Fth n q _ Hq).
  - rewrite Nat.eqb_refl. reflexivity.
  - intros i _ Hne. replace (i =? q) with false by (symmetry; apply Nat.eqb_neq; exact Hne). reflexivity.
Qed.

Lemma wires_one_rank (h : nat * nat -> F) j p (cm : list nat) : forall t,
  sumF (map h (flat_map (fun jc => if snd jc =? j then [(p, fst jc)] else []) (combine (seq t (length cm)) cm)))
  = sumF (map (fun kc => if snd kc =? j then h (p, fst kc) else zero) (indexed_from t cm)).
Proof.
  induction cm as [|c cm IHc]; intros t; simpl; [reflexivity|].
  destruct (c =? j); simpl; rewrite IHc; ring.
Qed.

Lemma sum_expected_wires (colmaps : list (list nat)) (h : nat * nat -> F) j :
  sumF (map h (expected_wires colmaps j))
  = sumF (map (fun p => sumF (map (fun kc => if snd kc =? j then h (p, fst kc) else zero)
                                      (indexed (nth p colmaps []))))
              (seq 0 (length colmaps))).
Proof.
  unfold expected_wires.
  assert (G : forall s l,
    sumF (map h (flat_map (fun pc => flat_map (fun jc => if snd jc =? j then [(fst pc, fst jc)] else [])
                                 (combine (seq 0 (length (snd pc))) (snd pc)))
                          (combine (seq s (length l)) l)))
    = sumF (map (fun p => sumF (map (fun kc => if snd kc =? j then h (p, fst kc) else zero)
                                    (indexed (nth (p - s) l []))))
                (seq s (length l)))).
  { intros s l. revert s. induction l as [|cm l IH]; intros s; simpl; [reflexivity|].
    rewrite map_app, (sumf_app F zero one add mul sub opp Fth), IH. f_equal.
    - replace (s - s) with 0 by lia. cbn [fst snd nth]. unfold indexed. apply wires_one_rank.
    - apply (sumf_map_ext F zero add). intros p Hp. apply in_seq in Hp.
      replace (p - s) with (S (p - S s)) by lia. reflexivity. }
  rewrite (G 0 colmaps). apply (sumf_map_ext F zero add). intros p _. rewrite Nat.sub_0_r. reflexivity.
Qed.

Theorem par_mult_T_global (w : world) (st : list (rank_state F)) (xs bprev : list (list F)) (N q lc : nat) :
  let colmaps := map (fun rs => rs_colmap rs) st in
  let ids := map (fun rs => seq (rs_fc rs) (rs_nc rs)) st in
  rev_ok w ids colmaps = true -> length w = length st -> q < length st ->
  (forall p, p < length st -> rs_wf F N (nth p st dflt)) ->
  (forall p, p < length st -> length (nth p xs []) = rs_nr (nth p st dflt)) ->
  length (nth q bprev []) = rs_nc (nth q st dflt) ->
  lc < rs_nc (nth q st dflt) ->
  (* contiguous column blocks are disjoint *)
  (forall p, p < length st -> p <> q ->
     ~ (rs_fc (nth p st dflt) <= rs_fc (nth q st dflt) + lc < rs_fc (nth p st dflt) + rs_nc (nth p st dflt))) ->
  xat (nth q (par_mult_T F zero add mul w st xs bprev) []) lc
  = sumF (map (fun p => colT (nth p st dflt) (nth p xs []) (rs_fc (nth q st dflt) + lc)) (seq 0 (length st))).
Proof.
  intros colmaps ids Hok Hlen Hq Hwf Hxs Hbp Hlc Hdisj.
  set (j := rs_fc (nth q st dflt) + lc).
  unfold par_mult_T. rewrite nth_map_seq by exact Hq.
  set (halos := map (fun p => par_mult_T_halo F zero add mul (nth p st dflt) (nth p xs [])) (seq 0 (length st))).
  set (init := par_mult_T_local F zero add mul (nth q st dflt) (nth q xs []) (nth q bprev [])).
  assert (Hinit_len : length init = rs_nc (nth q st dflt)).
  { unfold init, par_mult_T_local. destruct (Hwf q Hq) as [_ [_ [Hnc _]]].
    destruct (rs_nr (nth q st dflt) =? 0); [rewrite map_length; exact Hbp|rewrite csr_mult_T_length; exact Hnc]. }
  assert (Hidq : nth q ids [] = seq (rs_fc (nth q st dflt)) (rs_nc (nth q st dflt))).
  { unfold ids. change (@nil nat) with (seq (rs_fc (F:=F) dflt) (rs_nc (F:=F) dflt)).
    rewrite (map_nth (fun rs : rank_state F => seq (rs_fc rs) (rs_nc rs))). reflexivity. }
  assert (Hhal_len : map (@length F) halos = map (@length nat) colmaps).
  { unfold halos, colmaps. rewrite !map_map.
    rewrite <- (map_nth_seq st dflt) at 2. rewrite map_map. apply map_ext_in. intros p Hp. apply in_seq in Hp.
    unfold par_mult_T_halo. rewrite csr_mult_T_length. destruct (Hwf p ltac:(lia)) as [_ [_ [_ [_ [_ [Hc _]]]]]]. exact Hc. }
  unfold Defs.xat.
  rewrite (reverse_sum_spec F zero one add mul sub opp Fth w ids colmaps halos init q lc Hok
             ltac:(rewrite Hlen; exact Hq) Hhal_len ltac:(rewrite Hidq, seq_length; exact Hinit_len)
             ltac:(rewrite Hinit_len; exact Hlc)).
  rewrite Hidq, seq_nth by exact Hlc. fold j.
  (* right-hand side: split gden_row into its on-process and off-process parts *)
  unfold colT, gden_row.
  rewrite (sumf_map_ext F zero add _ (fun p =>
     add (dot (fun i => if (rs_fc (nth p st dflt) <=? j) && (j <? rs_fc (nth p st dflt) + rs_nc (nth p st dflt))
                        then denCsr (rs_on (nth p st dflt)) i (j - rs_fc (nth p st dflt)) else zero)
              (nth p xs []) (rs_nr (nth p st dflt)))
         (dot (fun i => sumF (map (fun kc => if snd kc =? j then denCsr (rs_off (nth p st dflt)) i (fst kc) else zero)
                                  (indexed (rs_colmap (nth p st dflt)))))
              (nth p xs []) (rs_nr (nth p st dflt))))) by (intros p _; apply (dot_add F zero one add mul sub opp Fth)).
  rewrite (sumf_map_add F zero one add mul sub opp Fth). f_equal.
  - (* only the owner q contributes through its on-process block *)
    rewrite (sumf_map_ext F zero add _ (fun p => if p =? q then
        dot (fun i => denCsr (rs_on (nth q st dflt)) i lc) (nth q xs []) (rs_nr (nth q st dflt)) else zero)).
    + rewrite sumF_if_single by exact Hq.
      unfold init, par_mult_T_local. destruct (Hwf q Hq) as [Hon [Hnr [Hnc _]]].
      destruct (rs_nr (nth q st dflt) =? 0) eqn:E.
      * apply Nat.eqb_eq in E. rewrite E. unfold dot_row. simpl.
        generalize (nth q bprev []). intros l. clear. revert lc. induction l as [|a l IH]; intros [|n]; simpl; auto.
      * change (nth lc (csr_mult_T F zero add mul (rs_on (nth q st dflt)) (nth q xs [])) zero)
          with (xat (csr_mult_T F zero add mul (rs_on (nth q st dflt)) (nth q xs [])) lc).
        rewrite (csr_mult_T_spec F zero one add mul sub opp Fth) by exact Hon. rewrite Hnr. reflexivity.
    + intros p Hp. apply in_seq in Hp. destruct (Nat.eq_dec p q) as [->|Hne].
      * rewrite Nat.eqb_refl. apply dot_row_ext. intros i.
        unfold j. replace (rs_fc (nth q st dflt) <=? rs_fc (nth q st dflt) + lc) with true by (symmetry; apply Nat.leb_le; lia).
        replace (rs_fc (nth q st dflt) + lc <? rs_fc (nth q st dflt) + rs_nc (nth q st dflt)) with true by (symmetry; apply Nat.ltb_lt; lia).
        simpl. f_equal. lia.
      * replace (p =? q) with false by (symmetry; apply Nat.eqb_neq; exact Hne).
        transitivity (dot (fun _ => zero) (nth p xs []) (rs_nr (nth p st dflt)));
          [|apply (dot_zero F zero one add mul sub opp Fth)].
        apply dot_row_ext. intros i.
        destruct (rs_fc (nth p st dflt) <=? j) eqn:E1; destruct (j <? rs_fc (nth p st dflt) + rs_nc (nth p st dflt)) eqn:E2;
          simpl; try reflexivity.
        exfalso. apply Nat.leb_le in E1. apply Nat.ltb_lt in E2. apply (Hdisj p ltac:(lia) Hne). unfold j in *. lia.
  - (* halo contributions: swap the sums over rows and slots *)
    rewrite sum_expected_wires. unfold colmaps. rewrite map_length.
    apply (sumf_map_ext F zero add). intros p Hp. apply in_seq in Hp.
    change (@nil nat) with (rs_colmap (F:=F) dflt). rewrite (map_nth (fun rs : rank_state F => rs_colmap rs)).
    unfold dot_row.
    rewrite (sumf_map_ext F zero add _ (fun i => sumF (map (fun kc =>
        mul (if snd kc =? j then denCsr (rs_off (nth p st dflt)) i (fst kc) else zero) (xat (nth p xs []) i))
        (indexed (rs_colmap (nth p st dflt)))))) by (intros i _; symmetry; apply (sumf_map_mul_r F zero one add mul sub opp Fth)).
    rewrite (sumf_swap F zero one add mul sub opp Fth).
    apply (sumf_map_ext F zero add). intros [k c] Hkc. cbn [fst snd].
    destruct (c =? j) eqn:E.
    + unfold val. cbn [fst snd]. unfold halos. rewrite nth_map_seq by lia.
      unfold par_mult_T_halo.
      change (nth k (csr_mult_T F zero add mul (rs_off (nth p st dflt)) (nth p xs [])) zero)
        with (xat (csr_mult_T F zero add mul (rs_off (nth p st dflt)) (nth p xs [])) k).
      destruct (Hwf p ltac:(lia)) as [_ [_ [_ [Hoff [Hnr' _]]]]].
      rewrite (csr_mult_T_spec F zero one add mul sub opp Fth) by exact Hoff. rewrite Hnr'. reflexivity.
    + symmetry. apply (sumF_zero F zero one add mul sub opp Fth). intros i _. ring.
Qed.

End ParSpmvT.
