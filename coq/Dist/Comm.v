(* Model of raptor's standard communication package (core/comm_pkg.hpp ParComm, core/comm_data.hpp)
   as data + pure exchange functions over the list of all ranks.  MPI is not modelled: the forward
   exchange is "what rank q packs for p is what p unpacks from q"; message matching is by (source, tag)
   with one message per ordered pair, which `pairs_ok` checks. *)
From Coq Require Import List Arith Lia Bool.
Import ListNotations.

(* one rank's package: receive side = (source, count) in buffer order (ContigData: contiguous layout);
   send side = (destination, local indices) in send-buffer order (NonContigData) *)
Record pkg := mkPkg { recv_msgs : list (nat * nat); send_msgs : list (nat * list nat) }.
Definition world := list pkg.
Definition nopkg := mkPkg [] [].
Definition pk (w : world) (p : nat) : pkg := nth p w nopkg.

Fixpoint find_send (p : nat) (ms : list (nat * list nat)) : list nat :=
  match ms with
  | [] => []
  | m :: ms' => if fst m =? p then snd m else find_send p ms'
  end.

(* offset and count of the (first) receive message from q *)
Fixpoint find_recv (q : nat) (off : nat) (ms : list (nat * nat)) : option (nat * nat) :=
  match ms with
  | [] => None
  | m :: ms' => if fst m =? q then Some (off, snd m) else find_recv q (off + snd m) ms'
  end.

Section Payload.
Variable A : Type.
Variable d : A.

Definition pack (x : list A) (idxs : list nat) : list A := map (fun i => nth i x d) idxs.
(* NonContigData::send : q's message for p *)
Definition msg_fwd (w : world) (xs : list (list A)) (q p : nat) : list A :=
  pack (nth q xs []) (find_send p (send_msgs (pk w q))).
(* an Irecv of `n` items posted at a fixed offset: a shorter message leaves the tail, modelled as d *)
Definition fit (n : nat) (l : list A) : list A := firstn n (l ++ repeat d n).
(* CommPkg::communicate : the receive buffer of rank p *)
Definition forward (w : world) (xs : list (list A)) (p : nat) : list A :=
  flat_map (fun m => fit (snd m) (msg_fwd w xs (fst m) p)) (recv_msgs (pk w p)).

(* transpose exchange: p sends the segment of its buffer that belongs to q back to q *)
Definition seg (w : world) (ys : list (list A)) (p q : nat) : list A :=
  match find_recv q 0 (recv_msgs (pk w p)) with
  | Some (off, cnt) => firstn cnt (skipn off (nth p ys []))
  | None => []
  end.

Section Reduce.
Variable B : Type.
Variable f : B -> A -> B.      (* result_func *)

Fixpoint upd_with (g : B -> B) (i : nat) (l : list B) : list B :=
  match l, i with
  | [], _ => []
  | b :: l', O => g b :: l'
  | b :: l', S i' => b :: upd_with g i' l'
  end.

(* complete_T : result[indices[i]] = f(result[indices[i]], sendbuf[i]) in send-buffer order *)
Definition apply_msg (res : list B) (idxs : list nat) (vals : list A) : list B :=
  fold_left (fun r iv => upd_with (fun b => f b (snd iv)) (fst iv) r) (combine idxs vals) res.
Definition reverse (w : world) (ys : list (list A)) (init : list B) (q : nat) : list B :=
  fold_left (fun res m => apply_msg res (snd m) (seg w ys (fst m) q)) (send_msgs (pk w q)) init.
End Reduce.
End Payload.

Arguments pack {A}. Arguments msg_fwd {A}. Arguments fit {A}. Arguments forward {A}.
Arguments seg {A}. Arguments upd_with {B}. Arguments apply_msg {A B}. Arguments reverse {A B}.

(* ---------- decidable well-formedness of a dumped / constructed world ---------- *)
Definition nat_list_eqb (a b : list nat) : bool :=
  (length a =? length b) && forallb (fun xy => fst xy =? snd xy) (combine a b).
Definition pair_eqb (a b : nat * nat) : bool := (fst a =? fst b) && (snd a =? snd b).
Definition mem_pair (a : nat * nat) (l : list (nat * nat)) : bool := existsb (pair_eqb a) l.
Fixpoint nodup_pairs (l : list (nat * nat)) : bool :=
  match l with [] => true | a :: l' => negb (mem_pair a l') && nodup_pairs l' end.
Definition subset_pairs (a b : list (nat * nat)) : bool := forallb (fun x => mem_pair x b) a.

(* (source, destination) pairs as seen by receivers and by senders *)
Definition recv_pairs (w : world) : list (nat * nat) :=
  flat_map (fun p => map (fun m => (fst m, p)) (recv_msgs (pk w p))) (seq 0 (length w)).
Definition send_pairs (w : world) : list (nat * nat) :=
  flat_map (fun q => map (fun m => (q, fst m)) (send_msgs (pk w q))) (seq 0 (length w)).

(* every message sent is expected by its destination with the same size, and conversely;
   one message per ordered pair; send indices within the sender's local vector *)
Definition sizes_ok (w : world) : bool :=
  forallb (fun p => forallb (fun m => length (find_send p (send_msgs (pk w (fst m)))) =? snd m)
                            (recv_msgs (pk w p))) (seq 0 (length w)).
Definition in_range (w : world) (lens : list nat) : bool :=
  forallb (fun q => forallb (fun m => forallb (fun i => i <? nth q lens 0) (snd m)) (send_msgs (pk w q)))
          (seq 0 (length w)).
Definition pairs_ok (w : world) : bool :=
  nodup_pairs (recv_pairs w) && nodup_pairs (send_pairs w) &&
  subset_pairs (recv_pairs w) (send_pairs w) && subset_pairs (send_pairs w) (recv_pairs w) &&
  forallb (fun qp => (fst qp <? length w) && (snd qp <? length w)) (send_pairs w).

(* THE forward check: exchanging the vector of global ids reproduces every rank's column map.
   `ids` = per rank, the global id of each local entry; `big` = a number larger than every id
   (the filler for short messages, so that a short message cannot pass). *)
Definition fwd_ok (w : world) (ids colmaps : list (list nat)) (big : nat) : bool :=
  forallb (fun p => nat_list_eqb (forward big w ids p) (nth p colmaps [])) (seq 0 (length w)).

(* symbolic transpose exchange: slot j of rank p carries the token (p, j); reduction = append *)
Definition sym_ys (lens : list nat) : list (list (nat * nat)) :=
  map (fun pl => map (fun j => (fst pl, j)) (seq 0 (snd pl))) (combine (seq 0 (length lens)) lens).
Definition snoc {X} (l : list X) (a : X) : list X := l ++ [a].
Definition reverse_sym (w : world) (buflens : list nat) (n : nat) (q : nat) : list (list (nat * nat)) :=
  reverse snoc w (sym_ys buflens) (repeat [] n) q.

(* expected contributions to local entry i of rank q: all (p, j) with colmap_p[j] = ids_q[i] *)
Definition expected_wires (colmaps : list (list nat)) (g : nat) : list (nat * nat) :=
  flat_map (fun pc => flat_map (fun jc => if snd jc =? g then [(fst pc, fst jc)] else [])
                               (combine (seq 0 (length (snd pc))) (snd pc)))
           (combine (seq 0 (length colmaps)) colmaps).
Definition same_pairs (a b : list (nat * nat)) : bool :=
  nodup_pairs a && nodup_pairs b && subset_pairs a b && subset_pairs b a.
Definition rev_ok (w : world) (ids colmaps : list (list nat)) : bool :=
  forallb (fun q =>
    let r := reverse_sym w (map (@length nat) colmaps) (length (nth q ids [])) q in
    (length r =? length (nth q ids [])) &&
    forallb (fun iw => same_pairs (snd iw) (expected_wires colmaps (nth (fst iw) (nth q ids []) 0)))
            (combine (seq 0 (length r)) r)) (seq 0 (length w)).

(* ---------- construction: ParComm(partition, off_proc_column_map) as a pure function ---------- *)
(* owner lookup on a monotone first_cols (C18 proves the library's lookup equal to this) *)
Fixpoint owner_from (fc : list nat) (r : nat) (c : nat) : nat :=
  match fc with
  | lo :: ((hi :: _) as tl) => if (lo <=? c) && (c <? hi) then r else owner_from tl (S r) c
  | _ => r
  end.
Definition owner (first_cols : list nat) (c : nat) : nat := owner_from first_cols 0 c.

(* run-length grouping of the (sorted) column map by owner: (owner, columns) *)
Fixpoint group_by_owner (fc : list nat) (cols : list nat) : list (nat * list nat) :=
  match cols with
  | [] => []
  | c :: cols' =>
    match group_by_owner fc cols' with
    | (o, cs) :: rest => if o =? owner fc c then (o, c :: cs) :: rest else (owner fc c, [c]) :: (o, cs) :: rest
    | [] => [(owner fc c, [c])]
    end
  end.

(* requests addressed to q, as (requester, global columns), in rank order *)
Definition requests_to (fc : list nat) (colmaps : list (list nat)) (q : nat) : list (nat * list nat) :=
  flat_map (fun pc => flat_map (fun g => if fst g =? q then [(fst pc, snd g)] else [])
                               (group_by_owner fc (snd pc)))
           (combine (seq 0 (length colmaps)) colmaps).

(* arrival order of the any-source probes at q: a reordering function (any permutation) *)
Definition build_pkg (fc : list nat) (colmaps : list (list nat))
           (sigma : nat -> list (nat * list nat) -> list (nat * list nat)) (q : nat) : pkg :=
  mkPkg (map (fun g => (fst g, length (snd g))) (group_by_owner fc (nth q colmaps [])))
        (map (fun r => (fst r, map (fun c => c - nth q fc 0) (snd r))) (sigma q (requests_to fc colmaps q))).
Definition build_world fc colmaps sigma : world :=
  map (build_pkg fc colmaps sigma) (seq 0 (length colmaps)).
