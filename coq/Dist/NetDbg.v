(* C05 - proofs about the network machine of Dist/Net.v: phase separation, deadlock freedom, termination. *)
From Coq Require Import List Arith Bool Lia Permutation.
From Raptor Require Import Dist.Net.
Import ListNotations.

(* ================= generic list / counting lemmas ================= *)

Lemma length_upd {A} (l : list A) k x : length (upd l k x) = length l.
Proof. revert k; induction l as [|y l IH]; intros [|k]; simpl; auto. Qed.

Lemma nth_error_upd {A} (l : list A) k x y q :
  nth_error l k = Some y ->
  nth_error (upd l k x) q = if q =? k then Some x else nth_error l q.
Proof.
  revert k q; induction l as [|z l IH]; intros [|k] [|q] H; simpl in *; try discriminate; auto.
Qed.

Lemma nth_error_upd_same {A} (l : list A) k x y :
  nth_error l k = Some y -> nth_error (upd l k x) k = Some x.
Proof. intros H. rewrite (nth_error_upd _ _ _ _ _ H), Nat.eqb_refl. reflexivity. Qed.

Lemma nth_error_upd_other {A} (l : list A) k x y q :
  nth_error l k = Some y -> q <> k -> nth_error (upd l k x) q = nth_error l q.
Proof.
  intros H N. rewrite (nth_error_upd _ _ _ _ _ H).
  destruct (q =? k) eqn:E; [apply Nat.eqb_eq in E; contradiction | reflexivity].
Qed.

Lemma In_remove_nth {A} k (l : list A) x : In x (remove_nth k l) -> In x l.
Proof.
  revert k; induction l as [|y l IH]; intros [|k] H; simpl in *; auto.
  destruct H as [H|H]; auto. right; eapply IH; eauto.
Qed.

Lemma countb_nil {A} (p : A -> bool) : countb p [] = 0.
Proof. reflexivity. Qed.

Lemma countb_cons {A} (p : A -> bool) x l :
  countb p (x :: l) = (if p x then 1 else 0) + countb p l.
Proof. unfold countb; simpl. destruct (p x); reflexivity. Qed.

Lemma countb_app {A} (p : A -> bool) l1 l2 : countb p (l1 ++ l2) = countb p l1 + countb p l2.
Proof. unfold countb. rewrite filter_app, app_length. reflexivity. Qed.

Lemma countb_remove_nth {A} (p : A -> bool) k l m :
  nth_error l k = Some m ->
  countb p l = countb p (remove_nth k l) + (if p m then 1 else 0).
Proof.
  revert k; induction l as [|y l IH]; intros [|k] H; simpl in *; try discriminate.
  - inversion H; subst. rewrite countb_cons. lia.
  - rewrite !countb_cons, (IH _ H). lia.
Qed.

Lemma countb_ext_in {A} (p q : A -> bool) l :
  (forall x, In x l -> p x = q x) -> countb p l = countb q l.
Proof.
  induction l as [|y l IH]; intros H; [reflexivity|].
  rewrite !countb_cons, IH, (H y) by (intros; try apply H; simpl; auto). reflexivity.
Qed.

Lemma countb_le {A} (p q : A -> bool) l :
  (forall x, In x l -> p x = true -> q x = true) -> countb p l <= countb q l.
Proof.
  induction l as [|y l IH]; intros H; [apply Nat.le_refl|].
  rewrite !countb_cons.
  assert (IH' : countb p l <= countb q l) by (apply IH; intros; apply H; simpl; auto).
  destruct (p y) eqn:E; [rewrite (H y (or_introl eq_refl) E)|destruct (q y)]; lia.
Qed.

Lemma countb_zero {A} (p : A -> bool) l :
  (forall x, In x l -> p x = false) -> countb p l = 0.
Proof.
  induction l as [|y l IH]; intros H; [reflexivity|].
  rewrite countb_cons, IH, (H y) by (intros; try apply H; simpl; auto). reflexivity.
Qed.

Lemma countb_pos_in {A} (p : A -> bool) l x : In x l -> p x = true -> 1 <= countb p l.
Proof.
  induction l as [|y l IH]; intros HI Hp; [destruct HI|].
  rewrite countb_cons. destruct HI as [->|HI]; [rewrite Hp; lia|].
  specialize (IH HI Hp). lia.
Qed.

Lemma countb_pos_ex {A} (p : A -> bool) l :
  0 < countb p l -> exists k m, nth_error l k = Some m /\ p m = true.
Proof.
  induction l as [|y l IH]; intros H; [inversion H|].
  rewrite countb_cons in H. destruct (p y) eqn:E.
  - exists 0, y; split; [reflexivity|exact E].
  - destruct (IH H) as (k & m & Hk & Hm). exists (S k), m; split; assumption.
Qed.

(* sums *)
Lemma sumn_ext n g h : (forall s, s < n -> g s = h s) -> sumn n g = sumn n h.
Proof.
  induction n as [|n IH]; intros H; simpl; [reflexivity|].
  rewrite IH, (H n) by (intros; try apply H; lia). reflexivity.
Qed.

Lemma sumn_le n g h : (forall s, s < n -> g s <= h s) -> sumn n g <= sumn n h.
Proof.
  induction n as [|n IH]; intros H; simpl; [lia|].
  assert (sumn n g <= sumn n h) by (apply IH; intros; apply H; lia).
  specialize (H n). lia.
Qed.

Lemma sumn_zero n g : (forall s, s < n -> g s = 0) -> sumn n g = 0.
Proof.
  induction n as [|n IH]; intros H; simpl; [reflexivity|].
  rewrite IH, (H n) by (intros; try apply H; lia). reflexivity.
Qed.

Lemma sumn_le_eq n g h :
  (forall s, s < n -> g s <= h s) -> sumn n g = sumn n h -> forall s, s < n -> g s = h s.
Proof.
  induction n as [|n IH]; intros Hle Heq s Hs; [lia|].
  simpl in Heq.
  assert (H1 : sumn n g <= sumn n h) by (apply sumn_le; intros; apply Hle; lia).
  assert (H2 : g n <= h n) by (apply Hle; lia).
  destruct (Nat.eq_dec s n) as [->|N]; [lia|].
  apply IH; [intros; apply Hle; lia | lia | lia].
Qed.

(* changing one term *)
Lemma sumn_change_one n g h s0 :
  (forall s, s <> s0 -> g s = h s) -> s0 < n -> sumn n h + g s0 = sumn n g + h s0.
Proof.
  induction n as [|n IH]; intros H Hs; [lia|]. simpl.
  destruct (Nat.eq_dec s0 n) as [->|N].
  - rewrite (sumn_ext n g h) by (intros; apply H; lia). lia.
  - rewrite <- (H n) by auto. specialize (IH H). lia.
Qed.

Lemma sumn_single n s0 (c : nat -> nat) :
  sumn n (fun s => if s =? s0 then c s else 0) = if s0 <? n then c s0 else 0.
Proof.
  induction n as [|n IH]; simpl; [reflexivity|]. rewrite IH.
  destruct (Nat.eqb_spec n s0) as [E1|E1];
    destruct (Nat.ltb_spec s0 n) as [E2|E2]; destruct (Nat.ltb_spec s0 (S n)) as [E3|E3];
    subst; lia.
Qed.

Lemma cnt_nil r : cnt r [] = 0.
Proof. reflexivity. Qed.

Lemma cnt_In r l : In r l <-> 0 < cnt r l.
Proof. unfold cnt. apply count_occ_In. Qed.

(* ================= the static discipline ================= *)

Lemma phases_ok_aux_spec prog : forall seen, phases_ok_aux seen prog = true ->
  (forall j t d, nth_error prog j = Some (Phase t d) -> In t seen ->
     exists k, k < j /\ nth_error prog k = Some Barrier) /\
  (forall i j t d d', i < j ->
     nth_error prog i = Some (Phase t d) -> nth_error prog j = Some (Phase t d') ->
     exists k, i < k /\ k < j /\ nth_error prog k = Some Barrier).
Proof.
  induction prog as [|it p IH]; intros seen H.
  - split; intros; destruct j; discriminate.
  - destruct it as [|t0 d0]; simpl in H.
    + destruct (IH _ H) as [IH1 IH2]. split.
      * intros [|j] t d Hj Hin; simpl in Hj; [discriminate|].
        exists 0; split; [lia|reflexivity].
      * intros [|i] [|j] t d d' Hij Hi Hj; simpl in Hi, Hj; try discriminate; try lia.
        destruct (IH2 i j t d d') as (k & K1 & K2 & K3); [lia|assumption|assumption|].
        exists (S k); repeat split; try lia; exact K3.
    + apply andb_true_iff in H. destruct H as [Hn H].
      destruct (IH _ H) as [IH1 IH2]. split.
      * intros [|j] t d Hj Hin; simpl in Hj.
        { inversion Hj; subst. exfalso.
          apply negb_true_iff in Hn.
          assert (E : existsb (Nat.eqb t) seen = true).
          { apply existsb_exists. exists t; split; [exact Hin|apply Nat.eqb_refl]. }
          congruence. }
        destruct (IH1 j t d Hj) as (k & K1 & K2); [right; exact Hin|].
        exists (S k); split; [lia|exact K2].
      * intros [|i] [|j] t d d' Hij Hi Hj; simpl in Hi, Hj; try lia.
        { inversion Hi; subst.
          destruct (IH1 j t d' Hj) as (k & K1 & K2); [left; reflexivity|].
          exists (S k); repeat split; try lia; exact K2. }
        destruct (IH2 i j t d d') as (k & K1 & K2 & K3); [lia|assumption|assumption|].
        exists (S k); repeat split; try lia; exact K3.
Qed.

Lemma phases_ok_sep prog : phases_ok prog = true -> phases_sep prog.
Proof. intros H. exact (proj2 (phases_ok_aux_spec prog [] H)). Qed.

(* ================= the step relation, by cases ================= *)

Definition rank_at (st : state) (r : nat) (rs : rstate) : Prop := nth_error (ranks st) r = Some rs.

Inductive step_spec (P : nat) (prog : program) (st : state) : state -> Prop :=
| SS_send r rs t d :
    rank_at st r rs -> nth_error prog (pc rs) = Some (Phase t d) -> sent rs = false ->
    step_spec P prog st
      (mkS (upd (ranks st) r (mkR (pc rs) true (nrecv rs) (rlog rs) (rev (send_events t (d r)) ++ revs rs)))
           (net st ++ send_msgs r t (pc rs) (d r)))
| SS_recv r k rs t d m :
    rank_at st r rs -> nth_error prog (pc rs) = Some (Phase t d) -> sent rs = true ->
    nrecv rs < expected P d r -> nth_error (net st) k = Some m -> m_dst m = r -> m_tag m = t ->
    step_spec P prog st
      (mkS (upd (ranks st) r (mkR (pc rs) true (S (nrecv rs)) ((pc rs, m) :: rlog rs)
                                  (EvRecvAny (m_src m) t :: revs rs)))
           (remove_nth k (net st)))
| SS_adv r rs t d :
    rank_at st r rs -> nth_error prog (pc rs) = Some (Phase t d) -> sent rs = true ->
    nrecv rs = expected P d r ->
    step_spec P prog st (mkS (upd (ranks st) r (mkR (S (pc rs)) false 0 (rlog rs) (revs rs))) (net st))
| SS_bar r rs :
    rank_at st r rs -> nth_error prog (pc rs) = Some Barrier ->
    (forall q rq, rank_at st q rq -> pc rs <= pc rq) ->
    step_spec P prog st
      (mkS (upd (ranks st) r (mkR (S (pc rs)) false 0 (rlog rs) (EvBarrier :: revs rs))) (net st)).

Lemma forallb_nth {A} (p : A -> bool) l :
  forallb p l = true <-> (forall k x, nth_error l k = Some x -> p x = true).
Proof.
  rewrite forallb_forall. split.
  - intros H k x Hk. apply H. eapply nth_error_In; eauto.
  - intros H x Hx. destruct (In_nth_error _ _ Hx) as [k Hk]. eauto.
Qed.

Lemma step_to_spec P prog st st' : step P prog st st' -> step_spec P prog st st'.
Proof.
  intros [a H]. destruct a as [r|r k|r|r]; simpl in H;
    destruct (nth_error (ranks st) r) as [rs|] eqn:Hr; try discriminate;
    destruct (nth_error prog (pc rs)) as [[|t d]|] eqn:Hi; try discriminate.
  - destruct (sent rs) eqn:Hs; [discriminate|]. inversion H; subst. apply SS_send; assumption.
  - destruct (sent rs) eqn:Hs; simpl in H; [|discriminate].
    destruct (Nat.ltb_spec (nrecv rs) (expected P d r)) as [Hn|Hn]; [|discriminate].
    destruct (nth_error (net st) k) as [m|] eqn:Hk; [|discriminate].
    destruct (Nat.eqb_spec (m_dst m) r) as [Hd|Hd]; simpl in H; [|discriminate].
    destruct (Nat.eqb_spec (m_tag m) t) as [Ht|Ht]; [|discriminate].
    inversion H; subst. eapply SS_recv; eauto.
  - destruct (sent rs) eqn:Hs; simpl in H; [|discriminate].
    destruct (Nat.eqb_spec (nrecv rs) (expected P d r)) as [Hn|Hn]; [|discriminate].
    inversion H; subst. eapply SS_adv; eauto.
  - destruct (forallb (fun q => pc rs <=? pc q) (ranks st)) eqn:Hf; [|discriminate].
    inversion H; subst. apply SS_bar; try assumption.
    intros q rq Hq. rewrite forallb_nth in Hf. apply Nat.leb_le. eapply Hf; exact Hq.
Qed.

Lemma spec_to_step P prog st st' : step_spec P prog st st' -> step P prog st st'.
Proof.
  intros H. destruct H as [r rs t d Hr Hi Hs | r k rs t d m Hr Hi Hs Hn Hk Hd Ht | r rs t d Hr Hi Hs Hn | r rs Hr Hi Hall];
    unfold rank_at in Hr.
  - exists (ASend r). simpl. rewrite Hr, Hi, Hs. reflexivity.
  - exists (ARecv r k). simpl. rewrite Hr, Hi, Hs, Hk. simpl.
    apply Nat.ltb_lt in Hn. rewrite Hn. rewrite Hd, Ht, !Nat.eqb_refl. simpl. subst. reflexivity.
  - exists (AAdv r). simpl. rewrite Hr, Hi, Hs. simpl. apply Nat.eqb_eq in Hn. rewrite Hn. reflexivity.
  - exists (ABar r). simpl. rewrite Hr, Hi.
    assert (Hf : forallb (fun q => pc rs <=? pc q) (ranks st) = true).
    { apply forallb_nth. intros q rq Hq. apply Nat.leb_le. eapply Hall; exact Hq. }
    rewrite Hf. reflexivity.
Qed.

(* ================= the invariant ================= *)

(* rank state rs has posted the sends of item j *)
Definition doneb (rs : rstate) (j : nat) : bool := (j <? pc rs) || ((pc rs =? j) && sent rs).

Definition done_at (st : state) (s j : nat) : bool :=
  match nth_error (ranks st) s with Some rs => doneb rs j | None => false end.

Definition dests_at (prog : program) (j : nat) : nat -> list nat :=
  match nth_error prog j with Some (Phase _ d) => d | _ => fun _ => [] end.

(* messages in flight to r sent by item j (from sources selected by f) *)
Definition inflight (st : state) (f : nat -> bool) (r j : nat) : nat :=
  countb (fun m => f (m_src m) && (m_dst m =? r) && (m_item m =? j)) (net st).

(* messages sent by item j (from sources selected by f) that the rank has received *)
Definition logged (rs : rstate) (f : nat -> bool) (j : nat) : nat :=
  countb (fun e : nat * msg => f (m_src (snd e)) && (m_item (snd e) =? j)) (rlog rs).

Definition sterm (prog : program) (f : nat -> bool) (r j s : nat) (dn : bool) : nat :=
  if f s && dn then cnt r (dests_at prog j s) else 0.

(* messages to r already posted by item j *)
Definition sentcount (P : nat) (prog : program) (st : state) (f : nat -> bool) (r j : nat) : nat :=
  sumn P (fun s => sterm prog f r j s (done_at st s j)).

Definition ftrue : nat -> bool := fun _ => true.
Arguments ftrue _ : simpl never.

Record Inv (P : nat) (prog : program) (st : state) : Prop := {
  inv_len : length (ranks st) = P;
  inv_pc : forall r rs, rank_at st r rs -> pc rs <= length prog;
  (* nobody has left barrier k unless everybody has reached it *)
  inv_bar : forall q r rq rr k, rank_at st q rq -> rank_at st r rr ->
      nth_error prog k = Some Barrier -> k < pc rq -> k <= pc rr;
  inv_msg : forall m, In m (net st) ->
      exists rs d, rank_at st (m_src m) rs /\ nth_error prog (m_item m) = Some (Phase (m_tag m) d) /\
                   m_item m <= pc rs /\ In (m_dst m) (d (m_src m));
  (* conservation of messages, per destination, sending item and set of sources *)
  inv_cons : forall f r rs j, rank_at st r rs ->
      inflight st f r j + logged rs f j = sentcount P prog st f r j;
  inv_log : forall r rs j m, rank_at st r rs -> In (j, m) (rlog rs) ->
      m_item m = j /\ m_dst m = r /\ j <= pc rs /\ exists d, nth_error prog j = Some (Phase (m_tag m) d);
  inv_past : forall r rs j, rank_at st r rs -> j < pc rs ->
      logged rs ftrue j = expected P (dests_at prog j) r;
  inv_cur : forall r rs, rank_at st r rs ->
      logged rs ftrue (pc rs) = nrecv rs /\ nrecv rs <= expected P (dests_at prog (pc rs)) r
}.

Lemma rank_at_lt P prog st r rs : Inv P prog st -> rank_at st r rs -> r < P.
Proof.
  intros I H. rewrite <- (inv_len _ _ _ I). apply nth_error_Some. unfold rank_at in H. congruence.
Qed.

Lemma sentcount_le P prog st f r j : sentcount P prog st f r j <= expected P (dests_at prog j) r.
Proof.
  unfold sentcount, expected. apply sumn_le. intros s _. unfold sterm.
  destruct (f s && done_at st s j); lia.
Qed.

Lemma dests_at_phase prog j t d : nth_error prog j = Some (Phase t d) -> dests_at prog j = d.
Proof. unfold dests_at. intros ->. reflexivity. Qed.

Lemma dests_at_barrier prog j : nth_error prog j = Some Barrier -> dests_at prog j = fun _ => [].
Proof. unfold dests_at. intros ->. reflexivity. Qed.

Lemma expected_nil P r : expected P (fun _ => []) r = 0.
Proof. unfold expected. apply sumn_zero. intros; apply cnt_nil. Qed.

(* ---- T1 core: what a waiting wildcard receive can match ---- *)
Lemma safety P prog st : phases_sep prog -> Inv P prog st ->
  forall r rs t d m, rank_at st r rs -> nth_error prog (pc rs) = Some (Phase t d) ->
    In m (net st) -> m_dst m = r -> m_tag m = t -> m_item m = pc rs.
Proof.
  intros Hsep I r rs t d m Hr Hi Hm Hd Ht.
  destruct (inv_msg _ _ _ I m Hm) as (rsrc & d' & Hsrc & Hit & Hle & Hin).
  destruct (lt_eq_lt_dec (m_item m) (pc rs)) as [[Hlt|Heq]|Hgt]; [exfalso | exact Heq | exfalso].
  - (* an older phase: all its messages to r were consumed, because r counted exactly *)
    pose proof (inv_past _ _ _ I r rs (m_item m) Hr Hlt) as Hp.
    pose proof (inv_cons _ _ _ I ftrue r rs (m_item m) Hr) as Hc.
    pose proof (sentcount_le P prog st ftrue r (m_item m)) as Hs.
    assert (Hf : 1 <= inflight st ftrue r (m_item m)).
    { unfold inflight. eapply countb_pos_in; [exact Hm|].
      unfold ftrue. rewrite Hd, !Nat.eqb_refl. reflexivity. }
    lia.
  - (* a later phase: its sender has left a barrier that r has not reached *)
    rewrite Ht in Hit.
    destruct (Hsep (pc rs) (m_item m) t d d' Hgt Hi Hit) as (k & K1 & K2 & K3).
    pose proof (inv_bar _ _ _ I (m_src m) r rsrc rs k Hsrc Hr K3) as Hb. lia.
Qed.

(* ---- effect of updating one rank ---- *)
Lemma rank_at_upd st r0 rs0 rs' net' q rq :
  rank_at st r0 rs0 -> rank_at (mkS (upd (ranks st) r0 rs') net') q rq ->
  (q = r0 /\ rq = rs') \/ (q <> r0 /\ rank_at st q rq).
Proof.
  unfold rank_at; simpl. intros H0 H. rewrite (nth_error_upd _ _ _ _ _ H0) in H.
  destruct (Nat.eqb_spec q r0) as [E|E]; [left|right]; split; auto. congruence.
Qed.

Lemma rank_at_upd_same st r0 rs0 rs' net' :
  rank_at st r0 rs0 -> rank_at (mkS (upd (ranks st) r0 rs') net') r0 rs'.
Proof. unfold rank_at; simpl. apply nth_error_upd_same. Qed.

Lemma done_at_upd st r0 rs0 rs' net' s j :
  rank_at st r0 rs0 ->
  done_at (mkS (upd (ranks st) r0 rs') net') s j = if s =? r0 then doneb rs' j else done_at st s j.
Proof.
  unfold rank_at, done_at; simpl. intros H0. rewrite (nth_error_upd _ _ _ _ _ H0).
  destruct (s =? r0); reflexivity.
Qed.

Lemma sentcount_upd P prog st r0 rs0 rs' net' f r j :
  rank_at st r0 rs0 -> r0 < P ->
  sentcount P prog (mkS (upd (ranks st) r0 rs') net') f r j + sterm prog f r j r0 (doneb rs0 j)
  = sentcount P prog st f r j + sterm prog f r j r0 (doneb rs' j).
Proof.
  intros H0 Hlt. unfold sentcount.
  pose proof (sumn_change_one P
     (fun s => sterm prog f r j s (done_at st s j))
     (fun s => sterm prog f r j s (done_at (mkS (upd (ranks st) r0 rs') net') s j)) r0) as H.
  cbv beta in H.
  rewrite (done_at_upd _ _ _ _ _ _ _ H0), Nat.eqb_refl in H.
  assert (E : done_at st r0 j = doneb rs0 j) by (unfold done_at; rewrite H0; reflexivity).
  rewrite E in H. apply H; [|exact Hlt].
  intros s Hs. rewrite (done_at_upd _ _ _ _ _ _ _ H0).
  destruct (Nat.eqb_spec s r0); [contradiction|reflexivity].
Qed.

Lemma sentcount_upd_same P prog st r0 rs0 rs' net' f r j :
  rank_at st r0 rs0 -> r0 < P ->
  sterm prog f r j r0 (doneb rs0 j) = sterm prog f r j r0 (doneb rs' j) ->
  sentcount P prog (mkS (upd (ranks st) r0 rs') net') f r j = sentcount P prog st f r j.
Proof.
  intros H0 Hlt E. pose proof (sentcount_upd P prog st r0 rs0 rs' net' f r j H0 Hlt). lia.
Qed.

Lemma countb_send_msgs (f : nat -> bool) r j r0 t j0 ds :
  countb (fun m => f (m_src m) && (m_dst m =? r) && (m_item m =? j)) (send_msgs r0 t j0 ds)
  = if f r0 && (j0 =? j) then cnt r ds else 0.
Proof.
  unfold send_msgs. induction ds as [|x ds IH]; simpl.
  - destruct (f r0 && (j0 =? j)); reflexivity.
  - rewrite countb_cons, IH; simpl. unfold cnt; simpl.
    destruct (f r0); simpl; [|reflexivity].
    destruct (j0 =? j); simpl.
    + destruct (Nat.eq_dec x r) as [E|E]; destruct (Nat.eqb_spec x r); try contradiction; simpl; lia.
    + rewrite andb_false_r. reflexivity.
Qed.

(* ---- the invariant holds initially ---- *)
Lemma rank_at_init P r rs : rank_at (init P) r rs -> rs = r_init.
Proof.
  unfold rank_at, init; simpl. intros H. apply nth_error_In in H.
  eapply repeat_spec; eauto.
Qed.

Lemma Inv_init P prog : Inv P prog (init P).
Proof.
  constructor.
  - simpl. apply repeat_length.
  - intros r rs H. rewrite (rank_at_init _ _ _ H). simpl. lia.
  - intros q r rq rr k Hq _ _ Hk. rewrite (rank_at_init _ _ _ Hq) in Hk. simpl in Hk. lia.
  - intros m [].
  - intros f r rs j H. rewrite (rank_at_init _ _ _ H).
    unfold inflight, logged, sentcount; simpl. rewrite !countb_nil. symmetry.
    apply sumn_zero. intros s _. unfold sterm.
    replace (done_at (init P) s j) with false; [rewrite andb_false_r; reflexivity|].
    unfold done_at. destruct (nth_error (ranks (init P)) s) as [rs'|] eqn:E; [|reflexivity].
    rewrite (rank_at_init P s rs' E). unfold doneb; simpl. rewrite andb_false_r. reflexivity.
  - intros r rs j m H. rewrite (rank_at_init _ _ _ H). intros [].
  - intros r rs j H. rewrite (rank_at_init _ _ _ H). simpl. lia.
  - intros r rs H. rewrite (rank_at_init _ _ _ H). simpl. split; [reflexivity|lia].
Qed.

(* ---- preservation: the four "shape" fields, for any update of one rank ---- *)
Lemma rank_at_upd_old st r0 rs0 rs' net' r rr :
  rank_at st r0 rs0 -> pc rs0 <= pc rs' ->
  rank_at (mkS (upd (ranks st) r0 rs') net') r rr ->
  exists rr0, rank_at st r rr0 /\ pc rr0 <= pc rr.
Proof.
  intros H0 Hle H. destruct (rank_at_upd _ _ _ _ _ _ _ H0 H) as [[-> ->]|[N Hr]].
  - exists rs0; split; assumption.
  - exists rr; split; [assumption|lia].
Qed.

Lemma basic_upd P prog st r0 rs0 rs' net' :
  Inv P prog st -> rank_at st r0 rs0 -> pc rs0 <= pc rs' -> pc rs' <= length prog ->
  (forall k, nth_error prog k = Some Barrier -> pc rs0 <= k -> k < pc rs' ->
     forall q rq, rank_at st q rq -> k <= pc rq) ->
  (forall m, In m net' -> In m (net st) \/
     (m_src m = r0 /\ exists d, nth_error prog (m_item m) = Some (Phase (m_tag m) d) /\
                                m_item m <= pc rs' /\ In (m_dst m) (d r0))) ->
  let st' := mkS (upd (ranks st) r0 rs') net' in
  length (ranks st') = P /\
  (forall r rs, rank_at st' r rs -> pc rs <= length prog) /\
  (forall q r rq rr k, rank_at st' q rq -> rank_at st' r rr ->
      nth_error prog k = Some Barrier -> k < pc rq -> k <= pc rr) /\
  (forall m, In m (net st') ->
      exists rs d, rank_at st' (m_src m) rs /\ nth_error prog (m_item m) = Some (Phase (m_tag m) d) /\
                   m_item m <= pc rs /\ In (m_dst m) (d (m_src m))).
Proof.
  intros I H0 Hle Hlen Hbar Hnet st'. repeat split.
  - simpl. rewrite length_upd. apply (inv_len _ _ _ I).
  - intros r rs H. destruct (rank_at_upd _ _ _ _ _ _ _ H0 H) as [[-> ->]|[N Hr]]; [exact Hlen|].
    eapply (inv_pc _ _ _ I); eauto.
  - intros q r rq rr k Hq Hr Hk Hlt.
    destruct (rank_at_upd_old _ _ _ _ _ _ _ H0 Hle Hr) as (rr0 & Hr0 & Hrr).
    enough (k <= pc rr0) by lia.
    destruct (rank_at_upd _ _ _ _ _ _ _ H0 Hq) as [[-> ->]|[N Hq0]].
    + destruct (Nat.lt_ge_cases k (pc rs0)) as [L|L].
      * eapply (inv_bar _ _ _ I r0 r rs0 rr0 k); eauto.
      * eapply Hbar; eauto.
    + eapply (inv_bar _ _ _ I q r rq rr0 k); eauto.
  - intros m Hm. simpl in Hm. destruct (Hnet m Hm) as [Hold|(Hs & d & Hi & Hp & Hd)].
    + destruct (inv_msg _ _ _ I m Hold) as (rs & d & Hr & Hi & Hp & Hd).
      destruct (Nat.eq_dec (m_src m) r0) as [E|E].
      * exists rs', d. rewrite E in *. split; [eapply rank_at_upd_same; eauto|].
        unfold rank_at in Hr, H0. assert (rs = rs0) by congruence. subst rs.
        repeat split; auto; lia.
      * exists rs, d. repeat split; auto.
        unfold rank_at, st'; simpl. rewrite (nth_error_upd_other _ _ _ _ _ H0 E). exact Hr.
    + exists rs', d. rewrite Hs. repeat split; auto. eapply rank_at_upd_same; eauto.
Qed.

(* ---- preservation: the three log fields ---- *)
Definition log_fields (P : nat) (prog : program) (st : state) : Prop :=
  (forall r rs j m, rank_at st r rs -> In (j, m) (rlog rs) ->
      m_item m = j /\ m_dst m = r /\ j <= pc rs /\ exists d, nth_error prog j = Some (Phase (m_tag m) d)) /\
  (forall r rs j, rank_at st r rs -> j < pc rs ->
      logged rs ftrue j = expected P (dests_at prog j) r) /\
  (forall r rs, rank_at st r rs ->
      logged rs ftrue (pc rs) = nrecv rs /\ nrecv rs <= expected P (dests_at prog (pc rs)) r).

Lemma logs_upd_same P prog st r0 rs0 rs' net' :
  Inv P prog st -> rank_at st r0 rs0 ->
  pc rs' = pc rs0 -> nrecv rs' = nrecv rs0 -> rlog rs' = rlog rs0 ->
  log_fields P prog (mkS (upd (ranks st) r0 rs') net').
Proof.
  intros I H0 Epc Enr Elog. split; [|split].
  - intros r rs j m H H1. destruct (rank_at_upd _ _ _ _ _ _ _ H0 H) as [[-> ->]|[N Hr]].
    + rewrite Elog in H1. rewrite Epc. apply (inv_log _ _ _ I r0 rs0 j m H0 H1).
    + apply (inv_log _ _ _ I r rs j m Hr H1).
  - intros r rs j H Hj. destruct (rank_at_upd _ _ _ _ _ _ _ H0 H) as [[-> ->]|[N Hr]].
    + unfold logged. rewrite Elog. rewrite Epc in Hj. apply (inv_past _ _ _ I r0 rs0 j H0 Hj).
    + apply (inv_past _ _ _ I r rs j Hr Hj).
  - intros r rs H. destruct (rank_at_upd _ _ _ _ _ _ _ H0 H) as [[-> ->]|[N Hr]].
    + unfold logged. rewrite Elog, Epc, Enr. apply (inv_cur _ _ _ I r0 rs0 H0).
    + apply (inv_cur _ _ _ I r rs Hr).
Qed.

Lemma logs_upd_next P prog st r0 rs0 rs' net' :
  Inv P prog st -> rank_at st r0 rs0 ->
  pc rs' = S (pc rs0) -> nrecv rs' = 0 -> rlog rs' = rlog rs0 ->
  nrecv rs0 = expected P (dests_at prog (pc rs0)) r0 ->
  log_fields P prog (mkS (upd (ranks st) r0 rs') net').
Proof.
  intros I H0 Epc Enr Elog Hfull. split; [|split].
  - intros r rs j m H H1. destruct (rank_at_upd _ _ _ _ _ _ _ H0 H) as [[-> ->]|[N Hr]].
    + rewrite Elog in H1. rewrite Epc.
      destruct (inv_log _ _ _ I r0 rs0 j m H0 H1) as (A & B & C & D). repeat split; auto.
    + apply (inv_log _ _ _ I r rs j m Hr H1).
  - intros r rs j H Hj. destruct (rank_at_upd _ _ _ _ _ _ _ H0 H) as [[-> ->]|[N Hr]].
    + unfold logged. rewrite Elog. rewrite Epc in Hj.
      destruct (Nat.eq_dec j (pc rs0)) as [->|Nj].
      * destruct (inv_cur _ _ _ I r0 rs0 H0) as [A _]. unfold logged in A. rewrite A. exact Hfull.
      * apply (inv_past _ _ _ I r0 rs0 j H0). lia.
    + apply (inv_past _ _ _ I r rs j Hr Hj).
  - intros r rs H. destruct (rank_at_upd _ _ _ _ _ _ _ H0 H) as [[-> ->]|[N Hr]].
    + rewrite Enr. split; [|lia]. unfold logged. rewrite Elog, Epc.
      apply countb_zero. intros [j m] Hin. simpl.
      destruct (inv_log _ _ _ I r0 rs0 j m H0 Hin) as (A & _ & C & _).
      destruct (Nat.eqb_spec (m_item m) (S (pc rs0))) as [E|E]; [lia|]. try rewrite andb_false_r; reflexivity.
    + apply (inv_cur _ _ _ I r rs Hr).
Qed.

(* ---- preservation ---- *)
Lemma Inv_step P prog st st' :
  phases_sep prog -> Inv P prog st -> step_spec P prog st st' -> Inv P prog st'.
Proof.
  intros Hsep I Hst.
  destruct Hst as [r0 rs0 t d H0 Hi Hs | r0 k rs0 t d m H0 Hi Hs Hn Hk Hd Ht
                  | r0 rs0 t d H0 Hi Hs Hn | r0 rs0 H0 Hi Hall].
  - (* send *)
    set (rs' := mkR (pc rs0) true (nrecv rs0) (rlog rs0) (rev (send_events t (d r0)) ++ revs rs0)).
    pose proof (rank_at_lt _ _ _ _ _ I H0) as Hlt.
    destruct (basic_upd P prog st r0 rs0 rs' (net st ++ send_msgs r0 t (pc rs0) (d r0)) I H0)
      as (B1 & B2 & B3 & B4).
    { simpl; lia. }
    { simpl. eapply (inv_pc _ _ _ I); eauto. }
    { simpl. intros; lia. }
    { intros m Hm. apply in_app_or in Hm. destruct Hm as [Hm|Hm]; [left; exact Hm|right].
      unfold send_msgs in Hm. apply in_map_iff in Hm. destruct Hm as (x & <- & Hx). simpl.
      split; [reflexivity|]. exists d. repeat split; auto. }
    destruct (logs_upd_same P prog st r0 rs0 rs' (net st ++ send_msgs r0 t (pc rs0) (d r0)) I H0)
      as (L1 & L2 & L3); try reflexivity.
    constructor; try assumption.
    intros f r rs j Hr.
    assert (Hlog : exists rs1, rank_at st r rs1 /\ logged rs f j = logged rs1 f j).
    { destruct (rank_at_upd _ _ _ _ _ _ _ H0 Hr) as [[-> ->]|[N Hr1]];
        [exists rs0|exists rs]; split; auto. }
    destruct Hlog as (rs1 & Hr1 & ->).
    pose proof (inv_cons _ _ _ I f r rs1 j Hr1) as Hc.
    pose proof (sentcount_upd P prog st r0 rs0 rs' (net st ++ send_msgs r0 t (pc rs0) (d r0)) f r j H0 Hlt)
      as Hsc.
    unfold inflight in *; simpl. rewrite countb_app, countb_send_msgs.
    unfold sterm, doneb in Hsc; simpl in Hsc. rewrite Hs in Hsc.
    rewrite andb_false_r, andb_true_r, orb_false_r in Hsc.
    destruct (f r0); simpl in *; [|lia].
    destruct (Nat.eqb_spec (pc rs0) j) as [E|E].
    + subst j. rewrite (dests_at_phase _ _ _ _ Hi) in Hsc.
      destruct (Nat.ltb_spec (pc rs0) (pc rs0)); [lia|]. simpl in Hsc. lia.
    + rewrite orb_false_r in Hsc. destruct (j <? pc rs0); lia.
  - (* receive *)
    pose proof (safety P prog st Hsep I r0 rs0 t d m H0 Hi (nth_error_In _ _ Hk) Hd Ht) as Hitem.
    set (rs' := mkR (pc rs0) true (S (nrecv rs0)) ((pc rs0, m) :: rlog rs0) (EvRecvAny (m_src m) t :: revs rs0)).
    pose proof (rank_at_lt _ _ _ _ _ I H0) as Hlt.
    destruct (basic_upd P prog st r0 rs0 rs' (remove_nth k (net st)) I H0)
      as (B1 & B2 & B3 & B4).
    { simpl; lia. }
    { simpl. eapply (inv_pc _ _ _ I); eauto. }
    { simpl. intros; lia. }
    { intros m' Hm. left. eapply In_remove_nth; eauto. }
    constructor; try assumption.
    + (* conservation *)
      intros f r rs j Hr.
      rewrite (sentcount_upd_same P prog st r0 rs0 rs' _ f r j H0 Hlt)
        by (unfold doneb; simpl; rewrite Hs; reflexivity).
      unfold inflight; simpl.
      pose proof (countb_remove_nth (fun m0 => f (m_src m0) && (m_dst m0 =? r) && (m_item m0 =? j))
                    k (net st) m Hk) as Hrm. cbv beta in Hrm.
      destruct (rank_at_upd _ _ _ _ _ _ _ H0 Hr) as [[-> ->]|[N Hr1]].
      * pose proof (inv_cons _ _ _ I f r0 rs0 j H0) as Hc. unfold inflight in Hc.
        unfold logged in *; simpl. rewrite countb_cons; simpl.
        rewrite Hd, Nat.eqb_refl, andb_true_r in Hrm. lia.
      * pose proof (inv_cons _ _ _ I f r rs j Hr1) as Hc. unfold inflight in Hc.
        destruct (Nat.eqb_spec (m_dst m) r) as [E|E]; [congruence|].
        rewrite andb_false_r in Hrm. simpl in Hrm. lia.
    + (* log *)
      intros r rs j m' Hr Hin. destruct (rank_at_upd _ _ _ _ _ _ _ H0 Hr) as [[-> ->]|[N Hr1]].
      * simpl in Hin. destruct Hin as [E|Hin].
        { inversion E; subst j m'. simpl. repeat split; auto. exists d. rewrite Ht. exact Hi. }
        apply (inv_log _ _ _ I r0 rs0 j m' H0 Hin).
      * apply (inv_log _ _ _ I r rs j m' Hr1 Hin).
    + (* past *)
      intros r rs j Hr Hj. destruct (rank_at_upd _ _ _ _ _ _ _ H0 Hr) as [[-> ->]|[N Hr1]].
      * simpl in Hj. unfold logged; simpl. rewrite countb_cons; simpl.
        destruct (Nat.eqb_spec (m_item m) j) as [E|E]; [lia|]. simpl.
        apply (inv_past _ _ _ I r0 rs0 j H0 Hj).
      * apply (inv_past _ _ _ I r rs j Hr1 Hj).
    + (* current *)
      intros r rs Hr. destruct (rank_at_upd _ _ _ _ _ _ _ H0 Hr) as [[-> ->]|[N Hr1]].
      * simpl. unfold logged; simpl. rewrite countb_cons; simpl.
        rewrite Hitem, Nat.eqb_refl. simpl.
        destruct (inv_cur _ _ _ I r0 rs0 H0) as [A _]. unfold logged in A. Show. rewrite A.
        split; [reflexivity|]. rewrite (dests_at_phase _ _ _ _ Hi). lia.
      * apply (inv_cur _ _ _ I r rs Hr1).
  - (* advance *)
    set (rs' := mkR (S (pc rs0)) false 0 (rlog rs0) (revs rs0)).
    pose proof (rank_at_lt _ _ _ _ _ I H0) as Hlt.
    assert (Hpc : pc rs0 < length prog) by (apply nth_error_Some; congruence).
    destruct (basic_upd P prog st r0 rs0 rs' (net st) I H0) as (B1 & B2 & B3 & B4).
    { simpl; lia. }
    { simpl; lia. }
    { simpl. intros k0 Hk0 G1 G2. assert (k0 = pc rs0) by lia. subst k0. congruence. }
    { intros m' Hm. left. exact Hm. }
    destruct (logs_upd_next P prog st r0 rs0 rs' (net st) I H0) as (L1 & L2 & L3); try reflexivity.
    { rewrite (dests_at_phase _ _ _ _ Hi). exact Hn. }
    constructor; try assumption.
    intros f r rs j Hr.
    rewrite (sentcount_upd_same P prog st r0 rs0 rs' _ f r j H0 Hlt).
    + assert (Hlog : exists rs1, rank_at st r rs1 /\ logged rs f j = logged rs1 f j).
      { destruct (rank_at_upd _ _ _ _ _ _ _ H0 Hr) as [[-> ->]|[N Hr1]];
          [exists rs0|exists rs]; split; auto. }
      destruct Hlog as (rs1 & Hr1 & ->). apply (inv_cons _ _ _ I f r rs1 j Hr1).
    + unfold doneb; simpl. rewrite Hs, andb_true_r, andb_false_r, orb_false_r.
      replace (j <? S (pc rs0)) with ((j <? pc rs0) || (pc rs0 =? j)); [reflexivity|].
      destruct (Nat.ltb_spec j (pc rs0)); destruct (Nat.eqb_spec (pc rs0) j);
        destruct (Nat.ltb_spec j (S (pc rs0))); simpl; try reflexivity; lia.
  - (* barrier *)
    set (rs' := mkR (S (pc rs0)) false 0 (rlog rs0) (EvBarrier :: revs rs0)).
    pose proof (rank_at_lt _ _ _ _ _ I H0) as Hlt.
    assert (Hpc : pc rs0 < length prog) by (apply nth_error_Some; congruence).
    destruct (basic_upd P prog st r0 rs0 rs' (net st) I H0) as (B1 & B2 & B3 & B4).
    { simpl; lia. }
    { simpl; lia. }
    { simpl. intros k0 Hk0 G1 G2 q rq Hq. assert (k0 = pc rs0) by lia. subst k0. eapply Hall; eauto. }
    { intros m' Hm. left. exact Hm. }
    pose proof (inv_cur _ _ _ I r0 rs0 H0) as [_ Hz].
    rewrite (dests_at_barrier _ _ Hi), expected_nil in Hz.
    destruct (logs_upd_next P prog st r0 rs0 rs' (net st) I H0) as (L1 & L2 & L3); try reflexivity.
    { rewrite (dests_at_barrier _ _ Hi), expected_nil. lia. }
    constructor; try assumption.
    intros f r rs j Hr.
    rewrite (sentcount_upd_same P prog st r0 rs0 rs' _ f r j H0 Hlt).
    + assert (Hlog : exists rs1, rank_at st r rs1 /\ logged rs f j = logged rs1 f j).
      { destruct (rank_at_upd _ _ _ _ _ _ _ H0 Hr) as [[-> ->]|[N Hr1]];
          [exists rs0|exists rs]; split; auto. }
      destruct Hlog as (rs1 & Hr1 & ->). apply (inv_cons _ _ _ I f r rs1 j Hr1).
    + unfold sterm. destruct (Nat.eq_dec j (pc rs0)) as [->|Nj].
      * rewrite (dests_at_barrier _ _ Hi). unfold cnt; simpl.
        destruct (f r0 && doneb rs0 (pc rs0)); destruct (f r0 && doneb rs' (pc rs0)); reflexivity.
      * replace (doneb rs' j) with (doneb rs0 j); [reflexivity|].
        unfold doneb; simpl. rewrite andb_false_r, orb_false_r.
        destruct (Nat.ltb_spec j (pc rs0)); destruct (Nat.eqb_spec (pc rs0) j);
          destruct (Nat.ltb_spec j (S (pc rs0))); simpl; try reflexivity; lia.
Qed.

Lemma reachable_Inv P prog st : phases_sep prog -> reachable P prog st -> Inv P prog st.
Proof.
  intros Hsep H. induction H as [|st st' _ IH Hst]; [apply Inv_init|].
  eapply Inv_step; eauto. apply step_to_spec; exact Hst.
Qed.
