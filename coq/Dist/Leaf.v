(* C18 — hand-written part of the leaf model (definitions only; proofs are in LeafProofs.v).
   The integer arithmetic of Topology::get_node / get_local_proc / get_global_proc, of the num_nodes
   computation and of the block Partition constructor is NOT written here: it is GenLeaf.v, regenerated
   from the headers by translator/leaf2coq.py on every run.  Hand-written (raptor/core/partition.hpp):
     create_assumed_partition   allgather of first_local_col, first_cols[P] = global_num_cols, assumed_num_cols
     form_col_to_proc           two while walks, fuel = number of loop-condition evaluations
     Partition(gr, gc, lnr, lnc, fr, fc)   the explicitly sized constructor
     Partition::transpose
   A distributed partition is the list of all ranks' Partition objects (index = rank); MPI is not modelled:
   the allgather is `map` over that list. C++ ints are Z (overflow not modelled); a read outside a vector
   and a division by zero (both undefined behaviour) are made explicit as None / ok = false. *)
From Coq Require Import ZArith List Bool.
From Raptor Require Import Dist.GenLeaf.
Import ListNotations.
Local Open Scope Z_scope.

(* one rank's Partition object: the record generated for the block constructor's outputs is reused *)
Notation rank_part := Partition_block_out.
Notation rp_gnr := Partition_block_global_num_rows.
Notation rp_gnc := Partition_block_global_num_cols.
Notation rp_fr := Partition_block_first_local_row.
Notation rp_lnr := Partition_block_local_num_rows.
Notation rp_fc := Partition_block_first_local_col.
Notation rp_lnc := Partition_block_local_num_cols.
Notation rp_lr := Partition_block_last_local_row.
Notation rp_lc := Partition_block_last_local_col.
Notation rp_ok := Partition_block_ok.

(* v[i] of a std::vector<int> *)
Definition zth (l : list Z) (i : Z) : option Z :=
  if i <? 0 then None else nth_error l (Z.to_nat i).

Record dpart := mk_dpart {
  dp_ranks : list rank_part;       (* per rank: sizes and first/last indices *)
  dp_first_cols : list Z;          (* first_cols, identical on every rank after the allgather *)
  dp_assumed : Z;                  (* assumed_num_cols *)
  dp_ok : bool }.                  (* no division by zero / all ranks' constructors defined *)

(* create_assumed_partition on P ranks, global_num_cols = M:
     assumed_num_cols = M / P; if (M % P) assumed_num_cols++;
     first_cols.resize(P+1); Allgather(first_local_col); first_cols[P] = M *)
Definition create_assumed (P M : Z) (ranks : list rank_part) : dpart :=
  let a := Z.quot M P in
  let a := if negb (Z.rem M P =? 0) then a + 1 else a in
  mk_dpart ranks (map rp_fc ranks ++ [M]) a (negb (P =? 0) && forallb rp_ok ranks).

Definition ranks_upto (P : nat) : list Z := map Z.of_nat (seq 0 P).

(* Partition(global_num_rows, global_num_cols) on every rank of a P-process run *)
Definition block_partition (P : nat) (N M : Z) : dpart :=
  create_assumed (Z.of_nat P) M (map (fun r => Partition_block r (Z.of_nat P) N M) (ranks_upto P)).

(* Partition(gr, gc, local_num_rows, local_num_cols, first_local_row, first_local_col) *)
Definition explicit_rank (N M lnr lnc fr fc : Z) : rank_part :=
  mk_Partition_block_out N M fr lnr fc lnc (fr + lnr - 1) (fc + lnc - 1) true.

(* sizes: per rank (lnr, lnc, fr, fc), as the callers pass them *)
Definition explicit_partition (N M : Z) (args : list (Z * Z * Z * Z)) : dpart :=
  create_assumed (Z.of_nat (length args)) M
    (map (fun a => match a with (lnr, lnc, fr, fc) => explicit_rank N M lnr lnc fr fc end) args).

(* Partition::transpose(): new Partition(gnc, gnr, lnc, lnr, fc, fr) on every rank *)
Definition transpose_rank (p : rank_part) : rank_part :=
  explicit_rank (rp_gnc p) (rp_gnr p) (rp_lnc p) (rp_lnr p) (rp_fc p) (rp_fr p).

Definition transpose_partition (N : Z) (d : dpart) : dpart :=
  create_assumed (Z.of_nat (length (dp_ranks d))) N (map transpose_rank (dp_ranks d)).

(* form_col_to_proc, one column.  Fuel counts evaluations of the loop condition.
     assumed_proc = global_col / assumed_num_cols;
     while (global_col < first_cols[assumed_proc]) assumed_proc--;
     while (assumed_proc < num_procs - 1 && global_col >= first_cols[assumed_proc+1]) assumed_proc++; *)
Fixpoint walk_down (fuel : nat) (fc : list Z) (c ap : Z) : option Z :=
  match fuel with
  | O => None
  | S f => match zth fc ap with
           | None => None
           | Some v => if c <? v then walk_down f fc c (ap - 1) else Some ap
           end
  end.

Fixpoint walk_up (fuel : nat) (P : Z) (fc : list Z) (c ap : Z) : option Z :=
  match fuel with
  | O => None
  | S f => if ap <? P - 1
           then match zth fc (ap + 1) with
                | None => None
                | Some v => if c >=? v then walk_up f P fc c (ap + 1) else Some ap
                end
           else Some ap
  end.

Definition owner (P : nat) (assumed : Z) (fc : list Z) (c : Z) : option Z :=
  if assumed =? 0 then None
  else match walk_down P fc c (Z.quot c assumed) with
       | None => None
       | Some ap => walk_up P (Z.of_nat P) fc c ap
       end.

Definition form_col_to_proc (P : nat) (d : dpart) (cols : list Z) : list (option Z) :=
  map (owner P (dp_assumed d) (dp_first_cols d)) cols.

(* Topology: num_nodes as the constructor computes it, then the three maps *)
Definition topo_num_nodes (nprocs PPN : Z) : Z := Topology_ctor_num_nodes (Topology_ctor nprocs PPN).

(* boolean form of the property on one machine layout, used by the failing-input search in the driver:
   every rank round-trips, lands on an existing node and an on-node index below PPN *)
Definition topo_rank_ok (ordering nprocs PPN p : Z) : bool :=
  let nn := topo_num_nodes nprocs PPN in
  let nd := Topology_get_node ordering nn PPN p in
  let lp := Topology_get_local_proc ordering nn PPN p in
  (Topology_get_global_proc ordering nn PPN nd lp =? p) && (0 <=? nd) && (nd <? nn) && (0 <=? lp) && (lp <? PPN).

(* what MPI_Comm_split(COMM_WORLD, color = get_node(rank), key = rank) yields for rank p of an nprocs-process
   run: its rank inside local_comm is the number of lower ranks on the same node, the size of local_comm is the
   number of ranks on that node *)
Definition node_of (ordering nprocs PPN p : Z) : Z :=
  Topology_get_node ordering (topo_num_nodes nprocs PPN) PPN p.
Definition split_rank (ordering nprocs PPN : Z) (p : nat) : nat :=
  length (filter (fun q => node_of ordering nprocs PPN q =? node_of ordering nprocs PPN (Z.of_nat p)) (ranks_upto p)).
Definition split_size (ordering PPN : Z) (nprocs p : nat) : nat :=
  length (filter (fun q => node_of ordering (Z.of_nat nprocs) PPN q =? node_of ordering (Z.of_nat nprocs) PPN (Z.of_nat p))
                 (ranks_upto nprocs)).
