(* C07 (distributed part): the distributed conversions keep, the distributed transpose transposes and the
   distributed sum / difference adds the represented global operator, for every list of rank states. *)
From Coq Require Import List Arith Lia Bool Permutation Sorted.
Import ListNotations.
From Raptor Require Import Base.Sums Sparse.Defs Sparse.ConvertProofs Sparse.SortProofs
     Dist.Comm Dist.CommProofs Dist.ParMat Dist.ParSpmvProofs Dist.ParSpmvTProofs Dist.ParConv.

Section ParConvProofs.
Variable F : Type.
Variables (zero one : F) (add mul sub : F -> F -> F) (opp : F -> F).
Variable Fth : ring_theory zero one add mul sub opp (@eq F).
Add Ring FringPC : Fth.
Variable small : F -> bool.

Notation sumF := (sumf F zero add).
Notation denL := (den_line F zero add).
Notation denCoo := (den_coo F zero add).
Notation denCsr := (den_csr F zero add).
Notation denCsc := (den_csc F zero add).
Notation dropF := (drop F zero small).
Notation dflt := (mkRS 0 0 0 0 (mkCsr 0 0 []) (mkCsr 0 0 []) []).
Notation gdenR := (gden_row F zero add).

(* ---------- conversions ---------- *)
Lemma gden_row_of (rs : rank_state F) li j :
  gdenR rs li j = gden_of zero add (denCsr (rs_on rs)) (denCsr (rs_off rs)) (rs_fc rs) (rs_nc rs) (rs_colmap rs) li j.
Proof. reflexivity. Qed.

Lemma gden_of_ext (d1 d1' d2 d2' : nat -> nat -> F) fc nc cm li j :
  (forall a b, d1 a b = d1' a b) -> (forall a b, d2 a b = d2' a b) ->
  gden_of zero add d1 d2 fc nc cm li j = gden_of zero add d1' d2' fc nc cm li j.
Proof.
  intros H1 H2. unfold gden_of. rewrite H1. f_equal.
  apply (sumf_map_ext F zero add). intros kc _. rewrite H2. reflexivity.
Qed.

Definition rc_wf (r : rank_coo F) : Prop := coo_wf (rc_on r) /\ coo_wf (rc_off r).
Definition rk_wf (r : rank_csc F) : Prop := csc_wf (rk_on r) /\ csc_wf (rk_off r).
Definition rs_wf2 (r : rank_state F) : Prop := csr_wf (rs_on r) /\ csr_wf (rs_off r).

Theorem par_conversions_from_csr (r : rank_state F) li j : rs_wf2 r ->
  gden_coo F zero add (par_csr_to_coo F r) li j = gdenR r li j /\
  gden_csc F zero add (par_csr_to_csc F r) li j = gdenR r li j /\
  gdenR (par_csr_to_csr F r) li j = gdenR r li j.
Proof.
  intros [H1 H2]. rewrite !gden_row_of. unfold gden_coo, gden_csc; simpl. repeat split.
  - apply gden_of_ext; intros; apply den_csr_to_coo.
  - apply gden_of_ext; intros; apply den_csr_to_csc; assumption.
Qed.
Theorem par_conversions_from_coo (r : rank_coo F) li j : rc_wf r ->
  gdenR (par_coo_to_csr F r) li j = gden_coo F zero add r li j /\
  gden_csc F zero add (par_coo_to_csc F r) li j = gden_coo F zero add r li j /\
  gden_coo F zero add (par_coo_to_coo F r) li j = gden_coo F zero add r li j.
Proof.
  intros [H1 H2]. rewrite !gden_row_of. unfold gden_coo, gden_csc; simpl. repeat split.
  - apply gden_of_ext; intros; apply den_coo_to_csr; assumption.
  - apply gden_of_ext; intros; apply den_coo_to_csc; assumption.
Qed.
Theorem par_conversions_from_csc (r : rank_csc F) li j : rk_wf r ->
  gdenR (par_csc_to_csr F r) li j = gden_csc F zero add r li j /\
  gden_coo F zero add (par_csc_to_coo F r) li j = gden_csc F zero add r li j /\
  gden_csc F zero add (par_csc_to_csc F r) li j = gden_csc F zero add r li j.
Proof.
  intros [H1 H2]. rewrite !gden_row_of. unfold gden_coo, gden_csc; simpl. repeat split.
  - apply gden_of_ext; intros; apply den_csc_to_csr; assumption.
  - apply gden_of_ext; intros; apply den_csc_to_coo.
Qed.

(* ---------- the off-process part of gden_row as the denotation of the row with global column ids ---------- *)
Definition slot_sum (cm : list nat) (row : list (nat * F)) (g : nat) : F :=
  sumF (map (fun kc => if snd kc =? g then denL row (fst kc) else zero) (indexed cm)).
Definition globalise (cm : list nat) (row : list (nat * F)) : list (nat * F) :=
  map (fun p => (nth (fst p) cm 0, snd p)) row.

Lemma indexed_seq (cm : list nat) : indexed cm = map (fun i => (i, nth i cm 0)) (seq 0 (length cm)).
Proof.
  unfold indexed. rewrite (indexed_from_seq 0 cm 0). apply map_ext. intros i. rewrite Nat.sub_0_r. reflexivity.
Qed.

Lemma slot_sum_glob cm row g :
  (forall p, In p row -> fst p < length cm) -> slot_sum cm row g = denL (globalise cm row) g.
Proof.
  unfold slot_sum. induction row as [|[k v] row IH]; intros Hk.
  - simpl. rewrite (sumf_map_ext F zero add _ (fun _ => zero)).
    + apply (sumf_map_zero F zero one add mul sub opp Fth).
    + intros kc _. destruct (snd kc =? g); reflexivity.
  - cbn [globalise map fst snd]. fold (globalise cm row).
    rewrite (den_line_cons F zero one add mul sub opp Fth). cbn [fst snd].
    rewrite <- IH by (intros p Hp; apply Hk; right; exact Hp).
    rewrite (sumf_map_ext F zero add _ (fun kc => add (if (snd kc =? g) && (k =? fst kc) then v else zero)
                                                       (if snd kc =? g then denL row (fst kc) else zero))).
    2:{ intros kc _. rewrite (den_line_cons F zero one add mul sub opp Fth). cbn [fst snd].
        destruct (snd kc =? g); simpl; [reflexivity|ring]. }
    rewrite (sumf_map_add F zero one add mul sub opp Fth). f_equal.
    rewrite indexed_seq, map_map. cbn [fst snd].
    assert (Hkl : k < length cm) by (apply (Hk (k, v)); left; reflexivity).
    rewrite (sumf_single F zero one add mul sub opp Fth (length cm) k _ Hkl).
    + rewrite Nat.eqb_refl, andb_true_r. reflexivity.
    + intros i _ Hne. replace (k =? i) with false by (symmetry; apply Nat.eqb_neq; lia).
      rewrite andb_false_r. reflexivity.
Qed.

Lemma gden_row_slots (rs : rank_state F) li j :
  gdenR rs li j = add (if (rs_fc rs <=? j) && (j <? rs_fc rs + rs_nc rs) then denCsr (rs_on rs) li (j - rs_fc rs) else zero)
                      (slot_sum (rs_colmap rs) (nth li (csr_rows (rs_off rs)) []) j).
Proof. reflexivity. Qed.

Lemma row_in_range (A : csr F) li p : csr_wf A -> In p (nth li (csr_rows A) []) -> fst p < csr_nc A.
Proof.
  intros [Hl Hr] Hp. destruct (Nat.lt_ge_cases li (length (csr_rows A))) as [Hlt|Hge].
  - apply (Hr (nth li (csr_rows A) [])); [apply nth_In; exact Hlt|exact Hp].
  - rewrite nth_overflow in Hp by exact Hge. destruct Hp.
Qed.

(* ---------- finalize ---------- *)
Lemma index_of_nth c (cm : list nat) : In c cm -> nth (index_of c cm) cm 0 = c.
Proof.
  induction cm as [|y cm IH]; intros H; [destruct H|]. simpl.
  destruct (c =? y) eqn:E; [apply Nat.eqb_eq in E; subst; reflexivity|].
  apply IH. destruct H as [->|H]; [rewrite Nat.eqb_refl in E; discriminate|exact H].
Qed.
Lemma index_of_lt c (cm : list nat) : In c cm -> index_of c cm < length cm.
Proof.
  induction cm as [|y cm IH]; intros H; [destruct H|]. simpl.
  destruct (c =? y) eqn:E; [lia|].
  assert (In c cm) by (destruct H as [->|H]; [rewrite Nat.eqb_refl in E; discriminate|exact H]).
  specialize (IH H0). lia.
Qed.
Lemma insert_uniq_in x y l : In y (insert_uniq x l) <-> y = x \/ In y l.
Proof.
  induction l as [|z l IH]; simpl; [intuition|].
  destruct (x <? z); [simpl; intuition|].
  destruct (x =? z) eqn:E; [apply Nat.eqb_eq in E; subst; simpl; intuition|].
  simpl. rewrite IH. intuition.
Qed.
Lemma sort_uniq_in x l : In x (sort_uniq l) <-> In x l.
Proof.
  unfold sort_uniq. induction l as [|z l IH]; simpl; [reflexivity|].
  rewrite insert_uniq_in, IH. intuition.
Qed.
Lemma globalise_renum cm (r : list (nat * F)) :
  (forall p, In p r -> In (fst p) cm) -> globalise cm (renum_line cm r) = r.
Proof.
  intros H. unfold globalise, renum_line. rewrite map_map. cbn [fst snd].
  rewrite <- (map_id r) at 2. apply map_ext_in. intros [c v] Hp. cbn [fst snd].
  rewrite index_of_nth by (apply (H (c, v)); exact Hp). reflexivity.
Qed.
Lemma in_row_cols (rows : list (list (nat * F))) li p :
  In p (nth li rows []) -> In (fst p) (flat_map (map fst) rows).
Proof.
  intros Hp. apply in_flat_map. exists (nth li rows []). split; [|apply in_map; exact Hp].
  destruct (Nat.lt_ge_cases li (length rows)) as [Hlt|Hge]; [apply nth_In; exact Hlt|].
  rewrite nth_overflow in Hp by exact Hge. destruct Hp.
Qed.

Lemma gden_finalize fr nr fc nc (on offg : csr F) li j :
  gdenR (finalize F add small fr nr fc nc on offg) li j
  = add (if (fc <=? j) && (j <? fc + nc) then dropF (denCsr on li (j - fc)) else zero)
        (dropF (denCsr offg li j)).
Proof.
  rewrite gden_row_slots. unfold finalize. cbn [rs_fc rs_nc rs_on rs_off rs_colmap csr_rows].
  set (off' := csr_remove_duplicates F add small offg).
  set (cm := sort_uniq (flat_map (map fst) (csr_rows off'))).
  f_equal.
  - destruct ((fc <=? j) && (j <? fc + nc)); [|reflexivity].
    apply (den_csr_remove_duplicates F zero one add mul sub opp Fth).
  - rewrite (nth_map_default (renum_line cm) (csr_rows off') li [] []) by reflexivity.
    assert (Hin : forall p, In p (nth li (csr_rows off') []) -> In (fst p) cm).
    { intros p Hp. apply sort_uniq_in. apply (in_row_cols _ li). exact Hp. }
    rewrite slot_sum_glob.
    + rewrite globalise_renum by exact Hin.
      change (denL (nth li (csr_rows off') []) j) with (denCsr off' li j).
      apply (den_csr_remove_duplicates F zero one add mul sub opp Fth).
    + intros p Hp. unfold renum_line in Hp. apply in_map_iff in Hp. destruct Hp as [p0 [<- Hp0]].
      cbn [fst]. apply index_of_lt. apply Hin. exact Hp0.
Qed.

(* ---------- transpose ---------- *)
Lemma den_glob_line fr (c : list (nat * F)) g :
  denL (glob_line fr c) g = if fr <=? g then denL c (g - fr) else zero.
Proof.
  induction c as [|[k v] c IH].
  - simpl. rewrite !(den_line_nil F zero add). destruct (fr <=? g); reflexivity.
  - cbn [glob_line map fst snd]. fold (glob_line fr c).
    rewrite !(den_line_cons F zero one add mul sub opp Fth). cbn [fst snd]. rewrite IH.
    destruct (fr <=? g) eqn:E.
    + apply Nat.leb_le in E. destruct (k =? g - fr) eqn:E2.
      * apply Nat.eqb_eq in E2. replace (fr + k =? g) with true by (symmetry; apply Nat.eqb_eq; lia). reflexivity.
      * apply Nat.eqb_neq in E2. replace (fr + k =? g) with false by (symmetry; apply Nat.eqb_neq; lia). reflexivity.
    + apply Nat.leb_gt in E. replace (fr + k =? g) with false by (symmetry; apply Nat.eqb_neq; lia). ring.
Qed.

Lemma den_fold_app (ls : list (list (nat * F))) acc g :
  denL (fold_left (fun b a => b ++ a) ls acc) g = add (denL acc g) (sumF (map (fun l => denL l g) ls)).
Proof.
  revert acc. induction ls as [|l ls IH]; intros acc; simpl; [ring|].
  rewrite IH, (den_line_app F zero one add mul sub opp Fth). ring.
Qed.

Definition st_ok (rs : rank_state F) : Prop :=
  csr_wf (rs_on rs) /\ csr_nr (rs_on rs) = rs_nr rs /\ csr_nc (rs_on rs) = rs_nc rs /\
  csr_wf (rs_off rs) /\ csr_nr (rs_off rs) = rs_nr rs /\ csr_nc (rs_off rs) = length (rs_colmap rs).

Lemma nth_states_colmap (st : list (rank_state F)) p :
  nth p (map (fun rs => rs_colmap rs) st) [] = rs_colmap (nth p st dflt).
Proof. change (@nil nat) with (rs_colmap (F:=F) dflt). apply map_nth. Qed.

Lemma nth_states_offcols (st : list (rank_state F)) p :
  nth p (map off_cols_global st) [] = off_cols_global (nth p st dflt).
Proof. apply (nth_map_default (@off_cols_global F) st p dflt []). reflexivity. Qed.

Lemma off_cols_global_length (rs : rank_state F) : length (off_cols_global rs) = csr_nc (rs_off rs).
Proof. unfold off_cols_global, csr_to_csc, coo_to_csc. cbn [csc_cols]. rewrite map_length, bucket_length. reflexivity. Qed.

Lemma den_transpose_off (w : world) (st : list (rank_state F)) q i g :
  let colmaps := map (fun rs => rs_colmap rs) st in
  let ids := map (fun rs => seq (rs_fc rs) (rs_nc rs)) st in
  rev_ok w ids colmaps = true -> length w = length st -> q < length st ->
  (forall p, p < length st -> st_ok (nth p st dflt)) ->
  i < rs_nc (nth q st dflt) ->
  denL (nth i (transpose_off F w st q) []) g
  = sumF (map (fun p => sumF (map (fun kc => if snd kc =? rs_fc (nth q st dflt) + i
                                              then (if rs_fr (nth p st dflt) <=? g
                                                    then denCsr (rs_off (nth p st dflt)) (g - rs_fr (nth p st dflt)) (fst kc)
                                                    else zero)
                                              else zero)
                                  (indexed (rs_colmap (nth p st dflt)))))
              (seq 0 (length st))).
Proof.
  intros colmaps ids Hok Hlen Hq Hwf Hi.
  unfold transpose_off.
  set (ys := map off_cols_global st).
  set (init := repeat (@nil (nat * F)) (rs_nc (nth q st dflt))).
  rewrite (reverse_hom (@nil (nat * F)) (fun b a => b ++ a) ys w init q).
  assert (Hidq : nth q ids [] = seq (rs_fc (nth q st dflt)) (rs_nc (nth q st dflt))).
  { unfold ids. change (@nil nat) with (seq (rs_fc (F:=F) dflt) (rs_nc (F:=F) dflt)).
    rewrite (map_nth (fun rs : rank_state F => seq (rs_fc rs) (rs_nc rs))). reflexivity. }
  assert (Hys_len : map (@length (list (nat * F))) ys = map (@length nat) colmaps).
  { unfold ys, colmaps. rewrite !map_map.
    rewrite <- (map_nth_seq st dflt). rewrite !map_map. apply map_ext_in. intros p Hp. apply in_seq in Hp.
    rewrite off_cols_global_length. destruct (Hwf p ltac:(lia)) as [_ [_ [_ [_ [_ Hc]]]]]. exact Hc. }
  assert (Hinit : length init = rs_nc (nth q st dflt)) by apply repeat_length.
  unfold rev_ok in Hok. rewrite forallb_forall in Hok. specialize (Hok q).
  rewrite in_seq in Hok. specialize (Hok ltac:(lia)).
  apply andb_prop in Hok. destruct Hok as [Hl Hw]. apply Nat.eqb_eq in Hl.
  rewrite Hys_len, Hinit. rewrite Hidq, seq_length in Hl, Hw.
  set (r := reverse_sym w (map (@length nat) colmaps) (rs_nc (nth q st dflt)) q) in *.
  rewrite nth_indep with (d' := foldtok (@nil (nat * F)) (fun b a => b ++ a) ys ([], []))
    by (rewrite map_length, combine_length; lia).
  rewrite map_nth. rewrite combine_nth by lia.
  unfold foldtok; cbn [fst snd]. rewrite den_fold_app.
  replace (nth i init []) with (@nil (nat * F)) by (symmetry; unfold init; apply nth_repeat).
  rewrite (den_line_nil F zero add). rewrite map_map.
  assert (Hperm : Permutation (nth i r []) (expected_wires colmaps (rs_fc (nth q st dflt) + i))).
  { rewrite forallb_forall in Hw. specialize (Hw (i, nth i r [])). cbn [fst snd] in Hw.
    rewrite seq_nth in Hw by exact Hi. apply same_pairs_perm. apply Hw.
    assert (E : (i, nth i r []) = nth i (combine (seq 0 (length r)) r) (0, [])).
    { rewrite combine_nth by apply seq_length. rewrite seq_nth by lia. reflexivity. }
    rewrite E. apply nth_In. rewrite combine_length, seq_length. lia. }
  rewrite (sumf_perm F zero one add mul sub opp Fth _ _ (Permutation_map _ Hperm)).
  rewrite (sum_expected_wires F zero one add mul sub opp Fth).
  replace (length colmaps) with (length st) by (unfold colmaps; rewrite map_length; reflexivity).
  match goal with |- add zero ?X = ?Y => transitivity X; [ring|] end.
  apply (sumf_map_ext F zero add). intros p Hp. apply in_seq in Hp.
  unfold colmaps. rewrite nth_states_colmap.
  apply (sumf_map_ext F zero add). intros kc Hkc.
  destruct (snd kc =? rs_fc (nth q st dflt) + i); [|reflexivity].
  destruct (Hwf p ltac:(lia)) as [_ [_ [_ [Hwo [_ Hc]]]]].
  assert (Hk : fst kc < length (rs_colmap (nth p st dflt))).
  { unfold indexed in Hkc. destruct kc as [k c]. apply indexed_from_in in Hkc. cbn [fst]. lia. }
  unfold val. cbn [fst snd]. unfold ys.
  rewrite nth_states_offcols. unfold off_cols_global.
  rewrite (nth_map_default (glob_line (rs_fr (nth p st dflt))) _ (fst kc) [] []) by reflexivity.
  rewrite den_glob_line. destruct (rs_fr (nth p st dflt) <=? g); [|reflexivity].
  change (denL (nth (fst kc) (csc_cols (csr_to_csc (rs_off (nth p st dflt)))) []) (g - rs_fr (nth p st dflt)))
    with (denCsc (csr_to_csc (rs_off (nth p st dflt))) (g - rs_fr (nth p st dflt)) (fst kc)).
  apply den_csr_to_csc. exact Hwo.
Qed.

Lemma den_csr_row_overflow (A : csr F) i j : length (csr_rows A) <= i -> denCsr A i j = zero.
Proof. intros H. unfold den_csr. rewrite nth_overflow by exact H. apply (den_line_nil F zero add). Qed.

Lemma sumF_all_zero {X} (h : X -> F) l : (forall a, In a l -> h a = zero) -> sumF (map h l) = zero.
Proof.
  intros H. rewrite (sumf_map_ext F zero add h (fun _ => zero)) by exact H.
  apply (sumf_map_zero F zero one add mul sub opp Fth).
Qed.

Lemma indexed_in_snd (cm : list nat) kc : In kc (indexed cm) -> In (snd kc) cm.
Proof.
  destruct kc as [k c]. unfold indexed. intros H. apply indexed_from_in in H. destruct H as [_ H].
  cbn [snd]. eapply nth_error_In. exact H.
Qed.

Theorem par_transpose_global (w : world) (st : list (rank_state F)) (q p i li : nat) :
  let colmaps := map (fun rs => rs_colmap rs) st in
  let ids := map (fun rs => seq (rs_fc rs) (rs_nc rs)) st in
  let Q := nth q st dflt in let P := nth p st dflt in
  rev_ok w ids colmaps = true -> length w = length st -> q < length st -> p < length st ->
  (forall p', p' < length st -> st_ok (nth p' st dflt)) ->
  i < rs_nc Q -> li < rs_nr P ->
  (* contiguous row blocks and column blocks of different ranks are disjoint *)
  (forall p', p' < length st -> p' <> p ->
     ~ (rs_fr (nth p' st dflt) <= rs_fr P + li < rs_fr (nth p' st dflt) + rs_nr (nth p' st dflt))) ->
  (forall q', q' < length st -> q' <> q ->
     ~ (rs_fc (nth q' st dflt) <= rs_fc Q + i < rs_fc (nth q' st dflt) + rs_nc (nth q' st dflt))) ->
  (* a rank's own columns are not in its off-process column map *)
  (forall c, In c (rs_colmap Q) -> ~ (rs_fc Q <= c < rs_fc Q + rs_nc Q)) ->
  gdenR (par_transpose F add small w st q) i (rs_fr P + li) = dropF (gdenR P li (rs_fc Q + i)).
Proof.
  intros colmaps ids Q P Hok Hlen Hq Hp Hwf Hi Hli Hrows Hcols Hown.
  unfold par_transpose. fold Q. rewrite gden_finalize.
  set (g := rs_fr P + li). set (j := rs_fc Q + i).
  change (denCsr (mkCsr (rs_nc Q) 0 (transpose_off F w st q)) i g) with (denL (nth i (transpose_off F w st q) []) g).
  rewrite (den_transpose_off w st q i g Hok Hlen Hq Hwf Hi). fold Q j.
  (* only the owner p of global row g contributes *)
  rewrite (sumf_single F zero one add mul sub opp Fth (length st) p _ Hp).
  2:{ intros p' Hp' Hne. apply sumF_all_zero. intros kc _.
      destruct (snd kc =? j); [|reflexivity].
      destruct (rs_fr (nth p' st dflt) <=? g) eqn:E; [|reflexivity]. apply Nat.leb_le in E.
      apply den_csr_row_overflow.
      destruct (Hwf p' Hp') as [_ [_ [_ [[Hlo _] [Hnr _]]]]]. rewrite Hlo, Hnr.
      specialize (Hrows p' Hp' Hne). fold P in Hrows. fold g in Hrows. lia. }
  cbv beta. fold P.
  match goal with |- add _ (dropF ?X) = _ =>
    assert (HS : X = slot_sum (rs_colmap P) (nth li (csr_rows (rs_off P)) []) j) end.
  { unfold slot_sum. apply (sumf_map_ext F zero add). intros kc _.
    destruct (snd kc =? j); [|reflexivity].
    replace (rs_fr P <=? g) with true by (symmetry; apply Nat.leb_le; unfold g; lia).
    replace (g - rs_fr P) with li by (unfold g; lia). reflexivity. }
  rewrite HS. rewrite (gden_row_slots P li j).
  destruct (Hwf q Hq) as [Hwon [Hnr_on [Hnc_on _]]]. fold Q in Hwon, Hnr_on, Hnc_on.
  destruct (Nat.eq_dec p q) as [Epq|Npq].
  - (* the on-process block *)
    assert (EP : P = Q) by (unfold P, Q; rewrite Epq; reflexivity).
    assert (E1 : rs_fr P = rs_fr Q) by (rewrite EP; reflexivity).
    assert (E2 : rs_nr P = rs_nr Q) by (rewrite EP; reflexivity).
    rewrite EP.
    replace ((rs_fr Q <=? g) && (g <? rs_fr Q + rs_nr Q)) with true
      by (symmetry; apply andb_true_intro; split; [apply Nat.leb_le|apply Nat.ltb_lt]; unfold g; lia).
    replace ((rs_fc Q <=? j) && (j <? rs_fc Q + rs_nc Q)) with true
      by (symmetry; apply andb_true_intro; split; [apply Nat.leb_le|apply Nat.ltb_lt]; unfold j; lia).
    replace (g - rs_fr Q) with li by (unfold g; lia).
    replace (j - rs_fc Q) with i by (unfold j; lia).
    rewrite den_csr_transpose by exact Hwon.
    assert (Hz : slot_sum (rs_colmap Q) (nth li (csr_rows (rs_off Q)) []) j = zero).
    { unfold slot_sum. apply sumF_all_zero. intros kc Hkc.
      destruct (snd kc =? j) eqn:E; [|reflexivity]. apply Nat.eqb_eq in E.
      exfalso. apply (Hown (snd kc) (indexed_in_snd _ _ Hkc)). unfold j in E. lia. }
    rewrite Hz. rewrite (drop_zero F zero small).
    replace (add (denCsr (rs_on Q) li i) zero) with (denCsr (rs_on Q) li i) by ring. ring.
  - specialize (Hrows q Hq ltac:(lia)). fold Q in Hrows. fold g in Hrows.
    specialize (Hcols p Hp ltac:(lia)). fold P in Hcols. fold j in Hcols.
    replace ((rs_fr Q <=? g) && (g <? rs_fr Q + rs_nr Q)) with false.
    2:{ symmetry. apply andb_false_iff. destruct (rs_fr Q <=? g) eqn:E; [right|left; reflexivity].
        apply Nat.leb_le in E. apply Nat.ltb_ge. lia. }
    replace ((rs_fc P <=? j) && (j <? rs_fc P + rs_nc P)) with false.
    2:{ symmetry. apply andb_false_iff. destruct (rs_fc P <=? j) eqn:E; [right|left; reflexivity].
        apply Nat.leb_le in E. apply Nat.ltb_ge. lia. }
    match goal with |- add zero (dropF ?a) = dropF (add zero ?a) => replace (add zero a) with a by ring end. ring.
Qed.

(* ---------- add / subtract ---------- *)
Lemma merge_u_in x a : forall b, In x (merge_u a b) <-> In x a \/ In x b.
Proof.
  induction a as [|y a IHa]; intros b.
  - destruct b; simpl; tauto.
  - induction b as [|z b IHb]; [simpl; tauto|].
    cbn [merge_u]. destruct (y =? z) eqn:E1.
    + apply Nat.eqb_eq in E1. subst z. simpl. rewrite IHa. tauto.
    + destruct (y <? z).
      * simpl. rewrite IHa. simpl. tauto.
      * change ((fix aux (b0 : list nat) : list nat :=
                  match b0 with
                  | [] => y :: a
                  | y0 :: b' => if y =? y0 then y :: merge_u a b'
                                else if y <? y0 then y :: merge_u a b0 else y0 :: aux b'
                  end) b) with (merge_u (y :: a) b).
        simpl. simpl in IHb. rewrite IHb. tauto.
Qed.

Lemma merge_u_sorted a : forall b, StronglySorted lt a -> StronglySorted lt b -> StronglySorted lt (merge_u a b).
Proof.
  induction a as [|y a IHa]; intros b Ha Hb.
  - destruct b; simpl; assumption.
  - induction b as [|z b IHb]; [simpl; exact Ha|].
    inversion Ha as [|? ? Ha' Hya]; subst. inversion Hb as [|? ? Hb' Hzb]; subst.
    cbn [merge_u]. destruct (y =? z) eqn:E1.
    + apply Nat.eqb_eq in E1. subst z. constructor; [apply IHa; assumption|].
      apply Forall_forall. intros x Hx. apply merge_u_in in Hx. rewrite Forall_forall in Hya, Hzb.
      destruct Hx; auto.
    + apply Nat.eqb_neq in E1. destruct (y <? z) eqn:E2.
      * apply Nat.ltb_lt in E2. constructor; [apply IHa; assumption|].
        apply Forall_forall. intros x Hx. apply merge_u_in in Hx. rewrite Forall_forall in Hya, Hzb.
        destruct Hx as [Hx|[<-|Hx]]; [auto|exact E2|specialize (Hzb x Hx); lia].
      * apply Nat.ltb_ge in E2.
        change ((fix aux (b0 : list nat) : list nat :=
                  match b0 with
                  | [] => y :: a
                  | y0 :: b' => if y =? y0 then y :: merge_u a b'
                                else if y <? y0 then y :: merge_u a b0 else y0 :: aux b'
                  end) b) with (merge_u (y :: a) b).
        constructor; [apply IHb; exact Hb'|].
        apply Forall_forall. intros x Hx. apply merge_u_in in Hx. rewrite Forall_forall in Hya, Hzb.
        destruct Hx as [[<-|Hx]|Hx]; [lia|specialize (Hya x Hx); lia|auto].
Qed.

Lemma ssorted_nodup (l : list nat) : StronglySorted lt l -> NoDup l.
Proof.
  induction 1 as [|x l Hs IH Hx]; constructor; [|exact IH].
  intros Hin. rewrite Forall_forall in Hx. specialize (Hx x Hin). lia.
Qed.

Lemma index_of_nth_nodup (m : list nat) k : NoDup m -> k < length m -> index_of (nth k m 0) m = k.
Proof.
  revert k. induction m as [|y m IH]; intros k Hnd Hk; [simpl in Hk; lia|].
  inversion Hnd as [|? ? Hny Hnd']; subst. destruct k as [|k]; simpl; [rewrite Nat.eqb_refl; reflexivity|].
  simpl in Hk. destruct (nth k m 0 =? y) eqn:E.
  - apply Nat.eqb_eq in E. exfalso. apply Hny. rewrite <- E. apply nth_In. lia.
  - rewrite IH by (assumption || lia). reflexivity.
Qed.

(* a row renumbered into the merged map, read at merged slot k0, is the original row read at global column m[k0] *)
Lemma den_to_merged (cm m : list nat) (row : list (nat * F)) k0 :
  NoDup m -> k0 < length m -> (forall c, In c cm -> In c m) -> (forall p, In p row -> fst p < length cm) ->
  denL (to_merged cm m row) k0 = slot_sum cm row (nth k0 m 0).
Proof.
  intros Hnd Hk Hsub Hrow. rewrite slot_sum_glob by exact Hrow.
  induction row as [|[k v] row IH]; [reflexivity|].
  cbn [to_merged globalise map fst snd]. fold (to_merged cm m row). fold (globalise cm row).
  rewrite !(den_line_cons F zero one add mul sub opp Fth). cbn [fst snd].
  rewrite IH by (intros p Hp; apply Hrow; right; exact Hp). f_equal.
  assert (Hc : In (nth k cm 0) m) by (apply Hsub, nth_In, (Hrow (k, v)); left; reflexivity).
  destruct (nth k cm 0 =? nth k0 m 0) eqn:E.
  - apply Nat.eqb_eq in E. rewrite E, index_of_nth_nodup by assumption. rewrite Nat.eqb_refl. reflexivity.
  - apply Nat.eqb_neq in E. destruct (index_of (nth k cm 0) m =? k0) eqn:E2; [|reflexivity].
    apply Nat.eqb_eq in E2. exfalso. apply E. rewrite <- E2. rewrite index_of_nth by exact Hc. reflexivity.
Qed.

Lemma to_merged_range (cm m : list nat) (row : list (nat * F)) :
  (forall c, In c cm -> In c m) -> (forall p, In p row -> fst p < length cm) ->
  forall p, In p (to_merged cm m row) -> fst p < length m.
Proof.
  intros Hsub Hrow p Hp. unfold to_merged in Hp. apply in_map_iff in Hp. destruct Hp as [p0 [<- Hp0]].
  cbn [fst]. apply index_of_lt, Hsub, nth_In, Hrow, Hp0.
Qed.

(* remove_duplicates stores no column that was not there before *)
Lemma dedup_acc_sub (l : list (nat * F)) : forall c acc q,
  In q (dedup_acc F add small c acc l) -> fst q = c \/ In (fst q) (map fst l).
Proof.
  induction l as [|p l IH]; intros c acc q; cbn [dedup_acc].
  - unfold emit. destruct (small acc); simpl; [tauto|]. intros [<-|[]]. left; reflexivity.
  - destruct (fst p =? c) eqn:E.
    + intros H. apply IH in H. simpl. tauto.
    + intros H. apply in_app_or in H. destruct H as [H|H].
      * unfold emit in H. destruct (small acc); simpl in H; [tauto|]. destruct H as [<-|[]]. left; reflexivity.
      * apply IH in H. simpl. destruct H as [H|H]; [right; left; symmetry; exact H|right; right; exact H].
Qed.
Lemma dedup_row_sub (r : list (nat * F)) q :
  In q (dedup_line F add small (sort_line r)) -> In (fst q) (map fst r).
Proof.
  intros H. assert (Hp : Permutation (sort_line r) r) by apply sort_line_perm.
  assert (G : In (fst q) (map fst (sort_line r))).
  { destruct (sort_line r) as [|p l]; [destruct H|]. cbn [dedup_line] in H.
    apply dedup_acc_sub in H. simpl. destruct H as [H|H]; [left; symmetry; exact H|right; exact H]. }
  eapply Permutation_in; [apply Permutation_map; exact Hp|exact G].
Qed.

Lemma pair_lookup (f : nat -> nat) (l : list (nat * nat)) k :
  (forall e, In e l -> snd e = f (fst e)) -> In k (map fst l) ->
  nth (index_of k (map fst l)) (map snd l) 0 = f k.
Proof.
  induction l as [|e l IH]; intros Hf Hk; [destruct Hk|]. simpl.
  destruct (k =? fst e) eqn:E.
  - apply Nat.eqb_eq in E. subst k. apply Hf. left; reflexivity.
  - apply IH; [intros e' He'; apply Hf; right; exact He'|].
    destruct Hk as [Hk|Hk]; [rewrite Hk, Nat.eqb_refl in E; discriminate|exact Hk].
Qed.

Lemma memb_in x l : memb x l = true <-> In x l.
Proof.
  unfold memb. rewrite existsb_exists. split.
  - intros [y [Hy E]]. apply Nat.eqb_eq in E. subst. exact Hy.
  - intros H. exists x. split; [exact H|apply Nat.eqb_refl].
Qed.

(* the sum over the slots of a duplicate-free map that carry column j *)
Lemma slot_pick (m : list nat) (h : nat -> F) j : NoDup m ->
  sumF (map (fun kc => if snd kc =? j then h (fst kc) else zero) (indexed m))
  = if memb j m then h (index_of j m) else zero.
Proof.
  intros Hnd. rewrite indexed_seq, map_map. cbn [fst snd].
  destruct (memb j m) eqn:E.
  - apply memb_in in E. pose proof (index_of_lt j m E) as Hlt.
    rewrite (sumf_single F zero one add mul sub opp Fth (length m) (index_of j m) _ Hlt).
    + rewrite index_of_nth by exact E. rewrite Nat.eqb_refl. reflexivity.
    + intros i Hi Hne. destruct (nth i m 0 =? j) eqn:E2; [|reflexivity].
      apply Nat.eqb_eq in E2. exfalso. apply Hne. rewrite <- E2. symmetry. apply index_of_nth_nodup; assumption.
  - apply sumF_all_zero. intros i Hi. apply in_seq in Hi.
    destruct (nth i m 0 =? j) eqn:E2; [|reflexivity]. apply Nat.eqb_eq in E2.
    assert (In j m) by (rewrite <- E2; apply nth_In; lia). apply memb_in in H. congruence.
Qed.

Definition sgnF (neg : bool) (x : F) : F := if neg then opp x else x.
Definition sgnL (neg : bool) (r : list (nat * F)) : list (nat * F) := if neg then neg_line F opp r else r.

Lemma den_sgnL neg r k : denL (sgnL neg r) k = sgnF neg (denL r k).
Proof. destruct neg; simpl; [apply (den_neg_line F zero one add mul sub opp Fth)|reflexivity]. Qed.
Lemma sgnL_fst neg r p : In p (sgnL neg r) -> exists p0, In p0 r /\ fst p0 = fst p.
Proof.
  destruct neg; simpl; [|intros H; exists p; auto].
  unfold neg_line. intros H. apply in_map_iff in H. destruct H as [p0 [<- H]]. exists p0. auto.
Qed.
Lemma slot_sum_absent cm (row : list (nat * F)) j : ~ In j cm -> slot_sum cm row j = zero.
Proof.
  intros H. unfold slot_sum. apply sumF_all_zero. intros kc Hkc.
  destruct (snd kc =? j) eqn:E; [|reflexivity]. apply Nat.eqb_eq in E. exfalso. apply H. rewrite <- E.
  apply indexed_in_snd. exact Hkc.
Qed.
Lemma in_indexed (m : list nat) k : k < length m -> In (k, nth k m 0) (indexed m).
Proof. intros H. rewrite indexed_seq. apply in_map_iff. exists k. split; [reflexivity|apply in_seq; lia]. Qed.
Lemma indexed_snd_eq (m : list nat) e : In e (indexed m) -> snd e = nth (fst e) m 0.
Proof. rewrite indexed_seq. intros H. apply in_map_iff in H. destruct H as [k [<- _]]. reflexivity. Qed.

(* the on-process block of the sum *)
Lemma den_sum_block neg nr nc (RA RB : list (list (nat * F))) li c :
  length RB <= length RA ->
  denCsr (csr_remove_duplicates F add small (mkCsr nr nc (zip_rows F RA (map (sgnL neg) RB)))) li c
  = dropF (add (denL (nth li RA []) c) (sgnF neg (denL (nth li RB []) c))).
Proof.
  intros Hl. rewrite (den_csr_remove_duplicates F zero one add mul sub opp Fth). f_equal.
  unfold den_csr. cbn [csr_rows]. rewrite nth_zip_rows by (rewrite map_length; exact Hl).
  rewrite (den_line_app F zero one add mul sub opp Fth). f_equal.
  rewrite (nth_map_default (sgnL neg) RB li [] []) by (destruct neg; reflexivity).
  apply den_sgnL.
Qed.

Theorem par_add_global (neg : bool) (A B : rank_state F) li j :
  st_ok A -> st_ok B -> rs_nr B = rs_nr A -> rs_nc B = rs_nc A -> rs_fc B = rs_fc A ->
  StronglySorted lt (rs_colmap A) -> StronglySorted lt (rs_colmap B) ->
  (forall c, In c (rs_colmap A) \/ In c (rs_colmap B) -> ~ (rs_fc A <= c < rs_fc A + rs_nc A)) ->
  gdenR (par_add_local F add opp small neg A B) li j
  = dropF (add (gdenR A li j) (sgnF neg (gdenR B li j))).
Proof.
  intros [HwonA [HnrA [HncA [HwoffA [HnroA HncoA]]]]] [HwonB [HnrB [HncB [HwoffB [HnroB HncoB]]]]]
         Enr Enc Efc HsA HsB Hown.
  set (m := merge_u (rs_colmap A) (rs_colmap B)).
  assert (Hnd : NoDup m) by (apply ssorted_nodup, merge_u_sorted; assumption).
  assert (HsubA : forall c, In c (rs_colmap A) -> In c m) by (intros c Hc; apply merge_u_in; left; exact Hc).
  assert (HsubB : forall c, In c (rs_colmap B) -> In c m) by (intros c Hc; apply merge_u_in; right; exact Hc).
  set (rowA := nth li (csr_rows (rs_off A)) []). set (rowB := nth li (csr_rows (rs_off B)) []).
  assert (HrA : forall p, In p rowA -> fst p < length (rs_colmap A))
    by (intros p Hp; rewrite <- HncoA; apply (row_in_range _ li); assumption).
  assert (HrB : forall p, In p rowB -> fst p < length (rs_colmap B))
    by (intros p Hp; rewrite <- HncoB; apply (row_in_range _ li); assumption).
  rewrite (gden_row_slots A), (gden_row_slots B), Efc, Enc. fold rowA rowB.
  rewrite gden_row_slots. unfold par_add_local. fold m.
  cbn [rs_fc rs_nc rs_on rs_off rs_colmap csr_rows].
  change (fun r : list (nat * F) => if neg then neg_line F opp r else r) with (sgnL neg).
  set (RA := map (to_merged (rs_colmap A) m) (csr_rows (rs_off A))).
  set (RB0 := map (to_merged (rs_colmap B) m) (csr_rows (rs_off B))).
  change (fun r : list (nat * F) => if neg then neg_line F opp (to_merged (rs_colmap B) m r) else to_merged (rs_colmap B) m r)
    with (fun r : list (nat * F) => sgnL neg (to_merged (rs_colmap B) m r)).
  replace (map (fun r => sgnL neg (to_merged (rs_colmap B) m r)) (csr_rows (rs_off B)))
    with (map (sgnL neg) RB0) by (unfold RB0; rewrite map_map; reflexivity).
  set (off := csr_remove_duplicates F add small (mkCsr (rs_nr A) (length m) (zip_rows F RA (map (sgnL neg) RB0)))).
  set (keep := filter (fun kc : nat * nat => memb (fst kc) (flat_map (map fst) (csr_rows off))) (indexed m)).
  set (row := nth li (csr_rows off) []).
  assert (HlenR : length RB0 <= length RA).
  { unfold RA, RB0. rewrite !map_length. destruct HwoffA as [La _], HwoffB as [Lb _]. lia. }
  assert (HRA : nth li RA [] = to_merged (rs_colmap A) m rowA)
    by (unfold RA; apply (nth_map_default (to_merged (rs_colmap A) m)); reflexivity).
  assert (HRB : nth li RB0 [] = to_merged (rs_colmap B) m rowB)
    by (unfold RB0; apply (nth_map_default (to_merged (rs_colmap B) m)); reflexivity).
  (* slots of the merged row *)
  assert (Hrow_range : forall p, In p row -> fst p < length m).
  { intros p Hp. unfold row, off in Hp. cbn [csr_remove_duplicates csr_rows] in Hp.
    rewrite (nth_map_default (fun r => dedup_line F add small (sort_line r)) _ li [] []) in Hp by reflexivity.
    apply dedup_row_sub in Hp. rewrite nth_zip_rows in Hp by (rewrite map_length; exact HlenR).
    rewrite map_app in Hp. apply in_app_or in Hp.
    rewrite (nth_map_default (sgnL neg) RB0 li [] []) in Hp by (destruct neg; reflexivity).
    rewrite HRA, HRB in Hp. destruct Hp as [Hp|Hp]; apply in_map_iff in Hp; destruct Hp as [p0 [E Hp0]]; rewrite <- E.
    - apply (to_merged_range (rs_colmap A) m rowA HsubA HrA). exact Hp0.
    - apply sgnL_fst in Hp0. destruct Hp0 as [p1 [Hp1 <-]].
      apply (to_merged_range (rs_colmap B) m rowB HsubB HrB). exact Hp1. }
  assert (Hrow_keep : forall p, In p row -> In (fst p) (map fst keep)).
  { intros p Hp. apply in_map_iff. exists (fst p, nth (fst p) m 0). split; [reflexivity|].
    apply filter_In. split; [apply in_indexed, Hrow_range, Hp|].
    cbn [fst]. apply memb_in. apply (in_row_cols _ li). exact Hp. }
  (* the off-process part *)
  assert (Hoff : slot_sum (map snd keep) (nth li (map (renum_line (map fst keep)) (csr_rows off)) []) j
                 = if memb j m then dropF (add (slot_sum (rs_colmap A) rowA j) (sgnF neg (slot_sum (rs_colmap B) rowB j)))
                   else zero).
  { rewrite (nth_map_default (renum_line (map fst keep)) (csr_rows off) li [] []) by reflexivity. fold row.
    rewrite slot_sum_glob.
    2:{ intros p Hp. unfold renum_line in Hp. apply in_map_iff in Hp. destruct Hp as [p0 [<- Hp0]]. cbn [fst].
        rewrite map_length. rewrite <- (map_length fst keep). apply index_of_lt, Hrow_keep, Hp0. }
    replace (globalise (map snd keep) (renum_line (map fst keep) row)) with (globalise m row).
    2:{ unfold globalise, renum_line. rewrite map_map. apply map_ext_in. intros p Hp. cbn [fst snd]. f_equal.
        symmetry. apply (pair_lookup (fun k => nth k m 0)); [|apply Hrow_keep; exact Hp].
        intros e He. apply filter_In in He. apply indexed_snd_eq. apply He. }
    rewrite <- slot_sum_glob by exact Hrow_range. unfold slot_sum at 1.
    rewrite (slot_pick m (fun k => denL row k) j Hnd).
    destruct (memb j m) eqn:Ej; [|reflexivity]. apply memb_in in Ej.
    pose proof (index_of_lt j m Ej) as Hk0. pose proof (index_of_nth j m Ej) as Hk0j.
    set (k0 := index_of j m) in *.
    change (denL row k0) with (denCsr off li k0). unfold off.
    rewrite (den_sum_block neg (rs_nr A) (length m) RA RB0 li k0 HlenR). rewrite HRA, HRB.
    rewrite (den_to_merged (rs_colmap A) m rowA k0 Hnd Hk0 HsubA HrA).
    rewrite (den_to_merged (rs_colmap B) m rowB k0 Hnd Hk0 HsubB HrB). rewrite Hk0j. reflexivity. }
  rewrite Hoff. clear Hoff.
  (* the on-process part *)
  assert (Hon : forall c, denCsr (csr_move_diag (csr_remove_duplicates F add small
                   (mkCsr (rs_nr A) (rs_nc A) (zip_rows F (csr_rows (rs_on A)) (map (sgnL neg) (csr_rows (rs_on B))))))) li c
                = dropF (add (denCsr (rs_on A) li c) (sgnF neg (denCsr (rs_on B) li c)))).
  { intros c. rewrite (den_csr_move_diag F zero one add mul sub opp Fth).
    apply den_sum_block. destruct HwonA as [La _], HwonB as [Lb _]. lia. }
  rewrite Hon. clear Hon.
  destruct ((rs_fc A <=? j) && (j <? rs_fc A + rs_nc A)) eqn:Erange.
  - apply andb_prop in Erange. destruct Erange as [E1 E2]. apply Nat.leb_le in E1. apply Nat.ltb_lt in E2.
    assert (HnA : ~ In j (rs_colmap A)) by (intros H; apply (Hown j (or_introl H)); lia).
    assert (HnB : ~ In j (rs_colmap B)) by (intros H; apply (Hown j (or_intror H)); lia).
    replace (memb j m) with false.
    2:{ symmetry. destruct (memb j m) eqn:E; [|reflexivity]. apply memb_in in E. apply merge_u_in in E. tauto. }
    rewrite (slot_sum_absent _ rowA j HnA), (slot_sum_absent _ rowB j HnB).
    match goal with |- add (dropF ?x) zero = dropF ?y => replace y with x by (destruct neg; simpl; ring) end. ring.
  - destruct (memb j m) eqn:Ej.
    + match goal with |- add zero (dropF ?x) = dropF ?y => replace y with x by (destruct neg; simpl; ring) end. ring.
    + assert (HnA : ~ In j (rs_colmap A)).
      { intros H. apply HsubA in H. apply memb_in in H. congruence. }
      assert (HnB : ~ In j (rs_colmap B)).
      { intros H. apply HsubB in H. apply memb_in in H. congruence. }
      rewrite (slot_sum_absent _ rowA j HnA), (slot_sum_absent _ rowB j HnB).
      match goal with |- _ = dropF ?y => replace y with zero by (destruct neg; simpl; ring) end.
      rewrite (drop_zero F zero small). ring.
Qed.

End ParConvProofs.
