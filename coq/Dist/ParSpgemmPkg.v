(* The row exchange of the distributed products (comm_mat.cpp: matrix communicate: every rank packs, for each
   of its send indices, the row of B it owns (on-process entries, then off-process entries, global columns) and the
   requester unpacks them in column-map order) is the forward exchange of Dist/Comm.v with payload "row".
   Because that exchange is natural in its payload, one check of the package on ids (fwd_ok, property C03) discharges
   the hypothesis "fetch delivers the owner's row" of the C06 / C16 theorems. *)
From Coq Require Import List Arith Lia Bool Permutation.
Import ListNotations.
From Raptor Require Import Base.Sums Sparse.Defs Sparse.Spgemm Dist.Comm Dist.CommProofs Dist.ParMat Dist.ParSpgemm.

Section RowExchange.
Variable F : Type.

(* what rank r finds in its receive buffer at the slot of global row k *)
Definition fetch_pkg (w : world) (ids colmaps : list (list nat)) (B : csr F) (pk pc : list nat) (r k : nat)
  : list (nat * F) :=
  nth (index_of k (nth r colmaps []))
      (forward [] w (map (map (fun i => owner_row F B pk pc i)) ids) r) [].

Lemma index_of_lt' c (cm : list nat) : In c cm -> index_of c cm < length cm.
Proof.
  induction cm as [|y cm IH]; intros H; [destruct H|]. simpl.
  destruct (c =? y) eqn:E; [lia|].
  assert (H0 : In c cm) by (destruct H as [->|H]; [rewrite Nat.eqb_refl in E; discriminate|exact H]).
  specialize (IH H0). lia.
Qed.
Lemma index_of_nth' c (cm : list nat) : In c cm -> nth (index_of c cm) cm 0 = c.
Proof.
  induction cm as [|y cm IH]; intros H; [destruct H|]. simpl.
  destruct (c =? y) eqn:E; [apply Nat.eqb_eq in E; subst; reflexivity|].
  apply IH. destruct H as [->|H]; [rewrite Nat.eqb_refl in E; discriminate|exact H].
Qed.

Lemma owner_row_as_nth (B : csr F) pk pc k :
  owner_row F B pk pc k = nth k (map (owner_row F B pk pc) (seq 0 (length (csr_rows B)))) [].
Proof.
  destruct (Nat.lt_ge_cases k (length (csr_rows B))) as [Hlt|Hge].
  - rewrite (nth_indep _ [] (owner_row F B pk pc 0)) by (rewrite map_length, seq_length; exact Hlt).
    rewrite map_nth, seq_nth by exact Hlt. reflexivity.
  - rewrite nth_overflow by (rewrite map_length, seq_length; exact Hge).
    unfold owner_row. rewrite (nth_overflow (csr_rows B)) by exact Hge. reflexivity.
Qed.

Theorem fetch_pkg_delivers (w : world) (ids colmaps : list (list nat)) (big : nat) (B : csr F) pk pc r k :
  fwd_ok w ids colmaps big = true -> length (csr_rows B) <= big -> r < length w ->
  In k (nth r colmaps []) ->
  fetch_pkg w ids colmaps B pk pc r k = owner_row F B pk pc k.
Proof.
  intros Hok Hbig Hr Hk. unfold fetch_pkg.
  set (X := map (owner_row F B pk pc) (seq 0 (length (csr_rows B)))).
  replace (map (map (fun i => owner_row F B pk pc i)) ids) with (map (map (fun i => nth i X [])) ids).
  2:{ apply map_ext. intros l. apply map_ext. intros i. symmetry. apply owner_row_as_nth. }
  assert (HX : length X <= big) by (unfold X; rewrite map_length, seq_length; exact Hbig).
  rewrite (forward_delivers [] w ids colmaps big X Hok HX r Hr).
  pose proof (index_of_lt' k _ Hk) as Hlt.
  rewrite (nth_indep _ [] (nth 0 X [])) by (rewrite map_length; exact Hlt).
  rewrite (map_nth (fun c => nth c X [])). rewrite index_of_nth' by exact Hk.
  symmetry. apply owner_row_as_nth.
Qed.

(* ---------- the reverse row exchange of mult_T (mult_T_combine): rank s sends, for every slot of its column map,
   the row of its partial product (A_off)^T B that belongs to the owner of that global row; the owner appends what
   it receives.  This is the reverse exchange with payload "row" and reduction "append". ---------- *)
Definition slot_rows (tmp : csr F) (cm : list nat) : list (list (nat * F)) :=
  map (fun g => nth g (csr_rows tmp) []) cm.
Definition fetchT_ys (tmps : list (csr F)) (colmaps : list (list nat)) : list (list (list (nat * F))) :=
  map (fun sc => slot_rows (fst sc) (snd sc)) (combine tmps colmaps).
Definition fetchT_pkg (w : world) (colmaps : list (list nat)) (tmps : list (csr F)) (nloc : nat) (r li : nat)
  : list (nat * F) :=
  nth li (reverse (fun (b a : list (nat * F)) => b ++ a) w (fetchT_ys tmps colmaps) (repeat [] nloc) r) [].

Lemma fold_app_concat {X} (ls : list (list X)) acc : fold_left (fun b a => b ++ a) ls acc = acc ++ concat ls.
Proof.
  revert acc. induction ls as [|l ls IH]; intros acc; simpl; [rewrite app_nil_r; reflexivity|].
  rewrite IH, app_assoc. reflexivity.
Qed.
Lemma perm_flat_map {X Y} (f : X -> list Y) l l' : Permutation l l' -> Permutation (flat_map f l) (flat_map f l').
Proof.
  induction 1; simpl.
  - constructor.
  - apply Permutation_app_head. assumption.
  - rewrite !app_assoc. apply Permutation_app_tail. apply Permutation_app_comm.
  - eapply Permutation_trans; eassumption.
Qed.
Lemma flat_map_flat_map {X Y Z} (f : X -> list Y) (g : Y -> list Z) l :
  flat_map g (flat_map f l) = flat_map (fun x => flat_map g (f x)) l.
Proof. induction l as [|x l IH]; simpl; [reflexivity|]. rewrite flat_map_app, IH. reflexivity. Qed.
Lemma flat_map_ext_in' {X Y} (f g : X -> list Y) l : (forall x, In x l -> f x = g x) -> flat_map f l = flat_map g l.
Proof.
  induction l as [|x l IH]; intros H; simpl; [reflexivity|].
  rewrite (H x) by (left; reflexivity). f_equal. apply IH. intros y Hy. apply H. right. exact Hy.
Qed.
Lemma flat_map_combine_seq {X Y} (f : nat * X -> list Y) (l : list X) (d : X) : forall t,
  flat_map f (combine (seq t (length l)) l) = flat_map (fun p => f (p, nth (p - t) l d)) (seq t (length l)).
Proof.
  induction l as [|x l IH]; intros t; simpl; [reflexivity|].
  replace (t - t) with 0 by lia. f_equal. rewrite IH. apply flat_map_ext_in'.
  intros p Hp. apply in_seq in Hp. replace (p - t) with (S (p - S t)) by lia. reflexivity.
Qed.

(* the slots of a duplicate-free column map that carry the global row g: at most one *)
Lemma one_slot {Y} (cm : list nat) (g : nat) (h : nat -> list Y) (X : list Y) : forall t,
  NoDup cm -> (forall j, j < length cm -> nth j cm 0 = g -> h (t + j) = X) ->
  flat_map (fun jc => if snd jc =? g then h (fst jc) else []) (combine (seq t (length cm)) cm)
  = if existsb (Nat.eqb g) cm then X else [].
Proof.
  induction cm as [|c cm IH]; intros t Hnd Hh; [reflexivity|].
  inversion Hnd as [|? ? Hnc Hnd']; subst. cbn [length seq combine flat_map snd fst existsb].
  destruct (c =? g) eqn:E.
  - apply Nat.eqb_eq in E. subst c. rewrite Nat.eqb_refl. cbn [orb].
    assert (H0 : h t = X) by (replace t with (t + 0) by lia; apply Hh; [simpl; lia|reflexivity]).
    rewrite H0. rewrite (IH (S t) Hnd').
    + replace (existsb (Nat.eqb g) cm) with false; [rewrite app_nil_r; reflexivity|].
      symmetry. destruct (existsb (Nat.eqb g) cm) eqn:E2; [|reflexivity].
      apply existsb_exists in E2. destruct E2 as [y [Hy Ey]]. apply Nat.eqb_eq in Ey. subst y. contradiction.
    + intros j Hj Hg. exfalso. apply Hnc. rewrite <- Hg. apply nth_In. exact Hj.
  - replace (g =? c) with false by (symmetry; rewrite Nat.eqb_sym; exact E). cbn [orb app].
    apply (IH (S t) Hnd'). intros j Hj Hg. replace (S t + j) with (t + S j) by lia. apply Hh; [simpl; lia|exact Hg].
Qed.

Theorem fetchT_pkg_perm (w : world) (ids colmaps : list (list nat)) (tmps : list (csr F)) r li i :
  rev_ok w ids colmaps = true -> r < length w -> length colmaps = length tmps ->
  li < length (nth r ids []) -> nth li (nth r ids []) 0 = i ->
  (forall s, NoDup (nth s colmaps [])) ->
  (forall s, s < length tmps -> s <> r ->
     nth i (csr_rows (nth s tmps (mkCsr 0 0 []))) [] <> [] -> In i (nth s colmaps [])) ->
  ~ In i (nth r colmaps []) ->
  Permutation (fetchT_pkg w colmaps tmps (length (nth r ids [])) r li)
              (flat_map (fun s => if s =? r then [] else nth i (csr_rows (nth s tmps (mkCsr 0 0 []))) [])
                        (seq 0 (length tmps))).
Proof.
  intros Hok Hr Hlen Hli Hi Hnd Hcov Hown. unfold fetchT_pkg.
  set (ys := fetchT_ys tmps colmaps).
  set (init := repeat (@nil (nat * F)) (length (nth r ids []))).
  rewrite (reverse_hom (@nil (nat * F)) (fun b a => b ++ a) ys w init r).
  assert (Hys_len : map (@length (list (nat * F))) ys = map (@length nat) colmaps).
  { unfold ys, fetchT_ys. rewrite map_map. clear - Hlen. revert tmps Hlen.
    induction colmaps as [|cm cms IH]; intros [|t ts] Hl; simpl in *; try discriminate; [reflexivity|].
    f_equal; [unfold slot_rows; apply map_length|apply IH; lia]. }
  assert (Hinit : length init = length (nth r ids [])) by apply repeat_length.
  unfold rev_ok in Hok. rewrite forallb_forall in Hok. specialize (Hok r).
  rewrite in_seq in Hok. specialize (Hok ltac:(lia)).
  apply andb_prop in Hok. destruct Hok as [Hl Hw]. apply Nat.eqb_eq in Hl.
  rewrite Hys_len, Hinit.
  set (rs := reverse_sym w (map (@length nat) colmaps) (length (nth r ids [])) r) in *.
  rewrite nth_indep with (d' := foldtok (@nil (nat * F)) (fun b a => b ++ a) ys ([], []))
    by (rewrite map_length, combine_length; lia).
  rewrite map_nth. rewrite combine_nth by lia.
  unfold foldtok; cbn [fst snd]. rewrite fold_app_concat.
  replace (nth li init []) with (@nil (nat * F)) by (symmetry; unfold init; apply nth_repeat).
  cbn [app]. rewrite <- flat_map_concat_map.
  assert (Hperm : Permutation (nth li rs []) (expected_wires colmaps i)).
  { rewrite forallb_forall in Hw. specialize (Hw (li, nth li rs [])). cbn [fst snd] in Hw.
    rewrite Hi in Hw. apply same_pairs_perm. apply Hw.
    assert (E : (li, nth li rs []) = nth li (combine (seq 0 (length rs)) rs) (0, [])).
    { rewrite combine_nth by apply seq_length. rewrite seq_nth by lia. reflexivity. }
    rewrite E. apply nth_In. rewrite combine_length, seq_length. lia. }
  eapply Permutation_trans; [apply perm_flat_map; exact Hperm|].
  (* the expected wires, rank by rank *)
  unfold expected_wires. rewrite flat_map_flat_map.
  rewrite (flat_map_combine_seq _ colmaps [] 0). rewrite Hlen.
  match goal with |- Permutation ?a ?b => replace a with b; [apply Permutation_refl|] end.
  apply flat_map_ext_in'. intros s Hs. apply in_seq in Hs. rewrite Nat.sub_0_r. cbn [fst snd].
  rewrite flat_map_flat_map.
  set (row := nth i (csr_rows (nth s tmps (mkCsr 0 0 []))) []).
  rewrite (flat_map_ext_in' _ (fun jc : nat * nat => if snd jc =? i then val (@nil (nat * F)) ys (s, fst jc) else [])).
  2:{ intros jc _. destruct (snd jc =? i); simpl; [rewrite app_nil_r; reflexivity|reflexivity]. }
  rewrite (one_slot (nth s colmaps []) i (fun j => val (@nil (nat * F)) ys (s, j)) row 0 (Hnd s)).
  2:{ intros j Hj Hg. unfold val. cbn [fst snd plus].
      unfold ys, fetchT_ys.
      rewrite (nth_indep _ [] (slot_rows (fst (@mkCsr F 0 0 [], @nil nat)) (snd (@mkCsr F 0 0 [], @nil nat))))
        by (rewrite map_length, combine_length; lia).
      rewrite (map_nth (fun sc : csr F * list nat => slot_rows (fst sc) (snd sc))).
      rewrite combine_nth by (symmetry; exact Hlen). cbn [fst snd]. unfold slot_rows.
      rewrite (nth_indep _ [] (nth 0 (csr_rows (nth s tmps (mkCsr 0 0 []))) [])) by (rewrite map_length; exact Hj).
      rewrite (map_nth (fun g => nth g (csr_rows (nth s tmps (mkCsr 0 0 []))) [])). rewrite Hg. reflexivity. }
  destruct (s =? r) eqn:Esr.
  - apply Nat.eqb_eq in Esr. subst s.
    destruct (existsb (Nat.eqb i) (nth r colmaps [])) eqn:E; [|reflexivity].
    apply existsb_exists in E. destruct E as [y [Hy Ey]]. apply Nat.eqb_eq in Ey. subst y. contradiction.
  - apply Nat.eqb_neq in Esr.
    destruct (existsb (Nat.eqb i) (nth s colmaps [])) eqn:E; [reflexivity|].
    destruct row as [|x row'] eqn:Erow; [reflexivity|]. exfalso.
    assert (Hin : In i (nth s colmaps [])).
    { apply Hcov; [lia|exact Esr|]. fold row. rewrite Erow. discriminate. }
    assert (E' : existsb (Nat.eqb i) (nth s colmaps []) = true)
      by (apply existsb_exists; exists i; split; [exact Hin|apply Nat.eqb_refl]).
    congruence.
Qed.

End RowExchange.
