(* The row exchange of the distributed products (comm_mat.cpp: matrix communicate: every rank packs, for each
   of its send indices, the row of B it owns (on-process entries, then off-process entries, global columns) and the
   requester unpacks them in column-map order) is the forward exchange of Dist/Comm.v with payload "row".
   Because that exchange is natural in its payload, one check of the package on ids (fwd_ok, property C03) discharges
   the hypothesis "fetch delivers the owner's row" of the C06 / C16 theorems. *)
From Coq Require Import List Arith Lia Bool.
Import ListNotations.
From Raptor Require Import Base.Sums Sparse.Defs Sparse.Spgemm Dist.Comm Dist.CommProofs Dist.ParMat Dist.ParSpgemm.

Section RowExchange.
Variable F : Type.

(* what rank r finds in its receive buffer at the slot of global row k *)
Definition fetch_pkg (w : world) (ids colmaps : list (list nat)) (B : csr F) (pk pc : list nat) (r k : nat)
  : list (nat * F) :=
  nth (index_of k (nth r colmaps []))
      (forward [] w (map (map (fun i => owner_row F B pk pc i)) ids) r) [].

Lemma index_of_lt' c (cm : list nat) : In c cm -> index_of c cm < length cm.
Proof.
  induction cm as [|y cm IH]; intros H; [destruct H|]. simpl.
  destruct (c =? y) eqn:E; [lia|].
  assert (H0 : In c cm) by (destruct H as [->|H]; [rewrite Nat.eqb_refl in E; discriminate|exact H]).
  specialize (IH H0). lia.
Qed.
Lemma index_of_nth' c (cm : list nat) : In c cm -> nth (index_of c cm) cm 0 = c.
Proof.
  induction cm as [|y cm IH]; intros H; [destruct H|]. simpl.
  destruct (c =? y) eqn:E; [apply Nat.eqb_eq in E; subst; reflexivity|].
  apply IH. destruct H as [->|H]; [rewrite Nat.eqb_refl in E; discriminate|exact H].
Qed.

Lemma owner_row_as_nth (B : csr F) pk pc k :
  owner_row F B pk pc k = nth k (map (owner_row F B pk pc) (seq 0 (length (csr_rows B)))) [].
Proof.
  destruct (Nat.lt_ge_cases k (length (csr_rows B))) as [Hlt|Hge].
  - rewrite (nth_indep _ [] (owner_row F B pk pc 0)) by (rewrite map_length, seq_length; exact Hlt).
    rewrite map_nth, seq_nth by exact Hlt. reflexivity.
  - rewrite nth_overflow by (rewrite map_length, seq_length; exact Hge).
    unfold owner_row. rewrite (nth_overflow (csr_rows B)) by exact Hge. reflexivity.
Qed.

Theorem fetch_pkg_delivers (w : world) (ids colmaps : list (list nat)) (big : nat) (B : csr F) pk pc r k :
  fwd_ok w ids colmaps big = true -> length (csr_rows B) <= big -> r < length w ->
  In k (nth r colmaps []) ->
  fetch_pkg w ids colmaps B pk pc r k = owner_row F B pk pc k.
Proof.
  intros Hok Hbig Hr Hk. unfold fetch_pkg.
  set (X := map (owner_row F B pk pc) (seq 0 (length (csr_rows B)))).
  replace (map (map (fun i => owner_row F B pk pc i)) ids) with (map (map (fun i => nth i X [])) ids).
  2:{ apply map_ext. intros l. apply map_ext. intros i. symmetry. apply owner_row_as_nth. }
  assert (HX : length X <= big) by (unfold X; rewrite map_length, seq_length; exact Hbig).
  rewrite (forward_delivers [] w ids colmaps big X Hok HX r Hr).
  pose proof (index_of_lt' k _ Hk) as Hlt.
  rewrite (nth_indep _ [] (nth 0 X [])) by (rewrite map_length; exact Hlt).
  rewrite (map_nth (fun c => nth c X [])). rewrite index_of_nth' by exact Hk.
  symmetry. apply owner_row_as_nth.
Qed.

End RowExchange.
