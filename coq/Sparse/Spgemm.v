(* Executable model of raptor's sequential sparse matrix-matrix products
   (raptor/util/linalg/matmult.cpp): spgemm_helper / spgemm_T_helper as written, with the
   linked-list accumulator (next, head, length, sums), the emission order (most recently
   touched column first), the drop  fabs(sum) > zero_tol  applied after accumulation, the
   optional B_to_C / C_map renumbering, and the entry points Matrix::mult / Matrix::mult_T
   with the conversions they perform.  Definitions only; proofs are in SpgemmProofs.v. *)
From Raptor Require Import Base.Sums Sparse.Defs.

(* v[i] = x  (no effect when i is out of range; never out of range under the wf hypotheses) *)
Fixpoint lset {X} (l : list X) (i : nat) (v : X) : list X :=
  match l, i with
  | [], _ => []
  | _ :: l', O => v :: l'
  | x :: l', S i' => x :: lset l' i' v
  end.

(* one cell of the C++ array  next :  -1 (column not in the list) | -2 (end of list) | column *)
Definition nxt := option (option nat).
Definition nxt_free : nxt := None.                 (* -1 *)
Definition nxt_end : option nat := None.           (* -2 as a link / as head *)

Section Spgemm.
Variable F : Type.
Variables (zero : F) (add mul : F -> F -> F).
Variable smallm : F -> bool.   (* fabs(v) <= zero_tol : the value is NOT kept (code keeps v iff fabs(v) > zero_tol) *)

Record accst := mkAcc { a_next : list nxt; a_sums : list F; a_head : option nat; a_len : nat }.

(* innermost loop body:  sums[col_B] += val_A*val_B;  if (next[col_B] == -1) push col_B *)
Definition acc_touch (st : accst) (col : nat) (p : F) : accst :=
  let sums' := lset (a_sums st) col (add (nth col (a_sums st) zero) p) in
  match nth col (a_next st) nxt_free with
  | None => mkAcc (lset (a_next st) col (Some (a_head st))) sums' (Some col) (S (a_len st))
  | Some _ => mkAcc (a_next st) sums' (a_head st) (a_len st)
  end.

(* the two nested loops over row i of A and the rows of B it selects *)
Definition acc_row (Brows : list (list (nat * F))) (arow : list (nat * F)) (st : accst) : accst :=
  fold_left (fun st pa =>
     fold_left (fun st pb => acc_touch st (fst pb) (mul (snd pa) (snd pb))) (nth (fst pa) Brows []) st)
    arow st.

(* the emission loop  for (j = 0; j < length; j++) : walks the list from head, keeps the sums
   with fabs > zero_tol, resets next[] and sums[] for the next row *)
Fixpoint acc_emit (renum : nat -> nat) (len : nat) (head : option nat) (next : list nxt) (sums : list F)
  : list (nat * F) * (list nxt * list F) :=
  match len with
  | O => ([], (next, sums))
  | S l =>
    match head with
    | None => ([], (next, sums))        (* head == -2 with length > 0 : unreachable (lemma acc_row_inv) *)
    | Some h =>
      let s := nth h sums zero in
      let out := if smallm s then [] else [(renum h, s)] in
      let head' := match nth h next nxt_free with Some x => x | None => nxt_end end in
      let r := acc_emit renum l head' (lset next h nxt_free) (lset sums h zero) in
      (out ++ fst r, snd r)
    end
  end.

(* outer loop over the rows of A; next and sums are allocated once and carried from row to row *)
Fixpoint spgemm_rows (renum : nat -> nat) (Brows Arows : list (list (nat * F)))
         (next : list nxt) (sums : list F) : list (list (nat * F)) :=
  match Arows with
  | [] => []
  | ar :: rest =>
    let st := acc_row Brows ar (mkAcc next sums nxt_end 0) in
    let r := acc_emit renum (a_len st) (a_head st) (a_next st) (a_sums st) in
    fst r :: spgemm_rows renum Brows rest (fst (snd r)) (snd (snd r))
  end.

(* the optional argument B_to_C / C_map (NULL = no renumbering) *)
Definition renum_of (m : option (list nat)) (c : nat) : nat :=
  match m with None => c | Some l => nth c l 0 end.

(* C = A * B ;  C is (A->n_rows) x (B->n_cols) whatever the renumbering *)
Definition spgemm_helper (A B : csr F) (b2c : option (list nat)) : csr F :=
  mkCsr (csr_nr A) (csr_nc B)
        (spgemm_rows (renum_of b2c) (csr_rows B) (csr_rows A)
                     (repeat nxt_free (csr_nc B)) (repeat zero (csr_nc B))).

(* C = A^T * B with A in CSC: the same loops over the columns of A; C is (A->n_cols) x (B->n_cols) *)
Definition spgemm_T_helper (A : csc F) (B : csr F) (cmap : option (list nat)) : csr F :=
  mkCsr (csc_nc A) (csr_nc B)
        (spgemm_rows (renum_of cmap) (csr_rows B) (csc_cols A)
                     (repeat nxt_free (csr_nc B)) (repeat zero (csr_nc B))).

(* ---- entry points: Matrix::mult and Matrix::mult_T with a CSRMatrix, CSCMatrix or COOMatrix argument ---- *)
Inductive smat := MCoo (a : coo F) | MCsr (a : csr F) | MCsc (a : csc F).

(* the receiver's spgemm / spgemm_T: a CSR receiver is used as it is, COO / CSC call to_CSR();
   the argument overloads: a CSR (CSC for mult_T) argument is used as it is, the others are converted *)
Definition smat_to_csr (m : smat) : csr F :=
  match m with MCoo a => coo_to_csr a | MCsr a => a | MCsc a => csc_to_csr a end.
Definition smat_to_csc (m : smat) : csc F :=
  match m with MCoo a => coo_to_csc a | MCsr a => csr_to_csc a | MCsc a => a end.

(* A->mult(B, B_to_C) *)
Definition mat_mult (A B : smat) (b2c : option (list nat)) : csr F :=
  spgemm_helper (smat_to_csr A) (smat_to_csr B) b2c.
(* B->mult_T(A, C_map)  =  A^T * B *)
Definition mat_mult_T (B A : smat) (cmap : option (list nat)) : csr F :=
  spgemm_T_helper (smat_to_csc A) (smat_to_csr B) cmap.

(* the coarse operator as the solvers form it:  AP = A->mult(P);  Ac = AP->mult_T(P_csc) *)
Definition galerkin (A P : smat) : csr F :=
  mat_mult_T (MCsr (mat_mult A P None)) P None.

End Spgemm.

Arguments mkAcc {F}. Arguments a_next {F}. Arguments a_sums {F}. Arguments a_head {F}. Arguments a_len {F}.
Arguments MCoo {F}. Arguments MCsr {F}. Arguments MCsc {F}.
Arguments smat_to_csr {F}. Arguments smat_to_csc {F}.
