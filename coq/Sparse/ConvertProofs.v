(* C07 (sequential part): conversions, transposes preserve / transpose the represented operator. *)
From Raptor Require Import Base.Sums Sparse.Defs.

Section ConvProofs.
Variable F : Type.
Variables (zero one : F) (add mul sub : F -> F -> F) (opp : F -> F).
Variable Fth : ring_theory zero one add mul sub opp (@eq F).
Add Ring Fring2 : Fth.

Notation sumF := (sumf F zero add).
Notation denL := (den_line F zero add).
Notation denCoo := (den_coo F zero add).
Notation denCsr := (den_csr F zero add).
Notation denCsc := (den_csc F zero add).

Lemma den_line_nil j : denL [] j = zero.
Proof. reflexivity. Qed.

Lemma den_line_app r1 r2 j : denL (r1 ++ r2) j = add (denL r1 j) (denL r2 j).
Proof. unfold den_line. rewrite filter_app, map_app. apply (sumf_app F zero one add mul sub opp Fth). Qed.

Lemma Permutation_filter' {X} (p : X -> bool) l1 l2 :
  Permutation l1 l2 -> Permutation (filter p l1) (filter p l2).
Proof.
  induction 1 as [|x l1 l2 H IH|x y l|l1 l2 l3 H1 IH1 H2 IH2]; simpl.
  - constructor.
  - destruct (p x); [constructor|]; assumption.
  - destruct (p x); destruct (p y); try apply Permutation_refl. apply perm_swap.
  - eapply Permutation_trans; eassumption.
Qed.

Lemma den_line_perm r1 r2 j : Permutation r1 r2 -> denL r1 j = denL r2 j.
Proof.
  intros H. unfold den_line. apply (sumf_perm F zero one add mul sub opp Fth).
  apply Permutation_map. apply Permutation_filter'. exact H.
Qed.

(* ---------- COO -> CSR ---------- *)
Lemma bucket_nth (key : ent F -> nat) pay n es i :
  i < n -> nth i (bucket key pay n es) [] = map pay (filter (fun e => key e =? i) es).
Proof. intros H. unfold bucket. rewrite nth_map_seq by exact H. reflexivity. Qed.

Lemma bucket_length (key : ent F -> nat) pay n es : length (bucket key pay n es) = n.
Proof. unfold bucket. rewrite map_length, seq_length. reflexivity. Qed.


Lemma filter_none {X} (p : X -> bool) l : (forall x, In x l -> p x = false) -> filter p l = [].
Proof. induction l as [|x l IH]; simpl; intros H; [reflexivity|]. rewrite (H x) by (left; reflexivity). apply IH. intros; apply H; right; assumption. Qed.

Lemma den_coo_out_of_range (A : coo F) i j :
  coo_wf A -> (coo_nr A <= i \/ coo_nc A <= j) -> denCoo A i j = zero.
Proof.
  intros Hwf Hr. unfold den_coo. rewrite filter_none; [reflexivity|].
  intros e He. destruct (Hwf e He) as [H1 H2].
  destruct (erow e =? i) eqn:E1; destruct (ecol e =? j) eqn:E2; try reflexivity.
  apply Nat.eqb_eq in E1; apply Nat.eqb_eq in E2. lia.
Qed.

Theorem den_coo_to_csr (A : coo F) i j :
  coo_wf A -> denCsr (coo_to_csr A) i j = denCoo A i j.
Proof.
  intros Hwf. unfold den_csr, coo_to_csr; simpl.
  destruct (Nat.lt_ge_cases i (coo_nr A)) as [Hi|Hi].
  - rewrite bucket_nth by exact Hi. unfold den_line, den_coo.
    rewrite filter_map_comm, map_map, filter_filter. simpl. reflexivity.
  - rewrite nth_overflow by (rewrite bucket_length; exact Hi).
    rewrite den_coo_out_of_range by (auto). reflexivity.
Qed.

Lemma coo_to_csr_wf (A : coo F) : coo_wf A -> csr_wf (coo_to_csr A).
Proof.
  intros Hwf. split; simpl; [apply bucket_length|].
  intros r Hr p Hp. unfold bucket in Hr. apply in_map_iff in Hr. destruct Hr as [i [<- _]].
  apply in_map_iff in Hp. destruct Hp as [e [<- He]]. apply filter_In in He.
  simpl. apply (Hwf e). tauto.
Qed.

(* ---------- CSR -> COO ---------- *)
Lemma filter_row_flat (rows : list (list (nat * F))) s i :
  filter (fun e : ent F => erow e =? i)
    (flat_map (fun ir => map (fun p => (fst ir, fst p, snd p)) (snd ir)) (indexed_from s rows))
  = if s <=? i then map (fun p => (i, fst p, snd p)) (nth (i - s) rows []) else [].
Proof.
  revert s. induction rows as [|r rows IH]; intros s.
  - simpl. destruct (s <=? i); [destruct (i - s)|]; reflexivity.
  - cbn [indexed_from flat_map fst snd]. rewrite filter_app, IH.
    remember (S s <=? i) as b2 eqn:E2. remember (s <=? i) as b1 eqn:E1.
    rewrite filter_map_comm.
    destruct (Nat.eq_dec s i) as [->|Hne].
    + rewrite (filter_ext _ (fun _ => true)) by (intros; unfold erow; simpl; apply Nat.eqb_refl).
      replace (filter (fun _ => true) r) with r by (clear; induction r; simpl; congruence).
      replace b2 with false by (rewrite E2; symmetry; apply Nat.leb_gt; lia).
      replace b1 with true by (rewrite E1; symmetry; apply Nat.leb_le; lia).
      rewrite app_nil_r. replace (i - i) with 0 by lia. reflexivity.
    + rewrite filter_none by (intros; unfold erow; simpl; apply Nat.eqb_neq; exact Hne).
      cbn [map app].
      destruct b1; destruct b2; symmetry in E1, E2; try reflexivity.
      * apply Nat.leb_le in E1. apply Nat.leb_le in E2.
        replace (i - s) with (S (i - S s)) by lia. reflexivity.
      * apply Nat.leb_le in E1. apply Nat.leb_gt in E2. lia.
      * apply Nat.leb_gt in E1. apply Nat.leb_le in E2. lia.
Qed.

Theorem den_csr_to_coo (A : csr F) i j : denCoo (csr_to_coo A) i j = denCsr A i j.
Proof.
  unfold den_coo, den_csr, csr_to_coo, indexed; simpl.
  rewrite <- filter_filter. rewrite filter_row_flat. simpl. rewrite Nat.sub_0_r.
  unfold den_line. rewrite filter_map_comm, map_map. simpl. reflexivity.
Qed.

Lemma csr_to_coo_wf (A : csr F) : csr_wf A -> coo_wf (csr_to_coo A).
Proof.
  intros [Hl Hc] e He. unfold csr_to_coo in He; simpl in He.
  apply in_flat_map in He. destruct He as [[i r] [Hir He]]. simpl in He.
  apply in_map_iff in He. destruct He as [p [<- Hp]]. unfold erow, ecol; simpl.
  apply indexed_from_in in Hir. destruct Hir as [Hi Hn].
  split; [lia|]. apply (Hc r); [|exact Hp]. eapply nth_error_In; eassumption.
Qed.

(* ---------- transposition of the triple list, and the CSC twins ---------- *)
Theorem den_coo_transpose (A : coo F) i j : denCoo (coo_transpose A) i j = denCoo A j i.
Proof.
  unfold den_coo, coo_transpose; simpl. rewrite filter_map_comm, map_map. unfold erow, ecol, eval; simpl.
  f_equal. f_equal. apply filter_ext. intros e. apply andb_comm.
Qed.

Lemma coo_transpose_wf (A : coo F) : coo_wf A -> coo_wf (coo_transpose A).
Proof.
  intros H e He. unfold coo_transpose in He; simpl in He. apply in_map_iff in He.
  destruct He as [e' [<- He']]. unfold erow, ecol; simpl. destruct (H e' He'). split; assumption.
Qed.

Definition csc_as_csr (A : csc F) : csr F := mkCsr (csc_nc A) (csc_nr A) (csc_cols A).
Definition csr_as_csc (A : csr F) : csc F := mkCsc (csr_nc A) (csr_nr A) (csr_rows A).

Lemma den_csc_as_csr (A : csc F) i j : denCsr (csc_as_csr A) j i = denCsc A i j.
Proof. reflexivity. Qed.
Lemma den_csr_as_csc (A : csr F) i j : denCsc (csr_as_csc A) j i = denCsr A i j.
Proof. reflexivity. Qed.

Lemma map_flat_map {X Y Z} (g : Y -> Z) (f : X -> list Y) l :
  map g (flat_map f l) = flat_map (fun x => map g (f x)) l.
Proof. induction l; simpl; [reflexivity|]. rewrite map_app, IHl. reflexivity. Qed.

Lemma csc_to_coo_as_transpose (A : csc F) :
  csc_to_coo A = coo_transpose (csr_to_coo (csc_as_csr A)).
Proof.
  unfold csc_to_coo, coo_transpose, csr_to_coo, csc_as_csr; simpl. f_equal.
  rewrite map_flat_map. apply flat_map_ext. intros [jx c]. rewrite map_map. reflexivity.
Qed.

Lemma coo_to_csc_as_transpose (A : coo F) :
  coo_to_csc A = csr_as_csc (coo_to_csr (coo_transpose A)).
Proof.
  unfold coo_to_csc, csr_as_csc, coo_to_csr, coo_transpose; simpl. f_equal.
  unfold bucket. apply map_ext. intros i. rewrite filter_map_comm, map_map. reflexivity.
Qed.

Theorem den_csc_to_coo (A : csc F) i j : denCoo (csc_to_coo A) i j = denCsc A i j.
Proof. rewrite csc_to_coo_as_transpose, den_coo_transpose, den_csr_to_coo. reflexivity. Qed.

Theorem den_coo_to_csc (A : coo F) i j : coo_wf A -> denCsc (coo_to_csc A) i j = denCoo A i j.
Proof.
  intros H. rewrite coo_to_csc_as_transpose.
  change (denCsc (csr_as_csc ?B) i j) with (denCsr B j i).
  rewrite den_coo_to_csr by (apply coo_transpose_wf; exact H). apply den_coo_transpose.
Qed.

Lemma csc_to_coo_wf (A : csc F) : csc_wf A -> coo_wf (csc_to_coo A).
Proof.
  intros H. rewrite csc_to_coo_as_transpose. apply coo_transpose_wf. apply csr_to_coo_wf. exact H.
Qed.

Lemma coo_to_csc_wf (A : coo F) : coo_wf A -> csc_wf (coo_to_csc A).
Proof.
  intros H. rewrite coo_to_csc_as_transpose.
  apply coo_transpose_wf, coo_to_csr_wf in H. exact H.
Qed.

(* ---------- cross conversions ---------- *)
Theorem den_csr_to_csc (A : csr F) i j : csr_wf A -> denCsc (csr_to_csc A) i j = denCsr A i j.
Proof. intros H. unfold csr_to_csc. rewrite den_coo_to_csc by (apply csr_to_coo_wf; exact H). apply den_csr_to_coo. Qed.

Theorem den_csc_to_csr (A : csc F) i j : csc_wf A -> denCsr (csc_to_csr A) i j = denCsc A i j.
Proof. intros H. unfold csc_to_csr. rewrite den_coo_to_csr by (apply csc_to_coo_wf; exact H). apply den_csc_to_coo. Qed.

Lemma csr_to_csc_wf (A : csr F) : csr_wf A -> csc_wf (csr_to_csc A).
Proof. intros H. apply coo_to_csc_wf, csr_to_coo_wf, H. Qed.
Lemma csc_to_csr_wf (A : csc F) : csc_wf A -> csr_wf (csc_to_csr A).
Proof. intros H. apply coo_to_csr_wf, csc_to_coo_wf, H. Qed.

(* ---------- transposes of the compressed formats ---------- *)
Theorem den_csr_transpose (A : csr F) i j :
  csr_wf A -> denCsr (csr_transpose A) i j = denCsr A j i.
Proof.
  intros H. unfold csr_transpose. rewrite den_csc_to_csr by exact H. reflexivity.
Qed.
Theorem den_csc_transpose (A : csc F) i j :
  csc_wf A -> denCsc (csc_transpose A) i j = denCsc A j i.
Proof.
  intros H. unfold csc_transpose. rewrite den_csr_to_csc by exact H. reflexivity.
Qed.
Theorem dims_csr_transpose (A : csr F) :
  csr_nr (csr_transpose A) = csr_nc A /\ csr_nc (csr_transpose A) = csr_nr A.
Proof. split; reflexivity. Qed.
Theorem dims_csc_transpose (A : csc F) :
  csc_nr (csc_transpose A) = csc_nc A /\ csc_nc (csc_transpose A) = csc_nr A.
Proof. split; reflexivity. Qed.
Theorem dims_coo_transpose (A : coo F) :
  coo_nr (coo_transpose A) = coo_nc A /\ coo_nc (coo_transpose A) = coo_nr A.
Proof. split; reflexivity. Qed.

End ConvProofs.
