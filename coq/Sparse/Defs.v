(* Executable model of raptor's sequential sparse formats (raptor/core/matrix.{hpp,cpp},
   util/linalg/{spmv,add}.cpp).  Compressed formats are lists of rows / columns; the flat
   idx1/idx2/vals arrays exist only at the boundary (flatten / unflatten).  *)
From Raptor Require Import Base.Sums.

Section Formats.
Variable T : Type.

Definition ent := (nat * nat * T)%type.         (* (row, col, value) *)
Definition erow (e : ent) : nat := fst (fst e).
Definition ecol (e : ent) : nat := snd (fst e).
Definition eval (e : ent) : T := snd e.

Record coo := mkCoo { coo_nr : nat; coo_nc : nat; coo_ents : list ent }.
Record csr := mkCsr { csr_nr : nat; csr_nc : nat; csr_rows : list (list (nat * T)) }.
Record csc := mkCsc { csc_nr : nat; csc_nc : nat; csc_cols : list (list (nat * T)) }.

(* well-formedness: what the C++ needs for its array accesses to be in range *)
Definition coo_wf (A : coo) : Prop :=
  forall e, In e (coo_ents A) -> erow e < coo_nr A /\ ecol e < coo_nc A.
Definition csr_wf (A : csr) : Prop :=
  length (csr_rows A) = csr_nr A /\
  forall r, In r (csr_rows A) -> forall p, In p r -> fst p < csr_nc A.
Definition csc_wf (A : csc) : Prop :=
  length (csc_cols A) = csc_nc A /\
  forall c, In c (csc_cols A) -> forall p, In p c -> fst p < csc_nr A.

Definition coo_wfb (A : coo) : bool :=
  forallb (fun e => (erow e <? coo_nr A) && (ecol e <? coo_nc A)) (coo_ents A).
Definition csr_wfb (A : csr) : bool :=
  (length (csr_rows A) =? csr_nr A) &&
  forallb (fun r => forallb (fun p => fst p <? csr_nc A) r) (csr_rows A).
Definition csc_wfb (A : csc) : bool :=
  (length (csc_cols A) =? csc_nc A) &&
  forallb (fun r => forallb (fun p => fst p <? csc_nr A) r) (csc_cols A).

(* counting sort of a triple list into n buckets, original order kept inside a bucket:
   extensionally what  idx1[key]+ctr[key]++  writes *)
Definition bucket (key : ent -> nat) (pay : ent -> nat * T) (n : nat) (es : list ent)
  : list (list (nat * T)) :=
  map (fun i => map pay (filter (fun e => key e =? i) es)) (seq 0 n).

(* X_to_Y *)
Definition coo_to_coo (A : coo) : coo := mkCoo (coo_nr A) (coo_nc A) (coo_ents A).
Definition csr_to_coo (A : csr) : coo :=
  mkCoo (csr_nr A) (csr_nc A)
    (flat_map (fun ir => map (fun p => (fst ir, fst p, snd p)) (snd ir)) (indexed (csr_rows A))).
Definition csc_to_coo (A : csc) : coo :=
  mkCoo (csc_nr A) (csc_nc A)
    (flat_map (fun jc => map (fun p => (fst p, fst jc, snd p)) (snd jc)) (indexed (csc_cols A))).
Definition coo_to_csr (A : coo) : csr :=
  mkCsr (coo_nr A) (coo_nc A) (bucket erow (fun e => (ecol e, eval e)) (coo_nr A) (coo_ents A)).
Definition coo_to_csc (A : coo) : csc :=
  mkCsc (coo_nr A) (coo_nc A) (bucket ecol (fun e => (erow e, eval e)) (coo_nc A) (coo_ents A)).
Definition csr_to_csr (A : csr) : csr := mkCsr (csr_nr A) (csr_nc A) (csr_rows A).
Definition csc_to_csc (A : csc) : csc := mkCsc (csc_nr A) (csc_nc A) (csc_cols A).
(* the two cross conversions traverse the source in storage order and counting-sort on the
   other index: the same arrays as bucketing the triple listing *)
Definition csr_to_csc (A : csr) : csc := coo_to_csc (csr_to_coo A).
Definition csc_to_csr (A : csc) : csr := coo_to_csr (csc_to_coo A).

(* transposes, with the dimensions the code passes *)
Definition coo_transpose (A : coo) : coo :=
  mkCoo (coo_nc A) (coo_nr A) (map (fun e => (ecol e, erow e, eval e)) (coo_ents A)).
Definition csr_transpose (A : csr) : csr :=
  csc_to_csr (mkCsc (csr_nc A) (csr_nr A) (csr_rows A)).
Definition csc_transpose (A : csc) : csc :=
  csr_to_csc (mkCsr (csc_nc A) (csc_nr A) (csc_cols A)).

(* sort: stable insertion sort by key; std::sort is not stable, so ties are compared as
   multisets by the harness *)
Fixpoint insert_by {X} (le : X -> X -> bool) (x : X) (l : list X) : list X :=
  match l with
  | [] => [x]
  | y :: l' => if le x y then x :: l else y :: insert_by le x l'
  end.
Fixpoint isort_by {X} (le : X -> X -> bool) (l : list X) : list X :=
  match l with [] => [] | x :: l' => insert_by le x (isort_by le l') end.

Definition le_fst (p q : nat * T) : bool := fst p <=? fst q.
Definition sort_line (r : list (nat * T)) := isort_by le_fst r.
Definition csr_sort (A : csr) : csr := mkCsr (csr_nr A) (csr_nc A) (map sort_line (csr_rows A)).
Definition csc_sort (A : csc) : csc := mkCsc (csc_nr A) (csc_nc A) (map sort_line (csc_cols A)).
Definition le_ent (e f : ent) : bool :=
  (erow e <? erow f) || ((erow e =? erow f) && (ecol e <=? ecol f)).
Definition coo_sort (A : coo) : coo := mkCoo (coo_nr A) (coo_nc A) (isort_by le_ent (coo_ents A)).

(* move_diag: the first entry whose index equals the line number goes first, the entries
   before it shift right by one *)
Fixpoint extract_first {X} (p : X -> bool) (l : list X) : option (X * list X) :=
  match l with
  | [] => None
  | x :: l' => if p x then Some (x, l')
               else match extract_first p l' with
                    | Some (y, r) => Some (y, x :: r)
                    | None => None
                    end
  end.
Definition move_diag_line (i : nat) (r : list (nat * T)) : list (nat * T) :=
  match extract_first (fun p => fst p =? i) r with
  | Some (d, rest) => d :: rest
  | None => r
  end.
Definition csr_move_diag (A : csr) : csr :=
  mkCsr (csr_nr A) (csr_nc A) (map (fun ir => move_diag_line (fst ir) (snd ir)) (indexed (csr_rows A))).
Definition csc_move_diag (A : csc) : csc :=
  mkCsc (csc_nr A) (csc_nc A) (map (fun ir => move_diag_line (fst ir) (snd ir)) (indexed (csc_cols A))).

End Formats.

Arguments mkCoo {T}. Arguments mkCsr {T}. Arguments mkCsc {T}.
Arguments coo_nr {T}. Arguments coo_nc {T}. Arguments coo_ents {T}.
Arguments csr_nr {T}. Arguments csr_nc {T}. Arguments csr_rows {T}.
Arguments csc_nr {T}. Arguments csc_nc {T}. Arguments csc_cols {T}.
Arguments erow {T}. Arguments ecol {T}. Arguments eval {T}.
Arguments coo_wf {T}. Arguments csr_wf {T}. Arguments csc_wf {T}.
Arguments coo_wfb {T}. Arguments csr_wfb {T}. Arguments csc_wfb {T}.
Arguments bucket {T}.
Arguments coo_to_coo {T}. Arguments csr_to_coo {T}. Arguments csc_to_coo {T}.
Arguments coo_to_csr {T}. Arguments coo_to_csc {T}. Arguments csr_to_csr {T}.
Arguments csc_to_csc {T}. Arguments csr_to_csc {T}. Arguments csc_to_csr {T}.
Arguments coo_transpose {T}. Arguments csr_transpose {T}. Arguments csc_transpose {T}.
Arguments le_fst {T}. Arguments sort_line {T}. Arguments csr_sort {T}. Arguments csc_sort {T}.
Arguments le_ent {T}. Arguments coo_sort {T}.
Arguments move_diag_line {T}. Arguments csr_move_diag {T}. Arguments csc_move_diag {T}.

(* ---------- arithmetic part: values in a commutative ring ---------- *)
Section Arith.
Variable F : Type.
Variables (zero one : F) (add mul sub : F -> F -> F) (opp : F -> F).
Variable small : F -> bool.        (* |v| < zero_tol  (1e-16 in the code) *)

Notation "0" := zero.
Infix "+" := add.
Infix "*" := mul.
Infix "-" := sub.
Notation sumF := (sumf F zero add).

(* the represented operator: sum of all stored values at (i,j) *)
Definition den_line (r : list (nat * F)) (j : nat) : F :=
  sumF (map snd (filter (fun p => fst p =? j) r)).
Definition den_coo (A : coo F) (i j : nat) : F :=
  sumF (map eval (filter (fun e => (erow e =? i) && (ecol e =? j)) (coo_ents A))).
Definition den_csr (A : csr F) (i j : nat) : F := den_line (nth i (csr_rows A) []) j.
Definition den_csc (A : csc F) (i j : nat) : F := den_line (nth j (csc_cols A) []) i.

Definition drop (x : F) : F := if small x then 0 else x.

(* remove_duplicates on a sorted line: consecutive equal indices are summed left to right;
   when the index changes (or the line ends) the finished entry is discarded if small *)
Definition emit (c : nat) (acc : F) : list (nat * F) := if small acc then [] else [(c, acc)].
Fixpoint dedup_acc (c : nat) (acc : F) (l : list (nat * F)) : list (nat * F) :=
  match l with
  | [] => emit c acc
  | p :: l' => if fst p =? c then dedup_acc c (acc + snd p) l'
               else emit c acc ++ dedup_acc (fst p) (snd p) l'
  end.
Definition dedup_line (l : list (nat * F)) : list (nat * F) :=
  match l with [] => [] | p :: l' => dedup_acc (fst p) (snd p) l' end.
Definition csr_remove_duplicates (A : csr F) : csr F :=
  mkCsr (csr_nr A) (csr_nc A) (map (fun r => dedup_line (sort_line r)) (csr_rows A)).
Definition csc_remove_duplicates (A : csc F) : csc F :=
  mkCsc (csc_nr A) (csc_nc A) (map (fun r => dedup_line (sort_line r)) (csc_cols A)).

(* COO: no drop; equal consecutive (row,col) summed; empty stays empty (after the fix) *)
Fixpoint coo_dedup_acc (r c : nat) (acc : F) (l : list (ent F)) : list (ent F) :=
  match l with
  | [] => [(r, c, acc)]
  | e :: l' => if (erow e =? r) && (ecol e =? c) then coo_dedup_acc r c (acc + eval e) l'
               else (r, c, acc) :: coo_dedup_acc (erow e) (ecol e) (eval e) l'
  end.
Definition coo_remove_duplicates (A : coo F) : coo F :=
  mkCoo (coo_nr A) (coo_nc A)
    (match coo_ents (coo_sort A) with
     | [] => []
     | e :: l => coo_dedup_acc (erow e) (ecol e) (eval e) l
     end).

(* add_append / subtract: concatenate the two rows, sort, remove duplicates *)
Fixpoint zip_rows (ra rb : list (list (nat * F))) : list (list (nat * F)) :=
  match ra, rb with
  | a :: ra', b :: rb' => (a ++ b) :: zip_rows ra' rb'
  | a :: ra', [] => a :: zip_rows ra' []
  | [], _ => []
  end.
Definition csr_add (A B : csr F) (remove_dup : bool) : csr F :=
  let C := mkCsr (csr_nr A) (csr_nc A) (zip_rows (csr_rows A) (csr_rows B)) in
  if remove_dup then csr_remove_duplicates C else csr_sort C.
Definition neg_line (r : list (nat * F)) := map (fun p => (fst p, opp (snd p))) r.
Definition csr_subtract (A B : csr F) : csr F :=
  csr_remove_duplicates
    (mkCsr (csr_nr A) (csr_nc A) (zip_rows (csr_rows A) (map neg_line (csr_rows B)))).

(* ---- SpMV kernels ---- *)
Fixpoint upd (l : list F) (i : nat) (v : F) : list F :=
  match l, i with
  | [], _ => []
  | _ :: l', O => v :: l'
  | x :: l', S i' => x :: upd l' i' v
  end.
Definition xat (x : list F) (i : nat) : F := nth i x 0.

(* the four index kernels of matrix.hpp, applied over a triple listing in storage order *)
Definition k_append (b x : list F) (e : ent F) := upd b (erow e) (xat b (erow e) + eval e * xat x (ecol e)).
Definition k_append_T (b x : list F) (e : ent F) := upd b (ecol e) (xat b (ecol e) + eval e * xat x (erow e)).
Definition k_append_neg (b x : list F) (e : ent F) := upd b (erow e) (xat b (erow e) - eval e * xat x (ecol e)).
Definition k_append_neg_T (b x : list F) (e : ent F) := upd b (ecol e) (xat b (ecol e) - eval e * xat x (erow e)).

Definition run_kernel (k : list F -> list F -> ent F -> list F) (es : list (ent F)) (x b : list F) :=
  fold_left (fun b e => k b x e) es b.

Definition zeros (n : nat) : list F := repeat 0 n.

(* COO and CSC classes: zero/copy then append; CSR has dedicated row loops *)
Definition coo_spmv (A : coo F) x := run_kernel k_append (coo_ents A) x (zeros (coo_nr A)).
Definition coo_spmv_append (A : coo F) x b := run_kernel k_append (coo_ents A) x b.
Definition coo_spmv_append_T (A : coo F) x b := run_kernel k_append_T (coo_ents A) x b.
Definition coo_spmv_append_neg (A : coo F) x b := run_kernel k_append_neg (coo_ents A) x b.
Definition coo_spmv_append_neg_T (A : coo F) x b := run_kernel k_append_neg_T (coo_ents A) x b.
Definition coo_residual (A : coo F) x b := run_kernel k_append_neg (coo_ents A) x (firstn (coo_nr A) b).

Definition csc_spmv (A : csc F) x := coo_spmv (csc_to_coo A) x.
Definition csc_spmv_append (A : csc F) x b := coo_spmv_append (csc_to_coo A) x b.
Definition csc_spmv_append_T (A : csc F) x b := coo_spmv_append_T (csc_to_coo A) x b.
Definition csc_spmv_append_neg (A : csc F) x b := coo_spmv_append_neg (csc_to_coo A) x b.
Definition csc_spmv_append_neg_T (A : csc F) x b := coo_spmv_append_neg_T (csc_to_coo A) x b.
Definition csc_residual (A : csc F) x b := coo_residual (csc_to_coo A) x b.

Definition row_dot (r : list (nat * F)) (x : list F) : F :=
  fold_left (fun acc p => acc + snd p * xat x (fst p)) r 0.
Definition csr_spmv (A : csr F) x : list F := map (fun r => row_dot r x) (csr_rows A).
Definition csr_spmv_append (A : csr F) x b : list F :=
  map (fun ir => xat b (fst ir) + row_dot (snd ir) x) (indexed (csr_rows A)) ++ skipn (csr_nr A) b.
Definition csr_residual (A : csr F) x b : list F :=
  map (fun ir => fold_left (fun acc p => acc - snd p * xat x (fst p)) (snd ir) (xat b (fst ir)))
      (indexed (csr_rows A)).
Definition csr_spmv_append_T (A : csr F) x b := coo_spmv_append_T (csr_to_coo A) x b.
Definition csr_spmv_append_neg (A : csr F) x b := coo_spmv_append_neg (csr_to_coo A) x b.
Definition csr_spmv_append_neg_T (A : csr F) x b := coo_spmv_append_neg_T (csr_to_coo A) x b.

(* Matrix::mult_T : zero the n_cols outputs, then append_T *)
Definition coo_mult_T (A : coo F) x := coo_spmv_append_T A x (zeros (coo_nc A)).
Definition csr_mult_T (A : csr F) x := csr_spmv_append_T A x (zeros (csr_nc A)).
Definition csc_mult_T (A : csc F) x := csc_spmv_append_T A x (zeros (csc_nc A)).

End Arith.
