(* COO remove_duplicates (matrix.cpp, after the fixes): sort, then equal consecutive positions are summed; nothing is
   dropped.  The represented operator is unchanged (sortedness is not even needed for that), every stored position was
   stored before, and after the sort no position is stored twice. *)
From Coq Require Import List Arith Lia Bool Permutation.
Import ListNotations.
From Raptor Require Import Base.Sums Sparse.Defs Sparse.ConvertProofs Sparse.SortProofs.

Section CooDedup.
Variable F : Type.
Variables (zero one : F) (add mul sub : F -> F -> F) (opp : F -> F).
Variable Fth : ring_theory zero one add mul sub opp (@eq F).
Add Ring FringCD : Fth.

Notation sumF := (sumf F zero add).
Notation denCoo := (den_coo F zero add).

Definition at_pos (i j : nat) (e : ent F) : bool := (erow e =? i) && (ecol e =? j).
Definition den_ents (l : list (ent F)) (i j : nat) : F := sumF (map eval (filter (at_pos i j) l)).

Lemma den_ents_cons e l i j : den_ents (e :: l) i j = add (if at_pos i j e then eval e else zero) (den_ents l i j).
Proof. unfold den_ents. simpl. destruct (at_pos i j e); simpl; ring. Qed.

Lemma den_coo_dedup_acc l : forall r c acc i j,
  den_ents (coo_dedup_acc F add r c acc l) i j = add (if (r =? i) && (c =? j) then acc else zero) (den_ents l i j).
Proof.
  induction l as [|e l IH]; intros r c acc i j; cbn [coo_dedup_acc].
  - rewrite den_ents_cons. unfold at_pos, erow, ecol, eval; simpl. reflexivity.
  - destruct ((erow e =? r) && (ecol e =? c)) eqn:E.
    + rewrite IH, den_ents_cons. apply andb_prop in E. destruct E as [E1 E2].
      apply Nat.eqb_eq in E1. apply Nat.eqb_eq in E2. unfold at_pos. rewrite E1, E2.
      destruct ((r =? i) && (c =? j)); ring.
    + rewrite den_ents_cons, IH, den_ents_cons. unfold at_pos at 1, erow at 1, ecol at 1, eval at 1; simpl.
      unfold at_pos. ring.
Qed.

Theorem den_coo_remove_duplicates (A : coo F) i j :
  denCoo (coo_remove_duplicates F add A) i j = denCoo A i j.
Proof.
  rewrite <- (den_coo_sort F zero one add mul sub opp Fth A i j).
  unfold coo_remove_duplicates, den_coo. cbn [coo_ents].
  destruct (coo_ents (coo_sort A)) as [|e l]; [reflexivity|].
  change (den_ents (coo_dedup_acc F add (erow e) (ecol e) (eval e) l) i j = den_ents (e :: l) i j).
  rewrite den_coo_dedup_acc, den_ents_cons. unfold at_pos. reflexivity.
Qed.

(* every stored position was stored before *)
Lemma coo_dedup_acc_pos l : forall r c acc e,
  In e (coo_dedup_acc F add r c acc l) ->
  (erow e = r /\ ecol e = c) \/ exists e', In e' l /\ erow e' = erow e /\ ecol e' = ecol e.
Proof.
  induction l as [|x l IH]; intros r c acc e; cbn [coo_dedup_acc].
  - intros [<-|[]]. left. split; reflexivity.
  - destruct ((erow x =? r) && (ecol x =? c)) eqn:E.
    + intros H. apply IH in H. destruct H as [H|[e' [H1 H2]]]; [left; exact H|right; exists e'; split; [right; exact H1|exact H2]].
    + intros [<-|H]; [left; split; reflexivity|].
      apply IH in H. destruct H as [[H1 H2]|[e' [H1 H2]]].
      * right. exists x. split; [left; reflexivity|split; symmetry; assumption].
      * right. exists e'. split; [right; exact H1|exact H2].
Qed.

Theorem coo_remove_duplicates_pos (A : coo F) e :
  In e (coo_ents (coo_remove_duplicates F add A)) ->
  exists e', In e' (coo_ents A) /\ erow e' = erow e /\ ecol e' = ecol e.
Proof.
  unfold coo_remove_duplicates. cbn [coo_ents].
  assert (Hp : Permutation (coo_ents (coo_sort A)) (coo_ents A)) by (unfold coo_sort; cbn [coo_ents]; apply isort_by_perm).
  destruct (coo_ents (coo_sort A)) as [|x l] eqn:E; [intros []|].
  intros H. apply coo_dedup_acc_pos in H.
  destruct H as [[H1 H2]|[e' [H1 H2]]].
  - exists x. split; [eapply Permutation_in; [exact Hp|left; reflexivity]|split; symmetry; assumption].
  - exists e'. split; [eapply Permutation_in; [exact Hp|right; exact H1]|exact H2].
Qed.

Theorem coo_remove_duplicates_wf (A : coo F) : coo_wf A -> coo_wf (coo_remove_duplicates F add A).
Proof.
  intros H e He. apply coo_remove_duplicates_pos in He. destruct He as [e' [H1 [H2 H3]]].
  cbn [coo_nr coo_nc coo_remove_duplicates]. rewrite <- H2, <- H3. apply H. exact H1.
Qed.

End CooDedup.
