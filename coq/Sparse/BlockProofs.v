From Raptor Require Import Base.Sums Sparse.Defs Sparse.ConvertProofs Sparse.SpmvProofs Sparse.Block.

Section BlockProofs.
Variable F : Type.
Variables (zero one : F) (add mul sub : F -> F -> F) (opp : F -> F).
Variable Fth : ring_theory zero one add mul sub opp (@eq F).

Lemma expand_ent_in br bc (e : ent (list F)) x :
  In x (expand_ent zero br bc e) ->
  exists r c, r < br /\ c < bc /\ x = (erow e * br + r, ecol e * bc + c, nth (r * bc + c) (eval e) zero).
Proof.
  unfold expand_ent. intros H. apply in_flat_map in H. destruct H as [r [Hr H]].
  apply in_map_iff in H. destruct H as [c [<- Hc]]. apply in_seq in Hr. apply in_seq in Hc.
  exists r, c. repeat split; lia.
Qed.

(* the expansion of a well-formed block matrix is a well-formed scalar matrix *)
Theorem bcoo_expand_wf br bc (A : coo (list F)) : coo_wf A -> coo_wf (bcoo_expand zero br bc A).
Proof.
  intros Hwf x Hx. unfold bcoo_expand in Hx; simpl in Hx. apply in_flat_map in Hx.
  destruct Hx as [e [He Hx]]. apply expand_ent_in in Hx. destruct Hx as [r [c [Hr [Hc ->]]]].
  destruct (Hwf e He) as [H1 H2]. unfold erow, ecol; simpl.
  split.
  - apply Nat.lt_le_trans with (m := erow e * br + br); [unfold erow; lia|].
    replace (erow e * br + br) with (S (erow e) * br) by lia. apply Nat.mul_le_mono_r. unfold erow in *. lia.
  - apply Nat.lt_le_trans with (m := ecol e * bc + bc); [unfold ecol; lia|].
    replace (ecol e * bc + bc) with (S (ecol e) * bc) by lia. apply Nat.mul_le_mono_r. unfold ecol in *. lia.
Qed.

Notation denCoo := (den_coo F zero add).
Notation xat := (xat F zero).
Notation dot := (dot_row F zero add mul).

(* the block kernels are the scalar kernels of the expansion: b += A x and b += A^T x, b -= ... *)
Theorem block_spmv_kernels br bc (A : coo (list F)) (x b : list F) : coo_wf A ->
  let E := bcoo_expand zero br bc A in
  (forall i, xat (coo_spmv F zero add mul E x) i = dot (denCoo E i) x (coo_nc E)) /\
  (coo_nr E <= length b -> forall i, xat (coo_spmv_append F zero add mul E x b) i = add (xat b i) (dot (denCoo E i) x (coo_nc E))) /\
  (coo_nr E <= length b -> forall i, xat (coo_spmv_append_neg F zero mul sub E x b) i = sub (xat b i) (dot (denCoo E i) x (coo_nc E))) /\
  (coo_nc E <= length b -> forall j, xat (coo_spmv_append_T F zero add mul E x b) j = add (xat b j) (dot (fun i => denCoo E i j) x (coo_nr E))) /\
  (coo_nc E <= length b -> forall j, xat (coo_spmv_append_neg_T F zero mul sub E x b) j = sub (xat b j) (dot (fun i => denCoo E i j) x (coo_nr E))).
Proof.
  intros Hwf E. pose proof (bcoo_expand_wf br bc A Hwf) as HE. fold E in HE.
  repeat split; intros.
  - apply (coo_spmv_spec _ _ _ _ _ _ _ Fth); assumption.
  - apply (coo_spmv_append_spec _ _ _ _ _ _ _ Fth); assumption.
  - apply (coo_spmv_append_neg_spec _ _ _ _ _ _ _ Fth); assumption.
  - apply (coo_spmv_append_T_spec _ _ _ _ _ _ _ Fth); assumption.
  - apply (coo_spmv_append_neg_T_spec _ _ _ _ _ _ _ Fth); assumption.
Qed.


(* what the expansion represents: position (I*br + r, J*bc + c) of the scalar operator is the sum, over the stored
   blocks at block position (I, J), of the blocks' entry (r, c) (row-major) — duplicates of a block position add up *)
Add Ring FringB : Fth.

Lemma sumF_filter_ite {A} (p : A -> bool) (f : A -> F) l :
  sumf F zero add (map f (filter p l)) = sumf F zero add (map (fun a => if p a then f a else zero) l).
Proof.
  induction l as [|a l IH]; simpl; [reflexivity|].
  destruct (p a); simpl; rewrite IH; [reflexivity|ring].
Qed.

Lemma divmod_eq br I I' r r' : r < br -> r' < br -> (I' * br + r' =? I * br + r) = (I' =? I) && (r' =? r).
Proof.
  intros Hr Hr'.
  destruct (Nat.eqb_spec I' I) as [->|Hne]; simpl.
  - destruct (Nat.eqb_spec r' r) as [->|Hn]; [apply Nat.eqb_refl|apply Nat.eqb_neq; lia].
  - apply Nat.eqb_neq. intro H. apply Hne. nia.
Qed.

Lemma expand_ent_den br bc (e : ent (list F)) I J r c : r < br -> c < bc ->
  sumf F zero add (map (@eval F) (filter (fun x => (erow x =? I * br + r) && (ecol x =? J * bc + c)) (expand_ent zero br bc e)))
  = if (erow e =? I) && (ecol e =? J) then nth (r * bc + c) (eval e) zero else zero.
Proof.
  intros Hr Hc. rewrite sumF_filter_ite. unfold expand_ent.
  rewrite flat_map_concat_map, concat_map, map_map.
  change (sumf F zero add (concat (map (fun x => map (fun a => if (erow a =? I * br + r) && (ecol a =? J * bc + c) then eval a else zero)
           (map (fun c0 => (erow e * br + x, ecol e * bc + c0, nth (x * bc + c0) (eval e) zero)) (seq 0 bc))) (seq 0 br)))
          = if (erow e =? I) && (ecol e =? J) then nth (r * bc + c) (eval e) zero else zero).
  rewrite <- flat_map_concat_map, (sumf_flat_map F zero one add mul sub opp Fth).
  rewrite (sumf_single F zero one add mul sub opp Fth br r); [|exact Hr|].
  2:{ intros i Hi Hne. rewrite map_map. unfold erow, ecol, eval; simpl.
      transitivity (sumf F zero add (map (fun _ : nat => zero) (seq 0 bc)));
        [|apply (sumf_map_zero F zero one add mul sub opp Fth)].
      apply (sumf_map_ext F zero add). intros c0 Hc0. apply in_seq in Hc0.
      rewrite (divmod_eq br I (fst (fst e)) r i) by lia.
      replace (i =? r) with false by (symmetry; apply Nat.eqb_neq; exact Hne).
      rewrite andb_false_r. reflexivity. }
  rewrite map_map. unfold erow, ecol, eval; simpl.
  rewrite (sumf_single F zero one add mul sub opp Fth bc c); [|exact Hc|].
  2:{ intros j Hj Hne. simpl.
      rewrite (divmod_eq bc J (snd (fst e)) c j) by lia.
      replace (j =? c) with false by (symmetry; apply Nat.eqb_neq; exact Hne).
      rewrite !andb_false_r. reflexivity. }
  rewrite (divmod_eq br I (fst (fst e)) r r), (divmod_eq bc J (snd (fst e)) c c) by lia.
  rewrite !Nat.eqb_refl, !andb_true_r. reflexivity.
Qed.

Theorem bcoo_expand_den br bc (A : coo (list F)) I J r c : r < br -> c < bc ->
  den_coo F zero add (bcoo_expand zero br bc A) (I * br + r) (J * bc + c)
  = sumf F zero add (map (fun e => nth (r * bc + c) (eval e) zero)
                         (filter (fun e => (erow e =? I) && (ecol e =? J)) (coo_ents A))).
Proof.
  intros Hr Hc. unfold den_coo, bcoo_expand; simpl.
  induction (coo_ents A) as [|e l IH]; simpl; [reflexivity|].
  rewrite filter_app, map_app, (sumf_app F zero one add mul sub opp Fth), IH, (expand_ent_den br bc e I J r c Hr Hc).
  destruct ((erow e =? I) && (ecol e =? J)); simpl; [reflexivity|ring].
Qed.


(* BSR_to_CSR drops scalars with |v| <= zero_tol; when every dropped scalar is an exact zero (no stored value in
   (0, zero_tol]) the CSR result represents the same operator as the blocks *)
Lemma den_filter_big (big : F -> bool) (l : list (ent F)) i j :
  (forall e, In e l -> big (eval e) = false -> eval e = zero) ->
  sumf F zero add (map (@eval F) (filter (fun e => (erow e =? i) && (ecol e =? j)) (filter (fun e => big (eval e)) l)))
  = sumf F zero add (map (@eval F) (filter (fun e => (erow e =? i) && (ecol e =? j)) l)).
Proof.
  induction l as [|e l IH]; intros H; simpl; [reflexivity|].
  assert (IH' := IH (fun e' He' => H e' (or_intror He'))).
  destruct (big (eval e)) eqn:Eb; simpl.
  - destruct ((erow e =? i) && (ecol e =? j)); simpl; rewrite IH'; reflexivity.
  - destruct ((erow e =? i) && (ecol e =? j)); simpl; rewrite IH'; [|reflexivity].
    rewrite (H e (or_introl eq_refl) Eb). ring.
Qed.

Theorem bsr_to_csr_den (big : F -> bool) br bc (A : csr (list F)) i j :
  csr_wf A ->
  (forall e, In e (coo_ents (bsr_expand zero br bc A)) -> big (eval e) = false -> eval e = zero) ->
  den_csr F zero add (bsr_to_csr zero big br bc A) i j = den_coo F zero add (bsr_expand zero br bc A) i j.
Proof.
  intros Hwf Hz. unfold bsr_to_csr.
  rewrite (den_coo_to_csr F zero add).
  - unfold den_coo; simpl. apply den_filter_big. exact Hz.
  - intros e He; simpl in *. apply filter_In in He. destruct He as [He _].
    exact (bcoo_expand_wf br bc (csr_to_coo A) (csr_to_coo_wf _ A Hwf) e He).
Qed.

End BlockProofs.
