From Raptor Require Import Base.Sums Sparse.Defs Sparse.ConvertProofs Sparse.SpmvProofs Sparse.Block.

Section BlockProofs.
Variable F : Type.
Variables (zero one : F) (add mul sub : F -> F -> F) (opp : F -> F).
Variable Fth : ring_theory zero one add mul sub opp (@eq F).

Lemma expand_ent_in br bc (e : ent (list F)) x :
  In x (expand_ent zero br bc e) ->
  exists r c, r < br /\ c < bc /\ x = (erow e * br + r, ecol e * bc + c, nth (r * bc + c) (eval e) zero).
Proof.
  unfold expand_ent. intros H. apply in_flat_map in H. destruct H as [r [Hr H]].
  apply in_map_iff in H. destruct H as [c [<- Hc]]. apply in_seq in Hr. apply in_seq in Hc.
  exists r, c. repeat split; lia.
Qed.

(* the expansion of a well-formed block matrix is a well-formed scalar matrix *)
Theorem bcoo_expand_wf br bc (A : coo (list F)) : coo_wf A -> coo_wf (bcoo_expand zero br bc A).
Proof.
  intros Hwf x Hx. unfold bcoo_expand in Hx; simpl in Hx. apply in_flat_map in Hx.
  destruct Hx as [e [He Hx]]. apply expand_ent_in in Hx. destruct Hx as [r [c [Hr [Hc ->]]]].
  destruct (Hwf e He) as [H1 H2]. unfold erow, ecol; simpl.
  split.
  - apply Nat.lt_le_trans with (m := erow e * br + br); [unfold erow; lia|].
    replace (erow e * br + br) with (S (erow e) * br) by lia. apply Nat.mul_le_mono_r. unfold erow in *. lia.
  - apply Nat.lt_le_trans with (m := ecol e * bc + bc); [unfold ecol; lia|].
    replace (ecol e * bc + bc) with (S (ecol e) * bc) by lia. apply Nat.mul_le_mono_r. unfold ecol in *. lia.
Qed.

Notation denCoo := (den_coo F zero add).
Notation xat := (xat F zero).
Notation dot := (dot_row F zero add mul).

(* the block kernels are the scalar kernels of the expansion: b += A x and b += A^T x, b -= ... *)
Theorem block_spmv_kernels br bc (A : coo (list F)) (x b : list F) : coo_wf A ->
  let E := bcoo_expand zero br bc A in
  (forall i, xat (coo_spmv F zero add mul E x) i = dot (denCoo E i) x (coo_nc E)) /\
  (coo_nr E <= length b -> forall i, xat (coo_spmv_append F zero add mul E x b) i = add (xat b i) (dot (denCoo E i) x (coo_nc E))) /\
  (coo_nr E <= length b -> forall i, xat (coo_spmv_append_neg F zero mul sub E x b) i = sub (xat b i) (dot (denCoo E i) x (coo_nc E))) /\
  (coo_nc E <= length b -> forall j, xat (coo_spmv_append_T F zero add mul E x b) j = add (xat b j) (dot (fun i => denCoo E i j) x (coo_nr E))) /\
  (coo_nc E <= length b -> forall j, xat (coo_spmv_append_neg_T F zero mul sub E x b) j = sub (xat b j) (dot (fun i => denCoo E i j) x (coo_nr E))).
Proof.
  intros Hwf E. pose proof (bcoo_expand_wf br bc A Hwf) as HE. fold E in HE.
  repeat split; intros.
  - apply (coo_spmv_spec _ _ _ _ _ _ _ Fth); assumption.
  - apply (coo_spmv_append_spec _ _ _ _ _ _ _ Fth); assumption.
  - apply (coo_spmv_append_neg_spec _ _ _ _ _ _ _ Fth); assumption.
  - apply (coo_spmv_append_T_spec _ _ _ _ _ _ _ Fth); assumption.
  - apply (coo_spmv_append_neg_T_spec _ _ _ _ _ _ _ Fth); assumption.
Qed.

End BlockProofs.
