(* C07 (sequential part): sort, move_diag, remove_duplicates, add, subtract preserve / add the operator. *)
From Raptor Require Import Base.Sums Sparse.Defs Sparse.ConvertProofs.

(* ---- generic: insertion sort is a permutation and sorts ---- *)
Section SortGeneric.
Context {X : Type}.
Variable le : X -> X -> bool.

Lemma insert_by_perm x l : Permutation (insert_by le x l) (x :: l).
Proof.
  induction l as [|y l IH]; simpl; [apply Permutation_refl|].
  destruct (le x y); [apply Permutation_refl|].
  eapply Permutation_trans; [apply perm_skip; exact IH|apply perm_swap].
Qed.

Lemma isort_by_perm l : Permutation (isort_by le l) l.
Proof.
  induction l as [|x l IH]; simpl; [constructor|].
  eapply Permutation_trans; [apply insert_by_perm|apply perm_skip; exact IH].
Qed.

Fixpoint sortedb (l : list X) : bool :=
  match l with
  | [] => true
  | x :: l' => match l' with [] => true | y :: _ => le x y && sortedb l' end
  end.

Hypothesis le_total : forall a b, le a b = true \/ le b a = true.

Lemma insert_by_sorted x l : sortedb l = true -> sortedb (insert_by le x l) = true.
Proof.
  induction l as [|y l IH]; simpl; intros H; [reflexivity|].
  destruct (le x y) eqn:E.
  - cbn [sortedb]. rewrite E. simpl. exact H.
  - assert (Hyx : le y x = true) by (destruct (le_total x y); congruence).
    destruct l as [|z l].
    + simpl. rewrite Hyx. reflexivity.
    + apply andb_prop in H. destruct H as [Hyz Hs]. specialize (IH Hs).
      cbn [insert_by] in *. destruct (le x z) eqn:E2.
      * cbn [sortedb]. rewrite Hyx, E2. simpl. exact Hs.
      * cbn [sortedb] in *. rewrite Hyz. simpl. exact IH.
Qed.

Lemma isort_by_sorted l : sortedb (isort_by le l) = true.
Proof. induction l as [|x l IH]; simpl; [reflexivity|]. apply insert_by_sorted. exact IH. Qed.

End SortGeneric.

Lemma extract_first_perm {X} (p : X -> bool) l y r :
  extract_first p l = Some (y, r) -> Permutation l (y :: r) /\ p y = true.
Proof.
  revert y r. induction l as [|x l IH]; simpl; intros y r H; [discriminate|].
  destruct (p x) eqn:E.
  - inversion H; subst. split; [apply Permutation_refl|exact E].
  - destruct (extract_first p l) as [[y' r']|] eqn:E2; [|discriminate].
    inversion H; subst. destruct (IH y r' eq_refl) as [HP Hy]. split; [|exact Hy].
    eapply Permutation_trans; [apply perm_skip; exact HP|apply perm_swap].
Qed.

Lemma extract_first_none {X} (p : X -> bool) l :
  extract_first p l = None -> forall x, In x l -> p x = false.
Proof.
  induction l as [|x l IH]; simpl; intros H y Hy; [contradiction|].
  destruct (p x) eqn:E; [discriminate|].
  destruct (extract_first p l) as [[? ?]|] eqn:E2; [discriminate|].
  destruct Hy as [<-|Hy]; [exact E|apply IH; [reflexivity|exact Hy]].
Qed.

Section SortProofs.
Variable F : Type.
Variables (zero one : F) (add mul sub : F -> F -> F) (opp : F -> F).
Variable Fth : ring_theory zero one add mul sub opp (@eq F).
Add Ring Fring3 : Fth.
Variable small : F -> bool.

Notation denL := (den_line F zero add).
Notation denCoo := (den_coo F zero add).
Notation denCsr := (den_csr F zero add).
Notation denCsc := (den_csc F zero add).
Notation dropF := (drop F zero small).

Lemma den_app r1 r2 j : denL (r1 ++ r2) j = add (denL r1 j) (denL r2 j).
Proof. apply (den_line_app F zero one add mul sub opp Fth). Qed.

Lemma le_fst_total (a b : nat * F) : le_fst a b = true \/ le_fst b a = true.
Proof. unfold le_fst. destruct (Nat.leb_spec (fst a) (fst b)); [left; reflexivity|right; apply Nat.leb_le; lia]. Qed.

Lemma sort_line_perm (r : list (nat * F)) : Permutation (sort_line r) r.
Proof. apply isort_by_perm. Qed.

Lemma den_sort_line r j : denL (sort_line r) j = denL r j.
Proof. apply (den_line_perm F zero one add mul sub opp Fth). apply sort_line_perm. Qed.

Lemma sort_line_sorted (r : list (nat * F)) : sortedb le_fst (sort_line r) = true.
Proof. apply isort_by_sorted. apply le_fst_total. Qed.

Lemma nth_map_default {A B} (f : A -> B) l i da db : f da = db -> nth i (map f l) db = f (nth i l da).
Proof. intros <-. apply map_nth. Qed.

Theorem den_csr_sort (A : csr F) i j : denCsr (csr_sort A) i j = denCsr A i j.
Proof.
  unfold den_csr, csr_sort; simpl.
  rewrite (nth_map_default (@sort_line F) _ i [] []) by reflexivity. apply den_sort_line.
Qed.
Theorem den_csc_sort (A : csc F) i j : denCsc (csc_sort A) i j = denCsc A i j.
Proof.
  unfold den_csc, csc_sort; simpl.
  rewrite (nth_map_default (@sort_line F) _ j [] []) by reflexivity. apply den_sort_line.
Qed.
Theorem csr_sort_sorted (A : csr F) r : In r (csr_rows (csr_sort A)) -> sortedb le_fst r = true.
Proof. simpl. intros H. apply in_map_iff in H. destruct H as [r0 [<- _]]. apply sort_line_sorted. Qed.

Theorem den_coo_sort (A : coo F) i j : denCoo (coo_sort A) i j = denCoo A i j.
Proof.
  unfold den_coo, coo_sort; simpl.
  apply (sumf_perm F zero one add mul sub opp Fth). apply Permutation_map.
  apply Permutation_filter'. apply isort_by_perm.
Qed.

(* ---- move_diag ---- *)
Lemma move_diag_line_perm i (r : list (nat * F)) : Permutation (move_diag_line i r) r.
Proof.
  unfold move_diag_line. destruct (extract_first _ r) as [[d rest]|] eqn:E; [|apply Permutation_refl].
  apply extract_first_perm in E. apply Permutation_sym. apply E.
Qed.

Lemma move_diag_line_first i (r : list (nat * F)) :
  (exists p, In p r /\ fst p = i) -> exists d rest, move_diag_line i r = d :: rest /\ fst d = i.
Proof.
  intros [p [Hp Hi]]. unfold move_diag_line.
  destruct (extract_first _ r) as [[d rest]|] eqn:E.
  - apply extract_first_perm in E. destruct E as [_ Hd]. exists d, rest. split; [reflexivity|apply Nat.eqb_eq; exact Hd].
  - exfalso. pose proof (extract_first_none _ _ E p Hp) as Hf. simpl in Hf. apply Nat.eqb_neq in Hf. auto.
Qed.

Lemma nth_indexed_map {A B} (f : nat -> A -> B) (l : list A) i dA dB s :
  i < length l -> nth i (map (fun ir => f (fst ir) (snd ir)) (indexed_from s l)) dB = f (s + i) (nth i l dA).
Proof.
  revert s i. induction l as [|a l IH]; intros s i Hi; simpl in *; [lia|].
  destruct i as [|i]; simpl; [rewrite Nat.add_0_r; reflexivity|].
  rewrite IH by lia. f_equal. lia.
Qed.

Theorem den_csr_move_diag (A : csr F) i j : denCsr (csr_move_diag A) i j = denCsr A i j.
Proof.
  unfold den_csr, csr_move_diag, indexed; simpl.
  destruct (Nat.lt_ge_cases i (length (csr_rows A))) as [Hi|Hi].
  - rewrite (nth_indexed_map (@move_diag_line F) _ i [] [] 0) by exact Hi. simpl.
    apply (den_line_perm F zero one add mul sub opp Fth). apply move_diag_line_perm.
  - rewrite !nth_overflow; [reflexivity|exact Hi|].
    rewrite map_length, indexed_from_length. exact Hi.
Qed.
Theorem den_csc_move_diag (A : csc F) i j : denCsc (csc_move_diag A) i j = denCsc A i j.
Proof.
  unfold den_csc, csc_move_diag, indexed; simpl.
  destruct (Nat.lt_ge_cases j (length (csc_cols A))) as [Hi|Hi].
  - rewrite (nth_indexed_map (@move_diag_line F) _ j [] [] 0) by exact Hi. simpl.
    apply (den_line_perm F zero one add mul sub opp Fth). apply move_diag_line_perm.
  - rewrite !nth_overflow; [reflexivity|exact Hi|].
    rewrite map_length, indexed_from_length. exact Hi.
Qed.
Theorem csr_move_diag_first (A : csr F) i :
  i < length (csr_rows A) -> (exists p, In p (nth i (csr_rows A) []) /\ fst p = i) ->
  exists d rest, nth i (csr_rows (csr_move_diag A)) [] = d :: rest /\ fst d = i.
Proof.
  intros Hi H. unfold csr_move_diag, indexed; simpl.
  rewrite (nth_indexed_map (@move_diag_line F) _ i [] [] 0) by exact Hi. simpl.
  apply move_diag_line_first. exact H.
Qed.

(* ---- remove_duplicates on a sorted line ---- *)
Lemma drop_zero : dropF zero = zero.
Proof. unfold drop. destruct (small zero); reflexivity. Qed.

Lemma den_emit c acc j : denL (emit F small c acc) j = if c =? j then dropF acc else zero.
Proof.
  unfold emit, drop, den_line. destruct (small acc); simpl.
  - destruct (c =? j); reflexivity.
  - destruct (c =? j); simpl; [ring|reflexivity].
Qed.

Lemma sortedb_tail (p : nat * F) l : sortedb le_fst (p :: l) = true -> sortedb le_fst l = true.
Proof. destruct l as [|q l]; [reflexivity|]. cbn [sortedb]. intros H. apply andb_prop in H. apply H. Qed.

Lemma sorted_ge (p : nat * F) l : sortedb le_fst (p :: l) = true -> forall q, In q l -> fst p <= fst q.
Proof.
  revert p. induction l as [|x l IH]; intros p H q Hq; [contradiction|].
  cbn [sortedb] in H. apply andb_prop in H. destruct H as [H1 H2].
  unfold le_fst in H1. apply Nat.leb_le in H1.
  destruct Hq as [<-|Hq]; [exact H1|]. specialize (IH x H2 q Hq). lia.
Qed.

Lemma den_line_absent (l : list (nat * F)) j : (forall q, In q l -> fst q <> j) -> denL l j = zero.
Proof.
  intros H. unfold den_line. rewrite filter_none; [reflexivity|].
  intros q Hq. apply Nat.eqb_neq. apply H. exact Hq.
Qed.

Lemma den_line_cons (p : nat * F) l j :
  denL (p :: l) j = add (if fst p =? j then snd p else zero) (denL l j).
Proof. unfold den_line. simpl. destruct (fst p =? j); simpl; ring. Qed.

Lemma den_dedup_acc l : forall c acc j,
  sortedb le_fst l = true -> (forall q, In q l -> c <= fst q) ->
  denL (dedup_acc F add small c acc l) j =
    if c =? j then dropF (add acc (denL l c)) else dropF (denL l j).
Proof.
  induction l as [|p l IH]; intros c acc j Hs Hge; cbn [dedup_acc].
  - rewrite den_emit. unfold den_line; simpl. destruct (c =? j).
    + f_equal. ring.
    + symmetry. apply drop_zero.
  - pose proof (sortedb_tail _ _ Hs) as Hs'.
    pose proof (sorted_ge _ _ Hs) as Hp.
    destruct (fst p =? c) eqn:E.
    + apply Nat.eqb_eq in E. rewrite IH; [|exact Hs'|intros q Hq; rewrite <- E; apply Hp; exact Hq].
      rewrite !den_line_cons. rewrite E. rewrite Nat.eqb_refl.
      destruct (c =? j) eqn:Ecj.
      * f_equal. ring.
      * f_equal. ring.
    + apply Nat.eqb_neq in E. assert (Hlt : c < fst p) by (specialize (Hge p (or_introl eq_refl)); lia).
      rewrite den_app, den_emit.
      rewrite IH; [|exact Hs'|exact Hp].
      rewrite !den_line_cons.
      assert (Hc : denL l c = zero).
      { apply den_line_absent. intros q Hq. specialize (Hp q Hq). lia. }
      destruct (c =? j) eqn:Ecj.
      * apply Nat.eqb_eq in Ecj. subst j.
        replace (fst p =? c) with false by (symmetry; apply Nat.eqb_neq; lia).
        rewrite Hc, drop_zero. replace (add acc (add zero zero)) with acc by ring. ring.
      * destruct (fst p =? j) eqn:Epj.
        -- apply Nat.eqb_eq in Epj. rewrite <- Epj. ring.
        -- replace (add zero (denL l j)) with (denL l j) by ring. ring.
Qed.

Theorem den_dedup_line l j : sortedb le_fst l = true -> denL (dedup_line F add small l) j = dropF (denL l j).
Proof.
  intros Hs. destruct l as [|p l]; simpl.
  - symmetry. apply drop_zero.
  - rewrite den_dedup_acc; [|apply (sortedb_tail _ _ Hs)|apply (sorted_ge _ _ Hs)].
    rewrite den_line_cons. destruct (fst p =? j) eqn:E.
    + apply Nat.eqb_eq in E. subst j. reflexivity.
    + f_equal. ring.
Qed.

Theorem den_csr_remove_duplicates (A : csr F) i j :
  denCsr (csr_remove_duplicates F add small A) i j = dropF (denCsr A i j).
Proof.
  unfold den_csr, csr_remove_duplicates; simpl.
  rewrite (nth_map_default (fun r => dedup_line F add small (sort_line r)) _ i [] []) by reflexivity.
  rewrite den_dedup_line by apply sort_line_sorted. rewrite den_sort_line. reflexivity.
Qed.
Theorem den_csc_remove_duplicates (A : csc F) i j :
  denCsc (csc_remove_duplicates F add small A) i j = dropF (denCsc A i j).
Proof.
  unfold den_csc, csc_remove_duplicates; simpl.
  rewrite (nth_map_default (fun r => dedup_line F add small (sort_line r)) _ j [] []) by reflexivity.
  rewrite den_dedup_line by apply sort_line_sorted. rewrite den_sort_line. reflexivity.
Qed.

(* at most one stored entry per position after remove_duplicates *)
Lemma dedup_acc_fsts l : forall c acc q,
  sortedb le_fst l = true -> (forall q, In q l -> c <= fst q) ->
  In q (dedup_acc F add small c acc l) -> c <= fst q.
Proof.
  induction l as [|p l IH]; intros c acc q Hs Hge; cbn [dedup_acc].
  - unfold emit. destruct (small acc); simpl; [tauto|]. intros [<-|[]]. simpl. lia.
  - pose proof (sortedb_tail _ _ Hs) as Hs'. pose proof (sorted_ge _ _ Hs) as Hp.
    destruct (fst p =? c) eqn:E.
    + apply Nat.eqb_eq in E. apply IH; [exact Hs'|intros x Hx; rewrite <- E; apply Hp; exact Hx].
    + intros Hin. apply in_app_or in Hin. destruct Hin as [Hin|Hin].
      * unfold emit in Hin. destruct (small acc); simpl in Hin; [tauto|]. destruct Hin as [<-|[]]. simpl. lia.
      * specialize (IH (fst p) (snd p) q Hs' Hp Hin). specialize (Hge p (or_introl eq_refl)). lia.
Qed.

Lemma dedup_acc_nodup l : forall c acc,
  sortedb le_fst l = true -> (forall q, In q l -> c <= fst q) ->
  NoDup (map fst (dedup_acc F add small c acc l)).
Proof.
  induction l as [|p l IH]; intros c acc Hs Hge; cbn [dedup_acc].
  - unfold emit. destruct (small acc); simpl; repeat constructor. intros [].
  - pose proof (sortedb_tail _ _ Hs) as Hs'. pose proof (sorted_ge _ _ Hs) as Hp.
    destruct (fst p =? c) eqn:E.
    + apply Nat.eqb_eq in E. apply IH; [exact Hs'|intros x Hx; rewrite <- E; apply Hp; exact Hx].
    + apply Nat.eqb_neq in E. assert (Hlt : c < fst p) by (specialize (Hge p (or_introl eq_refl)); lia).
      unfold emit. destruct (small acc); simpl; [apply IH; assumption|].
      constructor; [|apply IH; assumption].
      intros Hin. apply in_map_iff in Hin. destruct Hin as [q [Hq Hin]].
      apply dedup_acc_fsts in Hin; [lia|exact Hs'|exact Hp].
Qed.

Theorem csr_remove_duplicates_nodup (A : csr F) r :
  In r (csr_rows (csr_remove_duplicates F add small A)) -> NoDup (map fst r).
Proof.
  simpl. intros H. apply in_map_iff in H. destruct H as [r0 [<- _]].
  pose proof (sort_line_sorted r0) as Hs. destruct (sort_line r0) as [|p l]; simpl; [constructor|].
  apply dedup_acc_nodup; [apply (sortedb_tail _ _ Hs)|apply (sorted_ge _ _ Hs)].
Qed.

(* ---- add / subtract ---- *)
Lemma nth_zip_rows (ra rb : list (list (nat * F))) i :
  length rb <= length ra -> nth i (zip_rows F ra rb) [] = nth i ra [] ++ nth i rb [].
Proof.
  revert rb i. induction ra as [|a ra IH]; intros rb i Hl; simpl.
  - destruct rb; simpl in Hl; [|lia]. destruct i; reflexivity.
  - destruct rb as [|b rb]; simpl.
    + destruct i as [|i]; [rewrite app_nil_r; reflexivity|].
      rewrite (IH [] i) by (simpl; lia). destruct i; reflexivity.
    + destruct i as [|i]; [reflexivity|]. apply IH. simpl in Hl. lia.
Qed.

Theorem den_csr_add (A B : csr F) (rd : bool) i j :
  length (csr_rows B) <= length (csr_rows A) ->
  denCsr (csr_add F add small A B rd) i j =
    if rd then dropF (add (denCsr A i j) (denCsr B i j)) else add (denCsr A i j) (denCsr B i j).
Proof.
  intros Hl. unfold csr_add. destruct rd.
  - rewrite den_csr_remove_duplicates. unfold den_csr; simpl. rewrite nth_zip_rows by exact Hl.
    rewrite den_app. reflexivity.
  - rewrite den_csr_sort. unfold den_csr; simpl. rewrite nth_zip_rows by exact Hl.
    apply den_app.
Qed.

Lemma den_neg_line r j : denL (neg_line F opp r) j = opp (denL r j).
Proof.
  unfold den_line, neg_line. rewrite filter_map_comm, map_map. simpl.
  induction r as [|p r IH]; simpl; [ring|]. destruct (fst p =? j); simpl; rewrite ?IH; ring.
Qed.

Theorem den_csr_subtract (A B : csr F) i j :
  length (csr_rows B) <= length (csr_rows A) ->
  denCsr (csr_subtract F add opp small A B) i j = dropF (sub (denCsr A i j) (denCsr B i j)).
Proof.
  intros Hl. unfold csr_subtract. rewrite den_csr_remove_duplicates. unfold den_csr; simpl.
  rewrite nth_zip_rows by (rewrite map_length; exact Hl).
  rewrite den_app. f_equal.
  rewrite (nth_map_default (neg_line F opp) _ i [] []) by reflexivity.
  rewrite den_neg_line. ring.
Qed.

End SortProofs.
