(* Block formats (BCOO/BSR/BSC of core/matrix.hpp): a block entry (I, J, vals) with vals the row-major
   b_rows x b_cols block.  The block kernels of matrix.hpp (append / append_T / append_neg / append_neg_T for
   double* values) visit the scalars of a block row-major, so a block matrix behaves like the scalar matrix
   obtained by expanding every block in that order. *)
From Raptor Require Import Base.Sums Sparse.Defs.

Section Block.
Variable F : Type.
Variable zero : F.

Definition expand_ent (br bc : nat) (e : ent (list F)) : list (ent F) :=
  flat_map (fun r => map (fun c => (erow e * br + r, ecol e * bc + c, nth (r * bc + c) (eval e) zero)) (seq 0 bc))
           (seq 0 br).
Definition bcoo_expand (br bc : nat) (A : coo (list F)) : coo F :=
  mkCoo (coo_nr A * br) (coo_nc A * bc) (flat_map (expand_ent br bc) (coo_ents A)).
(* BSR / BSC are the polymorphic csr / csc at T = list F; their block triple listing is csr_to_coo / csc_to_coo *)
Definition bsr_expand br bc (A : csr (list F)) : coo F := bcoo_expand br bc (csr_to_coo A).
Definition bsc_expand br bc (A : csc (list F)) : coo F := bcoo_expand br bc (csc_to_coo A).

(* BSR_to_CSR: expanded rows, entries with |v| <= zero_tol not stored *)
Variable big : F -> bool.       (* |v| > zero_tol *)
Definition bsr_to_csr br bc (A : csr (list F)) : csr F :=
  let E := bsr_expand br bc A in
  coo_to_csr (mkCoo (coo_nr E) (coo_nc E) (filter (fun e => big (eval e)) (coo_ents E))).

(* block transposes (after the fix: to_BCOO, exchange the block indices and the dimensions, transpose every block,
   convert back): a br x bc row-major block becomes the bc x br row-major block with entry (c, r) = old entry (r, c) *)
Definition tblock (br bc : nat) (blk : list F) : list F :=
  flat_map (fun c => map (fun r => nth (r * bc + c) blk zero) (seq 0 br)) (seq 0 bc).
Definition bcoo_transpose br bc (A : coo (list F)) : coo (list F) :=
  mkCoo (coo_nc A) (coo_nr A) (map (fun e => (ecol e, erow e, tblock br bc (eval e))) (coo_ents A)).
Definition bsr_transpose br bc (A : csr (list F)) : csr (list F) := coo_to_csr (bcoo_transpose br bc (csr_to_coo A)).
Definition bsc_transpose br bc (A : csc (list F)) : csc (list F) := coo_to_csc (bcoo_transpose br bc (csc_to_coo A)).

(* block remove_duplicates = the scalar routines at T = blocks with entrywise addition (append_vals) and
   abs_val(block) = sum of |entries| compared with zero_tol *)
Variable add : F -> F -> F.
Fixpoint vadd (a b : list F) : list F :=
  match a, b with x :: a', y :: b' => add x y :: vadd a' b' | _, _ => a end.
End Block.

(* value maps: the (r, c) slice of a block matrix is the scalar matrix of the blocks' (r, c) entries *)
Section Maps.
Variables T U : Type.
Variable g : T -> U.
Definition coo_map (A : coo T) : coo U :=
  mkCoo (coo_nr A) (coo_nc A) (map (fun e => (erow e, ecol e, g (eval e))) (coo_ents A)).
Definition line_map (r : list (nat * T)) : list (nat * U) := map (fun p => (fst p, g (snd p))) r.
Definition csr_map (A : csr T) : csr U := mkCsr (csr_nr A) (csr_nc A) (map line_map (csr_rows A)).
Definition csc_map (A : csc T) : csc U := mkCsc (csc_nr A) (csc_nc A) (map line_map (csc_cols A)).
End Maps.
Arguments coo_map {T U}. Arguments line_map {T U}. Arguments csr_map {T U}. Arguments csc_map {T U}.

Arguments expand_ent {F}. Arguments bcoo_expand {F}. Arguments bsr_expand {F}. Arguments bsc_expand {F}.
Arguments bsr_to_csr {F}. Arguments tblock {F}. Arguments bcoo_transpose {F}. Arguments bsr_transpose {F}. Arguments bsc_transpose {F}. Arguments vadd {F}.
