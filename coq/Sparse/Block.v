(* Block formats (BCOO/BSR/BSC of core/matrix.hpp): a block entry (I, J, vals) with vals the row-major
   b_rows x b_cols block.  The block kernels of matrix.hpp (append / append_T / append_neg / append_neg_T for
   double* values) visit the scalars of a block row-major, so a block matrix behaves like the scalar matrix
   obtained by expanding every block in that order. *)
From Raptor Require Import Base.Sums Sparse.Defs.

Section Block.
Variable F : Type.
Variable zero : F.

Definition expand_ent (br bc : nat) (e : ent (list F)) : list (ent F) :=
  flat_map (fun r => map (fun c => (erow e * br + r, ecol e * bc + c, nth (r * bc + c) (eval e) zero)) (seq 0 bc))
           (seq 0 br).
Definition bcoo_expand (br bc : nat) (A : coo (list F)) : coo F :=
  mkCoo (coo_nr A * br) (coo_nc A * bc) (flat_map (expand_ent br bc) (coo_ents A)).
(* BSR / BSC are the polymorphic csr / csc at T = list F; their block triple listing is csr_to_coo / csc_to_coo *)
Definition bsr_expand br bc (A : csr (list F)) : coo F := bcoo_expand br bc (csr_to_coo A).
Definition bsc_expand br bc (A : csc (list F)) : coo F := bcoo_expand br bc (csc_to_coo A).

(* BSR_to_CSR: expanded rows, entries with |v| <= zero_tol not stored *)
Variable big : F -> bool.       (* |v| > zero_tol *)
Definition bsr_to_csr br bc (A : csr (list F)) : csr F :=
  let E := bsr_expand br bc A in
  coo_to_csr (mkCoo (coo_nr E) (coo_nc E) (filter (fun e => big (eval e)) (coo_ents E))).
End Block.

Arguments expand_ent {F}. Arguments bcoo_expand {F}. Arguments bsr_expand {F}. Arguments bsc_expand {F}.
Arguments bsr_to_csr {F}.
