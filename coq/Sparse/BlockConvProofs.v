(* Block forms (BCOO / BSR / BSC): conversions, copies, sort, move_diag and transposes preserve / transpose the
   represented operator.  Method: the (r, c) slice of a block matrix (the scalar matrix of the blocks' (r, c) entries) is
   a value map of the block matrix; the structural operations are natural in the values (they never look at them), so the
   scalar theorems of ConvertProofs / SortProofs apply slice by slice, and the expansion's entry (I*br + r, J*bc + c)
   is the slice's entry (I, J). *)
From Raptor Require Import Base.Sums Sparse.Defs Sparse.ConvertProofs Sparse.SortProofs Sparse.Block Sparse.BlockProofs.

(* ---------- naturality of the structural operations in the stored values ---------- *)
Section Naturality.
Variables T U : Type.
Variable g : T -> U.

Notation cmap := (coo_map g).
Notation rmap := (csr_map g).
Notation kmap := (csc_map g).
Notation lmap := (line_map g).

Lemma bucket_map (key : ent T -> nat) (key' : ent U -> nat) (pay : ent T -> nat * T) (pay' : ent U -> nat * U) n es
      (h := fun e : ent T => (erow e, ecol e, g (eval e))) :
  (forall e, key' (h e) = key e) -> (forall e, pay' (h e) = (fst (pay e), g (snd (pay e)))) ->
  bucket key' pay' n (map h es) = map lmap (bucket key pay n es).
Proof.
  intros Hk Hp. unfold bucket. rewrite map_map. apply map_ext. intros i.
  rewrite filter_map_comm, map_map. unfold line_map. rewrite map_map.
  erewrite (filter_ext (fun a => key' (h a) =? i)); [|intros a; rewrite Hk; reflexivity].
  apply map_ext. intros a. apply Hp.
Qed.

Lemma coo_to_csr_map (A : coo T) : coo_to_csr (cmap A) = rmap (coo_to_csr A).
Proof. unfold coo_to_csr, csr_map, coo_map; simpl. f_equal. apply bucket_map; intros e; reflexivity. Qed.

Lemma coo_to_csc_map (A : coo T) : coo_to_csc (cmap A) = kmap (coo_to_csc A).
Proof. unfold coo_to_csc, csc_map, coo_map; simpl. f_equal. apply bucket_map; intros e; reflexivity. Qed.

Lemma indexed_from_map {X Y} (f : X -> Y) s l :
  indexed_from s (map f l) = map (fun p => (fst p, f (snd p))) (indexed_from s l).
Proof. revert s; induction l as [|x l IH]; intros s; simpl; [reflexivity|rewrite IH; reflexivity]. Qed.

Lemma csr_to_coo_map (A : csr T) : csr_to_coo (rmap A) = cmap (csr_to_coo A).
Proof.
  unfold csr_to_coo, csr_map, coo_map; simpl. f_equal. unfold indexed. rewrite indexed_from_map.
  rewrite flat_map_concat_map, map_map, flat_map_concat_map, concat_map, map_map. f_equal.
  apply map_ext. intros [i r]; simpl. unfold line_map. rewrite !map_map. apply map_ext. intros p. reflexivity.
Qed.

Lemma csc_to_coo_map (A : csc T) : csc_to_coo (kmap A) = cmap (csc_to_coo A).
Proof.
  unfold csc_to_coo, csc_map, coo_map; simpl. f_equal. unfold indexed. rewrite indexed_from_map.
  rewrite flat_map_concat_map, map_map, flat_map_concat_map, concat_map, map_map. f_equal.
  apply map_ext. intros [i r]; simpl. unfold line_map. rewrite !map_map. apply map_ext. intros p. reflexivity.
Qed.

Lemma csr_to_csc_map (A : csr T) : csr_to_csc (rmap A) = kmap (csr_to_csc A).
Proof. unfold csr_to_csc. rewrite csr_to_coo_map, coo_to_csc_map. reflexivity. Qed.
Lemma csc_to_csr_map (A : csc T) : csc_to_csr (kmap A) = rmap (csc_to_csr A).
Proof. unfold csc_to_csr. rewrite csc_to_coo_map, coo_to_csr_map. reflexivity. Qed.

Lemma coo_transpose_map (A : coo T) : coo_transpose (cmap A) = cmap (coo_transpose A).
Proof. unfold coo_transpose, coo_map; simpl. f_equal. rewrite !map_map. apply map_ext. intros e. reflexivity. Qed.

(* sorting compares indices only *)
Lemma insert_by_map {X Y} (f : X -> Y) (le : X -> X -> bool) (le' : Y -> Y -> bool) x l :
  (forall a b, le' (f a) (f b) = le a b) -> insert_by le' (f x) (map f l) = map f (insert_by le x l).
Proof.
  intros H. induction l as [|y l IH]; simpl; [reflexivity|]. rewrite H. destruct (le x y); simpl; [reflexivity|].
  rewrite IH. reflexivity.
Qed.
Lemma isort_by_map {X Y} (f : X -> Y) (le : X -> X -> bool) (le' : Y -> Y -> bool) l :
  (forall a b, le' (f a) (f b) = le a b) -> isort_by le' (map f l) = map f (isort_by le l).
Proof. intros H. induction l as [|x l IH]; simpl; [reflexivity|]. rewrite IH. apply insert_by_map. exact H. Qed.

Lemma sort_line_map (r : list (nat * T)) : sort_line (lmap r) = lmap (sort_line r).
Proof. unfold sort_line, line_map. apply isort_by_map. intros a b. reflexivity. Qed.

Lemma csr_sort_map (A : csr T) : csr_sort (rmap A) = rmap (csr_sort A).
Proof. unfold csr_sort, csr_map; simpl. f_equal. rewrite !map_map. apply map_ext. intros r. apply sort_line_map. Qed.
Lemma csc_sort_map (A : csc T) : csc_sort (kmap A) = kmap (csc_sort A).
Proof. unfold csc_sort, csc_map; simpl. f_equal. rewrite !map_map. apply map_ext. intros r. apply sort_line_map. Qed.
Lemma coo_sort_map (A : coo T) : coo_sort (cmap A) = cmap (coo_sort A).
Proof. unfold coo_sort, coo_map; simpl. f_equal. apply isort_by_map. intros a b. reflexivity. Qed.

Lemma extract_first_map {X Y} (f : X -> Y) (p : X -> bool) (p' : Y -> bool) l :
  (forall a, p' (f a) = p a) ->
  extract_first p' (map f l) = option_map (fun yr => (f (fst yr), map f (snd yr))) (extract_first p l).
Proof.
  intros H. induction l as [|x l IH]; simpl; [reflexivity|]. rewrite H. destruct (p x); simpl; [reflexivity|].
  rewrite IH. destruct (extract_first p l) as [[y r]|]; reflexivity.
Qed.

Lemma move_diag_line_map i (r : list (nat * T)) : move_diag_line i (lmap r) = lmap (move_diag_line i r).
Proof.
  unfold move_diag_line, line_map.
  rewrite (extract_first_map (fun p : nat * T => (fst p, g (snd p))) (fun p => fst p =? i) (fun p => fst p =? i)) by reflexivity.
  destruct (extract_first _ r) as [[y rest]|]; reflexivity.
Qed.

Lemma csr_move_diag_map (A : csr T) : csr_move_diag (rmap A) = rmap (csr_move_diag A).
Proof.
  unfold csr_move_diag, csr_map; simpl. f_equal. unfold indexed. rewrite indexed_from_map, !map_map.
  apply map_ext. intros [i r]; simpl. apply move_diag_line_map.
Qed.
Lemma csc_move_diag_map (A : csc T) : csc_move_diag (kmap A) = kmap (csc_move_diag A).
Proof.
  unfold csc_move_diag, csc_map; simpl. f_equal. unfold indexed. rewrite indexed_from_map, !map_map.
  apply map_ext. intros [i r]; simpl. apply move_diag_line_map.
Qed.

Lemma coo_map_wf (A : coo T) : coo_wf A -> coo_wf (cmap A).
Proof.
  intros H e He. unfold coo_map in He; simpl in He. apply in_map_iff in He. destruct He as [e0 [<- He0]].
  exact (H e0 He0).
Qed.
Lemma csr_map_wf (A : csr T) : csr_wf A -> csr_wf (rmap A).
Proof.
  intros [H1 H2]. split; [unfold csr_map; simpl; rewrite map_length; exact H1|].
  intros r Hr p Hp. unfold csr_map in Hr; simpl in Hr. apply in_map_iff in Hr. destruct Hr as [r0 [<- Hr0]].
  unfold line_map in Hp. apply in_map_iff in Hp. destruct Hp as [p0 [<- Hp0]]. simpl. exact (H2 r0 Hr0 p0 Hp0).
Qed.
Lemma csc_map_wf (A : csc T) : csc_wf A -> csc_wf (kmap A).
Proof.
  intros [H1 H2]. split; [unfold csc_map; simpl; rewrite map_length; exact H1|].
  intros r Hr p Hp. unfold csc_map in Hr; simpl in Hr. apply in_map_iff in Hr. destruct Hr as [r0 [<- Hr0]].
  unfold line_map in Hp. apply in_map_iff in Hp. destruct Hp as [p0 [<- Hp0]]. simpl. exact (H2 r0 Hr0 p0 Hp0).
Qed.
End Naturality.

(* ---------- slices and the block theorems ---------- *)
Section BlockConv.
Variable F : Type.
Variables (zero one : F) (add mul sub : F -> F -> F) (opp : F -> F).
Variable Fth : ring_theory zero one add mul sub opp (@eq F).
Add Ring FringBC : Fth.

Notation denCoo := (den_coo F zero add).
Notation denCsr := (den_csr F zero add).
Notation denCsc := (den_csc F zero add).
Notation expand := (bcoo_expand zero).

Definition slice (bc r c : nat) (blk : list F) : F := nth (r * bc + c) blk zero.

(* entry (I*br + r, J*bc + c) of the expansion = entry (I, J) of the (r, c) slice *)
Lemma slice_den br bc (A : coo (list F)) I J r c : r < br -> c < bc ->
  denCoo (expand br bc A) (I * br + r) (J * bc + c) = denCoo (coo_map (slice bc r c) A) I J.
Proof.
  intros Hr Hc. rewrite (bcoo_expand_den F zero one add mul sub opp Fth) by assumption.
  unfold den_coo, coo_map; simpl. rewrite filter_map_comm, map_map. unfold slice. reflexivity.
Qed.

(* block denotations of the three block forms *)
Definition bden_coo br bc (A : coo (list F)) := denCoo (expand br bc A).
Definition bden_csr br bc (A : csr (list F)) := denCoo (expand br bc (csr_to_coo A)).
Definition bden_csc br bc (A : csc (list F)) := denCoo (expand br bc (csc_to_coo A)).

Section Pos.
Variables br bc I J r c : nat.
Hypothesis Hr : r < br.
Hypothesis Hc : c < bc.
Notation i := (I * br + r).
Notation j := (J * bc + c).
Notation sl := (slice bc r c).

(* to_BSR / to_BSC / to_BCOO and back *)
Theorem bden_coo_to_csr (A : coo (list F)) : coo_wf A -> bden_csr br bc (coo_to_csr A) i j = bden_coo br bc A i j.
Proof.
  intros Hwf. unfold bden_csr, bden_coo. rewrite !slice_den by assumption.
  rewrite <- csr_to_coo_map, <- coo_to_csr_map.
  rewrite (den_csr_to_coo F zero add), (den_coo_to_csr F zero add) by (apply coo_map_wf; exact Hwf). reflexivity.
Qed.
Theorem bden_coo_to_csc (A : coo (list F)) : coo_wf A -> bden_csc br bc (coo_to_csc A) i j = bden_coo br bc A i j.
Proof.
  intros Hwf. unfold bden_csc, bden_coo. rewrite !slice_den by assumption.
  rewrite <- csc_to_coo_map, <- coo_to_csc_map.
  rewrite (den_csc_to_coo F zero add), (den_coo_to_csc F zero add) by (apply coo_map_wf; exact Hwf). reflexivity.
Qed.
Theorem bden_csr_to_coo (A : csr (list F)) : bden_coo br bc (csr_to_coo A) i j = bden_csr br bc A i j.
Proof. reflexivity. Qed.
Theorem bden_csc_to_coo (A : csc (list F)) : bden_coo br bc (csc_to_coo A) i j = bden_csc br bc A i j.
Proof. reflexivity. Qed.
Theorem bden_csr_to_csc (A : csr (list F)) : csr_wf A -> bden_csc br bc (csr_to_csc A) i j = bden_csr br bc A i j.
Proof.
  intros Hwf. unfold csr_to_csc. rewrite bden_coo_to_csc by (apply csr_to_coo_wf; exact Hwf). reflexivity.
Qed.
Theorem bden_csc_to_csr (A : csc (list F)) : csc_wf A -> bden_csr br bc (csc_to_csr A) i j = bden_csc br bc A i j.
Proof.
  intros Hwf. unfold csc_to_csr. rewrite bden_coo_to_csr by (apply csc_to_coo_wf; exact Hwf). reflexivity.
Qed.

(* sort and move_diag *)
Theorem bden_csr_sort (A : csr (list F)) : bden_csr br bc (csr_sort A) i j = bden_csr br bc A i j.
Proof.
  unfold bden_csr. rewrite !slice_den by assumption. rewrite <- !csr_to_coo_map, <- csr_sort_map.
  rewrite !(den_csr_to_coo F zero add). apply (den_csr_sort F zero one add mul sub opp Fth).
Qed.
Theorem bden_csc_sort (A : csc (list F)) : bden_csc br bc (csc_sort A) i j = bden_csc br bc A i j.
Proof.
  unfold bden_csc. rewrite !slice_den by assumption. rewrite <- !csc_to_coo_map, <- csc_sort_map.
  rewrite !(den_csc_to_coo F zero add). apply (den_csc_sort F zero one add mul sub opp Fth).
Qed.
Theorem bden_coo_sort (A : coo (list F)) : bden_coo br bc (coo_sort A) i j = bden_coo br bc A i j.
Proof.
  unfold bden_coo. rewrite !slice_den by assumption. rewrite <- coo_sort_map.
  apply (den_coo_sort F zero one add mul sub opp Fth).
Qed.
Theorem bden_csr_move_diag (A : csr (list F)) : bden_csr br bc (csr_move_diag A) i j = bden_csr br bc A i j.
Proof.
  unfold bden_csr. rewrite !slice_den by assumption. rewrite <- !csr_to_coo_map, <- csr_move_diag_map.
  rewrite !(den_csr_to_coo F zero add). apply (den_csr_move_diag F zero one add mul sub opp Fth).
Qed.
Theorem bden_csc_move_diag (A : csc (list F)) : bden_csc br bc (csc_move_diag A) i j = bden_csc br bc A i j.
Proof.
  unfold bden_csc. rewrite !slice_den by assumption. rewrite <- !csc_to_coo_map, <- csc_move_diag_map.
  rewrite !(den_csc_to_coo F zero add). apply (den_csc_move_diag F zero one add mul sub opp Fth).
Qed.
End Pos.

(* ---------- transposes ---------- *)
Lemma nth_flat_map_fixed {X} (f : nat -> list X) m d : (forall k, length (f k) = m) ->
  forall n s k r, k < n -> r < m -> nth (k * m + r) (flat_map f (seq s n)) d = nth r (f (s + k)) d.
Proof.
  intros Hlen. induction n as [|n IH]; intros s k r Hk Hr; [lia|]. simpl.
  destruct k as [|k].
  - simpl. rewrite app_nth1 by (rewrite Hlen; exact Hr). rewrite Nat.add_0_r. reflexivity.
  - rewrite app_nth2 by (rewrite Hlen; simpl; lia). rewrite Hlen.
    replace (S k * m + r - m) with (k * m + r) by (simpl; lia).
    rewrite IH by lia. f_equal. f_equal. lia.
Qed.

Lemma nth_tblock br bc blk r c : r < br -> c < bc ->
  nth (c * br + r) (tblock zero br bc blk) zero = nth (r * bc + c) blk zero.
Proof.
  intros Hr Hc. unfold tblock.
  rewrite (nth_flat_map_fixed (fun c0 => map (fun r0 => nth (r0 * bc + c0) blk zero) (seq 0 br)) br zero)
    by (try (intros; rewrite map_length, seq_length; reflexivity); assumption).
  simpl. rewrite (nth_indep _ zero (nth (0 * bc + c) blk zero)) by (rewrite map_length, seq_length; exact Hr).
  rewrite (map_nth (fun r0 => nth (r0 * bc + c) blk zero) (seq 0 br) 0 r), seq_nth by exact Hr. reflexivity.
Qed.

Lemma slice_bcoo_transpose br bc (A : coo (list F)) r c : r < br -> c < bc ->
  coo_map (slice br c r) (bcoo_transpose zero br bc A) = coo_transpose (coo_map (slice bc r c) A).
Proof.
  intros Hr Hc. unfold coo_map, bcoo_transpose, coo_transpose; simpl. f_equal. rewrite !map_map.
  apply map_ext. intros e. unfold erow, ecol, eval; simpl. unfold slice. rewrite nth_tblock by assumption. reflexivity.
Qed.

Lemma bcoo_transpose_wf br bc (A : coo (list F)) : coo_wf A -> coo_wf (bcoo_transpose zero br bc A).
Proof.
  intros H e He. unfold bcoo_transpose in He; simpl in He. apply in_map_iff in He. destruct He as [e0 [<- He0]].
  destruct (H e0 He0) as [H1 H2]. unfold erow, ecol in *; simpl. split; assumption.
Qed.

Section PosT.
Variables br bc I J r c : nat.
Hypothesis Hr : r < br.
Hypothesis Hc : c < bc.

(* (A^T)(J*bc + c, I*br + r) = A(I*br + r, J*bc + c); the transposed matrix has bc x br blocks *)
Theorem bden_coo_transpose (A : coo (list F)) :
  bden_coo bc br (bcoo_transpose zero br bc A) (J * bc + c) (I * br + r) = bden_coo br bc A (I * br + r) (J * bc + c).
Proof.
  unfold bden_coo. rewrite !slice_den by assumption. rewrite slice_bcoo_transpose by assumption.
  apply (den_coo_transpose F zero add).
Qed.
Theorem bden_csr_transpose (A : csr (list F)) : csr_wf A ->
  bden_csr bc br (bsr_transpose zero br bc A) (J * bc + c) (I * br + r) = bden_csr br bc A (I * br + r) (J * bc + c).
Proof.
  intros Hwf. unfold bsr_transpose.
  rewrite (bden_coo_to_csr bc br J I c r Hc Hr) by (apply bcoo_transpose_wf, csr_to_coo_wf; exact Hwf).
  apply bden_coo_transpose.
Qed.
Theorem bden_csc_transpose (A : csc (list F)) : csc_wf A ->
  bden_csc bc br (bsc_transpose zero br bc A) (J * bc + c) (I * br + r) = bden_csc br bc A (I * br + r) (J * bc + c).
Proof.
  intros Hwf. unfold bsc_transpose.
  rewrite (bden_coo_to_csc bc br J I c r Hc Hr) by (apply bcoo_transpose_wf, csc_to_coo_wf; exact Hwf).
  apply bden_coo_transpose.
Qed.
End PosT.

(* dimensions of the block transposes *)
Theorem dims_block_transposes br bc (A : coo (list F)) (B : csr (list F)) (C : csc (list F)) :
  (coo_nr (bcoo_transpose zero br bc A) = coo_nc A /\ coo_nc (bcoo_transpose zero br bc A) = coo_nr A) /\
  (csr_nr (bsr_transpose zero br bc B) = csr_nc B /\ csr_nc (bsr_transpose zero br bc B) = csr_nr B) /\
  (csc_nr (bsc_transpose zero br bc C) = csc_nc C /\ csc_nc (bsc_transpose zero br bc C) = csc_nr C).
Proof. repeat split; reflexivity. Qed.

End BlockConv.
