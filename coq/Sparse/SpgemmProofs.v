(* C06 (sequential part): the linked-list SpGEMM of matmult.cpp computes, entry by entry,
   drop (sum_k A(i,k) * B(k,j)); stored positions are duplicate free and never small. *)
From Raptor Require Import Base.Sums Sparse.Defs Sparse.ConvertProofs Sparse.Spgemm.

(* ---------- generic list facts ---------- *)
Lemma lset_length {X} (l : list X) i v : length (lset l i v) = length l.
Proof. revert i; induction l as [|x l IH]; intros [|i]; simpl; try reflexivity. rewrite IH; reflexivity. Qed.

Lemma nth_lset_eq {X} (l : list X) i v d : i < length l -> nth i (lset l i v) d = v.
Proof. revert i; induction l as [|x l IH]; intros [|i] H; simpl in *; try lia; [reflexivity|]. apply IH; lia. Qed.

Lemma nth_lset_neq {X} (l : list X) i j v d : i <> j -> nth j (lset l i v) d = nth j l d.
Proof.
  revert i j; induction l as [|x l IH]; intros [|i] [|j] H; simpl; try reflexivity; try lia.
  apply IH; lia.
Qed.

Lemma all_nth_repeat {X} (l : list X) d n :
  length l = n -> (forall i, i < n -> nth i l d = d) -> l = repeat d n.
Proof.
  revert n; induction l as [|x l IH]; intros [|n] Hl H; simpl in *; try discriminate; [reflexivity|].
  f_equal; [apply (H 0); lia|]. apply IH; [lia|]. intros i Hi. apply (H (S i)); lia.
Qed.

Lemma nth_repeat' {X} (d : X) n i : nth i (repeat d n) d = d.
Proof. revert i; induction n; intros [|i]; simpl; auto. Qed.

Lemma fold_left_map {X Y Z} (f : Z -> Y -> Z) (g : X -> Y) l a :
  fold_left f (map g l) a = fold_left (fun a x => f a (g x)) l a.
Proof. revert a; induction l; simpl; intros; [reflexivity|apply IHl]. Qed.

Lemma flat_map_ext_in' {X Y} (f g : X -> list Y) l :
  (forall a, In a l -> f a = g a) -> flat_map f l = flat_map g l.
Proof.
  induction l as [|a l IH]; intros H; simpl; [reflexivity|].
  rewrite (H a) by (left; reflexivity). rewrite IH; [reflexivity|]. intros; apply H; right; assumption.
Qed.

Lemma NoDup_app_intro {X} (l1 l2 : list X) :
  NoDup l1 -> NoDup l2 -> (forall x, In x l1 -> ~ In x l2) -> NoDup (l1 ++ l2).
Proof.
  induction l1 as [|a l1 IH]; simpl; intros H1 H2 Hd; [exact H2|].
  inversion H1 as [|? ? Hn Hnd]; subst. constructor.
  - rewrite in_app_iff. intros [A|A]; [contradiction|]. apply (Hd a); [left; reflexivity|exact A].
  - apply IH; [exact Hnd|exact H2|]. intros x Hx. apply Hd. right; exact Hx.
Qed.

Lemma existsb_eqb_In c l : existsb (Nat.eqb c) l = true <-> In c l.
Proof.
  rewrite existsb_exists. split.
  - intros [x [Hx E]]. apply Nat.eqb_eq in E. subst. exact Hx.
  - intros H. exists c. split; [exact H|apply Nat.eqb_refl].
Qed.

Lemma existsb_eqb_nIn c l : existsb (Nat.eqb c) l = false <-> ~ In c l.
Proof.
  rewrite <- existsb_eqb_In. destruct (existsb (Nat.eqb c) l); intuition congruence.
Qed.

(* ---------- the specification-level description of one output row ---------- *)
Section SpgemmSpec.
Variable F : Type.
Variables (zero : F) (add mul : F -> F -> F).
Variable smallm : F -> bool.

(* the products formed for one row of A, in the order the loops form them *)
Definition contribs (Brows : list (list (nat * F))) (arow : list (nat * F)) : list (nat * F) :=
  flat_map (fun pa => map (fun pb => (fst pb, mul (snd pa) (snd pb))) (nth (fst pa) Brows [])) arow.

Definition push_new (stk : list nat) (c : nat) : list nat :=
  if existsb (Nat.eqb c) stk then stk else c :: stk.
(* columns in the order they leave the linked list: last first-touched first *)
Definition touch_order_from (stk : list nat) (qs : list (nat * F)) : list nat :=
  fold_left (fun stk q => push_new stk (fst q)) qs stk.
Definition touch_order := touch_order_from [].

Definition dropm (x : F) : F := if smallm x then zero else x.
Definition emit_spec (renum : nat -> nat) (S : nat -> F) (stk : list nat) : list (nat * F) :=
  flat_map (fun c => if smallm (S c) then [] else [(renum c, S c)]) stk.
Definition row_spec (renum : nat -> nat) (Brows : list (list (nat * F))) (arow : list (nat * F)) :=
  let qs := contribs Brows arow in emit_spec renum (den_line F zero add qs) (touch_order qs).
End SpgemmSpec.

Section SpgemmProofs.
Variable F : Type.
Variables (zero one : F) (add mul sub : F -> F -> F) (opp : F -> F).
Variable Fth : ring_theory zero one add mul sub opp (@eq F).
Add Ring Fring3 : Fth.
Variable smallm : F -> bool.

Notation sumF := (sumf F zero add).
Notation denL := (den_line F zero add).
Notation denCoo := (den_coo F zero add).
Notation denCsr := (den_csr F zero add).
Notation denCsc := (den_csc F zero add).
Notation accT := (acc_touch F zero add).
Notation accRow := (acc_row F zero add mul).
Notation accEmit := (acc_emit F zero smallm).
Notation dropM := (dropm F zero smallm).
Notation "0" := zero.
Infix "+" := add.
Infix "*" := mul.

(* ---------- the linked list ---------- *)
Fixpoint chain (head : option nat) (next : list nxt) (stk : list nat) : Prop :=
  match stk with
  | [] => head = None
  | c :: rest => head = Some c /\ exists x, nth c next nxt_free = Some x /\ chain x next rest
  end.

Lemma chain_in head next stk c :
  chain head next stk -> In c stk -> exists x, nth c next nxt_free = Some x.
Proof.
  revert head; induction stk as [|a stk IH]; intros head H Hin; [contradiction|].
  destruct H as [_ [x [Hx Hc]]]. destruct Hin as [-> |Hin]; [exists x; exact Hx|].
  eapply IH; eassumption.
Qed.

Lemma chain_lset head next stk c v :
  ~ In c stk -> chain head next stk -> chain head (lset next c v) stk.
Proof.
  revert head; induction stk as [|a stk IH]; intros head Hn H; simpl in *; [exact H|].
  destruct H as [Hh [x [Hx Hc]]]. split; [exact Hh|]. exists x. split.
  - rewrite nth_lset_neq by (intros E; apply Hn; left; congruence). exact Hx.
  - apply IH; [intros Hi; apply Hn; right; exact Hi|exact Hc].
Qed.

Record acc_inv (nc : nat) (st : accst F) (done : list (nat * F)) (stk : list nat) : Prop := {
  inv_ln : length (a_next st) = nc;
  inv_ls : length (a_sums st) = nc;
  inv_len : a_len st = length stk;
  inv_nodup : NoDup stk;
  inv_rng : forall c, In c stk -> c < nc;
  inv_chain : chain (a_head st) (a_next st) stk;
  inv_free : forall c, ~ In c stk -> nth c (a_next st) nxt_free = None;
  inv_sums : forall c, c < nc -> nth c (a_sums st) 0 = denL done c;
  inv_mem : forall c, In c stk <-> In c (map fst done)
}.

Lemma acc_inv_init nc :
  acc_inv nc (mkAcc (repeat nxt_free nc) (repeat 0 nc) nxt_end 0) [] [].
Proof.
  constructor; simpl.
  - rewrite repeat_length; reflexivity.
  - rewrite repeat_length; reflexivity.
  - reflexivity.
  - constructor.
  - intros c [].
  - reflexivity.
  - intros c _. apply nth_repeat'.
  - intros c _. rewrite nth_repeat'. reflexivity.
  - intros c; tauto.
Qed.

Lemma den_line_single c p c' : denL [(c, p)] c' = if c =? c' then p else 0.
Proof. unfold den_line; simpl. destruct (c =? c'); simpl; [ring|reflexivity]. Qed.

Lemma touch_step nc st done stk c p :
  c < nc -> acc_inv nc st done stk ->
  acc_inv nc (accT st c p) (done ++ [(c, p)]) (push_new stk c).
Proof.
  intros Hc [Hln Hls Hlen Hnd Hrng Hch Hfree Hsums Hmem].
  assert (SUMS : forall c', c' < nc ->
     nth c' (lset (a_sums st) c (nth c (a_sums st) 0 + p)) 0 = denL (done ++ [(c, p)]) c').
  { intros c' Hc'. rewrite (den_line_app F zero one add mul sub opp Fth), den_line_single.
    destruct (Nat.eq_dec c c') as [<- |Hne].
    - rewrite nth_lset_eq by lia. rewrite Nat.eqb_refl. rewrite Hsums by exact Hc. reflexivity.
    - rewrite nth_lset_neq by exact Hne. replace (c =? c') with false by (symmetry; apply Nat.eqb_neq; exact Hne).
      rewrite Hsums by exact Hc'. ring. }
  assert (MEM : forall s', (forall x, In x s' <-> In x stk \/ x = c) ->
     forall x, In x s' <-> In x (map fst (done ++ [(c, p)]))).
  { intros s' Hs x. rewrite Hs, map_app, in_app_iff, <- Hmem. simpl. intuition. }
  unfold acc_touch, push_new.
  destruct (nth c (a_next st) nxt_free) as [x|] eqn:En.
  - (* already in the list *)
    assert (Hin : In c stk).
    { destruct (in_dec Nat.eq_dec c stk) as [H|H]; [exact H|]. rewrite Hfree in En by exact H. discriminate. }
    replace (existsb (Nat.eqb c) stk) with true by (symmetry; apply existsb_eqb_In; exact Hin).
    constructor; simpl; try assumption.
    + rewrite lset_length; exact Hls.
    + apply MEM. intros y. split; [tauto|]. intros [H| ->]; assumption.
  - assert (Hnin : ~ In c stk).
    { intros H. destruct (chain_in _ _ _ _ Hch H) as [y Hy]. congruence. }
    replace (existsb (Nat.eqb c) stk) with false by (symmetry; apply existsb_eqb_nIn; exact Hnin).
    constructor; simpl.
    + rewrite lset_length; exact Hln.
    + rewrite lset_length; exact Hls.
    + rewrite Hlen; reflexivity.
    + constructor; assumption.
    + intros y [<- |Hy]; [exact Hc|apply Hrng; exact Hy].
    + split; [reflexivity|]. exists (a_head st). split.
      * apply nth_lset_eq. lia.
      * apply chain_lset; assumption.
    + intros y Hy. rewrite nth_lset_neq by (intros E; apply Hy; left; exact E).
      apply Hfree. intros H; apply Hy; right; exact H.
    + exact SUMS.
    + change (forall x, In x (c :: stk) <-> In x (map fst (done ++ [(c, p)]))).
      apply MEM. intros y. simpl. intuition.
Qed.

Definition acc_list (qs : list (nat * F)) (st : accst F) : accst F :=
  fold_left (fun st q => accT st (fst q) (snd q)) qs st.

Lemma acc_list_inv nc qs : forall st done stk,
  (forall q, In q qs -> fst q < nc) -> acc_inv nc st done stk ->
  acc_inv nc (acc_list qs st) (done ++ qs) (touch_order_from F stk qs).
Proof.
  induction qs as [|[c p] qs IH]; intros st done stk Hq Hinv; simpl.
  - rewrite app_nil_r. exact Hinv.
  - replace (done ++ (c, p) :: qs) with ((done ++ [(c, p)]) ++ qs) by (rewrite <- app_assoc; reflexivity).
    apply IH; [intros q Hin; apply Hq; right; exact Hin|].
    apply touch_step; [apply (Hq (c, p)); left; reflexivity|exact Hinv].
Qed.

Lemma acc_row_contribs Brows arow st :
  accRow Brows arow st = acc_list (contribs F mul Brows arow) st.
Proof.
  unfold acc_row, acc_list, contribs. revert st.
  induction arow as [|pa arow IH]; intros st; simpl; [reflexivity|].
  rewrite fold_left_app, fold_left_map. simpl. apply IH.
Qed.

(* ---------- emission ---------- *)
Definition reset_all {X} (d : X) (stk : list nat) (l : list X) : list X :=
  fold_left (fun l c => lset l c d) stk l.

Lemma reset_all_length {X} (d : X) stk l : length (reset_all d stk l) = length l.
Proof. revert l; induction stk; simpl; intros; [reflexivity|]. unfold reset_all in *; simpl. rewrite IHstk, lset_length. reflexivity. Qed.

Lemma reset_all_nth {X} (d : X) stk : forall l c,
  (forall x, In x stk -> x < length l) ->
  nth c (reset_all d stk l) d = if existsb (Nat.eqb c) stk then d else nth c l d.
Proof.
  induction stk as [|a stk IH]; intros l c Hr; [reflexivity|].
  unfold reset_all in *; simpl. rewrite IH by (intros x Hx; rewrite lset_length; apply Hr; right; exact Hx).
  destruct (Nat.eq_dec c a) as [-> |Hne].
  - rewrite Nat.eqb_refl. simpl. rewrite nth_lset_eq by (apply Hr; left; reflexivity).
    destruct (existsb (Nat.eqb a) stk); reflexivity.
  - replace (c =? a) with false by (symmetry; apply Nat.eqb_neq; exact Hne). simpl.
    rewrite nth_lset_neq by (intros E; apply Hne; symmetry; exact E). reflexivity.
Qed.

Lemma emit_walk renum stk : forall head next sums,
  chain head next stk -> NoDup stk ->
  accEmit renum (length stk) head next sums =
  (emit_spec F smallm renum (fun c => nth c sums 0) stk, (reset_all nxt_free stk next, reset_all 0 stk sums)).
Proof.
  induction stk as [|c stk IH]; intros head next sums Hch Hnd; [reflexivity|].
  destruct Hch as [-> [x [Hx Hch]]]. inversion Hnd as [|? ? Hnin Hnd']; subst.
  cbn [length acc_emit]. rewrite Hx.
  rewrite IH by (try apply chain_lset; assumption).
  unfold emit_spec, reset_all; cbn [flat_map fold_left fst snd]. f_equal. f_equal.
  apply flat_map_ext_in'. intros a Ha.
  rewrite nth_lset_neq by (intros E; apply Hnin; rewrite E; exact Ha). reflexivity.
Qed.

(* one row, from a clean accumulator back to a clean accumulator *)
Lemma row_from_clean renum nc Brows arow :
  (forall q, In q (contribs F mul Brows arow) -> fst q < nc) ->
  let st := accRow Brows arow (mkAcc (repeat nxt_free nc) (repeat 0 nc) nxt_end 0) in
  accEmit renum (a_len st) (a_head st) (a_next st) (a_sums st) =
  (row_spec F zero add mul smallm renum Brows arow, (repeat nxt_free nc, repeat 0 nc)).
Proof.
  intros Hq st. subst st. rewrite acc_row_contribs.
  set (qs := contribs F mul Brows arow) in *.
  pose proof (acc_list_inv nc qs _ [] [] Hq (acc_inv_init nc)) as Hinv.
  simpl in Hinv. fold (touch_order F qs) in Hinv.
  set (st := acc_list qs _) in *. set (stk := touch_order F qs) in *.
  destruct Hinv as [Hln Hls Hlen Hnd Hrng Hch Hfree Hsums Hmem].
  rewrite Hlen, emit_walk by assumption.
  unfold row_spec. fold qs. fold stk. f_equal; [|f_equal].
  - unfold emit_spec. apply flat_map_ext_in'. intros c Hc. rewrite Hsums by (apply Hrng; exact Hc). reflexivity.
  - apply all_nth_repeat; [rewrite reset_all_length; exact Hln|].
    intros i Hi. rewrite reset_all_nth by (intros x Hx; rewrite Hln; apply Hrng; exact Hx).
    destruct (existsb (Nat.eqb i) stk) eqn:E; [reflexivity|].
    apply Hfree. apply existsb_eqb_nIn. exact E.
  - apply all_nth_repeat; [rewrite reset_all_length; exact Hls|].
    intros i Hi. rewrite reset_all_nth by (intros x Hx; rewrite Hls; apply Hrng; exact Hx).
    destruct (existsb (Nat.eqb i) stk) eqn:E; [reflexivity|].
    rewrite Hsums by exact Hi. apply existsb_eqb_nIn in E. rewrite Hmem in E.
    unfold den_line. rewrite filter_none; [reflexivity|].
    intros p Hp. apply Nat.eqb_neq. intros Ep. apply E. apply in_map_iff. exists p. split; assumption.
Qed.

Definition brows_ok (nc : nat) (Brows : list (list (nat * F))) : Prop :=
  forall r, In r Brows -> forall p, In p r -> fst p < nc.

Lemma contribs_range nc Brows arow :
  brows_ok nc Brows -> forall q, In q (contribs F mul Brows arow) -> fst q < nc.
Proof.
  intros Hb q Hq. unfold contribs in Hq. apply in_flat_map in Hq. destruct Hq as [pa [_ Hq]].
  apply in_map_iff in Hq. destruct Hq as [pb [<- Hpb]]. simpl.
  destruct (nth_in_or_default (fst pa) Brows []) as [H|H].
  - apply (Hb _ H). exact Hpb.
  - rewrite H in Hpb. contradiction.
Qed.

(* the whole product: the array model is, row by row and in storage order, the specification *)
Theorem spgemm_rows_spec renum nc Brows Arows :
  brows_ok nc Brows ->
  spgemm_rows F zero add mul smallm renum Brows Arows (repeat nxt_free nc) (repeat 0 nc)
  = map (row_spec F zero add mul smallm renum Brows) Arows.
Proof.
  intros Hb. induction Arows as [|ar Arows IH]; [reflexivity|].
  cbn [spgemm_rows map].
  pose proof (row_from_clean renum nc Brows ar (contribs_range nc Brows ar Hb)) as H.
  cbv zeta in H. rewrite H. cbn [fst snd]. rewrite IH. reflexivity.
Qed.

(* ---------- the touch order ---------- *)
Lemma touch_order_from_props qs : forall stk,
  NoDup stk -> NoDup (touch_order_from F stk qs) /\
  forall c, In c (touch_order_from F stk qs) <-> In c stk \/ In c (map fst qs).
Proof.
  induction qs as [|q qs IH]; intros stk Hnd; simpl; [split; [exact Hnd|tauto]|].
  unfold push_new. destruct (existsb (Nat.eqb (fst q)) stk) eqn:E.
  - destruct (IH stk Hnd) as [H1 H2]. split; [exact H1|]. intros c. rewrite H2.
    apply existsb_eqb_In in E. intuition (subst; auto).
  - apply existsb_eqb_nIn in E.
    destruct (IH (fst q :: stk)) as [H1 H2]; [constructor; assumption|].
    split; [exact H1|]. intros c. rewrite H2. simpl. intuition.
Qed.

Lemma touch_order_nodup qs : NoDup (touch_order F qs).
Proof. apply touch_order_from_props. constructor. Qed.
Lemma touch_order_in qs c : In c (touch_order F qs) <-> In c (map fst qs).
Proof. unfold touch_order. destruct (touch_order_from_props qs [] (NoDup_nil _)) as [_ H]. rewrite H. simpl. tauto. Qed.

(* ---------- the operator of an emitted row ---------- *)
Lemma den_emit_spec renum S stk j :
  denL (emit_spec F smallm renum S stk) j =
  sumF (map (fun c => if renum c =? j then dropM (S c) else 0) stk).
Proof.
  induction stk as [|c stk IH]; [reflexivity|].
  unfold emit_spec in *. cbn [flat_map map sumf fold_right].
  rewrite (den_line_app F zero one add mul sub opp Fth), IH. f_equal.
  unfold dropm. destruct (smallm (S c)).
  - destruct (renum c =? j); reflexivity.
  - rewrite den_line_single. reflexivity.
Qed.

Lemma sumf_indicator (g : nat -> F) l j :
  NoDup l -> sumF (map (fun c => if c =? j then g c else 0) l) = if existsb (Nat.eqb j) l then g j else 0.
Proof.
  induction 1 as [|a l Hn Hnd IH]; [reflexivity|].
  cbn [map sumf fold_right existsb]. fold (sumF (map (fun c => if c =? j then g c else 0) l)). rewrite IH.
  destruct (Nat.eq_dec a j) as [-> |Hne].
  - rewrite Nat.eqb_refl. simpl. replace (existsb (Nat.eqb j) l) with false by (symmetry; apply existsb_eqb_nIn; exact Hn). ring.
  - replace (a =? j) with false by (symmetry; apply Nat.eqb_neq; exact Hne).
    replace (j =? a) with false by (symmetry; apply Nat.eqb_neq; intros E; apply Hne; symmetry; exact E).
    simpl. ring.
Qed.

Lemma den_line_not_in qs j : ~ In j (map fst qs) -> denL qs j = 0.
Proof.
  intros H. unfold den_line. rewrite filter_none; [reflexivity|].
  intros p Hp. apply Nat.eqb_neq. intros E. apply H. apply in_map_iff. exists p. split; assumption.
Qed.

Lemma dropm_zero : dropM 0 = 0.
Proof. unfold dropm. destruct (smallm 0); reflexivity. Qed.

(* without renumbering: the row represents the dropped sums *)
Lemma den_row_spec_id Brows arow j :
  denL (row_spec F zero add mul smallm (fun c => c) Brows arow) j = dropM (denL (contribs F mul Brows arow) j).
Proof.
  unfold row_spec. cbv zeta. rewrite den_emit_spec, sumf_indicator by apply touch_order_nodup.
  destruct (existsb (Nat.eqb j) (touch_order F (contribs F mul Brows arow))) eqn:E; [reflexivity|].
  apply existsb_eqb_nIn in E. rewrite touch_order_in in E.
  rewrite den_line_not_in by exact E. symmetry. apply dropm_zero.
Qed.

(* a sum over a duplicate-free list of indices below n, of a function vanishing off the list *)
Lemma sumf_nodup_seq (g : nat -> F) l n :
  NoDup l -> (forall c, In c l -> c < n) -> (forall c, c < n -> ~ In c l -> g c = 0) ->
  sumF (map g l) = sumF (map g (seq 0 n)).
Proof.
  intros Hnd Hr Hz.
  set (rest := filter (fun c => negb (existsb (Nat.eqb c) l)) (seq 0 n)).
  assert (P : Permutation (l ++ rest) (seq 0 n)).
  { apply NoDup_Permutation.
    - apply NoDup_app_intro; [exact Hnd|apply NoDup_filter, seq_NoDup|].
      intros x Hx Hx'. unfold rest in Hx'. apply filter_In in Hx'. destruct Hx' as [_ Hx'].
      apply negb_true_iff, existsb_eqb_nIn in Hx'. contradiction.
    - apply seq_NoDup.
    - intros x. rewrite in_app_iff. unfold rest. rewrite filter_In, in_seq, negb_true_iff, existsb_eqb_nIn.
      split.
      + intros [H|[H _]]; [split; [lia|apply Hr; exact H]|exact H].
      + intros H. destruct (in_dec Nat.eq_dec x l) as [Hi|Hi]; [left; exact Hi|right; split; assumption]. }
  rewrite <- (sumf_perm F zero one add mul sub opp Fth _ _ (Permutation_map g P)).
  rewrite map_app, (sumf_app F zero one add mul sub opp Fth).
  replace (sumF (map g rest)) with 0; [ring|].
  symmetry. rewrite (sumf_map_ext F zero add g (fun _ => 0)).
  - apply (sumf_map_zero F zero one add mul sub opp Fth).
  - intros c Hc. unfold rest in Hc. apply filter_In in Hc. destruct Hc as [Hs Hc].
    apply in_seq in Hs. apply negb_true_iff, existsb_eqb_nIn in Hc. apply Hz; [lia|exact Hc].
Qed.


(* with a renumbering of the output columns: all source columns mapped to j are added *)
Lemma den_row_spec_renum renum nc Brows arow j :
  brows_ok nc Brows ->
  denL (row_spec F zero add mul smallm renum Brows arow) j =
  sumF (map (fun c => if renum c =? j then dropM (denL (contribs F mul Brows arow) c) else 0) (seq 0 nc)).
Proof.
  intros Hb. unfold row_spec. cbv zeta. rewrite den_emit_spec.
  apply sumf_nodup_seq.
  - apply touch_order_nodup.
  - intros c Hc. apply touch_order_in, in_map_iff in Hc. destruct Hc as [q [<- Hq]].
    eapply contribs_range; eassumption.
  - intros c _ Hc. rewrite touch_order_in in Hc. rewrite den_line_not_in by exact Hc.
    rewrite dropm_zero. destruct (renum c =? j); reflexivity.
Qed.

(* ---------- the products of one row are the row-times-matrix sums ---------- *)
Lemma den_line_flat_map {X} (f : X -> list (nat * F)) l c :
  denL (flat_map f l) c = sumF (map (fun x => denL (f x) c) l).
Proof.
  induction l as [|x l IH]; [reflexivity|]. cbn [flat_map map sumf fold_right].
  rewrite (den_line_app F zero one add mul sub opp Fth), IH. reflexivity.
Qed.

Lemma den_line_scale a r c :
  denL (map (fun pb : nat * F => (fst pb, a * snd pb)) r) c = a * denL r c.
Proof.
  unfold den_line. rewrite filter_map_comm, map_map. cbn [fst snd].
  apply (sumf_map_mul_l F zero one add mul sub opp Fth).
Qed.

Lemma den_line_cons p r k : denL (p :: r) k = (if fst p =? k then snd p else 0) + denL r k.
Proof. unfold den_line. cbn [filter]. destruct (fst p =? k); simpl; [reflexivity|ring]. Qed.

Lemma sumf_cons x l : sumF (x :: l) = x + sumF l.
Proof. reflexivity. Qed.
Lemma sumf_nil : sumF [] = 0.
Proof. reflexivity. Qed.

Lemma group_by_col (f : nat -> F) r n :
  (forall p, In p r -> fst p < n) ->
  sumF (map (fun p => snd p * f (fst p)) r) = sumF (map (fun k => denL r k * f k) (seq 0 n)).
Proof.
  induction r as [|p r IH]; intros Hr.
  - cbn [map]. rewrite sumf_nil. symmetry.
    rewrite (sumf_map_ext F zero add _ (fun _ => 0)) by (intros; unfold den_line; simpl; ring).
    apply (sumf_map_zero F zero one add mul sub opp Fth).
  - rewrite map_cons, sumf_cons. rewrite IH by (intros q Hq; apply Hr; right; exact Hq).
    rewrite (sumf_map_ext F zero add (fun k => denL (p :: r) k * f k)
              (fun k => (if fst p =? k then snd p else 0) * f k + denL r k * f k))
      by (intros k _; rewrite den_line_cons; ring).
    rewrite (sumf_map_add F zero one add mul sub opp Fth). f_equal.
    rewrite (sumf_single F zero one add mul sub opp Fth n (fst p)).
    + rewrite Nat.eqb_refl. reflexivity.
    + apply Hr. left; reflexivity.
    + intros i _ Hne. replace (fst p =? i) with false by (symmetry; apply Nat.eqb_neq; congruence). ring.
Qed.

Lemma den_contribs Brows arow n c :
  (forall p, In p arow -> fst p < n) ->
  denL (contribs F mul Brows arow) c =
  sumF (map (fun k => denL arow k * denL (nth k Brows []) c) (seq 0 n)).
Proof.
  intros Hr. unfold contribs. rewrite den_line_flat_map.
  rewrite (sumf_map_ext F zero add _ (fun pa => snd pa * denL (nth (fst pa) Brows []) c))
    by (intros pa _; apply den_line_scale).
  apply (group_by_col (fun k => denL (nth k Brows []) c)). exact Hr.
Qed.

(* ---------- CSR level ---------- *)
Definition prod_entry (A B : csr F) (i j : nat) : F :=
  sumF (map (fun k => denCsr A i k * denCsr B k j) (seq 0 (csr_nc A))).

Lemma csr_wf_brows_ok (B : csr F) : csr_wf B -> brows_ok (csr_nc B) (csr_rows B).
Proof. intros [_ H]. exact H. Qed.

Lemma csr_wf_row_range (A : csr F) i : csr_wf A -> forall p, In p (nth i (csr_rows A) []) -> fst p < csr_nc A.
Proof.
  intros [_ H] p Hp. destruct (nth_in_or_default i (csr_rows A) []) as [Hin|E].
  - apply (H _ Hin). exact Hp.
  - rewrite E in Hp. contradiction.
Qed.

Lemma row_spec_nil renum Brows : row_spec F zero add mul smallm renum Brows [] = [].
Proof. reflexivity. Qed.

Lemma spgemm_helper_row (A B : csr F) m i :
  csr_wf B ->
  nth i (csr_rows (spgemm_helper F zero add mul smallm A B m)) [] =
  row_spec F zero add mul smallm (renum_of m) (csr_rows B) (nth i (csr_rows A) []).
Proof.
  intros HB. unfold spgemm_helper; cbn [csr_rows].
  rewrite (spgemm_rows_spec _ (csr_nc B)) by (apply csr_wf_brows_ok; exact HB).
  rewrite <- (row_spec_nil (renum_of m) (csr_rows B)) at 1. apply map_nth.
Qed.

Theorem den_spgemm_helper (A B : csr F) i j :
  csr_wf A -> csr_wf B ->
  denCsr (spgemm_helper F zero add mul smallm A B None) i j = dropM (prod_entry A B i j).
Proof.
  intros HA HB. unfold den_csr at 1. rewrite spgemm_helper_row by exact HB.
  cbn [renum_of]. rewrite den_row_spec_id.
  rewrite (den_contribs _ _ (csr_nc A)) by (apply csr_wf_row_range; exact HA).
  reflexivity.
Qed.

Theorem den_spgemm_helper_renum (A B : csr F) (m : list nat) i j :
  csr_wf A -> csr_wf B ->
  denCsr (spgemm_helper F zero add mul smallm A B (Some m)) i j =
  sumF (map (fun c => if nth c m 0%nat =? j then dropM (prod_entry A B i c) else 0) (seq 0 (csr_nc B))).
Proof.
  intros HA HB. unfold den_csr at 1. rewrite spgemm_helper_row by exact HB.
  rewrite (den_row_spec_renum _ (csr_nc B)) by (apply csr_wf_brows_ok; exact HB).
  apply (sumf_map_ext F zero add). intros c _. cbn [renum_of].
  rewrite (den_contribs _ _ (csr_nc A)) by (apply csr_wf_row_range; exact HA).
  reflexivity.
Qed.

(* stored entries of a row: exactly the touched columns whose sum is not small, once each *)
Lemma emit_spec_in renum S stk q :
  In q (emit_spec F smallm renum S stk) <-> exists c, In c stk /\ q = (renum c, S c) /\ smallm (S c) = false.
Proof.
  unfold emit_spec. rewrite in_flat_map. split.
  - intros [c [Hc Hq]]. exists c. destruct (smallm (S c)) eqn:E; [contradiction|].
    destruct Hq as [<-|[]]. auto.
  - intros [c [Hc [-> E]]]. exists c. rewrite E. split; [exact Hc|left; reflexivity].
Qed.

Lemma emit_spec_nodup S stk : NoDup stk -> NoDup (map fst (emit_spec F smallm (fun c => c) S stk)).
Proof.
  induction 1 as [|c stk Hn Hnd IH]; [constructor|].
  unfold emit_spec in *. cbn [flat_map]. rewrite map_app. apply NoDup_app_intro.
  - destruct (smallm (S c)); simpl; repeat constructor. intros [].
  - exact IH.
  - intros x Hx Hx'. destruct (smallm (S c)); [contradiction|]. destruct Hx as [<-|[]].
    apply in_map_iff in Hx'. destruct Hx' as [q [E Hq]].
    apply (emit_spec_in (fun c => c) S stk q) in Hq. destruct Hq as [c' [Hc' [-> _]]]. simpl in E. subst. contradiction.
Qed.

Theorem spgemm_helper_stored (A B : csr F) i j v :
  csr_wf A -> csr_wf B ->
  (In (j, v) (nth i (csr_rows (spgemm_helper F zero add mul smallm A B None)) []) <->
   In j (map fst (contribs F mul (csr_rows B) (nth i (csr_rows A) []))) /\
   v = prod_entry A B i j /\ smallm v = false).
Proof.
  intros HA HB. rewrite spgemm_helper_row by exact HB. cbn [renum_of]. unfold row_spec. cbv zeta.
  rewrite emit_spec_in. split.
  - intros [c [Hc [E Hs]]]. inversion E; subst. rewrite touch_order_in in Hc. split; [exact Hc|].
    rewrite (den_contribs _ _ (csr_nc A)) in * by (apply csr_wf_row_range; exact HA). split; [reflexivity|exact Hs].
  - intros [Hj [-> Hs]]. exists j. rewrite touch_order_in. split; [exact Hj|].
    rewrite (den_contribs _ _ (csr_nc A)) by (apply csr_wf_row_range; exact HA). split; [reflexivity|exact Hs].
Qed.

Theorem spgemm_helper_row_nodup (A B : csr F) i :
  csr_wf B -> NoDup (map fst (nth i (csr_rows (spgemm_helper F zero add mul smallm A B None)) [])).
Proof.
  intros HB. rewrite spgemm_helper_row by exact HB. cbn [renum_of]. unfold row_spec. cbv zeta.
  apply emit_spec_nodup, touch_order_nodup.
Qed.

Theorem spgemm_helper_wf (A B : csr F) :
  csr_wf A -> csr_wf B -> csr_wf (spgemm_helper F zero add mul smallm A B None).
Proof.
  intros HA HB. split.
  - unfold spgemm_helper; cbn [csr_rows csr_nr].
    rewrite (spgemm_rows_spec _ (csr_nc B)) by (apply csr_wf_brows_ok; exact HB).
    rewrite map_length. apply HA.
  - intros r Hr p Hp. cbn [spgemm_helper csr_nc].
    destruct (In_nth _ _ [] Hr) as [i [_ Hi]]. rewrite <- Hi in Hp.
    rewrite spgemm_helper_row in Hp by exact HB. unfold row_spec in Hp. cbv zeta in Hp.
    apply emit_spec_in in Hp. destruct Hp as [c [Hc [-> _]]]. cbn [renum_of fst].
    apply touch_order_in, in_map_iff in Hc. destruct Hc as [q [<- Hq]].
    eapply contribs_range; [apply csr_wf_brows_ok; exact HB|exact Hq].
Qed.

(* ---------- A^T B ---------- *)
Lemma spgemm_T_as_spgemm (A : csc F) (B : csr F) m :
  spgemm_T_helper F zero add mul smallm A B m = spgemm_helper F zero add mul smallm (csc_as_csr F A) B m.
Proof. reflexivity. Qed.

Definition prod_T_entry (A : csc F) (B : csr F) (i j : nat) : F :=
  sumF (map (fun k => denCsc A k i * denCsr B k j) (seq 0 (csc_nr A))).

Lemma csc_as_csr_wf (A : csc F) : csc_wf A -> csr_wf (csc_as_csr F A).
Proof. intros H. exact H. Qed.

Theorem den_spgemm_T_helper (A : csc F) (B : csr F) i j :
  csc_wf A -> csr_wf B ->
  denCsr (spgemm_T_helper F zero add mul smallm A B None) i j = dropM (prod_T_entry A B i j).
Proof.
  intros HA HB. rewrite spgemm_T_as_spgemm, den_spgemm_helper by (try apply csc_as_csr_wf; assumption).
  reflexivity.
Qed.

Theorem spgemm_T_helper_wf (A : csc F) (B : csr F) :
  csc_wf A -> csr_wf B -> csr_wf (spgemm_T_helper F zero add mul smallm A B None).
Proof. intros HA HB. rewrite spgemm_T_as_spgemm. apply spgemm_helper_wf; [apply csc_as_csr_wf; exact HA|exact HB]. Qed.

(* ---------- entry points on the three formats ---------- *)
Definition den_smat (m : smat F) (i j : nat) : F :=
  match m with MCoo a => denCoo a i j | MCsr a => denCsr a i j | MCsc a => denCsc a i j end.
Definition smat_wf (m : smat F) : Prop :=
  match m with MCoo a => coo_wf a | MCsr a => csr_wf a | MCsc a => csc_wf a end.
Definition smat_nr (m : smat F) : nat :=
  match m with MCoo a => coo_nr a | MCsr a => csr_nr a | MCsc a => csc_nr a end.
Definition smat_nc (m : smat F) : nat :=
  match m with MCoo a => coo_nc a | MCsr a => csr_nc a | MCsc a => csc_nc a end.

Lemma den_smat_to_csr m i j : smat_wf m -> denCsr (smat_to_csr m) i j = den_smat m i j.
Proof.
  destruct m as [a|a|a]; simpl; intros H; [|reflexivity|].
  - apply den_coo_to_csr; exact H.
  - apply den_csc_to_csr; exact H.
Qed.
Lemma den_smat_to_csc m i j : smat_wf m -> denCsc (smat_to_csc m) i j = den_smat m i j.
Proof.
  destruct m as [a|a|a]; simpl; intros H; [| |reflexivity].
  - apply den_coo_to_csc; exact H.
  - apply den_csr_to_csc; exact H.
Qed.
Lemma smat_to_csr_wf m : smat_wf m -> csr_wf (smat_to_csr m).
Proof. destruct m; simpl; intros H; [apply coo_to_csr_wf|idtac|apply csc_to_csr_wf]; exact H. Qed.
Lemma smat_to_csc_wf m : smat_wf m -> csc_wf (smat_to_csc m).
Proof. destruct m; simpl; intros H; [apply coo_to_csc_wf|apply csr_to_csc_wf|idtac]; exact H. Qed.
Lemma smat_to_csr_dims m : csr_nr (smat_to_csr m) = smat_nr m /\ csr_nc (smat_to_csr m) = smat_nc m.
Proof. destruct m; split; reflexivity. Qed.
Lemma smat_to_csc_dims m : csc_nr (smat_to_csc m) = smat_nr m /\ csc_nc (smat_to_csc m) = smat_nc m.
Proof. destruct m; split; reflexivity. Qed.

Definition mat_prod (A B : smat F) (i j : nat) : F :=
  sumF (map (fun k => den_smat A i k * den_smat B k j) (seq 0 (smat_nc A))).
Definition mat_prod_T (A B : smat F) (i j : nat) : F :=
  sumF (map (fun k => den_smat A k i * den_smat B k j) (seq 0 (smat_nr A))).

Theorem den_mat_mult (A B : smat F) i j :
  smat_wf A -> smat_wf B ->
  denCsr (mat_mult F zero add mul smallm A B None) i j = dropM (mat_prod A B i j).
Proof.
  intros HA HB. unfold mat_mult. rewrite den_spgemm_helper by (apply smat_to_csr_wf; assumption).
  f_equal. unfold prod_entry, mat_prod. rewrite (proj2 (smat_to_csr_dims A)).
  apply (sumf_map_ext F zero add). intros k _. rewrite !den_smat_to_csr by assumption. reflexivity.
Qed.

Theorem den_mat_mult_T (B A : smat F) i j :
  smat_wf A -> smat_wf B ->
  denCsr (mat_mult_T F zero add mul smallm B A None) i j = dropM (mat_prod_T A B i j).
Proof.
  intros HA HB. unfold mat_mult_T.
  rewrite den_spgemm_T_helper by (try apply smat_to_csc_wf; try apply smat_to_csr_wf; assumption).
  f_equal. unfold prod_T_entry, mat_prod_T. rewrite (proj1 (smat_to_csc_dims A)).
  apply (sumf_map_ext F zero add). intros k _.
  rewrite den_smat_to_csc, den_smat_to_csr by assumption. reflexivity.
Qed.

Theorem mat_mult_wf (A B : smat F) : smat_wf A -> smat_wf B -> csr_wf (mat_mult F zero add mul smallm A B None).
Proof. intros HA HB. apply spgemm_helper_wf; apply smat_to_csr_wf; assumption. Qed.
Theorem mat_mult_T_wf (B A : smat F) : smat_wf A -> smat_wf B -> csr_wf (mat_mult_T F zero add mul smallm B A None).
Proof. intros HA HB. apply spgemm_T_helper_wf; [apply smat_to_csc_wf|apply smat_to_csr_wf]; assumption. Qed.

Theorem mat_mult_dims (A B : smat F) m :
  csr_nr (mat_mult F zero add mul smallm A B m) = smat_nr A /\ csr_nc (mat_mult F zero add mul smallm A B m) = smat_nc B.
Proof. unfold mat_mult, spgemm_helper; cbn [csr_nr csr_nc]. split; [apply smat_to_csr_dims|apply smat_to_csr_dims]. Qed.
Theorem mat_mult_T_dims (B A : smat F) m :
  csr_nr (mat_mult_T F zero add mul smallm B A m) = smat_nc A /\ csr_nc (mat_mult_T F zero add mul smallm B A m) = smat_nc B.
Proof. unfold mat_mult_T, spgemm_T_helper; cbn [csr_nr csr_nc]. split; [apply smat_to_csc_dims|apply smat_to_csr_dims]. Qed.

(* ---------- Galerkin product ---------- *)
Definition AP_entry (A P : smat F) (k j : nat) : F := mat_prod A P k j.
Definition triple_dropped (A P : smat F) (i j : nat) : F :=
  sumF (map (fun k => den_smat P k i * dropM (AP_entry A P k j)) (seq 0 (smat_nr P))).
Definition triple (A P : smat F) (i j : nat) : F :=
  sumF (map (fun k => den_smat P k i * AP_entry A P k j) (seq 0 (smat_nr P))).

Theorem den_galerkin (A P : smat F) i j :
  smat_wf A -> smat_wf P ->
  denCsr (galerkin F zero add mul smallm A P) i j = dropM (triple_dropped A P i j).
Proof.
  intros HA HP. unfold galerkin.
  rewrite den_mat_mult_T by (try exact HP; apply mat_mult_wf; assumption).
  f_equal. unfold mat_prod_T, triple_dropped.
  apply (sumf_map_ext F zero add). intros k _. cbn [den_smat].
  rewrite den_mat_mult by assumption. reflexivity.
Qed.

(* exact whenever neither the intermediate nor the final sums are small-but-nonzero *)
Theorem galerkin_exact (A P : smat F) i j :
  smat_wf A -> smat_wf P ->
  (forall k, smallm (AP_entry A P k j) = true -> AP_entry A P k j = 0) ->
  (smallm (triple A P i j) = true -> triple A P i j = 0) ->
  denCsr (galerkin F zero add mul smallm A P) i j = triple A P i j.
Proof.
  intros HA HP H1 H2. rewrite den_galerkin by assumption.
  assert (E : triple_dropped A P i j = triple A P i j).
  { apply (sumf_map_ext F zero add). intros k _. f_equal. unfold dropm.
    destruct (smallm (AP_entry A P k j)) eqn:Es; [symmetry; apply H1; exact Es|reflexivity]. }
  rewrite E. unfold dropm. destruct (smallm (triple A P i j)) eqn:Es; [symmetry; apply H2; reflexivity|reflexivity].
Qed.

(* "integer data": a sub-semiring on which small implies zero *)
Section Integers.
Variable isint : F -> Prop.
Hypothesis isint_0 : isint 0.
Hypothesis isint_add : forall x y, isint x -> isint y -> isint (x + y).
Hypothesis isint_mul : forall x y, isint x -> isint y -> isint (x * y).
Hypothesis isint_small : forall x, isint x -> smallm x = true -> x = 0.

Lemma isint_sumf l : (forall x, In x l -> isint x) -> isint (sumF l).
Proof.
  induction l as [|x l IH]; intros H; simpl; [exact isint_0|].
  apply isint_add; [apply H; left; reflexivity|apply IH; intros; apply H; right; assumption].
Qed.

Lemma isint_sum_map {X} (f : X -> F) l : (forall x, isint (f x)) -> isint (sumF (map f l)).
Proof. intros H. apply isint_sumf. intros x Hx. apply in_map_iff in Hx. destruct Hx as [y [<- _]]. apply H. Qed.

Lemma dropm_isint x : isint x -> dropM x = x.
Proof. intros H. unfold dropm. destruct (smallm x) eqn:E; [symmetry; apply isint_small; assumption|reflexivity]. Qed.

Theorem spgemm_exact_on_integers (A B : smat F) i j :
  smat_wf A -> smat_wf B ->
  (forall i j, isint (den_smat A i j)) -> (forall i j, isint (den_smat B i j)) ->
  denCsr (mat_mult F zero add mul smallm A B None) i j = mat_prod A B i j.
Proof.
  intros HA HB IA IB. rewrite den_mat_mult by assumption. apply dropm_isint.
  apply isint_sum_map. intros k. apply isint_mul; [apply IA|apply IB].
Qed.

Theorem spgemm_T_exact_on_integers (B A : smat F) i j :
  smat_wf A -> smat_wf B ->
  (forall i j, isint (den_smat A i j)) -> (forall i j, isint (den_smat B i j)) ->
  denCsr (mat_mult_T F zero add mul smallm B A None) i j = mat_prod_T A B i j.
Proof.
  intros HA HB IA IB. rewrite den_mat_mult_T by assumption. apply dropm_isint.
  apply isint_sum_map. intros k. apply isint_mul; [apply IA|apply IB].
Qed.

Theorem galerkin_exact_on_integers (A P : smat F) i j :
  smat_wf A -> smat_wf P ->
  (forall i j, isint (den_smat A i j)) -> (forall i j, isint (den_smat P i j)) ->
  denCsr (galerkin F zero add mul smallm A P) i j = triple A P i j.
Proof.
  intros HA HP IA IP.
  assert (IAP : forall k j, isint (AP_entry A P k j)).
  { intros k j'. apply isint_sum_map. intros l. apply isint_mul; [apply IA|apply IP]. }
  apply galerkin_exact; try assumption.
  - intros k. apply isint_small, IAP.
  - apply isint_small. apply isint_sum_map. intros k. apply isint_mul; [apply IP|apply IAP].
Qed.
End Integers.

End SpgemmProofs.
