(* C02 (sequential kernels): every SpMV kernel of every format computes the product with the represented operator. *)
From Raptor Require Import Base.Sums Sparse.Defs Sparse.ConvertProofs.

Section SpmvProofs.
Variable F : Type.
Variables (zero one : F) (add mul sub : F -> F -> F) (opp : F -> F).
Variable Fth : ring_theory zero one add mul sub opp (@eq F).
Add Ring Fring4 : Fth.

Notation sumF := (sumf F zero add).
Notation denL := (den_line F zero add).
Notation denCoo := (den_coo F zero add).
Notation denCsr := (den_csr F zero add).
Notation denCsc := (den_csc F zero add).
Notation xat := (xat F zero).
Notation "a + b" := (add a b).
Notation "a * b" := (mul a b).
Notation "a - b" := (sub a b).

(* dense row-times-vector of the represented operator *)
Definition dot_row (dn : nat -> F) (x : list F) (n : nat) : F := sumF (map (fun c => dn c * xat x c) (seq 0 n)).

Lemma upd_length (l : list F) i v : length (upd F l i v) = length l.
Proof. revert i; induction l as [|a l IH]; intros [|i]; simpl; try reflexivity. rewrite IH. reflexivity. Qed.

Lemma xat_upd (l : list F) k v i :
  xat (upd F l k v) i = if (k =? i) && (k <? length l) then v else xat l i.
Proof.
  unfold Defs.xat. revert k i. induction l as [|a l IH]; intros k i.
  - replace (k <? length (@nil F)) with false by (symmetry; apply Nat.ltb_ge; simpl; lia).
    rewrite andb_false_r. destruct k; reflexivity.
  - destruct k as [|k]; destruct i as [|i]; cbn [upd nth length]; try reflexivity.
    rewrite IH. reflexivity.
Qed.

(* grouping a line's contributions by column *)
Lemma sum_line_by_col (ps : list (nat * F)) (x : list F) n :
  (forall p, In p ps -> fst p < n) ->
  sumF (map (fun p => snd p * xat x (fst p)) ps) = dot_row (denL ps) x n.
Proof.
  unfold dot_row. induction ps as [|p ps IH]; intros H.
  - simpl. symmetry. rewrite (sumf_map_ext F zero add _ (fun _ => zero)).
    + apply (sumf_map_zero F zero one add mul sub opp Fth).
    + intros c _. unfold den_line; simpl. ring.
  - cbn [map sumf fold_right]. change (fold_right add zero ?l) with (sumF l).
    rewrite IH by (intros q Hq; apply H; right; exact Hq).
    rewrite (sumf_map_ext F zero add (fun c => denL (p :: ps) c * xat x c)
              (fun c => (if fst p =? c then snd p else zero) * xat x c + denL ps c * xat x c)).
    2:{ intros c _. unfold den_line; simpl. destruct (fst p =? c); simpl; ring. }
    rewrite (sumf_map_add F zero one add mul sub opp Fth).
    f_equal.
    rewrite (sumf_single F zero one add mul sub opp Fth n (fst p)).
    + rewrite Nat.eqb_refl. reflexivity.
    + apply H. left. reflexivity.
    + intros c _ Hc. replace (fst p =? c) with false by (symmetry; apply Nat.eqb_neq; auto). ring.
Qed.

(* ---- CSR row loops ---- *)
Lemma nth_map_default' {A B} (f : A -> B) l i da db : f da = db -> nth i (map f l) db = f (nth i l da).
Proof. intros <-. apply map_nth. Qed.

Lemma fold_row_dot (r : list (nat * F)) x acc :
  fold_left (fun a p => a + snd p * xat x (fst p)) r acc = acc + sumF (map (fun p => snd p * xat x (fst p)) r).
Proof. revert acc; induction r as [|p r IH]; intros acc; simpl; [ring|]. rewrite IH. ring. Qed.

Lemma fold_row_res (r : list (nat * F)) x acc :
  fold_left (fun a p => a - snd p * xat x (fst p)) r acc = acc - sumF (map (fun p => snd p * xat x (fst p)) r).
Proof. revert acc; induction r as [|p r IH]; intros acc; simpl; [ring|]. rewrite IH. ring. Qed.

Theorem csr_spmv_spec (A : csr F) x i :
  csr_wf A -> i < csr_nr A ->
  xat (csr_spmv F zero add mul A x) i = dot_row (denCsr A i) x (csr_nc A).
Proof.
  intros [Hl Hc] Hi. unfold csr_spmv, Defs.xat.
  rewrite (nth_map_default' (fun r => row_dot F zero add mul r x) (csr_rows A) i [] zero) by reflexivity.
  unfold row_dot. rewrite fold_row_dot.
  unfold den_csr. rewrite <- sum_line_by_col.
  - ring.
  - intros p Hp. apply (Hc (nth i (csr_rows A) [])); [apply nth_In; lia|exact Hp].
Qed.

Lemma nth_indexed_map' {A B} (f : nat * A -> B) (l : list A) i dA dB :
  i < length l -> nth i (map f (indexed l)) dB = f (i, nth i l dA).
Proof.
  unfold indexed. assert (G : forall s, i < length l -> nth i (map f (indexed_from s l)) dB = f (Nat.add s i, nth i l dA)).
  { revert i. induction l as [|a l IH]; intros i s Hi; simpl in *; [lia|].
    destruct i as [|i]; [rewrite Nat.add_0_r; reflexivity|]. rewrite IH by lia. do 2 f_equal. lia. }
  intros H. apply (G 0 H).
Qed.

Theorem csr_residual_spec (A : csr F) x b i :
  csr_wf A -> i < csr_nr A ->
  xat (csr_residual F zero mul sub A x b) i = xat b i - dot_row (denCsr A i) x (csr_nc A).
Proof.
  intros [Hl Hc] Hi. unfold csr_residual, Defs.xat at 1.
  rewrite (nth_indexed_map' _ _ i [] zero) by lia. cbn [fst snd].
  rewrite fold_row_res. unfold den_csr. rewrite <- sum_line_by_col; [reflexivity|].
  intros p Hp. apply (Hc (nth i (csr_rows A) [])); [apply nth_In; lia|exact Hp].
Qed.

Theorem csr_spmv_append_spec (A : csr F) x b i :
  csr_wf A -> i < csr_nr A ->
  xat (csr_spmv_append F zero add mul A x b) i = xat b i + dot_row (denCsr A i) x (csr_nc A).
Proof.
  intros [Hl Hc] Hi. unfold csr_spmv_append, Defs.xat at 1.
  rewrite app_nth1 by (rewrite map_length; unfold indexed; rewrite indexed_from_length; lia).
  rewrite (nth_indexed_map' _ _ i [] zero) by lia. cbn [fst snd].
  unfold row_dot. rewrite fold_row_dot. unfold den_csr. rewrite <- sum_line_by_col.
  - ring.
  - intros p Hp. apply (Hc (nth i (csr_rows A) [])); [apply nth_In; lia|exact Hp].
Qed.

(* ---- triple-list kernels (COO; CSC and the transposed CSR kernels go through their triple listing) ---- *)
Lemma run_append_gen (sgn : F -> F -> F) (tgt src : ent F -> nat) es x :
  (forall a, sgn a zero = a) ->
  forall b i, (forall e, In e es -> tgt e < length b) ->
  xat (fold_left (fun b e => upd F b (tgt e) (sgn (xat b (tgt e)) (eval e * xat x (src e)))) es b) i
  = fold_left (fun a e => sgn a (eval e * xat x (src e))) (filter (fun e => tgt e =? i) es) (xat b i).
Proof.
  intros Hs. induction es as [|e es IH]; intros b i H; simpl; [reflexivity|].
  rewrite IH.
  - rewrite xat_upd. destruct (tgt e =? i) eqn:E; simpl.
    + apply Nat.eqb_eq in E. replace (tgt e <? length b) with true.
      * rewrite E. reflexivity.
      * symmetry. apply Nat.ltb_lt. apply H. left. reflexivity.
    + reflexivity.
  - intros e' He'. rewrite upd_length. apply H. right. exact He'.
Qed.

Lemma fold_add_sum (g : ent F -> F) l acc :
  fold_left (fun a e => a + g e) l acc = acc + sumF (map g l).
Proof. revert acc; induction l as [|e l IH]; intros acc; simpl; [ring|]. rewrite IH. ring. Qed.
Lemma fold_sub_sum (g : ent F -> F) l acc :
  fold_left (fun a e => a - g e) l acc = acc - sumF (map g l).
Proof. revert acc; induction l as [|e l IH]; intros acc; simpl; [ring|]. rewrite IH. ring. Qed.

(* contributions of the entries of row i, grouped by column, are the dense row *)
Lemma coo_row_sum (A : coo F) x i :
  coo_wf A ->
  sumF (map (fun e => eval e * xat x (ecol e)) (filter (fun e => erow e =? i) (coo_ents A)))
  = dot_row (denCoo A i) x (coo_nc A).
Proof.
  intros Hwf.
  set (line := map (fun e : ent F => (ecol e, eval e)) (filter (fun e => erow e =? i) (coo_ents A))).
  assert (E1 : sumF (map (fun e => eval e * xat x (ecol e)) (filter (fun e => erow e =? i) (coo_ents A)))
               = sumF (map (fun p => snd p * xat x (fst p)) line)).
  { unfold line. rewrite map_map. reflexivity. }
  rewrite E1. rewrite (sum_line_by_col line x (coo_nc A)).
  - unfold dot_row. apply (sumf_map_ext F zero add). intros c _. f_equal.
    unfold line, den_line, den_coo. rewrite filter_map_comm, map_map, filter_filter. reflexivity.
  - intros p Hp. unfold line in Hp. apply in_map_iff in Hp. destruct Hp as [e [<- He]].
    apply filter_In in He. simpl. apply (Hwf e). tauto.
Qed.

Lemma coo_col_sum (A : coo F) x j :
  coo_wf A ->
  sumF (map (fun e => eval e * xat x (erow e)) (filter (fun e => ecol e =? j) (coo_ents A)))
  = dot_row (fun i => denCoo A i j) x (coo_nr A).
Proof.
  intros Hwf.
  pose proof (coo_row_sum (coo_transpose A) x j (coo_transpose_wf F A Hwf)) as H.
  unfold coo_transpose in H; simpl in H.
  rewrite filter_map_comm, map_map in H. unfold erow, ecol, eval in *; simpl in H.
  rewrite H. unfold dot_row. apply (sumf_map_ext F zero add). intros c _. f_equal.
  change (denCoo (coo_transpose A) j c = denCoo A c j). apply den_coo_transpose.
Qed.

Theorem coo_spmv_append_spec (A : coo F) x b i :
  coo_wf A -> coo_nr A <= length b ->
  xat (coo_spmv_append F zero add mul A x b) i = xat b i + dot_row (denCoo A i) x (coo_nc A).
Proof.
  intros Hwf Hb. unfold coo_spmv_append, run_kernel, k_append.
  rewrite (run_append_gen add erow ecol) by (try (intros; ring); intros e He; destruct (Hwf e He); lia).
  rewrite fold_add_sum, coo_row_sum by exact Hwf. reflexivity.
Qed.

Theorem coo_spmv_append_neg_spec (A : coo F) x b i :
  coo_wf A -> coo_nr A <= length b ->
  xat (coo_spmv_append_neg F zero mul sub A x b) i = xat b i - dot_row (denCoo A i) x (coo_nc A).
Proof.
  intros Hwf Hb. unfold coo_spmv_append_neg, run_kernel, k_append_neg.
  rewrite (run_append_gen sub erow ecol) by (try (intros; ring); intros e He; destruct (Hwf e He); lia).
  rewrite fold_sub_sum, coo_row_sum by exact Hwf. reflexivity.
Qed.

Theorem coo_spmv_append_T_spec (A : coo F) x b j :
  coo_wf A -> coo_nc A <= length b ->
  xat (coo_spmv_append_T F zero add mul A x b) j = xat b j + dot_row (fun i => denCoo A i j) x (coo_nr A).
Proof.
  intros Hwf Hb. unfold coo_spmv_append_T, run_kernel, k_append_T.
  rewrite (run_append_gen add ecol erow) by (try (intros; ring); intros e He; destruct (Hwf e He); lia).
  rewrite fold_add_sum, coo_col_sum by exact Hwf. reflexivity.
Qed.

Theorem coo_spmv_append_neg_T_spec (A : coo F) x b j :
  coo_wf A -> coo_nc A <= length b ->
  xat (coo_spmv_append_neg_T F zero mul sub A x b) j = xat b j - dot_row (fun i => denCoo A i j) x (coo_nr A).
Proof.
  intros Hwf Hb. unfold coo_spmv_append_neg_T, run_kernel, k_append_neg_T.
  rewrite (run_append_gen sub ecol erow) by (try (intros; ring); intros e He; destruct (Hwf e He); lia).
  rewrite fold_sub_sum, coo_col_sum by exact Hwf. reflexivity.
Qed.

Lemma xat_zeros n i : xat (zeros F zero n) i = zero.
Proof. unfold Defs.xat, zeros. revert i; induction n; intros [|i]; simpl; auto. Qed.
Lemma zeros_length n : length (zeros F zero n) = n.
Proof. apply repeat_length. Qed.

Theorem coo_spmv_spec (A : coo F) x i :
  coo_wf A -> xat (coo_spmv F zero add mul A x) i = dot_row (denCoo A i) x (coo_nc A).
Proof.
  intros Hwf. unfold coo_spmv. change (run_kernel F (k_append F zero add mul) (coo_ents A) x ?b) with (coo_spmv_append F zero add mul A x b).
  rewrite coo_spmv_append_spec by (try exact Hwf; rewrite zeros_length; lia). rewrite xat_zeros. ring.
Qed.

Theorem coo_mult_T_spec (A : coo F) x j :
  coo_wf A -> xat (coo_mult_T F zero add mul A x) j = dot_row (fun i => denCoo A i j) x (coo_nr A).
Proof.
  intros Hwf. unfold coo_mult_T.
  rewrite coo_spmv_append_T_spec by (try exact Hwf; rewrite zeros_length; lia). rewrite xat_zeros. ring.
Qed.

Lemma xat_firstn (b : list F) n i : i < n -> xat (firstn n b) i = xat b i.
Proof.
  unfold Defs.xat. revert n i; induction b as [|a b IH]; intros n i H.
  - rewrite firstn_nil. reflexivity.
  - destruct n as [|n]; [lia|]. destruct i as [|i]; cbn [firstn nth]; [reflexivity|]. apply IH. lia.
Qed.

Theorem coo_residual_spec (A : coo F) x b i :
  coo_wf A -> coo_nr A <= length b -> i < coo_nr A ->
  xat (coo_residual F zero mul sub A x b) i = xat b i - dot_row (denCoo A i) x (coo_nc A).
Proof.
  intros Hwf Hb Hi. unfold coo_residual.
  change (run_kernel F (k_append_neg F zero mul sub) (coo_ents A) x ?b) with (coo_spmv_append_neg F zero mul sub A x b).
  rewrite coo_spmv_append_neg_spec by (try exact Hwf; rewrite firstn_length; lia).
  rewrite xat_firstn by exact Hi. reflexivity.
Qed.

(* ---- CSC and transposed CSR kernels through the triple listing ---- *)
Lemma dot_row_ext f g x n : (forall c, f c = g c) -> dot_row f x n = dot_row g x n.
Proof. intros H. unfold dot_row. apply (sumf_map_ext F zero add). intros c _. rewrite H. reflexivity. Qed.

Theorem csc_spmv_spec (A : csc F) x i :
  csc_wf A -> xat (csc_spmv F zero add mul A x) i = dot_row (fun j => denCsc A i j) x (csc_nc A).
Proof.
  intros H. unfold csc_spmv. rewrite coo_spmv_spec by (apply csc_to_coo_wf; exact H).
  apply dot_row_ext. intros c. apply den_csc_to_coo.
Qed.
Theorem csc_spmv_append_spec (A : csc F) x b i :
  csc_wf A -> csc_nr A <= length b ->
  xat (csc_spmv_append F zero add mul A x b) i = xat b i + dot_row (fun j => denCsc A i j) x (csc_nc A).
Proof.
  intros H Hb. unfold csc_spmv_append. rewrite coo_spmv_append_spec by (try (apply csc_to_coo_wf; exact H); exact Hb).
  f_equal. apply dot_row_ext. intros c. apply den_csc_to_coo.
Qed.
Theorem csc_spmv_append_neg_spec (A : csc F) x b i :
  csc_wf A -> csc_nr A <= length b ->
  xat (csc_spmv_append_neg F zero mul sub A x b) i = xat b i - dot_row (fun j => denCsc A i j) x (csc_nc A).
Proof.
  intros H Hb. unfold csc_spmv_append_neg. rewrite coo_spmv_append_neg_spec by (try (apply csc_to_coo_wf; exact H); exact Hb).
  f_equal. apply dot_row_ext. intros c. apply den_csc_to_coo.
Qed.
Theorem csc_spmv_append_T_spec (A : csc F) x b j :
  csc_wf A -> csc_nc A <= length b ->
  xat (csc_spmv_append_T F zero add mul A x b) j = xat b j + dot_row (fun i => denCsc A i j) x (csc_nr A).
Proof.
  intros H Hb. unfold csc_spmv_append_T. rewrite coo_spmv_append_T_spec by (try (apply csc_to_coo_wf; exact H); exact Hb).
  f_equal. apply dot_row_ext. intros c. apply den_csc_to_coo.
Qed.
Theorem csc_spmv_append_neg_T_spec (A : csc F) x b j :
  csc_wf A -> csc_nc A <= length b ->
  xat (csc_spmv_append_neg_T F zero mul sub A x b) j = xat b j - dot_row (fun i => denCsc A i j) x (csc_nr A).
Proof.
  intros H Hb. unfold csc_spmv_append_neg_T. rewrite coo_spmv_append_neg_T_spec by (try (apply csc_to_coo_wf; exact H); exact Hb).
  f_equal. apply dot_row_ext. intros c. apply den_csc_to_coo.
Qed.
Theorem csc_mult_T_spec (A : csc F) x j :
  csc_wf A -> xat (csc_mult_T F zero add mul A x) j = dot_row (fun i => denCsc A i j) x (csc_nr A).
Proof.
  intros H. unfold csc_mult_T. rewrite csc_spmv_append_T_spec by (try exact H; rewrite zeros_length; lia).
  rewrite xat_zeros. ring.
Qed.
Theorem csc_residual_spec (A : csc F) x b i :
  csc_wf A -> csc_nr A <= length b -> i < csc_nr A ->
  xat (csc_residual F zero mul sub A x b) i = xat b i - dot_row (fun j => denCsc A i j) x (csc_nc A).
Proof.
  intros H Hb Hi. unfold csc_residual. rewrite coo_residual_spec by (try (apply csc_to_coo_wf; exact H); assumption).
  f_equal. apply dot_row_ext. intros c. apply den_csc_to_coo.
Qed.

Theorem csr_spmv_append_T_spec (A : csr F) x b j :
  csr_wf A -> csr_nc A <= length b ->
  xat (csr_spmv_append_T F zero add mul A x b) j = xat b j + dot_row (fun i => denCsr A i j) x (csr_nr A).
Proof.
  intros H Hb. unfold csr_spmv_append_T. rewrite coo_spmv_append_T_spec by (try (apply csr_to_coo_wf; exact H); exact Hb).
  f_equal. apply dot_row_ext. intros c. apply den_csr_to_coo.
Qed.
Theorem csr_spmv_append_neg_spec (A : csr F) x b i :
  csr_wf A -> csr_nr A <= length b ->
  xat (csr_spmv_append_neg F zero mul sub A x b) i = xat b i - dot_row (denCsr A i) x (csr_nc A).
Proof.
  intros H Hb. unfold csr_spmv_append_neg. rewrite coo_spmv_append_neg_spec by (try (apply csr_to_coo_wf; exact H); exact Hb).
  f_equal. apply dot_row_ext. intros c. apply den_csr_to_coo.
Qed.
Theorem csr_spmv_append_neg_T_spec (A : csr F) x b j :
  csr_wf A -> csr_nc A <= length b ->
  xat (csr_spmv_append_neg_T F zero mul sub A x b) j = xat b j - dot_row (fun i => denCsr A i j) x (csr_nr A).
Proof.
  intros H Hb. unfold csr_spmv_append_neg_T. rewrite coo_spmv_append_neg_T_spec by (try (apply csr_to_coo_wf; exact H); exact Hb).
  f_equal. apply dot_row_ext. intros c. apply den_csr_to_coo.
Qed.
Theorem csr_mult_T_spec (A : csr F) x j :
  csr_wf A -> xat (csr_mult_T F zero add mul A x) j = dot_row (fun i => denCsr A i j) x (csr_nr A).
Proof.
  intros H. unfold csr_mult_T. rewrite csr_spmv_append_T_spec by (try exact H; rewrite zeros_length; lia).
  rewrite xat_zeros. ring.
Qed.

End SpmvProofs.
