(* remove_duplicates on block matrices (BSR / BSC): the routine is the scalar one at T = blocks; blocks stored at the same
   position are added entry by entry, and the merged block is discarded when the routine's smallness test holds for it.
   Every slice of the result therefore is the slice of the input, except at positions whose merged block is discarded. *)
From Raptor Require Import Base.Sums Sparse.Defs Sparse.ConvertProofs Sparse.SortProofs Sparse.Block Sparse.BlockProofs
     Sparse.BlockConvProofs.

Section HomDedup.
Variable F : Type.
Variables (zero one : F) (add mul sub : F -> F -> F) (opp : F -> F).
Variable Fth : ring_theory zero one add mul sub opp (@eq F).
Add Ring FringBD : Fth.
Variable T : Type.
Variable addT : T -> T -> T.
Variable smallT : T -> bool.
Variable g : T -> F.
Variable okT : T -> Prop.
Hypothesis g_add : forall a b, okT a -> okT b -> g (addT a b) = add (g a) (g b).
Hypothesis ok_add : forall a b, okT a -> okT b -> okT (addT a b).

Notation denL := (den_line F zero add).
Notation lmap := (line_map g).

(* the block accumulated for index c, starting from acc, in storage order *)
Definition accT (c : nat) (acc : T) (l : list (nat * T)) : T :=
  fold_left (fun a p => if fst p =? c then addT a (snd p) else a) l acc.
(* the merged block of index j of a line (None: no entry with that index) *)
Definition tsum (l : list (nat * T)) (j : nat) : option T :=
  match filter (fun p => fst p =? j) l with [] => None | p :: r => Some (fold_left addT (map snd r) (snd p)) end.
Definition outcome (o : option T) : F := match o with None => zero | Some B => if smallT B then zero else g B end.

Lemma accT_filter c acc l : accT c acc l = fold_left addT (map snd (filter (fun p => fst p =? c) l)) acc.
Proof.
  unfold accT. revert acc. induction l as [|p l IH]; intros acc; simpl; [reflexivity|].
  destruct (fst p =? c); simpl; apply IH.
Qed.

Lemma accT_absent c acc l : (forall q, In q l -> fst q <> c) -> accT c acc l = acc.
Proof.
  intros H. rewrite accT_filter. rewrite filter_none; [reflexivity|].
  intros q Hq. apply Nat.eqb_neq. apply H. exact Hq.
Qed.

Lemma tsum_absent l j : (forall q, In q l -> fst q <> j) -> tsum l j = None.
Proof.
  intros H. unfold tsum. rewrite filter_none; [reflexivity|].
  intros q Hq. apply Nat.eqb_neq. apply H. exact Hq.
Qed.

Lemma g_accT c acc l : okT acc -> (forall q, In q l -> okT (snd q)) ->
  okT (accT c acc l) /\ g (accT c acc l) = add (g acc) (denL (lmap l) c).
Proof.
  unfold accT. revert acc. induction l as [|p l IH]; intros acc Ha Hl; simpl.
  - split; [exact Ha|]. unfold den_line; simpl. ring.
  - assert (Hp : okT (snd p)) by (apply Hl; left; reflexivity).
    assert (Hl' : forall q, In q l -> okT (snd q)) by (intros q Hq; apply Hl; right; exact Hq).
    change (denL (lmap (p :: l)) c) with (denL ((fst p, g (snd p)) :: lmap l) c).
    rewrite (den_line_cons F zero one add mul sub opp Fth). simpl.
    destruct (fst p =? c).
    + destruct (IH (addT acc (snd p)) (ok_add _ _ Ha Hp) Hl') as [H1 H2]. split; [exact H1|].
      rewrite H2, g_add by assumption. ring.
    + destruct (IH acc Ha Hl') as [H1 H2]. split; [exact H1|]. rewrite H2. ring.
Qed.

Lemma den_emit_T c acc j :
  denL (lmap (emit T smallT c acc)) j = if c =? j then (if smallT acc then zero else g acc) else zero.
Proof.
  unfold emit, den_line, line_map. destruct (smallT acc); simpl.
  - destruct (c =? j); reflexivity.
  - destruct (c =? j); simpl; [ring|reflexivity].
Qed.

Lemma lmap_app l1 l2 : lmap (l1 ++ l2) = lmap l1 ++ lmap l2.
Proof. unfold line_map. apply map_app. Qed.

Lemma den_dedup_acc_T l : forall c acc j,
  sortedb le_fst l = true -> (forall q, In q l -> c <= fst q) ->
  okT acc -> (forall q, In q l -> okT (snd q)) ->
  denL (lmap (dedup_acc T addT smallT c acc l)) j =
    if c =? j then outcome (Some (accT c acc l)) else outcome (tsum l j).
Proof.
  induction l as [|p l IH]; intros c acc j Hs Hge Ha Hl; cbn [dedup_acc].
  - rewrite den_emit_T. destruct (c =? j); reflexivity.
  - pose proof (sortedb_tail _ _ _ Hs) as Hs'.
    pose proof (sorted_ge _ _ _ Hs) as Hp.
    assert (Hpo : okT (snd p)) by (apply Hl; left; reflexivity).
    assert (Hl' : forall q, In q l -> okT (snd q)) by (intros q Hq; apply Hl; right; exact Hq).
    destruct (fst p =? c) eqn:E.
    + apply Nat.eqb_eq in E.
      rewrite IH; [|exact Hs'|intros q Hq; rewrite <- E; apply Hp; exact Hq|apply ok_add; assumption|exact Hl'].
      destruct (c =? j) eqn:Ecj.
      * unfold accT. cbn [fold_left]. rewrite E, Nat.eqb_refl. reflexivity.
      * unfold tsum. cbn [filter]. rewrite E, Ecj. reflexivity.
    + apply Nat.eqb_neq in E. assert (Hlt : c < fst p) by (specialize (Hge p (or_introl eq_refl)); lia).
      rewrite lmap_app, (den_app F zero one add mul sub opp Fth), den_emit_T.
      rewrite IH; [|exact Hs'|exact Hp|exact Hpo|exact Hl'].
      destruct (c =? j) eqn:Ecj.
      * apply Nat.eqb_eq in Ecj. subst j.
        replace (fst p =? c) with false by (symmetry; apply Nat.eqb_neq; lia).
        rewrite tsum_absent by (intros q Hq; specialize (Hp q Hq); lia).
        rewrite accT_absent by (intros q [<-|Hq]; [lia|specialize (Hp q Hq); lia]).
        simpl. ring.
      * destruct (fst p =? j) eqn:Epj.
        -- apply Nat.eqb_eq in Epj. subst j. unfold tsum. cbn [filter]. rewrite Nat.eqb_refl, accT_filter.
           unfold outcome. destruct (smallT _); ring.
        -- unfold tsum. cbn [filter]. rewrite Epj. fold (tsum l j). ring.
Qed.

(* the merged block of a position is discarded iff the routine's test holds for it *)
Definition discarded (l : list (nat * T)) (j : nat) : bool :=
  match tsum l j with None => false | Some B => smallT B end.

Lemma den_lmap_filter l j : denL (lmap l) j = sumf F zero add (map g (map snd (filter (fun p => fst p =? j) l))).
Proof.
  unfold den_line, line_map. induction l as [|a l IH]; simpl; [reflexivity|].
  destruct (fst a =? j); simpl; rewrite IH; reflexivity.
Qed.

Lemma filter_idem {X} (f : X -> bool) l : filter f (filter f l) = filter f l.
Proof. induction l as [|a l IH]; simpl; [reflexivity|]. destruct (f a) eqn:E; simpl; [rewrite E, IH|]; auto. Qed.

Lemma filter_all_true {X} (f : X -> bool) l : (forall a, In a l -> f a = true) -> filter f l = l.
Proof.
  induction l as [|a l IH]; intros H; simpl; [reflexivity|]. rewrite (H a (or_introl eq_refl)).
  rewrite IH; [reflexivity|]. intros b Hb; apply H; right; exact Hb.
Qed.

Lemma g_tsum l j : (forall q, In q l -> okT (snd q)) ->
  match tsum l j with None => denL (lmap l) j = zero | Some B => g B = denL (lmap l) j end.
Proof.
  intros Hl. unfold tsum. destruct (filter (fun p => fst p =? j) l) as [|p r] eqn:Ef.
  - rewrite den_lmap_filter, Ef. reflexivity.
  - assert (Hin : forall q, In q (p :: r) -> In q l /\ fst q =? j = true) by (intros q Hq; rewrite <- Ef in Hq; apply filter_In in Hq; exact Hq).
    assert (E : denL (lmap l) j = denL (lmap (p :: r)) j).
    { rewrite !den_lmap_filter. rewrite <- Ef. rewrite filter_idem. reflexivity. }
    rewrite E.
    assert (Hall : forall q, In q r -> fst q =? j = true) by (intros q Hq; apply Hin; right; exact Hq).
    assert (Hok : forall q, In q r -> okT (snd q)) by (intros q Hq; apply Hl, Hin; right; exact Hq).
    assert (Hpo : okT (snd p)) by (apply Hl, Hin; left; reflexivity).
    destruct (Hin p (or_introl eq_refl)) as [_ Hpj].
    change (denL (lmap (p :: r)) j) with (denL ((fst p, g (snd p)) :: lmap r) j).
    rewrite (den_line_cons F zero one add mul sub opp Fth). simpl. rewrite Hpj.
    destruct (g_accT j (snd p) r Hpo Hok) as [_ H2].
    rewrite accT_filter in H2. rewrite (filter_all_true _ r Hall) in H2. exact H2.
Qed.

Theorem den_dedup_line_T l j :
  sortedb le_fst l = true -> (forall q, In q l -> okT (snd q)) ->
  denL (lmap (dedup_line T addT smallT l)) j = if discarded l j then zero else denL (lmap l) j.
Proof.
  intros Hs Hl. unfold discarded. pose proof (g_tsum l j Hl) as G.
  destruct l as [|p l]; [reflexivity|].
  cbn [dedup_line].
  rewrite den_dedup_acc_T; [|apply (sortedb_tail _ _ _ Hs)|apply (sorted_ge _ _ _ Hs)|apply Hl; left; reflexivity|intros q Hq; apply Hl; right; exact Hq].
  destruct (fst p =? j) eqn:E.
  - unfold tsum in G |- *. simpl in G |- *. rewrite E in G |- *. rewrite accT_filter. apply Nat.eqb_eq in E. subst j.
    unfold outcome. destruct (smallT _); [reflexivity|exact G].
  - unfold tsum in G |- *. simpl in G |- *. rewrite E in G |- *. fold (tsum l j) in G |- *.
    unfold outcome. destruct (tsum l j) as [B|]; [destruct (smallT B); [reflexivity|exact G]|symmetry; exact G].
Qed.
End HomDedup.

(* ---------- instance: blocks of a fixed length with entrywise addition ---------- *)
Section BlockDedup.
Variable F : Type.
Variables (zero one : F) (add mul sub : F -> F -> F) (opp : F -> F).
Variable Fth : ring_theory zero one add mul sub opp (@eq F).
Add Ring FringBD2 : Fth.
Variable bsmall : list F -> bool.      (* abs_val(block) < zero_tol *)

Notation denCoo := (den_coo F zero add).
Notation vaddF := (vadd add).

Lemma vadd_length a b : length (vaddF a b) = length a.
Proof. revert b; induction a as [|x a IH]; intros [|y b]; simpl; auto. Qed.

Lemma nth_vadd k a b : length a = length b -> nth k (vaddF a b) zero = add (nth k a zero) (nth k b zero).
Proof.
  revert k b; induction a as [|x a IH]; intros k [|y b] H; simpl in *; try discriminate.
  - destruct k; ring.
  - destruct k; [reflexivity|]. apply IH. lia.
Qed.

Section Pos.
Variables br bc n I J r c : nat.
Hypothesis Hr : r < br.
Hypothesis Hc : c < bc.
Notation sl := (slice F zero bc r c).
Notation okB := (fun blk : list F => length blk = n).

Lemma sl_add a b : okB a -> okB b -> sl (vaddF a b) = add (sl a) (sl b).
Proof. intros Ha Hb. cbv beta in *. unfold slice. apply nth_vadd. congruence. Qed.
Lemma ok_vadd a b : okB a -> okB b -> okB (vaddF a b).
Proof. intros Ha Hb. cbv beta in *. rewrite vadd_length. exact Ha. Qed.

(* the merged block at block position (I, J) of a block-row matrix is discarded by remove_duplicates *)
Definition bsr_discarded (A : csr (list F)) : bool :=
  discarded (list F) vaddF bsmall (sort_line (nth I (csr_rows A) [])) J.
Definition bsc_discarded (A : csc (list F)) : bool :=
  discarded (list F) vaddF bsmall (sort_line (nth J (csc_cols A) [])) I.

Lemma bden_csr_as_line (X : csr (list F)) :
  bden_csr F zero add br bc X (I * br + r) (J * bc + c) = den_line F zero add (line_map sl (nth I (csr_rows X) [])) J.
Proof.
  unfold bden_csr. rewrite (slice_den F zero one add mul sub opp Fth) by assumption.
  rewrite <- csr_to_coo_map, (den_csr_to_coo F zero add). unfold den_csr, csr_map; simpl.
  change (@nil (nat * F)) with (line_map sl (@nil (nat * list F))). rewrite map_nth. reflexivity.
Qed.
Lemma bden_csc_as_line (X : csc (list F)) :
  bden_csc F zero add br bc X (I * br + r) (J * bc + c) = den_line F zero add (line_map sl (nth J (csc_cols X) [])) I.
Proof.
  unfold bden_csc. rewrite (slice_den F zero one add mul sub opp Fth) by assumption.
  rewrite <- csc_to_coo_map, (den_csc_to_coo F zero add). unfold den_csc, csc_map; simpl.
  change (@nil (nat * F)) with (line_map sl (@nil (nat * list F))). rewrite map_nth. reflexivity.
Qed.

Lemma dedup_sorted_line (l : list (nat * list F)) j : (forall q, In q l -> okB (snd q)) ->
  den_line F zero add (line_map sl (dedup_line (list F) vaddF bsmall (sort_line l))) j
  = if discarded (list F) vaddF bsmall (sort_line l) j then zero else den_line F zero add (line_map sl l) j.
Proof.
  intros Hok.
  assert (Hok' : forall q, In q (sort_line l) -> okB (snd q)).
  { intros q Hq. apply Hok. eapply Permutation.Permutation_in; [apply sort_line_perm|exact Hq]. }
  rewrite (den_dedup_line_T F zero one add mul sub opp Fth (list F) vaddF bsmall sl okB sl_add ok_vadd
             (sort_line l) j (sort_line_sorted _ l) Hok').
  rewrite <- sort_line_map, (den_sort_line F zero one add mul sub opp Fth). reflexivity.
Qed.

Theorem bden_csr_remove_duplicates (A : csr (list F)) :
  (forall row, In row (csr_rows A) -> forall q, In q row -> okB (snd q)) ->
  bden_csr F zero add br bc (csr_remove_duplicates (list F) vaddF bsmall A) (I * br + r) (J * bc + c)
  = if bsr_discarded A then zero else bden_csr F zero add br bc A (I * br + r) (J * bc + c).
Proof.
  intros Hok. rewrite !bden_csr_as_line. unfold csr_remove_duplicates, bsr_discarded; simpl.
  rewrite (nth_map_default (fun row => dedup_line (list F) vaddF bsmall (sort_line row)) _ I [] []) by reflexivity.
  apply dedup_sorted_line. intros q Hq.
  destruct (Nat.lt_ge_cases I (length (csr_rows A))) as [HI|HI].
  - exact (Hok _ (nth_In _ _ HI) q Hq).
  - rewrite nth_overflow in Hq by exact HI. contradiction.
Qed.
Theorem bden_csc_remove_duplicates (A : csc (list F)) :
  (forall col, In col (csc_cols A) -> forall q, In q col -> okB (snd q)) ->
  bden_csc F zero add br bc (csc_remove_duplicates (list F) vaddF bsmall A) (I * br + r) (J * bc + c)
  = if bsc_discarded A then zero else bden_csc F zero add br bc A (I * br + r) (J * bc + c).
Proof.
  intros Hok. rewrite !bden_csc_as_line. unfold csc_remove_duplicates, bsc_discarded; simpl.
  rewrite (nth_map_default (fun row => dedup_line (list F) vaddF bsmall (sort_line row)) _ J [] []) by reflexivity.
  apply dedup_sorted_line. intros q Hq.
  destruct (Nat.lt_ge_cases J (length (csc_cols A))) as [HJ|HJ].
  - exact (Hok _ (nth_In _ _ HJ) q Hq).
  - rewrite nth_overflow in Hq by exact HJ. contradiction.
Qed.
End Pos.
End BlockDedup.
