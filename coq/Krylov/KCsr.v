(* The CSR kernels of Sparse/Defs.v (csr_spmv = CSRMatrix::mult, csr_residual = CSRMatrix::residual) satisfy the
   operator hypotheses under which the Krylov theorems are proved: lengths, linearity, residual = b - A x. *)
From Coq Require Import Field.
From Raptor Require Import Base.Sums Sparse.Defs Krylov.KDefs Krylov.KProofs.

Section CsrOperator.
Variable F : Type.
Variables (zero one : F) (add mul sub : F -> F -> F) (opp : F -> F) (div : F -> F -> F) (inv : F -> F).
Variable Fth : field_theory zero one add mul sub opp div inv (@eq F).
Add Field Ffield4 : Fth.
Notation "0" := zero.
Infix "+" := add.
Infix "*" := mul.
Infix "-" := sub.
Notation axpy := (axpy F add mul).
Notation vsub := (vsub F sub).
Notation xat := (xat F zero).
Notation row_dot := (row_dot F zero add mul).
Notation spmv := (csr_spmv F zero add mul).
Notation resid := (csr_residual F zero mul sub).

Lemma xat_axpy x p a j : length x = length p -> xat (axpy x p a) j = xat x j + xat p j * a.
Proof.
  unfold Defs.xat, KDefs.axpy. revert p j; induction x as [|x0 x IH]; intros [|p0 p] j H; simpl in H; try discriminate.
  - destruct j; simpl; ring.
  - destruct j as [|j]; simpl; [reflexivity|]. apply IH. lia.
Qed.

Lemma row_dot_acc r x acc : fold_left (fun acc p => acc + snd p * xat x (fst p)) r acc = acc + row_dot r x.
Proof.
  unfold Defs.row_dot. revert acc; induction r as [|e r IH]; intros acc; simpl; [ring|].
  rewrite IH. rewrite (IH (0 + _)). ring.
Qed.

Lemma row_dot_nil x : row_dot [] x = 0.
Proof. reflexivity. Qed.
Lemma row_dot_cons e r x : row_dot (e :: r) x = snd e * xat x (fst e) + row_dot r x.
Proof.
  unfold Defs.row_dot at 1. simpl. rewrite row_dot_acc. ring.
Qed.

Lemma row_dot_axpy r x p a : length x = length p -> row_dot r (axpy x p a) = row_dot r x + row_dot r p * a.
Proof.
  intros H. induction r as [|e r IH]; [rewrite !row_dot_nil; ring|].
  rewrite !row_dot_cons, IH. rewrite xat_axpy by exact H. ring.
Qed.

Lemma row_res_acc r x : forall acc, fold_left (fun acc p => acc - snd p * xat x (fst p)) r acc = acc - row_dot r x.
Proof.
  induction r as [|e r IH]; intros acc; simpl.
  - rewrite row_dot_nil. ring.
  - rewrite IH, row_dot_cons. ring.
Qed.

Theorem csr_spmv_length (A : csr F) x : length (spmv A x) = length (csr_rows A).
Proof. unfold csr_spmv. apply map_length. Qed.

Theorem csr_spmv_linear (A : csr F) x p a : length x = length p ->
  spmv A (axpy x p a) = axpy (spmv A x) (spmv A p) a.
Proof.
  intros H. unfold csr_spmv. unfold KDefs.axpy at 2. induction (csr_rows A) as [|r rows IH]; simpl; [reflexivity|].
  f_equal; [apply row_dot_axpy; exact H|exact IH].
Qed.

Lemma skipn_cons_nth (l : list F) s : s < length l -> skipn s l = nth s l 0 :: skipn (S s) l.
Proof.
  revert s; induction l as [|a l IH]; intros s H; simpl in H; [lia|].
  destruct s as [|s]; [reflexivity|]. simpl. apply IH. lia.
Qed.

Theorem csr_residual_spec (A : csr F) x b : length b = length (csr_rows A) ->
  resid A x b = vsub b (spmv A x).
Proof.
  intros H. unfold csr_residual, csr_spmv, indexed, KDefs.vsub.
  assert (G : forall rows s, length b = (s + length rows)%nat ->
     map (fun ir => fold_left (fun acc p => acc - snd p * xat x (fst p)) (snd ir) (xat b (fst ir))) (indexed_from s rows)
     = map2 sub (skipn s b) (map (fun r => row_dot r x) rows)).
  { induction rows as [|r rows IH]; intros s Hl; simpl.
    - destruct (skipn s b); reflexivity.
    - rewrite (skipn_cons_nth b s) by (simpl in Hl; lia). simpl. f_equal.
      + rewrite row_res_acc. reflexivity.
      + apply IH. simpl in Hl. lia. }
  rewrite (G (csr_rows A) O) by (simpl; exact H). reflexivity.
Qed.

End CsrOperator.
