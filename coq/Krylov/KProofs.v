(* Proofs about the Krylov models of KDefs.v. *)
From Coq Require Import Field.
From Raptor Require Import Base.Sums Krylov.KDefs.

(* ---------------- the bounded loop ---------------- *)
Section LoopFacts.
Variable St : Type.
Variable cont : St -> bool.
Variable step : St -> option St.

(* `run` returns the K-th iterate of the body, where K is the first index whose state fails the loop condition,
   or the fuel when there is none before; all earlier states satisfied the condition *)
Lemma run_done_spec fuel s s' :
  run cont step fuel s = Done s' ->
  exists K, K <= fuel /\ iter_n step K s = Some s' /\
            (forall j, j < K -> exists sj, iter_n step j s = Some sj /\ cont sj = true) /\
            (K = fuel \/ cont s' = false).
Proof.
  revert s; induction fuel as [|f IH]; intros s H; simpl in H.
  - inversion H; subst. exists 0. split; [lia|]. split; [reflexivity|]. split; [intros j Hj; lia|auto].
  - destruct (cont s) eqn:Ec.
    + destruct (step s) as [s1|] eqn:Es; [|discriminate].
      destruct (IH _ H) as (K & HK & Hit & Hall & Hend).
      exists (S K). split; [lia|]. split; [simpl; rewrite Es; exact Hit|]. split.
      * intros j Hj. destruct j as [|j]; [exists s; split; [reflexivity|exact Ec]|].
        destruct (Hall j ltac:(lia)) as (sj & H1 & H2). exists sj. split; [simpl; rewrite Es; exact H1|exact H2].
      * destruct Hend as [->|Hc]; [left; reflexivity|right; exact Hc].
    + inversion H; subst. exists 0. split; [lia|]. split; [reflexivity|]. split; [intros j Hj; lia|auto].
Qed.

Lemma run_broke_spec fuel s s' :
  run cont step fuel s = Broke s' ->
  exists K, K < fuel /\ iter_n step K s = Some s' /\ cont s' = true /\ step s' = None /\
            (forall j, j < K -> exists sj, iter_n step j s = Some sj /\ cont sj = true).
Proof.
  revert s; induction fuel as [|f IH]; intros s H; simpl in H; [discriminate|].
  destruct (cont s) eqn:Ec; [|discriminate].
  destruct (step s) as [s1|] eqn:Es.
  - destruct (IH _ H) as (K & HK & Hit & Hc & Hs & Hall).
    exists (S K). split; [lia|]. split; [simpl; rewrite Es; exact Hit|]. split; [exact Hc|]. split; [exact Hs|].
    intros j Hj. destruct j as [|j]; [exists s; split; [reflexivity|exact Ec]|].
    destruct (Hall j ltac:(lia)) as (sj & H1 & H2). exists sj. split; [simpl; rewrite Es; exact H1|exact H2].
  - inversion H; subst. exists 0. split; [lia|]. split; [reflexivity|]. split; [exact Ec|]. split; [exact Es|]. intros j Hj; lia.
Qed.

(* an invariant of the body that holds initially holds in the returned state *)
Lemma run_invariant (Inv : St -> Prop) :
  (forall s s', Inv s -> cont s = true -> step s = Some s' -> Inv s') ->
  forall fuel s, Inv s ->
  match run cont step fuel s with Done s' => Inv s' | Broke s' => Inv s' end.
Proof.
  intros Hstep fuel; induction fuel as [|f IH]; intros s Hs; simpl; [exact Hs|].
  destruct (cont s) eqn:Ec; [|exact Hs].
  destruct (step s) as [s1|] eqn:Es; [|exact Hs].
  apply IH. eapply Hstep; eauto.
Qed.

(* if the body cannot fail on states satisfying the invariant and the condition, the loop never breaks *)
Lemma run_no_break (Inv : St -> Prop) :
  (forall s s', Inv s -> cont s = true -> step s = Some s' -> Inv s') ->
  (forall s, Inv s -> cont s = true -> step s <> None) ->
  forall fuel s, Inv s -> exists s', run cont step fuel s = Done s'.
Proof.
  intros Hstep Hsafe fuel; induction fuel as [|f IH]; intros s Hs; simpl; [eexists; reflexivity|].
  destruct (cont s) eqn:Ec; [|eexists; reflexivity].
  destruct (step s) as [s1|] eqn:Es.
  - apply IH. eapply Hstep; eauto.
  - exfalso. eapply Hsafe; eauto.
Qed.

(* two loops whose conditions and bodies agree on the states satisfying an invariant return the same outcome *)
Lemma run_ext (cont2 : St -> bool) (step2 : St -> option St) (Inv : St -> Prop) :
  (forall s s', Inv s -> cont s = true -> step s = Some s' -> Inv s') ->
  (forall s, Inv s -> cont2 s = cont s) ->
  (forall s, Inv s -> cont s = true -> step2 s = step s) ->
  forall fuel s, Inv s -> run cont2 step2 fuel s = run cont step fuel s.
Proof.
  intros Hstep Hc Hs fuel; induction fuel as [|f IH]; intros s Hi; simpl; [reflexivity|].
  rewrite (Hc _ Hi). destruct (cont s) eqn:Ec; [|reflexivity].
  rewrite (Hs _ Hi Ec). destruct (step s) as [s1|] eqn:Es; [|reflexivity].
  apply IH. eapply Hstep; eauto.
Qed.
End LoopFacts.

(* ---------------- vectors over a field ---------------- *)
Section VecFacts.
Variable F : Type.
Variables (zero one : F) (add mul sub : F -> F -> F) (opp : F -> F) (div : F -> F -> F) (inv : F -> F).
Variable Fth : field_theory zero one add mul sub opp div inv (@eq F).
Add Field Ffield : Fth.
Variable tiny : F -> bool.

Notation "0" := zero.
Notation "1" := one.
Infix "+" := add.
Infix "*" := mul.
Infix "-" := sub.
Notation axpy := (axpy F add mul).
Notation vscale := (vscale F mul).
Notation vsub := (vsub F sub).
Notation inner := (inner F zero add mul).
Notation norm2sq := (norm2sq F zero add mul tiny).
Notation sumF := (sumf F zero add).
Notation zeros n := (repeat zero n).

Lemma fold_left_add l a : fold_left add l a = a + sumF l.
Proof. revert a; induction l as [|x l IH]; intros a; simpl; [ring|rewrite IH; ring]. Qed.

Lemma inner_sumf u v : inner u v = sumF (map2 mul u v).
Proof. unfold KDefs.inner. rewrite fold_left_add. ring. Qed.

Lemma inner_nil_l v : inner [] v = 0.
Proof. reflexivity. Qed.
Lemma inner_nil_r u : inner u [] = 0.
Proof. destruct u; reflexivity. Qed.
Lemma inner_cons a u b v : inner (a :: u) (b :: v) = a * b + inner u v.
Proof. rewrite !inner_sumf. reflexivity. Qed.

Lemma map2_length {A B C} (f : A -> B -> C) u v : length (map2 f u v) = Nat.min (length u) (length v).
Proof. revert v; induction u as [|a u IH]; intros [|b v]; simpl; auto. Qed.

Lemma axpy_length y x a : length y = length x -> length (axpy y x a) = length y.
Proof. intros H. unfold KDefs.axpy. rewrite map2_length. lia. Qed.
Lemma vsub_length u v : length u = length v -> length (vsub u v) = length u.
Proof. intros H. unfold KDefs.vsub. rewrite map2_length. lia. Qed.
Lemma vscale_length y a : length (vscale y a) = length y.
Proof. apply map_length. Qed.

Lemma inner_comm u v : inner u v = inner v u.
Proof.
  revert v; induction u as [|a u IH]; intros [|b v]; try reflexivity.
  rewrite !inner_cons, IH. ring.
Qed.

Lemma inner_axpy_l y x a w : length y = length x -> inner (axpy y x a) w = inner y w + a * inner x w.
Proof.
  revert x w; induction y as [|y0 y IH]; intros [|x0 x] [|w0 w] H; simpl in H; try discriminate;
    try (simpl; rewrite ?inner_nil_r, ?inner_nil_l; ring).
  change (axpy (y0 :: y) (x0 :: x) a) with ((y0 + x0 * a) :: axpy y x a).
  rewrite !inner_cons, IH by lia. ring.
Qed.

Lemma inner_axpy_r w y x a : length y = length x -> inner w (axpy y x a) = inner w y + a * inner w x.
Proof. intros H. rewrite inner_comm, inner_axpy_l by exact H. rewrite (inner_comm y), (inner_comm x). reflexivity. Qed.

Lemma inner_vscale_l y a w : inner (vscale y a) w = a * inner y w.
Proof.
  revert w; induction y as [|y0 y IH]; intros [|w0 w]; simpl; rewrite ?inner_nil_r, ?inner_nil_l; try ring.
  change (vscale (y0 :: y) a) with ((y0 * a) :: vscale y a).
  rewrite !inner_cons, IH. ring.
Qed.

Lemma inner_vscale_r w y a : inner w (vscale y a) = a * inner w y.
Proof. rewrite inner_comm, inner_vscale_l, inner_comm. reflexivity. Qed.

Lemma inner_zeros_r u n : inner u (zeros n) = 0.
Proof.
  revert n; induction u as [|a u IH]; intros [|n]; try reflexivity.
  simpl repeat. rewrite inner_cons, IH. ring.
Qed.
Lemma inner_zeros_l u n : inner (zeros n) u = 0.
Proof. rewrite inner_comm. apply inner_zeros_r. Qed.

Lemma inner_app u1 u2 v1 v2 : length u1 = length v1 ->
  inner (u1 ++ u2) (v1 ++ v2) = inner u1 v1 + inner u2 v2.
Proof.
  revert v1; induction u1 as [|a u1 IH]; intros [|b v1] H; simpl in H; try discriminate.
  - simpl. rewrite inner_nil_l. ring.
  - simpl app. rewrite !inner_cons, IH by lia. ring.
Qed.

(* b - (y + z a) = (b - y) + z (-a), entrywise; holds for the truncating zip without length conditions *)
Lemma vsub_axpy b y z a : vsub b (axpy y z a) = axpy (vsub b y) z (opp a).
Proof.
  unfold KDefs.vsub, KDefs.axpy.
  revert y z; induction b as [|b0 b IH]; intros [|y0 y] [|z0 z]; simpl; try reflexivity.
  f_equal; [ring|apply IH].
Qed.

Lemma vsub_as_axpy u v : vsub u v = axpy u v (opp 1).
Proof. unfold KDefs.vsub, KDefs.axpy. revert v; induction u as [|a u IH]; intros [|b v]; simpl; try reflexivity. f_equal; [ring|apply IH]. Qed.

Lemma vsub_self b : vsub b b = zeros (length b).
Proof. unfold KDefs.vsub. induction b as [|a b IH]; simpl; [reflexivity|]. f_equal; [ring|exact IH]. Qed.

Lemma axpy_zeros_r y n a : length y = n -> axpy y (zeros n) a = y.
Proof. unfold KDefs.axpy. revert n; induction y as [|y0 y IH]; intros [|n] H; simpl in *; try discriminate; try reflexivity. f_equal; [ring|apply IH; lia]. Qed.

Lemma axpy_app y1 y2 x1 x2 a : length y1 = length x1 ->
  axpy (y1 ++ y2) (x1 ++ x2) a = axpy y1 x1 a ++ axpy y2 x2 a.
Proof.
  unfold KDefs.axpy.
  revert x1; induction y1 as [|y0 y1 IH]; intros [|x0 x1] H; simpl in H; try discriminate; [reflexivity|].
  simpl. f_equal. apply IH. lia.
Qed.

(* the 2-norm with the zero_tol guard, as a sum *)
Definition gsq (x : F) : F := if tiny x then 0 else x * x.
Lemma norm2sq_sumf v : norm2sq v = sumF (map gsq v).
Proof.
  unfold KDefs.norm2sq.
  assert (G : forall a, fold_left (fun acc x => if tiny x then acc else acc + x * x) v a = a + sumF (map gsq v)).
  { induction v as [|x v IH]; intros a; simpl; [ring|]. rewrite IH. unfold gsq. destruct (tiny x); ring. }
  rewrite G. ring.
Qed.
Lemma norm2sq_app u v : norm2sq (u ++ v) = norm2sq u + norm2sq v.
Proof. rewrite !norm2sq_sumf, map_app. induction (map gsq u) as [|a l IH]; simpl; [ring|rewrite IH; ring]. Qed.
Lemma norm2sq_nil : norm2sq [] = 0.
Proof. reflexivity. Qed.
Lemma norm2sq_zeros n : norm2sq (zeros n) = 0.
Proof. rewrite norm2sq_sumf. induction n as [|n IH]; simpl; [reflexivity|]. rewrite IH. unfold gsq. destruct (tiny 0); ring. Qed.
(* without entries in the guard's window the guarded norm is the 2-norm *)
Lemma norm2sq_exact v : (forall a, In a v -> tiny a = true -> a = 0) -> norm2sq v = inner v v.
Proof.
  intros H. rewrite norm2sq_sumf. induction v as [|a v IH]; [reflexivity|].
  rewrite inner_cons. simpl. rewrite IH by (intros; apply H; [right|]; assumption).
  unfold gsq. destruct (tiny a) eqn:E; [|reflexivity]. rewrite (H a (or_introl eq_refl) E). ring.
Qed.

(* ---- distributed kernels = kernels on the assembled vector ---- *)
Notation dinner := (dinner F zero add mul).
Notation dnorm2sq := (dnorm2sq F zero add mul tiny).
Notation daxpy := (daxpy F add mul).
Notation dscale := (dscale F mul).
Definition psum (parts : list nat) : nat := fold_right Nat.add O parts.

Lemma firstn_skipn_len {A} n (l : list A) m : length l = (n + m)%nat -> length (firstn n l) = n /\ length (skipn n l) = m.
Proof. intros H. rewrite firstn_length, skipn_length. lia. Qed.

Lemma dinner_assembled parts u v :
  length u = psum parts -> length v = psum parts -> dinner parts u v = inner u v.
Proof.
  unfold KDefs.dinner, allreduce_sum.
  revert u v; induction parts as [|n ps IH]; intros u v Hu Hv; simpl in *.
  - destruct u; [|discriminate]. reflexivity.
  - destruct (firstn_skipn_len n u _ Hu) as [Hu1 Hu2]. destruct (firstn_skipn_len n v _ Hv) as [Hv1 Hv2].
    rewrite IH by assumption.
    transitivity (inner (firstn n u ++ skipn n u) (firstn n v ++ skipn n v)); [|rewrite !firstn_skipn; reflexivity].
    rewrite inner_app by congruence.
    destruct (firstn n u) eqn:E; [rewrite inner_nil_l|]; reflexivity.
Qed.

Lemma dnorm2sq_assembled parts v : length v = psum parts -> dnorm2sq parts v = norm2sq v.
Proof.
  unfold KDefs.dnorm2sq, allreduce_sum.
  revert v; induction parts as [|n ps IH]; intros v Hv; simpl in *.
  - destruct v; [|discriminate]. reflexivity.
  - destruct (firstn_skipn_len n v _ Hv) as [Hv1 Hv2].
    rewrite IH by assumption.
    transitivity (norm2sq (firstn n v ++ skipn n v)); [|rewrite firstn_skipn; reflexivity].
    rewrite norm2sq_app.
    destruct (firstn n v) eqn:E; reflexivity.
Qed.

Lemma daxpy_assembled parts y x a :
  length y = psum parts -> length x = psum parts -> daxpy parts y x a = axpy y x a.
Proof.
  unfold KDefs.daxpy.
  revert y x; induction parts as [|n ps IH]; intros y x Hy Hx; simpl in *.
  - destruct y; [|discriminate]. reflexivity.
  - destruct (firstn_skipn_len n y _ Hy) as [Hy1 Hy2]. destruct (firstn_skipn_len n x _ Hx) as [Hx1 Hx2].
    rewrite IH by assumption.
    transitivity (axpy (firstn n y ++ skipn n y) (firstn n x ++ skipn n x) a); [|rewrite !firstn_skipn; reflexivity].
    rewrite axpy_app by congruence.
    destruct (firstn n y) eqn:E; reflexivity.
Qed.

Lemma dscale_assembled parts y a : length y = psum parts -> dscale parts y a = vscale y a.
Proof.
  unfold KDefs.dscale.
  revert y; induction parts as [|n ps IH]; intros y Hy; simpl in *.
  - destruct y; [|discriminate]. reflexivity.
  - destruct (firstn_skipn_len n y _ Hy) as [Hy1 Hy2].
    rewrite IH by assumption.
    transitivity (vscale (firstn n y ++ skipn n y) a); [|rewrite firstn_skipn; reflexivity].
    unfold KDefs.vscale. rewrite map_app.
    destruct (firstn n y) eqn:E; reflexivity.
Qed.

End VecFacts.
