(* Proofs about the Krylov models of KDefs.v. *)
From Coq Require Import Field.
From Raptor Require Import Base.Sums Krylov.KDefs.

(* ---------------- the bounded loop ---------------- *)
Section LoopFacts.
Variable St : Type.
Variable cont : St -> bool.
Variable step : St -> option St.

(* `run` returns the K-th iterate of the body, where K is the first index whose state fails the loop condition,
   or the fuel when there is none before; all earlier states satisfied the condition *)
Lemma run_done_spec fuel s s' :
  run cont step fuel s = Done s' ->
  exists K, K <= fuel /\ iter_n step K s = Some s' /\
            (forall j, j < K -> exists sj, iter_n step j s = Some sj /\ cont sj = true) /\
            (K = fuel \/ cont s' = false).
Proof.
  revert s; induction fuel as [|f IH]; intros s H; simpl in H.
  - inversion H; subst. exists 0. split; [lia|]. split; [reflexivity|]. split; [intros j Hj; lia|auto].
  - destruct (cont s) eqn:Ec.
    + destruct (step s) as [s1|] eqn:Es; [|discriminate].
      destruct (IH _ H) as (K & HK & Hit & Hall & Hend).
      exists (S K). split; [lia|]. split; [simpl; rewrite Es; exact Hit|]. split.
      * intros j Hj. destruct j as [|j]; [exists s; split; [reflexivity|exact Ec]|].
        destruct (Hall j ltac:(lia)) as (sj & H1 & H2). exists sj. split; [simpl; rewrite Es; exact H1|exact H2].
      * destruct Hend as [->|Hc]; [left; reflexivity|right; exact Hc].
    + inversion H; subst. exists 0. split; [lia|]. split; [reflexivity|]. split; [intros j Hj; lia|auto].
Qed.

Lemma run_broke_spec fuel s s' :
  run cont step fuel s = Broke s' ->
  exists K, K < fuel /\ iter_n step K s = Some s' /\ cont s' = true /\ step s' = None /\
            (forall j, j < K -> exists sj, iter_n step j s = Some sj /\ cont sj = true).
Proof.
  revert s; induction fuel as [|f IH]; intros s H; simpl in H; [discriminate|].
  destruct (cont s) eqn:Ec; [|discriminate].
  destruct (step s) as [s1|] eqn:Es.
  - destruct (IH _ H) as (K & HK & Hit & Hc & Hs & Hall).
    exists (S K). split; [lia|]. split; [simpl; rewrite Es; exact Hit|]. split; [exact Hc|]. split; [exact Hs|].
    intros j Hj. destruct j as [|j]; [exists s; split; [reflexivity|exact Ec]|].
    destruct (Hall j ltac:(lia)) as (sj & H1 & H2). exists sj. split; [simpl; rewrite Es; exact H1|exact H2].
  - inversion H; subst. exists 0. split; [lia|]. split; [reflexivity|]. split; [exact Ec|]. split; [exact Es|]. intros j Hj; lia.
Qed.

(* an invariant of the body that holds initially holds in the returned state *)
Lemma run_invariant (Inv : St -> Prop) :
  (forall s s', Inv s -> cont s = true -> step s = Some s' -> Inv s') ->
  forall fuel s, Inv s ->
  match run cont step fuel s with Done s' => Inv s' | Broke s' => Inv s' end.
Proof.
  intros Hstep fuel; induction fuel as [|f IH]; intros s Hs; simpl; [exact Hs|].
  destruct (cont s) eqn:Ec; [|exact Hs].
  destruct (step s) as [s1|] eqn:Es; [|exact Hs].
  apply IH. eapply Hstep; eauto.
Qed.

(* if the body cannot fail on states satisfying the invariant and the condition, the loop never breaks *)
Lemma run_no_break (Inv : St -> Prop) :
  (forall s s', Inv s -> cont s = true -> step s = Some s' -> Inv s') ->
  (forall s, Inv s -> cont s = true -> step s <> None) ->
  forall fuel s, Inv s -> exists s', run cont step fuel s = Done s'.
Proof.
  intros Hstep Hsafe fuel; induction fuel as [|f IH]; intros s Hs; simpl; [eexists; reflexivity|].
  destruct (cont s) eqn:Ec; [|eexists; reflexivity].
  destruct (step s) as [s1|] eqn:Es.
  - apply IH. eapply Hstep; eauto.
  - exfalso. eapply Hsafe; eauto.
Qed.

(* two loops whose conditions and bodies agree on the states satisfying an invariant return the same outcome *)
Lemma run_ext (cont2 : St -> bool) (step2 : St -> option St) (Inv : St -> Prop) :
  (forall s s', Inv s -> cont s = true -> step s = Some s' -> Inv s') ->
  (forall s, Inv s -> cont2 s = cont s) ->
  (forall s, Inv s -> cont s = true -> step2 s = step s) ->
  forall fuel s, Inv s -> run cont2 step2 fuel s = run cont step fuel s.
Proof.
  intros Hstep Hc Hs fuel; induction fuel as [|f IH]; intros s Hi; simpl; [reflexivity|].
  rewrite (Hc _ Hi). destruct (cont s) eqn:Ec; [|reflexivity].
  rewrite (Hs _ Hi Ec). destruct (step s) as [s1|] eqn:Es; [|reflexivity].
  apply IH. eapply Hstep; eauto.
Qed.
Lemma iter_n_add j m s :
  iter_n step (j + m) s = match iter_n step j s with Some sj => iter_n step m sj | None => None end.
Proof.
  revert s; induction j as [|j IH]; intros s; simpl; [reflexivity|].
  destruct (step s) as [s1|]; [apply IH|reflexivity].
Qed.

Lemma iter_n_prefix K s sK j : iter_n step K s = Some sK -> j <= K ->
  exists sj, iter_n step j s = Some sj /\ iter_n step (K - j) sj = Some sK.
Proof.
  intros H Hj. replace K with (j + (K - j)) in H by lia. rewrite iter_n_add in H.
  destruct (iter_n step j s) as [sj|]; [|discriminate]. exists sj. split; [reflexivity|exact H].
Qed.

(* a property preserved by every successful step holds along the iterates *)
Lemma iter_n_invariant (Inv : St -> Prop) :
  (forall s s', Inv s -> step s = Some s' -> Inv s') ->
  forall k s s', Inv s -> iter_n step k s = Some s' -> Inv s'.
Proof.
  intros Hstep k; induction k as [|k IH]; intros s s' Hs H; simpl in H.
  - inversion H; subst; exact Hs.
  - destruct (step s) as [s1|] eqn:Es; [|discriminate]. eapply IH; [|exact H]. eapply Hstep; eauto.
Qed.
End LoopFacts.

(* ---------------- vectors over a field ---------------- *)
Section VecFacts.
Variable F : Type.
Variables (zero one : F) (add mul sub : F -> F -> F) (opp : F -> F) (div : F -> F -> F) (inv : F -> F).
Variable Fth : field_theory zero one add mul sub opp div inv (@eq F).
Add Field Ffield : Fth.

Notation "0" := zero.
Notation "1" := one.
Infix "+" := add.
Infix "*" := mul.
Infix "-" := sub.
Notation axpy := (axpy F add mul).
Notation vscale := (vscale F mul).
Notation vsub := (vsub F sub).
Notation inner := (inner F zero add mul).
Notation norm2sq := (norm2sq F zero add mul).
Notation sumF := (sumf F zero add).
Notation zeros n := (repeat zero n).

Lemma fold_left_add l a : fold_left add l a = a + sumF l.
Proof. revert a; induction l as [|x l IH]; intros a; simpl; [ring|rewrite IH; ring]. Qed.

Lemma inner_sumf u v : inner u v = sumF (map2 mul u v).
Proof. unfold KDefs.inner. rewrite fold_left_add. ring. Qed.

Lemma inner_nil_l v : inner [] v = 0.
Proof. reflexivity. Qed.
Lemma inner_nil_r u : inner u [] = 0.
Proof. destruct u; reflexivity. Qed.
Lemma inner_cons a u b v : inner (a :: u) (b :: v) = a * b + inner u v.
Proof. rewrite !inner_sumf. reflexivity. Qed.

Lemma map2_length {A B C} (f : A -> B -> C) u v : length (map2 f u v) = Nat.min (length u) (length v).
Proof. revert v; induction u as [|a u IH]; intros [|b v]; simpl; auto. Qed.

Lemma axpy_length y x a : length y = length x -> length (axpy y x a) = length y.
Proof. intros H. unfold KDefs.axpy. rewrite map2_length. lia. Qed.
Lemma vsub_length u v : length u = length v -> length (vsub u v) = length u.
Proof. intros H. unfold KDefs.vsub. rewrite map2_length. lia. Qed.
Lemma vscale_length y a : length (vscale y a) = length y.
Proof. apply map_length. Qed.

Lemma inner_comm u v : inner u v = inner v u.
Proof.
  revert v; induction u as [|a u IH]; intros [|b v]; try reflexivity.
  rewrite !inner_cons, IH. ring.
Qed.

Lemma inner_axpy_l y x a w : length y = length x -> inner (axpy y x a) w = inner y w + a * inner x w.
Proof.
  revert x w; induction y as [|y0 y IH]; intros [|x0 x] [|w0 w] H; simpl in H; try discriminate;
    try (simpl; rewrite ?inner_nil_r, ?inner_nil_l; ring).
  change (axpy (y0 :: y) (x0 :: x) a) with ((y0 + x0 * a) :: axpy y x a).
  rewrite !inner_cons, IH by lia. ring.
Qed.

Lemma inner_axpy_r w y x a : length y = length x -> inner w (axpy y x a) = inner w y + a * inner w x.
Proof. intros H. rewrite inner_comm, inner_axpy_l by exact H. rewrite (inner_comm y), (inner_comm x). reflexivity. Qed.

Lemma inner_vscale_l y a w : inner (vscale y a) w = a * inner y w.
Proof.
  revert w; induction y as [|y0 y IH]; intros [|w0 w]; simpl; rewrite ?inner_nil_r, ?inner_nil_l; try ring.
  change (vscale (y0 :: y) a) with ((y0 * a) :: vscale y a).
  rewrite !inner_cons, IH. ring.
Qed.

Lemma inner_vscale_r w y a : inner w (vscale y a) = a * inner w y.
Proof. rewrite inner_comm, inner_vscale_l, inner_comm. reflexivity. Qed.

Lemma inner_zeros_r u n : inner u (zeros n) = 0.
Proof.
  revert n; induction u as [|a u IH]; intros [|n]; try reflexivity.
  simpl repeat. rewrite inner_cons, IH. ring.
Qed.
Lemma inner_zeros_l u n : inner (zeros n) u = 0.
Proof. rewrite inner_comm. apply inner_zeros_r. Qed.

Lemma inner_app u1 u2 v1 v2 : length u1 = length v1 ->
  inner (u1 ++ u2) (v1 ++ v2) = inner u1 v1 + inner u2 v2.
Proof.
  revert v1; induction u1 as [|a u1 IH]; intros [|b v1] H; simpl in H; try discriminate.
  - simpl. rewrite inner_nil_l. ring.
  - simpl app. rewrite !inner_cons, IH by lia. ring.
Qed.

(* b - (y + z a) = (b - y) + z (-a), entrywise; holds for the truncating zip without length conditions *)
Lemma vsub_axpy b y z a : vsub b (axpy y z a) = axpy (vsub b y) z (opp a).
Proof.
  unfold KDefs.vsub, KDefs.axpy.
  revert y z; induction b as [|b0 b IH]; intros [|y0 y] [|z0 z]; simpl; try reflexivity.
  f_equal; [ring|apply IH].
Qed.

Lemma vsub_as_axpy u v : vsub u v = axpy u v (opp 1).
Proof. unfold KDefs.vsub, KDefs.axpy. revert v; induction u as [|a u IH]; intros [|b v]; simpl; try reflexivity. f_equal; [ring|apply IH]. Qed.

Lemma vsub_self b : vsub b b = zeros (length b).
Proof. unfold KDefs.vsub. induction b as [|a b IH]; simpl; [reflexivity|]. f_equal; [ring|exact IH]. Qed.

Lemma axpy_zeros_r y n a : length y = n -> axpy y (zeros n) a = y.
Proof. unfold KDefs.axpy. revert n; induction y as [|y0 y IH]; intros [|n] H; simpl in *; try discriminate; try reflexivity. f_equal; [ring|apply IH; lia]. Qed.

Lemma axpy_app y1 y2 x1 x2 a : length y1 = length x1 ->
  axpy (y1 ++ y2) (x1 ++ x2) a = axpy y1 x1 a ++ axpy y2 x2 a.
Proof.
  unfold KDefs.axpy.
  revert x1; induction y1 as [|y0 y1 IH]; intros [|x0 x1] H; simpl in H; try discriminate; [reflexivity|].
  simpl. f_equal. apply IH. lia.
Qed.

(* the 2-norm squared as a sum *)
Definition gsq (x : F) : F := x * x.
Lemma norm2sq_sumf v : norm2sq v = sumF (map gsq v).
Proof.
  unfold KDefs.norm2sq.
  assert (G : forall a, fold_left (fun acc x => acc + x * x) v a = a + sumF (map gsq v)).
  { induction v as [|x v IH]; intros a; simpl; [ring|]. rewrite IH. unfold gsq. ring. }
  rewrite G. ring.
Qed.
Lemma norm2sq_app u v : norm2sq (u ++ v) = norm2sq u + norm2sq v.
Proof. rewrite !norm2sq_sumf, map_app. induction (map gsq u) as [|a l IH]; simpl; [ring|rewrite IH; ring]. Qed.
Lemma norm2sq_nil : norm2sq [] = 0.
Proof. reflexivity. Qed.
Lemma norm2sq_zeros n : norm2sq (zeros n) = 0.
Proof. rewrite norm2sq_sumf. induction n as [|n IH]; simpl; [reflexivity|]. rewrite IH. unfold gsq. ring. Qed.
(* Vector::norm(2)^2 is the inner product of the vector with itself *)
Lemma norm2sq_inner v : norm2sq v = inner v v.
Proof.
  rewrite norm2sq_sumf. induction v as [|a v IH]; [reflexivity|].
  rewrite inner_cons. simpl. rewrite IH. unfold gsq. reflexivity.
Qed.

(* ---- distributed kernels = kernels on the assembled vector ---- *)
Notation dinner := (dinner F zero add mul).
Notation dnorm2sq := (dnorm2sq F zero add mul).
Notation daxpy := (daxpy F add mul).
Notation dscale := (dscale F mul).
Definition psum (parts : list nat) : nat := fold_right Nat.add O parts.

Lemma firstn_skipn_len {A} n (l : list A) m : length l = (n + m)%nat -> length (firstn n l) = n /\ length (skipn n l) = m.
Proof. intros H. rewrite firstn_length, skipn_length. lia. Qed.

Lemma dinner_assembled parts u v :
  length u = psum parts -> length v = psum parts -> dinner parts u v = inner u v.
Proof.
  unfold KDefs.dinner, allreduce_sum.
  revert u v; induction parts as [|n ps IH]; intros u v Hu Hv; simpl in *.
  - destruct u; [|discriminate]. reflexivity.
  - destruct (firstn_skipn_len n u _ Hu) as [Hu1 Hu2]. destruct (firstn_skipn_len n v _ Hv) as [Hv1 Hv2].
    rewrite IH by assumption.
    transitivity (inner (firstn n u ++ skipn n u) (firstn n v ++ skipn n v)); [|rewrite !firstn_skipn; reflexivity].
    rewrite inner_app by congruence.
    destruct (firstn n u) eqn:E; [rewrite inner_nil_l|]; reflexivity.
Qed.

Lemma dnorm2sq_assembled parts v : length v = psum parts -> dnorm2sq parts v = norm2sq v.
Proof.
  unfold KDefs.dnorm2sq, allreduce_sum.
  revert v; induction parts as [|n ps IH]; intros v Hv; simpl in *.
  - destruct v; [|discriminate]. reflexivity.
  - destruct (firstn_skipn_len n v _ Hv) as [Hv1 Hv2].
    rewrite IH by assumption.
    transitivity (norm2sq (firstn n v ++ skipn n v)); [|rewrite firstn_skipn; reflexivity].
    rewrite norm2sq_app.
    destruct (firstn n v) eqn:E; reflexivity.
Qed.

Lemma daxpy_assembled parts y x a :
  length y = psum parts -> length x = psum parts -> daxpy parts y x a = axpy y x a.
Proof.
  unfold KDefs.daxpy.
  revert y x; induction parts as [|n ps IH]; intros y x Hy Hx; simpl in *.
  - destruct y; [|discriminate]. reflexivity.
  - destruct (firstn_skipn_len n y _ Hy) as [Hy1 Hy2]. destruct (firstn_skipn_len n x _ Hx) as [Hx1 Hx2].
    rewrite IH by assumption.
    transitivity (axpy (firstn n y ++ skipn n y) (firstn n x ++ skipn n x) a); [|rewrite !firstn_skipn; reflexivity].
    rewrite axpy_app by congruence.
    destruct (firstn n y) eqn:E; reflexivity.
Qed.

Lemma dscale_assembled parts y a : length y = psum parts -> dscale parts y a = vscale y a.
Proof.
  unfold KDefs.dscale.
  revert y; induction parts as [|n ps IH]; intros y Hy; simpl in *.
  - destruct y; [|discriminate]. reflexivity.
  - destruct (firstn_skipn_len n y _ Hy) as [Hy1 Hy2].
    rewrite IH by assumption.
    transitivity (vscale (firstn n y ++ skipn n y) a); [|rewrite firstn_skipn; reflexivity].
    unfold KDefs.vscale. rewrite map_app.
    destruct (firstn n y) eqn:E; reflexivity.
Qed.

End VecFacts.

(* ---------------- ordered fields: the few consequences the solver statements need ---------------- *)
Section OrdFacts.
Variable F : Type.
Variables (zero one : F) (add mul sub : F -> F -> F) (opp : F -> F) (div : F -> F -> F) (inv : F -> F).
Variable Fth : field_theory zero one add mul sub opp div inv (@eq F).
Add Field Ffield3 : Fth.
Variable le : F -> F -> Prop.
Hypothesis le_refl : forall a, le a a.
Hypothesis le_antisym : forall a c, le a c -> le c a -> a = c.
Hypothesis le_trans : forall a c d, le a c -> le c d -> le a d.
Hypothesis le_total : forall a c, le a c \/ le c a.
Hypothesis le_add : forall a c d, le a c -> le (add a d) (add c d).
Hypothesis le_mul : forall a c, le zero a -> le zero c -> le zero (mul a c).

Notation "0" := zero.
Notation "1" := one.
Infix "+" := add.
Infix "*" := mul.
Infix "-" := sub.
Infix "/" := div.
Infix "<=" := le.
Definition flt (a c : F) : Prop := a <= c /\ a <> c.
Infix "<" := flt.

Lemma opp_nonneg a : a <= 0 -> 0 <= opp a.
Proof. intros H. apply (le_add _ _ (opp a)) in H. replace (a + opp a) with 0 in H by ring. replace (0 + opp a) with (opp a) in H by ring. exact H. Qed.

Lemma sq_nonneg a : 0 <= a * a.
Proof.
  destruct (le_total 0 a) as [H|H]; [apply le_mul; exact H|].
  replace (a * a) with (opp a * opp a) by ring. apply le_mul; apply opp_nonneg; exact H.
Qed.

Lemma add_nonneg a c : 0 <= a -> 0 <= c -> 0 <= a + c.
Proof.
  intros Ha Hc. apply le_trans with (0 + c); [replace (0 + c) with c by ring; exact Hc|]. apply le_add. exact Ha.
Qed.

Lemma one_nonneg : 0 <= 1.
Proof. replace 1 with (1 * 1) by ring. apply sq_nonneg. Qed.

Lemma lt_irrefl a : ~ a < a.
Proof. intros [_ H]. apply H. reflexivity. Qed.
Lemma le_lt_trans a c d : a <= c -> c < d -> a < d.
Proof. intros H1 [H2 H3]. split; [eapply le_trans; eauto|]. intros ->. apply H3. apply le_antisym; assumption. Qed.
Lemma lt_not_le a c : a < c -> ~ c <= a.
Proof. intros [H1 H2] H3. apply H2. apply le_antisym; assumption. Qed.

Lemma inv_nonneg c : 0 < c -> 0 <= inv c.
Proof.
  intros [Hc Hne]. destruct (le_total 0 (inv c)) as [H|H]; [exact H|exfalso].
  assert (Hc0 : c <> 0) by (intros E; apply Hne; symmetry; exact E).
  pose proof (le_mul _ _ Hc (opp_nonneg _ H)) as H1.
  replace (c * opp (inv c)) with (opp 1) in H1 by (field; exact Hc0).
  apply (le_add _ _ 1) in H1. replace (0 + 1) with 1 in H1 by ring. replace (opp 1 + 1) with 0 in H1 by ring.
  apply (F_1_neq_0 Fth). apply le_antisym; [exact H1|exact one_nonneg].
Qed.

Lemma div_nonneg a c : 0 <= a -> 0 < c -> 0 <= a / c.
Proof.
  intros Ha Hc. assert (Hc0 : c <> 0) by (intros E; destruct Hc as [_ Hne]; apply Hne; symmetry; exact E).
  replace (a / c) with (a * inv c) by (field; exact Hc0). apply le_mul; [exact Ha|apply inv_nonneg; exact Hc].
Qed.

Lemma sub_nonneg_le a q : 0 <= q -> a - q <= a.
Proof.
  intros H. apply (le_add _ _ (a - q)) in H. replace (0 + (a - q)) with (a - q) in H by ring.
  replace (q + (a - q)) with a in H by ring. exact H.
Qed.

Notation inner := (inner F zero add mul).
Lemma inner_self_nonneg v : 0 <= inner v v.
Proof.
  induction v as [|a v IH]; [apply le_refl|].
  rewrite (inner_cons F zero one add mul sub opp div inv Fth). apply add_nonneg; [apply sq_nonneg|exact IH].
Qed.
End OrdFacts.

(* ---------------- the solvers over a field, operator = abstract linear map ---------------- *)
Section SolverFacts.
Variable F : Type.
Variables (zero one : F) (add mul sub : F -> F -> F) (opp : F -> F) (div : F -> F -> F) (inv : F -> F).
Variable Fth : field_theory zero one add mul sub opp div inv (@eq F).
Add Field Ffield2 : Fth.
Variables (eqb ltb : F -> F -> bool).
Hypothesis eqb_spec : forall a c, eqb a c = true <-> a = c.

Notation "0" := zero.
Notation "1" := one.
Infix "+" := add.
Infix "*" := mul.
Infix "-" := sub.
Infix "/" := div.
Notation axpy := (axpy F add mul).
Notation vscale := (vscale F mul).
Notation vsub := (vsub F sub).
Notation inner := (inner F zero add mul).
Notation norm2sq := (norm2sq F zero add mul).
Notation zeros n := (repeat zero n).
Notation fdiv := (fdiv F zero div eqb).
Notation sops := (seq_ops F zero add mul).

Variable n : nat.
Variable mulA : list F -> list F.
Variable residA : list F -> list F -> list F.
Variable b : list F.
Hypothesis Hb : length b = n.
Hypothesis mulA_len : forall x, length x = n -> length (mulA x) = n.
Hypothesis mulA_lin : forall x p a, length x = n -> length p = n ->
  mulA (axpy x p a) = axpy (mulA x) (mulA p) a.
Hypothesis residA_spec : forall x, length x = n -> residA x b = vsub b (mulA x).

Lemma fdiv_some a c q : fdiv a c = Some q -> c <> 0 /\ q = a / c.
Proof.
  unfold KDefs.fdiv. destruct (eqb c 0) eqn:E; [discriminate|]. intros H; inversion H; subst q.
  split; [|reflexivity]. intros ->. assert (eqb 0 0 = true) by (apply eqb_spec; reflexivity). congruence.
Qed.
Lemma fdiv_zero a : fdiv a 0 = None.
Proof. unfold KDefs.fdiv. replace (eqb 0 0) with true; [reflexivity|]. symmetry; apply eqb_spec; reflexivity. Qed.
Lemma fdiv_nonzero a c : c <> 0 -> fdiv a c = Some (a / c).
Proof. intros H. unfold KDefs.fdiv. destruct (eqb c 0) eqn:E; [|reflexivity]. apply eqb_spec in E. contradiction. Qed.

Lemma residA_len x : length x = n -> length (residA x b) = n.
Proof. intros H. rewrite residA_spec by exact H. rewrite (vsub_length F sub); [exact Hb|]. rewrite mulA_len by exact H. exact Hb. Qed.

(* the recurrence update of the residual is the recomputed residual *)
Lemma resid_update x p a : length x = n -> length p = n ->
  residA (axpy x p a) b = axpy (residA x b) (mulA p) (opp 1 * a).
Proof.
  intros Hx Hp.
  rewrite residA_spec by (rewrite (axpy_length F add mul); congruence).
  rewrite mulA_lin by assumption. rewrite (vsub_axpy F zero one add mul sub opp div inv Fth).
  rewrite <- residA_spec by exact Hx. f_equal. ring.
Qed.

Lemma axpy_self_neg (m : list F) : axpy m m (opp 1) = zeros (length m).
Proof. unfold KDefs.axpy. induction m as [|a m IH]; [reflexivity|]. simpl. f_equal; [ring|exact IH]. Qed.

Lemma mulA_zeros : mulA (zeros n) = zeros n.
Proof.
  assert (L : length (zeros n) = n) by apply repeat_length.
  pose proof (mulA_lin (zeros n) (zeros n) (opp 1) L L) as H.
  rewrite (axpy_zeros_r F zero one add mul sub opp div inv Fth) in H by exact L.
  rewrite axpy_self_neg, (mulA_len _ L) in H. exact H.
Qed.

(* ======== CG ======== *)
Notation cgstep := (cg_step F zero one mul opp div eqb ltb mulA residA sops b).
Notation cginit := (cg_init F residA sops b).

Definition cg_inv (s : cg_state F) : Prop :=
  length (cg_x s) = n /\ length (cg_r s) = n /\ length (cg_p s) = n /\
  cg_r s = vsub b (mulA (cg_x s)) /\                      (* the carried residual is the true residual *)
  cg_rr s = inner (cg_r s) (cg_r s) /\
  inner (cg_r s) (cg_p s) = cg_rr s /\                    (* local orthogonality <r_k, p_k> = <r_k, r_k> *)
  exists pre, cg_hist s = pre ++ [cg_rr s] /\ length pre = cg_iter s.   (* last reported = current *)

Lemma cg_init_inv x0 : length x0 = n -> cg_inv (cginit x0).
Proof.
  intros H. unfold KDefs.cg_init, cg_inv; cbn [cg_x cg_r cg_p cg_rr cg_iter cg_hist cg_indef o_inner seq_ops].
  pose proof (residA_len x0 H) as L.
  split; [exact H|]. split; [exact L|]. split; [exact L|]. split; [apply residA_spec; exact H|].
  split; [reflexivity|]. split; [reflexivity|]. exists []. split; reflexivity.
Qed.

Lemma cg_step_inv s s' : cg_inv s -> cgstep s = Some s' -> cg_inv s'.
Proof.
  intros (Hx & Hr & Hp & Hres & Hrr & Horth & pre & Hh & Hpre) Hs.
  unfold KDefs.cg_step in Hs; cbn [o_inner o_axpy o_scale seq_ops] in Hs.
  destruct (ltb (inner (mulA (cg_p s)) (cg_p s)) 0).
  { inversion Hs; subst s'; unfold cg_inv; simpl. repeat split; auto. exists pre; split; assumption. }
  destruct (fdiv (cg_rr s) (inner (mulA (cg_p s)) (cg_p s))) as [alpha|] eqn:Ea; [|discriminate].
  apply fdiv_some in Ea. destruct Ea as [HApp ->].
  set (App := inner (mulA (cg_p s)) (cg_p s)) in *.
  set (alpha := cg_rr s / App) in *.
  set (x' := axpy (cg_x s) (cg_p s) alpha) in *.
  assert (Hx' : length x' = n) by (unfold x'; rewrite (axpy_length F add mul); congruence).
  assert (HAp : length (mulA (cg_p s)) = n) by (apply mulA_len; exact Hp).
  (* both branches of the residual update give the same vector *)
  assert (Er : (if Nat.eqb (cg_iter s mod 8) 0 then residA x' b
                else axpy (cg_r s) (mulA (cg_p s)) (opp 1 * alpha)) = axpy (cg_r s) (mulA (cg_p s)) (opp 1 * alpha)).
  { destruct (Nat.eqb (cg_iter s mod 8) 0); [|reflexivity].
    unfold x'. rewrite resid_update by assumption. rewrite residA_spec by exact Hx. rewrite <- Hres. reflexivity. }
  rewrite Er in Hs.
  assert (Er2 : axpy (cg_r s) (mulA (cg_p s)) (opp 1 * alpha) = vsub b (mulA x')).
  { unfold x'. rewrite <- residA_spec by exact Hx'. unfold x'. rewrite resid_update by assumption.
    rewrite residA_spec by exact Hx. rewrite <- Hres. reflexivity. }
  set (r' := axpy (cg_r s) (mulA (cg_p s)) (opp 1 * alpha)) in *.
  assert (Hr' : length r' = n) by (unfold r'; rewrite (axpy_length F add mul); congruence).
  destruct (fdiv (inner r' r') (cg_rr s)) as [beta|] eqn:Eb; [|discriminate].
  apply fdiv_some in Eb. destruct Eb as [Hrrnz ->].
  inversion Hs; subst s'; unfold cg_inv; simpl.
  assert (Hsc : length (vscale (cg_p s) (inner r' r' / cg_rr s)) = n) by (rewrite vscale_length; exact Hp).
  split; [exact Hx'|]. split; [exact Hr'|].
  split; [rewrite (axpy_length F add mul); congruence|].
  split; [exact Er2|]. split; [reflexivity|].
  split.
  - (* <r', p'> = <r', r'> because <r', p> = 0 *)
    rewrite (inner_axpy_r F zero one add mul sub opp div inv Fth) by congruence.
    rewrite (inner_vscale_r F zero one add mul sub opp div inv Fth).
    assert (Z : inner r' (cg_p s) = 0).
    { unfold r'. rewrite (inner_axpy_l F zero one add mul sub opp div inv Fth) by congruence.
      rewrite Horth. fold App. unfold alpha. field. exact HApp. }
    rewrite Z. ring.
  - exists (pre ++ [cg_rr s]). split; [rewrite Hh; reflexivity|]. rewrite app_length, Hpre. simpl. lia.
Qed.

(* one CG step, spelled out: what the new iterate and residual are *)
Lemma cg_step_shape s s' : cg_inv s -> cgstep s = Some s' -> cg_indef s' = false ->
  let App := inner (mulA (cg_p s)) (cg_p s) in
  App <> 0 /\ cg_x s' = axpy (cg_x s) (cg_p s) (cg_rr s / App) /\ cg_iter s' = S (cg_iter s) /\
  cg_hist s' = cg_hist s ++ [cg_rr s'].
Proof.
  intros (Hx & Hr & Hp & Hres & Hrr & Horth & pre & Hh & Hpre) Hs Hind.
  unfold KDefs.cg_step in Hs; cbn [o_inner o_axpy o_scale seq_ops] in Hs.
  destruct (ltb (inner (mulA (cg_p s)) (cg_p s)) 0).
  { inversion Hs; subst s'; simpl in Hind; discriminate. }
  destruct (fdiv (cg_rr s) (inner (mulA (cg_p s)) (cg_p s))) as [alpha|] eqn:Ea; [|discriminate].
  apply fdiv_some in Ea. destruct Ea as [HApp ->].
  match type of Hs with context [fdiv ?a ?c] => destruct (fdiv a c) as [beta|]; [|discriminate] end.
  inversion Hs; subst s'; simpl. repeat split; auto.
Qed.

(* ---- energy norm of the error ---- *)
Variable xs : list F.                         (* the solution *)
Hypothesis Hxs : length xs = n.
Hypothesis Hsol : mulA xs = b.
Hypothesis mulA_sym : forall u v, length u = n -> length v = n -> inner (mulA u) v = inner u (mulA v).

Definition err (x : list F) : list F := vsub xs x.
Definition energy (x : list F) : F := inner (mulA (err x)) (err x).     (* ||x* - x||_A^2 *)

Lemma mulA_err x : length x = n -> mulA (err x) = vsub b (mulA x).
Proof.
  intros H. unfold err. rewrite (vsub_as_axpy F zero one add mul sub opp div inv Fth).
  rewrite mulA_lin by assumption. rewrite Hsol. rewrite <- (vsub_as_axpy F zero one add mul sub opp div inv Fth). reflexivity.
Qed.

Theorem cg_energy_identity s s' : cg_inv s -> cgstep s = Some s' -> cg_indef s' = false ->
  let App := inner (mulA (cg_p s)) (cg_p s) in
  App <> 0 /\ energy (cg_x s') = energy (cg_x s) - (cg_rr s * cg_rr s) / App.
Proof.
  intros Hinv Hs Hind. destruct (cg_step_shape s s' Hinv Hs Hind) as (HApp & Hx' & _).
  destruct Hinv as (Hx & Hr & Hp & Hres & Hrr & Horth & _).
  split; [exact HApp|]. cbv zeta in *.
  set (App := inner (mulA (cg_p s)) (cg_p s)) in *. set (a := cg_rr s / App) in *.
  assert (He : length (err (cg_x s)) = n) by (unfold err; rewrite (vsub_length F sub); congruence).
  assert (HAp : length (mulA (cg_p s)) = n) by (apply mulA_len; exact Hp).
  unfold energy. rewrite Hx'.
  assert (E1 : err (axpy (cg_x s) (cg_p s) a) = axpy (err (cg_x s)) (cg_p s) (opp a)).
  { unfold err. apply (vsub_axpy F zero one add mul sub opp div inv Fth). }
  rewrite E1. rewrite mulA_lin by assumption. rewrite mulA_err by exact Hx. rewrite <- Hres.
  rewrite (inner_axpy_l F zero one add mul sub opp div inv Fth) by congruence.
  rewrite !(inner_axpy_r F zero one add mul sub opp div inv Fth) by congruence.
  rewrite Horth.
  assert (S1 : inner (mulA (cg_p s)) (err (cg_x s)) = cg_rr s).
  { rewrite mulA_sym by assumption. rewrite mulA_err by exact Hx. rewrite <- Hres.
    rewrite (inner_comm F zero one add mul sub opp div inv Fth). exact Horth. }
  rewrite S1. fold App. unfold a. field. exact HApp.
Qed.


(* ---- order: SPD operators, monotone energy, no breakdown, immediate return ---- *)
Variable le : F -> F -> Prop.
Hypothesis le_refl : forall a, le a a.
Hypothesis le_antisym : forall a c, le a c -> le c a -> a = c.
Hypothesis le_trans : forall a c d, le a c -> le c d -> le a d.
Hypothesis le_total : forall a c, le a c \/ le c a.
Hypothesis le_add : forall a c d, le a c -> le (add a d) (add c d).
Hypothesis le_mul : forall a c, le zero a -> le zero c -> le zero (mul a c).
Infix "<=" := le.
Notation "a < c" := (flt F le a c).
Hypothesis ltb_spec : forall a c, ltb a c = true <-> a < c.
Variable tol : F.
Notation thresh := (thresh F zero mul eqb tol).
Notation cgcont := (cg_cont F ltb).

Lemma ltb_false_of_le a c : c <= a -> ltb a c = false.
Proof.
  intros H. destruct (ltb a c) eqn:E; [|reflexivity]. apply ltb_spec in E.
  exfalso. eapply (lt_not_le F le le_antisym); eauto.
Qed.

Lemma thresh_nonneg q : 0 <= q -> 0 <= thresh q.
Proof.
  intros H. unfold KDefs.thresh, KDefs.tol2.
  pose proof (sq_nonneg F zero one add mul sub opp div inv Fth le le_total le_add le_mul tol) as Ht.
  destruct (eqb q 0); [exact Ht|apply le_mul; assumption].
Qed.

Hypothesis SPD : forall v, length v = n -> v <> zeros n -> 0 < inner (mulA v) v.

Lemma cg_cont_facts thr s : cgcont thr s = true -> 0 <= thr -> cg_indef s = false /\ 0 < cg_rr s.
Proof.
  unfold KDefs.cg_cont. intros H Ht. apply andb_prop in H. destruct H as [H1 H2].
  split; [destruct (cg_indef s); [discriminate|reflexivity]|].
  apply ltb_spec in H2. eapply (le_lt_trans F le le_antisym le_trans); eauto.
Qed.

Lemma cg_App_pos s : cg_inv s -> 0 < cg_rr s -> 0 < inner (mulA (cg_p s)) (cg_p s).
Proof.
  intros (Hx & Hr & Hp & Hres & Hrr & Horth & _) [_ Hne].
  apply SPD; [exact Hp|]. intros E. rewrite E in Horth.
  rewrite (inner_zeros_r F zero one add mul sub opp div inv Fth) in Horth. apply Hne. exact Horth.
Qed.

(* on an SPD operator a CG iteration entered with a non-zero residual never divides by zero and never
   reports an indefinite matrix *)
Lemma cg_safe thr s : cg_inv s -> cgcont thr s = true -> 0 <= thr ->
  exists s', cgstep s = Some s' /\ cg_indef s' = false.
Proof.
  intros Hinv Hc Ht. destruct (cg_cont_facts thr s Hc Ht) as [Hind Hpos].
  pose proof (cg_App_pos s Hinv Hpos) as HApp.
  unfold KDefs.cg_step; cbn [o_inner o_axpy o_scale seq_ops].
  rewrite ltb_false_of_le by (destruct HApp as [H _]; exact H).
  assert (HA0 : inner (mulA (cg_p s)) (cg_p s) <> 0) by (destruct HApp as [_ H]; intros E; apply H; symmetry; exact E).
  assert (HR0 : cg_rr s <> 0) by (destruct Hpos as [_ H]; intros E; apply H; symmetry; exact E).
  rewrite (fdiv_nonzero _ _ HA0). rewrite (fdiv_nonzero _ _ HR0).
  eexists. split; reflexivity.
Qed.

(* CG on SPD: the energy norm of the error does not increase *)
Theorem cg_energy_monotone thr s s' : cg_inv s -> cgcont thr s = true -> 0 <= thr -> cgstep s = Some s' ->
  energy (cg_x s') <= energy (cg_x s).
Proof.
  intros Hinv Hc Ht Hs. destruct (cg_cont_facts thr s Hc Ht) as [Hind Hpos].
  destruct (cg_safe thr s Hinv Hc Ht) as (s2 & Hs2 & Hi2). rewrite Hs in Hs2. inversion Hs2; subst s2.
  destruct (cg_energy_identity s s' Hinv Hs Hi2) as [HA0 ->].
  apply (sub_nonneg_le F zero one add mul sub opp div inv Fth le le_add).
  apply (div_nonneg F zero one add mul sub opp div inv Fth le le_antisym le_total le_add le_mul).
  - apply (sq_nonneg F zero one add mul sub opp div inv Fth le le_total le_add le_mul).
  - apply cg_App_pos; assumption.
Qed.

Notation cgrun := (cg_run F zero one mul opp div eqb ltb mulA residA sops b tol).
Notation cgthr := (cg_thr F zero mul eqb residA sops b tol).

Lemma cg_thr_nonneg x0 : 0 <= cgthr x0.
Proof.
  unfold KDefs.cg_thr. apply thresh_nonneg. unfold KDefs.cg_init; cbn [cg_rr o_inner seq_ops].
  apply (inner_self_nonneg F zero one add mul sub opp div inv Fth le le_refl le_trans le_total le_add le_mul).
Qed.

(* on SPD systems the CG loop always leaves normally, and the returned state satisfies the invariant *)
Theorem cg_run_total max_iter x0 : length x0 = n ->
  exists s', cgrun max_iter x0 = Done s' /\ cg_inv s' /\ cg_indef s' = false.
Proof.
  intros Hx0. unfold KDefs.cg_run.
  set (Inv := fun s => cg_inv s /\ cg_indef s = false).
  assert (Hstep : forall s s', Inv s -> cgcont (cgthr x0) s = true -> cgstep s = Some s' -> Inv s').
  { intros s s' [Hi _] Hc Hs. split; [eapply cg_step_inv; eauto|].
    destruct (cg_safe _ s Hi Hc (cg_thr_nonneg x0)) as (s2 & Hs2 & Hi2). congruence. }
  assert (Hsafe : forall s, Inv s -> cgcont (cgthr x0) s = true -> cgstep s <> None).
  { intros s [Hi _] Hc. destruct (cg_safe _ s Hi Hc (cg_thr_nonneg x0)) as (s2 & Hs2 & _). congruence. }
  assert (H0 : Inv (cginit x0)) by (split; [apply cg_init_inv; exact Hx0|reflexivity]).
  destruct (run_no_break _ _ _ Inv Hstep Hsafe max_iter _ H0) as [s' Hr].
  exists s'. split; [exact Hr|].
  pose proof (run_invariant _ _ _ Inv Hstep max_iter _ H0) as Hi. rewrite Hr in Hi. exact Hi.
Qed.

(* start at the exact solution (this covers b = 0, x0 = 0): immediate return, no arithmetic on non-finite values *)
Theorem cg_exact_start max_iter x0 : length x0 = n -> mulA x0 = b ->
  cgrun max_iter x0 = Done (cginit x0) /\ cg_x (cginit x0) = x0 /\ cg_hist (cginit x0) = [0] /\ cg_iter (cginit x0) = O.
Proof.
  intros Hx0 Hex.
  assert (R0 : residA x0 b = zeros n).
  { rewrite residA_spec by exact Hx0. rewrite Hex, (vsub_self F zero one add mul sub opp div inv Fth), Hb. reflexivity. }
  assert (RR : cg_rr (cginit x0) = 0).
  { unfold KDefs.cg_init; cbn [cg_rr o_inner seq_ops]. rewrite R0. apply (inner_zeros_r F zero one add mul sub opp div inv Fth). }
  split; [|split; [reflexivity|split; [|reflexivity]]].
  - unfold KDefs.cg_run. destruct max_iter as [|m]; [reflexivity|]. simpl run.
    replace (cgcont (cgthr x0) (cginit x0)) with false; [reflexivity|].
    symmetry. unfold KDefs.cg_cont. rewrite RR. rewrite ltb_false_of_le by apply cg_thr_nonneg. apply andb_false_r.
  - unfold KDefs.cg_init in *; cbn [cg_rr cg_hist o_inner seq_ops] in *. rewrite RR. reflexivity.
Qed.

(* the history: entry number cg_iter s_j of the returned history is the squared true residual of iterate j *)
Lemma cg_step_hist s s' : cgstep s = Some s' -> exists t, cg_hist s' = cg_hist s ++ t.
Proof.
  intros Hs. unfold KDefs.cg_step in Hs; cbn [o_inner o_axpy o_scale seq_ops] in Hs.
  destruct (ltb _ 0); [inversion Hs; subst s'; exists []; simpl; rewrite app_nil_r; reflexivity|].
  destruct (fdiv _ _) as [alpha|]; [|discriminate].
  destruct (fdiv _ _) as [beta|]; [|discriminate].
  inversion Hs; subst s'; simpl. eexists; reflexivity.
Qed.

Lemma cg_iter_hist k s s' : iter_n cgstep k s = Some s' -> exists t, cg_hist s' = cg_hist s ++ t.
Proof.
  revert s; induction k as [|k IH]; intros s H; simpl in H.
  - inversion H; subst s'. exists []. rewrite app_nil_r. reflexivity.
  - destruct (cgstep s) as [s1|] eqn:Es; [|discriminate].
    destruct (cg_step_hist _ _ Es) as [t1 H1]. destruct (IH _ H) as [t2 H2].
    exists (t1 ++ t2). rewrite H2, H1, app_assoc. reflexivity.
Qed.

Definition true_res_sq (x : list F) : F := inner (vsub b (mulA x)) (vsub b (mulA x)).   (* ||b - A x||^2 *)

Theorem cg_history_true K x0 sK : length x0 = n -> iter_n cgstep K (cginit x0) = Some sK ->
  (forall j, (j <= K)%nat -> exists sj, iter_n cgstep j (cginit x0) = Some sj /\
      nth (cg_iter sj) (cg_hist sK) 0 = true_res_sq (cg_x sj)) /\
  last (cg_hist sK) 0 = true_res_sq (cg_x sK) /\ length (cg_hist sK) = S (cg_iter sK).
Proof using Fth eqb_spec Hb mulA_len mulA_lin residA_spec.
  try clear SPD; try clear mulA_sym; try clear Hsol; try clear Hxs; try clear xs. try clear Hparts; try clear parts.
  intros Hx0 HK.
  assert (Hinv : forall k s, iter_n cgstep k (cginit x0) = Some s -> cg_inv s).
  { intros k s H. eapply (iter_n_invariant _ cgstep cg_inv); [|apply cg_init_inv; exact Hx0|exact H].
    intros; eapply cg_step_inv; eauto. }
  split; [|split].
  - intros j Hj. destruct (iter_n_prefix _ _ _ _ _ j HK Hj) as (sj & H1 & H2).
    exists sj. split; [exact H1|].
    destruct (cg_iter_hist _ _ _ H2) as [t Ht].
    destruct (Hinv _ _ H1) as (_ & _ & _ & Hres & Hrr & _ & pre & Hh & Hpre).
    rewrite Ht, Hh, <- app_assoc. simpl. rewrite <- Hpre. rewrite nth_middle.
    unfold true_res_sq. rewrite <- Hres. exact Hrr.
  - destruct (Hinv _ _ HK) as (_ & _ & _ & Hres & Hrr & _ & pre & Hh & Hpre).
    rewrite Hh, last_last. unfold true_res_sq. rewrite <- Hres. exact Hrr.
  - destruct (Hinv _ _ HK) as (_ & _ & _ & _ & _ & _ & pre & Hh & Hpre).
    rewrite Hh, app_length, Hpre. simpl. lia.
Qed.


(* ======== BiCGStab ======== *)
Notation bistep := (bi_step F zero one mul opp div eqb mulA sops).
Notation bihalf := (bi_half F zero one mul opp div eqb mulA sops).
Notation biinit := (bi_init F residA sops b).

Definition bi_inv (s : bi_state F) : Prop :=
  length (bi_x s) = n /\ length (bi_r s) = n /\ (forall p, bi_p s = Some p -> length p = n) /\
  bi_r s = vsub b (mulA (bi_x s)) /\                      (* the carried residual is the true residual *)
  bi_nsq s = norm2sq (bi_r s) /\
  exists pre, bi_hist s = pre ++ [bi_nsq s] /\ length pre = bi_iter s.

Lemma bi_init_inv x0 : length x0 = n -> bi_inv (biinit x0).
Proof.
  intros H. pose proof (residA_len x0 H) as L. unfold KDefs.bi_init, bi_inv; simpl.
  split; [exact H|]. split; [exact L|]. split; [intros p Hp; inversion Hp; subst p; exact L|].
  split; [apply residA_spec; exact H|]. split; [reflexivity|]. exists []. split; reflexivity.
Qed.

Lemma bi_step_inv seqform rstar s s' : length rstar = n -> bi_inv s -> bistep seqform rstar s = Some s' -> bi_inv s'.
Proof using Fth eqb_spec Hb mulA_len mulA_lin residA_spec.
  try clear SPD; try clear mulA_sym; try clear Hsol; try clear Hxs; try clear xs. try clear Hparts; try clear parts.
  intros Hrs (Hx & Hr & Hp & Hres & Hn & pre & Hh & Hpre) Hs.
  unfold KDefs.bi_step, KDefs.bi_half in Hs; cbn [o_inner o_axpy o_scale o_norm2sq seq_ops] in Hs.
  destruct (bi_p s) as [p|] eqn:Ep; [|discriminate]. specialize (Hp p eq_refl).
  destruct (fdiv (bi_rrs s) (inner (mulA p) rstar)) as [alpha|]; [|discriminate].
  set (Ap := mulA p) in *. set (sv := axpy (bi_r s) Ap (opp 1 * alpha)) in *.
  destruct (fdiv (inner (mulA sv) sv) (inner (mulA sv) (mulA sv))) as [omega|]; [|discriminate].
  assert (HAp : length Ap = n) by (apply mulA_len; exact Hp).
  assert (Hsv : length sv = n) by (unfold sv; rewrite (axpy_length F add mul); congruence).
  assert (HAs : length (mulA sv) = n) by (apply mulA_len; exact Hsv).
  set (x1 := axpy (bi_x s) p alpha) in *.
  assert (Hx1 : length x1 = n) by (unfold x1; rewrite (axpy_length F add mul); congruence).
  set (x' := axpy x1 sv omega) in *.
  assert (Hx' : length x' = n) by (unfold x'; rewrite (axpy_length F add mul); congruence).
  set (r' := axpy sv (mulA sv) (opp 1 * omega)) in *.
  assert (Hr' : length r' = n) by (unfold r'; rewrite (axpy_length F add mul); congruence).
  assert (Er : r' = vsub b (mulA x')).
  { rewrite <- residA_spec by exact Hx'. unfold x'. rewrite resid_update by assumption.
    unfold x1. rewrite resid_update by assumption. rewrite residA_spec by exact Hx. rewrite <- Hres. reflexivity. }
  inversion Hs; subst s'; unfold bi_inv; simpl.
  split; [exact Hx'|]. split; [exact Hr'|]. split.
  - intros q Hq.
    destruct (fdiv (inner rstar r') (bi_rrs s)) as [q1|]; [|discriminate].
    destruct (fdiv alpha omega) as [q2|]; [|discriminate].
    inversion Hq; subst q. destruct seqform.
    + rewrite (axpy_length F add mul); rewrite vscale_length; rewrite ?(axpy_length F add mul); congruence.
    + rewrite (axpy_length F add mul); rewrite (axpy_length F add mul); rewrite ?vscale_length; congruence.
  - split; [exact Er|]. split; [reflexivity|].
    exists (pre ++ [bi_nsq s]). split; [rewrite Hh; reflexivity|]. rewrite app_length, Hpre. simpl. lia.
Qed.

(* half-step breakdown: when s = r - alpha A p is the zero vector, omega = 0/0 *)
Theorem bi_halfstep_breaks seqform rstar s alpha p Ap :
  bihalf rstar s = Some (alpha, p, Ap, zeros n) -> bistep seqform rstar s = None.
Proof.
  intros H. unfold KDefs.bi_step. rewrite H. cbn [o_inner seq_ops].
  rewrite mulA_zeros. rewrite (inner_zeros_r F zero one add mul sub opp div inv Fth). rewrite fdiv_zero. reflexivity.
Qed.

Notation birun := (bi_run F zero one mul opp div eqb ltb mulA residA sops b tol).
Notation bithr := (bi_thr F zero mul eqb residA sops b tol).
Notation bicont := (bi_cont F ltb).

Lemma norm2sq_nonneg v : 0 <= norm2sq v.
Proof.
  rewrite (norm2sq_sumf F zero one add mul sub opp div inv Fth).
  induction v as [|a v IH]; simpl; [apply le_refl|].
  apply (add_nonneg F zero one add mul sub opp div inv Fth le le_trans le_add); [|exact IH].
  unfold gsq. apply (sq_nonneg F zero one add mul sub opp div inv Fth le le_total le_add le_mul).
Qed.

Theorem bi_exact_start seqform max_iter x0 : length x0 = n -> mulA x0 = b ->
  birun seqform max_iter x0 = Done (biinit x0) /\ bi_x (biinit x0) = x0 /\ bi_hist (biinit x0) = [0] /\ bi_iter (biinit x0) = O.
Proof.
  intros Hx0 Hex.
  assert (R0 : residA x0 b = zeros n).
  { rewrite residA_spec by exact Hx0. rewrite Hex, (vsub_self F zero one add mul sub opp div inv Fth), Hb. reflexivity. }
  assert (NN : bi_nsq (biinit x0) = 0).
  { unfold KDefs.bi_init; cbn [bi_nsq o_norm2sq seq_ops]. rewrite R0. apply (norm2sq_zeros F zero one add mul sub opp div inv Fth). }
  split; [|split; [reflexivity|split; [|reflexivity]]].
  - unfold KDefs.bi_run. destruct max_iter as [|m]; [reflexivity|]. simpl run.
    replace (bicont (bithr x0) (biinit x0)) with false; [reflexivity|].
    symmetry. unfold KDefs.bi_cont. rewrite NN. apply ltb_false_of_le.
    unfold KDefs.bi_thr. apply thresh_nonneg. rewrite NN. apply le_refl.
  - unfold KDefs.bi_init in *; cbn [bi_nsq bi_hist o_norm2sq seq_ops] in *. rewrite NN. reflexivity.
Qed.

Lemma bi_step_hist seqform rstar s s' : bistep seqform rstar s = Some s' -> exists t, bi_hist s' = bi_hist s ++ t.
Proof.
  intros Hs. unfold KDefs.bi_step, KDefs.bi_half in Hs; cbn [o_inner o_axpy o_scale o_norm2sq seq_ops] in Hs.
  destruct (bi_p s) as [p|]; [|discriminate].
  destruct (fdiv _ _) as [alpha|]; [|discriminate].
  destruct (fdiv _ _) as [omega|]; [|discriminate].
  inversion Hs; subst s'; simpl. eexists; reflexivity.
Qed.

Lemma bi_iter_hist seqform rstar k s s' : iter_n (bistep seqform rstar) k s = Some s' -> exists t, bi_hist s' = bi_hist s ++ t.
Proof.
  revert s; induction k as [|k IH]; intros s H; simpl in H.
  - inversion H; subst s'. exists []. rewrite app_nil_r. reflexivity.
  - destruct (bistep seqform rstar s) as [s1|] eqn:Es; [|discriminate].
    destruct (bi_step_hist _ _ _ _ Es) as [t1 H1]. destruct (IH _ H) as [t2 H2].
    exists (t1 ++ t2). rewrite H2, H1, app_assoc. reflexivity.
Qed.

Definition true_res_nsq (x : list F) : F := norm2sq (vsub b (mulA x)).    (* Vector::norm(2)^2 of b - A x *)

Theorem bi_history_true seqform K x0 sK : length x0 = n ->
  iter_n (bistep seqform (bi_r (biinit x0))) K (biinit x0) = Some sK ->
  (forall j, (j <= K)%nat -> exists sj, iter_n (bistep seqform (bi_r (biinit x0))) j (biinit x0) = Some sj /\
      nth (bi_iter sj) (bi_hist sK) 0 = true_res_nsq (bi_x sj)) /\
  last (bi_hist sK) 0 = true_res_nsq (bi_x sK) /\ length (bi_hist sK) = S (bi_iter sK).
Proof using Fth eqb_spec Hb mulA_len mulA_lin residA_spec.
  try clear SPD; try clear mulA_sym; try clear Hsol; try clear Hxs; try clear xs. try clear Hparts; try clear parts.
  intros Hx0 HK.
  assert (Hrs : length (bi_r (biinit x0)) = n) by (apply residA_len; exact Hx0).
  assert (Hinv : forall k s, iter_n (bistep seqform (bi_r (biinit x0))) k (biinit x0) = Some s -> bi_inv s).
  { intros k s H. eapply (iter_n_invariant _ _ bi_inv); [|apply bi_init_inv; exact Hx0|exact H].
    intros; eapply bi_step_inv; eauto. }
  split; [|split].
  - intros j Hj. destruct (iter_n_prefix _ _ _ _ _ j HK Hj) as (sj & H1 & H2).
    exists sj. split; [exact H1|].
    destruct (bi_iter_hist _ _ _ _ _ H2) as [t Ht].
    destruct (Hinv _ _ H1) as (_ & _ & _ & Hres & Hn & pre & Hh & Hpre).
    rewrite Ht, Hh, <- app_assoc. simpl. rewrite <- Hpre. rewrite nth_middle.
    unfold true_res_nsq. rewrite <- Hres. exact Hn.
  - destruct (Hinv _ _ HK) as (_ & _ & _ & Hres & Hn & pre & Hh & Hpre).
    rewrite Hh, last_last. unfold true_res_nsq. rewrite <- Hres. exact Hn.
  - destruct (Hinv _ _ HK) as (_ & _ & _ & _ & _ & pre & Hh & Hpre).
    rewrite Hh, app_length, Hpre. simpl. lia.
Qed.


(* ======== PCG ======== *)
Variable prec : list F -> list F.
Variable ztol2 : F.
Hypothesis prec_len : forall r, length r = n -> length (prec r) = n.
Notation pcstep := (pcg_step F zero one mul opp div eqb ltb mulA residA sops b tol prec ztol2).
Notation pcinit := (pcg_init F residA sops b prec).
Notation pctest := (pcg_test F zero mul ltb sops b tol prec ztol2).
Notation binner := (pcg_binner F sops b prec).
Notation pcrun := (pcg_run F zero one mul opp div eqb ltb mulA residA sops b tol prec ztol2).

Definition rz_of (x : list F) : F := inner (vsub b (mulA x)) (prec (vsub b (mulA x))).   (* <r, M^-1 r>, r = b - A x *)

Definition pcg_inv (s : pcg_state F) : Prop :=
  length (pc_x s) = n /\ length (pc_r s) = n /\ length (pc_p s) = n /\
  pc_r s = vsub b (mulA (pc_x s)) /\
  (pc_indef s = false ->
     (exists pre, pc_hist s = pre ++ [if Nat.eqb (pc_iter s) 0 then rz_of (pc_x s) else rz_of (pc_x s) / binner]
                  /\ length pre = pc_iter s) /\
     (pc_iter s <> O -> binner <> 0 /\ pc_stop s = pctest (rz_of (pc_x s))) /\     (* break <-> the test holds for the iterate just reported *)
     (pc_stop s = false -> pc_rz s = rz_of (pc_x s))).

Lemma pcg_init_inv x0 : length x0 = n -> pcg_inv (pcinit x0).
Proof.
  intros H. pose proof (residA_len x0 H) as L. unfold KDefs.pcg_init, pcg_inv; simpl.
  split; [exact H|]. split; [exact L|]. split; [apply prec_len; exact L|].
  split; [apply residA_spec; exact H|]. intros _.
  unfold rz_of. rewrite <- residA_spec by exact H. cbn [o_inner seq_ops].
  split; [exists []; split; reflexivity|]. split; [intros E; contradiction|reflexivity].
Qed.

Lemma pcg_step_inv s s' : pcg_inv s -> pc_stop s = false -> pc_indef s = false -> pcstep s = Some s' -> pcg_inv s'.
Proof using Fth eqb_spec Hb mulA_len mulA_lin residA_spec prec_len.
  try clear SPD; try clear mulA_sym; try clear Hsol; try clear Hxs; try clear xs. try clear Hparts; try clear parts.
  intros (Hx & Hr & Hp & Hres & Hrest) Hst Hind Hs.
  destruct (Hrest Hind) as ((pre & Hh & Hpre) & Htest & Hrz). clear Hrest.
  unfold KDefs.pcg_step in Hs; cbn [o_inner o_axpy o_scale seq_ops] in Hs.
  destruct (ltb (inner (mulA (pc_p s)) (pc_p s)) 0).
  { inversion Hs; subst s'; unfold pcg_inv; simpl. repeat split; auto; discriminate. }
  destruct (fdiv (pc_rz s) (inner (mulA (pc_p s)) (pc_p s))) as [alpha|]; [|discriminate].
  set (x' := axpy (pc_x s) (pc_p s) alpha) in *.
  assert (Hx' : length x' = n) by (unfold x'; rewrite (axpy_length F add mul); congruence).
  assert (HAp : length (mulA (pc_p s)) = n) by (apply mulA_len; exact Hp).
  assert (Er : (if Nat.eqb (S (pc_iter s) mod 8) 0 then residA x' b
                else axpy (pc_r s) (mulA (pc_p s)) (opp 1 * alpha)) = vsub b (mulA x')).
  { rewrite <- (residA_spec x' Hx').
    destruct (Nat.eqb (S (pc_iter s) mod 8) 0); [reflexivity|].
    unfold x'. rewrite resid_update by assumption. rewrite residA_spec by exact Hx. rewrite <- Hres. reflexivity. }
  rewrite Er in Hs. set (r' := vsub b (mulA x')) in *.
  assert (Hr' : length r' = n) by (unfold r'; rewrite (vsub_length F sub); [exact Hb|rewrite mulA_len by exact Hx'; exact Hb]).
  assert (Hz' : length (prec r') = n) by (apply prec_len; exact Hr').
  destruct (fdiv (inner r' (prec r')) binner) as [rep|] eqn:Erep; [|discriminate].
  apply fdiv_some in Erep. destruct Erep as [Hbi ->].
  assert (Hhist : exists pre0, pc_hist s ++ [inner r' (prec r') / binner] = pre0 ++ [inner r' (prec r') / binner]
                               /\ length pre0 = S (pc_iter s)).
  { exists (pc_hist s). split; [reflexivity|]. rewrite Hh, app_length, Hpre. simpl. lia. }
  destruct (pctest (inner r' (prec r'))) eqn:Et.
  { inversion Hs; subst s'; unfold pcg_inv; simpl. fold r'. unfold rz_of; fold r'.
    split; [exact Hx'|]. split; [exact Hr'|]. split; [exact Hp|]. split; [reflexivity|]. intros _.
    split; [exact Hhist|]. split; [intros _; split; [exact Hbi|symmetry; exact Et]|discriminate]. }
  destruct (Nat.eqb (S (pc_iter s) mod 8) 0).
  { inversion Hs; subst s'; unfold pcg_inv; simpl. unfold rz_of; fold r'.
    split; [exact Hx'|]. split; [exact Hr'|]. split; [exact Hz'|]. split; [reflexivity|]. intros _.
    split; [exact Hhist|]. split; [intros _; split; [exact Hbi|symmetry; exact Et]|reflexivity]. }
  destruct (fdiv (inner r' (prec r')) (pc_rz s)) as [beta|]; [|discriminate].
  inversion Hs; subst s'; unfold pcg_inv; simpl. unfold rz_of; fold r'.
  split; [exact Hx'|]. split; [exact Hr'|].
  split; [rewrite (axpy_length F add mul); rewrite vscale_length; congruence|]. split; [reflexivity|]. intros _.
  split; [exact Hhist|]. split; [intros _; split; [exact Hbi|symmetry; exact Et]|reflexivity].
Qed.

Hypothesis prec_zeros : prec (zeros n) = zeros n.

(* PCG has no initial convergence test: started at the exact solution it computes alpha = 0/0 *)
Theorem pcg_exact_start_breaks max_iter x0 : length x0 = n -> mulA x0 = b ->
  pcrun (S max_iter) x0 = Broke (pcinit x0).
Proof.
  intros Hx0 Hex.
  assert (R0 : residA x0 b = zeros n).
  { rewrite residA_spec by exact Hx0. rewrite Hex, (vsub_self F zero one add mul sub opp div inv Fth), Hb. reflexivity. }
  unfold KDefs.pcg_run. simpl run. unfold KDefs.pcg_cont at 1. unfold KDefs.pcg_init at 1 2. simpl.
  unfold KDefs.pcg_step, KDefs.pcg_init; cbn [pc_p pc_rz pc_x pc_r o_inner seq_ops].
  rewrite R0, prec_zeros, mulA_zeros. rewrite !(inner_zeros_r F zero one add mul sub opp div inv Fth).
  rewrite ltb_false_of_le by apply le_refl. rewrite fdiv_zero. reflexivity.
Qed.


(* ======== distributed solvers = sequential solvers, for every partition ======== *)
Variable parts : list nat.
Hypothesis Hparts : psum parts = n.
Notation dops := (dist_ops F zero add mul parts).
Notation dinner := (KDefs.dinner F zero add mul parts).
Notation dnorm2sq := (KDefs.dnorm2sq F zero add mul parts).
Notation daxpy := (KDefs.daxpy F add mul parts).
Notation dscale := (KDefs.dscale F mul parts).

Lemma dI u v : length u = n -> length v = n -> dinner u v = inner u v.
Proof. intros; apply (dinner_assembled F zero one add mul sub opp div inv Fth); congruence. Qed.
Lemma dN v : length v = n -> dnorm2sq v = norm2sq v.
Proof. intros; apply (dnorm2sq_assembled F zero one add mul sub opp div inv Fth); congruence. Qed.
Lemma dA y x a : length y = n -> length x = n -> daxpy y x a = axpy y x a.
Proof. intros; apply daxpy_assembled; congruence. Qed.
Lemma dS y a : length y = n -> dscale y a = vscale y a.
Proof. intros; apply dscale_assembled; congruence. Qed.
Lemma dA_len y x a : length y = n -> length x = n -> length (daxpy y x a) = n.
Proof. intros. rewrite dA by assumption. rewrite (axpy_length F add mul); congruence. Qed.
Lemma dS_len y a : length y = n -> length (dscale y a) = n.
Proof. intros. rewrite dS by assumption. rewrite vscale_length. assumption. Qed.
Lemma axpy_len_n y x a : length y = n -> length x = n -> length (axpy y x a) = n.
Proof. intros. rewrite (axpy_length F add mul); congruence. Qed.
Lemma vscale_len_n y a : length y = n -> length (vscale y a) = n.
Proof. intros. rewrite vscale_length. assumption. Qed.

Ltac slen :=
  repeat first [ assumption
               | apply dA_len | apply dS_len | apply axpy_len_n | apply vscale_len_n
               | apply mulA_len | apply residA_len | apply prec_len ].
Ltac undist :=
  repeat first [ rewrite dI by slen | rewrite dN by slen | rewrite dA by slen | rewrite dS by slen ].

Lemma cg_step_dist s : length (cg_x s) = n -> length (cg_r s) = n -> length (cg_p s) = n ->
  cg_step F zero one mul opp div eqb ltb mulA residA dops b s = cgstep s.
Proof.
  intros Hx Hr Hp. unfold KDefs.cg_step; cbn [o_inner o_axpy o_scale o_norm2sq dist_ops seq_ops].
  undist. destruct (ltb _ 0); [reflexivity|].
  destruct (fdiv _ _) as [alpha|]; [|reflexivity].
  destruct (Nat.eqb (cg_iter s mod 8) 0); undist; (destruct (fdiv _ _) as [beta|]; [|reflexivity]); undist; reflexivity.
Qed.

Theorem cg_run_dist max_iter x0 : length x0 = n ->
  cg_run F zero one mul opp div eqb ltb mulA residA dops b tol max_iter x0 = cgrun max_iter x0.
Proof using Fth eqb_spec Hb mulA_len mulA_lin residA_spec Hparts.
  try clear SPD; try clear mulA_sym; try clear Hsol; try clear Hxs; try clear xs.
  intros Hx0.
  assert (E0 : cg_init F residA dops b x0 = cginit x0).
  { unfold KDefs.cg_init; cbn [o_inner dist_ops seq_ops]. undist. reflexivity. }
  unfold KDefs.cg_run, KDefs.cg_thr. rewrite E0.
  apply (run_ext _ _ cgstep _ _ cg_inv).
  - intros; eapply cg_step_inv; eauto.
  - reflexivity.
  - intros s (Hx & Hr & Hp & _) _. apply cg_step_dist; assumption.
  - apply cg_init_inv; exact Hx0.
Qed.

Lemma bi_step_dist seqform rstar s : length rstar = n -> bi_inv s ->
  bi_step F zero one mul opp div eqb mulA dops seqform rstar s = bistep seqform rstar s.
Proof.
  intros Hrs (Hx & Hr & Hp & _).
  unfold KDefs.bi_step, KDefs.bi_half; cbn [o_inner o_axpy o_scale o_norm2sq dist_ops seq_ops].
  destruct (bi_p s) as [p|]; [|reflexivity]. specialize (Hp p eq_refl).
  undist. destruct (fdiv _ _) as [alpha|]; [|reflexivity].
  undist. destruct (fdiv _ _) as [omega|]; [|reflexivity].
  undist. destruct (fdiv _ _) as [q1|]; [|reflexivity].
  destruct (fdiv alpha omega) as [q2|]; [|reflexivity].
  destruct seqform; undist; reflexivity.
Qed.

Theorem bi_run_dist seqform max_iter x0 : length x0 = n ->
  bi_run F zero one mul opp div eqb ltb mulA residA dops b tol seqform max_iter x0 = birun seqform max_iter x0.
Proof using Fth eqb_spec Hb mulA_len mulA_lin residA_spec Hparts.
  try clear SPD; try clear mulA_sym; try clear Hsol; try clear Hxs; try clear xs.
  intros Hx0.
  assert (E0 : bi_init F residA dops b x0 = biinit x0).
  { unfold KDefs.bi_init; cbn [o_inner o_norm2sq dist_ops seq_ops]. undist. reflexivity. }
  unfold KDefs.bi_run, KDefs.bi_thr. rewrite E0. cbv zeta.
  assert (Hrs : length (bi_r (biinit x0)) = n) by (apply residA_len; exact Hx0).
  apply (run_ext _ _ (bistep seqform (bi_r (biinit x0))) _ _ bi_inv).
  - intros; eapply bi_step_inv; eauto.
  - reflexivity.
  - intros s Hi _. apply bi_step_dist; assumption.
  - apply bi_init_inv; exact Hx0.
Qed.

(* PCG exists only in distributed form; its kernels too are those of the assembled vectors *)
Lemma pcg_step_dist s : pcg_inv s ->
  pcg_step F zero one mul opp div eqb ltb mulA residA dops b tol prec ztol2 s = pcstep s.
Proof.
  intros (Hx & Hr & Hp & _).
  unfold KDefs.pcg_step, KDefs.pcg_test, KDefs.pcg_binner; cbn [o_inner o_axpy o_scale o_norm2sq dist_ops seq_ops].
  undist. destruct (ltb _ 0); [reflexivity|].
  destruct (fdiv _ _) as [alpha|]; [|reflexivity].
  destruct (Nat.eqb (S (pc_iter s) mod 8) 0); undist;
    (destruct (fdiv _ _) as [rep|]; [|reflexivity]);
    (match goal with |- context [if ?c then _ else _] => destruct c end; [reflexivity|]);
    try reflexivity;
    (destruct (fdiv _ _) as [beta|]; [|reflexivity]); undist; reflexivity.
Qed.


Lemma pcg_cont_facts s : pcg_cont F s = true -> pc_stop s = false /\ pc_indef s = false.
Proof. unfold KDefs.pcg_cont. destruct (pc_stop s), (pc_indef s); simpl; intros H; try discriminate; auto. Qed.

Theorem pcg_run_dist max_iter x0 : length x0 = n ->
  pcg_run F zero one mul opp div eqb ltb mulA residA dops b tol prec ztol2 max_iter x0 = pcrun max_iter x0.
Proof using Fth eqb_spec Hb mulA_len mulA_lin residA_spec prec_len Hparts.
  try clear SPD; try clear mulA_sym; try clear Hsol; try clear Hxs; try clear xs.
  intros Hx0.
  assert (E0 : pcg_init F residA dops b prec x0 = pcinit x0).
  { unfold KDefs.pcg_init; cbn [o_inner dist_ops seq_ops]. undist. reflexivity. }
  unfold KDefs.pcg_run. rewrite E0.
  apply (run_ext _ _ pcstep _ _ pcg_inv).
  - intros s s' Hi Hc Hs. destruct (pcg_cont_facts _ Hc). eapply pcg_step_inv; eauto.
  - reflexivity.
  - intros s Hi _. apply pcg_step_dist; assumption.
  - apply pcg_init_inv; exact Hx0.
Qed.

(* ======== run-level statements ======== *)
Theorem cg_run_spec max_iter x0 s' : length x0 = n ->
  cgrun max_iter x0 = Done s' \/ cgrun max_iter x0 = Broke s' ->
  exists K, (K <= max_iter)%nat /\ iter_n cgstep K (cginit x0) = Some s' /\
    (forall j, (j < K)%nat -> exists sj, iter_n cgstep j (cginit x0) = Some sj /\ cgcont (cgthr x0) sj = true) /\
    (cgrun max_iter x0 = Done s' -> K = max_iter \/ cgcont (cgthr x0) s' = false) /\
    (cgrun max_iter x0 = Broke s' -> cgcont (cgthr x0) s' = true /\ cgstep s' = None) /\
    (forall j, (j <= K)%nat -> exists sj, iter_n cgstep j (cginit x0) = Some sj /\
        nth (cg_iter sj) (cg_hist s') 0 = true_res_sq (cg_x sj)) /\
    last (cg_hist s') 0 = true_res_sq (cg_x s') /\ length (cg_hist s') = S (cg_iter s').
Proof using Fth eqb_spec Hb mulA_len mulA_lin residA_spec.
  try clear SPD; try clear mulA_sym; try clear Hsol; try clear Hxs; try clear xs. try clear Hparts; try clear parts.
  intros Hx0 [H|H]; unfold KDefs.cg_run in *.
  - destruct (run_done_spec _ _ _ _ _ _ H) as (K & HK & Hit & Hall & Hend).
    destruct (cg_history_true K x0 s' Hx0 Hit) as (H1 & H2 & H3).
    exists K. split; [exact HK|]. split; [exact Hit|]. split; [exact Hall|]. split; [intros _; exact Hend|].
    split; [intros E; rewrite H in E; discriminate|]. split; [exact H1|]. split; [exact H2|exact H3].
  - destruct (run_broke_spec _ _ _ _ _ _ H) as (K & HK & Hit & Hc & Hs & Hall).
    destruct (cg_history_true K x0 s' Hx0 Hit) as (H1 & H2 & H3).
    exists K. split; [lia|]. split; [exact Hit|]. split; [exact Hall|]. split; [intros E; rewrite H in E; discriminate|].
    split; [intros _; split; assumption|]. split; [exact H1|]. split; [exact H2|exact H3].
Qed.

Theorem bi_run_spec seqform max_iter x0 s' : length x0 = n ->
  let rstar := bi_r (biinit x0) in
  birun seqform max_iter x0 = Done s' \/ birun seqform max_iter x0 = Broke s' ->
  exists K, (K <= max_iter)%nat /\ iter_n (bistep seqform rstar) K (biinit x0) = Some s' /\
    (forall j, (j < K)%nat -> exists sj, iter_n (bistep seqform rstar) j (biinit x0) = Some sj /\ bicont (bithr x0) sj = true) /\
    (birun seqform max_iter x0 = Done s' -> K = max_iter \/ bicont (bithr x0) s' = false) /\
    (birun seqform max_iter x0 = Broke s' -> bicont (bithr x0) s' = true /\ bistep seqform rstar s' = None) /\
    (forall j, (j <= K)%nat -> exists sj, iter_n (bistep seqform rstar) j (biinit x0) = Some sj /\
        nth (bi_iter sj) (bi_hist s') 0 = true_res_nsq (bi_x sj)) /\
    last (bi_hist s') 0 = true_res_nsq (bi_x s') /\ length (bi_hist s') = S (bi_iter s').
Proof using Fth eqb_spec Hb mulA_len mulA_lin residA_spec.
  try clear SPD; try clear mulA_sym; try clear Hsol; try clear Hxs; try clear xs. try clear Hparts; try clear parts.
  intros Hx0 rstar [H|H]; unfold KDefs.bi_run in *; cbv zeta in H; fold rstar in H.
  - destruct (run_done_spec _ _ _ _ _ _ H) as (K & HK & Hit & Hall & Hend).
    destruct (bi_history_true seqform K x0 s' Hx0 Hit) as (H1 & H2 & H3).
    exists K. split; [exact HK|]. split; [exact Hit|]. split; [exact Hall|]. split; [intros _; exact Hend|].
    split; [intros E; cbv zeta in E; fold rstar in E; rewrite H in E; discriminate|]. split; [exact H1|]. split; [exact H2|exact H3].
  - destruct (run_broke_spec _ _ _ _ _ _ H) as (K & HK & Hit & Hc & Hs & Hall).
    destruct (bi_history_true seqform K x0 s' Hx0 Hit) as (H1 & H2 & H3).
    exists K. split; [lia|]. split; [exact Hit|]. split; [exact Hall|].
    split; [intros E; cbv zeta in E; fold rstar in E; rewrite H in E; discriminate|].
    split; [intros _; split; assumption|]. split; [exact H1|]. split; [exact H2|exact H3].
Qed.

(* PCG: the returned state satisfies the invariant: the last reported value is <r, M^-1 r>/<b, M^-1 b> of the returned
   iterate (entry 0: <r0, M^-1 r0>), `break` was taken iff that value passes the test, and the loop stopped at the
   first reported iterate (k >= 1) passing it or at the limit *)
Theorem pcg_run_spec max_iter x0 s' : length x0 = n ->
  pcrun max_iter x0 = Done s' \/ pcrun max_iter x0 = Broke s' ->
  pcg_inv s' /\
  exists K, (K <= max_iter)%nat /\ iter_n pcstep K (pcinit x0) = Some s' /\
    (forall j, (j < K)%nat -> exists sj, iter_n pcstep j (pcinit x0) = Some sj /\ pcg_inv sj /\ pcg_cont F sj = true) /\
    (pcrun max_iter x0 = Done s' -> K = max_iter \/ pcg_cont F s' = false).
Proof using Fth eqb_spec Hb mulA_len mulA_lin residA_spec prec_len.
  try clear SPD; try clear mulA_sym; try clear Hsol; try clear Hxs; try clear xs. try clear Hparts; try clear parts.
  intros Hx0 Hrun. unfold KDefs.pcg_run in *.
  assert (Hstep : forall s s1, pcg_inv s -> pcg_cont F s = true -> pcstep s = Some s1 -> pcg_inv s1).
  { intros s s1 Hi Hc Hs. destruct (pcg_cont_facts _ Hc). eapply pcg_step_inv; eauto. }
  pose proof (run_invariant _ (pcg_cont F) pcstep pcg_inv Hstep max_iter _ (pcg_init_inv x0 Hx0)) as Hinv.
  assert (Hpre : forall K s, iter_n pcstep K (pcinit x0) = Some s ->
            (forall j, (j < K)%nat -> exists sj, iter_n pcstep j (pcinit x0) = Some sj /\ pcg_cont F sj = true) -> pcg_inv s).
  { induction K as [|K IH]; intros s Hit Hall.
    - simpl in Hit. inversion Hit; subst s. apply pcg_init_inv; exact Hx0.
    - destruct (iter_n_prefix _ pcstep _ _ _ K Hit ltac:(lia)) as (sK & H1 & H2).
      replace (S K - K)%nat with 1%nat in H2 by lia. simpl in H2.
      destruct (pcstep sK) as [s1|] eqn:Es; [|discriminate]. inversion H2; subst s1.
      destruct (Hall K ltac:(lia)) as (sK' & H3 & H4). rewrite H1 in H3. inversion H3; subst sK'.
      eapply Hstep; [|exact H4|exact Es]. apply IH; [exact H1|]. intros j Hj. apply Hall. lia. }
  destruct Hrun as [H|H]; rewrite H in Hinv; (split; [exact Hinv|]).
  - destruct (run_done_spec _ _ _ _ _ _ H) as (K & HK & Hit & Hall & Hend).
    exists K. split; [exact HK|]. split; [exact Hit|]. split; [|intros _; exact Hend].
    intros j Hj. destruct (Hall j Hj) as (sj & H1 & H2). exists sj. split; [exact H1|]. split; [|exact H2].
    apply (Hpre j sj H1). intros i Hi. apply Hall. lia.
  - destruct (run_broke_spec _ _ _ _ _ _ H) as (K & HK & Hit & Hc & Hs & Hall).
    exists K. split; [lia|]. split; [exact Hit|]. split; [|intros E; rewrite H in E; discriminate].
    intros j Hj. destruct (Hall j Hj) as (sj & H1 & H2). exists sj. split; [exact H1|]. split; [|exact H2].
    apply (Hpre j sj H1). intros i Hi. apply Hall. lia.
Qed.

(* what the distributed CG reports: norm_r / b_norm with b_norm the 2-norm of the assembled b (1 when below zero_tol) *)
Theorem par_cg_reported_true (bb : list F) (zt2 : F) hist k :
  length bb = n -> ltb (norm2sq bb) zt2 = false -> norm2sq bb <> 0 -> (k < length hist)%nat ->
  nth k (par_cg_reported F zero one add mul div ltb parts zt2 bb hist) 0 * norm2sq bb = nth k hist 0.
Proof using Fth Hparts.
  try clear SPD; try clear mulA_sym; try clear Hsol; try clear Hxs; try clear xs; try clear Hb.
  intros Hl Hz Hnz Hk. unfold KDefs.par_cg_reported, KDefs.par_cg_scale.
  rewrite dN by exact Hl. rewrite Hz.
  revert k Hk. induction hist as [|h hist IH]; intros k Hk; simpl in Hk; [lia|].
  destruct k as [|k]; simpl; [field; exact Hnz|apply IH; lia].
Qed.

End SolverFacts.

(* ---------------- extended values: norms and inner products of vectors with non-finite entries ---------------- *)
Section XFacts.
Variable F : Type.
Variables (zero : F) (add mul div : F -> F -> F).
Variable eqb ltb : F -> F -> bool.
Notation xadd := (xadd F add).
Notation xmul := (xmul F mul).
Notation xinner := (xinner F zero add mul).
Notation xnorm2sq := (xnorm2sq F zero add mul).
Notation xallreduce := (xallreduce F zero add).
Notation xdinner := (xdinner F zero add mul).
Notation xdnorm2sq := (xdnorm2sq F zero add mul).

Lemma xadd_nan_r a : xadd a NaNv = NaNv.
Proof. destruct a; reflexivity. Qed.

Lemma fold_xadd_nan l : fold_left xadd l NaNv = NaNv.
Proof. induction l as [|a l IH]; simpl; [reflexivity|exact IH]. Qed.

Lemma fold_xadd_in l a : In NaNv l -> fold_left xadd l a = NaNv.
Proof.
  revert a; induction l as [|x l IH]; intros a H; simpl in *; [contradiction|].
  destruct H as [->|H]; [rewrite xadd_nan_r; apply fold_xadd_nan|apply IH; exact H].
Qed.

Lemma map2_xmul_nan u v : length u = length v -> In NaNv u \/ In NaNv v -> In NaNv (map2 xmul u v).
Proof.
  revert v; induction u as [|a u IH]; intros [|c v] Hl H; simpl in *; try discriminate.
  - destruct H; contradiction.
  - destruct H as [[->|H]|[->|H]].
    + left; reflexivity.
    + right; apply IH; [lia|left; exact H].
    + left; destruct a; reflexivity.
    + right; apply IH; [lia|right; exact H].
Qed.

(* the inner product is non-finite whenever an entry of either vector is *)
Theorem xinner_nan u v : length u = length v -> In NaNv u \/ In NaNv v -> xinner u v = NaNv.
Proof. intros Hl H. unfold KDefs.xinner. apply fold_xadd_in. apply map2_xmul_nan; assumption. Qed.

Lemma fold_xnorm_nan l : fold_left (fun acc x => xadd acc (xmul x x)) l NaNv = NaNv.
Proof. induction l as [|a l IH]; simpl; [reflexivity|]. exact IH. Qed.

(* the 2-norm is non-finite whenever an entry is *)
Theorem xnorm2sq_nan v : In NaNv v -> xnorm2sq v = NaNv.
Proof.
  unfold KDefs.xnorm2sq. generalize (@Fin F zero) as a.
  induction v as [|x v IH]; intros a H; simpl in *; [contradiction|].
  destruct H as [->|H]; [simpl; rewrite xadd_nan_r; apply fold_xnorm_nan|apply IH; exact H].
Qed.

(* on finite vectors the extended kernels are the field kernels *)
Theorem xinner_fin u v : xinner (map Fin u) (map Fin v) = Fin (inner F zero add mul u v).
Proof.
  unfold KDefs.xinner, KDefs.inner. generalize zero as a.
  revert v; induction u as [|x u IH]; intros [|y v] a; simpl; try reflexivity. apply IH.
Qed.
Theorem xnorm2sq_fin v : xnorm2sq (map Fin v) = Fin (norm2sq F zero add mul v).
Proof.
  unfold KDefs.xnorm2sq, KDefs.norm2sq. generalize zero as a.
  induction v as [|x v IH]; intros a; simpl; [reflexivity|]. apply IH.
Qed.

(* distributed: Allreduce of the ranks' local results *)
Lemma xallreduce_nan l : In NaNv l -> xallreduce l = NaNv.
Proof.
  induction l as [|a l IH]; simpl; intros H; [contradiction|].
  destruct H as [->|H]; [reflexivity|rewrite IH by exact H; apply xadd_nan_r].
Qed.

Lemma in_split_by {A} parts (v : list A) x : length v = psum parts -> In x v ->
  exists blk, In blk (split_by parts v) /\ In x blk.
Proof.
  revert v; induction parts as [|m ps IH]; intros v Hl Hin; simpl in *.
  - destruct v; [contradiction|discriminate].
  - rewrite <- (firstn_skipn m v) in Hin. apply in_app_or in Hin. destruct Hin as [H|H].
    + exists (firstn m v). split; [left; reflexivity|exact H].
    + destruct (IH (skipn m v)) as (blk & H1 & H2); [rewrite skipn_length; lia|exact H|].
      exists blk. split; [right; exact H1|exact H2].
Qed.

Theorem xdnorm2sq_nan parts v : length v = psum parts -> In NaNv v -> xdnorm2sq parts v = NaNv.
Proof.
  intros Hl Hin. unfold KDefs.xdnorm2sq. apply xallreduce_nan.
  destruct (in_split_by parts v NaNv Hl Hin) as (blk & H1 & H2).
  apply in_map_iff. exists blk. split; [|exact H1].
  destruct blk as [|x blk]; [contradiction|]. apply xnorm2sq_nan. exact H2.
Qed.

Lemma split_by_map {A B} (f : A -> B) parts v : split_by parts (map f v) = map (map f) (split_by parts v).
Proof.
  revert v; induction parts as [|m ps IH]; intros v; simpl; [reflexivity|].
  rewrite firstn_map, skipn_map, IH. reflexivity.
Qed.

Theorem xdnorm2sq_fin parts v : xdnorm2sq parts (map Fin v) = Fin (dnorm2sq F zero add mul parts v).
Proof.
  unfold KDefs.xdnorm2sq, KDefs.dnorm2sq, allreduce_sum. rewrite split_by_map.
  induction (split_by parts v) as [|blk l IH]; simpl; [reflexivity|].
  rewrite IH. destruct blk as [|x blk]; [reflexivity|].
  change (map Fin (x :: blk)) with (@Fin F x :: map Fin blk) at 1.
  cbv beta iota. change (@Fin F x :: map Fin blk) with (map (@Fin F) (x :: blk)). rewrite xnorm2sq_fin. reflexivity.
Qed.

Lemma map2_in_nan parts u v :
  length u = psum parts -> length v = psum parts -> In NaNv u \/ In NaNv v ->
  In NaNv (map2 (fun ul vl => match ul with [] => Fin zero | _ => xinner ul vl end) (split_by parts u) (split_by parts v)).
Proof.
  revert u v; induction parts as [|m ps IH]; intros u v Hu Hv H; simpl in *.
  - destruct u; [|discriminate]. destruct v; [|discriminate]. destruct H; contradiction.
  - assert (Hl : length (firstn m u) = length (firstn m v)) by (rewrite !firstn_length; lia).
    assert (D : (In NaNv (firstn m u) \/ In NaNv (firstn m v)) \/ (In NaNv (skipn m u) \/ In NaNv (skipn m v))).
    { destruct H as [H|H]; [rewrite <- (firstn_skipn m u) in H|rewrite <- (firstn_skipn m v) in H];
        apply in_app_or in H; destruct H as [H|H]; [left; left|right; left|left; right|right; right]; exact H. }
    destruct D as [D|D].
    + left. destruct (firstn m u) as [|x0 fu] eqn:E.
      * destruct (firstn m v); [destruct D; contradiction|discriminate].
      * apply xinner_nan; assumption.
    + right. apply IH; [rewrite skipn_length; lia|rewrite skipn_length; lia|exact D].
Qed.

Theorem xdinner_nan parts u v : length u = psum parts -> length v = psum parts ->
  In NaNv u \/ In NaNv v -> xdinner parts u v = NaNv.
Proof. intros Hu Hv H. unfold KDefs.xdinner. apply xallreduce_nan. apply map2_in_nan; assumption. Qed.

(* a non-finite norm never satisfies `norm_r > tol`: the solver loops leave at once *)
Lemma xgt_nan t : xgt F ltb NaNv t = false.
Proof. reflexivity. Qed.

End XFacts.
