(* Executable model of raptor's Krylov solvers (raptor/krylov/{cg,par_cg,bicgstab,par_bicgstab}.cpp)
   and of the vector kernels they are built on (raptor/core/{vector,par_vector}.cpp).

   Conventions (DESIGN.md section 3):
   * arithmetic over an abstract field F (Section variables), executed at Qc;
   * no sqrt: every norm is carried as its square.  `norm_r > tol` (both sides >= 0) is the comparison of
     the squares; `tol` is the user's tolerance, the model squares it;
   * a floating-point division by zero produces a non-finite value in the C++; the model's `fdiv`
     returns None there and the step function propagates None ("non-finite values produced");
   * the operator: `mulA x` is A*x and `residA x b` is what `A->residual(x, b, r)` writes (b - A*x);
     instantiated with `csr_spmv` / `csr_residual` of Sparse/Defs.v for extraction;
   * a distributed vector is the global list plus the partition (list of local sizes, zeros allowed);
     rank-local kernels act on the blocks, collectives are sums over the ranks. *)
From Raptor Require Import Base.Sums.

(* ---------------- generic bounded while-loop with a partial step ---------------- *)
Section Loop.
Variable St : Type.
Variable cont : St -> bool.          (* the loop condition, evaluated on the current state *)
Variable step : St -> option St.      (* one pass through the body; None = non-finite values produced *)

Inductive outcome : Type :=
| Done (s : St)      (* loop left normally: condition false, or the fuel (iteration limit) is used up *)
| Broke (s : St).     (* the body executed on s divided by zero *)

Fixpoint run (fuel : nat) (s : St) : outcome :=
  match fuel with
  | O => Done s
  | S f => if cont s then match step s with Some s' => run f s' | None => Broke s end
                     else Done s
  end.

(* the k-th iterate of the body, ignoring the loop condition *)
Fixpoint iter_n (k : nat) (s : St) : option St :=
  match k with
  | O => Some s
  | S k' => match step s with Some s' => iter_n k' s' | None => None end
  end.
End Loop.
Arguments Done {St}. Arguments Broke {St}.
Arguments run {St}. Arguments iter_n {St}.

(* ---------------- vectors ---------------- *)
Section Vec.
Variable F : Type.
Variables (zero one : F) (add mul sub : F -> F -> F) (opp : F -> F) (div : F -> F -> F).
Variable eqb : F -> F -> bool.      (* a == b *)
Variable ltb : F -> F -> bool.      (* a <  b *)

Notation "0" := zero.
Notation "1" := one.
Infix "+" := add.
Infix "*" := mul.
Infix "-" := sub.

Fixpoint map2 {A B C} (f : A -> B -> C) (u : list A) (v : list B) : list C :=
  match u, v with
  | a :: u', b :: v' => f a b :: map2 f u' v'
  | _, _ => []
  end.

(* Vector::axpy  : values[i] += x.values[i]*alpha *)
Definition axpy (y x : list F) (alpha : F) : list F := map2 (fun yi xi => yi + xi * alpha) y x.
(* Vector::scale : values[i] *= alpha *)
Definition vscale (y : list F) (alpha : F) : list F := map (fun yi => yi * alpha) y.
Definition vsub (u v : list F) : list F := map2 sub u v.
(* Vector::inner_product : result = 0; result += values[i]*x[i] *)
Definition inner (u v : list F) : F := fold_left add (map2 mul u v) 0.
(* Vector::norm(2) squared : result += pow(val, 2) over every entry *)
Definition norm2sq (v : list F) : F :=
  fold_left (fun acc x => acc + x * x) v 0.

Definition fdiv (a b : F) : option F := if eqb b 0 then None else Some (div a b).

(* ---- distributed vectors: blocks of the global vector ---- *)
Fixpoint split_by {A} (parts : list nat) (v : list A) : list (list A) :=
  match parts with
  | [] => []
  | n :: ps => firstn n v :: split_by ps (skipn n v)
  end.

(* MPI_Allreduce(SUM) of one value per rank *)
Definition allreduce_sum (l : list F) : F := sumf F zero add l.

(* ParVector::inner_product : if (local_n) inner_prod = local.inner_product(x.local); Allreduce *)
Definition dinner (parts : list nat) (u v : list F) : F :=
  allreduce_sum (map2 (fun ul vl => match ul with [] => 0 | _ => inner ul vl end)
                      (split_by parts u) (split_by parts v)).
(* ParVector::norm(2) squared : if (local_n) result = pow(local.norm(2), 2); Allreduce *)
Definition dnorm2sq (parts : list nat) (v : list F) : F :=
  allreduce_sum (map (fun vl => match vl with [] => 0 | _ => norm2sq vl end) (split_by parts v)).
(* ParVector::axpy / scale : if (local_n) local.axpy(...) *)
Definition daxpy (parts : list nat) (y x : list F) (alpha : F) : list F :=
  concat (map2 (fun yl xl => match yl with [] => yl | _ => axpy yl xl alpha end)
               (split_by parts y) (split_by parts x)).
Definition dscale (parts : list nat) (y : list F) (alpha : F) : list F :=
  concat (map (fun yl => match yl with [] => yl | _ => vscale yl alpha end) (split_by parts y)).

(* the vector kernels a solver uses: sequential (Vector) or distributed (ParVector) *)
Record vops := mkOps {
  o_inner : list F -> list F -> F;
  o_norm2sq : list F -> F;
  o_axpy : list F -> list F -> F -> list F;
  o_scale : list F -> F -> list F }.
Definition seq_ops : vops := mkOps inner norm2sq axpy vscale.
Definition dist_ops (parts : list nat) : vops :=
  mkOps (dinner parts) (dnorm2sq parts) (daxpy parts) (dscale parts).

(* ---------------- the solvers ---------------- *)
Section Solvers.
Variable mulA : list F -> list F.                 (* A->mult(x, .) *)
Variable residA : list F -> list F -> list F.     (* A->residual(x, b, .) = b - A x *)
Variable ops : vops.
Variable b : list F.
Variable tol : F.

Definition tol2 : F := tol * tol.
(* `if (norm_r != 0.0) tol = tol * norm_r;` in squares *)
Definition thresh (n0sq : F) : F := if eqb n0sq 0 then tol2 else tol2 * n0sq.

(* ---- CG (cg.cpp, and CG of par_cg.cpp) ---- *)
Record cg_state := mkCg {
  cg_x : list F; cg_r : list F; cg_p : list F;
  cg_rr : F;                (* rr_inner; norm_r = sqrt(rr_inner) *)
  cg_iter : nat;
  cg_hist : list F;         (* squares of the values pushed into res (before the distributed scaling), oldest first *)
  cg_indef : bool }.        (* App_inner < 0 was seen: the C++ prints a message and calls exit(-1) *)

Definition cg_init (x0 : list F) : cg_state :=
  let r := residA x0 b in
  let rr := o_inner ops r r in
  mkCg x0 r r rr 0 [rr] false.

Definition cg_thr (x0 : list F) : F := thresh (cg_rr (cg_init x0)).

(* while (norm_r > tol && iter < max_iter): the iteration bound is the fuel of `run` *)
Definition cg_cont (thr : F) (s : cg_state) : bool := negb (cg_indef s) && ltb thr (cg_rr s).

Definition cg_step (s : cg_state) : option cg_state :=
  let Ap := mulA (cg_p s) in
  let App := o_inner ops Ap (cg_p s) in
  if ltb App 0 then Some (mkCg (cg_x s) (cg_r s) (cg_p s) (cg_rr s) (cg_iter s) (cg_hist s) true)
  else
  match fdiv (cg_rr s) App with
  | None => None
  | Some alpha =>
    let x' := o_axpy ops (cg_x s) (cg_p s) alpha in
    (* if ((iter % recompute_r) && iter > 0) r.axpy(Ap, -1.0*alpha); else A->residual(x, b, r); *)
    let r' := if Nat.eqb (cg_iter s mod 8) 0 then residA x' b
              else o_axpy ops (cg_r s) Ap (opp 1 * alpha) in
    let next := o_inner ops r' r' in
    match fdiv next (cg_rr s) with
    | None => None
    | Some beta =>
      let p' := o_axpy ops (o_scale ops (cg_p s) beta) r' 1 in
      Some (mkCg x' r' p' next (S (cg_iter s)) (cg_hist s ++ [next]) false)
    end
  end.

Definition cg_run (max_iter : nat) (x0 : list F) : outcome cg_state :=
  run (cg_cont (cg_thr x0)) cg_step max_iter (cg_init x0).

(* ---- BiCGStab (bicgstab.cpp, and BiCGStab of par_bicgstab.cpp) ---- *)
Record bi_state := mkBi {
  bi_x : list F; bi_r : list F;
  bi_p : option (list F);   (* None: beta was non-finite, p holds non-finite values (harmless unless the loop goes on) *)
  bi_rrs : F;               (* (r, rstar) *)
  bi_nsq : F;               (* norm_r squared = r.norm(2)^2 *)
  bi_iter : nat;
  bi_hist : list F }.

Definition bi_init (x0 : list F) : bi_state :=
  let r := residA x0 b in
  let nsq := o_norm2sq ops r in
  mkBi x0 r (Some r) (o_inner ops r r) nsq 0 [nsq].

Definition bi_thr (x0 : list F) : F := thresh (bi_nsq (bi_init x0)).
Definition bi_cont (thr : F) (s : bi_state) : bool := ltb thr (bi_nsq s).

(* the half step s_i = r_i - alpha_i A p_i (exposed for the half-step breakdown statement) *)
Definition bi_half (rstar : list F) (s : bi_state) : option (F * list F * list F * list F) :=
  match bi_p s with
  | None => None
  | Some p =>
    let Ap := mulA p in
    match fdiv (bi_rrs s) (o_inner ops Ap rstar) with
    | None => None
    | Some alpha => Some (alpha, p, Ap, o_axpy ops (bi_r s) Ap (opp 1 * alpha))
    end
  end.

(* seqform = true : p.axpy(Ap, -omega); p.scale(beta); p.axpy(r, 1)             (bicgstab.cpp)
   seqform = false: p.scale(beta); p.axpy(r, 1); p.axpy(Ap, -1.0*beta*omega)   (par_bicgstab.cpp) *)
Definition bi_step (seqform : bool) (rstar : list F) (s : bi_state) : option bi_state :=
  match bi_half rstar s with
  | None => None
  | Some (alpha, p, Ap, sv) =>
    let As := mulA sv in
    let As_inner := o_inner ops As sv in
    let AsAs_inner := o_inner ops As As in
    match fdiv As_inner AsAs_inner with
    | None => None
    | Some omega =>
      let x' := o_axpy ops (o_axpy ops (bi_x s) p alpha) sv omega in
      let r' := o_axpy ops sv As (opp 1 * omega) in
      let next := o_inner ops rstar r' in
      (* beta = (next / rrstar) * (alpha / omega) *)
      let p' := match fdiv next (bi_rrs s), fdiv alpha omega with
                | Some q1, Some q2 =>
                  let beta := q1 * q2 in
                  Some (if seqform
                        then o_axpy ops (o_scale ops (o_axpy ops p Ap (opp omega)) beta) r' 1
                        else o_axpy ops (o_axpy ops (o_scale ops p beta) r' 1) Ap (opp 1 * beta * omega))
                | _, _ => None
                end in
      let nsq := o_norm2sq ops r' in
      Some (mkBi x' r' p' next nsq (S (bi_iter s)) (bi_hist s ++ [nsq]))
    end
  end.

Definition bi_run (seqform : bool) (max_iter : nat) (x0 : list F) : outcome bi_state :=
  let s0 := bi_init x0 in
  run (bi_cont (bi_thr x0)) (bi_step seqform (bi_r s0)) max_iter s0.

(* ---- PCG (par_cg.cpp); prec r = the z produced by  z.set_const_value(0); ml->cycle(z, r) ---- *)
Variable prec : list F -> list F.
Variable ztol2 : F.          (* zero_tol squared *)

Record pcg_state := mkPcg {
  pc_x : list F; pc_r : list F; pc_p : list F;
  pc_rz : F;                (* rz_inner *)
  pc_iter : nat;            (* value of `iter` (already incremented iterations) *)
  pc_hist : list F;         (* entry 0: rz_0 (the code pushes sqrt(rz_0)); entry k>0: next_inner / b_inner as pushed *)
  pc_stop : bool;           (* `break` taken *)
  pc_indef : bool }.

Definition pcg_binner : F := o_inner ops b (prec b).

(* next_inner < tol', with  tol' = tol*sqrt(b_inner) if sqrt(b_inner) > zero_tol else tol   (tol, b_inner >= 0) *)
Definition pcg_test (next : F) : bool :=
  if ltb ztol2 pcg_binner
  then ltb next 0 || ltb (next * next) (tol2 * pcg_binner)
  else ltb next tol.

Definition pcg_init (x0 : list F) : pcg_state :=
  let r := residA x0 b in
  let z := prec r in
  let rz := o_inner ops r z in
  mkPcg x0 r z rz 0 [rz] false false.

Definition pcg_cont (s : pcg_state) : bool := negb (pc_stop s) && negb (pc_indef s).

Definition pcg_step (s : pcg_state) : option pcg_state :=
  let it := S (pc_iter s) in
  let Ap := mulA (pc_p s) in
  let App := o_inner ops Ap (pc_p s) in
  if ltb App 0 then Some (mkPcg (pc_x s) (pc_r s) (pc_p s) (pc_rz s) (pc_iter s) (pc_hist s) false true)
  else
  match fdiv (pc_rz s) App with
  | None => None
  | Some alpha =>
    let x' := o_axpy ops (pc_x s) (pc_p s) alpha in
    let full_r := Nat.eqb (it mod 8) 0 in
    let r' := if full_r then residA x' b else o_axpy ops (pc_r s) Ap (opp 1 * alpha) in
    let z' := prec r' in
    let next := o_inner ops r' z' in
    match fdiv next pcg_binner with
    | None => None                                   (* res.emplace_back(next_inner/b_inner) is non-finite *)
    | Some rep =>
      let hist' := pc_hist s ++ [rep] in
      if pcg_test next then Some (mkPcg x' r' (pc_p s) (pc_rz s) it hist' true false)
      else if full_r then Some (mkPcg x' r' z' next it hist' false false)
      else match fdiv next (pc_rz s) with
           | None => None
           | Some beta => Some (mkPcg x' r' (o_axpy ops (o_scale ops (pc_p s) beta) z' 1) next it hist' false false)
           end
    end
  end.

Definition pcg_run (max_iter : nat) (x0 : list F) : outcome pcg_state :=
  run pcg_cont pcg_step max_iter (pcg_init x0).

End Solvers.

(* max_iter <= 0 defaults *)
Definition default_iters_13 (n : nat) : nat := (13 * n) / 10 + 2.     (* ((int)(1.3*n)) + 2 *)
Definition default_iters_seq_bicgstab (n : nat) : nat := n + 5.       (* x.size() + 5 *)

(* what the distributed CG pushes: norm_r / b_norm, b_norm = b.norm(2), `if (b_norm < zero_tol) b_norm = 1.0`;
   in squares *)
Definition par_cg_scale (parts : list nat) (ztol2 : F) (b : list F) : F :=
  let bn := dnorm2sq parts b in if ltb bn ztol2 then 1 else bn.
(* the squares of the values in `res` after the distributed CG, from the model's history of <r_k, r_k> *)
Definition par_cg_reported (parts : list nat) (ztol2 : F) (b : list F) (hist : list F) : list F :=
  map (fun h => div h (par_cg_scale parts ztol2 b)) hist.

End Vec.
Arguments cg_x {F}. Arguments cg_r {F}. Arguments cg_p {F}. Arguments cg_rr {F}. Arguments cg_iter {F}.
Arguments cg_hist {F}. Arguments cg_indef {F}. Arguments mkCg {F}.
Arguments bi_x {F}. Arguments bi_r {F}. Arguments bi_p {F}. Arguments bi_rrs {F}. Arguments bi_nsq {F}.
Arguments bi_iter {F}. Arguments bi_hist {F}. Arguments mkBi {F}.
Arguments pc_x {F}. Arguments pc_r {F}. Arguments pc_p {F}. Arguments pc_rz {F}. Arguments pc_iter {F}.
Arguments pc_hist {F}. Arguments pc_stop {F}. Arguments pc_indef {F}. Arguments mkPcg {F}.
Arguments o_inner {F}. Arguments o_norm2sq {F}. Arguments o_axpy {F}. Arguments o_scale {F}. Arguments mkOps {F}.
Arguments map2 {A B C}. Arguments split_by {A}.

(* ---------------- extended values: finite or not ---------------- *)
Section XVal.
Variable F : Type.
Variables (zero : F) (add mul div : F -> F -> F).
Variable eqb : F -> F -> bool.
Variable ltb : F -> F -> bool.
Inductive xval : Type := Fin (q : F) | NaNv.

Definition xadd (a b : xval) : xval := match a, b with Fin x, Fin y => Fin (add x y) | _, _ => NaNv end.
Definition xmul (a b : xval) : xval := match a, b with Fin x, Fin y => Fin (mul x y) | _, _ => NaNv end.
Definition xdiv (a b : xval) : xval :=
  match a, b with Fin x, Fin y => if eqb y zero then NaNv else Fin (div x y) | _, _ => NaNv end.
(* a > b : false as soon as one side is not finite *)
Definition xgt (a b : xval) : bool := match a, b with Fin x, Fin y => ltb y x | _, _ => false end.
Definition xfinite (a : xval) : bool := match a with Fin _ => true | NaNv => false end.

(* Vector::inner_product and Vector::norm(2)^2 over extended values *)
Definition xinner (u v : list xval) : xval := fold_left xadd (map2 xmul u v) (Fin zero).
Definition xnorm2sq (v : list xval) : xval :=
  fold_left (fun acc x => xadd acc (xmul x x)) v (Fin zero).
(* ParVector versions *)
Definition xallreduce (l : list xval) : xval := fold_right xadd (Fin zero) l.
Definition xdinner (parts : list nat) (u v : list xval) : xval :=
  xallreduce (map2 (fun ul vl => match ul with [] => Fin zero | _ => xinner ul vl end)
                   (split_by parts u) (split_by parts v)).
Definition xdnorm2sq (parts : list nat) (v : list xval) : xval :=
  xallreduce (map (fun vl => match vl with [] => Fin zero | _ => xnorm2sq vl end) (split_by parts v)).
End XVal.
Arguments Fin {F}. Arguments NaNv {F}.
