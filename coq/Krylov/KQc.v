(* The executed instance (Qc, CSR operator) satisfies the hypotheses of the Krylov theorems; concrete runs used
   by the _nonvacuous / _refuted statements of Props/Properties_C17.v. *)
From Coq Require Import QArith Qcanon Qcabs Field.
From Raptor Require Import Base.Sums Sparse.Defs Krylov.KDefs Krylov.KProofs Krylov.KCsr Extract.Inst Extract.Inst_krylov.
Local Open Scope Qc_scope.

Lemma Qc_eqb_spec a c : Qc_eqb a c = true <-> a = c.
Proof.
  unfold Qc_eqb. rewrite Qceq_alt. destruct (a ?= c); split; intros H; try reflexivity; try discriminate.
Qed.

Lemma Qc_ltb_spec a c : Qc_ltb a c = true <-> flt Qc Qcle a c.
Proof.
  unfold Qc_ltb, flt. split.
  - intros H. assert (L : a < c) by (apply Qclt_alt; destruct (a ?= c); try discriminate; reflexivity).
    split; [apply Qclt_le_weak; exact L|apply Qclt_not_eq; exact L].
  - intros [H1 H2]. destruct (Qcle_lt_or_eq _ _ H1) as [H|H]; [|contradiction].
    assert (E : (a ?= c) = Lt) by (apply Qclt_alt; exact H). rewrite E. reflexivity.
Qed.

Lemma Qcle_total a c : a <= c \/ c <= a.
Proof. destruct (Qclt_le_dec a c) as [H|H]; [left; apply Qclt_le_weak; exact H|right; exact H]. Qed.
Lemma Qcle_add a c d : a <= c -> a + d <= c + d.
Proof. intros H. apply Qcplus_le_compat; [exact H|apply Qcle_refl]. Qed.
Lemma Qcle_mul a c : 0 <= a -> 0 <= c -> 0 <= a * c.
Proof. intros Ha Hc. replace 0 with (0 * c) by ring. apply Qcmult_le_compat_r; assumption. Qed.

(* ---- a 1x1 SPD system: all hypotheses of the CG statements hold ---- *)
Definition A1 : csr Qc := mkCsr 1%nat 1%nat (((O, Q2Qc 2) :: nil) :: nil).
Definition two : Qc := Q2Qc 2.

Lemma len1 (v : list Qc) : length v = 1%nat -> exists a, v = a :: nil.
Proof. destruct v as [|a [|c v]]; simpl; intros H; try discriminate. exists a; reflexivity. Qed.

Lemma A1_mul a : q_csr_spmv A1 (a :: nil) = (0 + two * a) :: nil.
Proof. reflexivity. Qed.

Lemma A1_sym u v : length u = 1%nat -> length v = 1%nat ->
  q_inner (q_csr_spmv A1 u) v = q_inner u (q_csr_spmv A1 v).
Proof.
  intros Hu Hv. destruct (len1 u Hu) as [a ->]. destruct (len1 v Hv) as [c ->].
  rewrite !A1_mul. unfold q_inner, inner. simpl. ring.
Qed.

Lemma two_pos : 0 < two.
Proof. reflexivity. Qed.

Lemma A1_spd v : length v = 1%nat -> v <> repeat 0 1 -> flt Qc Qcle 0 (q_inner (q_csr_spmv A1 v) v).
Proof.
  intros Hv Hne. destruct (len1 v Hv) as [a ->]. rewrite A1_mul. unfold q_inner, inner. simpl.
  assert (Ha : a <> 0) by (intros ->; apply Hne; reflexivity).
  replace (0 + (0 + two * a) * a) with (two * (a * a)) by ring.
  assert (Hsq : 0 <= a * a).
  { apply (sq_nonneg Qc 0 1 Qcplus Qcmult Qcminus Qcopp Qcdiv Qcinv Qcft Qcle Qcle_total Qcle_add Qcle_mul). }
  split.
  - apply Qcle_mul; [apply Qclt_le_weak; exact two_pos|exact Hsq].
  - intros E. symmetry in E. apply Qcmult_integral in E. destruct E as [E|E]; [discriminate|].
    apply Qcmult_integral in E. destruct E; contradiction.
Qed.

(* ---- concrete runs ---- *)
Definition A2 : csr Qc := mkCsr 2%nat 2%nat (((0%nat, Q2Qc 2) :: (1%nat, Q2Qc (-1)) :: nil) :: ((0%nat, Q2Qc (-1)) :: (1%nat, Q2Qc 2) :: nil) :: nil).
Definition qv (l : list Z) : list Qc := map (fun z => Q2Qc (inject_Z z)) l.
Definition tol10 : Qc := Q2Qc (1 # 1024).
Fixpoint veqb (u v : list Qc) : bool :=
  match u, v with
  | nil, nil => true
  | a :: u', c :: v' => Qc_eqb a c && veqb u' v'
  | _, _ => false
  end.
Definition is_broke {S} (o : outcome S) : bool := match o with Broke _ => true | Done _ => false end.

(* CG on [[2,-1],[-1,2]] x = (1,2) from 0: two iterations, x = (4/3, 5/3), history 5, 5/4, 0 *)
Lemma cg_example :
  match q_cg_run A2 q_seq_ops (qv (1 :: 2 :: nil)%Z) tol10 10 (qv (0 :: 0 :: nil)%Z) with
  | Done s => veqb (cg_x s) (Q2Qc (4 # 3) :: Q2Qc (5 # 3) :: nil) && Nat.eqb (cg_iter s) 2 &&
              veqb (cg_hist s) (Q2Qc 5 :: Q2Qc (5 # 4) :: 0 :: nil)
  | Broke _ => false
  end = true.
Proof. vm_compute. reflexivity. Qed.

(* the same system distributed over (1,0,1): identical outcome *)
Lemma cg_dist_example :
  match q_cg_run A2 (q_dist_ops (1 :: 0 :: 1 :: nil)%nat) (qv (1 :: 2 :: nil)%Z) tol10 10 (qv (0 :: 0 :: nil)%Z) with
  | Done s => veqb (cg_x s) (Q2Qc (4 # 3) :: Q2Qc (5 # 3) :: nil) && Nat.eqb (cg_iter s) 2
  | Broke _ => false
  end = true.
Proof. vm_compute. reflexivity. Qed.

(* BiCGStab on the 1x1 system 2 x = 1 from 0: the half step is exact, omega = 0/0 *)
Lemma bicgstab_halfstep_example :
  is_broke (q_bi_run A1 q_seq_ops (qv (1 :: nil)%Z) tol10 true 10 (qv (0 :: nil)%Z)) = true /\
  is_broke (q_bi_run A1 (q_dist_ops (0 :: 1 :: nil)%nat) (qv (1 :: nil)%Z) tol10 false 10 (qv (0 :: nil)%Z)) = true.
Proof. split; vm_compute; reflexivity. Qed.

(* a non-symmetric diagonally dominant 2x2 system on which BiCGStab runs two clean iterations *)
Definition A3 : csr Qc := mkCsr 2%nat 2%nat (((0%nat, Q2Qc 4) :: (1%nat, Q2Qc (-1)) :: nil) :: ((0%nat, Q2Qc (-2)) :: (1%nat, Q2Qc 5) :: nil) :: nil).
Lemma bicgstab_example :
  match q_bi_run A3 q_seq_ops (qv (1 :: 2 :: nil)%Z) tol10 true 1 (qv (0 :: 0 :: nil)%Z) with
  | Done s => Nat.eqb (bi_iter s) 1 && Nat.eqb (length (bi_hist s)) 2
  | Broke _ => false
  end = true.
Proof. vm_compute. reflexivity. Qed.

(* PCG (identity preconditioner) started at the exact solution of 2 x = 2: alpha = 0/0 *)
Lemma pcg_exact_start_example :
  is_broke (q_pcg_run A1 ((1 :: nil) :: nil) (q_dist_ops (1 :: nil)%nat) (qv (2 :: nil)%Z) tol10 5 (qv (1 :: nil)%Z)) = true.
Proof. vm_compute. reflexivity. Qed.

(* PCG from 0 on the same system: one iteration, break taken *)
Lemma pcg_example :
  match q_pcg_run A1 ((1 :: nil) :: nil) (q_dist_ops (1 :: nil)%nat) (qv (2 :: nil)%Z) tol10 5 (qv (0 :: nil)%Z) with
  | Done s => veqb (pc_x s) (1 :: nil) && pc_stop s && Nat.eqb (pc_iter s) 1
  | Broke _ => false
  end = true.
Proof. vm_compute. reflexivity. Qed.
