(* Runs the extracted C15 model (MIS-2, aggregation) and the verified checkers on a case file.
     <cid> seq <mode> <A csr literal> <S csr literal> <nk> keys[nk] [states[n] when mode = given]
        -> <cid> R ST <n> states.. AG <n_aggs> <len> aggs..          (or  <cid> R NONE)
     <cid> chk <kind> <S csr literal> <n> states[n] <m> aggs[m] <n_aggs>
        kind = seq : agg_ok (ids = rank of the root)   kind = glob : agg_ok_glob (ids = root's global index)
        -> <cid> C WF b SYM b REFL b DEC b IND b MAX b MIS b AGG b *)
open Model
open Conv

let rec int_of_pos = function XH -> 1 | XO p -> 2 * int_of_pos p | XI p -> 2 * int_of_pos p + 1
let int_of_z = function Z0 -> 0 | Zpos p -> int_of_pos p | Zneg p -> - (int_of_pos p)
let zs_str l = String.concat " " (List.map (fun z -> string_of_int (int_of_z z)) l)
let b_str b = if b then "1" else "0"

(* csr literal: csr nr nc nnz ptr[nr+1] cols[nnz] vals[nnz] -> rows of (col, val) *)
let parse_csr (t : toks) : (nat * qc) list list =
  let fmt = next t in
  if fmt <> "csr" then failwith ("format " ^ fmt);
  let nr = next_int t in let _nc = next_int t in let nnz = next_int t in
  let p = next_ints t (nr + 1) in let c = next_ints t nnz in let v = next_qs t nnz in
  split_by_ptr p (List.combine (List.map nat_of_int c) v)
let pattern rows = List.map (List.map fst) rows

let run_case cid (t : toks) =
  let op = next t in
  match op with
  | "seq" ->
    let mode = next t in
    let a = parse_csr t in let s = pattern (parse_csr t) in
    let n = List.length s in
    let nk = next_int t in let keys = next_qs t nk in
    let r = if nk = 0 then List.init n (fun _ -> q_of_int 0) else keys in
    let states =
      if mode = "mis" then (match q_mis2 s keys with Some st -> Some (List.map st_code st) | None -> None)
      else Some (List.map z_of_int (next_ints t n)) in
    (match states with
     | None -> Printf.printf "%s R NONE mis2\n" cid
     | Some st ->
       (match q_aggregate a s st r with
        | None -> Printf.printf "%s R NONE aggregate ST %d %s\n" cid (List.length st) (zs_str st)
        | Some (ag, na) ->
          Printf.printf "%s R ST %d %s AG %d %d %s\n" cid (List.length st) (zs_str st)
            (int_of_nat na) (List.length ag) (zs_str ag)))
  | "chk" ->
    let kind = next t in
    let s = pattern (parse_csr t) in
    let n = next_int t in let st = List.map z_of_int (next_ints t n) in
    let m = next_int t in let ag = List.map z_of_int (next_ints t m) in
    let na = next_nat t in
    let aggok = (match kind with "seq" -> agg_ok s st ag na | "glob" -> agg_ok_glob s st ag na
                                | _ -> failwith ("kind " ^ kind)) in
    Printf.printf "%s C WF %s SYM %s REFL %s DEC %s IND %s MAX %s MIS %s AGG %s\n" cid
      (b_str (graph_wfb s)) (b_str (symmetricb s)) (b_str (reflexiveb s))
      (b_str (decidedb s st)) (b_str (indep2b s st)) (b_str (maximal2b s st)) (b_str (mis_ok s st)) (b_str aggok)
  | _ -> Printf.printf "%s UNSUPPORTED %s\n" cid op

let () =
  let ic = open_in Sys.argv.(1) in
  (try while true do
      let line = input_line ic in
      if String.length line > 0 && line.[0] <> '#' then begin
        let t = { rest = List.filter (fun s -> s <> "") (String.split_on_char ' ' line) } in
        let cid = next t in
        (try run_case cid t with
         | Failure m -> Printf.printf "%s ERR %s\n" cid m
         | Not_found -> Printf.printf "%s ERR notfound\n" cid
         | Invalid_argument m -> Printf.printf "%s ERR %s\n" cid m)
      end
    done with End_of_file -> ());
  close_in ic
