(* Runs the extracted C/F-splitting model (family `split`, C13) on a case file; one result line per case.
     <cid> seq <rs|rs1|cljp|pmis> n (k c1..ck)*n w1..wn          -> <cid> ST labels
     <cid> par <rs|pmis|hmis|cljp|falgout> tap <ParLit> w1..wn   -> <cid> PST L n labels R P (k views)*   | NOMODEL
     <cid> check <rs 0|1> n (k c1..ck)*n l1..ln                  -> <cid> OK all total f_has_c c_and_f   (verified checker)
*)
open Model
open Conv

let label_of_int = function
  | -1 -> LU | -2 -> LN | 1 -> LC | 0 -> LF | 3 -> LNC | 2 -> LNF | _ -> LNC
let int_of_label = function LU -> -1 | LN -> -2 | LC -> 1 | LF -> 0 | LNC -> 3 | LNF -> 2
let labels_str l = String.concat " " (List.map (fun x -> string_of_int (int_of_label x)) l)
let b2s b = if b then "1" else "0"

let parse_graph t n = take n (fun () -> let k = next_int t in next_nats t k)

let parse_parlit t =
  let nr = next_int t in let _nc = next_int t in let p = next_int t in
  if p <= 0 then failwith "explicit partition required";
  let frow = next_ints t (p + 1) in let _fcol = next_ints t (p + 1) in
  let nnz = next_int t in
  let rows = Array.make nr [] in
  for _ = 1 to nnz do
    let i = next_int t in let j = next_int t in let v = next t in
    if v = "1" then rows.(i) <- j :: rows.(i)        (* other values: weak couplings of A, not part of the strength graph *)
  done;
  let g = Array.to_list (Array.map (fun r -> List.map nat_of_int (List.rev r)) rows) in
  let rec diffs = function a :: (b :: _ as tl) -> nat_of_int (b - a) :: diffs tl | _ -> [] in
  (nr, g, diffs frow)

let run_case cid (t : toks) =
  let kind = next t in
  match kind with
  | "seq" ->
    let algo = next t in let n = next_int t in
    let g = parse_graph t n in let w = next_qs t n in
    if not (graph_wfb g) then Printf.printf "%s ILLFORMED\n" cid else begin
      let fuel = nat_of_int n in
      let r = (match algo with
          | "rs" -> Some (split_rs g)
          | "rs1" -> Some (split_rs_gen g None false)
          | "cljp" -> q_split_cljp g w fuel
          | "pmis" -> q_split_pmis g w fuel
          | _ -> failwith ("algo " ^ algo)) in
      match r with
      | Some st -> Printf.printf "%s ST %s\n" cid (labels_str st)
      | None -> Printf.printf "%s NOFUEL\n" cid end
  | "par" | "parw" ->
    let algo = next t in let _tap = next_int t in
    let (n, g, part) = parse_parlit t in
    let w = next_qs t n in
    if not (graph_wfb g) then Printf.printf "%s ILLFORMED\n" cid else begin
      let fuel = nat_of_int n in
      let views_str vs = String.concat " " (List.map (fun v -> string_of_int (List.length v) ^ (if v = [] then "" else " " ^ labels_str v)) vs) in
      let bs = block_starts O part in
      let all_views st =   (* views after a plain exchange of the final labels *)
        List.map (fun b ->
            let lo = int_of_nat (fst b) and k = int_of_nat (snd b) in
            let inb c = let c = int_of_nat c in c >= lo && c < lo + k in
            let rows = List.filteri (fun i _ -> i >= lo && i < lo + k) g in
            let cols = List.sort_uniq compare (List.map int_of_nat (List.filter (fun c -> not (inb c)) (List.concat rows))) in
            List.map (fun c -> List.nth st c) cols) bs in
      match algo with
      | "rs" ->
        let st = par_split_rs g part in
        Printf.printf "%s PST L %d %s R %d %s\n" cid n (labels_str st) (List.length part) (views_str (all_views st))
      | "pmis" | "hmis" ->
        (match (if algo = "pmis" then q_par_split_pmis g part w fuel else q_par_split_hmis g part w fuel) with
         | Some (views, st) ->
           Printf.printf "%s PST L %d %s R %d %s\n" cid n (labels_str st) (List.length part) (views_str views)
         | None -> Printf.printf "%s PROTOCOL_OR_NOFUEL\n" cid)
      | _ -> Printf.printf "%s NOMODEL\n" cid end
  | "check" ->
    let rs = next_int t in let n = next_int t in
    let g = parse_graph t n in
    let st = List.map label_of_int (next_ints t n) in
    if not (graph_wfb g) then Printf.printf "%s ILLFORMED\n" cid else begin
      let r = off_rows g in
      Printf.printf "%s OK %s %s %s %s\n" cid (b2s (split_ok (rs <> 0) g st))
        (b2s (total_okb r st)) (b2s (f_has_c_okb r st)) (b2s (c_and_f_okb r st)) end
  | _ -> Printf.printf "%s UNSUPPORTED %s\n" cid kind

let () =
  let ic = open_in Sys.argv.(1) in
  (try while true do
      let line = input_line ic in
      if String.length line > 0 && line.[0] <> '#' then begin
        let t = { rest = List.filter (fun s -> s <> "") (String.split_on_char ' ' line) } in
        let cid = next t in
        (try run_case cid t with
         | Failure m -> Printf.printf "%s ERR %s\n" cid m
         | Not_found -> Printf.printf "%s ERR notfound\n" cid
         | Invalid_argument m -> Printf.printf "%s ERR %s\n" cid m)
      end
    done with End_of_file -> ());
  close_in ic
