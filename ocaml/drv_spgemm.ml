(* Runs the extracted SpGEMM model (family spgemm, property C06) on a case file. *)
open Model
open Conv
open Mat

let to_smat (m : mat) : qc smat = match m with
  | Mat.MCoo a -> Model.MCoo a | Mat.MCsr a -> Model.MCsr a | Mat.MCsc a -> Model.MCsc a

let parse_map t : nat list option =
  let n = next_int t in
  if n < 0 then None else Some (next_nats t n)

(* distributed literal: nr nc P first_rows[P+1] first_cols[P+1] nnz (i j v)*  (triples distinct, sorted by row then column) *)
type parlit = { nr : int; nc : int; np : int; prow : nat list; pcol : nat list; m : qc csr }
let sizes_of firsts =
  let rec go = function a :: (b :: _ as tl) -> nat_of_int (b - a) :: go tl | _ -> [] in go firsts
let parse_parlit t : parlit =
  let nr = next_int t in let nc = next_int t in let np = next_int t in
  if np <= 0 then failwith "default partition not supported by the model driver";
  let fr = next_ints t (np + 1) in let fc = next_ints t (np + 1) in
  let nnz = next_int t in
  let rows = Array.make nr [] in
  for _ = 1 to nnz do
    let i = next_int t in let j = next_int t in let v = next_q t in
    rows.(i) <- (nat_of_int j, v) :: rows.(i)
  done;
  { nr; nc; np; prow = sizes_of fr; pcol = sizes_of fc;
    m = { csr_nr = nat_of_int nr; csr_nc = nat_of_int nc; csr_rows = Array.to_list (Array.map List.rev rows) } }

let ent_str l = String.concat " " (List.map (fun (c, v) -> string_of_int (int_of_nat c) ^ " " ^ q_str v) l)
let nth_row (c : qc csr) i = try List.nth c.csr_rows i with _ -> []
(* per rank text: OFFMAP n cols.. ROWS n (grow n_on (c v)* n_off (c v)* )* END *)
let rank_text part r (on : qc csr) (off : qc csr) (offmap : nat list) =
  let first = int_of_nat (pfirst part (nat_of_int r)) in
  let size = int_of_nat (List.nth part r) in
  let b = Buffer.create 256 in
  Buffer.add_string b (Printf.sprintf "OFFMAP %d %s ROWS %d" (List.length offmap) (nats_str offmap) size);
  for i = first to first + size - 1 do
    let ro = nth_row on i and rf = nth_row off i in
    Buffer.add_string b (Printf.sprintf " %d %d %s %d %s" i (List.length ro) (ent_str ro) (List.length rf) (ent_str rf))
  done;
  Buffer.add_string b " END"; Buffer.contents b
let print_ranks cid key np f =
  let b = Buffer.create 1024 in
  for r = 0 to np - 1 do Buffer.add_string b (Printf.sprintf " @%d %s" r (f r)) done;
  Printf.printf "%s %s%s\n" cid key (Buffer.contents b)

let model_mult cid key (a : qc csr) (b : qc csr) pa pk pc np =
  print_ranks cid key np (fun r ->
    let rn = nat_of_int r in
    rank_text pa r (q_par_mult_on a b pa pk pc rn) (q_par_mult_off a b pa pk pc rn) (q_par_mult_offmap a b pa pk pc rn))
let model_mult_T cid key (a : qc csc) (b : qc csr) pk pm pc np =
  print_ranks cid key np (fun r ->
    let rn = nat_of_int r in
    rank_text pm r (q_par_mult_T_on a b pk pm pc rn) (q_par_mult_T_off a b pk pm pc rn) (q_par_mult_T_offmap a b pk pm pc rn))

let run_case cid (t : toks) =
  let op = next t in
  match op with
  | "spgemm" | "spgemm_T" ->
    (* spgemm A B map : C = A*B ;  spgemm_T A B map : C = A^T*B  (B->mult_T(A, map)) *)
    let a = parse_mat t in let b = parse_mat t in
    let m = parse_map t in
    if not (wf a && wf b) then Printf.printf "%s ILLFORMED\n" cid else begin
      let c = if op = "spgemm" then q_mat_mult (to_smat a) (to_smat b) m
              else q_mat_mult_T (to_smat b) (to_smat a) m in
      Printf.printf "%s R %s\n" cid (mat_str (Mat.MCsr c)) end
  | "galerkin" ->
    let a = parse_mat t in let p = parse_mat t in
    if not (wf a && wf p) then Printf.printf "%s ILLFORMED\n" cid else begin
      let ap = q_mat_mult (to_smat a) (to_smat p) None in
      let c = q_galerkin (to_smat a) (to_smat p) in
      Printf.printf "%s AP %s\n" cid (mat_str (Mat.MCsr ap));
      Printf.printf "%s R %s\n" cid (mat_str (Mat.MCsr c)) end
  | "pmult" | "pmult_T" | "pgalerkin" ->
    let _tap = next_int t in let _form = next t in
    let la = parse_parlit t in let lb = parse_parlit t in
    if la.np <> lb.np then failwith "process counts differ";
    (match op with
     | "pmult" -> model_mult cid "C" la.m lb.m la.prow la.pcol lb.pcol la.np
     | "pmult_T" -> model_mult_T cid "C" (csr_to_csc la.m) lb.m la.prow la.pcol lb.pcol la.np
     | _ ->
       (* A = la (n x n, rows and columns by la.prow), P = lb (rows by lb.prow = la.prow, columns by lb.pcol) *)
       model_mult cid "AP" la.m lb.m la.prow la.pcol lb.pcol la.np;
       let ap = q_par_mult la.m lb.m la.prow la.pcol lb.pcol in
       model_mult_T cid "C" (csr_to_csc lb.m) ap lb.prow lb.pcol lb.pcol la.np)
  | _ -> Printf.printf "%s UNSUPPORTED %s\n" cid op

let () =
  let ic = open_in Sys.argv.(1) in
  (try while true do
      let line = input_line ic in
      if String.length line > 0 && line.[0] <> '#' then begin
        let t = { rest = List.filter (fun s -> s <> "") (String.split_on_char ' ' line) } in
        let cid = next t in
        (try run_case cid t with
         | Failure m -> Printf.printf "%s ERR %s\n" cid m
         | Not_found -> Printf.printf "%s ERR notfound\n" cid
         | Invalid_argument m -> Printf.printf "%s ERR %s\n" cid m)
      end
    done with End_of_file -> ());
  close_in ic
