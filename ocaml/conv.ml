(* Trusted glue: conversions between OCaml ints/strings and the extracted nat / Z / Q. *)
open Model

let rec nat_of_int n = if n <= 0 then O else S (nat_of_int (n - 1))
let int_of_nat n = let rec go acc = function O -> acc | S m -> go (acc + 1) m in go 0 n
let rec pos_of_int n =
  if n <= 1 then XH else if n land 1 = 0 then XO (pos_of_int (n lsr 1)) else XI (pos_of_int (n lsr 1))
let z_of_int n = if n = 0 then Z0 else if n > 0 then Zpos (pos_of_int n) else Zneg (pos_of_int (-n))
let rec pos_shift p k = if k <= 0 then p else pos_shift (XO p) (k - 1)

(* binary string of a positive, most significant bit first *)
let pos_bits p =
  let b = Buffer.create 64 in
  let rec go p acc = match p with
    | XH -> '1' :: acc
    | XO q -> go q ('0' :: acc)
    | XI q -> go q ('1' :: acc) in
  List.iter (Buffer.add_char b) (go p []); Buffer.contents b
let z_str z = match z with
  | Z0 -> "0"
  | Zpos p -> "0b" ^ pos_bits p
  | Zneg p -> "-0b" ^ pos_bits p
let q_str (x : qc) =
  let x : q = x in
  match x.qden with
  | XH -> z_str x.qnum
  | d -> z_str x.qnum ^ "/" ^ "0b" ^ pos_bits d

let mkq (n : z) (d : positive) : qc = q2Qc { qnum = n; qden = d }
let q_of_int n = mkq (z_of_int n) XH

(* number tokens:  12  -3/8  0x1.8p+3  (hex floats are read exactly) *)
let q_of_hexfloat (s : string) : qc =
  let f = float_of_string s in
  if f = 0.0 then q_of_int 0 else begin
    let (m, e) = Float.frexp f in             (* f = m * 2^e, 0.5 <= |m| < 1 *)
    let mi = Int64.to_int (Int64.of_float (Float.ldexp m 53)) in   (* exact 53-bit integer *)
    let e2 = e - 53 in
    if e2 >= 0 then
      (match z_of_int mi with
       | Zpos p -> mkq (Zpos (pos_shift p e2)) XH
       | Zneg p -> mkq (Zneg (pos_shift p e2)) XH
       | Z0 -> q_of_int 0)
    else mkq (z_of_int mi) (pos_shift XH (-e2))
  end
let q_of_token (s : string) : qc =
  if String.length s > 1 && (String.contains s 'x' || String.contains s 'X') then q_of_hexfloat s
  else match String.index_opt s '/' with
    | Some i ->
      let n = int_of_string (String.sub s 0 i) and d = int_of_string (String.sub s (i + 1) (String.length s - i - 1)) in
      mkq (z_of_int n) (pos_of_int d)
    | None -> q_of_int (int_of_string s)

(* token stream *)
type toks = { mutable rest : string list }
let next t = match t.rest with [] -> failwith "eol" | x :: r -> t.rest <- r; x
let next_int t = int_of_string (next t)
let next_nat t = nat_of_int (next_int t)
let next_q t = q_of_token (next t)
let rec take n f = if n <= 0 then [] else let x = f () in x :: take (n - 1) f
let next_ints t n = take n (fun () -> next_int t)
let next_nats t n = take n (fun () -> next_nat t)
let next_qs t n = take n (fun () -> next_q t)
let has_more t = t.rest <> []

let ints_str l = String.concat " " (List.map string_of_int l)
let nats_str l = String.concat " " (List.map (fun n -> string_of_int (int_of_nat n)) l)
let qs_str l = String.concat " " (List.map q_str l)

(* split l into consecutive chunks delimited by the pointer array ptr (ptr.(0)=0 ... ) *)
let split_by_ptr (ptr : int list) (l : 'a list) : 'a list list =
  let a = Array.of_list l in
  let rec go = function
    | s :: (e :: _ as tl) ->
      if s > e || e > Array.length a || s < 0 then failwith "bad pointer array";
      Array.to_list (Array.sub a s (e - s)) :: go tl
    | _ -> [] in
  go ptr
