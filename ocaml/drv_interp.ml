(* Runs the extracted `interp` family model (C14 strength, C12 interpolation) on a case file. *)
open Model
open Conv

(* global matrix literal:  nr nc P frow[P+1] fcol[P+1] nnz (i j v)*   -> rows in triple order, partition sizes *)
let parse_parlit (t : toks) =
  let nr = next_int t in let _nc = next_int t in let p = next_int t in
  let frow = next_ints t (p + 1) in let _fcol = next_ints t (p + 1) in
  let nnz = next_int t in
  let rows = Array.make nr [] in
  for _ = 1 to nnz do
    let i = next_int t in let j = next_int t in let v = next_q t in
    rows.(i) <- (nat_of_int j, v) :: rows.(i)
  done;
  let rows = Array.to_list (Array.map List.rev rows) in
  let rec sizes = function a :: (b :: _ as tl) -> nat_of_int (b - a) :: sizes tl | _ -> [] in
  (nr, rows, sizes frow)

(* nnz (i j v)*  ->  n rows in triple order *)
let parse_trip (t : toks) (n : int) =
  let nnz = next_int t in
  let rows = Array.make n [] in
  for _ = 1 to nnz do
    let i = next_int t in let j = next_int t in let v = next_q t in
    rows.(i) <- (nat_of_int j, v) :: rows.(i)
  done;
  Array.to_list (Array.map List.rev rows)

let rows_str (rows : (nat * qc) list list) : string =
  String.concat " "
    (List.map (fun r ->
         String.concat " " (string_of_int (List.length r) ::
                            List.map (fun (c, v) -> string_of_int (int_of_nat c) ^ " " ^ q_str v) r)) rows)

let run_case cid (t : toks) =
  let op = next t in
  match op with
  | "strength" ->
    let sym = next_int t = 1 in
    let theta = next_q t in
    let _tap = next_int t in let _ppn = next_int t in
    let nv = next_nat t in
    let n = next_int t in
    let vars = next_nats t n in
    let (nr, rows, part) = parse_parlit t in
    let s = q_strength_seq sym theta nv vars rows in
    Printf.printf "%s SEQ %d %s\n" cid nr (rows_str s);
    let p = q_strength_par sym theta nv vars part rows in
    Printf.printf "%s PAR %d %s\n" cid (List.length p) (rows_str p)
  | "interp" ->
    (* kind nv n vars[n] states[n]  A: nnz (i j v)*  S: nnz (i j v)*  part: P sizes[P]  CHK m (dist nr rows)*m *)
    let kind = next t in
    let nv = next_nat t in
    let n = next_int t in
    let vars = next_nats t n in
    let states = next_nats t n in
    let a = parse_trip t n in
    let s = parse_trip t n in
    let np = next_int t in
    let part = next_nats t np in
    let p = (match kind with
        | "direct" -> q_direct a s states
        | "modcls" -> q_mod_classical a s states nv vars
        | "extended" -> q_extended a s states nv vars
        | _ -> failwith ("kind " ^ kind)) in
    Printf.printf "%s PSEQ %d %s\n" cid (List.length p) (rows_str p);
    if kind = "direct" then begin
      let pp = q_par_direct a s states part in
      Printf.printf "%s PPAR %d %s\n" cid (List.length pp) (rows_str pp) end;
    if has_more t then begin
      let _ = next t in
      let m = next_int t in
      let res = take m (fun () ->
          let dist = next_nat t in
          let nr = next_int t in
          let pm = take nr (fun () -> let k = next_int t in
                             take k (fun () -> let c = next_nat t in let v = next_q t in (c, v))) in
          if q_interp_ok dist (if kind = "direct" then nat_of_int 1 else nv) vars a s states pm then "1" else "0") in
      Printf.printf "%s CHK %s\n" cid (String.concat " " res) end
  | "trunc" ->
    (* thr nr (k (c v)*k)*nr : filter_interp on the implementation's untruncated rows *)
    let thr = next_q t in
    let nr = next_int t in
    let pm = take nr (fun () -> let k = next_int t in take k (fun () -> let c = next_nat t in let v = next_q t in (c, v))) in
    Printf.printf "%s TRUNC %d %s\n" cid nr (rows_str (q_filter_interp thr pm))
  | _ -> Printf.printf "%s UNSUPPORTED %s\n" cid op

let () =
  let ic = open_in Sys.argv.(1) in
  (try while true do
      let line = input_line ic in
      if String.length line > 0 && line.[0] <> '#' then begin
        let t = { rest = List.filter (fun s -> s <> "") (String.split_on_char ' ' line) } in
        let cid = next t in
        (try run_case cid t with
         | Failure m -> Printf.printf "%s ERR %s\n" cid m
         | Not_found -> Printf.printf "%s ERR notfound\n" cid
         | Invalid_argument m -> Printf.printf "%s ERR %s\n" cid m)
      end
    done with End_of_file -> ());
  close_in ic
