(* Runs the extracted `interp` family model (C14 strength, C12 interpolation) on a case file. *)
open Model
open Conv

(* global matrix literal:  nr nc P frow[P+1] fcol[P+1] nnz (i j v)*   -> rows in triple order, partition sizes *)
let parse_parlit (t : toks) =
  let nr = next_int t in let _nc = next_int t in let p = next_int t in
  let frow = next_ints t (p + 1) in let _fcol = next_ints t (p + 1) in
  let nnz = next_int t in
  let rows = Array.make nr [] in
  for _ = 1 to nnz do
    let i = next_int t in let j = next_int t in let v = next_q t in
    rows.(i) <- (nat_of_int j, v) :: rows.(i)
  done;
  let rows = Array.to_list (Array.map List.rev rows) in
  let rec sizes = function a :: (b :: _ as tl) -> nat_of_int (b - a) :: sizes tl | _ -> [] in
  (nr, rows, sizes frow)

let rows_str (rows : (nat * qc) list list) : string =
  String.concat " "
    (List.map (fun r ->
         String.concat " " (string_of_int (List.length r) ::
                            List.map (fun (c, v) -> string_of_int (int_of_nat c) ^ " " ^ q_str v) r)) rows)

let run_case cid (t : toks) =
  let op = next t in
  match op with
  | "strength" ->
    let sym = next_int t = 1 in
    let theta = next_q t in
    let _tap = next_int t in let _ppn = next_int t in
    let nv = next_nat t in
    let n = next_int t in
    let vars = next_nats t n in
    let (nr, rows, part) = parse_parlit t in
    let s = q_strength_seq sym theta nv vars rows in
    Printf.printf "%s SEQ %d %s\n" cid nr (rows_str s);
    let p = q_strength_par sym theta nv vars part rows in
    Printf.printf "%s PAR %d %s\n" cid (List.length p) (rows_str p)
  | _ -> Printf.printf "%s UNSUPPORTED %s\n" cid op

let () =
  let ic = open_in Sys.argv.(1) in
  (try while true do
      let line = input_line ic in
      if String.length line > 0 && line.[0] <> '#' then begin
        let t = { rest = List.filter (fun s -> s <> "") (String.split_on_char ' ' line) } in
        let cid = next t in
        (try run_case cid t with
         | Failure m -> Printf.printf "%s ERR %s\n" cid m
         | Not_found -> Printf.printf "%s ERR notfound\n" cid
         | Invalid_argument m -> Printf.printf "%s ERR %s\n" cid m)
      end
    done with End_of_file -> ());
  close_in ic
