(* Runs the extracted V-cycle model (coq/Amg/Energy.v at Qc) on hierarchies dumped from the implementation.
   case line:  <cid> mcyc <seq|par> <SOR|SSOR>[/sweeps] <K> <nlev>  (csr A_l  csr P_l)*(nlev-1)  csr A_coarse  x0[n0]  b[n0]
   csr literal: csr nr nc nnz ptr[nr+1] cols[nnz] vals[nnz]   (numbers: ints, p/q, hex floats read exactly)
   output:  <cid> WF <0|1 per relaxed level>     rows start with their diagonal (sweep_wfb)
            <cid> X <k> v...                      iterate after k cycles, exact rationals
            <cid> SINGULAR                        the exact coarsest solve found no pivot *)
open Model
open Conv

exception Singular
exception Inexact

let parse_csr (t : toks) : (nat * qc) list list * int * int =
  let fmt = next t in
  if fmt <> "csr" then failwith ("csr literal expected, got " ^ fmt);
  let nr = next_int t in let nc = next_int t in let nnz = next_int t in
  let p = next_ints t (nr + 1) in let c = next_ints t nnz in let v = next_qs t nnz in
  (split_by_ptr p (List.combine (List.map nat_of_int c) v), nr, nc)

(* the coarsest solve of the model: exact Gauss-Jordan elimination, checked at the point of use
   (A_c w = b in exact arithmetic), as the theorem's hypothesis exact_coarse demands *)
let coarse_solve (ac : (nat * qc) list list) (b : qc list) : qc list =
  let n = List.length ac in
  if not (List.for_all (List.for_all (fun (c, _) -> int_of_nat c < n)) ac) then failwith "coarsest operator: column out of range";
  match q_gauss_solve ac b with
  | None -> raise Singular
  | Some w -> if List.for_all2 qc_eqb (q_smv ac w) b then w else raise Inexact

let run_case cid (t : toks) =
  let op = next t in
  match op with
  | "mcyc" ->
    let variant = (match next t with "seq" -> VSeq | "par" -> VPar | s -> failwith ("variant " ^ s)) in
    let (rname, sweeps) = (match String.split_on_char '/' (next t) with [r] -> (r, 1) | [r; s] -> (r, int_of_string s) | _ -> failwith "relax token") in
    let kind = (match rname with "SOR" -> RSOR | "SSOR" -> RSSOR | s -> failwith ("relax " ^ s)) in
    let k = next_int t in let nlev = next_int t in
    let rec levels l = if l >= nlev - 1 then [] else begin
        let (a, _, _) = parse_csr t in let (p, _, pc) = parse_csr t in
        { lvA = a; lvP = p; lvNc = nat_of_int pc } :: levels (l + 1) end in
    let lv = levels 0 in
    let (ac, _, _) = parse_csr t in
    let n0 = (match lv with [] -> List.length ac | l :: _ -> List.length l.lvA) in
    let x0 = next_qs t n0 in let b = next_qs t n0 in
    Printf.printf "%s WF %s\n" cid (String.concat " " (List.map (fun l -> if q_sweep_wfb l.lvA then "1" else "0") lv));
    (try
       let x = ref x0 in
       Printf.printf "%s X 0 %s\n" cid (qs_str !x);
       for i = 1 to k do
         x := q_cycle coarse_solve variant kind (q_of_int 1) (nat_of_int sweeps) lv ac !x b;
         Printf.printf "%s X %d %s\n" cid i (qs_str !x)
       done
     with Singular -> Printf.printf "%s SINGULAR\n" cid
        | Inexact -> Printf.printf "%s INEXACT\n" cid)
  | _ -> Printf.printf "%s UNSUPPORTED %s\n" cid op

let () =
  let ic = open_in Sys.argv.(1) in
  (try while true do
      let line = input_line ic in
      if String.length line > 0 && line.[0] <> '#' then begin
        let t = { rest = List.filter (fun s -> s <> "") (String.split_on_char ' ' line) } in
        let cid = next t in
        (try run_case cid t with
         | Failure m -> Printf.printf "%s ERR %s\n" cid m
         | Not_found -> Printf.printf "%s ERR notfound\n" cid
         | Invalid_argument m -> Printf.printf "%s ERR %s\n" cid m);
        flush stdout
      end
    done with End_of_file -> ());
  close_in ic
