(* Runs the extracted gallery model (stencil generators, Matrix Market / PETSc-binary readers and writers)
   on a case file; one result line per observable:  <cid> <KEY> tokens...   *)
open Model
open Conv
open Mat

let n = nat_of_int
let i_ = int_of_nat

let trip_str (l : ((nat * nat) * qc) list) =
  String.concat " " (List.map (fun ((r, c), v) -> Printf.sprintf "%d %d %s" (i_ r) (i_ c) (q_str v)) l)

let ranks_str (per_rank : string list) =
  String.concat " " (List.mapi (fun r s -> Printf.sprintf "@%d %s" r s) per_rank)

let rows_to_triples (first : int) (rows : (nat * qc) list list) : ((nat * nat) * qc) list =
  List.concat (List.mapi (fun i row -> List.map (fun (c, v) -> ((n (first + i), c), v)) row) rows)

let next_parts t =
  let np = next_int t in
  take np (fun () -> let fr = next_nat t in let nr = next_nat t in let fc = next_nat t in let nc = next_nat t in
                     (((fr, nr), fc), nc))

let file_str (f : qc mmfile) =
  Printf.sprintf "%s %d %d %d %s" (if f.mm_sym then "symmetric" else "general")
    (i_ f.mm_nr) (i_ f.mm_nc) (i_ f.mm_nz) (trip_str f.mm_ents)

let print_reads cid (f : qc mmfile) parts =
  (match q_read_mm f with
   | Some a -> Printf.printf "%s R %s\n" cid (mat_str (MCsr a))
   | None -> Printf.printf "%s R NULL\n" cid);
  let per = List.map (fun w ->
      let (on, off) = q_par_mm_rank f w in
      let (((fr, _), fc), _) = w in
      let g_on = List.map (fun ((r, c), v) -> ((n (i_ fr + i_ r), n (i_ fc + i_ c)), v)) on in
      let g_off = List.map (fun ((r, c), v) -> ((n (i_ fr + i_ r), c), v)) off in
      trip_str (g_on @ g_off)) parts in
  Printf.printf "%s PR %s\n" cid (ranks_str per)

let run_case cid (t : toks) =
  let op = next t in
  let _p = next_int t in
  match op with
  | "sten" ->
    let dim = next_int t in
    let grid = next_nats t dim in
    let sl = int_of_float (3.0 ** float_of_int dim) in
    let st = next_qs t sl in
    let nb = next_int t in
    let blocks = next_nats t nb in
    let a = q_stencil_grid st grid in
    Printf.printf "%s S %s\n" cid (mat_str (MCsr a));
    let ranks = q_par_stencil_grid st grid blocks in
    let firsts = List.map (fun (f, _) -> i_ f) (windows O blocks) in
    let per = List.map2 (fun f rows -> trip_str (rows_to_triples f rows)) firsts ranks in
    Printf.printf "%s P %s\n" cid (ranks_str per)
  | "diffusion" ->
    let eps = next_q t in let c = next_q t in let s = next_q t in
    Printf.printf "%s ST %s\n" cid (qs_str (q_diffusion_stencil_2d eps c s))
  | "laplace27" ->
    Printf.printf "%s ST %s\n" cid (qs_str q_laplace_stencil_27pt)
  | "mmrt" ->
    let m = parse_mat t in
    let parts = next_parts t in
    let f = q_write_mm (as_csr m) in
    Printf.printf "%s FILE %s\n" cid (file_str f);
    print_reads cid f parts
  | "mmfile" ->
    let sym = (next t = "symmetric") in
    let nr = next_nat t in let nc = next_nat t in let nz = next_nat t in
    let nl = next_int t in
    let ents = take nl (fun () -> let r = next_nat t in let c = next_nat t in let v = next_q t in ((r, c), v)) in
    let parts = next_parts t in
    let f = { mm_sym = sym; mm_nr = nr; mm_nc = nc; mm_nz = nz; mm_ents = ents } in
    print_reads cid f parts
  | "parmmrt" ->
    (* distributed literal with explicit partition: nr nc P frow[P+1] fcol[P+1] nnz (i j v)*, then the reader's parts *)
    let nr = next_int t in let nc = next_int t in let pp = next_int t in
    let frow = Array.of_list (next_ints t (pp + 1)) in
    let fcol = Array.of_list (next_ints t (pp + 1)) in
    let nnz = next_int t in
    let ents = take nnz (fun () -> let i = next_int t in let j = next_int t in let v = next_q t in (i, j, v)) in
    let parts = next_parts t in
    let ranks = List.init pp (fun r ->
        let f = frow.(r) and l = frow.(r + 1) in
        let rows_of pred = List.init (l - f) (fun li ->
            let es = List.filter (fun (i, j, _) -> i = f + li && pred j) ents in
            let es = List.sort (fun (_, j1, _) (_, j2, _) -> compare j1 j2) es in
            List.map (fun (_, j, v) -> (n j, v)) es) in
        let on_col j = j >= fcol.(r) && j < fcol.(r + 1) in
        ((n f, rows_of on_col), rows_of (fun j -> not (on_col j)))) in
    let f = q_write_par_mm (n nr) (n nc) ranks in
    Printf.printf "%s FILE %s\n" cid (file_str f);
    print_reads cid f parts
  | "bin" ->
    let nr = next_int t in let nc = next_int t in let nnz = next_int t in
    let rowsz = next_nats t nr in let cols = next_nats t nnz in let vals = next_qs t nnz in
    let _mode = next_int t in
    let parts = next_parts t in
    let f = { p_nr = n nr; p_nc = n nc; p_nnz = n nnz; p_rowsz = rowsz; p_cols = cols; p_vals = vals } in
    Printf.printf "%s R %s\n" cid (mat_str (MCsr (q_readMatrix f)));
    let ws = List.map (fun (((fr, lnr), _), _) -> (fr, lnr)) parts in
    let res = q_readParMatrix f ws in
    let per = List.map2 (fun (fr, _) r -> match r with
        | Some rows -> trip_str (rows_to_triples (i_ fr) rows)
        | None -> "UNDEF") ws res in
    Printf.printf "%s PR %s\n" cid (ranks_str per)
  | _ -> Printf.printf "%s UNSUPPORTED %s\n" cid op

let () =
  let ic = open_in Sys.argv.(1) in
  (try while true do
      let line = input_line ic in
      if String.length line > 0 && line.[0] <> '#' then begin
        let t = { rest = List.filter (fun s -> s <> "") (String.split_on_char ' ' line) } in
        let cid = next t in
        (try run_case cid t with
         | Failure m -> Printf.printf "%s ERR %s\n" cid m
         | Not_found -> Printf.printf "%s ERR notfound\n" cid
         | Invalid_argument m -> Printf.printf "%s ERR %s\n" cid m)
      end
    done with End_of_file -> ());
  close_in ic
