(* Runs the extracted cycle / solve models (family `cycle`: C09, C01) on a case file; one result line per observable.
   Case lines (written by props/C09.py, props/C01.py from the hierarchy the implementation dumped):
     <cid> cyc <J|S|SS> <omega> <sweeps> <trans> <nP>
           { n nc np parts[np] nnzA (i j v)* nnzP (i j v)* }^nP        levels that have a P
           n np parts[np] nnzA (i j v)*                                coarsest level
           <ncalls> { x[n] b[n] }^ncalls
       -> <cid> OUT <k> x'...        per call (scratch threaded from call to call, starting fresh)
          <cid> PSN <k> x'...        the same call on a hierarchy whose scratch is poisoned with 1e30
     <cid> stg  (same hierarchy)  x[n] b[n] { b_l[n_l] x_l[n_l] }^(levels 1..)   the library's level vectors after the cycle
       -> <cid> STGX l x...   what level l returns given the library's coarse correction;  <cid> STGB l+1 b...  what it restricts
     <cid> slv <tol> <maxit> n nnz (i j v)* b[n] x0[n] m { x_k[n] }^m       A (stored entries), b, x0 and the library's iterates
       -> <cid> IT <iters> / <cid> RES2 m0 m1 ...  (measures: squared (relative) residual norms, `nan` when not finite)
          <cid> FIN 0|1 (returned vector finite) / <cid> LAST 0|1 (returned vector = the library's iterate number IT)  *)
open Model
open Conv

let dense nr nc (trip : (int * int * qc) list) : qc list list =
  let z = q_of_int 0 in
  let a = Array.make_matrix nr nc z in
  List.iter (fun (i, j, v) -> a.(i).(j) <- qcplus a.(i).(j) v) trip;
  Array.to_list (Array.map Array.to_list a)

let read_trip t =
  let nnz = next_int t in
  take nnz (fun () -> let i = next_int t in let j = next_int t in let v = next_q t in (i, j, v))

let kind_of = function "J" -> RJacobi | "S" -> RSOR | "SS" -> RSSOR | s -> failwith ("kind " ^ s)

let read_hier t : qc chier * int =
  let kind = kind_of (next t) in
  let omega = next_q t in
  let sweeps = next_nat t in
  let trans = next_int t <> 0 in
  let np_levels = next_int t in
  let n0 = ref (-1) in
  let levels = take np_levels (fun () ->
    let n = next_int t in let nc = next_int t in
    if !n0 < 0 then n0 := n;
    let np = next_int t in let parts = next_nats t np in
    let ta = read_trip t in let tp = read_trip t in
    { cl_A = dense n n ta; cl_P = dense n nc tp; cl_parts = parts }) in
  let n = next_int t in
  if !n0 < 0 then n0 := n;
  let np = next_int t in let parts = next_nats t np in
  let ta = read_trip t in
  ({ ch_levels = levels; ch_coarse = dense n n ta; ch_cparts = parts; ch_kind = kind; ch_omega = omega;
     ch_sweeps = sweeps; ch_trans = trans }, !n0)

let coarse_singular (h : qc chier) =
  let n = List.length h.ch_coarse in
  n > 0 && (match q_ge_solve h.ch_coarse (List.init n (fun _ -> q_of_int 0)) with None -> true | Some _ -> false)

let sentinel = q_of_token "0x1.93e5939a08ceap+99"   (* 1e30 *)

let run_case cid (t : toks) =
  let op = next t in
  match op with
  | "cyc" ->
    let (h, n) = read_hier t in
    if coarse_singular h then Printf.printf "%s SINGULAR\n" cid else begin
      let ncalls = next_int t in
      let calls = take ncalls (fun () -> let x = next_qs t n in let b = next_qs t n in (x, b)) in
      let outs = q_run_history h (q_fresh_scratch h.ch_levels h.ch_coarse) calls in
      List.iteri (fun k x -> Printf.printf "%s OUT %d %s\n" cid k (qs_str x)) outs;
      (* history-freedom on the executed model as well: poisoned scratch, same answer *)
      List.iteri (fun k (x, b) ->
          let y = q_cycle_x h (q_poison_scratch sentinel h.ch_levels h.ch_coarse) x b in
          Printf.printf "%s PSN %d %s\n" cid k (qs_str y)) calls
    end
  | "stg" ->
    (* stage-wise: every level's part of the cycle is recomputed from the implementation's own level inputs
       (x = 0, b = levels[l]->b as the library left it) and the library's own coarse-grid correction levels[l+1]->x *)
    let (h, n) = read_hier t in
    let x = next_qs t n in let b = next_qs t n in
    let sizes = List.map (fun c -> List.length c.cl_A) h.ch_levels @ [List.length h.ch_coarse] in
    let lower = List.map (fun nl -> let bl = next_qs t nl in let xl = next_qs t nl in (bl, xl)) (List.tl sizes) in
    let z = q_of_int 0 in
    let zs k = List.init k (fun _ -> z) in
    let rec go l (cs : qc clevel list) (xin, bin) lower =
      match cs, lower with
      | c :: rest, (bl', xl') :: lower' ->
        let nc = int_of_nat (next_n rest h.ch_coarse) in
        let lev = mk_level z (q_of_int 1) qcplus qcmult qcminus qcinv qc_tiny h c (nat_of_int nc) in
        let scr = { s_tmp = zs (List.length c.cl_A); s_xc = zs nc; s_bc = zs nc } in
        let ((x3, _), ss) = cycle z (fun _ _ -> xl') [lev] [scr] xin bin in
        Printf.printf "%s STGX %d %s\n" cid l (qs_str x3);
        Printf.printf "%s STGB %d %s\n" cid (l + 1) (qs_str (List.hd ss).s_bc);
        go (l + 1) rest (zs nc, bl') lower'
      | [], [] ->
        if coarse_singular h then Printf.printf "%s SINGULAR\n" cid
        else Printf.printf "%s STGX %d %s\n" cid l (qs_str (q_c_coarse h.ch_trans h.ch_coarse xin bin))
      | _ -> failwith "stg: level count"
    in go 0 h.ch_levels (x, b) lower
  | "slv" ->
    (* the solve wrapper on the library's own iterates: cyc = "the iterate that follows x in the library's list" *)
    let tol = next_q t in
    let maxit = next_nat t in
    let n = next_int t in
    let trip = read_trip t in
    let rows = Array.make n [] in
    List.iter (fun (i, j, v) -> rows.(i) <- (nat_of_int j, v) :: rows.(i)) (List.rev trip);
    let a = Array.to_list rows in
    let xv () = take n (fun () -> let s = next t in
                         let ls = String.lowercase_ascii s in
                         let has sub = let n = String.length ls and m = String.length sub in
                           let rec go i = i + m <= n && (String.sub ls i m = sub || go (i + 1)) in go 0 in
                         if has "nan" || has "inf" then NaNv else Fin (q_of_token s)) in
    let b = xv () in let x0 = xv () in
    let m = next_int t in
    let its = Array.of_list (x0 :: take m (fun () -> xv ())) in
    let cyc x _ =
      let rec find k = if k >= Array.length its then x
        else if its.(k) = x then (if k + 1 < Array.length its then its.(k + 1) else x) else find (k + 1) in
      find 0 in
    let r = q_solve_now tol cyc a b x0 maxit in
    let xs = function Fin q -> q_str q | NaNv -> "nan" in
    Printf.printf "%s IT %d\n" cid (int_of_nat r.r_iter);
    Printf.printf "%s RES2 %s\n" cid (String.concat " " (List.map xs r.r_res));
    Printf.printf "%s FIN %d\n" cid (if all_fin r.r_x then 1 else 0);
    Printf.printf "%s LAST %d\n" cid (if r.r_x = its.(min (int_of_nat r.r_iter) (Array.length its - 1)) then 1 else 0)
  | _ -> Printf.printf "%s UNSUPPORTED %s\n" cid op

let () =
  let ic = open_in Sys.argv.(1) in
  (try while true do
      let line = input_line ic in
      if String.length line > 0 && line.[0] <> '#' then begin
        let t = { rest = List.filter (fun s -> s <> "") (String.split_on_char ' ' line) } in
        let cid = next t in
        (try run_case cid t with
         | Failure m -> Printf.printf "%s ERR %s\n" cid m
         | Not_found -> Printf.printf "%s ERR notfound\n" cid
         | Invalid_argument m -> Printf.printf "%s ERR %s\n" cid m)
      end
    done with End_of_file -> ());
  close_in ic
