(* Runs the extracted leaf model (GenLeaf.v + Leaf.v) on a case file; same protocol as harness/drv_leaf.cpp.
   Trusted glue only: int <-> Z conversion, token parsing, printing.  A line `#np P` sets the number of ranks of
   the run whose output is to be reproduced (explicit cases for another rank count are skipped, topo cases
   print "ctor" and the Comm_split result when nprocs equals it). *)
open Model

let rec pos_of_int n =
  if n <= 1 then XH else if n land 1 = 0 then XO (pos_of_int (n lsr 1)) else XI (pos_of_int (n lsr 1))
let z_of_int n = if n = 0 then Z0 else if n > 0 then Zpos (pos_of_int n) else Zneg (pos_of_int (-n))
let rec int_of_pos = function XH -> 1 | XO p -> 2 * int_of_pos p | XI p -> 2 * int_of_pos p + 1
let int_of_z = function Z0 -> 0 | Zpos p -> int_of_pos p | Zneg p -> - (int_of_pos p)
let rec nat_of_int n = if n <= 0 then O else S (nat_of_int (n - 1))
let int_of_nat n = let rec go acc = function O -> acc | S m -> go (acc + 1) m in go 0 n

let zs z = string_of_int (int_of_z z)
let zs_list l = String.concat " " (List.map zs l)
let range n = List.init (max n 0) (fun i -> i)

let rank_str (p : partition_block_out) =
  if not p.partition_block_ok then "U" else
  zs_list [p.partition_block_global_num_rows; p.partition_block_global_num_cols; p.partition_block_first_local_row;
           p.partition_block_local_num_rows; p.partition_block_first_local_col; p.partition_block_local_num_cols;
           p.partition_block_last_local_row; p.partition_block_last_local_col]

let dump cid pre np (d : dpart) =
  let b = Buffer.create 256 in
  List.iteri (fun r p -> Buffer.add_string b (Printf.sprintf " @%d %s" r (rank_str p))) d.dp_ranks;
  Printf.printf "%s %sR%s\n" cid pre (Buffer.contents b);
  Printf.printf "%s %sFC %s %s same=1%s\n" cid pre (zs d.dp_assumed) (zs_list d.dp_first_cols) (if d.dp_ok then "" else " U");
  let m = match d.dp_ranks with p :: _ -> int_of_z p.partition_block_global_num_cols | [] -> 0 in
  let owners = form_col_to_proc (nat_of_int np) d (List.map z_of_int (range m)) in
  let os = List.map (function Some p -> zs p | None -> "U") owners in
  Printf.printf "%s %sOWN %ssame=1\n" cid pre (String.concat "" (List.map (fun s -> s ^ " ") os))

let run_partition cid np n (d : dpart) =
  dump cid "" np d;
  dump cid "T" np (transpose_partition n d)

let run_topo cid np nprocs ppn ord =
  let zn = z_of_int nprocs and zp = z_of_int ppn and zo = z_of_int ord in
  let t = topology_ctor zn zp in
  if not t.topology_ctor_ok then Printf.printf "%s TOPO U\n" cid else begin
    let nn = t.topology_ctor_num_nodes in
    let b = Buffer.create 1024 in
    let undefined = ref false in
    Buffer.add_string b (Printf.sprintf "%s %s" (if nprocs = np then "ctor" else "fields") (zs nn));
    let node p = if not (topology_get_node_ok zo nn zp p) then undefined := true; topology_get_node zo nn zp p in
    let local p = if not (topology_get_local_proc_ok zo nn zp p) then undefined := true; topology_get_local_proc zo nn zp p in
    let glob nd lp = if not (topology_get_global_proc_ok zo nn zp nd lp) then undefined := true; topology_get_global_proc zo nn zp nd lp in
    List.iter (fun p -> let p = z_of_int p in
                let nd = node p and lp = local p in
                Buffer.add_string b (Printf.sprintf " %s %s %s" (zs nd) (zs lp) (zs (glob nd lp)))) (range nprocs);
    Buffer.add_string b " |";
    List.iter (fun nd -> List.iter (fun lp ->
        let g = glob (z_of_int nd) (z_of_int lp) in
        Buffer.add_string b (Printf.sprintf " %s %s %s" (zs g) (zs (node g)) (zs (local g)))) (range ppn))
      (range (int_of_z nn));
    if nprocs = np then begin
      (* Comm_split(color = node, key = rank): on-node rank = number of lower ranks on the same node, size = ranks on the node *)
      Buffer.add_string b " |";
      List.iter (fun p ->
          let lr = int_of_nat (split_rank zo zn zp (nat_of_int p))
          and ls = int_of_nat (split_size zo zp (nat_of_int nprocs) (nat_of_int p)) in
          Buffer.add_string b (Printf.sprintf " %d %d" lr ls)) (range nprocs)
    end;
    if !undefined then Printf.printf "%s TOPO U\n" cid
    else Printf.printf "%s TOPO %s\n" cid (Buffer.contents b)
  end

let run_case np cid (t : string list) =
  match t with
  | "block" :: n :: m :: _ ->
    let n = int_of_string n and m = int_of_string m in
    run_partition cid np (z_of_int n) (block_partition (nat_of_int np) (z_of_int n) (z_of_int m))
  | "explicit" :: n :: m :: p :: rest ->
    let n = int_of_string n and m = int_of_string m and p = int_of_string p in
    if p = np then begin
      let a = Array.of_list (List.map int_of_string rest) in
      let args = List.map (fun r -> (((z_of_int a.(4*r), z_of_int a.(4*r+1)), z_of_int a.(4*r+2)), z_of_int a.(4*r+3))) (range p) in
      run_partition cid np (z_of_int n) (explicit_partition (z_of_int n) (z_of_int m) args)
    end
  | "topo" :: nprocs :: ppn :: ord :: _ ->
    run_topo cid np (int_of_string nprocs) (int_of_string ppn) (int_of_string ord)
  | op :: _ -> Printf.printf "%s UNSUPPORTED %s\n" cid op
  | [] -> ()

let () =
  let ic = open_in Sys.argv.(1) in
  let np = ref 1 in
  (try while true do
      let line = input_line ic in
      if String.length line > 4 && String.sub line 0 4 = "#np " then
        np := int_of_string (String.trim (String.sub line 4 (String.length line - 4)))
      else if String.length line > 0 && line.[0] <> '#' then begin
        match List.filter (fun s -> s <> "") (String.split_on_char ' ' line) with
        | cid :: t ->
          (try run_case !np cid t with
           | Failure m -> Printf.printf "%s ERR %s\n" cid m
           | Not_found -> Printf.printf "%s ERR notfound\n" cid
           | Invalid_argument m -> Printf.printf "%s ERR %s\n" cid m)
        | [] -> ()
      end
    done with End_of_file -> ());
  close_in ic
