(* Runs the extracted Krylov model (coq/Krylov/KDefs.v at Qc) on a case file; same protocol as harness/drv_krylov.cpp.
   case:  cid solver n nnz (i j v)* b[n] x0[n] tol maxit P sizes[P] [M[n*n] for pcg_par]
          cid xnorm n vals[n] P sizes[P]          (vals may contain the token nan)
          cid xinner n u[n] v[n] P sizes[P]
   solver in cg_seq cg_par bi_seq bi_par pcg_par.   Squared norms everywhere (the model has no sqrt). *)
open Model
open Conv

let zero_q = q_of_int 0

let build_csr n trip : qc csr =
  let rows = Array.make n [] in
  List.iter (fun (i, j, v) -> rows.(i) <- (nat_of_int j, v) :: rows.(i)) trip;
  { csr_nr = nat_of_int n; csr_nc = nat_of_int n; csr_rows = Array.to_list (Array.map List.rev rows) }

let read_system t =
  let n = next_int t in let nnz = next_int t in
  let trip = take nnz (fun () -> let i = next_int t in let j = next_int t in let v = next_q t in (i, j, v)) in
  let b = next_qs t n in let x0 = next_qs t n in
  let tol = next_q t in let maxit = next_int t in
  let p = next_int t in let sizes = next_nats t p in
  (n, build_csr n trip, b, x0, tol, maxit, p, sizes)

let is_zero_vec v = List.for_all (fun q -> qc_eqb q zero_q) v

let xtok t = let s = next t in
  if String.lowercase_ascii s = "nan" then NaNv else Fin (q_of_token s)
let xstr = function NaNv -> "nan" | Fin q -> q_str q

let run_case cid (t : toks) =
  let op = next t in
  match op with
  | "cg_seq" | "cg_par" ->
    let (n, a, b, x0, tol, maxit, p, sizes) = read_system t in
    let par = (op = "cg_par") in
    let ops = if par then q_dist_ops sizes else q_seq_ops in
    let mi = if maxit <= 0 then default_iters_13 (nat_of_int n) else nat_of_int maxit in
    let (tag, s) = (match q_cg_run a ops b tol mi x0 with Done s -> ("done", s) | Broke s -> ("broke", s)) in
    let tag = if s.cg_indef then "indef" else tag in
    Printf.printf "%s ST %s %d 0\n" cid tag (int_of_nat s.cg_iter);
    Printf.printf "%s H %s\n" cid (qs_str s.cg_hist);
    if par then begin
      Printf.printf "%s HS %s\n" cid (qs_str (q_par_cg_reported sizes b s.cg_hist)) end;
    Printf.printf "%s X %s\n" cid (qs_str s.cg_x)
  | "bi_seq" | "bi_par" | "bi_par_si" | "bi_par_sn" | "bi_par_sisn" ->
    let (n, a, b, x0, tol, maxit, p, sizes) = read_system t in
    let par = (op <> "bi_seq") in
    let ops = if par then q_dist_ops sizes else q_seq_ops in
    let mi = if maxit <= 0 then (if par then default_iters_13 (nat_of_int n) else default_iters_seq_bicgstab (nat_of_int n))
             else nat_of_int maxit in
    let s0 = q_bi_init a ops b x0 in
    let (tag, s, half) = (match q_bi_run a ops b tol (not par) mi x0 with
        | Done s -> ("done", s, false)
        | Broke s ->
          (* was it the half step?  s_i = r_i - alpha_i A p_i is the zero vector *)
          let half = (match q_bi_half a ops s0.bi_r s with
              | Some (((_, _), _), sv) -> is_zero_vec sv
              | None -> false) in
          ("broke", s, half)) in
    Printf.printf "%s ST %s %d %d\n" cid tag (int_of_nat s.bi_iter) (if half then 1 else 0);
    Printf.printf "%s H %s\n" cid (qs_str s.bi_hist);
    Printf.printf "%s X %s\n" cid (qs_str s.bi_x)
  | "pcg_par" ->
    let (n, a, b, x0, tol, maxit, p, sizes) = read_system t in
    if not (has_more t) then Printf.printf "%s NOPREC\n" cid else begin
      let m = take n (fun () -> next_qs t n) in
      let ops = q_dist_ops sizes in
      let mi = if maxit <= 0 then default_iters_13 (nat_of_int n) else nat_of_int maxit in
      let (tag, s) = (match q_pcg_run a m ops b tol mi x0 with Done s -> ("done", s) | Broke s -> ("broke", s)) in
      let tag = if s.pc_indef then "indef" else tag in
      Printf.printf "%s ST %s %d %d\n" cid tag (int_of_nat s.pc_iter) (if s.pc_stop then 1 else 0);
      Printf.printf "%s H %s\n" cid (qs_str s.pc_hist);
      Printf.printf "%s BI %s\n" cid (q_str (q_pcg_binner m ops b));
      Printf.printf "%s X %s\n" cid (qs_str s.pc_x) end
  | "xnorm" ->
    let n = next_int t in let v = take n (fun () -> xtok t) in
    let p = next_int t in let sizes = next_nats t p in
    let r = if p = 0 then q_xnorm2sq v else q_xdnorm2sq sizes v in
    Printf.printf "%s N %s\n" cid (xstr r)
  | "xinner" ->
    let n = next_int t in let u = take n (fun () -> xtok t) in let v = take n (fun () -> xtok t) in
    let p = next_int t in let sizes = next_nats t p in
    let r = if p = 0 then q_xinner u v else q_xdinner sizes u v in
    Printf.printf "%s N %s\n" cid (xstr r)
  | _ -> Printf.printf "%s UNSUPPORTED %s\n" cid op

let () =
  let ic = open_in Sys.argv.(1) in
  (try while true do
      let line = input_line ic in
      if String.length line > 0 && line.[0] <> '#' then begin
        let t = { rest = List.filter (fun s -> s <> "") (String.split_on_char ' ' line) } in
        let cid = next t in
        (try run_case cid t with
         | Failure m -> Printf.printf "%s ERR %s\n" cid m
         | Not_found -> Printf.printf "%s ERR notfound\n" cid
         | Invalid_argument m -> Printf.printf "%s ERR %s\n" cid m)
      end
    done with End_of_file -> ());
  close_in ic
