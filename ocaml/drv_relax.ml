(* Runs the extracted relaxation model (coq/Amg/Relax.v at Qc) on a case file; one result line per case.
   Case formats: see harness/drv_relax.cpp.  The distributed cases carry the explicit block sizes for the model
   after the vectors:  ... x[n] b[n] parts k s1..sk   (the C++ side ignores that tail). *)
open Model
open Conv

(* csr literal -> list of rows of (col, val) *)
let parse_csr (t : toks) =
  let fmt = next t in
  if fmt <> "csr" then failwith ("format " ^ fmt);
  let nr = next_int t in let _nc = next_int t in let nnz = next_int t in
  let p = next_ints t (nr + 1) in let c = next_ints t nnz in let v = next_qs t nnz in
  (nr, split_by_ptr p (List.combine (List.map nat_of_int c) v))

(* ParLit -> (n, rows in triple order) *)
let parse_parlit (t : toks) =
  let nr = next_int t in let _nc = next_int t in let p = next_int t in
  if p > 0 then begin ignore (next_ints t (p + 1)); ignore (next_ints t (p + 1)) end;
  let nnz = next_int t in
  let rows = Array.make nr [] in
  for _ = 1 to nnz do
    let i = next_int t in let j = next_int t in let v = next_q t in
    rows.(i) <- (nat_of_int j, v) :: rows.(i)
  done;
  (nr, Array.to_list (Array.map List.rev rows))

let run_case cid (t : toks) =
  let op = next t in
  match op with
  | "seq" ->
    let meth = next t in let sweeps = next_nat t in let omega = next_q t in
    let (n, rows) = parse_csr t in
    let x = next_qs t n in let b = next_qs t n in
    let r = (match meth with
        | "jacobi" -> q_seq_jacobi rows b omega sweeps x
        | "sor" -> q_seq_sor rows b omega sweeps x
        | "ssor" -> q_seq_ssor rows b omega sweeps x
        | _ -> failwith ("method " ^ meth)) in
    Printf.printf "%s X %s\n" cid (qs_str r)
  | "par" ->
    let meth = next t in let sweeps = next_nat t in let omega = next_q t in
    let _tap = next_int t in let _ppn = next_int t in let _scr = next_int t in let _np = next_int t in
    let tinyrow = next_int t in
    let (n, rows) = parse_parlit t in
    (* the C++ driver overwrites the stored diagonal of row `tinyrow` with 2^-60 after construction *)
    let tiny = q_of_token "0x1p-60" in
    let rows = List.mapi (fun i r -> if i = tinyrow then List.map (fun (c, v) -> if int_of_nat c = i then (c, tiny) else (c, v)) r else r) rows in
    let x = next_qs t n in let b = next_qs t n in
    let kw = next t in
    if kw <> "parts" then failwith "parts expected";
    let k = next_int t in let parts = next_nats t k in
    let r = (match meth with
        | "jacobi" -> q_dist_jacobi rows parts b omega sweeps x
        | "sor" -> q_dist_sor rows parts b omega sweeps x
        | "ssor" -> q_dist_ssor rows parts b omega sweeps x
        | _ -> failwith ("method " ^ meth)) in
    Printf.printf "%s X %s\n" cid (qs_str r)
  | _ -> Printf.printf "%s UNSUPPORTED %s\n" cid op

let () =
  let ic = open_in Sys.argv.(1) in
  (try while true do
      let line = input_line ic in
      if String.length line > 0 && line.[0] <> '#' then begin
        let t = { rest = List.filter (fun s -> s <> "") (String.split_on_char ' ' line) } in
        let cid = next t in
        (try run_case cid t with
         | Failure m -> Printf.printf "%s ERR %s\n" cid m
         | Not_found -> Printf.printf "%s ERR notfound\n" cid
         | Invalid_argument m -> Printf.printf "%s ERR %s\n" cid m)
      end
    done with End_of_file -> ());
  close_in ic
