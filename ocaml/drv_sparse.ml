(* Runs the extracted model on a case file; prints one canonical line per case. *)
open Model
open Conv
open Mat

let apply_op (m : mat) (op : string) : mat =
  match op, m with
  | "to_coo", _ -> to_fmt m "coo" | "to_csr", _ -> to_fmt m "csr" | "to_csc", _ -> to_fmt m "csc"
  | "copy", MCoo a -> MCoo (coo_to_coo a) | "copy", MCsr a -> MCsr (csr_to_csr a) | "copy", MCsc a -> MCsc (csc_to_csc a)
  | "transpose", MCoo a -> MCoo (coo_transpose a) | "transpose", MCsr a -> MCsr (csr_transpose a)
  | "transpose", MCsc a -> MCsc (csc_transpose a)
  | "sort", MCoo a -> MCoo (coo_sort a) | "sort", MCsr a -> MCsr (csr_sort a) | "sort", MCsc a -> MCsc (csc_sort a)
  | "move_diag", MCsr a -> MCsr (csr_move_diag a) | "move_diag", MCsc a -> MCsc (csc_move_diag a)
  | "remove_duplicates", MCoo a -> MCoo (q_coo_remove_duplicates a)
  | "remove_duplicates", MCsr a -> MCsr (q_csr_remove_duplicates a)
  | "remove_duplicates", MCsc a -> MCsc (q_csc_remove_duplicates a)
  | _ -> failwith ("op " ^ op)

let spmv kind (m : mat) x b : qc list =
  match kind, m with
  | "mult", MCoo a -> q_coo_spmv a x | "mult", MCsr a -> q_csr_spmv a x | "mult", MCsc a -> q_csc_spmv a x
  | "mult_T", MCoo a -> q_coo_mult_T a x | "mult_T", MCsr a -> q_csr_mult_T a x | "mult_T", MCsc a -> q_csc_mult_T a x
  | "mult_append", MCoo a -> q_coo_spmv_append a x b | "mult_append", MCsr a -> q_csr_spmv_append a x b
  | "mult_append", MCsc a -> q_csc_spmv_append a x b
  | "mult_append_T", MCoo a -> q_coo_spmv_append_T a x b | "mult_append_T", MCsr a -> q_csr_spmv_append_T a x b
  | "mult_append_T", MCsc a -> q_csc_spmv_append_T a x b
  | "mult_append_neg", MCoo a -> q_coo_spmv_append_neg a x b | "mult_append_neg", MCsr a -> q_csr_spmv_append_neg a x b
  | "mult_append_neg", MCsc a -> q_csc_spmv_append_neg a x b
  | "mult_append_neg_T", MCoo a -> q_coo_spmv_append_neg_T a x b | "mult_append_neg_T", MCsr a -> q_csr_spmv_append_neg_T a x b
  | "mult_append_neg_T", MCsc a -> q_csc_spmv_append_neg_T a x b
  | "residual", MCoo a -> q_coo_residual a x b | "residual", MCsr a -> q_csr_residual a x b
  | "residual", MCsc a -> q_csc_residual a x b
  | _ -> failwith ("kind " ^ kind)

(* block matrices: the polymorphic formats at qc list; (matrix, b_rows, b_cols) *)
type bmat = BCoo of qc list coo | BCsr of qc list csr | BCsc of qc list csc

let bapply (m, br, bc) (op : string) =
  let nbr = nat_of_int br and nbc = nat_of_int bc in
  match op, m with
  | "to_bcoo", BCoo a -> (BCoo (coo_to_coo a), br, bc) | "to_bcoo", BCsr a -> (BCoo (csr_to_coo a), br, bc)
  | "to_bcoo", BCsc a -> (BCoo (csc_to_coo a), br, bc)
  | "to_bsr", BCoo a -> (BCsr (coo_to_csr a), br, bc) | "to_bsr", BCsr a -> (BCsr (csr_to_csr a), br, bc)
  | "to_bsr", BCsc a -> (BCsr (csc_to_csr a), br, bc)
  | "to_bsc", BCoo a -> (BCsc (coo_to_csc a), br, bc) | "to_bsc", BCsr a -> (BCsc (csr_to_csc a), br, bc)
  | "to_bsc", BCsc a -> (BCsc (csc_to_csc a), br, bc)
  | "copy", BCoo a -> (BCoo (coo_to_coo a), br, bc) | "copy", BCsr a -> (BCsr (csr_to_csr a), br, bc)
  | "copy", BCsc a -> (BCsc (csc_to_csc a), br, bc)
  | "transpose", BCoo a -> (BCoo (q_bcoo_transpose nbr nbc a), bc, br)
  | "transpose", BCsr a -> (BCsr (q_bsr_transpose nbr nbc a), bc, br)
  | "transpose", BCsc a -> (BCsc (q_bsc_transpose nbr nbc a), bc, br)
  | "sort", BCoo a -> (BCoo (coo_sort a), br, bc) | "sort", BCsr a -> (BCsr (csr_sort a), br, bc)
  | "sort", BCsc a -> (BCsc (csc_sort a), br, bc)
  | "move_diag", BCsr a -> (BCsr (csr_move_diag a), br, bc) | "move_diag", BCsc a -> (BCsc (csc_move_diag a), br, bc)
  | "remove_duplicates", BCoo a -> (BCoo (q_bcoo_remove_duplicates a), br, bc)
  | "remove_duplicates", BCsr a -> (BCsr (q_bsr_remove_duplicates a), br, bc)
  | "remove_duplicates", BCsc a -> (BCsc (q_bsc_remove_duplicates a), br, bc)
  | _ -> failwith ("bop " ^ op)

let bmat_str (m, br, bc) =
  let blk_str l = String.concat " " (List.map qs_str l) in
  let lines fmt nr nc ls =
    let flat = List.concat ls in
    Printf.sprintf "%s %d %d %d %d %d I1 %s I2 %s V %s" fmt (int_of_nat nr) (int_of_nat nc) br bc (List.length flat)
      (ints_str (ptr_of ls)) (nats_str (List.map fst flat)) (blk_str (List.map snd flat)) in
  match m with
  | BCoo a -> Printf.sprintf "bcoo %d %d %d %d %d I1 %s I2 %s V %s" (int_of_nat a.coo_nr) (int_of_nat a.coo_nc) br bc
                (List.length a.coo_ents) (nats_str (List.map (fun e -> fst (fst e)) a.coo_ents))
                (nats_str (List.map (fun e -> snd (fst e)) a.coo_ents)) (blk_str (List.map snd a.coo_ents))
  | BCsr a -> lines "bsr" a.csr_nr a.csr_nc a.csr_rows
  | BCsc a -> lines "bsc" a.csc_nr a.csc_nc a.csc_cols

let run_case cid (t : toks) =
  let op = next t in
  match op with
  | "chain" ->
    let m = parse_mat t in
    if not (wf m) then Printf.printf "%s ILLFORMED\n" cid else begin
      let k = next_int t in
      let ops = take k (fun () -> next t) in
      let r = List.fold_left apply_op m ops in
      Printf.printf "%s R %s\n" cid (mat_str r) end
  | "add" | "subtract" | "add_nodup" ->
    let a = parse_mat t in let b = parse_mat t in
    let a' = as_csr a and b' = as_csr b in
    let c = (match op with "add" -> q_csr_add a' b' true | "add_nodup" -> q_csr_add a' b' false
                         | _ -> q_csr_subtract a' b') in
    Printf.printf "%s R %s\n" cid (mat_str (MCsr c))
  | "spmv" ->
    let kind = next t in let m = parse_mat t in
    let nx = next_int t in let x = next_qs t nx in
    let nb = next_int t in let b = next_qs t nb in
    Printf.printf "%s V %s\n" cid (qs_str (spmv kind m x b))
  | "bchain" ->
    let bfmt = next t in
    let nbr = next_int t in let nbc = next_int t in let br = next_int t in let bc = next_int t in
    let nblk = next_int t in
    let ents = take nblk (fun () -> let i = next_nat t in let j = next_nat t in let v = next_qs t (br * bc) in ((i, j), v)) in
    let a = { coo_nr = nat_of_int nbr; coo_nc = nat_of_int nbc; coo_ents = ents } in
    let m0 = (match bfmt with "bcoo" -> BCoo a | "bsr" -> BCsr (coo_to_csr a) | "bsc" -> BCsc (coo_to_csc a) | _ -> failwith bfmt) in
    let k = next_int t in
    let ops = take k (fun () -> next t) in
    (match List.rev ops with
     | "to_csr" :: _ | "to_coo" :: _ | "to_csc" :: _ -> Printf.printf "%s UNSUPPORTED scalar-conversion\n" cid
     | _ -> let r = List.fold_left bapply (m0, br, bc) ops in Printf.printf "%s R %s\n" cid (bmat_str r))
  | "bspmv" | "bconv" ->
    (* block literal: bfmt nbr nbc br bc nblk (I J v*(br*bc))*  *)
    let kind = if op = "bspmv" then next t else "" in
    let _bfmt = next t in
    let nbr = next_int t in let nbc = next_int t in let br = next_int t in let bc = next_int t in
    let nblk = next_int t in
    let ents = take nblk (fun () -> let i = next_nat t in let j = next_nat t in let v = next_qs t (br * bc) in ((i, j), v)) in
    let a = { coo_nr = nat_of_int nbr; coo_nc = nat_of_int nbc; coo_ents = ents } in
    if op = "bconv" then
      Printf.printf "%s R %s\n" cid (mat_str (MCsr (q_bsr_to_csr (nat_of_int br) (nat_of_int bc) (coo_to_csr a))))
    else begin
      let e = q_bcoo_expand (nat_of_int br) (nat_of_int bc) a in
      let nx = next_int t in let x = next_qs t nx in
      let nb = next_int t in let b = next_qs t nb in
      Printf.printf "%s V %s\n" cid (qs_str (spmv kind (MCoo e) x b)) end
  | _ -> Printf.printf "%s UNSUPPORTED %s\n" cid op

let () =
  let ic = open_in Sys.argv.(1) in
  (try while true do
      let line = input_line ic in
      if String.length line > 0 && line.[0] <> '#' then begin
        let t = { rest = List.filter (fun s -> s <> "") (String.split_on_char ' ' line) } in
        let cid = next t in
        (try run_case cid t with
         | Failure m -> Printf.printf "%s ERR %s\n" cid m
         | Not_found -> Printf.printf "%s ERR notfound\n" cid
         | Invalid_argument m -> Printf.printf "%s ERR %s\n" cid m)
      end
    done with End_of_file -> ());
  close_in ic
