(* parsing / printing matrices in the boundary (flat array) form *)
open Model
open Conv

type mat = MCoo of qc coo | MCsr of qc csr | MCsc of qc csc

let lines_of ptr idx2 vals =
  split_by_ptr ptr (List.combine (List.map nat_of_int idx2) vals)

let parse_mat (t : toks) : mat =
  let fmt = next t in
  let nr = next_int t in let nc = next_int t in let nnz = next_int t in
  match fmt with
  | "coo" ->
    let r = next_ints t nnz in let c = next_ints t nnz in let v = next_qs t nnz in
    let rec zip3 a b c = match a, b, c with
      | x :: a', y :: b', z :: c' -> ((nat_of_int x, nat_of_int y), z) :: zip3 a' b' c'
      | _ -> [] in
    MCoo { coo_nr = nat_of_int nr; coo_nc = nat_of_int nc; coo_ents = zip3 r c v }
  | "csr" ->
    let p = next_ints t (nr + 1) in let c = next_ints t nnz in let v = next_qs t nnz in
    MCsr { csr_nr = nat_of_int nr; csr_nc = nat_of_int nc; csr_rows = lines_of p c v }
  | "csc" ->
    let p = next_ints t (nc + 1) in let c = next_ints t nnz in let v = next_qs t nnz in
    MCsc { csc_nr = nat_of_int nr; csc_nc = nat_of_int nc; csc_cols = lines_of p c v }
  | _ -> failwith ("format " ^ fmt)

let ptr_of lines =
  let rec go acc = function [] -> [] | l :: tl -> let a = acc + List.length l in a :: go a tl in
  0 :: go 0 lines

let print_lines fmt nr nc lines =
  let flat = List.concat lines in
  Printf.sprintf "%s %d %d %d I1 %s I2 %s V %s" fmt (int_of_nat nr) (int_of_nat nc) (List.length flat)
    (ints_str (ptr_of lines)) (nats_str (List.map fst flat)) (qs_str (List.map snd flat))

let mat_str = function
  | MCoo a ->
    Printf.sprintf "coo %d %d %d I1 %s I2 %s V %s" (int_of_nat a.coo_nr) (int_of_nat a.coo_nc)
      (List.length a.coo_ents)
      (nats_str (List.map (fun e -> fst (fst e)) a.coo_ents))
      (nats_str (List.map (fun e -> snd (fst e)) a.coo_ents))
      (qs_str (List.map snd a.coo_ents))
  | MCsr a -> print_lines "csr" a.csr_nr a.csr_nc a.csr_rows
  | MCsc a -> print_lines "csc" a.csc_nr a.csc_nc a.csc_cols

let wf = function
  | MCoo a -> coo_wfb a
  | MCsr a -> csr_wfb a
  | MCsc a -> csc_wfb a

let to_fmt (m : mat) (f : string) : mat =
  match m, f with
  | MCoo a, "coo" -> MCoo (coo_to_coo a) | MCoo a, "csr" -> MCsr (coo_to_csr a) | MCoo a, "csc" -> MCsc (coo_to_csc a)
  | MCsr a, "coo" -> MCoo (csr_to_coo a) | MCsr a, "csr" -> MCsr (csr_to_csr a) | MCsr a, "csc" -> MCsc (csr_to_csc a)
  | MCsc a, "coo" -> MCoo (csc_to_coo a) | MCsc a, "csr" -> MCsr (csc_to_csr a) | MCsc a, "csc" -> MCsc (csc_to_csc a)
  | _ -> failwith ("to " ^ f)
let as_csr m = match to_fmt m "csr" with MCsr a -> a | _ -> assert false
